(** Lemmas about byte coding and Python slicing. *)
From Coq Require Import Lia ZifyBool ZifyNat ZifyN.
From NX Require Import Bytes.
Ltac Zify.zify_post_hook ::= Z.to_euclidean_division_equations.
Open Scope N_scope.

Lemma le_enc_length k n : length (le_enc k n) = k.
Proof. revert n; induction k as [|k IH]; intros n; simpl; [reflexivity|now rewrite IH]. Qed.

Lemma le_enc_wf k n : wf_bytes (le_enc k n).
Proof.
  revert n; induction k as [|k IH]; intros n; simpl; constructor.
  - apply N.mod_lt; discriminate.
  - apply IH.
Qed.

Lemma pow256_S k : pow256 (S k) = 256 * pow256 k.
Proof.
  unfold pow256. replace (8 * N.of_nat (S k)) with (8 + 8 * N.of_nat k) by lia.
  rewrite N.pow_add_r. reflexivity.
Qed.

Lemma pow256_pos k : 0 < pow256 k.
Proof. unfold pow256. apply N.neq_0_lt_0, N.pow_nonzero. discriminate. Qed.

Lemma le_dec_enc k n : le_dec (le_enc k n) = n mod pow256 k.
Proof.
  revert n; induction k as [|k IH]; intros n.
  - simpl. unfold pow256. simpl. now rewrite N.mod_1_r.
  - cbn [le_enc le_dec]. rewrite IH, pow256_S.
    pose proof (pow256_pos k) as Hp.
    rewrite N.mod_mul_r by lia. reflexivity.
Qed.

Lemma le_dec_bound l : wf_bytes l -> le_dec l < pow256 (length l).
Proof.
  induction 1 as [|b r Hb Hr IH].
  - simpl. unfold pow256; simpl; lia.
  - cbn [le_dec length]. rewrite pow256_S. lia.
Qed.

Lemma le_enc_dec l : wf_bytes l -> le_enc (length l) (le_dec l) = l.
Proof.
  induction 1 as [|b r Hb Hr IH]; [reflexivity|].
  cbn [le_dec length le_enc].
  assert (E1 : (b + 256 * le_dec r) mod 256 = b) by lia.
  assert (E2 : (b + 256 * le_dec r) / 256 = le_dec r) by lia.
  rewrite E1, E2.
  now rewrite IH.
Qed.

Lemma wf_bytes_app a b : wf_bytes a -> wf_bytes b -> wf_bytes (a ++ b).
Proof. unfold wf_bytes. intros; apply Forall_app; split; assumption. Qed.

Lemma wf_bytes_rev a : wf_bytes a -> wf_bytes (rev a).
Proof. unfold wf_bytes. intros H. apply Forall_rev. exact H. Qed.

Lemma wf_bytesb_iff l : wf_bytesb l = true <-> wf_bytes l.
Proof.
  unfold wf_bytesb, wf_bytes, is_byte. rewrite forallb_forall, Forall_forall.
  split; intros H x Hx; specialize (H x Hx); lia.
Qed.

Lemma In_firstn {A} n (l : list A) x : In x (firstn n l) -> In x l.
Proof.
  revert l; induction n as [|n IH]; intros l; simpl; [tauto|].
  destruct l as [|a l]; [auto|]. simpl. intros [H|H]; [left; exact H|right; auto].
Qed.

Lemma wf_bytes_firstn n l : wf_bytes l -> wf_bytes (firstn n l).
Proof.
  unfold wf_bytes. rewrite !Forall_forall. intros H x Hx. apply H.
  eapply In_firstn; eauto.
Qed.

Lemma In_skipn {A} n (l : list A) x : In x (skipn n l) -> In x l.
Proof.
  revert l; induction n as [|n IH]; intros l; simpl; [auto|].
  destruct l as [|a l]; [auto|]. intros H; right; auto.
Qed.

Lemma wf_bytes_skipn n l : wf_bytes l -> wf_bytes (skipn n l).
Proof.
  unfold wf_bytes. rewrite !Forall_forall. intros H x Hx. apply H.
  eapply In_skipn; eauto.
Qed.

Lemma wf_bytes_repeat0 k : wf_bytes (repeat 0 k).
Proof. unfold wf_bytes. apply Forall_forall. intros x Hx. apply repeat_spec in Hx. subst; lia. Qed.

(** * Slices *)
Lemma clip_index_in len i : (0 <= i <= Z.of_nat len)%Z -> clip_index len i = Z.to_nat i.
Proof.
  intros H. unfold clip_index.
  destruct (i <? 0)%Z eqn:E1; [lia|].
  destruct (i <? 0)%Z eqn:E2; [lia|].
  destruct (Z.of_nat len <? i)%Z eqn:E3; [lia|]. reflexivity.
Qed.

Lemma clip_index_over len i : (Z.of_nat len <= i)%Z -> clip_index len i = len.
Proof.
  intros H. unfold clip_index.
  destruct (i <? 0)%Z eqn:E1; [lia|].
  rewrite E1.
  destruct (Z.of_nat len <? i)%Z eqn:E3; [reflexivity|]. lia.
Qed.

Lemma slice_to_all {A} (l : list A) j : (zlen l <= j)%Z -> slice_to l j = l.
Proof.
  unfold slice_to, zlen. intros H. rewrite clip_index_over by exact H. apply firstn_all.
Qed.

Lemma slice_to_app {A} (a b : list A) j : j = zlen a -> slice_to (a ++ b) j = a.
Proof.
  unfold slice_to, zlen. intros ->. rewrite clip_index_in.
  - rewrite Nat2Z.id. rewrite firstn_app, Nat.sub_diag, firstn_all. simpl. apply app_nil_r.
  - rewrite app_length. lia.
Qed.

Lemma slice_from_app {A} (a b : list A) i : i = zlen a -> slice_from (a ++ b) i = b.
Proof.
  unfold slice_from, zlen. intros ->. rewrite clip_index_in.
  - rewrite Nat2Z.id. rewrite skipn_app, Nat.sub_diag, skipn_all. reflexivity.
  - rewrite app_length. lia.
Qed.

Lemma slice_from_0 {A} (l : list A) : slice_from l 0 = l.
Proof. unfold slice_from. rewrite clip_index_in by lia. reflexivity. Qed.

Lemma pyslice_mid {A} (a m b : list A) i j :
  i = zlen a -> j = zlen (a ++ m) -> pyslice (a ++ m ++ b) i j = m.
Proof.
  unfold pyslice, zlen. intros -> ->.
  rewrite !clip_index_in by (rewrite ?app_length; lia).
  rewrite !Nat2Z.id, app_length.
  rewrite skipn_app, Nat.sub_diag, skipn_all. simpl.
  replace (length a + length m - length a)%nat with (length m) by lia.
  rewrite firstn_app, Nat.sub_diag, firstn_all. simpl. apply app_nil_r.
Qed.

Lemma zlen_app {A} (a b : list A) : zlen (a ++ b) = (zlen a + zlen b)%Z.
Proof. unfold zlen. rewrite app_length. lia. Qed.

Lemma zlen_nonneg {A} (l : list A) : (0 <= zlen l)%Z.
Proof. unfold zlen. lia. Qed.

(** * find_byte *)
Lemma find_byte_head b r : find_byte b (b :: r) = Some O.
Proof. simpl. now rewrite N.eqb_refl. Qed.

Lemma find_byte_none b l : (forall x, In x l -> x <> b) -> find_byte b l = None.
Proof.
  induction l as [|x r IH]; intros H; [reflexivity|].
  simpl. destruct (x =? b) eqn:E.
  - apply N.eqb_eq in E. exfalso. apply (H x); [left; reflexivity|exact E].
  - rewrite IH; [reflexivity|]. intros y Hy. apply H. right; exact Hy.
Qed.

Lemma find_byte_app_skip b a l :
  (forall x, In x a -> x <> b) ->
  find_byte b (a ++ l) = option_map (fun i => (length a + i)%nat) (find_byte b l).
Proof.
  induction a as [|x r IH]; intros H; simpl.
  - destruct (find_byte b l); reflexivity.
  - destruct (x =? b) eqn:E.
    + apply N.eqb_eq in E. exfalso. apply (H x); [left; reflexivity|exact E].
    + rewrite IH by (intros y Hy; apply H; right; exact Hy).
      destruct (find_byte b l); reflexivity.
Qed.

(** * sweeping all n < 2^k by binary expansion (fuel is k, not 2^k) *)
Fixpoint all_bits (k : nat) (base : N) (f : N -> bool) : bool :=
  match k with
  | O => f base
  | S k' => all_bits k' (2 * base) f && all_bits k' (2 * base + 1) f
  end.

Lemma all_bits_spec k : forall base f,
  all_bits k base f = true ->
  forall n, n < 2 ^ N.of_nat k -> f (base * 2 ^ N.of_nat k + n) = true.
Proof.
  induction k as [|k IH]; intros base f H n Hn.
  - simpl in *. assert (n = 0) by lia. subst. now rewrite N.mul_1_r, N.add_0_r.
  - cbn [all_bits] in H. apply andb_prop in H. destruct H as [H0 H1].
    replace (N.of_nat (S k)) with (N.succ (N.of_nat k)) in * by lia.
    rewrite N.pow_succ_r' in *.
    set (p := 2 ^ N.of_nat k) in *.
    assert (Hp : 0 < p) by (apply N.neq_0_lt_0, N.pow_nonzero; discriminate).
    destruct (N.lt_ge_cases n p) as [Hlt|Hge].
    + specialize (IH _ _ H0 n Hlt). fold p in IH.
      replace (base * (2 * p) + n) with (2 * base * p + n) by lia. exact IH.
    + assert (Hn' : n - p < p) by lia.
      specialize (IH _ _ H1 (n - p) Hn'). fold p in IH.
      replace (base * (2 * p) + n) with ((2 * base + 1) * p + (n - p)) by lia. exact IH.
Qed.

Lemma all_below_pow2 k f :
  all_bits k 0 f = true -> forall n, n < 2 ^ N.of_nat k -> f n = true.
Proof. intros H n Hn. pose proof (all_bits_spec k 0 f H n Hn) as E. simpl in E. exact E. Qed.

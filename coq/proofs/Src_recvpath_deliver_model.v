(** The fan-out of the interpreted [NxscopeHandler._stream_thread] (proofs/Src_recvpath_deliver.v)
    against the hand model model/Deliver.v (the model of property C08), and whole sessions:

    - [deliver] appends to every queue of channel [c] the items [app_items en ss c]: nothing, or ONE
      item, the image under [item_pv] of the selection [gsel en ss c] (the samples of channel [c], in
      frame order, if [c] is enabled);
    - the model's [Deliver.deliver], run on the abstraction of the same frame, appends to a queue
      subscribed once to [c] the image of THE SAME selection under the abstraction of the samples;
      the overflow counters move alike;
    - [k] calls of the interpreted method over a scripted queue of [k] decodable frames: every queue
      of channel [c] holds what it held, then the non-empty groups of [c] of the frames, in frame
      order -- gap-free, duplicate-free, in order. *)
From Coq Require Import String Ascii List ZArith NArith Bool Lia ZifyBool ZifyNat ZifyN.
From NX Require Import Bytes PyStruct PyLite PyLite_tactics Src_all Src_serialframe_proofs.
From NX Require Frame Stream Deliver Deliver_proofs.
From NX Require Import Src_stream_proofs Src_stream_model Src_recvpath_stream Src_recvpath_deliver.
Import ListNotations.
Open Scope string_scope.
Open Scope list_scope.
Open Scope Z_scope.

(** * The selection both sides are images of *)
Definition gsel (en : list bool) (ss : list Stream.sample) (c : nat) : list Stream.sample :=
  if nth c en false then filter (fun s => Stream.s_chan s =? Z.of_nat c) ss else [].

Lemma group_gsel en ss c : group en ss c = map item_pv (gsel en ss c).
Proof. unfold group, gsel. destruct (nth c en false); reflexivity. Qed.

(** what one frame appends to every queue of channel [c] *)
Definition app_items (en : list bool) (ss : list Stream.sample) (c : nat) : list pv :=
  match gsel en ss c with [] => [] | l => [PList (map item_pv l)] end.

Lemma deliver_row_app en ss subs c :
  nth c (deliver en ss subs) [] = map (fun q => (fst q, snd q ++ app_items en ss c)) (nth c subs []).
Proof.
  rewrite deliver_row_spec, group_gsel. unfold app_items.
  destruct (gsel en ss c) as [|s l]; cbn [map]; [|reflexivity].
  induction (nth c subs []) as [|[a b] r IH]; cbn [map fst snd]; [reflexivity|].
  rewrite app_nil_r, <- IH. reflexivity.
Qed.

Lemma deliver_length en ss subs : List.length (deliver en ss subs) = List.length subs.
Proof. apply deliver_from_length. Qed.

(** * Against model/Deliver.v *)
Section Model.
(** any abstraction of a sample's content to the model's value *)
Variable val : Stream.sample -> Z.

Definition abs_frame (fl : Z) (ss : list Stream.sample) : Deliver.sframe :=
  Deliver.mkSF fl (map (fun s => (Z.to_nat (Stream.s_chan s), val s)) ss).

Lemma model_group_gsel fl ss en c :
  Forall (fun s => 0 <= Stream.s_chan s) ss ->
  Deliver.group c (abs_frame fl ss) en = map val (gsel en ss c).
Proof.
  intros H. unfold Deliver.group, gsel, abs_frame. cbn [Deliver.sf_samples].
  destruct (nth c en false); [|reflexivity].
  induction H as [|s t Hs _ IH]; cbn [map filter fst]; [reflexivity|].
  replace (Nat.eqb (Z.to_nat (Stream.s_chan s)) c) with (Stream.s_chan s =? Z.of_nat c)
    by (apply eq_true_iff_eq; rewrite Nat.eqb_eq, Z.eqb_eq; lia).
  destruct (Stream.s_chan s =? Z.of_nat c); cbn [map snd]; rewrite IH; reflexivity.
Qed.

(** the model's per-frame delivery, for a queue subscribed exactly once (to channel [c]): it appends
    the image of the same selection *)
Theorem model_appends st fl ss q c :
  Forall (fun s => 0 <= Stream.s_chan s) ss ->
  (c < List.length (Deliver.enabled st))%nat ->
  Deliver_proofs.mult (Deliver.subs st) c q = 1%nat ->
  (forall c', c' <> c -> Deliver_proofs.mult (Deliver.subs st) c' q = 0%nat) ->
  Deliver.qget (Deliver.queues (Deliver.deliver st (abs_frame fl ss))) q =
  Deliver.qget (Deliver.queues st) q ++
  match gsel (Deliver.enabled st) ss c with [] => [] | l => [map val l] end.
Proof.
  intros H0 Hc H1 Hz. rewrite Deliver_proofs.deliver_spec.
  rewrite (Deliver_proofs.received_single _ _ _ q c _ Hc H1 Hz), model_group_gsel by exact H0.
  destruct (gsel (Deliver.enabled st) ss c); reflexivity.
Qed.

(** the overflow counters: the model counts odd flags, the source tests bit 0 *)
Lemma land1_odd fl : (Z.land fl 1 =? 0) = negb (Z.odd fl).
Proof.
  change 1 with (Z.ones 1) at 1. rewrite Z.land_ones by lia. change (2 ^ 1) with 2.
  rewrite Zmod_odd. destruct (Z.odd fl); reflexivity.
Qed.

Lemma model_ovf st fl ss (ovf : Z) :
  Z.of_nat (Deliver.ovf st) = ovf ->
  Z.of_nat (Deliver.ovf (Deliver.deliver st (abs_frame fl ss))) = (if Z.land fl 1 =? 0 then ovf else ovf + 1).
Proof.
  intros H. cbn [Deliver.deliver Deliver.ovf abs_frame Deliver.sf_flags]. rewrite land1_odd.
  destruct (Z.odd fl); cbn [negb]; lia.
Qed.
End Model.

(** * Sessions: [k] calls over [k] decodable frames *)
Fixpoint iter_stream (F : nat) (k : nat) (r : pv) : PyLite.res pv :=
  match k with
  | O => PyLite.Ok r
  | S k' =>
      match call_method program F r "_stream_thread" [] with
      | PyLite.Ok (_, r') => iter_stream F k' r'
      | Exc c => Exc c
      | ExcS c st => ExcS c st
      | Fuel => Fuel
      | Unsupported w => Unsupported w
      end
  end.

(** a stream frame on the wire side of the stream queue and what the model decoder makes of it *)
Record dframe := mkDF { df_data : bytes; df_flags : Z; df_samples : list Stream.sample }.

Section Session.
Variables (dd_rest : list (string * pv)) (cfgs : list chan_cfg) (en : list bool)
          (en_new div_now div_new en_sync div_sync : pv).
Let cm : Z := Z.of_nat (List.length cfgs).
Let comm (qs : list sitem) : pv :=
  sch (dev_obj (ddata_pv cm dd_rest) cfgs) (chans_pv en en_new div_now div_new en_sync div_sync) qs.
Hypothesis Hen : List.length en = List.length cfgs.
Hypothesis Hok : Forall cfg_ok cfgs.
Hypothesis Hidx : indexed cfgs.

Definition decodable (f : dframe) : Prop :=
  Stream.stream_decode (lay_of cfgs) [] (df_data f) = Frame.Ok (Some (df_flags f, df_samples f)) /\
  existsb sample_lossy (df_samples f) = false.

Definition deliver_all (fs : list dframe) (subs : list (list subq)) : list (list subq) :=
  fold_left (fun sb f => deliver en (df_samples f) sb) fs subs.
Definition ovf_all (fs : list dframe) (ovf : Z) : Z :=
  fold_left (fun o f => if Z.land (df_flags f) 1 =? 0 then o else o + 1) fs ovf.

Theorem stream_session F : forall fs r subs ovf,
  Forall decodable fs -> Forall (fun f => (6 + List.length (df_data f) <= F)%nat) fs ->
  List.length subs = List.length cfgs ->
  iter_stream F (List.length fs) (nxh (comm (map (fun f => SFrame 1 (df_data f)) fs ++ r)) subs ovf) =
  PyLite.Ok (nxh (comm r) (deliver_all fs subs) (ovf_all fs ovf)).
Proof.
  induction fs as [|f fs IH]; intros r subs ovf Hd HF Hs; [reflexivity|].
  inversion Hd as [|? ? [HM HL] Hd']; subst. inversion HF as [|? ? HF1 HF']; subst.
  cbn [List.length map app iter_stream].
  replace F with (6 + List.length (df_data f) + (F - 6 - List.length (df_data f)))%nat by lia.
  rewrite (stream_thread_frame dd_rest cfgs en en_new div_now div_new en_sync div_sync Hen Hok _ (df_data f)
             (map (fun f0 => SFrame 1 (df_data f0)) fs ++ r) subs ovf (df_flags f) (df_samples f) Hidx Hs HM HL).
  replace (6 + List.length (df_data f) + (F - 6 - List.length (df_data f)))%nat with F by lia.
  rewrite IH; [reflexivity | exact Hd' | exact HF' | rewrite deliver_length; exact Hs].
Qed.

(** what a queue of channel [c] holds afterwards: what it held, then one item per frame that has
    samples of [c] (and [c] enabled), in frame order: no gap, no duplicate, nothing foreign *)
Lemma deliver_all_length fs : forall subs, List.length (deliver_all fs subs) = List.length subs.
Proof.
  induction fs as [|f fs IH]; intros subs; [reflexivity|]. unfold deliver_all in *. cbn [fold_left].
  rewrite IH. apply deliver_length.
Qed.

Theorem session_row fs : forall subs c,
  nth c (deliver_all fs subs) [] =
  map (fun q => (fst q, snd q ++ flat_map (fun f => app_items en (df_samples f) c) fs)) (nth c subs []).
Proof.
  induction fs as [|f fs IH]; intros subs c; unfold deliver_all in *; cbn [fold_left flat_map].
  - induction (nth c subs []) as [|[a b] r IHr]; cbn [map fst snd]; [reflexivity|].
    rewrite app_nil_r, <- IHr. reflexivity.
  - rewrite IH, deliver_row_app, map_map. apply map_ext. intros [a b]. cbn [fst snd].
    rewrite <- app_assoc. reflexivity.
Qed.
End Session.

(** * Audit *)
Print Assumptions model_appends.
Print Assumptions model_ovf.
Print Assumptions stream_session.
Print Assumptions session_row.

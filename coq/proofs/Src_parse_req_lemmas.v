(** Generic lemmas used by proofs/Src_parse_req_proofs.v:
    - [for_loop_fold_res]: the loop principle of PyLite_tactics.for_loop_fold
      for a body that may RAISE (the model step function returns a [res]);
    - [py_index_map_0] / [py_index_map_nat]: indexing [PList (map g l)];
    - [dedup_map], [dd_all_same]: [len(set(xs)) <= 1] is [Request.all_same];
    - [en_fold] / [div_fold]: the bulk loops of Parser.frame_enable/frame_div
      over [range(chmax)] are [Request.en_bulk_bytes]/[div_bulk_bytes]. *)
From Coq Require Import String Ascii List ZArith NArith Bool Lia ZifyBool.
From NX Require Import Bytes PyStruct Crc PyLite PyLite_tactics.
From NX Require Import Bytes_proofs.
From NX Require Frame Request.
Import ListNotations.
Open Scope string_scope.
Open Scope Z_scope.

(** * Generic: a [for] loop whose body may raise *)
Fixpoint fold_res {A B} (f : A -> B -> PyLite.res A) (l : list B) (a : A) : PyLite.res A :=
  match l with
  | [] => PyLite.Ok a
  | y :: r => do a' <- f a y; fold_res f r a'
  end.

Lemma for_loop_fold_res {A B} (env_of : A -> env) (g : B -> pv) (f : A -> B -> PyLite.res A) P cf lf t b :
  (forall a y,
     (do e1 <- attach (env_of a) (assign P cf (env_of a) t (g y));
      do o <- exec_block P cf lf e1 b; PyLite.Ok (iter_ok o))
     = do a' <- f a y; PyLite.Ok (Some (env_of a'))) ->
  forall l a,
    for_loop P cf lf t b (map g l) (env_of a) = do a' <- fold_res f l a; PyLite.Ok (ONorm (env_of a')).
Proof.
  intros H l. induction l as [|y r IH]; intros a; cbn [map fold_res].
  - apply for_loop_nil.
  - rewrite for_loop_cons. specialize (H a y).
    destruct (assign P cf (env_of a) t (g y)) as [e1| | | |]; cbn [attach bind] in *.
    2-5: destruct (f a y); cbn [bind] in *; congruence.
    destruct (exec_block P cf lf e1 b) as [o| | | |]; cbn [bind] in *.
    2-5: destruct (f a y); cbn [bind] in *; congruence.
    destruct (f a y) as [a'| | | |]; cbn [bind] in *; try discriminate.
    destruct o; cbn [iter_ok loop_next] in *; inversion H; subst; apply IH.
Qed.

(** * Generic: indexing a mapped list *)
Lemma py_index_map_nat {B} (g : B -> pv) l k :
  py_index (PList (map g l)) (PInt (0 + Z.of_nat k)) =
  match nth_error l k with Some b => PyLite.Ok (g b) | None => Exc "IndexError" end.
Proof.
  unfold py_index, as_int, norm_index. rewrite map_length, Z.add_0_l.
  destruct (nth_error l k) as [b|] eqn:E.
  - assert (k < length l)%nat by (apply nth_error_Some; congruence).
    replace ((0 <=? Z.of_nat k) && (Z.of_nat k <? Z.of_nat (length l))) with true by lia.
    rewrite Nat2Z.id. f_equal. rewrite (nth_indep (map g l) PNone (g b)) by (rewrite map_length; lia).
    rewrite (map_nth g l b k). rewrite (nth_error_nth l k b E). reflexivity.
  - apply nth_error_None in E.
    replace ((0 <=? Z.of_nat k) && (Z.of_nat k <? Z.of_nat (length l))) with false by lia.
    replace ((Z.of_nat k <? 0) && (0 <=? Z.of_nat k + Z.of_nat (length l))) with false by lia.
    reflexivity.
Qed.

Lemma py_index_map_0 {B} (g : B -> pv) l :
  py_index (PList (map g l)) (PInt 0) =
  match l with x :: _ => PyLite.Ok (g x) | [] => Exc "IndexError" end.
Proof. destruct l; reflexivity. Qed.

(** * Generic: [set()] of a mapped list *)
Fixpoint dd {A} (eqb : A -> A -> bool) (l acc : list A) : list A :=
  match l with
  | [] => rev acc
  | x :: r => if existsb (eqb x) acc then dd eqb r acc else dd eqb r (x :: acc)
  end.

Lemma mem_eq_map {A} (g : A -> pv) (eqb : A -> A -> bool) :
  (forall x y, py_eq (g x) (g y) = Some (eqb x y)) ->
  forall x acc, mem_eq (g x) (map g acc) = Some (existsb (eqb x) acc).
Proof.
  intros H x acc. induction acc as [|y r IH]; cbn [map mem_eq existsb]; [reflexivity|].
  rewrite H. destruct (eqb x y); cbn [orb]; [reflexivity | exact IH].
Qed.

Lemma dedup_map {A} (g : A -> pv) (eqb : A -> A -> bool) :
  (forall x y, py_eq (g x) (g y) = Some (eqb x y)) ->
  forall l acc, dedup (map g l) (map g acc) = Some (map g (dd eqb l acc)).
Proof.
  intros H l. induction l as [|x r IH]; intros acc; cbn [map dedup dd].
  - rewrite map_rev. reflexivity.
  - rewrite (mem_eq_map g eqb H). destruct (existsb (eqb x) acc); [apply IH | apply (IH (x :: acc))].
Qed.

Lemma dd_len_ge {A} (eqb : A -> A -> bool) l : forall acc, (length acc <= length (dd eqb l acc))%nat.
Proof.
  induction l as [|x r IH]; intros acc; cbn [dd].
  - rewrite rev_length. lia.
  - destruct (existsb (eqb x) acc); [apply IH|]. specialize (IH (x :: acc)). cbn [length] in IH. lia.
Qed.

Lemma dd_all_same {A} (eqb : A -> A -> bool) :
  (forall x y, eqb x y = eqb y x) ->
  forall l, (zlen (dd eqb l []) <=? 1) = Request.all_same eqb l.
Proof.
  intros Hs [|x r]; [reflexivity|]. cbn [dd existsb Request.all_same].
  induction r as [|y r IH]; [reflexivity|].
  cbn [dd existsb forallb]. rewrite (Hs y x). destruct (eqb x y); cbn [orb andb]; [exact IH|].
  pose proof (dd_len_ge eqb r [y; x]) as L. cbn [length] in L. unfold zlen. lia.
Qed.

Lemma dedup_PBool l : dedup (map PBool l) [] = Some (map PBool (dd Bool.eqb l [])).
Proof. apply (dedup_map PBool Bool.eqb (fun x y => ltac:(destruct x, y; reflexivity)) l []). Qed.
Lemma dedup_PInt l : dedup (map PInt l) [] = Some (map PInt (dd Z.eqb l [])).
Proof. apply (dedup_map PInt Z.eqb (fun x y => eq_refl) l []). Qed.
Lemma dd_all_same_bool l : (zlen (dd Bool.eqb l []) <=? 1) = Request.all_same Bool.eqb l.
Proof. apply dd_all_same. intros [] []; reflexivity. Qed.
Lemma dd_all_same_Z l : (zlen (dd Z.eqb l []) <=? 1) = Request.all_same Z.eqb l.
Proof. apply dd_all_same. intros. apply Z.eqb_sym. Qed.

(** * The bulk loops of [frame_enable] / [frame_div] as folds over [range(chmax)] *)
Definition emb_res {A} (r : Frame.res A) : PyLite.res A :=
  match r with
  | Frame.Ok x => PyLite.Ok x
  | Frame.Raise w => Exc w
  | Frame.Err _ => Unsupported ""
  end.

Definition rng (k : nat) : pv := PInt (0 + Z.of_nat k).

(** loop state: the accumulated [data] and the loop variable (absent before the first iteration).
    [ef] embeds the loop state into environments: a raise in iteration [k] happens in the
    environment of the state "[data] so far, loop variable [k]", and carries it. *)
Definition en_step (l : list bool) (ef : bytes * option pv -> env) (a : bytes * option pv) (k : nat)
  : PyLite.res (bytes * option pv) :=
  match nth_error l k with
  | Some b => PyLite.Ok ((fst a ++ [Request.b01 b])%list, Some (rng k))
  | None => ExcS "IndexError" (ef (fst a, Some (rng k)))
  end.

Definition div_step (l : list Z) (ef : bytes * option pv -> env) (a : bytes * option pv) (k : nat)
  : PyLite.res (bytes * option pv) :=
  match nth_error l k with
  | Some z => if (0 <=? z) && (z <? 256) then PyLite.Ok ((fst a ++ [Z.to_N z])%list, Some (rng k))
              else ExcS "ValueError" (ef (fst a, Some (rng k)))
  | None => ExcS "IndexError" (ef (fst a, Some (rng k)))
  end.

Lemma skipn_nth_error_None {A} (l : list A) s : nth_error l s = None -> skipn s l = [].
Proof. intros H. apply skipn_all2. apply nth_error_None. exact H. Qed.

Lemma skipn_nth_error_Some {A} (l : list A) : forall s x, nth_error l s = Some x -> skipn s l = x :: skipn (S s) l.
Proof.
  induction l as [|y r IH]; intros [|s] x H; cbn in *; try discriminate.
  - inversion H. reflexivity.
  - apply IH in H. rewrite H. destruct r; reflexivity.
Qed.

(** the whole loop: the model's bulk encoder; when that raises, the loop raises in the
    environment of some loop state [(d', o')] *)
Lemma en_fold l ef : forall n s d o, exists o' d',
  fold_res (en_step l ef) (seq s n) (d, o) =
  do t <- attach (ef (d', o')) (emb_res (Request.en_bulk_bytes n (skipn s l))); PyLite.Ok ((d ++ t)%list, o').
Proof.
  induction n as [|n IH]; intros s d o.
  - exists o, d. cbn. rewrite app_nil_r. reflexivity.
  - cbn [seq fold_res Request.en_bulk_bytes]. unfold en_step at 1. cbn [fst].
    destruct (nth_error l s) as [b|] eqn:E.
    + rewrite (skipn_nth_error_Some l s b E). cbn [bind].
      destruct (IH (S s) (d ++ [Request.b01 b])%list (Some (rng s))) as (o' & d' & Ho'). exists o', d'.
      eapply eq_trans; [exact Ho'|].
      destruct (Request.en_bulk_bytes n (skipn (S s) l)); cbn; try reflexivity.
      rewrite <- app_assoc. destruct b; reflexivity.
    + exists (Some (rng s)), d. rewrite (skipn_nth_error_None l s E). reflexivity.
Qed.

Lemma div_fold l ef : forall n s d o, exists o' d',
  fold_res (div_step l ef) (seq s n) (d, o) =
  do t <- attach (ef (d', o')) (emb_res (Request.div_bulk_bytes n (skipn s l))); PyLite.Ok ((d ++ t)%list, o').
Proof.
  induction n as [|n IH]; intros s d o.
  - exists o, d. cbn. rewrite app_nil_r. reflexivity.
  - cbn [seq fold_res Request.div_bulk_bytes]. unfold div_step at 1. cbn [fst].
    destruct (nth_error l s) as [z|] eqn:E.
    + rewrite (skipn_nth_error_Some l s z E). unfold Request.bytes1.
      destruct ((0 <=? z) && (z <? 256)); cbn [bind Request.bind emb_res attach];
        [|exists (Some (rng s)), d; reflexivity].
      destruct (IH (S s) (d ++ [Z.to_N z])%list (Some (rng s))) as (o' & d' & Ho'). exists o', d'.
      eapply eq_trans; [exact Ho'|].
      destruct (Request.div_bulk_bytes n (skipn (S s) l)); cbn; try reflexivity.
      rewrite <- app_assoc. reflexivity.
    + exists (Some (rng s)), d. rewrite (skipn_nth_error_None l s E). reflexivity.
Qed.

Lemma py_index_map_rng {B} (g : B -> pv) l k :
  py_index (PList (map g l)) (rng k) =
  match nth_error l k with Some b => PyLite.Ok (g b) | None => Exc "IndexError" end.
Proof. apply py_index_map_nat. Qed.

(** Round-trip, length and well-formedness theorems for the [struct] model. *)
From Coq Require Import Lia ZifyBool ZifyNat ZifyN.
From Coq Require String.
From NX Require Import Bytes PyStruct StructCanon Bytes_proofs Float Rn53.

(** * range of the IEEE encoder's output *)
Section Ieee_bound.
Open Scope Z_scope.

Lemma rne_shift_bound a sh k :
  0 <= k -> 0 <= a < 2 ^ (sh + k) -> 0 <= rne_shift a sh <= 2 ^ k.
Proof.
  intros Hk Ha. unfold rne_shift.
  destruct (sh <=? 0) eqn:Hs.
  - apply Z.leb_le in Hs.
    destruct (Z.neg_nonneg_cases (sh + k)) as [Hn|Hn].
    { rewrite Z.pow_neg_r in Ha by exact Hn. lia. }
    assert (E : 2 ^ (sh + k) * 2 ^ (- sh) = 2 ^ k).
    { rewrite <- Z.pow_add_r by lia. f_equal. lia. }
    assert (0 < 2 ^ (- sh)) by (apply Z.pow_pos_nonneg; lia).
    nia.
  - apply Z.leb_gt in Hs. cbv zeta.
    rewrite Z.shiftr_div_pow2 by lia.
    assert (Hp : 0 < 2 ^ sh) by (apply Z.pow_pos_nonneg; lia).
    assert (Hq : 0 <= a / 2 ^ sh < 2 ^ k).
    { split; [apply Z.div_pos; lia|].
      apply Z.div_lt_upper_bound; [exact Hp|].
      rewrite <- Z.pow_add_r by lia. tauto. }
    destruct (_ || _); lia.
Qed.

Lemma fields_bound X B top k r :
  0 < X -> 0 <= B -> top = 0 \/ top = 2 * (B + 1) * X ->
  1 <= k <= 2 * B -> - X <= r < X ->
  0 <= top + k * X + r < 4 * (B + 1) * X.
Proof.
  intros HX HB Ht Hk Hr.
  assert (X <= k * X) by nia.
  assert (k * X <= 2 * B * X) by nia.
  destruct Ht; subst top; nia.
Qed.

Theorem ieee_encode_range p ew num e b :
  1 <= p -> 1 <= ew ->
  ieee_encode p ew num e = Some b -> 0 <= b < 2 ^ (ew + p).
Proof.
  intros Hp Hew. unfold ieee_encode. cbv zeta.
  set (bias := 2 ^ (ew - 1) - 1).
  set (top := Z.shiftl (if num <? 0 then 1 else 0) (ew + p - 1)).
  assert (Hb0 : 0 <= bias) by (subst bias; pose proof (Z.pow_pos_nonneg 2 (ew - 1)); lia).
  assert (Hpp : 0 < 2 ^ (p - 1)) by (apply Z.pow_pos_nonneg; lia).
  assert (Hpe : 2 ^ (ew + p - 1) = 2 ^ ew * 2 ^ (p - 1)).
  { rewrite <- Z.pow_add_r by lia. f_equal. lia. }
  assert (Hpe2 : 2 ^ (ew + p) = 2 * 2 ^ (ew + p - 1)).
  { replace (ew + p) with (Z.succ (ew + p - 1)) at 1 by lia. apply Z.pow_succ_r. lia. }
  assert (Hew2 : 2 ^ ew = 2 * (bias + 1)).
  { subst bias. replace ew with (Z.succ (ew - 1)) at 1 by lia. rewrite Z.pow_succ_r by lia. lia. }
  assert (Hp2 : 2 ^ p = 2 * 2 ^ (p - 1)).
  { replace p with (Z.succ (p - 1)) at 1 by lia. apply Z.pow_succ_r. lia. }
  assert (Htop : top = 0 \/ top = 2 ^ (ew + p - 1)).
  { subst top. destruct (num <? 0); [right|left].
    - rewrite Z.shiftl_mul_pow2 by lia. lia.
    - apply Z.shiftl_0_l. }
  clearbody top bias.
  assert (Hall : 2 ^ (ew + p) = 4 * (bias + 1) * 2 ^ (p - 1)) by nia.
  assert (Htop' : top = 0 \/ top = 2 * (bias + 1) * 2 ^ (p - 1)) by (destruct Htop; [left|right]; nia).
  assert (Hpos : 0 < 2 ^ (ew + p - 1)) by (apply Z.pow_pos_nonneg; lia).
  destruct (Z.abs num =? 0) eqn:Ea.
  { intros H; injection H as <-. lia. }
  apply Z.eqb_neq in Ea.
  assert (Hapos : 0 < Z.abs num) by lia.
  pose proof (Z.log2_spec _ Hapos) as HL.
  pose proof (Z.log2_nonneg (Z.abs num)) as HL0.
  set (L := Z.log2 (Z.abs num)) in *.
  destruct (L - e <? 1 - bias) eqn:Esub.
  - apply Z.ltb_lt in Esub.
    match goal with |- Some (top + ?r) = Some b -> _ => set (m := r) end.
    assert (Hm : 0 <= m <= 2 ^ (p - 1)).
    { subst m. apply rne_shift_bound; [lia|]. split; [lia|].
      eapply Z.lt_le_trans; [apply HL|]. apply Z.pow_le_mono_r; lia. }
    clearbody m. intros H; injection H as <-.
    rewrite Hall. clear - Hm Htop' Hpp Hb0. destruct Htop' as [-> | ->]; nia.
  - apply Z.ltb_ge in Esub.
    assert (Hm : 0 <= rne_shift (Z.abs num) (L - (p - 1)) <= 2 ^ p).
    { apply rne_shift_bound; [lia|]. split; [lia|].
      replace (L - (p - 1) + p) with (Z.succ L) by lia. apply HL. }
    set (m := rne_shift (Z.abs num) (L - (p - 1))) in *.
    destruct (m =? 2 ^ p) eqn:Em.
    + destruct (bias <? L - e + 1) eqn:Eo; [discriminate|].
      apply Z.ltb_ge in Eo. intros H; injection H as <-.
      rewrite Z.shiftl_mul_pow2 by lia. rewrite Hall.
      replace (2 ^ (p - 1) - 2 ^ (p - 1)) with 0 by lia.
      apply fields_bound; lia.
    + apply Z.eqb_neq in Em.
      destruct (bias <? L - e) eqn:Eo; [discriminate|].
      apply Z.ltb_ge in Eo. intros H; injection H as <-.
      rewrite Z.shiftl_mul_pow2 by lia. rewrite Hall.
      apply fields_bound; lia.
Qed.

(** no overflow below the largest exponent: |num / 2^e| < 2^bias is encoded *)
Lemma ieee_encode_some p ew num e :
  Z.log2 (Z.abs num) - e < 2 ^ (ew - 1) - 1 -> exists b, ieee_encode p ew num e = Some b.
Proof.
  intros H. unfold ieee_encode. cbv zeta.
  destruct (Z.abs num =? 0); [eexists; reflexivity|].
  destruct (Z.log2 (Z.abs num) - e <? 1 - (2 ^ (ew - 1) - 1)); [eexists; reflexivity|].
  destruct (rne_shift (Z.abs num) (Z.log2 (Z.abs num) - (p - 1)) =? 2 ^ p).
  - replace (2 ^ (ew - 1) - 1 <? Z.log2 (Z.abs num) - e + 1) with false by lia. eexists; reflexivity.
  - replace (2 ^ (ew - 1) - 1 <? Z.log2 (Z.abs num) - e) with false by lia. eexists; reflexivity.
Qed.

Lemma f32_encode_range n e b : f32_encode n e = Some b -> 0 <= b < 2 ^ 32.
Proof. intros H. apply (ieee_encode_range 24 8 n e b) in H; [exact H|lia|lia]. Qed.

Lemma f64_encode_range n e b : f64_encode n e = Some b -> 0 <= b < 2 ^ 64.
Proof. intros H. apply (ieee_encode_range 53 11 n e b) in H; [exact H|lia|lia]. Qed.
End Ieee_bound.

Ltac Zify.zify_post_hook ::= Z.to_euclidean_division_equations.
Open Scope N_scope.

(** * enc / dec *)
Lemma enc_length e k n : length (enc e k n) = k.
Proof.
  destruct e; unfold enc, be_enc; [|rewrite rev_length]; apply le_enc_length.
Qed.

Lemma enc_wf e k n : wf_bytes (enc e k n).
Proof.
  destruct e; unfold enc, be_enc; [|apply wf_bytes_rev]; apply le_enc_wf.
Qed.

Lemma be_dec_enc k n : be_dec (be_enc k n) = n mod pow256 k.
Proof. unfold be_dec, be_enc. rewrite rev_involutive. apply le_dec_enc. Qed.

Lemma dec_enc e k n : dec e (enc e k n) = n mod pow256 k.
Proof. destruct e; unfold dec, enc; [apply le_dec_enc|apply be_dec_enc]. Qed.

Lemma dec_enc_small e k n : n < pow256 k -> dec e (enc e k n) = n.
Proof. intros H. rewrite dec_enc. apply N.mod_small. exact H. Qed.

(** * two's complement *)
Lemma unsgn_lt k z : unsgn k z < pow256 k.
Proof.
  unfold unsgn. pose proof (pow256_pos k) as Hp.
  revert Hp. generalize (pow256 k). intros P Hp. lia.
Qed.

Lemma of_N_unsgn k z : in_unsigned k z = true -> Z.of_N (unsgn k z) = z.
Proof.
  unfold in_unsigned, unsgn. pose proof (pow256_pos k) as Hp.
  revert Hp. generalize (pow256 k). intros P Hp H.
  assert (0 <= z < Z.of_N P)%Z by lia.
  rewrite Z.mod_small by lia. lia.
Qed.

Lemma unsgn_unsigned k z : in_unsigned k z = true -> unsgn k z = Z.to_N z.
Proof. intros H. apply of_N_unsgn in H. lia. Qed.

Lemma sgn_unsgn k z : in_signed k z = true -> sgn k (unsgn k z) = z.
Proof.
  unfold in_signed, sgn, unsgn. pose proof (pow256_pos k) as Hp.
  revert Hp. generalize (pow256 k). intros P Hp H.
  assert (Hr : (- Z.of_N (P / 2) <= z < Z.of_N (P / 2))%Z) by lia. clear H.
  assert (Hh : 2 * (P / 2) <= P) by lia.
  destruct (Z.neg_nonneg_cases z) as [Hn|Hn].
  - assert (E : (z mod Z.of_N P = z + Z.of_N P)%Z).
    { rewrite <- (Z.mod_add z 1 (Z.of_N P)) by lia. rewrite Z.mod_small; lia. }
    rewrite E. destruct (Z.to_N (z + Z.of_N P) <? P / 2) eqn:E2; lia.
  - rewrite Z.mod_small by lia.
    destruct (Z.to_N z <? P / 2) eqn:E2; lia.
Qed.

(** * single values *)
Definition pack_int (e : endian) (c : code) (v : value) : option bytes :=
  match int_of_value v with
  | Some z =>
      if (if code_signed c then in_signed (code_size c) z
          else in_unsigned (code_size c) z)
      then Some (enc e (code_size c) (unsgn (code_size c) z)) else None
  | None => None
  end.

Lemma pack_one_int e c v : code_is_int c = true -> pack_one e c v = pack_int e c v.
Proof. destruct c; try discriminate; reflexivity. Qed.

Lemma unpack_one_int e c b : code_is_int c = true ->
  unpack_one e c b = if code_signed c then VInt (sgn (code_size c) (dec e b))
                     else VInt (Z.of_N (dec e b)).
Proof. destruct c; try discriminate; reflexivity. Qed.

Lemma canon_one_int c v : code_is_int c = true ->
  canon_one c v = match v with VBool b => VInt (if b then 1 else 0) | _ => v end.
Proof. destruct c; try discriminate; reflexivity. Qed.

Lemma pack_int_length e c v b : pack_int e c v = Some b -> length b = code_size c.
Proof.
  unfold pack_int. destruct (int_of_value v); [|discriminate].
  destruct (if code_signed c then _ else _); [|discriminate].
  intros H; injection H as <-. apply enc_length.
Qed.

Lemma pack_int_wf e c v b : pack_int e c v = Some b -> wf_bytes b.
Proof.
  unfold pack_int. destruct (int_of_value v); [|discriminate].
  destruct (if code_signed c then _ else _); [|discriminate].
  intros H; injection H as <-. apply enc_wf.
Qed.

Lemma int_of_value_canon v z : int_of_value v = Some z ->
  match v with VBool b => VInt (if b then 1 else 0) | _ => v end = VInt z.
Proof. destruct v; cbn; intros H; try discriminate; injection H as <-; reflexivity. Qed.

Lemma unpack_pack_int e c v b : code_is_int c = true ->
  pack_int e c v = Some b -> unpack_one e c b = canon_one c v.
Proof.
  intros Hc. rewrite unpack_one_int, canon_one_int by exact Hc.
  unfold pack_int. destruct (int_of_value v) as [z|] eqn:Ev; [|discriminate].
  rewrite (int_of_value_canon _ _ Ev).
  destruct (code_signed c).
  - destruct (in_signed (code_size c) z) eqn:Er; [|discriminate].
    intros H; injection H as <-.
    rewrite dec_enc_small by apply unsgn_lt. now rewrite sgn_unsgn.
  - destruct (in_unsigned (code_size c) z) eqn:Er; [|discriminate].
    intros H; injection H as <-.
    rewrite dec_enc_small by apply unsgn_lt. now rewrite of_N_unsgn.
Qed.

(** float codes: what is written is the bit pattern [canon_one] names *)
Lemma f32_bits_range v b : f32_bits v = Some b -> (0 <= b < 2 ^ 32)%Z.
Proof.
  destruct v; cbn [f32_bits int_of_value]; try discriminate;
    try (destruct (f64_of_int _); [|discriminate]); apply f32_encode_range.
Qed.

Lemma f64_bits_range v b : f64_bits v = Some b -> (0 <= b < 2 ^ 64)%Z.
Proof.
  destruct v; cbn [f64_bits int_of_value]; try discriminate; apply f64_encode_range.
Qed.

Lemma pack_one_f e v : pack_one e Cf v =
  match v with
  | VF32 bits => if bits <? pow256 4 then Some (enc e 4 bits) else None
  | _ => option_map (fun b => enc e 4 (Z.to_N b)) (f32_bits v)
  end.
Proof.
  destruct v; try reflexivity; unfold pack_one, f32_bits; cbn [int_of_value];
    destruct (f64_of_int _); reflexivity.
Qed.

Lemma pack_one_d e v : pack_one e Cd v =
  match v with
  | VF64 bits => if bits <? pow256 8 then Some (enc e 8 bits) else None
  | _ => option_map (fun b => enc e 8 (Z.to_N b)) (f64_bits v)
  end.
Proof. destruct v; reflexivity. Qed.

Lemma pow256_4 : pow256 4 = 4294967296. Proof. reflexivity. Qed.
Lemma pow256_8 : pow256 8 = 18446744073709551616. Proof. reflexivity. Qed.

Lemma pack_one_f_inv e v b : pack_one e Cf v = Some b ->
  exists bits, b = enc e 4 bits /\ bits < pow256 4 /\ canon_one Cf v = VF32 bits.
Proof.
  rewrite pack_one_f. cbn [canon_one].
  destruct v;
    try (destruct (f32_bits _) as [w|] eqn:E; cbn [option_map]; [|discriminate];
         intros H; injection H as <-; exists (Z.to_N w);
         apply f32_bits_range in E; rewrite pow256_4;
         change (2 ^ 32)%Z with 4294967296%Z in E; repeat split; lia).
  cbn [f32_bits]. destruct (bits <? pow256 4) eqn:E; [|discriminate].
  intros H; injection H as <-. exists bits. repeat split. lia.
Qed.

Lemma pack_one_d_inv e v b : pack_one e Cd v = Some b ->
  exists bits, b = enc e 8 bits /\ bits < pow256 8 /\ canon_one Cd v = VF64 bits.
Proof.
  rewrite pack_one_d. cbn [canon_one].
  destruct v;
    try (destruct (f64_bits _) as [w|] eqn:E; cbn [option_map]; [|discriminate];
         intros H; injection H as <-; exists (Z.to_N w);
         apply f64_bits_range in E; rewrite pow256_8;
         change (2 ^ 64)%Z with 18446744073709551616%Z in E; repeat split; lia).
  cbn [f64_bits]. destruct (bits <? pow256 8) eqn:E; [|discriminate].
  intros H; injection H as <-. exists bits. repeat split. lia.
Qed.

(** an integer given to a float code is converted, not refused: 'd' for every
    |z| < 2^1023, 'f' (shown here for the integers a double holds exactly) *)
Lemma log2_abs_lt z k : (0 < k)%Z -> (Z.abs z < 2 ^ k)%Z -> (Z.log2 (Z.abs z) < k)%Z.
Proof.
  intros Hk H. destruct (Z.eq_dec (Z.abs z) 0) as [->|N]; [cbn; lia|].
  apply Z.log2_lt_pow2; lia.
Qed.

Lemma rn53_exact z : (Z.abs z <= 2 ^ 53)%Z -> rn53 z = z.
Proof.
  intros H. unfold rn53. destruct (z =? 0)%Z eqn:E0; [lia|].
  assert (P : forall y, (0 < y <= 2 ^ 53)%Z -> rn53_pos y = y).
  { intros y Hy. unfold rn53_pos.
    destruct (Z.eq_dec y (2 ^ 53)) as [->|Ny]; [vm_compute; reflexivity|].
    assert (L : (Z.log2 y < 53)%Z) by (apply Z.log2_lt_pow2; lia).
    replace (Z.log2 y + 1 <=? 53)%Z with true by lia. reflexivity. }
  destruct (0 <? z)%Z eqn:Ep.
  - apply P. lia.
  - rewrite P by lia. lia.
Qed.

Theorem pack_d_int e z : (Z.abs z < 2 ^ 1023)%Z ->
  exists b, f64_of_int z = Some b /\ (0 <= b < 2 ^ 64)%Z /\
            pack_one e Cd (VInt z) = Some (enc e 8 (Z.to_N b)) /\
            canon_one Cd (VInt z) = VF64 (Z.to_N b).
Proof.
  intros H. destruct (ieee_encode_some 53 11 z 0) as [b Hb].
  { pose proof (log2_abs_lt z 1023 ltac:(lia) H). change (2 ^ (11 - 1) - 1)%Z with 1023%Z. lia. }
  exists b. split; [exact Hb|]. split; [exact (f64_encode_range _ _ _ Hb)|].
  unfold pack_one, canon_one, f64_bits. cbn [int_of_value]. unfold f64_of_int, f64_encode in *.
  rewrite Hb. split; reflexivity.
Qed.

Theorem pack_f_int e z : (Z.abs z <= 2 ^ 53)%Z ->
  exists b, f32_encode z 0 = Some b /\ (0 <= b < 2 ^ 32)%Z /\
            pack_one e Cf (VInt z) = Some (enc e 4 (Z.to_N b)) /\
            canon_one Cf (VInt z) = VF32 (Z.to_N b).
Proof.
  intros H.
  assert (H53 : (Z.log2 (Z.abs z) < 54)%Z) by (apply log2_abs_lt; lia).
  destruct (ieee_encode_some 53 11 z 0) as [d Hd].
  { change (2 ^ (11 - 1) - 1)%Z with 1023%Z. lia. }
  destruct (ieee_encode_some 24 8 z 0) as [b Hb].
  { change (2 ^ (8 - 1) - 1)%Z with 127%Z. lia. }
  exists b. split; [exact Hb|]. split; [exact (f32_encode_range _ _ _ Hb)|].
  unfold pack_one, canon_one, f32_bits. cbn [int_of_value]. unfold f64_of_int, f64_encode, f32_encode in *.
  rewrite Hd, (rn53_exact z H), Hb. split; reflexivity.
Qed.

Lemma pack_one_length e c v b : pack_one e c v = Some b -> length b = code_size c.
Proof.
  destruct (code_is_int c) eqn:Hc.
  - rewrite pack_one_int by exact Hc. apply pack_int_length.
  - destruct c; try discriminate Hc.
    + discriminate.
    + cbn [pack_one code_size]. destruct v as [| |[|x [|y l]]| | |]; try discriminate.
      destruct (is_byte x); [|discriminate]. intros H; injection H as <-. reflexivity.
    + cbn [pack_one code_size].
      destruct v; try discriminate; intros H; injection H as <-; reflexivity.
    + intros H. apply pack_one_f_inv in H. destruct H as (bits & -> & _). apply enc_length.
    + intros H. apply pack_one_d_inv in H. destruct H as (bits & -> & _). apply enc_length.
    + discriminate.
Qed.

Lemma pack_one_wf e c v b : pack_one e c v = Some b -> wf_bytes b.
Proof.
  destruct (code_is_int c) eqn:Hc.
  - rewrite pack_one_int by exact Hc. apply pack_int_wf.
  - destruct c; try discriminate Hc.
    + discriminate.
    + cbn [pack_one]. destruct v as [| |[|x [|y l]]| | |]; try discriminate.
      destruct (is_byte x) eqn:Ex; [|discriminate]. intros H; injection H as <-.
      constructor; [|constructor]. unfold is_byte in Ex. lia.
    + cbn [pack_one].
      destruct v as [z|[|]| | | |]; try discriminate; intros H; injection H as <-;
        (constructor; [|constructor]); try destruct (z =? 0)%Z; lia.
    + intros H. apply pack_one_f_inv in H. destruct H as (bits & -> & _). apply enc_wf.
    + intros H. apply pack_one_d_inv in H. destruct H as (bits & -> & _). apply enc_wf.
    + discriminate.
Qed.

Lemma le_dec_single x : le_dec (x :: nil) = x.
Proof. cbn [le_dec]. lia. Qed.

Lemma unpack_pack_one e c v b :
  pack_one e c v = Some b -> unpack_one e c b = canon_one c v.
Proof.
  destruct (code_is_int c) eqn:Hc.
  - rewrite pack_one_int by exact Hc. apply unpack_pack_int. exact Hc.
  - destruct c; try discriminate Hc.
    + discriminate.
    + cbn [pack_one unpack_one canon_one].
      destruct v as [| |[|x [|y l]]| | |]; try discriminate.
      destruct (is_byte x); [|discriminate]. intros H; injection H as <-. reflexivity.
    + cbn [pack_one unpack_one canon_one].
      destruct v as [z|[|]| | | |]; try discriminate; intros H; injection H as <-;
        rewrite le_dec_single; try reflexivity.
      destruct (z =? 0)%Z; reflexivity.
    + intros H. apply pack_one_f_inv in H. destruct H as (bits & -> & Hb & ->).
      cbn [unpack_one]. rewrite dec_enc_small by exact Hb. reflexivity.
    + intros H. apply pack_one_d_inv in H. destruct H as (bits & -> & Hb & ->).
      cbn [unpack_one]. rewrite dec_enc_small by exact Hb. reflexivity.
    + discriminate.
Qed.

(** * list helpers *)
Lemma firstn_app_exact {A} n (a b : list A) : length a = n -> firstn n (a ++ b) = a.
Proof.
  intros <-. rewrite firstn_app, Nat.sub_diag, firstn_all. cbn [firstn]. apply app_nil_r.
Qed.

Lemma skipn_app_exact {A} n (a b : list A) : length a = n -> skipn n (a ++ b) = b.
Proof.
  intros <-. rewrite skipn_app, Nat.sub_diag, skipn_all. reflexivity.
Qed.

(** * repeated values *)
Lemma pack_many_length e c : forall n vs b r,
  pack_many e c n vs = Some (b, r) -> length b = (n * code_size c)%nat.
Proof.
  induction n as [|n IH]; intros vs b r; cbn [pack_many].
  - intros H; injection H as <- <-. reflexivity.
  - destruct vs as [|v vs]; [discriminate|].
    destruct (pack_one e c v) as [b1|] eqn:E1; [|discriminate].
    destruct (pack_many e c n vs) as [[bs r']|] eqn:E2; [|discriminate].
    intros H; injection H as <- <-.
    rewrite app_length, (pack_one_length _ _ _ _ E1), (IH _ _ _ E2). reflexivity.
Qed.

Lemma pack_many_wf e c : forall n vs b r,
  pack_many e c n vs = Some (b, r) -> wf_bytes b.
Proof.
  induction n as [|n IH]; intros vs b r; cbn [pack_many].
  - intros H; injection H as <- <-. constructor.
  - destruct vs as [|v vs]; [discriminate|].
    destruct (pack_one e c v) as [b1|] eqn:E1; [|discriminate].
    destruct (pack_many e c n vs) as [[bs r']|] eqn:E2; [|discriminate].
    intros H; injection H as <- <-.
    apply wf_bytes_app; [exact (pack_one_wf _ _ _ _ E1)|exact (IH _ _ _ E2)].
Qed.

Lemma unpack_pack_many e c : forall n vs b r,
  pack_many e c n vs = Some (b, r) ->
  canon_many c n vs = (unpack_many e c n b, r).
Proof.
  induction n as [|n IH]; intros vs b r; cbn [pack_many canon_many unpack_many].
  - intros H; injection H as <- <-. reflexivity.
  - destruct vs as [|v vs]; [discriminate|].
    destruct (pack_one e c v) as [b1|] eqn:E1; [|discriminate].
    destruct (pack_many e c n vs) as [[bs r']|] eqn:E2; [|discriminate].
    intros H; injection H as <- <-.
    rewrite (IH _ _ _ E2).
    rewrite firstn_app_exact, skipn_app_exact by exact (pack_one_length _ _ _ _ E1).
    rewrite (unpack_pack_one _ _ _ _ E1). reflexivity.
Qed.

(** * items *)
Lemma code_case c : c = Cx \/ c = Cs \/ (c <> Cx /\ c <> Cs).
Proof. destruct c; auto; right; right; split; discriminate. Qed.

Lemma pack_item_many e it vs : icode it <> Cx -> icode it <> Cs ->
  pack_item e it vs = pack_many e (icode it) (icnt it) vs.
Proof. unfold pack_item. destruct (icode it); try reflexivity; intros; congruence. Qed.

Lemma unpack_item_many e it b : icode it <> Cx -> icode it <> Cs ->
  unpack_item e it b = unpack_many e (icode it) (icnt it) b.
Proof. unfold unpack_item. destruct (icode it); try reflexivity; intros; congruence. Qed.

Lemma canon_item_many it vs : icode it <> Cx -> icode it <> Cs ->
  canon_item it vs = canon_many (icode it) (icnt it) vs.
Proof. unfold canon_item. destruct (icode it); try reflexivity; intros; congruence. Qed.

Lemma pad_length n (l : bytes) : length (firstn n (l ++ repeat 0 n)) = n.
Proof. rewrite firstn_length, app_length, repeat_length. lia. Qed.

Lemma pack_item_length e it vs b r :
  pack_item e it vs = Some (b, r) -> length b = item_size it.
Proof.
  unfold item_size.
  destruct (code_case (icode it)) as [Hc|[Hc|[Hx Hs]]].
  - unfold pack_item. rewrite Hc. intros H; injection H as <- <-.
    rewrite repeat_length. cbn [code_size]. lia.
  - unfold pack_item. rewrite Hc. destruct vs as [|[| |l| | |] vs]; try discriminate.
    destruct (wf_bytesb l); [|discriminate]. intros H; injection H as <- <-.
    rewrite pad_length. cbn [code_size]. lia.
  - rewrite pack_item_many by assumption. apply pack_many_length.
Qed.

Lemma pack_item_wf e it vs b r :
  pack_item e it vs = Some (b, r) -> wf_bytes b.
Proof.
  destruct (code_case (icode it)) as [Hc|[Hc|[Hx Hs]]].
  - unfold pack_item. rewrite Hc. intros H; injection H as <- <-.
    apply wf_bytes_repeat0.
  - unfold pack_item. rewrite Hc. destruct vs as [|[| |l| | |] vs]; try discriminate.
    destruct (wf_bytesb l) eqn:El; [|discriminate]. intros H; injection H as <- <-.
    apply wf_bytes_firstn, wf_bytes_app; [now apply wf_bytesb_iff|apply wf_bytes_repeat0].
  - rewrite pack_item_many by assumption. apply pack_many_wf.
Qed.

Lemma unpack_pack_item e it vs b r :
  pack_item e it vs = Some (b, r) -> canon_item it vs = (unpack_item e it b, r).
Proof.
  destruct (code_case (icode it)) as [Hc|[Hc|[Hx Hs]]].
  - unfold pack_item, canon_item, unpack_item. rewrite Hc.
    intros H; injection H as <- <-. reflexivity.
  - unfold pack_item, canon_item, unpack_item. rewrite Hc.
    destruct vs as [|[| |l| | |] vs]; try discriminate.
    destruct (wf_bytesb l); [|discriminate]. intros H; injection H as <- <-.
    rewrite (firstn_all2 (n := icnt it) (firstn _ _)) by (rewrite pad_length; lia).
    reflexivity.
  - rewrite pack_item_many, canon_item_many, unpack_item_many by assumption.
    apply unpack_pack_many.
Qed.

(** * item lists *)
Definition items_size (its : list item) : nat :=
  fold_right (fun it acc => (item_size it + acc)%nat) O its.

Lemma pack_items_length e : forall its vs b,
  pack_items e its vs = Some b -> length b = items_size its.
Proof.
  induction its as [|it its IH]; intros vs b; cbn [pack_items items_size fold_right].
  - destruct vs; [|discriminate]. intros H; injection H as <-. reflexivity.
  - destruct (pack_item e it vs) as [[b1 vs']|] eqn:E1; [|discriminate].
    destruct (pack_items e its vs') as [bs|] eqn:E2; [|discriminate].
    intros H; injection H as <-.
    rewrite app_length, (pack_item_length _ _ _ _ _ E1), (IH _ _ E2). reflexivity.
Qed.

Lemma pack_items_wf e : forall its vs b,
  pack_items e its vs = Some b -> wf_bytes b.
Proof.
  induction its as [|it its IH]; intros vs b; cbn [pack_items].
  - destruct vs; [|discriminate]. intros H; injection H as <-. constructor.
  - destruct (pack_item e it vs) as [[b1 vs']|] eqn:E1; [|discriminate].
    destruct (pack_items e its vs') as [bs|] eqn:E2; [|discriminate].
    intros H; injection H as <-.
    apply wf_bytes_app; [exact (pack_item_wf _ _ _ _ _ E1)|exact (IH _ _ E2)].
Qed.

Lemma unpack_pack_items e : forall its vs b,
  pack_items e its vs = Some b -> unpack_items e its b = canon_items its vs.
Proof.
  induction its as [|it its IH]; intros vs b; cbn [pack_items unpack_items canon_items].
  - reflexivity.
  - destruct (pack_item e it vs) as [[b1 vs']|] eqn:E1; [|discriminate].
    destruct (pack_items e its vs') as [bs|] eqn:E2; [|discriminate].
    intros H; injection H as <-.
    rewrite (unpack_pack_item _ _ _ _ _ E1).
    rewrite firstn_app_exact, skipn_app_exact by exact (pack_item_length _ _ _ _ _ E1).
    rewrite (IH _ _ E2). reflexivity.
Qed.

(** * whole formats *)
Theorem pack_length : forall f vs b, pack f vs = Some b -> length b = calcsize f.
Proof. intros f vs b H. exact (pack_items_length _ _ _ _ H). Qed.

Theorem pack_wf : forall f vs b, pack f vs = Some b -> wf_bytes b.
Proof. intros f vs b H. exact (pack_items_wf _ _ _ _ H). Qed.

Theorem unpack_pack : forall f vs b,
  pack f vs = Some b -> unpack f b = Some (canon_items (fitems f) vs).
Proof.
  intros f vs b H. unfold unpack.
  rewrite (pack_length _ _ _ H), Nat.eqb_refl.
  assert (Hw : wf_bytesb b = true) by (apply wf_bytesb_iff; exact (pack_wf _ _ _ H)).
  rewrite Hw. cbn [andb]. f_equal. exact (unpack_pack_items _ _ _ _ H).
Qed.

(** * integer vectors *)
Lemma canon_many_ints c zs : code_is_int c = true ->
  canon_many c (length zs) (map VInt zs) = (map VInt zs, nil).
Proof.
  intros Hc. induction zs as [|z zs IH]; cbn [length map canon_many]; [reflexivity|].
  rewrite IH, canon_one_int by exact Hc. reflexivity.
Qed.

(* pack fails only for a reason CPython has too: it succeeds whenever the
   values have the right arity, type and range *)
Theorem pack_ints_ok : forall e c n zs,
  code_is_int c = true -> length zs = n ->
  Forall (fun z => (if code_signed c then in_signed (code_size c) z
                    else in_unsigned (code_size c) z) = true) zs ->
  exists b, pack_many e c n (map VInt zs) = Some (b, nil) /\
            unpack_many e c n b = map VInt zs.
Proof.
  intros e c n zs Hc Hn HF. subst n.
  assert (Hp : exists b, pack_many e c (length zs) (map VInt zs) = Some (b, nil)).
  { induction HF as [|z zs Hz HF IH]; cbn [length map pack_many].
    - exists nil; reflexivity.
    - destruct IH as [bs Hbs]. rewrite pack_one_int by exact Hc.
      unfold pack_int; cbn [int_of_value]. rewrite Hz, Hbs. eexists; reflexivity. }
  destruct Hp as [b Hb]. exists b. split; [exact Hb|].
  pose proof (unpack_pack_many _ _ _ _ _ _ Hb) as E.
  rewrite canon_many_ints in E by exact Hc. congruence.
Qed.

(* decoding of a homogeneous little-endian integer vector from its raw words *)
Theorem unpack_many_le_raw : forall c raws,
  code_is_int c = true ->
  Forall (fun r => (r < pow256 (code_size c))%N) raws ->
  unpack_many LE c (length raws) (concat (map (le_enc (code_size c)) raws)) =
  map (fun r => if code_signed c then VInt (sgn (code_size c) r)
                else VInt (Z.of_N r)) raws.
Proof.
  intros c raws Hc HF.
  induction HF as [|r raws Hr HF IH]; cbn [length map concat unpack_many]; [reflexivity|].
  rewrite firstn_app_exact, skipn_app_exact by apply le_enc_length.
  rewrite IH, unpack_one_int by exact Hc. cbn [dec].
  rewrite le_dec_enc, N.mod_small by exact Hr. reflexivity.
Qed.

(** * float codes given ints / bools: facts observed on CPython 3, pinned *)
Import String.
Definition pack_str (s : String.string) (vs : list value) : option bytes :=
  match parse_fmt s with Some f => pack f vs | None => None end.

Example pack_f_int5 : pack_str "<f"%string (VInt 5 :: nil) = Some (0 :: 0 :: 160 :: 64 :: nil).
Proof. vm_compute. reflexivity. Qed.
(* double rounding: 2^60 + 2^36 + 1 -> double 2^60 + 2^36 (a tie for single) -> 2^60;
   a single rounding would give 2^60 + 2^37, i.e. 5d 80 00 01 *)
Example pack_f_double_rounding :
  pack_str ">f"%string (VInt (2 ^ 60 + 2 ^ 36 + 1) :: nil) = Some (93 :: 128 :: 0 :: 0 :: nil).
Proof. vm_compute. reflexivity. Qed.
Example pack_f_overflow : pack_str "<f"%string (VInt (2 ^ 128 - 2 ^ 103) :: nil) = None.
Proof. vm_compute. reflexivity. Qed.
Example pack_d_overflow : pack_str "<d"%string (VInt (2 ^ 1024 - 1) :: nil) = None.
Proof. vm_compute. reflexivity. Qed.
Example pack_d_int5 :
  pack_str "<d"%string (VInt 5 :: nil) = Some (0 :: 0 :: 0 :: 0 :: 0 :: 0 :: 20 :: 64 :: nil).
Proof. vm_compute. reflexivity. Qed.
Example pack_f_true : pack_str "<f"%string (VBool true :: nil) = Some (0 :: 0 :: 128 :: 63 :: nil).
Proof. vm_compute. reflexivity. Qed.
(* and they come back as the float they were rounded to *)
Example unpack_pack_f_int5 :
  canon_items (mkItem 1 Cf :: nil) (VInt 5 :: nil) = VF32 1084227584 :: nil.
Proof. vm_compute. reflexivity. Qed.

Print Assumptions ieee_encode_range.
Print Assumptions pack_d_int.
Print Assumptions pack_f_int.
Print Assumptions unpack_pack.
Print Assumptions pack_ints_ok.
Print Assumptions unpack_many_le_raw.

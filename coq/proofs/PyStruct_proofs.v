(** Round-trip, length and well-formedness theorems for the [struct] model. *)
From Coq Require Import Lia ZifyBool ZifyNat ZifyN.
From NX Require Import Bytes PyStruct StructCanon Bytes_proofs.
Ltac Zify.zify_post_hook ::= Z.to_euclidean_division_equations.
Open Scope N_scope.

(** * enc / dec *)
Lemma enc_length e k n : length (enc e k n) = k.
Proof.
  destruct e; unfold enc, be_enc; [|rewrite rev_length]; apply le_enc_length.
Qed.

Lemma enc_wf e k n : wf_bytes (enc e k n).
Proof.
  destruct e; unfold enc, be_enc; [|apply wf_bytes_rev]; apply le_enc_wf.
Qed.

Lemma be_dec_enc k n : be_dec (be_enc k n) = n mod pow256 k.
Proof. unfold be_dec, be_enc. rewrite rev_involutive. apply le_dec_enc. Qed.

Lemma dec_enc e k n : dec e (enc e k n) = n mod pow256 k.
Proof. destruct e; unfold dec, enc; [apply le_dec_enc|apply be_dec_enc]. Qed.

Lemma dec_enc_small e k n : n < pow256 k -> dec e (enc e k n) = n.
Proof. intros H. rewrite dec_enc. apply N.mod_small. exact H. Qed.

(** * two's complement *)
Lemma unsgn_lt k z : unsgn k z < pow256 k.
Proof.
  unfold unsgn. pose proof (pow256_pos k) as Hp.
  revert Hp. generalize (pow256 k). intros P Hp. lia.
Qed.

Lemma of_N_unsgn k z : in_unsigned k z = true -> Z.of_N (unsgn k z) = z.
Proof.
  unfold in_unsigned, unsgn. pose proof (pow256_pos k) as Hp.
  revert Hp. generalize (pow256 k). intros P Hp H.
  assert (0 <= z < Z.of_N P)%Z by lia.
  rewrite Z.mod_small by lia. lia.
Qed.

Lemma unsgn_unsigned k z : in_unsigned k z = true -> unsgn k z = Z.to_N z.
Proof. intros H. apply of_N_unsgn in H. lia. Qed.

Lemma sgn_unsgn k z : in_signed k z = true -> sgn k (unsgn k z) = z.
Proof.
  unfold in_signed, sgn, unsgn. pose proof (pow256_pos k) as Hp.
  revert Hp. generalize (pow256 k). intros P Hp H.
  assert (Hr : (- Z.of_N (P / 2) <= z < Z.of_N (P / 2))%Z) by lia. clear H.
  assert (Hh : 2 * (P / 2) <= P) by lia.
  destruct (Z.neg_nonneg_cases z) as [Hn|Hn].
  - assert (E : (z mod Z.of_N P = z + Z.of_N P)%Z).
    { rewrite <- (Z.mod_add z 1 (Z.of_N P)) by lia. rewrite Z.mod_small; lia. }
    rewrite E. destruct (Z.to_N (z + Z.of_N P) <? P / 2) eqn:E2; lia.
  - rewrite Z.mod_small by lia.
    destruct (Z.to_N z <? P / 2) eqn:E2; lia.
Qed.

(** * single values *)
Definition pack_int (e : endian) (c : code) (v : value) : option bytes :=
  match int_of_value v with
  | Some z =>
      if (if code_signed c then in_signed (code_size c) z
          else in_unsigned (code_size c) z)
      then Some (enc e (code_size c) (unsgn (code_size c) z)) else None
  | None => None
  end.

Lemma pack_one_int e c v : code_is_int c = true -> pack_one e c v = pack_int e c v.
Proof. destruct c; try discriminate; reflexivity. Qed.

Lemma unpack_one_int e c b : code_is_int c = true ->
  unpack_one e c b = if code_signed c then VInt (sgn (code_size c) (dec e b))
                     else VInt (Z.of_N (dec e b)).
Proof. destruct c; try discriminate; reflexivity. Qed.

Lemma canon_one_int c v : code_is_int c = true ->
  canon_one c v = match v with VBool b => VInt (if b then 1 else 0) | _ => v end.
Proof. destruct c; try discriminate; reflexivity. Qed.

Lemma pack_int_length e c v b : pack_int e c v = Some b -> length b = code_size c.
Proof.
  unfold pack_int. destruct (int_of_value v); [|discriminate].
  destruct (if code_signed c then _ else _); [|discriminate].
  intros H; injection H as <-. apply enc_length.
Qed.

Lemma pack_int_wf e c v b : pack_int e c v = Some b -> wf_bytes b.
Proof.
  unfold pack_int. destruct (int_of_value v); [|discriminate].
  destruct (if code_signed c then _ else _); [|discriminate].
  intros H; injection H as <-. apply enc_wf.
Qed.

Lemma int_of_value_canon v z : int_of_value v = Some z ->
  match v with VBool b => VInt (if b then 1 else 0) | _ => v end = VInt z.
Proof. destruct v; cbn; intros H; try discriminate; injection H as <-; reflexivity. Qed.

Lemma unpack_pack_int e c v b : code_is_int c = true ->
  pack_int e c v = Some b -> unpack_one e c b = canon_one c v.
Proof.
  intros Hc. rewrite unpack_one_int, canon_one_int by exact Hc.
  unfold pack_int. destruct (int_of_value v) as [z|] eqn:Ev; [|discriminate].
  rewrite (int_of_value_canon _ _ Ev).
  destruct (code_signed c).
  - destruct (in_signed (code_size c) z) eqn:Er; [|discriminate].
    intros H; injection H as <-.
    rewrite dec_enc_small by apply unsgn_lt. now rewrite sgn_unsgn.
  - destruct (in_unsigned (code_size c) z) eqn:Er; [|discriminate].
    intros H; injection H as <-.
    rewrite dec_enc_small by apply unsgn_lt. now rewrite of_N_unsgn.
Qed.

Lemma pack_one_length e c v b : pack_one e c v = Some b -> length b = code_size c.
Proof.
  destruct (code_is_int c) eqn:Hc.
  - rewrite pack_one_int by exact Hc. apply pack_int_length.
  - destruct c; try discriminate Hc; cbn [pack_one code_size].
    + discriminate.
    + destruct v as [| |[|x [|y l]]| |]; try discriminate.
      destruct (is_byte x); [|discriminate]. intros H; injection H as <-. reflexivity.
    + destruct v; try discriminate; intros H; injection H as <-; reflexivity.
    + destruct v; try discriminate. destruct (bits <? pow256 4); [|discriminate].
      intros H; injection H as <-. apply enc_length.
    + destruct v; try discriminate. destruct (bits <? pow256 8); [|discriminate].
      intros H; injection H as <-. apply enc_length.
    + discriminate.
Qed.

Lemma pack_one_wf e c v b : pack_one e c v = Some b -> wf_bytes b.
Proof.
  destruct (code_is_int c) eqn:Hc.
  - rewrite pack_one_int by exact Hc. apply pack_int_wf.
  - destruct c; try discriminate Hc; cbn [pack_one].
    + discriminate.
    + destruct v as [| |[|x [|y l]]| |]; try discriminate.
      destruct (is_byte x) eqn:Ex; [|discriminate]. intros H; injection H as <-.
      constructor; [|constructor]. unfold is_byte in Ex. lia.
    + destruct v as [z|[|]| | |]; try discriminate; intros H; injection H as <-;
        (constructor; [|constructor]); try destruct (z =? 0)%Z; lia.
    + destruct v; try discriminate. destruct (bits <? pow256 4); [|discriminate].
      intros H; injection H as <-. apply enc_wf.
    + destruct v; try discriminate. destruct (bits <? pow256 8); [|discriminate].
      intros H; injection H as <-. apply enc_wf.
    + discriminate.
Qed.

Lemma le_dec_single x : le_dec (x :: nil) = x.
Proof. cbn [le_dec]. lia. Qed.

Lemma unpack_pack_one e c v b :
  pack_one e c v = Some b -> unpack_one e c b = canon_one c v.
Proof.
  destruct (code_is_int c) eqn:Hc.
  - rewrite pack_one_int by exact Hc. apply unpack_pack_int. exact Hc.
  - destruct c; try discriminate Hc; cbn [pack_one unpack_one canon_one].
    + discriminate.
    + destruct v as [| |[|x [|y l]]| |]; try discriminate.
      destruct (is_byte x); [|discriminate]. intros H; injection H as <-. reflexivity.
    + destruct v as [z|[|]| | |]; try discriminate; intros H; injection H as <-;
        rewrite le_dec_single; try reflexivity.
      destruct (z =? 0)%Z; reflexivity.
    + destruct v; try discriminate. destruct (bits <? pow256 4) eqn:E; [|discriminate].
      intros H; injection H as <-. rewrite dec_enc_small by lia. reflexivity.
    + destruct v; try discriminate. destruct (bits <? pow256 8) eqn:E; [|discriminate].
      intros H; injection H as <-. rewrite dec_enc_small by lia. reflexivity.
    + discriminate.
Qed.

(** * list helpers *)
Lemma firstn_app_exact {A} n (a b : list A) : length a = n -> firstn n (a ++ b) = a.
Proof.
  intros <-. rewrite firstn_app, Nat.sub_diag, firstn_all. cbn [firstn]. apply app_nil_r.
Qed.

Lemma skipn_app_exact {A} n (a b : list A) : length a = n -> skipn n (a ++ b) = b.
Proof.
  intros <-. rewrite skipn_app, Nat.sub_diag, skipn_all. reflexivity.
Qed.

(** * repeated values *)
Lemma pack_many_length e c : forall n vs b r,
  pack_many e c n vs = Some (b, r) -> length b = (n * code_size c)%nat.
Proof.
  induction n as [|n IH]; intros vs b r; cbn [pack_many].
  - intros H; injection H as <- <-. reflexivity.
  - destruct vs as [|v vs]; [discriminate|].
    destruct (pack_one e c v) as [b1|] eqn:E1; [|discriminate].
    destruct (pack_many e c n vs) as [[bs r']|] eqn:E2; [|discriminate].
    intros H; injection H as <- <-.
    rewrite app_length, (pack_one_length _ _ _ _ E1), (IH _ _ _ E2). reflexivity.
Qed.

Lemma pack_many_wf e c : forall n vs b r,
  pack_many e c n vs = Some (b, r) -> wf_bytes b.
Proof.
  induction n as [|n IH]; intros vs b r; cbn [pack_many].
  - intros H; injection H as <- <-. constructor.
  - destruct vs as [|v vs]; [discriminate|].
    destruct (pack_one e c v) as [b1|] eqn:E1; [|discriminate].
    destruct (pack_many e c n vs) as [[bs r']|] eqn:E2; [|discriminate].
    intros H; injection H as <- <-.
    apply wf_bytes_app; [exact (pack_one_wf _ _ _ _ E1)|exact (IH _ _ _ E2)].
Qed.

Lemma unpack_pack_many e c : forall n vs b r,
  pack_many e c n vs = Some (b, r) ->
  canon_many c n vs = (unpack_many e c n b, r).
Proof.
  induction n as [|n IH]; intros vs b r; cbn [pack_many canon_many unpack_many].
  - intros H; injection H as <- <-. reflexivity.
  - destruct vs as [|v vs]; [discriminate|].
    destruct (pack_one e c v) as [b1|] eqn:E1; [|discriminate].
    destruct (pack_many e c n vs) as [[bs r']|] eqn:E2; [|discriminate].
    intros H; injection H as <- <-.
    rewrite (IH _ _ _ E2).
    rewrite firstn_app_exact, skipn_app_exact by exact (pack_one_length _ _ _ _ E1).
    rewrite (unpack_pack_one _ _ _ _ E1). reflexivity.
Qed.

(** * items *)
Lemma code_case c : c = Cx \/ c = Cs \/ (c <> Cx /\ c <> Cs).
Proof. destruct c; auto; right; right; split; discriminate. Qed.

Lemma pack_item_many e it vs : icode it <> Cx -> icode it <> Cs ->
  pack_item e it vs = pack_many e (icode it) (icnt it) vs.
Proof. unfold pack_item. destruct (icode it); try reflexivity; intros; congruence. Qed.

Lemma unpack_item_many e it b : icode it <> Cx -> icode it <> Cs ->
  unpack_item e it b = unpack_many e (icode it) (icnt it) b.
Proof. unfold unpack_item. destruct (icode it); try reflexivity; intros; congruence. Qed.

Lemma canon_item_many it vs : icode it <> Cx -> icode it <> Cs ->
  canon_item it vs = canon_many (icode it) (icnt it) vs.
Proof. unfold canon_item. destruct (icode it); try reflexivity; intros; congruence. Qed.

Lemma pad_length n (l : bytes) : length (firstn n (l ++ repeat 0 n)) = n.
Proof. rewrite firstn_length, app_length, repeat_length. lia. Qed.

Lemma pack_item_length e it vs b r :
  pack_item e it vs = Some (b, r) -> length b = item_size it.
Proof.
  unfold item_size.
  destruct (code_case (icode it)) as [Hc|[Hc|[Hx Hs]]].
  - unfold pack_item. rewrite Hc. intros H; injection H as <- <-.
    rewrite repeat_length. cbn [code_size]. lia.
  - unfold pack_item. rewrite Hc. destruct vs as [|[| |l| |] vs]; try discriminate.
    destruct (wf_bytesb l); [|discriminate]. intros H; injection H as <- <-.
    rewrite pad_length. cbn [code_size]. lia.
  - rewrite pack_item_many by assumption. apply pack_many_length.
Qed.

Lemma pack_item_wf e it vs b r :
  pack_item e it vs = Some (b, r) -> wf_bytes b.
Proof.
  destruct (code_case (icode it)) as [Hc|[Hc|[Hx Hs]]].
  - unfold pack_item. rewrite Hc. intros H; injection H as <- <-.
    apply wf_bytes_repeat0.
  - unfold pack_item. rewrite Hc. destruct vs as [|[| |l| |] vs]; try discriminate.
    destruct (wf_bytesb l) eqn:El; [|discriminate]. intros H; injection H as <- <-.
    apply wf_bytes_firstn, wf_bytes_app; [now apply wf_bytesb_iff|apply wf_bytes_repeat0].
  - rewrite pack_item_many by assumption. apply pack_many_wf.
Qed.

Lemma unpack_pack_item e it vs b r :
  pack_item e it vs = Some (b, r) -> canon_item it vs = (unpack_item e it b, r).
Proof.
  destruct (code_case (icode it)) as [Hc|[Hc|[Hx Hs]]].
  - unfold pack_item, canon_item, unpack_item. rewrite Hc.
    intros H; injection H as <- <-. reflexivity.
  - unfold pack_item, canon_item, unpack_item. rewrite Hc.
    destruct vs as [|[| |l| |] vs]; try discriminate.
    destruct (wf_bytesb l); [|discriminate]. intros H; injection H as <- <-.
    rewrite (firstn_all2 (n := icnt it) (firstn _ _)) by (rewrite pad_length; lia).
    reflexivity.
  - rewrite pack_item_many, canon_item_many, unpack_item_many by assumption.
    apply unpack_pack_many.
Qed.

(** * item lists *)
Definition items_size (its : list item) : nat :=
  fold_right (fun it acc => (item_size it + acc)%nat) O its.

Lemma pack_items_length e : forall its vs b,
  pack_items e its vs = Some b -> length b = items_size its.
Proof.
  induction its as [|it its IH]; intros vs b; cbn [pack_items items_size fold_right].
  - destruct vs; [|discriminate]. intros H; injection H as <-. reflexivity.
  - destruct (pack_item e it vs) as [[b1 vs']|] eqn:E1; [|discriminate].
    destruct (pack_items e its vs') as [bs|] eqn:E2; [|discriminate].
    intros H; injection H as <-.
    rewrite app_length, (pack_item_length _ _ _ _ _ E1), (IH _ _ E2). reflexivity.
Qed.

Lemma pack_items_wf e : forall its vs b,
  pack_items e its vs = Some b -> wf_bytes b.
Proof.
  induction its as [|it its IH]; intros vs b; cbn [pack_items].
  - destruct vs; [|discriminate]. intros H; injection H as <-. constructor.
  - destruct (pack_item e it vs) as [[b1 vs']|] eqn:E1; [|discriminate].
    destruct (pack_items e its vs') as [bs|] eqn:E2; [|discriminate].
    intros H; injection H as <-.
    apply wf_bytes_app; [exact (pack_item_wf _ _ _ _ _ E1)|exact (IH _ _ E2)].
Qed.

Lemma unpack_pack_items e : forall its vs b,
  pack_items e its vs = Some b -> unpack_items e its b = canon_items its vs.
Proof.
  induction its as [|it its IH]; intros vs b; cbn [pack_items unpack_items canon_items].
  - reflexivity.
  - destruct (pack_item e it vs) as [[b1 vs']|] eqn:E1; [|discriminate].
    destruct (pack_items e its vs') as [bs|] eqn:E2; [|discriminate].
    intros H; injection H as <-.
    rewrite (unpack_pack_item _ _ _ _ _ E1).
    rewrite firstn_app_exact, skipn_app_exact by exact (pack_item_length _ _ _ _ _ E1).
    rewrite (IH _ _ E2). reflexivity.
Qed.

(** * whole formats *)
Theorem pack_length : forall f vs b, pack f vs = Some b -> length b = calcsize f.
Proof. intros f vs b H. exact (pack_items_length _ _ _ _ H). Qed.

Theorem pack_wf : forall f vs b, pack f vs = Some b -> wf_bytes b.
Proof. intros f vs b H. exact (pack_items_wf _ _ _ _ H). Qed.

Theorem unpack_pack : forall f vs b,
  pack f vs = Some b -> unpack f b = Some (canon_items (fitems f) vs).
Proof.
  intros f vs b H. unfold unpack.
  rewrite (pack_length _ _ _ H), Nat.eqb_refl.
  assert (Hw : wf_bytesb b = true) by (apply wf_bytesb_iff; exact (pack_wf _ _ _ H)).
  rewrite Hw. cbn [andb]. f_equal. exact (unpack_pack_items _ _ _ _ H).
Qed.

(** * integer vectors *)
Lemma canon_many_ints c zs : code_is_int c = true ->
  canon_many c (length zs) (map VInt zs) = (map VInt zs, nil).
Proof.
  intros Hc. induction zs as [|z zs IH]; cbn [length map canon_many]; [reflexivity|].
  rewrite IH, canon_one_int by exact Hc. reflexivity.
Qed.

(* pack fails only for a reason CPython has too: it succeeds whenever the
   values have the right arity, type and range *)
Theorem pack_ints_ok : forall e c n zs,
  code_is_int c = true -> length zs = n ->
  Forall (fun z => (if code_signed c then in_signed (code_size c) z
                    else in_unsigned (code_size c) z) = true) zs ->
  exists b, pack_many e c n (map VInt zs) = Some (b, nil) /\
            unpack_many e c n b = map VInt zs.
Proof.
  intros e c n zs Hc Hn HF. subst n.
  assert (Hp : exists b, pack_many e c (length zs) (map VInt zs) = Some (b, nil)).
  { induction HF as [|z zs Hz HF IH]; cbn [length map pack_many].
    - exists nil; reflexivity.
    - destruct IH as [bs Hbs]. rewrite pack_one_int by exact Hc.
      unfold pack_int; cbn [int_of_value]. rewrite Hz, Hbs. eexists; reflexivity. }
  destruct Hp as [b Hb]. exists b. split; [exact Hb|].
  pose proof (unpack_pack_many _ _ _ _ _ _ Hb) as E.
  rewrite canon_many_ints in E by exact Hc. congruence.
Qed.

(* decoding of a homogeneous little-endian integer vector from its raw words *)
Theorem unpack_many_le_raw : forall c raws,
  code_is_int c = true ->
  Forall (fun r => (r < pow256 (code_size c))%N) raws ->
  unpack_many LE c (length raws) (concat (map (le_enc (code_size c)) raws)) =
  map (fun r => if code_signed c then VInt (sgn (code_size c) r)
                else VInt (Z.of_N r)) raws.
Proof.
  intros c raws Hc HF.
  induction HF as [|r raws Hr HF IH]; cbn [length map concat unpack_many]; [reflexivity|].
  rewrite firstn_app_exact, skipn_app_exact by apply le_enc_length.
  rewrite IH, unpack_one_int by exact Hc. cbn [dec].
  rewrite le_dec_enc, N.mod_small by exact Hr. reflexivity.
Qed.

Print Assumptions unpack_pack.
Print Assumptions pack_ints_ok.
Print Assumptions unpack_many_le_raw.

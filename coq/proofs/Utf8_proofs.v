(** UTF-8 codec: round trip, well-formedness, NUL handling. *)
From Coq Require Import Lia ZifyBool ZifyNat ZifyN.
From NX Require Import Bytes Utf8 Bytes_proofs.
Ltac Zify.zify_post_hook ::= Z.to_euclidean_division_equations.
Open Scope N_scope.

(** * one code point *)

Lemma is_cont_mod64 x : is_cont (128 + x mod 64) = true.
Proof.
  unfold is_cont.
  destruct (128 <=? 128 + x mod 64) eqn:E1; [|lia].
  destruct (128 + x mod 64 <? 192) eqn:E2; [reflexivity|lia].
Qed.

Lemma utf8_dec1_enc1 c r :
  valid_cp c = true -> utf8_dec1 (utf8_enc1 c ++ r) = Some (c, r).
Proof.
  intros Hv. assert (Hv' := Hv). unfold valid_cp in Hv'. unfold utf8_enc1.
  destruct (c <? 128) eqn:E1.
  { cbn [app utf8_dec1]. rewrite E1. reflexivity. }
  destruct (c <? 2048) eqn:E2.
  { cbn [app]. unfold utf8_dec1. cbv zeta.
    assert (Hc : (192 + c / 64 - 192) * 64 + (128 + c mod 64 - 128) = c) by lia.
    rewrite Hc.
    assert (192 + c / 64 <? 128 = false) as -> by lia.
    assert (192 + c / 64 <? 192 = false) as -> by lia.
    assert (192 + c / 64 <? 224 = true) as -> by lia.
    rewrite is_cont_mod64.
    assert (128 <=? c = true) as -> by lia.
    reflexivity. }
  destruct (c <? 65536) eqn:E3.
  { cbn [app]. unfold utf8_dec1. cbv zeta.
    assert (Hc : (224 + c / 4096 - 224) * 4096 + (128 + (c / 64) mod 64 - 128) * 64
                 + (128 + c mod 64 - 128) = c) by lia.
    rewrite Hc.
    assert (224 + c / 4096 <? 128 = false) as -> by lia.
    assert (224 + c / 4096 <? 192 = false) as -> by lia.
    assert (224 + c / 4096 <? 224 = false) as -> by lia.
    assert (224 + c / 4096 <? 240 = true) as -> by lia.
    rewrite !is_cont_mod64, Hv.
    assert (2048 <=? c = true) as -> by lia.
    reflexivity. }
  { assert (Hlt : c <? 1114112 = true).
    { destruct (c <? 55296) eqn:E4; [lia|].
      destruct (57343 <? c) eqn:E5; [|discriminate Hv'].
      destruct (c <? 1114112) eqn:E6; [reflexivity|discriminate Hv']. }
    cbn [app]. unfold utf8_dec1. cbv zeta.
    assert (Hc : (240 + c / 262144 - 240) * 262144
                 + (128 + (c / 4096) mod 64 - 128) * 4096
                 + (128 + (c / 64) mod 64 - 128) * 64
                 + (128 + c mod 64 - 128) = c) by lia.
    rewrite Hc.
    assert (240 + c / 262144 <? 128 = false) as -> by lia.
    assert (240 + c / 262144 <? 192 = false) as -> by lia.
    assert (240 + c / 262144 <? 224 = false) as -> by lia.
    assert (240 + c / 262144 <? 240 = false) as -> by lia.
    assert (240 + c / 262144 <? 248 = true) as -> by lia.
    rewrite !is_cont_mod64, Hlt.
    assert (65536 <=? c = true) as -> by lia.
    reflexivity. }
Qed.

Lemma utf8_enc1_cons c : exists x t, utf8_enc1 c = x :: t.
Proof.
  unfold utf8_enc1.
  destruct (c <? 128); [eauto|].
  destruct (c <? 2048); [eauto|].
  destruct (c <? 65536); eauto.
Qed.

Theorem utf8_enc1_length : forall c, valid_cp c = true ->
  (1 <= length (utf8_enc1 c) <= 4)%nat.
Proof.
  intros c _. unfold utf8_enc1.
  destruct (c <? 128); [cbn [length]; lia|].
  destruct (c <? 2048); [cbn [length]; lia|].
  destruct (c <? 65536); cbn [length]; lia.
Qed.

Lemma utf8_enc1_wf c : valid_cp c = true -> wf_bytes (utf8_enc1 c).
Proof.
  intros Hv. unfold valid_cp in Hv. unfold utf8_enc1, wf_bytes.
  destruct (c <? 128) eqn:E1.
  { repeat constructor. lia. }
  destruct (c <? 2048) eqn:E2.
  { repeat constructor; lia. }
  destruct (c <? 65536) eqn:E3.
  { repeat constructor; lia. }
  assert (Hlt : c < 1114112).
  { destruct (c <? 55296) eqn:E4; [lia|].
    destruct (57343 <? c) eqn:E5; [|discriminate Hv].
    destruct (c <? 1114112) eqn:E6; [lia|discriminate Hv]. }
  repeat constructor; lia.
Qed.

Lemma utf8_enc_cons c l : utf8_enc (c :: l) = utf8_enc1 c ++ utf8_enc l.
Proof. reflexivity. Qed.

(** * lists of code points *)

Lemma utf8_dec_fuel_enc l :
  Forall (fun c => valid_cp c = true) l ->
  forall f, (length (utf8_enc l) <= f)%nat -> utf8_dec_fuel f (utf8_enc l) = Some l.
Proof.
  induction 1 as [|c l Hc Hl IH]; intros f Hf.
  - destruct f; reflexivity.
  - rewrite utf8_enc_cons in *.
    pose proof (utf8_dec1_enc1 c (utf8_enc l) Hc) as Hd.
    destruct (utf8_enc1_cons c) as (x & t & Ex).
    rewrite Ex in *. cbn [app length] in *.
    destruct f as [|f]; [lia|].
    cbn [utf8_dec_fuel]. rewrite Hd.
    rewrite IH; [reflexivity|].
    rewrite app_length in Hf. lia.
Qed.

Theorem utf8_dec_enc : forall l : list N,
  Forall (fun c => valid_cp c = true) l -> utf8_dec (utf8_enc l) = Some l.
Proof.
  intros l H. unfold utf8_dec. apply utf8_dec_fuel_enc; [exact H|apply Nat.le_refl].
Qed.

Theorem utf8_enc_wf : forall l : list N,
  Forall (fun c => valid_cp c = true) l -> wf_bytes (utf8_enc l).
Proof.
  induction 1 as [|c l Hc Hl IH].
  - constructor.
  - rewrite utf8_enc_cons. apply wf_bytes_app; [apply utf8_enc1_wf; exact Hc|exact IH].
Qed.

(** * NUL *)

Fixpoint until_zero (b : bytes) : bytes :=
  match b with [] => [] | x :: r => if x =? 0 then [] else x :: until_zero r end.

Lemma until_zero_app_nz a r :
  Forall (fun x => x <> 0) a -> until_zero (a ++ r) = a ++ until_zero r.
Proof.
  induction 1 as [|x a Hx Ha IH]; [reflexivity|].
  cbn [app until_zero].
  destruct (x =? 0) eqn:E; [lia|]. now rewrite IH.
Qed.

Lemma utf8_enc1_nz c : c <> 0 -> Forall (fun x => x <> 0) (utf8_enc1 c).
Proof.
  intros Hc. unfold utf8_enc1.
  destruct (c <? 128); [repeat constructor; lia|].
  destruct (c <? 2048); [repeat constructor; lia|].
  destruct (c <? 65536); repeat constructor; lia.
Qed.

Theorem utf8_until_nul : forall l : list N,
  Forall (fun c => valid_cp c = true) l ->
  until_zero (utf8_enc l) = utf8_enc (until_nul l).
Proof.
  induction 1 as [|c l Hc Hl IH]; [reflexivity|].
  rewrite utf8_enc_cons. cbn [until_nul].
  destruct (c =? 0) eqn:E.
  - assert (c = 0) by lia. subst c. reflexivity.
  - rewrite until_zero_app_nz by (apply utf8_enc1_nz; lia).
    rewrite utf8_enc_cons, IH. reflexivity.
Qed.

Theorem until_nul_app_nul : forall (l : list N) k,
  Forall (fun c => c <> 0) l -> until_nul (l ++ repeat 0 k) = l.
Proof.
  intros l k H. induction H as [|c l Hc Hl IH].
  - destruct k; reflexivity.
  - cbn [app until_nul]. destruct (c =? 0) eqn:E; [lia|]. now rewrite IH.
Qed.

Print Assumptions utf8_dec_enc.
Print Assumptions utf8_until_nul.

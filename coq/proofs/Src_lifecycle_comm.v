(** The connect / disconnect life cycle, part 3: CommHandler._start, _stop,
    connect, disconnect as INTERPRETED SOURCE on the complete object
    [gcomm ..] (Src_lc_base.v): the [*_func] lemmas.  The theorems are in
    Src_lifecycle_proofs.v. *)
From Coq Require Import String Ascii List ZArith NArith Bool Lia ZifyBool.
From NX Require Import Bytes PyStruct Crc PyLite PyLite_tactics PyLite_tactics_ext PyLite_tactics_try
  Src_dev Src_iparse Src_parse Src_comm Src_prelude Src_all
  Src_serialframe_proofs Src_parse_req_lemmas Src_records_proofs Src_config_base Src_config_req
  Src_handshake_base Src_handshake_devinfo Src_lc_base Src_lc_devinfo.
From NX Require Src_parse_req_proofs Src_info_proofs Src_config_proofs.
From NX Require Frame Request Request_proofs Info Info_proofs Config Handshake Handshake_proofs Gen_frame Gen_req Gen_misc.
Import ListNotations.
Open Scope string_scope.
Open Scope Z_scope.

#[local] Hint Unfold pa RQ.pa IN.pa sf gintf queue_obj gcomm item_pv fake_thread chans_obj
  IN.cmninfo_obj IN.ack_obj frame_obj perr_obj IN.emb_opt RQ.emb_f emb_rq : lc_model.
Ltac py_unfold_hook ::= autounfold with lc_model.
#[local] Arguments norm_index : simpl never.
#[local] Arguments enum_id : simpl never.
#[local] Arguments is_none !x /.
#[local] Arguments Request.frame_start : simpl never.
#[local] Arguments drain : simpl never.
#[local] Arguments devinfo_m : simpl never.
#[local] Arguments dev_of : simpl never.

Ltac py_stuck_hook h ::=
  first [ crest_hook h |
  lazymatch h with
  | norm_index (List.length (map _ _)) _ => rewrite map_length
  | norm_index (S _) 0 => rewrite norm_index_S0
  | py_is _ PNone => rewrite py_is_none
  | Z.of_nat (S ?r) - 1 <? 0 => rewrite (ltb_pred_S r)
  | context [is_none (dev_of ?a ?b ?c ?d)] => change (is_none (dev_of a b c d)) with false
  | exc_matches "Exception" ?c => rewrite (exc_matches_Exception c)
  | truthy (dev_of ?a ?b ?c ?d) => change (truthy (dev_of a b c d)) with true
  end ].

(** the bytes of a start / stop request: the builder never fails on a boolean *)
Definition start_req (v : bool) : bytes :=
  match Request.frame_start v with Frame.Ok b => b | _ => [] end.
Lemma frame_start_ok v : Request.frame_start v = Frame.Ok (start_req v).
Proof.
  unfold start_req. destruct (Request_proofs.start_delivered v) as [D _].
  destruct (Src_config_proofs.delivered_ok _ _ _ D) as [b ->]. reflexivity.
Qed.

#[local] Hint Resolve queue_get_func gintf_write_func gintf_drop_all_func gintf_start_func gintf_stop_func
  thread_start_func thread_stop_func RQ.frame_start_func channels_en_func channels_div_func : pyspec.

(** * The small methods on the full object *)
Lemma dev_func n started thrd ev w p d dev items sitems rest : crest rest ->
  call_func program (S n) CommHandler_dev [gcomm started thrd ev w p d dev items sitems rest] [] =
  PyLite.Ok (dev, Some (gcomm started thrd ev w p d dev items sitems rest)).
Proof. intros Hrest. pystart. pyrun. Qed.
#[local] Hint Resolve dev_func : pyspec.

(** no device description yet: every request counts as acknowledged, nothing is read *)
Lemma get_ack_nodev_func n started thrd ev w p d items sitems rest t : crest rest ->
  call_func program (S (S n)) CommHandler__get_ack [gcomm started thrd ev w p d PNone items sitems rest] [("timeout", t)] =
  PyLite.Ok (IN.ack_obj (true, 0), Some (gcomm started thrd ev w p d PNone items sitems rest)).
Proof. intros Hrest. pystart. pyrun. Qed.
#[local] Hint Resolve get_ack_nodev_func : pyspec.

Lemma stream_stop_nodev_func n started thrd ev w p d items sitems rest : crest rest ->
  call_func program (S (S (S n))) CommHandler_stream_stop [gcomm started thrd ev w p d PNone items sitems rest] [] =
  PyLite.Ok (IN.ack_obj (true, 0), Some (gcomm started thrd ev (w ++ [start_req false]) p d PNone items sitems rest)).
Proof. intros Hrest. pose proof (frame_start_ok false) as Efs. pystart. pyrun. Qed.
#[local] Hint Resolve stream_stop_nodev_func : pyspec.


(** [_channels_init(dev)]: the client's view right after connect ([Config.connected]); the
    field [_channels] is APPENDED when the handler never had one, replaced otherwise *)
Definition init_cli (chans : list chan_desc) : Config.client :=
  Config.mkCli (map cd_en chans) (map cd_en chans) (map cd_div chans) (map cd_div chans) true true.

Lemma init_cli_connected chans ds acs :
  init_cli chans = fst (Config.connected (map cd_en chans) (map cd_div chans) ds acs).
Proof. reflexivity. Qed.

Lemma channels_init_func n started thrd ev w p d dev items sitems rest cm flags rxp chans : crest rest ->
  call_func program (S (S (S n))) CommHandler__channels_init
    [gcomm started thrd ev w p d dev items sitems rest; dev_obj' cm flags rxp chans] [] =
  PyLite.Ok (PNone, Some (gcomm started thrd ev w p d dev items sitems [("_channels", chans_obj (init_cli chans))])).
Proof.
  intros [-> | [c ->]]; pystart; pyrun.
  all: unfold init_cli, gcomm, chans_obj; cbn [Config.en_now Config.en_new Config.div_now Config.div_new Config.en_sync Config.div_sync];
    rewrite !map_map; reflexivity.
Qed.
#[local] Hint Resolve channels_init_func : pyspec.

(** * _stop *)
Definition is_true (v : pv) : bool := match v with PBool true => true | _ => false end.

Lemma drop_all_func' started thrd ev dev rest m w p d q qs : crest rest -> (drain_limit <= m)%nat ->
  call_func program (S (F6 (S m))) CommHandler__drop_all
    [gcomm started thrd ev w p d dev (map item_pv q) (map item_pv qs) rest] [] =
  PyLite.Ok (PNone, Some (gcomm started thrd ev w p (d + 1) dev (map item_pv (drain q 4)) (map item_pv (drain qs 4)) rest)).
Proof. intros Hrest Hm. apply Src_lc_base.drop_all_func; [exact Hrest|lia..]. Qed.

(** [emb_gdev] with the pair taken apart (the executor then case-splits on [devinfo_m ..] itself) *)
Definition emb_gdev2 (started thrd : pv) (ev : list string) (dev : pv) (rest : list (string * pv))
           (r : dres * hstate) : PyLite.res (pv * option pv) :=
  let '(res, st') := r in
  match res with
  | DDev cm fl rxp acc => PyLite.Ok (dev_of cm fl rxp acc, Some (gcomm_of started thrd ev dev rest st'))
  | DNone => PyLite.Ok (PNone, Some (gcomm_of started thrd ev dev rest st'))
  | DRaise e => ExcS e (self_st (gcomm_of started thrd ev dev rest st'))
  | DUns s => Unsupported s
  end.

Lemma devinfo_get_func' started thrd ev dev rest m w p d q qs : crest rest -> (drain_limit <= m)%nat ->
  call_func program (S (F6 (S m))) CommHandler__devinfo_get
    [gcomm started thrd ev w p d dev (map item_pv q) (map item_pv qs) rest] [] =
  emb_gdev2 started thrd ev dev rest (devinfo_m w p d q qs).
Proof.
  intros Hrest Hm. rewrite Src_lc_devinfo.devinfo_get_func; [|exact Hrest|lia..].
  unfold emb_gdev, emb_gdev2. destruct (devinfo_m w p d q qs) as [[] ?]; reflexivity.
Qed.
#[local] Hint Resolve drop_all_func' devinfo_get_func' : pyspec.

(** a started handler: the worker is stopped, the link closed, both queues drained,
    the flags cleared; any other handler: nothing *)
Lemma stop_func m r s t ev w p d dev q qs rest : crest rest -> (drain_limit <= m)%nat ->
  call_func program (S (S (F6 (S m)))) CommHandler__stop
    [gcomm (PBool true) (fake_thread r s t) ev w p d dev (map item_pv q) (map item_pv qs) rest] [] =
  PyLite.Ok (PNone, Some (gcomm (PBool false) (fake_thread false s (if r then t + 1 else t)) (ev ++ ["intf.stop"])
                            w p (d + 1) PNone (map item_pv (drain q 4)) (map item_pv (drain qs 4)) rest)).
Proof. intros Hrest Hm. pystart. pyrun. Qed.

Lemma stop_stopped_func n thrd ev w p d dev items sitems rest : crest rest ->
  call_func program (S n) CommHandler__stop [gcomm (PBool false) thrd ev w p d dev items sitems rest] [] =
  PyLite.Ok (PNone, Some (gcomm (PBool false) thrd ev w p d dev items sitems rest)).
Proof. intros Hrest. pystart. pyrun. Qed.

(** * _start: the connect loop *)
(** the statements and the names of the locals, read off the AST *)
Definition if_a (s : stmt) : stmts := match s with SIf _ a _ => a | _ => Snil end.
Definition try_b (s : stmt) : stmts := match s with STry b _ => b | _ => Snil end.
Definition st_if : stmt := nth_stmt 0 (f_body CommHandler__start).
Definition st_try : stmt := nth_stmt 5 (if_a st_if).
Definition st_while : stmt := nth_stmt 0 (try_b st_try).
Definition st_raise_if : stmt := nth_stmt 0 (while_b st_while).
Definition v_sself : string := Eval cbv in param0 CommHandler__start.
Definition v_timeout : string := Eval cbv in assigned (nth_stmt 4 (if_a st_if)).
Definition v_msg : string := Eval cbv in assigned (nth_stmt 0 (if_a st_raise_if)).
Definition msg_val : pv :=
  Eval cbv in match nth_stmt 0 (if_a st_raise_if) with SAssign _ (EConst v) => v | _ => PNone end.
Ltac snames := cbv delta [v_sself v_timeout v_msg msg_val] in *.

Definition senv (self : pv) (t : Z) (raised : bool) : env :=
  ([(v_sself, self); (v_timeout, PInt t)] ++ (if raised then [(v_msg, msg_val)] else []))%list.

(** the loop as a function of the handler's state: [n] rounds left; the outcome,
    the rounds left at that point, the state *)
Inductive cres :=
  | CDev (cm fl rxp : Z) (chans : list (Z * Info.chan_cfg))
  | CTimeout
  | CRaise (e : string)
  | CUns (s : string).

Fixpoint connect_m (n : nat) (st : hstate) : cres * nat * hstate :=
  match n with
  | O => (CTimeout, O, st)
  | S n' =>
      let '(w, p, d, q, qs) := st in
      match devinfo_m w p d q qs with
      | (DDev cm fl rxp acc, st') => (CDev cm fl rxp acc, n', st')
      | (DNone, st') => connect_m n' st'
      | (DRaise e, st') => (CRaise e, n, st')
      | (DUns s, st') => (CUns s, n, st')
      end
  end.

Definition connect_out (started thrd : pv) (ev : list string) (rest : list (string * pv))
           (r : cres * nat * hstate) : PyLite.res out :=
  let '(res, rem, st') := r in
  match res with
  | CDev cm fl rxp acc =>
      PyLite.Ok (ONorm (senv (gcomm_of started thrd ev (dev_of cm fl rxp acc) rest st') (Z.of_nat rem - 1) false))
  | CTimeout => ExcS "TimeoutError" (senv (gcomm_of started thrd ev PNone rest st') (-1) true)
  | CRaise e => ExcS e (senv (gcomm_of started thrd ev PNone rest st') (Z.of_nat rem - 1) false)
  | CUns s => Unsupported s
  end.

#[local] Hint Unfold emb_gdev2 : lc_model.

Lemma connect_loop m started thrd ev rest : crest rest -> (drain_limit <= m)%nat ->
  forall n k st, (n < k)%nat ->
  while_loop program (call_func program (S (F6 (S m)))) (S (F6 (S m))) (while_c st_while) (while_b st_while) k
    (senv (gcomm_of started thrd ev PNone rest st) (Z.of_nat n - 1) false) =
  connect_out started thrd ev rest (connect_m n st).
Proof.
  intros Hrest Hm. induction n as [|n IH]; intros k [[[[w p] d] q] qs] Hk; (destruct k as [|k]; [lia|]).
  all: cbv [st_while st_try st_if if_a try_b nth_stmt while_c while_b f_body CommHandler__start].
  all: rewrite while_loop_S; unfold senv, connect_out; snames; cbn [app connect_m gcomm_of].
  - pysteps. reflexivity.
  - destruct (devinfo_m w p d q qs) as [res [[[[w' p'] d'] q'] qs']] eqn:Edev.
    destruct res as [cm fl rxp acc| |e|e]; cbn [fst snd gcomm_of].
    + pysteps. destruct k as [|k]; [lia|]. rewrite while_loop_S. pysteps.
      replace (Z.of_nat (S n) - 1 - 1) with (Z.of_nat n - 1) by lia. reflexivity.
    + pysteps. specialize (IH k (w', p', d', q', qs') ltac:(lia)).
      cbv [st_while st_try st_if if_a try_b nth_stmt while_c while_b f_body CommHandler__start] in IH.
      unfold senv, connect_out in IH. snames. cbn [app gcomm_of] in IH.
      replace (Z.of_nat (S n) - 1 - 1) with (Z.of_nat n - 1) by lia. exact IH.
    + pysteps. reflexivity.
    + pysteps. reflexivity.
Qed.

(** * _start *)
(** the outcome of [_start] on a handler that is not started and has no device
    description, as a function of its state: the stop request goes out (its
    answer is not awaited: without a description every request counts as
    acknowledged), both queues are drained, the worker is started, then at most
    [Handshake.connect_attempts] = 6 rounds of [_devinfo_get] *)
Definition start_state (w : list bytes) (p d : Z) (q qs : list qitem) : hstate :=
  ((w ++ [start_req false])%list, p, d + 1, drain q 4, drain qs 4).

Definition start_out (r : bool) (s t : Z) (ev : list string) (w : list bytes) (p d : Z) (q qs : list qitem)
           (rest : list (string * pv)) : PyLite.res (pv * option pv) :=
  let s' := if r then s else s + 1 in
  let failed st' :=
    gcomm_of (PBool false) (fake_thread false s' (t + 1)) ((ev ++ ["intf.start"]) ++ ["intf.stop"]) PNone rest st' in
  match connect_m 6 (start_state w p d q qs) with
  | (CDev cm fl rxp acc, _, st') =>
      PyLite.Ok (PNone, Some (gcomm_of (PBool true) (fake_thread true s' t) (ev ++ ["intf.start"]) (dev_of cm fl rxp acc)
                                [("_channels", chans_obj (init_cli (map chan_desc_of acc)))] st'))
  | (CTimeout, _, st') => ExcS "TimeoutError" (self_st (failed st'))
  | (CRaise e, _, st') => ExcS e (self_st (failed st'))
  | (CUns x, _, _) => Unsupported x
  end.

#[local] Arguments connect_m : simpl never.
#[local] Hint Unfold connect_out : lc_model.

Lemma start_func m r s t ev w p d q qs rest : crest rest -> (drain_limit <= m)%nat ->
  call_func program (S (S (F6 (S m)))) CommHandler__start
    [gcomm (PBool false) (fake_thread r s t) ev w p d PNone (map item_pv q) (map item_pv qs) rest] [] =
  start_out r s t ev w p d q qs rest.
Proof.
  intros Hrest Hm. pystart. unfold start_out. pystepst.
  lazymatch goal with
  | |- context [while_loop ?P ?cf ?lf ?cc ?b ?k ?e] =>
      change (while_loop P cf lf cc b k e) with
        (while_loop P cf lf (while_c st_while) (while_b st_while) k
           (senv (gcomm_of (PBool false) (fake_thread true (if r then s else s + 1) t) (ev ++ ["intf.start"]) PNone rest
                    (start_state w p d q qs)) (Z.of_nat 6 - 1) false))
  end.
  rewrite (connect_loop m) by (assumption || lia).
  destruct (connect_m 6 (start_state w p d q qs)) as [[res rem] [[[[w' p'] d'] q'] qs']].
  destruct res as [cm fl rxp acc| |e|e]; unfold connect_out, senv; snames; cbn [app gcomm_of].
  all: pyrunt.
Qed.
#[local] Hint Resolve start_func : pyspec.

(** a started handler: nothing *)
Lemma start_started_func n thrd ev w p d dev items sitems rest : crest rest ->
  call_func program (S n) CommHandler__start [gcomm (PBool true) thrd ev w p d dev items sitems rest] [] =
  PyLite.Ok (PNone, Some (gcomm (PBool true) thrd ev w p d dev items sitems rest)).
Proof. intros Hrest. pystart. pyrun. Qed.

(** * connect / disconnect *)
#[local] Hint Unfold start_out : lc_model.
#[local] Arguments start_state : simpl never.

Lemma connect_func m r s t ev w p d q qs rest : crest rest -> (drain_limit <= m)%nat ->
  call_func program (S (S (S (F6 (S m))))) CommHandler_connect
    [gcomm (PBool false) (fake_thread r s t) ev w p d PNone (map item_pv q) (map item_pv qs) rest] [] =
  start_out r s t ev w p d q qs rest.
Proof.
  intros Hrest Hm. pystart. unfold start_out at 1.
  destruct (connect_m 6 (start_state w p d q qs)) as [[res rem] [[[[w' p'] d'] q'] qs']] eqn:Ec.
  destruct res; pyrun.
Qed.

(** [connect] on a started handler: nothing, if it has a device description *)
Lemma connect_started_func n thrd ev w p d cm fl rxp acc items sitems rest : crest rest ->
  call_func program (S (S n)) CommHandler_connect
    [gcomm (PBool true) thrd ev w p d (dev_of cm fl rxp acc) items sitems rest] [] =
  PyLite.Ok (PNone, Some (gcomm (PBool true) thrd ev w p d (dev_of cm fl rxp acc) items sitems rest)).
Proof. intros Hrest. pystart. pyrun. Qed.

Lemma disconnect_func m r s t ev w p d dev q qs rest : crest rest -> (drain_limit <= m)%nat ->
  call_func program (S (S (S (F6 (S m))))) CommHandler_disconnect
    [gcomm (PBool true) (fake_thread r s t) ev w p d dev (map item_pv q) (map item_pv qs) rest] [] =
  PyLite.Ok (PNone, Some (gcomm (PBool false) (fake_thread false s (if r then t + 1 else t)) (ev ++ ["intf.stop"])
                            w p (d + 1) PNone (map item_pv (drain q 4)) (map item_pv (drain qs 4)) rest)).
Proof. intros Hrest Hm. pystart. pyrun. Qed.

Lemma disconnect_stopped_func n thrd ev w p d dev items sitems rest : crest rest ->
  call_func program (S (S n)) CommHandler_disconnect [gcomm (PBool false) thrd ev w p d dev items sitems rest] [] =
  PyLite.Ok (PNone, Some (gcomm (PBool false) thrd ev w p d dev items sitems rest)).
Proof. intros Hrest. pystart. pyrun. Qed.

(** the hooks are global Ltac state: restore the defaults for whoever loads this file *)
Ltac py_stuck_hook h ::= fail.
Ltac py_unfold_hook ::= idtac.

(** * Audit *)
Print Assumptions stream_stop_nodev_func.
Print Assumptions channels_init_func.
Print Assumptions stop_func.
Print Assumptions stop_stopped_func.
Print Assumptions connect_loop.
Print Assumptions start_func.
Print Assumptions start_started_func.
Print Assumptions connect_func.
Print Assumptions connect_started_func.
Print Assumptions disconnect_func.
Print Assumptions disconnect_stopped_func.

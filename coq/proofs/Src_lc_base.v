(** THE CONNECT / DISCONNECT LIFE CYCLE of nxslib (comm.py CommHandler._start /
    _stop / connect / disconnect, nxscope.py the NxscopeHandler methods) as INTERPRETED
    SOURCE.  Part 1: the embedding of the COMPLETE CommHandler object (all the
    fields its [__init__] assigns, the worker thread replaced by the recording
    stub FakeThread, the link by LogIntf with its [events] log, the two queues
    by ScriptQueue), the stubs, and the handshake helpers of
    proofs/Src_handshake_base.v RE-PROVED FOR THAT OBJECT (the lemmas there are
    about the five-field object [hcomm]; a method call on the full object needs
    them for the full object).  The proofs are the same scripts.

    [gcomm started thrd ev w pad dropped dev items sitems rest]: [rest] is what
    follows [_q_stream] in the field list: nothing on a fresh handler,
    [("_channels", c)] once [_channels_init] has run ([crest]). *)
From Coq Require Import String Ascii List ZArith NArith Bool Lia ZifyBool.
From NX Require Import Bytes PyStruct Crc PyLite PyLite_tactics PyLite_tactics_ext
  Src_dev Src_iparse Src_parse Src_comm Src_prelude Src_all
  Src_serialframe_proofs Src_parse_req_lemmas Src_records_proofs Src_config_base Src_config_req
  Src_handshake_base.
From NX Require Src_parse_req_proofs Src_info_proofs.
From NX Require Frame Request Info Info_proofs Handshake Handshake_proofs Gen_frame Gen_req Gen_misc.
Import ListNotations.
Open Scope string_scope.
Open Scope Z_scope.

(** * The embedding *)
Definition fake_thread (running : bool) (starts stops : Z) : pv :=
  PObj "FakeThread" [("running", PBool running); ("starts", PInt starts); ("stops", PInt stops)].

Definition gintf (ev : list string) (w : list bytes) (pad dropped : Z) : pv :=
  PObj "LogIntf" [("written", PList (map PBytes w)); ("write_padding", PInt pad); ("dropped", PInt dropped);
                  ("events", PList (map PStr ev))].

Definition gcomm (started thrd : pv) (ev : list string) (w : list bytes) (pad dropped : Z) (dev : pv)
           (items sitems : list pv) (rest : list (string * pv)) : pv :=
  PObj "CommHandler"
    (("_started", started) :: ("_thrd", thrd) :: ("_intf", gintf ev w pad dropped) :: ("_parse", pa) ::
     ("_prev_read", PBytes []) :: ("_dev", dev) :: ("_q", queue_obj items) :: ("_q_stream", queue_obj sitems) :: rest).

(** what may follow [_q_stream]: nothing, or the channel configuration *)
Definition crest (rest : list (string * pv)) : Prop := rest = [] \/ exists c, rest = [("_channels", c)].
Definition rest_of (chs : option pv) : list (string * pv) :=
  match chs with Some c => [("_channels", c)] | None => [] end.

Lemma crest_nil : crest [].
Proof. left. reflexivity. Qed.
Lemma crest_one c : crest [("_channels", c)].
Proof. right. exists c. reflexivity. Qed.
Lemma crest_rest_of chs : crest (rest_of chs).
Proof. destruct chs; [apply crest_one | apply crest_nil]. Qed.
Lemma crest_lookup s rest : crest rest -> String.eqb s "_channels" = false -> lookup s rest = None.
Proof. intros [->|[c ->]] H; cbn [lookup]; [reflexivity | rewrite H; reflexivity]. Qed.
Lemma crest_update v rest : crest rest -> update "_channels" v rest = [("_channels", v)].
Proof. intros [->|[c ->]]; reflexivity. Qed.
#[export] Hint Resolve crest_nil crest_one crest_rest_of : pyspec.

(** a look-up that ran through the concrete fields into [rest] *)
Ltac crest_hook h :=
  lazymatch h with
  | lookup ?s ?r =>
      is_var r;
      match goal with H : crest r |- _ => rewrite (crest_lookup s r H eq_refl) end
  end.

#[local] Hint Unfold pa RQ.pa IN.pa sf gintf queue_obj gcomm item_pv fake_thread
  IN.cmninfo_obj frame_obj perr_obj : lc_model.
Ltac py_unfold_hook ::= autounfold with lc_model.
#[local] Arguments norm_index : simpl never.
#[local] Arguments enum_id : simpl never.
#[local] Arguments is_none !x /.

Ltac py_stuck_hook h ::=
  first [ crest_hook h |
  lazymatch h with
  | norm_index (List.length (map _ _)) _ => rewrite map_length
  | norm_index (S _) 0 => rewrite norm_index_S0
  | py_is _ PNone => rewrite py_is_none
  | context [nth ?k (_ :: _) _] => is_nat_lit k; progress cbn [nth]
  | context [slice_from (_ :: _) 1] => rewrite slice_from_cons1
  | 0 <? Z.of_nat (S ?c) => rewrite (ltb_0_S c)
  end ].

(** * 0. The stubs: the recording thread, the link's start/stop log *)
Lemma thread_start_func n r s t :
  call_func program (S n) FakeThread_thread_start [fake_thread r s t] [] =
  PyLite.Ok (PNone, Some (fake_thread true (if r then s else s + 1) t)).
Proof. pystart. destruct r; pyrun. Qed.

Lemma thread_stop_func n r s t :
  call_func program (S n) FakeThread_thread_stop [fake_thread r s t] [] =
  PyLite.Ok (PNone, Some (fake_thread false s (if r then t + 1 else t))).
Proof. pystart. destruct r; pyrun. Qed.

Lemma gintf_start_func n ev w p d :
  call_func program (S n) LogIntf_start [gintf ev w p d] [] =
  PyLite.Ok (PNone, Some (gintf (ev ++ ["intf.start"]) w p d)).
Proof. pystart. pyrun. unfold gintf. rewrite map_app. reflexivity. Qed.

Lemma gintf_stop_func n ev w p d :
  call_func program (S n) LogIntf_stop [gintf ev w p d] [] =
  PyLite.Ok (PNone, Some (gintf (ev ++ ["intf.stop"]) w p d)).
Proof. pystart. pyrun. unfold gintf. rewrite map_app. reflexivity. Qed.

Lemma gintf_write_func n ev w p d b :
  call_func program (S n) LogIntf_write [gintf ev w p d; PBytes b] [] =
  PyLite.Ok (PNone, Some (gintf ev (w ++ [b]) p d)).
Proof. pystart. pyrun. unfold gintf. rewrite map_app. reflexivity. Qed.

Lemma gintf_drop_all_func n ev w p d :
  call_func program (S n) LogIntf_drop_all [gintf ev w p d] [] =
  PyLite.Ok (PNone, Some (gintf ev w p (d + 1))).
Proof. pystart. pyrun. Qed.

#[local] Hint Resolve queue_get_func gintf_write_func gintf_drop_all_func : pyspec.

Section Handshake.
Variables (started thrd : pv) (ev : list string) (dev : pv) (rest : list (string * pv)).
Hypothesis Hrest : crest rest.
Local Notation hcomm w p d q qs :=
  (gcomm started thrd ev w p d dev (map item_pv q) (map item_pv qs) rest).

(** * 1. The two queues *)
Lemma get_frame_func n w p d q qs t :
  call_func program (S (S n)) CommHandler__get_frame [hcomm w p d q qs] [("timeout", t)] =
  PyLite.Ok (q_head q, Some (hcomm w p d (tl q) qs)).
Proof. pystart. destruct q as [|[|fid data] r]; cbn [map tl q_head]; pyrun. Qed.

Lemma get_stream_frame_func n w p d q qs t :
  call_func program (S (S n)) CommHandler__get_stream_frame [hcomm w p d q qs] [("timeout", t)] =
  PyLite.Ok (q_head qs, Some (hcomm w p d q (tl qs))).
Proof. pystart. destruct qs as [|[|fid data] r]; cbn [map tl q_head]; pyrun. Qed.

#[local] Hint Resolve get_frame_func get_stream_frame_func : pyspec.

(** * 2. _drop_all_frames *)
Ltac drain_loop_tac IH :=
  lazymatch goal with
  | |- exists _ _ _, while_loop _ _ _ _ _ _ (denv _ ?l ?c ?o) = _ =>
      rewrite while_loop_S; unfold denv; dnames;
      destruct c as [|c];
      [ exists O, l, o; rewrite drain_lim_0; destruct o; cbn [app]; pysteps; reflexivity
      | destruct l as [|l];
        [ exists (S c), O, o; rewrite drain_lim_l0; destruct o; cbn [app]; pysteps; reflexivity
        | lazymatch goal with
          | |- context [drain_lim ?q (S c) (S l)] =>
              let c' := fresh "c" in let l' := fresh "l" in let o' := fresh "o" in let E := fresh "E" in
              let fid := fresh "fid" in let data := fresh "data" in let r := fresh "r" in
              destruct q as [|[|fid data] r];
              [ destruct (IH (@nil qitem) c (S l) (Some PNone) ltac:(cbn [List.length] in *; lia)) as (c' & l' & o' & E)
              | destruct (IH r c (S l) (Some PNone) ltac:(cbn [List.length] in *; lia)) as (c' & l' & o' & E)
              | destruct (IH r (S c) l (Some (item_pv (QFrame fid data))) ltac:(cbn [List.length] in *; lia)) as (c' & l' & o' & E) ];
              rewrite ?drain_lim_nil in E; exists c', l', o'; destruct o; cbn [app map tl drain_lim]; pysteps; loop_close E
          end ] ]
  end.

Lemma drain_loop1 m w p d qs : forall k q c l o, (c + Nat.min l (List.length q) < k)%nat -> exists c' l' o',
  while_loop program (call_func program (S (S m))) (S (S m)) (while_c daf_w1) (while_b daf_w1) k
    (denv (hcomm w p d q qs) l c o) =
  PyLite.Ok (ONorm (denv (hcomm w p d (drain_lim q c l) qs) l' c' o')).
Proof.
  induction k as [|k IH]; intros q c l o Hk; [lia|].
  cbv [daf_w1 daf_w2 nth_stmt while_c while_b f_body CommHandler__drop_all_frames].
  drain_loop_tac IH.
Qed.

Lemma drain_loop2 m w p d q : forall k qs c l o, (c + Nat.min l (List.length qs) < k)%nat -> exists c' l' o',
  while_loop program (call_func program (S (S m))) (S (S m)) (while_c daf_w2) (while_b daf_w2) k
    (denv (hcomm w p d q qs) l c o) =
  PyLite.Ok (ONorm (denv (hcomm w p d q (drain_lim qs c l)) l' c' o')).
Proof.
  induction k as [|k IH]; intros qs c l o Hk; [lia|].
  cbv [daf_w1 daf_w2 nth_stmt while_c while_b f_body CommHandler__drop_all_frames].
  drain_loop_tac IH.
Qed.

Lemma drop_all_frames_func m w p d q qs :
  (Nat.min drain_limit (List.length q) + 3 <= m)%nat -> (Nat.min drain_limit (List.length qs) + 3 <= m)%nat ->
  call_func program (S (S (S m))) CommHandler__drop_all_frames [hcomm w p d q qs] [] =
  PyLite.Ok (PNone, Some (hcomm w p d (drain q 4) (drain qs 4))).
Proof.
  intros Hq Hqs. unfold drain, drain_limit in *. pystart. pysteps.
  drain_loop_env daf_w1 (hcomm w p d q qs) 256%nat 4%nat (@None pv).
  destruct (drain_loop1 m w p d qs (S (S m)) q 4%nat 256%nat None ltac:(lia)) as (c1 & l1 & o1 & E1).
  rewrite E1. clear E1.
  unfold denv; dnames. destruct o1; cbn [app]; pysteps.
  all: lazymatch goal with
       | |- context [while_loop _ _ _ _ _ _ [_; _; _; (_, ?v)]] =>
           drain_loop_env daf_w2 (hcomm w p d (drain_lim q 4 256) qs) 256%nat 4%nat (Some v)
       | _ => drain_loop_env daf_w2 (hcomm w p d (drain_lim q 4 256) qs) 256%nat 4%nat (@None pv)
       end.
  all: lazymatch goal with
       | |- context [denv _ _ _ ?o] =>
           let c2 := fresh "c" in let l2 := fresh "l" in let o2 := fresh "o" in let E2 := fresh "E" in
           destruct (drain_loop2 m w p d (drain_lim q 4 256) (S (S m)) qs 4%nat 256%nat o ltac:(lia))
             as (c2 & l2 & o2 & E2); rewrite E2; clear E2;
           unfold denv; dnames; destruct o2; cbn [app]; pyrun
       end.
Qed.

#[local] Hint Resolve drop_all_frames_func : pyspec.

Lemma drop_all_func m w p d q qs :
  (Nat.min drain_limit (List.length q) + 3 <= m)%nat -> (Nat.min drain_limit (List.length qs) + 3 <= m)%nat ->
  call_func program (S (S (S (S m)))) CommHandler__drop_all [hcomm w p d q qs] [] =
  PyLite.Ok (PNone, Some (hcomm w p (d + 1) (drain q 4) (drain qs 4))).
Proof. intros Hq Hqs. pystart. pyrun. Qed.

(** * 3. One request of the handshake *)
#[local] Hint Unfold IN.emb_opt RQ.emb_f emb_rq : lc_model.
#[local] Arguments Info.frame_cmninfo_decode : simpl never.
#[local] Arguments Info.frame_chinfo_decode : simpl never.
#[local] Arguments Request.frame_cmninfo : simpl never.
#[local] Arguments Request.frame_chinfo : simpl never.
#[local] Arguments IN.emb_chan : simpl never.
#[local] Hint Resolve RQ.frame_cmninfo_func RQ.frame_chinfo_func IN.cmninfo_decode_func IN.cmninfo_decode_func_None
  IN.chinfo_decode_func IN.chinfo_decode_func_None : pyspec.

Lemma nxslib_cmninfo_func n w p d q qs :
  call_func program (S (S (S n))) CommHandler__nxslib_cmninfo [hcomm w p d q qs] [] =
  emb_rq IN.cmninfo_obj (fun w' q' => hcomm w' p d q' qs) w q
    Request.frame_cmninfo (pop_dec Info.frame_cmninfo_decode q).
Proof. pystart. destruct q as [|[|fid data] r]; cbn [pop_dec map tl]; pyrun. Qed.

Lemma nxslib_chinfo_func n w p d q qs chan :
  call_func program (S (S (S (S (S (S n)))))) CommHandler__nxslib_chinfo [hcomm w p d q qs; PInt chan] [] =
  emb_rq (IN.emb_chan chan) (fun w' q' => hcomm w' p d q' qs) w q
    (Request.frame_chinfo chan) (pop_dec Info.frame_chinfo_decode q).
Proof. pystart. destruct q as [|[|fid data] r]; cbn [pop_dec map tl]; pyrun. Qed.

End Handshake.

(** the hooks are global Ltac state: restore the defaults for whoever loads this file *)
Ltac py_stuck_hook h ::= fail.
Ltac py_unfold_hook ::= idtac.

(** * Audit *)
Print Assumptions thread_start_func.
Print Assumptions thread_stop_func.
Print Assumptions gintf_start_func.
Print Assumptions gintf_stop_func.
Print Assumptions get_frame_func.
Print Assumptions get_stream_frame_func.
Print Assumptions drop_all_frames_func.
Print Assumptions drop_all_func.
Print Assumptions nxslib_cmninfo_func.
Print Assumptions nxslib_chinfo_func.

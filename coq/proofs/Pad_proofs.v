(** data_align only appends zeros up to the next multiple (C17). *)
From Coq Require Import Lia ZifyBool ZifyNat ZifyN.
From NX Require Import Bytes Pad Bytes_proofs.
From NX Require Gen_misc.
Ltac Zify.zify_post_hook ::= Z.to_euclidean_division_equations.
Open Scope Z_scope.

Lemma concat_repeat_pad k : concat (repeat Gen_misc.align_pad_byte k) = repeat 0%N k.
Proof. induction k as [|k IH]; [reflexivity|]. cbn [repeat concat]. rewrite IH. reflexivity. Qed.

(** number of zero bytes the specification asks for *)
Definition pad_count (p len : Z) : Z :=
  if p =? 0 then 0 else (p - len mod p) mod p.

Theorem data_align_spec p d :
  0 <= p -> data_align p d = d ++ repeat 0%N (Z.to_nat (pad_count p (zlen d))).
Proof.
  intros Hp. unfold data_align, pad_count.
  destruct (p =? 0) eqn:E0; [change (Z.to_nat 0) with 0%nat; cbn [repeat]; now rewrite app_nil_r|].
  assert (Hp0 : 0 < p) by lia.
  pose proof (Z.mod_pos_bound (zlen d) p Hp0) as B.
  destruct (zlen d mod p =? 0) eqn:E1.
  - apply Z.eqb_eq in E1. rewrite E1, Z.sub_0_r, Z.mod_same by lia.
    change (Z.to_nat 0) with 0%nat; cbn [repeat]. now rewrite app_nil_r.
  - rewrite concat_repeat_pad.
    apply Z.eqb_neq in E1.
    rewrite (Z.mod_small (p - zlen d mod p)) by lia. reflexivity.
Qed.

(** the count is the unique k < max p 1 making the length a multiple of p *)
Theorem pad_count_props p len :
  0 <= p -> 0 <= len ->
  let k := pad_count p len in
  0 <= k /\ (p = 0 -> k = 0) /\
  (0 < p -> k < p /\ (len + k) mod p = 0 /\
            forall k', 0 <= k' < p -> (len + k') mod p = 0 -> k' = k).
Proof.
  intros Hp Hl. unfold pad_count. destruct (p =? 0) eqn:E0.
  - cbn. repeat split; try lia.
  - cbn zeta. split; [lia|]. split; [lia|]. intros Hpos. split; [lia|]. split.
    + rewrite Z.add_mod_idemp_r by lia.
      replace (len + (p - len mod p)) with (len - len mod p + 1 * p) by lia.
      rewrite Z.mod_add by lia. rewrite Zminus_mod_idemp_r. now rewrite Z.sub_diag, Z.mod_0_l by lia.
    + intros k' Hk' Hm.
      assert (A : (len mod p + k') mod p = 0)
        by (rewrite Z.add_mod_idemp_l by lia; exact Hm).
      assert (B : 0 <= len mod p < p) by (apply Z.mod_pos_bound; lia).
      destruct (Z.eq_dec (len mod p) 0) as [Z0|NZ].
      * rewrite Z0 in *. rewrite Z.sub_0_r, Z.mod_same by lia.
        cbn in A. rewrite Z.mod_small in A by lia. lia.
      * rewrite (Z.mod_small (p - len mod p)) by lia.
        assert (C : len mod p + k' = p).
        { destruct (Z_lt_ge_dec (len mod p + k') p) as [Lt|Ge].
          - rewrite Z.mod_small in A by lia. lia.
          - replace (len mod p + k') with ((len mod p + k' - p) + 1 * p) in A by lia.
            rewrite Z.mod_add in A by lia. rewrite Z.mod_small in A by lia. lia. }
        lia.
Qed.

(** The DESCRIPTION PHASE OF THE CONNECT HANDSHAKE of nxslib.comm.CommHandler
    as INTERPRETED SOURCE, part 3 of 3 (parts 1 and 2: Src_handshake_base.v,
    Src_handshake_devinfo.v): the theorems.

    The handler is [hcomm written pad dropped q qs]: link = the harness stub
    LogIntf (everything written, in order; [write_padding]; a counter of
    [drop_all] calls), frame queue / stream queue = the harness stub
    ScriptQueue with the typed scripts [q], [qs : list qitem]
    ([QTimeout | QFrame fid data]).

    1. [devinfo_get_spec] (Src_handshake_devinfo.v): for ALL scripts and every
       fuel >= 8 + min 256 (max (length (tl q)) (length qs)) -- so every fuel >= 264, for scripts of ANY length --,
         call_method program fuel (hcomm ..) "_devinfo_get" [] = emb_dev_top (devinfo_m ..)
       with [devinfo_m] a total (structurally recursive) function.  Hence
       [devinfo_get_returns]: the result is never [Fuel], never [Unsupported];
       it is [Ok (None | Device)] or [Exc "struct.error" | Exc "UnicodeDecodeError"].
    2. [devinfo_requests]: what is written; [devinfo_consumed], [drain_split]: what is
       consumed of the scripts (at most 4 + 256 items per drain loop, whatever they hold).
    3. [devinfo_refines]: [devinfo_m] against Handshake.devinfo_get. *)
From Coq Require Import String Ascii List ZArith NArith Bool Lia ZifyBool.
From NX Require Import Bytes PyStruct Crc PyLite PyLite_tactics PyLite_tactics_ext
  Src_dev Src_iparse Src_parse Src_comm Src_prelude Src_all
  Src_serialframe_proofs Src_parse_req_lemmas Src_records_proofs Src_config_base Src_config_req
  Src_handshake_base Src_handshake_devinfo.
From NX Require Src_parse_req_proofs Src_info_proofs.
From NX Require Bytes_proofs Frame Request Request_proofs Info Info_proofs Handshake Handshake_proofs
  Gen_frame Gen_req Gen_misc.
Import ListNotations.
Open Scope string_scope.
Open Scope Z_scope.

#[local] Hint Unfold pa RQ.pa IN.pa sf lintf queue_obj hcomm item_pv
  IN.cmninfo_obj frame_obj perr_obj IN.emb_opt RQ.emb_f emb_rq emb_dev emb_dev_top : hs_model.
Ltac py_unfold_hook ::= autounfold with hs_model.
#[local] Arguments norm_index : simpl never.
#[local] Arguments enum_id : simpl never.
#[local] Arguments Info.frame_cmninfo_decode : simpl never.
#[local] Arguments Info.frame_chinfo_decode : simpl never.
#[local] Arguments Request.frame_cmninfo : simpl never.
#[local] Arguments Request.frame_chinfo : simpl never.
#[local] Arguments IN.emb_chan : simpl never.
#[local] Arguments pop_dec : simpl never.
#[local] Arguments is_none !x /.
#[local] Hint Resolve queue_get_func get_frame_func get_stream_frame_func drop_all_frames_func drop_all_func
  nxslib_cmninfo_func nxslib_chinfo_func : pyspec.
Ltac py_stuck_hook h ::=
  lazymatch h with
  | norm_index (List.length (map _ _)) _ => rewrite map_length
  | norm_index (S _) 0 => rewrite norm_index_S0
  | py_is _ PNone => rewrite py_is_none
  | context [nth ?k (_ :: _) _] => is_nat_lit k; progress cbn [nth]
  | context [slice_from (_ :: _) 1] => rewrite slice_from_cons1
  end.

(** * A. The helpers at the entry points *)
Theorem get_frame_spec n w p d q qs t :
  call_method program (2 + n) (hcomm w p d q qs) "_get_frame" [t] =
  PyLite.Ok (q_head q, hcomm w p d (tl q) qs).
Proof. pystart. destruct q as [|[|fid data] r]; cbn [map tl q_head]; pyrun. Qed.

Theorem get_stream_frame_spec n w p d q qs t :
  call_method program (2 + n) (hcomm w p d q qs) "_get_stream_frame" [t] =
  PyLite.Ok (q_head qs, hcomm w p d q (tl qs)).
Proof. pystart. destruct qs as [|[|fid data] r]; cbn [map tl q_head]; pyrun. Qed.

(** [_drop_all_frames] terminates for every pair of scripts and consumes of
    each exactly the prefix [drain] says: up to and including the 4th time-out,
    or 256 frames, or everything.  The fuel needed is bounded by a constant *)
Theorem drop_all_frames_spec n w p d q qs :
  (6 + Nat.min drain_limit (List.length q) <= n)%nat -> (6 + Nat.min drain_limit (List.length qs) <= n)%nat ->
  call_method program n (hcomm w p d q qs) "_drop_all_frames" [] =
  PyLite.Ok (PNone, hcomm w p d (drain q 4) (drain qs 4)).
Proof.
  intros Hq Hqs. replace n with (S (S (S (n - 3)))) by lia.
  assert (Hq' : (Nat.min drain_limit (List.length q) + 3 <= n - 3)%nat) by lia.
  assert (Hqs' : (Nat.min drain_limit (List.length qs) + 3 <= n - 3)%nat) by lia.
  pystart. pyrun.
Qed.

Corollary drop_all_frames_spec_const n w p d q qs :
  (262 <= n)%nat ->
  call_method program n (hcomm w p d q qs) "_drop_all_frames" [] =
  PyLite.Ok (PNone, hcomm w p d (drain q 4) (drain qs 4)).
Proof. intros H. apply drop_all_frames_spec; unfold drain_limit; lia. Qed.

Theorem drop_all_spec n w p d q qs :
  (7 + Nat.min drain_limit (List.length q) <= n)%nat -> (7 + Nat.min drain_limit (List.length qs) <= n)%nat ->
  call_method program n (hcomm w p d q qs) "_drop_all" [] =
  PyLite.Ok (PNone, hcomm w p (d + 1) (drain q 4) (drain qs 4)).
Proof.
  intros Hq Hqs. replace n with (S (S (S (S (n - 4))))) by lia.
  assert (Hq' : (Nat.min drain_limit (List.length q) + 3 <= n - 4)%nat) by lia.
  assert (Hqs' : (Nat.min drain_limit (List.length qs) + 3 <= n - 4)%nat) by lia.
  pystart. pyrun.
Qed.

Corollary drop_all_spec_const n w p d q qs :
  (263 <= n)%nat ->
  call_method program n (hcomm w p d q qs) "_drop_all" [] =
  PyLite.Ok (PNone, hcomm w p (d + 1) (drain q 4) (drain qs 4)).
Proof. intros H. apply drop_all_spec; unfold drain_limit; lia. Qed.

(** one request: the request frame is appended to [written], at most ONE item
    of the script is consumed ([tl]), whatever it is *)
Definition emb_rq_top {A} (f : A -> pv) (self : list bytes -> list qitem -> pv) (w : list bytes) (q : list qitem)
           (fr : Frame.res bytes) (r : Frame.res (option A)) : PyLite.res (pv * pv) :=
  match fr with
  | Frame.Ok b =>
      match r with
      | Frame.Ok None => PyLite.Ok (PNone, self (w ++ [b])%list (tl q))
      | Frame.Ok (Some t) => PyLite.Ok (f t, self (w ++ [b])%list (tl q))
      | Frame.Raise e => Exc e
      | Frame.Err _ => Unsupported "Err"
      end
  | Frame.Raise e => Exc e
  | Frame.Err _ => Unsupported ""
  end.
#[local] Hint Unfold emb_rq_top : hs_model.

Theorem nxslib_cmninfo_spec n w p d q qs :
  call_method program (3 + n) (hcomm w p d q qs) "_nxslib_cmninfo" [] =
  emb_rq_top IN.cmninfo_obj (fun w' q' => hcomm w' p d q' qs) w q
    Request.frame_cmninfo (pop_dec Info.frame_cmninfo_decode q).
Proof. pystart. pyrun. Qed.

Theorem nxslib_chinfo_spec n w p d q qs chan :
  call_method program (6 + n) (hcomm w p d q qs) "_nxslib_chinfo" [PInt chan] =
  emb_rq_top (IN.emb_chan chan) (fun w' q' => hcomm w' p d q' qs) w q
    (Request.frame_chinfo chan) (pop_dec Info.frame_chinfo_decode q).
Proof. pystart. pyrun. Qed.

(** ** what [drain] consumes *)
Definition n_timeouts (q : list qitem) : nat :=
  List.length (filter (fun i => match i with QTimeout => true | _ => false end) q).
Definition n_frames (q : list qitem) : nat :=
  List.length (filter (fun i => match i with QTimeout => false | _ => true end) q).

Lemma n_split q : List.length q = (n_timeouts q + n_frames q)%nat.
Proof.
  unfold n_timeouts, n_frames. induction q as [|[|fid data] r IH]; cbn [filter List.length]; lia.
Qed.

(** the script splits into the consumed prefix and the rest; the prefix holds
    at most [c] time-outs and at most [l] frames, and fewer of both only when
    the script ran out *)
Lemma drain_lim_split : forall q c l, exists pre,
  q = (pre ++ drain_lim q c l)%list /\ (n_timeouts pre <= c)%nat /\ (n_frames pre <= l)%nat /\
  ((n_timeouts pre < c)%nat -> (n_frames pre < l)%nat -> drain_lim q c l = []).
Proof.
  induction q as [|x r IH]; intros c l.
  - exists []. rewrite drain_lim_nil. repeat split; cbn; lia.
  - destruct c as [|c]; [exists []; rewrite drain_lim_0; repeat split; cbn; lia|].
    destruct l as [|l]; [exists []; rewrite drain_lim_l0; repeat split; cbn; lia|].
    destruct x as [|fid data].
    + change (drain_lim (QTimeout :: r) (S c) (S l)) with (drain_lim r c (S l)).
      destruct (IH c (S l)) as (pre & E & T & F & Z). exists (QTimeout :: pre).
      unfold n_timeouts, n_frames in *. cbn [app filter List.length].
      split; [f_equal; exact E|]. repeat split; try lia. intros H1 H2. apply Z; lia.
    + change (drain_lim (QFrame fid data :: r) (S c) (S l)) with (drain_lim r (S c) l).
      destruct (IH (S c) l) as (pre & E & T & F & Z). exists (QFrame fid data :: pre).
      unfold n_timeouts, n_frames in *. cbn [app filter List.length].
      split; [f_equal; exact E|]. repeat split; try lia. intros H1 H2. apply Z; lia.
Qed.

(** THE POINT OF THE REPAIR: whatever the script holds, a drain loop consumes
    at most [c + 256] items of it (source: 4 + 256 = 260 per queue) *)
Lemma drain_split q c : exists pre,
  q = (pre ++ drain q c)%list /\ (n_timeouts pre <= c)%nat /\ (n_frames pre <= drain_limit)%nat /\
  (List.length pre <= c + drain_limit)%nat /\
  ((n_timeouts pre < c)%nat -> (n_frames pre < drain_limit)%nat -> drain q c = []).
Proof.
  unfold drain. destruct (drain_lim_split q c drain_limit) as (pre & E & T & F & Z).
  exists pre. rewrite (n_split pre). repeat split; try assumption; lia.
Qed.

Lemma drain_length q c : (List.length (drain q c) <= List.length q)%nat.
Proof.
  destruct (drain_split q c) as (pre & E & _). apply (f_equal (@List.length _)) in E.
  rewrite app_length in E. lia.
Qed.

Lemma drain_consumed_bound q c : (List.length q - List.length (drain q c) <= c + drain_limit)%nat.
Proof.
  destruct (drain_split q c) as (pre & E & _ & _ & L & _). apply (f_equal (@List.length _)) in E.
  rewrite app_length in E. lia.
Qed.

(** * B. _devinfo_get always returns: [None], a Device, or one of two exceptions *)
Definition no_err {A} (r : Frame.res A) : Prop := forall e, r <> Frame.Err e.

Lemma frame_cmninfo_raises : IN.raises_only Request.frame_cmninfo ["struct.error"].
Proof. apply IN.frame_create_raises_known. vm_compute. discriminate. Qed.

Lemma frame_chinfo_raises chan : IN.raises_only (Request.frame_chinfo chan) ["struct.error"].
Proof.
  unfold Request.frame_chinfo, Request.spack, Gen_req.chinfo_fmt. pyclosed. cbv iota beta.
  destruct (pack _ _); [|cbn; auto]. apply IN.frame_create_raises_known. vm_compute. discriminate.
Qed.

Lemma pop_cmninfo_raises q : IN.raises_only (pop_dec Info.frame_cmninfo_decode q) ["struct.error"].
Proof. destruct q as [|[|fid data] r]; try exact I. apply IN.cmninfo_decode_raises. Qed.

Lemma pop_chinfo_raises q :
  IN.raises_only (pop_dec Info.frame_chinfo_decode q) ["struct.error"; "UnicodeDecodeError"].
Proof. destruct q as [|[|fid data] r]; try exact I. apply IN.chinfo_decode_raises. Qed.

Definition hs_excs : list string := ["struct.error"; "UnicodeDecodeError"].

Definition rres_ok (res : rres) : Prop :=
  match res with RUns _ => False | RRaised e => In e hs_excs | _ => True end.
Definition cres_ok (res : cres) : Prop :=
  match res with CUns _ => False | CRaise e => In e hs_excs | _ => True end.
Definition dres_ok (res : dres) : Prop :=
  match res with DUns _ => False | DRaise e => In e hs_excs | _ => True end.

Lemma retry_m_ok : forall r i w q, rres_ok (fst (fst (fst (retry_m r i w q)))).
Proof.
  induction r as [|r IH]; intros i w q; cbn [retry_m]; [exact I|].
  pose proof (frame_chinfo_raises i) as Hf. pose proof (pop_chinfo_raises q) as Hd.
  destruct (Request.frame_chinfo i) as [b|e|e]; cbn in Hf; [|contradiction|].
  - destruct (pop_dec Info.frame_chinfo_decode q) as [[c|]|e|e]; cbn in Hd |- *; auto; try contradiction.
  - cbn. destruct Hf as [<-|[]]. left. reflexivity.
Qed.

Lemma chans_m_ok : forall n s acc w q, cres_ok (fst (fst (fst (chans_m n s acc w q)))).
Proof.
  induction n as [|n IH]; intros s acc w q; cbn [chans_m]; [exact I|].
  pose proof (retry_m_ok 6 (Z.of_nat s) w q) as Hr.
  destruct (retry_m 6 (Z.of_nat s) w q) as [[[res rem] w'] q']. cbn in Hr.
  destruct res; cbn; auto.
Qed.

Lemma devinfo_m_ok w p d q qs : dres_ok (fst (devinfo_m w p d q qs)).
Proof.
  unfold devinfo_m.
  pose proof frame_cmninfo_raises as Hf. pose proof (pop_cmninfo_raises q) as Hd.
  destruct Request.frame_cmninfo as [b|e|e]; cbn in Hf; [|contradiction|].
  - destruct (pop_dec Info.frame_cmninfo_decode q) as [[[[cm fl] rxp]|]|e|e]; cbn in Hd |- *; auto; try contradiction.
    + match goal with |- context [chans_m ?n ?s ?acc ?w ?q] =>
        pose proof (chans_m_ok n s acc w q) as Hc; destruct (chans_m n s acc w q) as [[[res acc'] w'] q'] end.
      cbn in Hc. destruct res; cbn; auto.
    + destruct Hd as [<-|[]]. left. reflexivity.
  - cbn. destruct Hf as [<-|[]]. left. reflexivity.
Qed.

(** TERMINATION FOR EVERY SCRIPT.  For all scripts [q], [qs] (any frames, any
    time-outs, any length) and every fuel >= 8 + min 256 (max (length (tl q)) (length qs))
    (hence every fuel >= 264), the interpreted [_devinfo_get] returns [None] or a Device, or raises
    struct.error / UnicodeDecodeError (a CHINFO answer whose name is not UTF-8);
    it never runs out of fuel and never leaves the interpreted subset *)
Theorem devinfo_get_returns n w p d q qs :
  (8 + Nat.min drain_limit (List.length (tl q)) <= n)%nat -> (8 + Nat.min drain_limit (List.length qs) <= n)%nat ->
  let r := call_method program n (hcomm w p d q qs) "_devinfo_get" [] in
  (exists st', r = PyLite.Ok (PNone, hcomm_of st')) \/
  (exists cm fl rxp acc st', r = PyLite.Ok (dev_of cm fl rxp acc, hcomm_of st')) \/
  r = Exc "struct.error" \/ r = Exc "UnicodeDecodeError".
Proof.
  intros Hq Hqs r. subst r. rewrite devinfo_get_spec by assumption.
  pose proof (devinfo_m_ok w p d q qs) as Hok. unfold emb_dev_top.
  destruct (devinfo_m w p d q qs) as [res st']. cbn [fst snd] in *.
  destruct res as [cm fl rxp acc| |e|e]; cbn in Hok.
  - right. left. exists cm, fl, rxp, acc, st'. reflexivity.
  - left. exists st'. reflexivity.
  - destruct Hok as [<-|[<-|[]]]; auto.
  - contradiction.
Qed.

Corollary devinfo_get_terminates n w p d q qs :
  (8 + Nat.min drain_limit (List.length (tl q)) <= n)%nat -> (8 + Nat.min drain_limit (List.length qs) <= n)%nat ->
  call_method program n (hcomm w p d q qs) "_devinfo_get" [] <> Fuel /\
  forall s, call_method program n (hcomm w p d q qs) "_devinfo_get" [] <> Unsupported s.
Proof.
  intros Hq Hqs. destruct (devinfo_get_returns n w p d q qs Hq Hqs) as [(st & ->)|[(cm & fl & rxp & acc & st & ->)|[->| ->]]];
    split; intros; discriminate.
Qed.

(** * C. What is written: the request bound *)
Lemma skipn_S_tl {A} (q : list A) k : skipn (S k) q = skipn k (tl q).
Proof. destruct q; [destruct k|]; reflexivity. Qed.

Lemma skipn_add {A} a : forall b (l : list A), skipn b (skipn a l) = skipn (a + b) l.
Proof.
  induction a as [|a IH]; intros b l; [reflexivity|].
  destruct l as [|x l]; [destruct b; reflexivity|]. cbn [skipn Nat.add]. apply IH.
Qed.

(** the chmax announced by the head of the script (0 when the CMNINFO request is not answered by a decodable CMNINFO) *)
Definition script_chmax (q : list qitem) : nat :=
  match pop_dec Info.frame_cmninfo_decode q with
  | Frame.Ok (Some (cm, _, _)) => Z.to_nat cm
  | _ => O
  end.

(** is the link's write padding reconfigured (one more write: the padding bytes themselves) *)
Definition pad_reconf (p : Z) (q : list qitem) : bool :=
  match pop_dec Info.frame_cmninfo_decode q with
  | Frame.Ok (Some (_, _, rxp)) => (0 <? rxp) && negb (p =? rxp)
  | _ => false
  end.

(** one channel: at most [r] requests (source: [retries = 5], test [retries < 0]
    BEFORE each request: 6 = Handshake.chinfo_attempts), appended in order; as
    many script items consumed as requests written *)
Lemma retry_m_written : forall r i w q res rem w' q',
  retry_m r i w q = (res, rem, w', q') ->
  exists ks, w' = (w ++ ks)%list /\ (List.length ks <= r)%nat /\ q' = skipn (List.length ks) q.
Proof.
  induction r as [|r IH]; intros i w q res rem w' q' H; cbn [retry_m] in H.
  - inversion H; subst. exists []. rewrite app_nil_r. repeat split. cbn. lia.
  - destruct (Request.frame_chinfo i) as [b|e|e].
    + destruct (pop_dec Info.frame_chinfo_decode q) as [[c|]|e|e].
      2:{ apply IH in H. destruct H as (ks & -> & L & ->). exists (b :: ks).
          rewrite <- app_assoc. cbn [app List.length]. rewrite skipn_S_tl. repeat split. lia. }
      all: inversion H; subst; exists [b]; cbn [List.length]; rewrite skipn_S_tl; repeat split; lia.
    + inversion H; subst. exists []. rewrite app_nil_r. repeat split. cbn. lia.
    + inversion H; subst. exists []. rewrite app_nil_r. repeat split. cbn. lia.
Qed.

Lemma attempts_eq : Handshake.chinfo_attempts = 6%nat.
Proof. reflexivity. Qed.

Lemma chans_m_written : forall n s acc w q res acc' w' q',
  chans_m n s acc w q = (res, acc', w', q') ->
  exists ks, w' = (w ++ ks)%list /\ (List.length ks <= n * Handshake.chinfo_attempts)%nat /\
             q' = skipn (List.length ks) q.
Proof.
  rewrite attempts_eq.
  induction n as [|n IH]; intros s acc w q res acc' w' q' H; cbn [chans_m] in H.
  - inversion H; subst. exists []. rewrite app_nil_r. repeat split. cbn. lia.
  - destruct (retry_m 6 (Z.of_nat s) w q) as [[[r1 rem] w1] q1] eqn:Er.
    apply retry_m_written in Er. destruct Er as (k1 & -> & L1 & ->).
    destruct r1.
    1:{ apply IH in H. destruct H as (k2 & -> & L2 & ->). exists (k1 ++ k2)%list.
        rewrite app_assoc, app_length, skipn_add. repeat split; lia. }
    all: inversion H; subst; exists k1; repeat split; lia.
Qed.

(** REQUEST BOUND: everything written before stays, and at most
    1 (CMNINFO) + 1 (the padding bytes, when reconfigured) + chmax * 6 (CHINFO) writes are added *)
Theorem devinfo_requests w p d q qs res w' p' d' q' qs' :
  devinfo_m w p d q qs = (res, (w', p', d', q', qs')) ->
  exists ks, w' = (w ++ ks)%list /\
    (List.length ks <= 1 + (if pad_reconf p q then 1 else 0) + script_chmax q * Handshake.chinfo_attempts)%nat.
Proof.
  unfold devinfo_m, script_chmax, pad_reconf. intros H.
  destruct Request.frame_cmninfo as [b|e|e].
  - destruct (pop_dec Info.frame_cmninfo_decode q) as [[[[cm fl] rxp]|]|e|e].
    2-4: inversion H; subst; exists [b]; split; [reflexivity|cbn; lia].
    cbv zeta in H.
    match type of H with context [chans_m ?n ?s ?acc ?w ?q] =>
      destruct (chans_m n s acc w q) as [[[r1 acc1] w1] q1] eqn:Ec end.
    apply chans_m_written in Ec. destruct Ec as (ks & E1 & L & E2).
    assert (Hw : w' = w1) by (destruct r1; inversion H; reflexivity). subst w' w1.
    destruct ((0 <? rxp) && negb (p =? rxp)).
    + exists ([b] ++ [pad_bytes rxp] ++ ks)%list. rewrite <- !app_assoc. split; [reflexivity|].
      rewrite !app_length. cbn [List.length]. lia.
    + exists ([b] ++ ks)%list. rewrite <- !app_assoc. split; [reflexivity|].
      rewrite !app_length. cbn [List.length]. lia.
  - inversion H; subst. exists []. rewrite app_nil_r. split; [reflexivity|cbn; lia].
  - inversion H; subst. exists []. rewrite app_nil_r. split; [reflexivity|cbn; lia].
Qed.

(** * D. Refinement of model/Handshake.v *)

(** the answer of the link to one request, read off the script: the item the
    awaiting [_get_frame] pops, classified by the decoder of the awaited kind *)
Definition classify {A} (r : Frame.res (option A)) : Handshake.ans :=
  match r with
  | Frame.Ok (Some _) => Handshake.AGood
  | Frame.Ok None => Handshake.AWrong
  | _ => Handshake.AMalformed
  end.

Definition ans_of {A} (dec : Z -> bytes -> Frame.res (option A)) (q : list qitem) : Handshake.ans :=
  match q with
  | QFrame fid data :: _ => classify (dec fid data)
  | _ => Handshake.ASilent                       (* a time-out, or the script is exhausted *)
  end.

(** the oracle of the model, indexed by the number of requests sent: request
    [r0] is the CMNINFO request, answered by the head of the script; then
    [_drop_all] consumes what [drain] says (the model abstracts it away), and
    the [j]-th CHINFO request is answered by the [j]-th item of the rest *)
Definition oracle_agrees (r0 : nat) (q : list qitem) (o : Handshake.oracle) : Prop :=
  o r0 = ans_of Info.frame_cmninfo_decode q /\
  forall j, o (r0 + 1 + j)%nat = ans_of Info.frame_chinfo_decode (skipn j (drain (tl q) 4)).

Definition script_oracle (r0 : nat) (q : list qitem) : Handshake.oracle := fun k =>
  if (k <=? r0)%nat then ans_of Info.frame_cmninfo_decode q
  else ans_of Info.frame_chinfo_decode (skipn (k - r0 - 1) (drain (tl q) 4)).

Lemma script_oracle_agrees r0 q : oracle_agrees r0 q (script_oracle r0 q).
Proof.
  unfold oracle_agrees, script_oracle. split.
  - rewrite Nat.leb_refl. reflexivity.
  - intros j. replace (r0 + 1 + j <=? r0)%nat with false by lia.
    replace (r0 + 1 + j - r0 - 1)%nat with j by lia. reflexivity.
Qed.

(** the answer and what the source's decoder call yields *)
Lemma ans_pop_cases {A} (dec : Z -> bytes -> Frame.res (option A)) q :
  (forall fid data, no_err (dec fid data)) ->
  (ans_of dec q = Handshake.AGood /\ exists x, pop_dec dec q = Frame.Ok (Some x)) \/
  ((ans_of dec q = Handshake.ASilent \/ ans_of dec q = Handshake.AWrong) /\ pop_dec dec q = Frame.Ok None) \/
  (ans_of dec q = Handshake.AMalformed /\ exists e, pop_dec dec q = Frame.Raise e).
Proof.
  intros Hne. unfold ans_of, pop_dec. destruct q as [|[|fid data] r]; auto.
  specialize (Hne fid data). destruct (dec fid data) as [[x|]|e|e]; cbn [classify]; eauto 6.
  exfalso. apply (Hne e). reflexivity.
Qed.

Lemma raises_only_no_err {A} (r : Frame.res A) ws : IN.raises_only r ws -> no_err r.
Proof. intros H e E. subst r. exact H. Qed.

Lemma chinfo_no_err fid data : no_err (Info.frame_chinfo_decode fid data).
Proof. eapply raises_only_no_err. apply IN.chinfo_decode_raises. Qed.
Lemma cmninfo_no_err fid data : no_err (Info.frame_cmninfo_decode fid data).
Proof. eapply raises_only_no_err. apply IN.cmninfo_decode_raises. Qed.

Definition rres_rel (res : rres) (g : Handshake.got) : Prop :=
  match res, g with
  | RGot _, Handshake.Got | RGaveUp, Handshake.GaveUp | RRaised _, Handshake.Raised => True
  | _, _ => False
  end.
Definition cres_rel (res : cres) (g : Handshake.got) : Prop :=
  match res, g with
  | CDone, Handshake.Got | CNone, Handshake.GaveUp | CRaise _, Handshake.Raised => True
  | _, _ => False
  end.
Definition dres_rel (res : dres) (g : Handshake.got) : Prop :=
  match res, g with
  | DDev _ _ _ _, Handshake.Got | DNone, Handshake.GaveUp | DRaise _, Handshake.Raised => True
  | _, _ => False
  end.

(** the retry loop of one channel is [Handshake.chinfo_loop] *)
Lemma retry_refines : forall r i w q o st res rem w' q',
  (exists b, Request.frame_chinfo i = Frame.Ok b) ->
  (forall j, o (Handshake.reqs st + j)%nat = ans_of Info.frame_chinfo_decode (skipn j q)) ->
  retry_m r i w q = (res, rem, w', q') ->
  exists k, rres_rel res (fst (Handshake.chinfo_loop r o st)) /\
            Handshake.reqs (snd (Handshake.chinfo_loop r o st)) = (Handshake.reqs st + k)%nat /\
            List.length w' = (List.length w + k)%nat /\ q' = skipn k q.
Proof.
  induction r as [|r IH]; intros i w q o st res rem w' q' [b Eb] Ho H; cbn [retry_m] in H.
  - inversion H; subst. exists O. cbn. repeat split; lia.
  - rewrite Eb in H. cbn [Handshake.chinfo_loop Handshake.send].
    pose proof (Ho O) as H0. rewrite Nat.add_0_r in H0. cbn [skipn] in H0. rewrite H0.
    assert (Hnext : forall j, o (S (Handshake.reqs st) + j)%nat =
                              ans_of Info.frame_chinfo_decode (skipn j (tl q))).
    { intros j. rewrite <- skipn_S_tl, <- Ho. f_equal. lia. }
    destruct (ans_pop_cases Info.frame_chinfo_decode q chinfo_no_err)
      as [(Ea & c & Ep)|[(Ea & Ep)|(Ea & e & Ep)]]; rewrite Ep in H.
    + rewrite Ea. inversion H; subst. exists 1%nat. cbn [fst snd Handshake.reqs rres_rel].
      rewrite app_length. cbn [List.length]. rewrite skipn_S_tl. repeat split; lia.
    + assert (Hgoal : forall t, exists k,
                 rres_rel res (fst (Handshake.chinfo_loop r o (Handshake.mkHs (S (Handshake.reqs st)) t))) /\
                 Handshake.reqs (snd (Handshake.chinfo_loop r o (Handshake.mkHs (S (Handshake.reqs st)) t))) =
                   (Handshake.reqs st + k)%nat /\
                 List.length w' = (List.length w + k)%nat /\ q' = skipn k q).
      { intros t.
        destruct (IH i (w ++ [b])%list (tl q) o (Handshake.mkHs (S (Handshake.reqs st)) t) res rem w' q'
                    (ex_intro _ b Eb) Hnext H) as (k & R & Rq & Lw & Eq).
        exists (S k). rewrite app_length in Lw. cbn [List.length] in Lw. rewrite skipn_S_tl.
        cbn [Handshake.reqs] in Rq. repeat split; try assumption; lia. }
      destruct Ea as [Ea|Ea]; rewrite Ea; apply Hgoal.
    + rewrite Ea. inversion H; subst. exists 1%nat. cbn [fst snd Handshake.reqs rres_rel].
      rewrite app_length. cbn [List.length]. rewrite skipn_S_tl. repeat split; lia.
Qed.

(** the loop over the channels is [Handshake.channels_loop] *)
Lemma chans_refines : forall n s acc w q o st res acc' w' q',
  (forall i, (s <= i < s + n)%nat -> exists b, Request.frame_chinfo (Z.of_nat i) = Frame.Ok b) ->
  (forall j, o (Handshake.reqs st + j)%nat = ans_of Info.frame_chinfo_decode (skipn j q)) ->
  chans_m n s acc w q = (res, acc', w', q') ->
  exists k, cres_rel res (fst (Handshake.channels_loop n o st)) /\
            Handshake.reqs (snd (Handshake.channels_loop n o st)) = (Handshake.reqs st + k)%nat /\
            List.length w' = (List.length w + k)%nat /\ q' = skipn k q.
Proof.
  induction n as [|n IH]; intros s acc w q o st res acc' w' q' Hb Ho H; cbn [chans_m] in H.
  - inversion H; subst. exists O. cbn. repeat split; lia.
  - destruct (retry_m 6 (Z.of_nat s) w q) as [[[r1 rem] w1] q1] eqn:Er.
    destruct (retry_refines 6 (Z.of_nat s) w q o st r1 rem w1 q1 (Hb s ltac:(lia)) Ho Er) as (k1 & R1 & Rq1 & L1 & E1).
    cbn [Handshake.channels_loop]. rewrite attempts_eq.
    destruct (Handshake.chinfo_loop 6 o st) as [g st1]. cbn [fst snd] in *.
    destruct r1; destruct g; cbn [rres_rel] in R1; try contradiction.
    + assert (Ho1 : forall j, o (Handshake.reqs st1 + j)%nat = ans_of Info.frame_chinfo_decode (skipn j q1)).
      { intros j. subst q1. rewrite skipn_add, Rq1, <- Ho. f_equal. lia. }
      destruct (IH (S s) _ w1 q1 o st1 res acc' w' q' ltac:(intros i Hi; apply Hb; lia) Ho1 H)
        as (k2 & R2 & Rq2 & L2 & E2).
      exists (k1 + k2)%nat. subst q1. rewrite skipn_add in E2. repeat split; try assumption; lia.
    + inversion H; subst. exists k1. cbn. repeat split; try assumption; lia.
    + inversion H; subst. exists k1. cbn. repeat split; try assumption; lia.
Qed.

(** real bytes are below 256; PyLite's [bytes] are lists of [N], so this is a
    hypothesis on the first answer of the script: it makes the announced chmax
    a byte, hence every channel number one the CHINFO request builder accepts *)
Definition script_wf (q : list qitem) : Prop :=
  match q with QFrame _ data :: _ => wf_bytes data | _ => True end.

Lemma cmninfo_decode_lt fid data cm fl rxp : wf_bytes data ->
  Info.frame_cmninfo_decode fid data = Frame.Ok (Some (cm, fl, rxp)) -> cm < 256.
Proof.
  intros Hwf. unfold Info.frame_cmninfo_decode, Request.sunpack, Gen_req.cmninfo_dec_fmt.
  destruct (negb _); [discriminate|].
  pyclosed. cbv iota beta.
  match goal with |- context [unpack ?f ?b] => pyunpack f b end.
  - cbn. discriminate.
  - cbn [Request.bind]. intros H. inversion H. subst.
    assert (Hs : wf_bytes (slice_to data Gen_req.cmninfo_dec_len)) by (apply Bytes_proofs.wf_bytes_firstn; exact Hwf).
    destruct (slice_to data Gen_req.cmninfo_dec_len) as [|x r]; cbn; [lia|].
    inversion Hs; subst. lia.
Qed.

Lemma script_chmax_byte q : script_wf q -> (script_chmax q <= 255)%nat.
Proof.
  unfold script_wf, script_chmax, pop_dec. destruct q as [|[|fid data] r]; try lia.
  intros Hwf. destruct (Info.frame_cmninfo_decode fid data) as [[[[cm fl] rxp]|]|e|e] eqn:E; try lia.
  pose proof (cmninfo_decode_lt _ _ _ _ _ Hwf E). lia.
Qed.

Lemma frame_chinfo_ok i : (i <= 255)%nat -> exists b, Request.frame_chinfo (Z.of_nat i) = Frame.Ok b.
Proof.
  intros Hi. destruct (Request_proofs.chinfo_delivered (Z.of_nat i) ltac:(lia)) as (fid & E & _). eauto.
Qed.

Lemma frame_cmninfo_ok : exists b, Request.frame_cmninfo = Frame.Ok b.
Proof. destruct Request_proofs.cmninfo_delivered as (fid & E & _). eauto. Qed.

(** REFINEMENT.  For every oracle that agrees with the script (there is one:
    [script_oracle]), the interpreted [_devinfo_get] returns a Device / None /
    raises exactly when the model says Got / GaveUp / Raised; the requests the
    model counts are the frames written (plus the padding write); their number
    is within the model's bound *)
Theorem devinfo_refines w p d q qs o st res w' p' d' q' qs' :
  script_wf q -> oracle_agrees (Handshake.reqs st) q o ->
  devinfo_m w p d q qs = (res, (w', p', d', q', qs')) ->
  let r := Handshake.devinfo_get (script_chmax q) o st in
  dres_rel res (fst r) /\
  List.length w' = (List.length w + (Handshake.reqs (snd r) - Handshake.reqs st)
                    + (if pad_reconf p q then 1 else 0))%nat /\
  (Handshake.reqs st < Handshake.reqs (snd r) <=
   Handshake.reqs st + 1 + script_chmax q * Handshake.chinfo_attempts)%nat.
Proof.
  intros Hwf [Ho0 Hoj] H r.
  assert (Hbound : (Handshake.reqs st <= Handshake.reqs (snd r) <=
                    Handshake.reqs st + 1 + script_chmax q * Handshake.chinfo_attempts)%nat).
  { subst r. destruct (Handshake.devinfo_get (script_chmax q) o st) as [g st1] eqn:E.
    destruct (Handshake_proofs.devinfo_bounds _ _ _ _ _ E) as [B _].
    unfold Handshake_proofs.per_attempt in B. cbn [snd]. lia. }
  pose proof (script_chmax_byte q Hwf) as Hcm.
  subst r. unfold Handshake.devinfo_get, Handshake.send in *. rewrite Ho0 in *.
  unfold devinfo_m in H. destruct frame_cmninfo_ok as [b Eb]. rewrite Eb in H.
  unfold script_chmax, pad_reconf in *.
  destruct (ans_pop_cases Info.frame_cmninfo_decode q cmninfo_no_err)
    as [(Ea & [[cm fl] rxp] & Ep)|[(Ea & Ep)|(Ea & e & Ep)]]; rewrite Ep in *.
  - rewrite Ea in *. cbv zeta in H.
    match type of H with context [chans_m ?n ?s ?acc ?w ?q] =>
      destruct (chans_m n s acc w q) as [[[r1 acc1] w1] q1] eqn:Ec end.
    set (st1 := Handshake.mkHs (S (Handshake.reqs st)) (Handshake.timeouts st + 0)) in *.
    assert (Ho1 : forall j, o (Handshake.reqs st1 + j)%nat =
                            ans_of Info.frame_chinfo_decode (skipn j (drain (tl q) 4))).
    { intros j. rewrite <- Hoj. f_equal. cbn. lia. }
    cbv beta iota in Hcm, Hbound.
    assert (Hb : forall i, (0 <= i < 0 + Z.to_nat cm)%nat -> exists b, Request.frame_chinfo (Z.of_nat i) = Frame.Ok b)
      by (intros i Hi; apply frame_chinfo_ok; lia).
    destruct (chans_refines (Z.to_nat cm) 0%nat [] _ _ o st1 _ _ _ _ Hb Ho1 Ec) as (k & R & Rq & L & _).
    destruct (Handshake.channels_loop (Z.to_nat cm) o st1) as [g st2]. cbn [fst snd] in *.
    assert (Hw : w' = w1) by (destruct r1; inversion H; reflexivity). subst w1.
    split; [destruct r1; inversion H; subst; exact R|].
    split; [|cbn [Handshake.reqs st1] in Rq; lia].
    rewrite L. cbn [Handshake.reqs st1] in Rq. rewrite Rq.
    destruct ((0 <? rxp) && negb (p =? rxp)); rewrite !app_length; cbn [List.length]; lia.
  - assert (Eg : (let '(a, st') := (ans_of Info.frame_cmninfo_decode q,
                     Handshake.mkHs (S (Handshake.reqs st))
                       (Handshake.timeouts st + match ans_of Info.frame_cmninfo_decode q with
                                                | Handshake.ASilent => 1 | _ => 0 end)) in
                  match a with
                  | Handshake.AGood => Handshake.channels_loop 0 o st'
                  | Handshake.AMalformed => (Handshake.Raised, st')
                  | _ => (Handshake.GaveUp, st')
                  end) = (Handshake.GaveUp, Handshake.mkHs (S (Handshake.reqs st))
                       (Handshake.timeouts st + match ans_of Info.frame_cmninfo_decode q with
                                                | Handshake.ASilent => 1 | _ => 0 end)))
      by (destruct Ea as [-> | ->]; reflexivity).
    rewrite Eg in *. inversion H; subst. cbn [fst snd Handshake.reqs dres_rel].
    rewrite app_length. cbn [List.length]. repeat split; lia.
  - rewrite Ea in *. inversion H; subst. cbn [fst snd Handshake.reqs dres_rel].
    rewrite app_length. cbn [List.length]. repeat split; lia.
Qed.

(** the same with the oracle built from the script, from a fresh counter *)
Corollary devinfo_refines_script w p d q qs res w' p' d' q' qs' :
  script_wf q ->
  devinfo_m w p d q qs = (res, (w', p', d', q', qs')) ->
  let r := Handshake.devinfo_get (script_chmax q) (script_oracle 0 q) (Handshake.mkHs 0 0) in
  dres_rel res (fst r) /\
  List.length w' = (List.length w + Handshake.reqs (snd r) + (if pad_reconf p q then 1 else 0))%nat /\
  (1 <= Handshake.reqs (snd r) <= 1 + script_chmax q * Handshake.chinfo_attempts)%nat.
Proof.
  intros Hwf H.
  destruct (devinfo_refines w p d q qs (script_oracle 0 q) (Handshake.mkHs 0 0) res w' p' d' q' qs'
              Hwf (script_oracle_agrees 0 q) H) as (R & L & B).
  cbn [Handshake.reqs] in *. cbv zeta. repeat split; try assumption; lia.
Qed.

(** what a returned Device holds: the three numbers of the CMNINFO answer and
    one channel per number 0 .. chmax-1, in order *)
Lemma devinfo_m_dev w p d q qs cm fl rxp acc st' :
  devinfo_m w p d q qs = (DDev cm fl rxp acc, st') ->
  pop_dec Info.frame_cmninfo_decode q = Frame.Ok (Some (cm, fl, rxp)) /\
  script_chmax q = Z.to_nat cm /\
  map fst acc = map Z.of_nat (seq 0 (Z.to_nat cm)).
Proof.
  unfold devinfo_m, script_chmax. intros H.
  destruct Request.frame_cmninfo as [b|e|e]; try discriminate.
  destruct (pop_dec Info.frame_cmninfo_decode q) as [[[[cm' fl'] rxp']|]|e|e]; try discriminate.
  cbv zeta in H.
  match type of H with context [chans_m ?n ?s ?a ?w ?q] =>
    destruct (chans_m n s a w q) as [[[r1 acc1] w1] q1] eqn:Ec end.
  destruct r1; inversion H; subst. apply chans_m_ids in Ec. auto.
Qed.

(** ** source against model, in one statement *)
Definition written_of (st : hstate) : list bytes := let '(w, _, _, _, _) := st in w.

Theorem devinfo_get_refines n w p d q qs :
  (8 + Nat.min drain_limit (List.length (tl q)) <= n)%nat -> (8 + Nat.min drain_limit (List.length qs) <= n)%nat -> script_wf q ->
  let r := Handshake.devinfo_get (script_chmax q) (script_oracle 0 q) (Handshake.mkHs 0 0) in
  let run := call_method program n (hcomm w p d q qs) "_devinfo_get" [] in
  let nwritten := (List.length w + Handshake.reqs (snd r) + (if pad_reconf p q then 1 else 0))%nat in
  match fst r with
  | Handshake.Got =>
      exists cm fl rxp acc st', run = PyLite.Ok (dev_of cm fl rxp acc, hcomm_of st') /\
                                List.length (written_of st') = nwritten
  | Handshake.GaveUp =>
      exists st', run = PyLite.Ok (PNone, hcomm_of st') /\ List.length (written_of st') = nwritten
  | Handshake.Raised => run = Exc "struct.error" \/ run = Exc "UnicodeDecodeError"
  end.
Proof.
  intros Hq Hqs Hwf r run nwritten. subst run. rewrite devinfo_get_spec by assumption.
  pose proof (devinfo_m_ok w p d q qs) as Hok.
  destruct (devinfo_m w p d q qs) as [res [[[[w' p'] d'] q'] qs']] eqn:E.
  destruct (devinfo_refines_script w p d q qs res w' p' d' q' qs' Hwf E) as (R & L & _).
  fold r in R, L. unfold emb_dev_top. cbn [fst snd] in *.
  destruct res as [cm fl rxp acc| |e|e]; destruct (fst r); cbn [dres_rel] in R; try contradiction.
  - exists cm, fl, rxp, acc, (w', p', d', q', qs'). split; [reflexivity|exact L].
  - exists (w', p', d', q', qs'). split; [reflexivity|exact L].
  - cbn in Hok. destruct Hok as [<-|[<-|[]]]; auto.
Qed.

(** ** the same for scripts of ANY length: fuel 264 *)
Corollary devinfo_get_returns_const n w p d q qs :
  (264 <= n)%nat ->
  let r := call_method program n (hcomm w p d q qs) "_devinfo_get" [] in
  (exists st', r = PyLite.Ok (PNone, hcomm_of st')) \/
  (exists cm fl rxp acc st', r = PyLite.Ok (dev_of cm fl rxp acc, hcomm_of st')) \/
  r = Exc "struct.error" \/ r = Exc "UnicodeDecodeError".
Proof. intros H. apply devinfo_get_returns; unfold drain_limit; lia. Qed.

Corollary devinfo_get_terminates_const n w p d q qs :
  (264 <= n)%nat ->
  call_method program n (hcomm w p d q qs) "_devinfo_get" [] <> Fuel /\
  forall s, call_method program n (hcomm w p d q qs) "_devinfo_get" [] <> Unsupported s.
Proof. intros H. apply devinfo_get_terminates; unfold drain_limit; lia. Qed.

(** * E. What the handshake consumes of the scripts: bounded, whatever they hold *)
Lemma firstn_length_le' {A} k (l : list A) : (List.length (firstn k l) <= k)%nat.
Proof. rewrite firstn_length. lia. Qed.

Lemma chans_m_consumed : forall n s acc w q res acc' w' q',
  chans_m n s acc w q = (res, acc', w', q') ->
  exists k, (k <= n * Handshake.chinfo_attempts)%nat /\ q' = skipn k q.
Proof.
  intros n s acc w q res acc' w' q' H. apply chans_m_written in H. destruct H as (ks & _ & L & E). eauto.
Qed.

(** [_devinfo_get] consumes of the frame script at most
      1 (the CMNINFO answer) + 4 + 256 (the drain) + 6 * chmax (the CHINFO answers)
    items, and of the stream script at most 4 + 256: a prefix in both cases *)
Theorem devinfo_consumed w p d q qs res w' p' d' q' qs' :
  devinfo_m w p d q qs = (res, (w', p', d', q', qs')) ->
  (exists pre, q = (pre ++ q')%list /\
     (List.length pre <= 1 + (4 + drain_limit) + script_chmax q * Handshake.chinfo_attempts)%nat) /\
  (exists pres, qs = (pres ++ qs')%list /\ (List.length pres <= 4 + drain_limit)%nat).
Proof.
  unfold devinfo_m, script_chmax. intros H.
  assert (Htl : q = (firstn 1 q ++ tl q)%list) by (destruct q; reflexivity).
  assert (Hnil : forall (x : list qitem), x = ([] ++ x)%list) by reflexivity.
  destruct Request.frame_cmninfo as [b|e|e].
  - destruct (pop_dec Info.frame_cmninfo_decode q) as [[[[cm fl] rxp]|]|e|e].
    2-4: inversion H; subst; split;
      [exists (firstn 1 q); split; [exact Htl | pose proof (firstn_length_le' 1 q); lia]
      |exists []; split; [reflexivity | cbn; lia]].
    cbv zeta in H.
    match type of H with context [chans_m ?n ?s ?acc ?w ?q] =>
      destruct (chans_m n s acc w q) as [[[r1 acc1] w1] q1] eqn:Ec end.
    apply chans_m_consumed in Ec. destruct Ec as (k & Lk & Eq).
    assert (Hq' : q' = q1 /\ qs' = drain qs 4) by (destruct r1; inversion H; auto).
    destruct Hq' as [-> ->]. subst q1.
    destruct (drain_split (tl q) 4) as (pre & E & _ & _ & L & _).
    destruct (drain_split qs 4) as (pres & Es & _ & _ & Ls & _).
    split; [|exists pres; auto].
    exists (firstn 1 q ++ pre ++ firstn k (drain (tl q) 4))%list. split.
    + rewrite <- !app_assoc, firstn_skipn, <- E. exact Htl.
    + rewrite !app_length. pose proof (firstn_length_le' 1 q). pose proof (firstn_length_le' k (drain (tl q) 4)). lia.
  - inversion H; subst. split; exists []; split; try reflexivity; cbn; lia.
  - inversion H; subst. split; exists []; split; try reflexivity; cbn; lia.
Qed.

(** * F. Where source and model differ *)

(** the model abstracts [_drop_all] away and bounds the handshake by the number
    of requests and one-second time-outs.  BEFORE THE REPAIR the source's
    [_drop_all_frames] counted only time-outs: a link that keeps delivering
    frames kept it busy for as long as it did so ([drain (repeat frame k) _ = []]
    for every [k]).  With the repair a drain loop drops at most 256 frames: *)
Lemma drain_lim_frames fid data k c l :
  drain_lim (repeat (QFrame fid data) k) (S c) l = repeat (QFrame fid data) (k - l).
Proof.
  revert l. induction k as [|k IH]; intros l.
  - rewrite drain_lim_nil. reflexivity.
  - destruct l as [|l]; [rewrite drain_lim_l0; reflexivity|]. cbn [repeat drain_lim Nat.sub]. apply IH.
Qed.

Lemma drain_frames fid data k c :
  drain (repeat (QFrame fid data) k) (S c) = repeat (QFrame fid data) (k - drain_limit).
Proof. apply drain_lim_frames. Qed.

(** the hooks are global Ltac state: restore the defaults for whoever loads this file *)
Ltac py_stuck_hook h ::= fail.
Ltac py_unfold_hook ::= idtac.

(** * Audit *)
Print Assumptions get_frame_spec.
Print Assumptions get_stream_frame_spec.
Print Assumptions drop_all_frames_spec.
Print Assumptions drop_all_spec.
Print Assumptions nxslib_cmninfo_spec.
Print Assumptions nxslib_chinfo_spec.
Print Assumptions drop_all_frames_spec_const.
Print Assumptions drop_all_spec_const.
Print Assumptions drain_split.
Print Assumptions drain_consumed_bound.
Print Assumptions devinfo_consumed.
Print Assumptions devinfo_get_returns_const.
Print Assumptions devinfo_get_terminates_const.
Print Assumptions drain_frames.
Print Assumptions devinfo_get_returns.
Print Assumptions devinfo_get_terminates.
Print Assumptions devinfo_requests.
Print Assumptions devinfo_m_dev.
Print Assumptions devinfo_refines.
Print Assumptions devinfo_refines_script.
Print Assumptions devinfo_get_refines.

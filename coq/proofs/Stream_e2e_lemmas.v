(** C15 end to end, per-sample lemmas: a representable sample is encoded without
    an exception, and the decoder reads its bytes back as [decoded_of]. *)
From Coq Require Import Lia ZifyBool ZifyNat ZifyN String.
From NX Require Import Bytes PyStruct StructCanon Request Utf8 StreamTypes Rn53 Stream Bytes_proofs
  PyStruct_proofs Utf8_proofs Frame_proofs Stream_proofs Stream_values Stream_enc_proofs Stream_e2e_spec.
From NX Require Gen_types.
Open Scope string_scope.
Open Scope list_scope.
Open Scope Z_scope.

(** * the regenerated table is the hand-written one *)
Lemma gen_rows_are_std :
  Gen_types.dsfmt_rows = map (fun p => (fst p, spec_row (snd p))) std_table.
Proof. reflexivity. Qed.

Lemma gen_kinds : kind_of "NONE" = 0 /\ kind_of "NUM" = 1 /\ kind_of "CHAR" = 2 /\ kind_of "COMPLEX" = 3.
Proof. repeat split; reflexivity. Qed.

Lemma zassoc_map {A B} (f : A -> B) k l :
  zassoc k (map (fun p => (fst p, f (snd p))) l) = option_map f (zassoc k l).
Proof.
  induction l as [|[k' v] l IH]; [reflexivity|]. cbn [map zassoc fst snd].
  destruct (k' =? k); [reflexivity|exact IH].
Qed.

Lemma zassoc_In {A} k (l : list (Z * A)) v : zassoc k l = Some v -> In (k, v) l.
Proof.
  induction l as [|[k' v'] l IH]; [discriminate|]. cbn [zassoc].
  destruct (k' =? k) eqn:E.
  - intros H. injection H as <-. left. f_equal. lia.
  - intros H. right. exact (IH H).
Qed.

Lemma dsfmt_get_std t user sp :
  zassoc t std_table = Some sp -> dsfmt_get t user = Ok (spec_row sp, false).
Proof.
  intros H. unfold dsfmt_get. rewrite gen_rows_are_std, zassoc_map, H. reflexivity.
Qed.

Lemma dsfmt_get_user t user r :
  zassoc t std_table = None -> zassoc t user = Some (r, true) ->
  r_slen r = 1 -> r_scale r = SNone -> dsfmt_get t user = Ok (r, true).
Proof.
  intros H Hu Hs Hsc. unfold dsfmt_get. rewrite gen_rows_are_std, zassoc_map, H. cbn [option_map].
  rewrite Hu, Hs, Hsc. reflexivity.
Qed.

(** which rows the hand-written table has *)
Definition spec_wf (sp : tspec) : Prop :=
  match sp with
  | TInt c => In (code_str c, c) int_codes
  | TFix c k => In (code_str c, c) int_codes /\ (k = 8 \/ k = 16 \/ k = 32)
  | _ => True
  end.

Lemma std_table_wf t sp : zassoc t std_table = Some sp -> spec_wf sp.
Proof.
  intros H. apply zassoc_In in H. cbn [std_table In] in H.
  repeat (destruct H as [H|H]; [inversion H; subst; cbn; auto 12|]). destruct H.
Qed.

(** * struct: homogeneous vectors *)
Lemma pack_vec e nat c n vs :
  c <> Cx -> c <> Cs -> List.length vs = n ->
  Forall (fun v => pack_one e c v <> None) vs ->
  exists b, pack (mkFmt e nat [mkItem n c]) vs = Some b /\
            canon_items [mkItem n c] vs = map (canon_one c) vs.
Proof.
  intros Hx Hs Hn HF. subst n.
  assert (P : exists b, pack_many e c (List.length vs) vs = Some (b, []) /\
                        canon_many c (List.length vs) vs = (map (canon_one c) vs, [])).
  { induction HF as [|v vs Hv HF IH]; cbn [List.length pack_many canon_many map].
    - exists []. split; reflexivity.
    - destruct IH as (bs & E1 & E2). destruct (pack_one e c v) as [b1|]; [|congruence].
      rewrite E1, E2. eexists. split; reflexivity. }
  destruct P as (b & E1 & E2). exists (b ++ []).
  unfold pack. cbn [fend fitems pack_items canon_items].
  rewrite pack_item_many, canon_item_many by (cbn [icode]; assumption).
  cbn [icode icnt]. rewrite E1, E2. cbn [pack_items]. rewrite !app_nil_r. split; reflexivity.
Qed.

Lemma pack_chan_intro e nat its chan vs db :
  0 <= chan < 256 -> pack (mkFmt e nat its) vs = Some db ->
  pack (mkFmt e nat (mkItem 1 CB :: its)) (VInt chan :: vs) = Some (Z.to_N chan :: db).
Proof.
  intros Hc H. unfold pack in *. cbn [fend fitems pack_items pack_item icode icnt pack_many] in *.
  rewrite (pack_u8 e chan) by lia. cbn [app]. rewrite H. reflexivity.
Qed.

Lemma parse_le X f : parse_fmt ("<" ^^ X) = Some f -> f = mkFmt LE false (fitems f).
Proof.
  unfold parse_fmt. cbn [String.append list_ascii_of_string].
  destruct (parse_items _ None); cbn [option_map]; [|discriminate].
  intros H. injection H as <-. reflexivity.
Qed.

Lemma calcsize_vec e nat n c : calcsize (mkFmt e nat [mkItem n c]) = (n * code_size c)%nat.
Proof. unfold calcsize, item_size. cbn [fitems fold_right icnt icode]. lia. Qed.

(** * option / res list maps *)
Lemma mapM_map_opt {A B} (f : A -> res B) (g : A -> option B) l vs :
  (forall x y, g x = Some y -> f x = Ok y) ->
  map_opt g l = Some vs -> mapM f l = Ok vs.
Proof.
  intros Hfg. revert vs. induction l as [|x l IH]; intros vs; cbn [map_opt mapM].
  - intros H. injection H as <-. reflexivity.
  - destruct (g x) as [y|] eqn:Ex; [|discriminate].
    destruct (map_opt g l) as [t|]; [|discriminate].
    intros H. injection H as <-. rewrite (Hfg _ _ Ex). cbn [bind]. rewrite (IH t eq_refl). reflexivity.
Qed.

Lemma forallb_map_opt {A B} (g : A -> option B) (p : B -> bool) l :
  forallb (fun v => match g v with Some y => p y | None => false end) l = true ->
  exists ys, map_opt g l = Some ys /\ Forall (fun y => p y = true) ys /\
             List.length ys = List.length l.
Proof.
  induction l as [|x l IH]; cbn [forallb map_opt].
  - intros _. exists []. repeat split. constructor.
  - intros H. apply andb_prop in H as [H1 H2]. destruct (IH H2) as (ys & E & F & L).
    destruct (g x) as [y|]; [|discriminate]. rewrite E. exists (y :: ys).
    repeat split; [constructor; assumption|cbn [List.length]; lia].
Qed.

Lemma map_opt_map {A B C} (g : A -> option B) (h : B -> C) (k : A -> C) l ys :
  (forall x y, g x = Some y -> k x = h y) ->
  map_opt g l = Some ys -> map k l = map h ys.
Proof.
  intros Hk. revert ys. induction l as [|x l IH]; intros ys; cbn [map_opt map].
  - intros H. injection H as <-. reflexivity.
  - destruct (g x) as [y|] eqn:Ex; [|discriminate].
    destruct (map_opt g l) as [t|]; [|discriminate].
    intros H. injection H as <-. cbn [map]. rewrite (Hk _ _ Ex), (IH t eq_refl). reflexivity.
Qed.

Lemma bytes_eqb_eq a b : bytes_eqb a b = true -> a = b.
Proof.
  revert b. induction a as [|x a IH]; intros [|y b]; cbn [bytes_eqb]; try discriminate; [reflexivity|].
  intros H. apply andb_prop in H as [H1 H2]. f_equal; [lia|exact (IH _ H2)].
Qed.

(** * text followed by NULs *)
Lemma utf8_enc_app a b : utf8_enc (a ++ b) = utf8_enc a ++ utf8_enc b.
Proof. unfold utf8_enc. apply flat_map_app. Qed.

Lemma utf8_enc_nuls n : utf8_enc (repeat 0%N n) = repeat 0%N n.
Proof. induction n as [|n IH]; [reflexivity|]. cbn [repeat]. rewrite utf8_enc_cons, IH. reflexivity. Qed.

Lemma text_of_padded cps pad :
  forallb valid_cp cps = true ->
  text_of (utf8_enc cps ++ repeat 0%N pad) = SVText (cps ++ repeat 0%N pad).
Proof.
  intros H.
  replace (utf8_enc cps ++ repeat 0%N pad) with (utf8_enc (cps ++ repeat 0%N pad))
    by (rewrite utf8_enc_app, utf8_enc_nuls; reflexivity).
  apply text_of_valid.
  apply Forall_app. split.
  - apply Forall_forall. intros c Hc. rewrite forallb_forall in H. exact (H c Hc).
  - apply Forall_forall. intros c Hc. apply repeat_spec in Hc. subst c. reflexivity.
Qed.

Lemma utf8_enc_wfb cps : forallb valid_cp cps = true -> wf_bytesb (utf8_enc cps) = true.
Proof.
  intros H. apply wf_bytesb_iff, utf8_enc_wf.
  apply Forall_forall. intros c Hc. rewrite forallb_forall in H. exact (H c Hc).
Qed.

(** * integers given to integer codes *)
Lemma pack_one_int_ok e c z : code_is_int c = true -> int_in c z = true -> pack_one e c (VInt z) <> None.
Proof.
  intros Hc Hz. rewrite pack_one_int by exact Hc. unfold pack_int, int_in in *. cbn [int_of_value].
  rewrite Hz. discriminate.
Qed.

Lemma canon_ints c zs : code_is_int c = true -> map (canon_one c) (map VInt zs) = map VInt zs.
Proof.
  intros Hc. rewrite map_map. apply map_ext. intros z. rewrite canon_one_int by exact Hc. reflexivity.
Qed.

Lemma int_code_not_xs c : code_is_int c = true -> c <> Cx /\ c <> Cs.
Proof. destruct c; try discriminate; split; discriminate. Qed.

Lemma pack_int_vec e nat c n zs :
  code_is_int c = true -> List.length zs = n -> Forall (fun z => int_in c z = true) zs ->
  exists b, pack (mkFmt e nat [mkItem n c]) (map VInt zs) = Some b /\
            canon_items [mkItem n c] (map VInt zs) = map VInt zs.
Proof.
  intros Hc Hn HF. destruct (int_code_not_xs c Hc) as [Hx Hs].
  destruct (pack_vec e nat c n (map VInt zs) Hx Hs) as (b & E1 & E2).
  - rewrite map_length. exact Hn.
  - apply Forall_map. eapply Forall_impl; [|exact HF]. intros z Hz. apply pack_one_int_ok; assumption.
  - exists b. split; [exact E1|]. rewrite E2. apply canon_ints. exact Hc.
Qed.

(** * metadata *)
Definition meta_enc (mlen : Z) (m : list Z) : res bytes :=
  let msfmt := msfmt_get mlen in
  if String.eqb msfmt "" then Ok []
  else bind (sfmt_parse msfmt)
         (fun fm => match pack fm (map VInt m) with Some b => Ok b | None => Raise "struct.error" end).

Definition meta_code (mlen : Z) : code :=
  if mlen =? 1 then CB else if mlen =? 2 then CH else if mlen =? 4 then CI else if mlen =? 8 then CQ else CB.
Definition meta_cnt (mlen : Z) : nat := if meta_single mlen then 1%nat else Z.to_nat mlen.

Definition meta_native_ok (n : N) : bool :=
  (n =? 0)%N ||
  (negb (String.eqb (msfmt_get (Z.of_N n)) "") &&
   match parse_fmt (msfmt_get (Z.of_N n)), parse_fmt ("<" ^^ msfmt_get (Z.of_N n)) with
   | Some (mkFmt LE true [mkItem k c]), Some (mkFmt LE false [mkItem k' c']) =>
       code_eqb c (meta_code (Z.of_N n)) && Nat.eqb k (meta_cnt (Z.of_N n)) &&
       code_eqb c' (meta_code (Z.of_N n)) && Nat.eqb k' (meta_cnt (Z.of_N n))
   | _, _ => false
   end).
Lemma meta_native_sweep : all_bits 8 0 meta_native_ok = true. Proof. vm_compute. reflexivity. Qed.

Lemma meta_fmts mlen : 1 <= mlen <= 255 ->
  String.eqb (msfmt_get mlen) "" = false /\
  parse_fmt (msfmt_get mlen) = Some (mkFmt LE true [mkItem (meta_cnt mlen) (meta_code mlen)]) /\
  parse_fmt ("<" ^^ msfmt_get mlen) = Some (mkFmt LE false [mkItem (meta_cnt mlen) (meta_code mlen)]).
Proof.
  intros Hm.
  pose proof (all_below_pow2 8 _ meta_native_sweep (Z.to_N mlen)) as H.
  assert (Hlt : (Z.to_N mlen < 2 ^ N.of_nat 8)%N) by (change (2 ^ N.of_nat 8)%N with 256%N; lia).
  specialize (H Hlt). unfold meta_native_ok in H. rewrite Z2N.id in H by lia.
  replace (Z.to_N mlen =? 0)%N with false in H by lia. cbn [orb] in H.
  apply andb_prop in H as [H0 H].
  split; [destruct (String.eqb (msfmt_get mlen) ""); [discriminate|reflexivity]|].
  destruct (parse_fmt (msfmt_get mlen)) as [[e nat its]|]; [|discriminate].
  destruct e; [|discriminate]. destruct nat; [|discriminate].
  destruct its as [|[k c] its']; [discriminate|]. destruct its'; [|discriminate].
  destruct (parse_fmt ("<" ^^ msfmt_get mlen)) as [[e' nat' its2]|]; [|discriminate].
  destruct e'; [|discriminate]. destruct nat'; [discriminate|].
  destruct its2 as [|[k' c'] its2']; [discriminate|]. destruct its2'; [|discriminate].
  apply andb_prop in H as [H H4]. apply andb_prop in H as [H H3]. apply andb_prop in H as [H1 H2].
  apply code_eqb_eq in H1, H3. apply Nat.eqb_eq in H2, H4. subst. split; reflexivity.
Qed.

Lemma meta_code_int mlen : code_is_int (meta_code mlen) = true /\ code_signed (meta_code mlen) = false.
Proof. unfold meta_code. repeat (destruct (_ =? _)); split; reflexivity. Qed.

Lemma meta_ok mlen m :
  0 <= mlen <= 255 -> meta_fits mlen m = true ->
  exists mb fm mvals,
    meta_enc mlen m = Ok mb /\
    sfmt_parse (Gen_types.meta_le_prefix ^^ msfmt_get mlen) = Ok fm /\
    unpack fm mb = Some mvals /\ map sval_raw mvals = expected_meta mlen m /\
    zlen mb = mlen /\ wf_bytes mb.
Proof.
  intros Hm Hf. unfold meta_fits, expected_meta in *. change Gen_types.meta_le_prefix with "<".
  destruct (mlen =? 0) eqn:E0.
  { assert (mlen = 0) by lia. subst mlen. exists [], (mkFmt LE false []), []. repeat split. constructor. }
  destruct (meta_fmts mlen ltac:(lia)) as (Hne & Hnat & Hle).
  destruct (meta_code_int mlen) as [Hint Hsig].
  assert (Hvec : List.length m = meta_cnt mlen /\ Forall (fun z => int_in (meta_code mlen) z = true) m /\
                 Z.of_nat (meta_cnt mlen * code_size (meta_code mlen)) = mlen).
  { unfold meta_cnt, int_in. rewrite Hsig. destruct (meta_single mlen) eqn:Es.
    - destruct m as [|z [|z2 m]]; try discriminate.
      assert (Hc : code_size (meta_code mlen) = Z.to_nat mlen).
      { unfold meta_single in Es. unfold meta_code.
        destruct (mlen =? 1) eqn:E1; [cbn [code_size]; lia|]. destruct (mlen =? 2) eqn:E2; [cbn [code_size]; lia|].
        destruct (mlen =? 4) eqn:E4; [cbn [code_size]; lia|]. destruct (mlen =? 8) eqn:E8; [cbn [code_size]; lia|].
        discriminate. }
      rewrite Hc. repeat split; [constructor; [exact Hf|constructor]|lia].
    - apply andb_prop in Hf as [Hl Hb].
      assert (Hc : meta_code mlen = CB).
      { unfold meta_single in Es. unfold meta_code. replace (mlen =? 1) with false by lia.
        replace (mlen =? 2) with false by lia. replace (mlen =? 4) with false by lia.
        replace (mlen =? 8) with false by lia. reflexivity. }
      rewrite Hc. cbn [code_size]. repeat split; [unfold zlen in Hl; lia| |lia].
      apply Forall_forall. intros z Hz. rewrite forallb_forall in Hb. exact (Hb z Hz). }
  destruct Hvec as (Hlen & Hrange & Hsize).
  destruct (pack_int_vec LE true (meta_code mlen) (meta_cnt mlen) m Hint Hlen Hrange) as (mb & Hp & Hc).
  destruct (meta_roundtrip _ _ _ _ Hp) as [Hun Hl].
  exists mb, (mkFmt LE false [mkItem (meta_cnt mlen) (meta_code mlen)]), (map VInt m).
  repeat split.
  - unfold meta_enc. rewrite Hne. unfold sfmt_parse. rewrite Hnat. cbn [bind]. rewrite Hp. reflexivity.
  - unfold sfmt_parse. rewrite Hle. reflexivity.
  - rewrite Hun, Hc. reflexivity.
  - rewrite map_map. reflexivity.
  - unfold zlen. rewrite Hl, calcsize_vec. exact Hsize.
  - exact (pack_wf _ _ _ Hp).
Qed.

(** * one sample, any row *)
(** the kind dispatch of _stream_bytes_get, with the packing continuation abstracted *)
Definition enc_body (rw : row) (d : list evalue) (packv : list value -> res bytes) : res bytes :=
  if r_kind rw =? kind_of "NUM" then
    let sc := match r_scale rw with
              | SNone => None
              | SInt z | SFloat z =>
                  if (z =? 0) || (z =? Gen_types.enc_unit_scale) then None else Some z
              end in
    bind (mapM (num_value sc) d) packv
  else if r_kind rw =? kind_of "CHAR" then
    match d with
    | EVText cps :: _ =>
        if forallb valid_cp cps then packv [VBytes (utf8_enc cps)]
        else Raise "UnicodeEncodeError"
    | [] => Raise "IndexError"
    | _ => Raise "TypeError"
    end
  else if r_kind rw =? kind_of "NONE" then packv []
  else if r_kind rw =? kind_of "COMPLEX" then bind (mapM raw_value d) packv
  else Raise "AssertionError".

Lemma stream_bytes_get_eq rw usr s :
  stream_bytes_get rw usr s =
  bind (sfmt_parse (Gen_types.enc_le_prefix ^^ Gen_types.enc_chan_code
                    ^^ (if negb (e_vdim s =? 0)
                        then (if negb usr then str_of_Z (e_vdim s) ^^ r_fmt rw else r_fmt rw)
                        else "")))
    (fun f => enc_body rw (e_data s)
                (fun vs => match pack f (VInt (e_chan s) :: vs) with
                           | Some b => Ok b
                           | None => Raise "struct.error"
                           end)).
Proof. reflexivity. Qed.

Lemma agrees_eq ch s : agrees ch s = true ->
  ch = mkChanL (e_type s) (e_vdim s) (e_mlen s) (e_chan s).
Proof.
  unfold agrees. destruct ch as [lt lv lm lc]. cbn [l_chan l_type l_vdim l_mlen]. intros H.
  f_equal; lia.
Qed.

Lemma sample_core lay user s ch rw usr its vs db sv mb fm mvals :
  0 <= e_chan s <= 255 ->
  nth_chan lay (Z.to_nat (e_chan s)) = Some ch -> agrees ch s = true ->
  dsfmt_get (e_type s) user = Ok (rw, usr) ->
  parse_fmt ("<" ^^ (if negb (e_vdim s =? 0) && negb usr then str_of_Z (e_vdim s) else "") ^^ r_fmt rw)
    = Some (mkFmt LE false its) ->
  (e_vdim s = 0 -> r_fmt rw = "") ->
  (usr = true -> e_vdim s <> 0 /\ Z.of_nat (calcsize (mkFmt LE false its)) = e_vdim s) ->
  Z.of_nat (calcsize (mkFmt LE false its)) = r_slen rw * e_vdim s ->
  (forall packv, enc_body rw (e_data s) packv = packv vs) ->
  pack (mkFmt LE false its) vs = Some db ->
  stream_data_get rw (canon_items its vs) = Ok sv ->
  sfmt_parse (Gen_types.meta_le_prefix ^^ msfmt_get (e_mlen s)) = Ok fm ->
  unpack fm mb = Some mvals -> zlen mb = e_mlen s ->
  stream_bytes_get rw usr s = Ok (Z.to_N (e_chan s) :: db) /\
  w_ok lay user (mkW (Z.to_N (e_chan s)) db mb
                     (mkSample (e_chan s) (r_kind rw) (e_vdim s) (e_mlen s) sv (map sval_raw mvals))) /\
  wf_bytes db /\ zlen db = r_slen rw * e_vdim s.
Proof.
  intros Hc Hnth Hag Hds Hparse Hz Hu Hsize Henc Hpack Hsd Hfm Hum Hmb.
  apply agrees_eq in Hag. subst ch.
  assert (Hlen : zlen db = r_slen rw * e_vdim s).
  { unfold zlen. rewrite (pack_length _ _ _ Hpack). exact Hsize. }
  split; [|split; [|split; [exact (pack_wf _ _ _ Hpack)|exact Hlen]]].
  - rewrite stream_bytes_get_eq.
    change Gen_types.enc_le_prefix with "<". change Gen_types.enc_chan_code with "B".
    assert (E : (if negb (e_vdim s =? 0)
                 then (if negb usr then str_of_Z (e_vdim s) ^^ r_fmt rw else r_fmt rw) else "")
                = (if negb (e_vdim s =? 0) && negb usr then str_of_Z (e_vdim s) else "") ^^ r_fmt rw).
    { destruct (e_vdim s =? 0) eqn:E0; cbn [negb andb].
      - rewrite Hz by lia. reflexivity.
      - destruct usr; reflexivity. }
    rewrite E. unfold sfmt_parse. rewrite (parse_chan_prefix _ _ Hparse). cbn [bind].
    rewrite Henc. rewrite (pack_chan_intro LE false its (e_chan s) vs db) by (try lia; exact Hpack).
    reflexivity.
  - intros rest. unfold w_bytes. cbn [w_chb w_data w_meta w_out]. cbn [app]. rewrite <- app_assoc.
    apply (decode_one_ok lay user (Z.to_N (e_chan s))
             (mkChanL (e_type s) (e_vdim s) (e_mlen s) (e_chan s)) rw usr
             (mkFmt LE false its) fm db mb rest (canon_items its vs) sv mvals);
      cbn [l_type l_vdim l_mlen l_chan].
    + rewrite Z_N_nat. exact Hnth.
    + exact Hds.
    + intros ->. destruct (Hu eq_refl) as [Hnz Hcs].
      exists (mkFmt LE false its). split; [|exact Hcs].
      change Gen_types.stream_le_prefix with "<". unfold sfmt_parse.
      replace (negb (e_vdim s =? 0) && negb true) with false in Hparse by lia.
      cbn [String.append] in Hparse |- *. rewrite Hparse. reflexivity.
    + change Gen_types.stream_le_prefix with "<". unfold sfmt_parse. rewrite Hparse. reflexivity.
    + exact Hlen.
    + exact (unpack_pack _ _ _ Hpack).
    + exact Hsd.
    + exact Hfm.
    + exact Hmb.
    + exact Hum.
Qed.

(** * data of one sample *)
Definition data_ok (rw : row) (usr : bool) (vdim : Z) (d : list evalue) (expected : list sval) : Prop :=
  exists its vs db,
    parse_fmt ("<" ^^ (if negb (vdim =? 0) && negb usr then str_of_Z vdim else "") ^^ r_fmt rw)
      = Some (mkFmt LE false its) /\
    (vdim = 0 -> r_fmt rw = "") /\
    (usr = true -> vdim <> 0 /\ Z.of_nat (calcsize (mkFmt LE false its)) = vdim) /\
    Z.of_nat (calcsize (mkFmt LE false its)) = r_slen rw * vdim /\
    (forall packv, enc_body rw d packv = packv vs) /\
    pack (mkFmt LE false its) vs = Some db /\
    stream_data_get rw (canon_items its vs) = Ok expected.

Lemma forallb_ext' {A} (f g : A -> bool) l : (forall x, f x = g x) -> forallb f l = forallb g l.
Proof. intros H. induction l as [|x l IH]; [reflexivity|]. cbn [forallb]. rewrite H, IH. reflexivity. Qed.

Lemma fits_list {A B} (q : A -> bool) (g : A -> option B) (p : B -> bool) l :
  (forall x, q x = match g x with Some y => p y | None => false end) ->
  forallb q l = true ->
  exists ys, map_opt g l = Some ys /\ Forall (fun y => p y = true) ys /\ List.length ys = List.length l.
Proof.
  intros Hq H. apply forallb_map_opt. rewrite <- H. symmetry. apply forallb_ext'. exact Hq.
Qed.

Lemma mapM_map_opt_h {A B C} (f : A -> res C) (g : A -> option B) (h : B -> C) l ys :
  (forall x y, g x = Some y -> f x = Ok (h y)) ->
  map_opt g l = Some ys -> mapM f l = Ok (map h ys).
Proof.
  intros Hfg. revert ys. induction l as [|x l IH]; intros ys; cbn [map_opt mapM].
  - intros H. injection H as <-. reflexivity.
  - destruct (g x) as [y|] eqn:Ex; [|discriminate].
    destruct (map_opt g l) as [t|]; [|discriminate].
    intros H. injection H as <-. rewrite (Hfg _ _ Ex). cbn [bind]. rewrite (IH t eq_refl). reflexivity.
Qed.

Lemma map_opt_map_p {A B C} (g : A -> option B) (p : B -> bool) (h : B -> C) (k : A -> C) l ys :
  (forall x y, g x = Some y -> p y = true -> k x = h y) ->
  map_opt g l = Some ys -> Forall (fun y => p y = true) ys -> map k l = map h ys.
Proof.
  intros Hk. revert ys. induction l as [|x l IH]; intros ys; cbn [map_opt map].
  - intros H _. injection H as <-. reflexivity.
  - destruct (g x) as [y|] eqn:Ex; [|discriminate].
    destruct (map_opt g l) as [t|]; [|discriminate].
    intros H HF. injection H as <-. inversion HF; subst. cbn [map].
    rewrite (Hk _ _ Ex) by assumption. rewrite (IH t eq_refl) by assumption. reflexivity.
Qed.

Lemma firstn_pad (u : bytes) n : (List.length u <= n)%nat ->
  firstn n (u ++ repeat 0%N n) = u ++ repeat 0%N (n - List.length u).
Proof.
  intros H. rewrite firstn_app, firstn_all2 by exact H. f_equal.
  replace n with ((n - List.length u) + List.length u)%nat at 2 by lia.
  rewrite repeat_app. apply firstn_app_exact. apply repeat_length.
Qed.

Lemma vdim_ok_inv vdim n : vdim_ok vdim n = true -> 1 <= vdim <= 255 /\ n = vdim.
Proof. unfold vdim_ok. lia. Qed.

(** a vector of [vdim] values of one code, standard row *)
Lemma vec_data_ok rw c vdim d vs expected :
  r_fmt rw = code_str c -> c <> Cx -> c <> Cs ->
  all_bits 8 0 (counted_ok (code_str c) c) = true ->
  r_slen rw = Z.of_nat (code_size c) ->
  1 <= vdim <= 255 -> zlen vs = vdim ->
  Forall (fun v => pack_one LE c v <> None) vs ->
  (forall packv, enc_body rw d packv = packv vs) ->
  stream_data_get rw (map (canon_one c) vs) = Ok expected ->
  data_ok rw false vdim d expected.
Proof.
  intros Hfmt Hx Hs Hsweep Hslen Hv Hlen HF Henc Hsd.
  destruct (pack_vec LE false c (Z.to_nat vdim) vs Hx Hs) as (db & Hp & Hc);
    [unfold zlen in Hlen; lia|exact HF|].
  exists [mkItem (Z.to_nat vdim) c], vs, db. repeat split.
  - replace (negb (vdim =? 0) && negb false) with true by lia. rewrite Hfmt.
    apply (counted_parse _ _ _ Hsweep Hv).
  - lia.
  - discriminate.
  - discriminate.
  - rewrite calcsize_vec, Hslen. lia.
  - exact Henc.
  - exact Hp.
  - rewrite Hc. exact Hsd.
Qed.

Lemma int_code_sweep c : In (code_str c, c) int_codes ->
  all_bits 8 0 (counted_ok (code_str c) c) = true /\ code_is_int c = true.
Proof.
  intros H. cbn [int_codes In] in H.
  repeat (destruct H as [H|H]; [injection H as _ <-; split; [|reflexivity]|]); try (destruct H).
  - exact counted_sweep_B.
  - exact counted_sweep_b.
  - exact counted_sweep_H.
  - exact counted_sweep_h.
  - exact counted_sweep_I.
  - exact counted_sweep_i.
  - exact counted_sweep_Q.
  - exact counted_sweep_q.
Qed.

Definition ev_int (v : evalue) : option Z := match v with EVInt z => Some z | _ => None end.
Definition ev_f32 (v : evalue) : option value :=
  match v with EVF32 b => Some (VF32 b) | EVInt z => Some (VInt z) | _ => None end.
Definition ev_f64 (v : evalue) : option value :=
  match v with EVF64 b => Some (VF64 b) | EVInt z => Some (VInt z) | _ => None end.
Definition f32_okb (v : value) : bool :=
  match v with VF32 b => (b <? pow256 4)%N | VInt z => is_some (f32_bits (VInt z)) | _ => false end.
Definition f64_okb (v : value) : bool :=
  match v with VF64 b => (b <? pow256 8)%N | VInt z => is_some (f64_bits (VInt z)) | _ => false end.

Lemma kinds_num rw : r_kind rw = 1 ->
  (r_kind rw =? kind_of "NUM") = true.
Proof. intros ->. reflexivity. Qed.

Lemma std_data_ok sp vdim d :
  spec_wf sp -> data_fits_std sp vdim d = true ->
  data_ok (spec_row sp) false vdim d (expected_std sp vdim d).
Proof.
  intros Hwf Hfit. destruct sp as [|c|c k| | |]; cbn [data_fits_std expected_std spec_wf] in *.
  - (* data-less *)
    assert (vdim = 0) by lia. subst vdim. exists [], [], []. repeat split; try reflexivity; try discriminate.
  - (* integers *)
    apply andb_prop in Hfit as [Hv Hall]. apply vdim_ok_inv in Hv as [Hv Hlen].
    destruct (int_code_sweep c Hwf) as [Hsweep Hint]. destruct (int_code_not_xs c Hint) as [Hx Hs].
    assert (Hex := fun Hq => fits_list _ ev_int (int_in c) d Hq Hall).
    destruct (Hex ltac:(intros [ ]; reflexivity)) as (zs & Hzs & HF & Hl). clear Hex.
    apply (vec_data_ok _ c vdim d (map VInt zs)); try assumption; try reflexivity.
    + unfold zlen in *. rewrite map_length. lia.
    + apply Forall_map. eapply Forall_impl; [|exact HF]. intros z Hz. apply pack_one_int_ok; assumption.
    + intros packv. unfold enc_body. cbn [spec_row r_kind r_scale].
      change (kind_of "NUM") with 1. change Gen_types.enc_unit_scale with 1. cbn [Z.eqb Pos.eqb orb].
      rewrite (mapM_map_opt_h (num_value None) ev_int VInt d zs) by
        (try exact Hzs; intros [ ] y E; try discriminate; injection E as <-; reflexivity).
      reflexivity.
    + rewrite canon_ints by exact Hint. unfold stream_data_get, scale_divides. cbn [spec_row r_kind r_scale].
      change (kind_of "NUM") with 1. change (kind_of "CHAR") with 2. change Gen_types.decode_unit_scale with 1.
      cbn [Z.eqb Pos.eqb scale_divides orb].
      rewrite map_map. f_equal. symmetry.
      apply (map_opt_map_p ev_int (int_in c)); [|exact Hzs|exact HF].
      intros [ ] y E _; try discriminate. injection E as <-. reflexivity.
  - (* fixed point *)
    destruct Hwf as [Hwf Hk].
    apply andb_prop in Hfit as [Hv Hall]. apply vdim_ok_inv in Hv as [Hv Hlen].
    destruct (int_code_sweep c Hwf) as [Hsweep Hint]. destruct (int_code_not_xs c Hint) as [Hx Hs].
    assert (Hex := fun Hq => fits_list _ (fix_raw k) (fun raw => int_in c raw && (rn53 raw =? raw)) d Hq Hall).
    destruct (Hex ltac:(intros x; reflexivity)) as (zs & Hzs & HF & Hl). clear Hex.
    assert (Hsc : ((2 ^ k =? 0) || (2 ^ k =? 1)) = false /\ pow2_log (2 ^ k) = Some k).
    { destruct Hk as [->|[->| ->]]; split; reflexivity. }
    destruct Hsc as [Hsc Hlog].
    apply (vec_data_ok _ c vdim d (map VInt zs)); try assumption; try reflexivity.
    + unfold zlen in *. rewrite map_length. lia.
    + apply Forall_map. eapply Forall_impl; [|exact HF]. intros z Hz. cbv beta in Hz. apply andb_prop in Hz as [Hz _]. apply pack_one_int_ok; assumption.
    + intros packv. unfold enc_body. cbn [spec_row r_kind r_scale].
      change (kind_of "NUM") with 1. change Gen_types.enc_unit_scale with 1. cbn [Z.eqb Pos.eqb].
      rewrite Hsc.
      rewrite (mapM_map_opt_h (num_value (Some (2 ^ k))) (fix_raw k) VInt d zs) by
        (try exact Hzs; intros [ ] y E; try discriminate; injection E as <-; reflexivity).
      reflexivity.
    + rewrite canon_ints by exact Hint. unfold stream_data_get, scale_divides. cbn [spec_row r_kind r_scale].
      change (kind_of "NUM") with 1. cbn [Z.eqb Pos.eqb scale_divides].
      change Gen_types.decode_unit_scale with 1. rewrite Hsc.
      rewrite map_map. f_equal. symmetry.
      apply (map_opt_map_p (fix_raw k) (fun raw => int_in c raw && (rn53 raw =? raw))); [|exact Hzs|exact HF].
      intros x y E Hy. cbv beta in Hy. apply andb_prop in Hy as [_ Hy]. rewrite E. unfold div_scale. rewrite Hlog.
      replace (rn53 y) with y by lia. reflexivity.
  - (* float *)
    apply andb_prop in Hfit as [Hv Hall]. apply vdim_ok_inv in Hv as [Hv Hlen].
    assert (Hex := fun Hq => fits_list _ ev_f32 f32_okb d Hq Hall).
    destruct (Hex ltac:(intros [ ]; reflexivity)) as (vs & Hvs & HF & Hl). clear Hex.
    apply (vec_data_ok _ Cf vdim d vs); try assumption; try reflexivity; try discriminate.
    + unfold zlen in *. lia.
    + eapply Forall_impl; [|exact HF]. intros v Hv'. rewrite pack_one_f.
      destruct v; try discriminate; cbn [f32_okb] in Hv'.
      * destruct (f32_bits (VInt z)); [discriminate|discriminate].
      * rewrite Hv'. discriminate.
    + intros packv. unfold enc_body. cbn [spec_row r_kind r_scale].
      change (kind_of "NUM") with 1. change Gen_types.enc_unit_scale with 1. cbn [Z.eqb Pos.eqb orb].
      rewrite (mapM_map_opt (num_value None) ev_f32 d vs) by
        (try exact Hvs; intros [ ] y E; try discriminate; injection E as <-; reflexivity).
      reflexivity.
    + unfold stream_data_get, scale_divides. cbn [spec_row r_kind r_scale].
      change (kind_of "NUM") with 1. change (kind_of "CHAR") with 2. change Gen_types.decode_unit_scale with 1.
      cbn [Z.eqb Pos.eqb scale_divides orb].
      rewrite map_map. f_equal. symmetry.
      apply (map_opt_map_p ev_f32 f32_okb); [|exact Hvs|exact HF].
      intros [ ] y E Hy; try discriminate; injection E as <-; cbn [f32_okb] in Hy; cbn [canon_one].
      * destruct (f32_bits (VInt z)); [reflexivity|discriminate].
      * reflexivity.
  - (* double *)
    apply andb_prop in Hfit as [Hv Hall]. apply vdim_ok_inv in Hv as [Hv Hlen].
    assert (Hex := fun Hq => fits_list _ ev_f64 f64_okb d Hq Hall).
    destruct (Hex ltac:(intros [ ]; reflexivity)) as (vs & Hvs & HF & Hl). clear Hex.
    apply (vec_data_ok _ Cd vdim d vs); try assumption; try reflexivity; try discriminate.
    + unfold zlen in *. lia.
    + eapply Forall_impl; [|exact HF]. intros v Hv'. rewrite pack_one_d.
      destruct v; try discriminate; cbn [f64_okb] in Hv'.
      * destruct (f64_bits (VInt z)); [discriminate|discriminate].
      * rewrite Hv'. discriminate.
    + intros packv. unfold enc_body. cbn [spec_row r_kind r_scale].
      change (kind_of "NUM") with 1. change Gen_types.enc_unit_scale with 1. cbn [Z.eqb Pos.eqb orb].
      rewrite (mapM_map_opt (num_value None) ev_f64 d vs) by
        (try exact Hvs; intros [ ] y E; try discriminate; injection E as <-; reflexivity).
      reflexivity.
    + unfold stream_data_get, scale_divides. cbn [spec_row r_kind r_scale].
      change (kind_of "NUM") with 1. change (kind_of "CHAR") with 2. change Gen_types.decode_unit_scale with 1.
      cbn [Z.eqb Pos.eqb scale_divides orb].
      rewrite map_map. f_equal. symmetry.
      apply (map_opt_map_p ev_f64 f64_okb); [|exact Hvs|exact HF].
      intros [ ] y E Hy; try discriminate; injection E as <-; cbn [f64_okb] in Hy; cbn [canon_one].
      * destruct (f64_bits (VInt z)); [reflexivity|discriminate].
      * reflexivity.
  - (* text *)
    apply andb_prop in Hfit as [Hv Hd]. destruct d as [|[ | | | |cps| ] rest]; try discriminate.
    apply andb_prop in Hd as [Hval Hfits].
    set (u := utf8_enc cps) in *. set (n := Z.to_nat vdim).
    assert (Hun : (List.length u <= n)%nat) by (unfold zlen in Hfits; lia).
    exists [mkItem n Cs], [VBytes u], (u ++ repeat 0%N (n - List.length u)). repeat split.
    + replace (negb (vdim =? 0) && negb false) with true by lia.
      apply (counted_parse "s" Cs vdim counted_sweep_s). lia.
    + lia.
    + discriminate.
    + discriminate.
    + rewrite calcsize_vec. cbn [spec_row r_slen code_size]. lia.
    + intros packv. unfold enc_body. cbn [spec_row r_kind]. change (kind_of "NUM") with 1.
      change (kind_of "CHAR") with 2. cbn [Z.eqb Pos.eqb]. rewrite Hval. reflexivity.
    + unfold pack. cbn [fend fitems pack_items pack_item icode icnt].
      assert (Hwfu : wf_bytesb u = true) by exact (utf8_enc_wfb cps Hval). rewrite Hwfu. cbn [pack_items]. rewrite app_nil_r, firstn_pad by exact Hun.
      reflexivity.
    + cbn [canon_items canon_item icode icnt]. cbn [app]. rewrite firstn_pad by exact Hun.
      unfold stream_data_get, scale_divides. cbn [spec_row r_kind r_scale]. change (kind_of "NUM") with 1.
      change (kind_of "CHAR") with 2. cbn [Z.eqb Pos.eqb].
      unfold u. rewrite text_of_padded by exact Hval. reflexivity.
Qed.

(** user-defined rows *)
Lemma text_pad_inv its u pad : text_pad its u = Some pad ->
  canon_items its [VBytes u] = [VBytes (u ++ repeat 0%N pad)].
Proof.
  unfold text_pad. destruct (canon_items its [VBytes u]) as [|[ | |b'| | | ] [|v2 t]]; try discriminate.
  destruct (bytes_eqb _ _) eqn:E; [|discriminate]. intros H. injection H as <-.
  apply bytes_eqb_eq in E. rewrite <- E. reflexivity.
Qed.

Lemma user_data_ok r vdim d :
  r_slen r = 1 -> r_scale r = SNone -> data_fits_user r vdim d = true ->
  data_ok r true vdim d (expected_user r d).
Proof.
  intros Hsl Hsc Hfit. unfold data_fits_user, expected_user in *.
  apply andb_prop in Hfit as [Hv Hfit].
  destruct (parse_fmt ("<" ^^ r_fmt r)) as [f|] eqn:Hp; [|discriminate].
  pose proof (parse_le _ _ Hp) as Hf. set (its := fitems f) in *.
  apply andb_prop in Hfit as [Hcs Hfit].
  destruct (user_values (r_kind r) d) as [vs|] eqn:Huv; [|discriminate].
  apply andb_prop in Hfit as [Hpk Htext].
  destruct (pack f vs) as [db|] eqn:Hpack; [|discriminate]. rewrite Hf in Hpack, Hcs, Hp.
  assert (Hshape :
    (forall packv, enc_body r d packv = packv vs) /\
    stream_data_get r (canon_items its vs) =
      Ok (if r_kind r =? 2
          then match d with
               | EVText cps :: _ =>
                   match text_pad its (utf8_enc cps) with
                   | Some pad => [SVText (cps ++ repeat 0%N pad)]
                   | None => []
                   end
               | _ => []
               end
          else map sval_raw (canon_items its vs))).
  { unfold user_values in Huv. unfold enc_body, stream_data_get, scale_divides. rewrite Hsc.
    change (kind_of "NUM") with 1. change (kind_of "CHAR") with 2. change (kind_of "NONE") with 0.
    change (kind_of "COMPLEX") with 3.
    destruct (r_kind r =? 0) eqn:K0.
    { replace (r_kind r =? 1) with false by lia. replace (r_kind r =? 2) with false by lia.
      injection Huv as <-. split; reflexivity. }
    destruct (r_kind r =? 1) eqn:K1.
    { replace (r_kind r =? 2) with false by lia. split; [|reflexivity]. intros packv.
      rewrite (mapM_map_opt (num_value None) ev_plain d vs) by
        (try exact Huv; intros [ ] y E; try discriminate; injection E as <-; reflexivity).
      reflexivity. }
    destruct (r_kind r =? 2) eqn:K2.
    { destruct d as [|[ | | | |cps| ] rest]; try discriminate.
      destruct (forallb valid_cp cps) eqn:Hval; [|discriminate]. injection Huv as <-.
      split; [reflexivity|].
      destruct (text_pad its (utf8_enc cps)) as [pad|] eqn:Etp; [|discriminate].
      rewrite (text_pad_inv _ _ _ Etp). rewrite text_of_padded by exact Hval. reflexivity. }
    destruct (r_kind r =? 3) eqn:K3; [|discriminate].
    split; [|reflexivity]. intros packv.
    rewrite (mapM_map_opt raw_value ev_complex d vs) by
      (try exact Huv; intros [ ] y E; try discriminate; injection E as <-; reflexivity).
    reflexivity. }
  destruct Hshape as [Henc Hsd].
  exists its, vs, db. repeat split.
  - replace (negb (vdim =? 0) && negb true) with false by lia. exact Hp.
  - lia.
  - lia.
  - lia.
  - rewrite Hsl. lia.
  - exact Henc.
  - exact Hpack.
  - rewrite Hsd. reflexivity.
Qed.

(** * one representable, non-empty sample *)
Lemma spec_row_kind sp : r_kind (spec_row sp) = spec_kind sp.
Proof. destruct sp; reflexivity. Qed.
Lemma spec_row_slen sp : r_slen (spec_row sp) = spec_size sp.
Proof. destruct sp; reflexivity. Qed.

Lemma sample_ok lay user s :
  sample_fitsb lay user s = true -> non_empty s = true ->
  exists rw usr db mb,
    dsfmt_get (e_type s) user = Ok (rw, usr) /\
    stream_bytes_get rw usr s = Ok (Z.to_N (e_chan s) :: db) /\
    meta_enc (e_mlen s) (e_meta s) = Ok mb /\
    w_ok lay user (mkW (Z.to_N (e_chan s)) db mb (decoded_of user s)) /\
    wf_bytes db /\ wf_bytes mb /\ 1 + zlen db + zlen mb = sample_size s /\ 0 <= e_chan s <= 255.
Proof.
  intros Hfit Hne. unfold sample_fitsb in Hfit. rewrite Hne in Hfit. cbn [negb orb] in Hfit.
  apply andb_prop in Hfit as [Hfit Hdata]. apply andb_prop in Hfit as [Hfit Hmeta].
  apply andb_prop in Hfit as [Hfit Hm2]. apply andb_prop in Hfit as [Hfit Hm1].
  apply andb_prop in Hfit as [Hfit Hlay]. apply andb_prop in Hfit as [Hc1 Hc2].
  destruct (nth_chan lay (Z.to_nat (e_chan s))) as [ch|] eqn:Hnth; [|discriminate].
  destruct (meta_ok (e_mlen s) (e_meta s) ltac:(lia) Hmeta) as (mb & fm & mvals & Hme & Hfm & Hum & Hmv & Hml & Hmwf).
  unfold decoded_of, sample_size, type_size.
  destruct (zassoc (e_type s) std_table) as [sp|] eqn:Hstd.
  - pose proof (std_data_ok sp (e_vdim s) (e_data s) (std_table_wf _ _ Hstd) Hdata) as Hd.
    destruct Hd as (its & vs & db & Hp & Hz & Hu & Hsz & Henc & Hpack & Hsd).
    destruct (sample_core lay user s ch (spec_row sp) false its vs db _ mb fm mvals
                ltac:(lia) Hnth Hlay (dsfmt_get_std _ user _ Hstd) Hp Hz Hu Hsz Henc Hpack Hsd Hfm Hum Hml)
      as (Hsb & Hw & Hwf & Hlen).
    exists (spec_row sp), false, db, mb.
    rewrite spec_row_kind, Hmv in Hw. rewrite spec_row_slen in Hlen.
    repeat split; try assumption; try lia. exact (dsfmt_get_std _ user _ Hstd).
  - destruct (zassoc (e_type s) user) as [[r [|]]|] eqn:Huser; try discriminate.
    apply andb_prop in Hdata as [Hdata Hfu]. apply andb_prop in Hdata as [Hsl Hsc].
    assert (Hsl' : r_slen r = 1) by lia.
    assert (Hsc' : r_scale r = SNone) by (destruct (r_scale r); [reflexivity|discriminate|discriminate]).
    pose proof (dsfmt_get_user _ user r Hstd Huser Hsl' Hsc') as Hds.
    destruct (user_data_ok r (e_vdim s) (e_data s) Hsl' Hsc' Hfu)
      as (its & vs & db & Hp & Hz & Hu & Hsz & Henc & Hpack & Hsd).
    destruct (sample_core lay user s ch r true its vs db _ mb fm mvals
                ltac:(lia) Hnth Hlay Hds Hp Hz Hu Hsz Henc Hpack Hsd Hfm Hum Hml)
      as (Hsb & Hw & Hwf & Hlen).
    exists r, true, db, mb. rewrite Hmv in Hw.
    repeat split; try assumption; lia.
Qed.

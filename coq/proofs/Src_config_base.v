(** The BUFFERED CHANNEL CONFIGURATION of nxslib.comm.CommHandler as INTERPRETED
    SOURCE (the ASTs of gen/Src_comm.v, run by the PyLite interpreter) against
    the hand model model/Config.v.  Part 1 of 4: the embedding, the readers and
    the setters ([*_func] lemmas at the [call_func] level; the theorems at the
    entry points and against [Config.step] are in Src_config_proofs.v).

    Embedding.  [comm c dev written items] is the CommHandler object of a model
    client [c : Config.client]: [_channels] is the DCommChannelsData of [c],
    [_intf] the harness stub LogIntf (everything written, in order), [_q] the
    harness stub ScriptQueue (the scripted answers), [_dev] the client's mirror
    of the device -- for the methods that read it a [dev_obj' cm flags rxp chans]
    of proofs/Src_records_proofs.v.  Of the model's device only
    [d_div_supported]/[d_ack_supported] matter; they are the mirror's
    [div_sup flags]/[ack_sup flags].

    Python's indexing: [set_at l k x] is [l[k] = x] ([None]: IndexError;
    negative [k] count from the end); [set_many_at] the loop over a list of
    indices (left: all done; right: the list at the first IndexError). *)
From Coq Require Import String Ascii List ZArith NArith Bool Lia ZifyBool.
From NX Require Import Bytes PyStruct Crc PyLite PyLite_tactics PyLite_tactics_ext
  Src_dev Src_iparse Src_parse Src_comm Src_prelude Src_all
  Src_serialframe_proofs Src_parse_req_lemmas Src_records_proofs.
From NX Require Src_parse_req_proofs Src_info_proofs.
From NX Require Frame Request Info Info_proofs Config Config_proofs Gen_frame Gen_req.
Import ListNotations.
Open Scope string_scope.
Open Scope Z_scope.

Module RQ := Src_parse_req_proofs.
Module IN := Src_info_proofs.

(** * The embedding *)
Definition pa : pv := RQ.pa.

Definition chans_obj (c : Config.client) : pv :=
  PObj "DCommChannelsData"
    [("en_now", PList (map PBool (Config.en_now c))); ("en_new", PList (map PBool (Config.en_new c)));
     ("div_now", PList (map PInt (Config.div_now c))); ("div_new", PList (map PInt (Config.div_new c)));
     ("en_sync", PBool (Config.en_sync c)); ("div_sync", PBool (Config.div_sync c))].

Definition intf_obj (written : list bytes) : pv := PObj "LogIntf" [("written", PList (map PBytes written))].
Definition queue_obj (items : list pv) : pv := PObj "ScriptQueue" [("items", PList items)].

Definition comm (c : Config.client) (dev : pv) (written : list bytes) (items : list pv) : pv :=
  PObj "CommHandler"
    [("_started", PBool false); ("_intf", intf_obj written); ("_parse", pa); ("_dev", dev);
     ("_q", queue_obj items); ("_channels", chans_obj c)].

(** what the model's device record has to say about the mirror: only these two *)
Definition div_sup (flags : Z) : bool := negb (Z.land flags 1 =? 0).
Definition ack_sup (flags : Z) : bool := negb (Z.land flags 2 =? 0).

#[local] Hint Unfold pa RQ.pa IN.pa sf chans_obj intf_obj queue_obj comm
  dev_obj dev_obj' IN.ack_obj frame_obj perr_obj : cfg_model.
Ltac py_unfold_hook ::= autounfold with cfg_model.
#[local] Arguments norm_index : simpl never.
#[local] Arguments enum_id : simpl never.
(** the description record of the mirror stays FOLDED during the runs (a case
    split on one of its flags must not rewrite the record itself: the callee
    specifications of [Device.*_channels_update] are about [dev_obj']) *)
#[local] Arguments dev_rec : simpl never.
#[local] Arguments div_sup : simpl never.
#[local] Arguments ack_sup : simpl never.

Lemma dev_rec_chmax P cf cm flags rxp : get_attr P cf (dev_rec cm flags rxp) "chmax" = PyLite.Ok (PInt cm).
Proof. reflexivity. Qed.
Lemma dev_rec_div P cf cm flags rxp :
  get_attr P cf (dev_rec cm flags rxp) "div_supported" = PyLite.Ok (PBool (div_sup flags)).
Proof. reflexivity. Qed.
Lemma dev_rec_ack P cf cm flags rxp :
  get_attr P cf (dev_rec cm flags rxp) "ack_supported" = PyLite.Ok (PBool (ack_sup flags)).
Proof. reflexivity. Qed.

(** * Small things *)
Lemma dev_func n c dev w q :
  call_func program (S n) CommHandler_dev [comm c dev w q] [] = PyLite.Ok (dev, Some (comm c dev w q)).
Proof. pystart. pyrun. Qed.

Lemma device_data_func n cm flags rxp chans :
  call_func program (S n) Device_data [dev_obj' cm flags rxp chans] [] =
  PyLite.Ok (dev_rec cm flags rxp, Some (dev_obj' cm flags rxp chans)).
Proof. pystart. pyrun. Qed.

#[local] Hint Resolve dev_func device_data_func : pyspec.

Theorem dev_spec n c dev w q :
  get_attr program (call_func program (1 + n)) (comm c dev w q) "dev" = PyLite.Ok dev.
Proof. pystart. pyrun. Qed.

(** * Generic list facts *)
Lemma norm_index_Some_lt len i k : norm_index len i = Some k -> (k < len)%nat.
Proof.
  unfold norm_index. destruct ((0 <=? i) && (i <? Z.of_nat len)) eqn:E1.
  - intros H; inversion H; lia.
  - destruct ((i <? 0) && (0 <=? i + Z.of_nat len)) eqn:E2; [|discriminate]. intros H; inversion H; lia.
Qed.

Lemma nth_map_d {A} (g : A -> pv) (d : A) k l : (k < List.length l)%nat -> nth k (map g l) PNone = g (nth k l d).
Proof. intros H. rewrite (nth_indep (map g l) PNone (g d)) by (rewrite map_length; exact H). apply map_nth. Qed.

Lemma list_set_map {A} (g : A -> pv) l : forall k x, PyLite.list_set (map g l) k (g x) = map g (Config.set_nth l k x).
Proof. induction l as [|y r IH]; intros [|k] x; cbn; try reflexivity. f_equal. apply IH. Qed.

Lemma slice_from_cons1 {A} (x : A) r : slice_from (x :: r) 1 = r.
Proof.
  unfold slice_from, clip_index. cbn [List.length].
  replace (1 <? 0) with false by lia. replace (Z.of_nat (S (List.length r)) <? 1) with false by lia. reflexivity.
Qed.

Ltac py_stuck_hook h ::=
  lazymatch h with
  | norm_index (List.length (map _ _)) _ => rewrite map_length
  | get_attr _ _ (dev_rec _ _ _) "chmax" => rewrite dev_rec_chmax
  | get_attr _ _ (dev_rec _ _ _) "div_supported" => rewrite dev_rec_div
  | get_attr _ _ (dev_rec _ _ _) "ack_supported" => rewrite dev_rec_ack
  end.

(** leftovers of a run: list primitives on mapped lists *)
Ltac cfg_lists :=
  repeat match goal with
         | E : norm_index _ _ = Some _ |- _ => apply norm_index_Some_lt in E
         end;
  rewrite ?map_length in *;
  repeat first [ rewrite (nth_map_d PBool false) by assumption
               | rewrite (nth_map_d PInt 0) by assumption
               | rewrite (list_set_map PBool)
               | rewrite (list_set_map PInt) ].

(** * Names computed from the ASTs

    The loop states below never mention a local variable of comm.py by a
    literal: the names of the parameters, of the loop variables and of the
    counters are read off the generated syntax trees (by [eval cbv] inside the
    tactics, so the rest of each proof sees literals).  Renaming a local, or
    introducing / inlining a single-use temporary outside the loops, does not
    touch the proofs. *)
Definition params (f : func) : list string := map fst (f_params f).
Definition param0 (f : func) : string := match f_params f with (x, _) :: _ => x | [] => "" end.

(** the first [for] of a block (target and body), looking into the branches of [if] *)
Fixpoint first_for_s (s : stmt) : option (target * stmts) :=
  match s with
  | SFor t _ b => Some (t, b)
  | SIf _ a b => match first_for_ss a with Some x => Some x | None => first_for_ss b end
  | _ => None
  end
with first_for_ss (ss : stmts) : option (target * stmts) :=
  match ss with
  | Snil => None
  | Scons s r => match first_for_s s with Some x => Some x | None => first_for_ss r end
  end.

(** [for x in ..]: x;  [for a, b in ..]: (a, b) *)
Definition loop_var (f : func) : string :=
  match first_for_ss (f_body f) with Some (TName x, _) => x | _ => "" end.
Definition loop_pair (f : func) : string * string :=
  match first_for_ss (f_body f) with Some (TNames [a; b], _) => (a, b) | _ => ("", "") end.
Definition loop_body (f : func) : stmts :=
  match first_for_ss (f_body f) with Some (_, b) => b | None => Snil end.

(** the plain assignments [x = ..] in front of the first top-level [for], in order *)
Fixpoint assigned_before_for (ss : stmts) : list string :=
  match ss with
  | Snil => []
  | Scons (SFor _ _ _) _ => []
  | Scons (SAssign (TName x) _) r => x :: assigned_before_for r
  | Scons _ r => assigned_before_for r
  end.

(** the variable of the first augmented assignment [x += ..] of a block, looking into [if] *)
Fixpoint first_aug_s (s : stmt) : option string :=
  match s with
  | SAug (TName x) _ _ => Some x
  | SIf _ a b => match first_aug_ss a with Some x => Some x | None => first_aug_ss b end
  | _ => None
  end
with first_aug_ss (ss : stmts) : option string :=
  match ss with
  | Snil => None
  | Scons s r => match first_aug_s s with Some x => Some x | None => first_aug_ss r end
  end.

(** * 1. Readers and setters *)
Lemma ch_is_enabled_func n c dev w q k :
  call_func program (S n) CommHandler_ch_is_enabled [comm c dev w q; PInt k] [] =
  match norm_index (List.length (Config.en_now c)) k with
  | Some i => PyLite.Ok (PBool (nth i (Config.en_now c) false), Some (comm c dev w q))
  | None => ExcS "IndexError" (self_st (comm c dev w q))
  end.
Proof. pystart. pyrun. cfg_lists. reflexivity. Qed.

Lemma ch_div_get_func n c dev w q k :
  call_func program (S n) CommHandler_ch_div_get [comm c dev w q; PInt k] [] =
  match norm_index (List.length (Config.div_now c)) k with
  | Some i => PyLite.Ok (PInt (nth i (Config.div_now c) 0), Some (comm c dev w q))
  | None => ExcS "IndexError" (self_st (comm c dev w q))
  end.
Proof. pystart. pyrun. cfg_lists. reflexivity. Qed.

(** one index of a setter, Python's way: negative indices count from the end *)
Definition set_at {A} (l : list A) (k : Z) (x : A) : option (list A) :=
  match norm_index (List.length l) k with
  | Some i => Some (Config.set_nth l i x)
  | None => None
  end.

Lemma ch_enable_int_func n c dev w q k :
  call_func program (S n) CommHandler_ch_enable [comm c dev w q; PInt k] [] =
  match set_at (Config.en_new c) k true with
  | Some l => PyLite.Ok (PNone, Some (comm (Config.upd_en c l) dev w q))
  | None => ExcS "IndexError" (self_st (comm c dev w q))
  end.
Proof. pystart. unfold set_at. pyrun. cfg_lists. reflexivity. Qed.

(** a list of indices: applied left to right; the first index out of range
    raises IndexError, the indices before it stay applied *)
Fixpoint set_many_at {A} (l : list A) (ks : list Z) (x : A) : list A + list A :=
  match ks with
  | [] => inl l
  | k :: r => match set_at l k x with Some l' => set_many_at l' r x | None => inr l end
  end.

Definition set_step {A} (x : A) (ef : list A * option pv -> env) (a : list A * option pv) (k : Z)
  : PyLite.res (list A * option pv) :=
  match set_at (fst a) k x with
  | Some l => PyLite.Ok (l, Some (PInt k))
  | None => ExcS "IndexError" (ef (fst a, Some (PInt k)))
  end.

Lemma set_fold {A} (x : A) ef : forall ks l o, exists o',
  fold_res (set_step x ef) ks (l, o) =
  match set_many_at l ks x with
  | inl l' => PyLite.Ok (l', o')
  | inr l' => ExcS "IndexError" (ef (l', o'))
  end.
Proof.
  induction ks as [|k r IH]; intros l o; cbn [fold_res set_many_at].
  - exists o. reflexivity.
  - unfold set_step at 1. cbn [fst]. destruct (set_at l k x) as [l'|]; cbn [bind].
    + apply IH.
    + exists (Some (PInt k)). reflexivity.
Qed.

(** loop state of the setters: the receiver with the vector so far, and the
    loop variable once assigned.  [ps]: the parameter names of the method (the
    receiver first), [args]: the values of the other parameters, [lv]: the
    loop variable -- all read off the AST by [setter_loop]/[all_loop] *)
Definition setter_env {A} (ps : list string) (lv : string) (mk : list A -> pv) (args : list pv)
           (st : list A * option pv) : env :=
  (combine ps (mk (fst st) :: args) ++ match snd st with Some v => [(lv, v)] | None => [] end)%list.

(** the loop [for chan in chans: self._channels.<field>[chan] = x], by one script *)
Ltac setter_loop f mk args x l0 ks :=
  let ps := eval cbv in (params f) in
  let lv := eval cbv in (loop_var f) in
  loop_env (setter_env ps lv mk args (l0, @None pv));
  rewrite (for_loop_fold_res (setter_env ps lv mk args) PInt (set_step x (setter_env ps lv mk args)));
  [ let o' := fresh "o" in let H := fresh "H" in
    destruct (set_fold x (setter_env ps lv mk args) ks l0 None) as [o' H];
    rewrite H; unfold setter_env; cbn [combine fst snd app]; destruct (set_many_at _ _ _); destruct o'; pyrun
  | let l := fresh "l" in let o := fresh "o" in let k := fresh "k" in
    intros [l o] k; unfold setter_env, set_step, set_at; cbn [combine fst snd app];
    destruct o; pyrun; cfg_lists; reflexivity ].

Lemma ch_enable_list_func n c dev w q ks :
  call_func program (S n) CommHandler_ch_enable [comm c dev w q; PList (map PInt ks)] [] =
  match set_many_at (Config.en_new c) ks true with
  | inl l => PyLite.Ok (PNone, Some (comm (Config.upd_en c l) dev w q))
  | inr l => ExcS "IndexError" (self_st (comm (Config.upd_en c l) dev w q))
  end.
Proof.
  pystart. pystepsc.
  setter_loop CommHandler_ch_enable (fun l => comm (Config.upd_en c l) dev w q) [PList (map PInt ks)] true (Config.en_new c) ks.
Qed.

Lemma ch_disable_int_func n c dev w q k :
  call_func program (S n) CommHandler_ch_disable [comm c dev w q; PInt k] [] =
  match set_at (Config.en_new c) k false with
  | Some l => PyLite.Ok (PNone, Some (comm (Config.upd_en c l) dev w q))
  | None => ExcS "IndexError" (self_st (comm c dev w q))
  end.
Proof. pystart. unfold set_at. pyrun. cfg_lists. reflexivity. Qed.

Lemma ch_disable_list_func n c dev w q ks :
  call_func program (S n) CommHandler_ch_disable [comm c dev w q; PList (map PInt ks)] [] =
  match set_many_at (Config.en_new c) ks false with
  | inl l => PyLite.Ok (PNone, Some (comm (Config.upd_en c l) dev w q))
  | inr l => ExcS "IndexError" (self_st (comm (Config.upd_en c l) dev w q))
  end.
Proof.
  pystart. pystepsc.
  setter_loop CommHandler_ch_disable (fun l => comm (Config.upd_en c l) dev w q) [PList (map PInt ks)] false (Config.en_new c) ks.
Qed.

(** ch_divider needs the mirror (it reads [self.dev.data.div_supported], for a log message only) *)
Lemma ch_divider_int_func n c cm flags rxp chans w q k v :
  call_func program (S (S n)) CommHandler_ch_divider [comm c (dev_obj' cm flags rxp chans) w q; PInt k; PInt v] [] =
  if (v <? 0) || (255 <? v) then ExcS "ValueError" (self_st (comm c (dev_obj' cm flags rxp chans) w q)) else
  match set_at (Config.div_new c) k v with
  | Some l => PyLite.Ok (PNone, Some (comm (Config.upd_div c l) (dev_obj' cm flags rxp chans) w q))
  | None => ExcS "IndexError" (self_st (comm c (dev_obj' cm flags rxp chans) w q))
  end.
Proof. pystart. unfold set_at. pyrun. all: cfg_lists; reflexivity. Qed.

Lemma ch_divider_list_func n c cm flags rxp chans w q ks v :
  call_func program (S (S n)) CommHandler_ch_divider
    [comm c (dev_obj' cm flags rxp chans) w q; PList (map PInt ks); PInt v] [] =
  if (v <? 0) || (255 <? v) then ExcS "ValueError" (self_st (comm c (dev_obj' cm flags rxp chans) w q)) else
  match set_many_at (Config.div_new c) ks v with
  | inl l => PyLite.Ok (PNone, Some (comm (Config.upd_div c l) (dev_obj' cm flags rxp chans) w q))
  | inr l => ExcS "IndexError" (self_st (comm (Config.upd_div c l) (dev_obj' cm flags rxp chans) w q))
  end.
Proof.
  pystart. pystepsc; try solve [pyfinish].
  all: setter_loop CommHandler_ch_divider (fun l => comm (Config.upd_div c l) (dev_obj' cm flags rxp chans) w q)
         [PList (map PInt ks); PInt v] v (Config.div_new c) ks.
Qed.

(** ** ch_enable_all / ch_disable_all: [for chan in range(self.dev.data.chmax): self.ch_enable(chan)] *)
Lemma fold_res_map {A B C} (f : A -> C -> PyLite.res A) (h : B -> C) l : forall a,
  fold_res (fun a y => f a (h y)) l a = fold_res f (map h l) a.
Proof. induction l as [|y r IH]; intros a; cbn [map fold_res]; [reflexivity|]. destruct (f a (h y)); cbn [bind]; auto. Qed.

Definition all_env {A} (ps : list string) (lv : string) (mk : list A -> pv) (st : list A * option pv) : env :=
  setter_env ps lv mk [] st.

Definition range_ix (cm : Z) : list Z := map (fun k => 0 + Z.of_nat k) (seq 0 (Z.to_nat (cm - 0))).

Ltac all_loop f mk x l0 cm :=
  let ps := eval cbv in (params f) in
  let lv := eval cbv in (loop_var f) in
  lazymatch goal with
  | |- context [for_loop ?P ?cf ?lf ?t ?b (range_list 0 cm) ?e] =>
      change (for_loop P cf lf t b (range_list 0 cm) e)
        with (for_loop P cf lf t b (map (fun k => PInt (0 + Z.of_nat k)) (seq 0 (Z.to_nat (cm - 0))))
                (all_env ps lv mk (l0, @None pv)))
  end;
  rewrite (for_loop_fold_res (all_env ps lv mk) (fun k => PInt (0 + Z.of_nat k))
             (fun a k => set_step x (all_env ps lv mk) a (0 + Z.of_nat k)));
  [ rewrite (fold_res_map (set_step x (all_env ps lv mk)) (fun k => 0 + Z.of_nat k)); fold (range_ix cm);
    let o' := fresh "o" in let H := fresh "H" in
    destruct (set_fold x (all_env ps lv mk) (range_ix cm) l0 None) as [o' H];
    rewrite H; unfold all_env, setter_env; cbn [combine fst snd app]; destruct (set_many_at _ _ _); destruct o'; pyrun
  | let l := fresh "l" in let o := fresh "o" in let k := fresh "k" in
    intros [l o] k; unfold all_env, setter_env, set_step; cbn [combine fst snd app];
    destruct o; pyrun ].

#[local] Hint Resolve ch_enable_int_func ch_disable_int_func : pyspec.
#[local] Arguments set_at : simpl never.

Lemma ch_enable_all_func n c cm flags rxp chans w q :
  call_func program (S (S n)) CommHandler_ch_enable_all [comm c (dev_obj' cm flags rxp chans) w q] [] =
  match set_many_at (Config.en_new c) (range_ix cm) true with
  | inl l => PyLite.Ok (PNone, Some (comm (Config.upd_en c l) (dev_obj' cm flags rxp chans) w q))
  | inr l => ExcS "IndexError" (self_st (comm (Config.upd_en c l) (dev_obj' cm flags rxp chans) w q))
  end.
Proof.
  pystart. pysteps.
  all_loop CommHandler_ch_enable_all (fun l => comm (Config.upd_en c l) (dev_obj' cm flags rxp chans) w q) true (Config.en_new c) cm.
Qed.

Lemma ch_disable_all_func n c cm flags rxp chans w q :
  call_func program (S (S n)) CommHandler_ch_disable_all [comm c (dev_obj' cm flags rxp chans) w q] [] =
  match set_many_at (Config.en_new c) (range_ix cm) false with
  | inl l => PyLite.Ok (PNone, Some (comm (Config.upd_en c l) (dev_obj' cm flags rxp chans) w q))
  | inr l => ExcS "IndexError" (self_st (comm (Config.upd_en c l) (dev_obj' cm flags rxp chans) w q))
  end.
Proof.
  pystart. pysteps.
  all_loop CommHandler_ch_disable_all (fun l => comm (Config.upd_en c l) (dev_obj' cm flags rxp chans) w q) false (Config.en_new c) cm.
Qed.


(** the hooks are global Ltac state: restore the defaults for whoever loads this file *)
Ltac py_stuck_hook h ::= fail.
Ltac py_unfold_hook ::= idtac.

(** * Audit *)
Print Assumptions dev_spec.
Print Assumptions ch_is_enabled_func.
Print Assumptions ch_div_get_func.
Print Assumptions ch_enable_int_func.
Print Assumptions ch_enable_list_func.
Print Assumptions ch_disable_int_func.
Print Assumptions ch_disable_list_func.
Print Assumptions ch_divider_int_func.
Print Assumptions ch_divider_list_func.
Print Assumptions ch_enable_all_func.
Print Assumptions ch_disable_all_func.

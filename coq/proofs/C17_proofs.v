From Coq Require Import Lia ZifyBool ZifyNat ZifyN String.
From NX Require Import Bytes PyStruct Crc Frame Wire Pad Bytes_proofs Crc_proofs Frame_proofs
  Dispatch_proofs Pad_proofs.
Open Scope Z_scope.

(** every frame the library can build, padded for any write padding, is
    dispatched exactly like the unpadded frame *)
Theorem padded_request_same pad fid p r :
  0 <= pad -> wf_bytes p ->
  frame_create fid p = Ok r ->
  recv_dispatch (data_align pad r) = recv_dispatch r.
Proof.
  intros Hpad Hp Hc.
  destruct (Z_lt_ge_dec 255 fid) as [Hbig|Hsmall].
  { rewrite frame_create_bad_id in Hc by exact Hbig. discriminate. }
  destruct (Z_lt_ge_dec fid 0) as [Hneg|Hpos].
  { (* negative id: struct.error from 'B' *)
    exfalso. revert Hc. unfold frame_create.
    replace (Gen_frame.create_fid_max <? fid) with false by (unfold Gen_frame.create_fid_max; lia).
    rewrite gen_hdr_fmt, gen_foot_fmt.
    unfold pack. cbn [fend fitems pack_items pack_item icode icnt pack_many].
    change Gen_frame.sof with 85.
    rewrite (pack_u8 LE 85) by lia.
    destruct (pack_one LE CH (VInt (Gen_frame.create_len_base + zlen p))); [|discriminate].
    assert (E : pack_one LE CB (VInt fid) = None).
    { unfold pack_one. cbn [int_of_value code_size code_signed]. unfold in_unsigned.
      replace ((0 <=? fid) && (fid <? Z.of_N (pow256 1))) with false by lia. reflexivity. }
    rewrite E. discriminate. }
  destruct (Z_le_gt_dec (zlen p) 65529) as [Hfit|Hnofit].
  - rewrite frame_create_layout in Hc by (unfold payload_fits; lia).
    inversion Hc; subst r; clear Hc.
    rewrite data_align_spec by exact Hpad.
    apply dispatch_frame_tail; [lia|exact Hp|exact Hfit|apply wf_bytes_repeat0].
  - rewrite frame_create_refuse in Hc by (unfold payload_fits; lia). discriminate.
Qed.

(** C06 end to end on the interpreted source: the device-side encoder
    (parserecv.py), the frame codec (serialframe.py) and the client-side decoder
    (parse.py), each run by the PyLite interpreter on its regenerated syntax,
    composed along the refinements of Src_info_proofs / Src_serialframe_proofs
    and the round-trip theorems of Info_proofs. *)
From Coq Require Import String List ZArith NArith Lia.
From NX Require Import Bytes PyStruct Crc Utf8 PyLite Src_all Src_serialframe_proofs Src_frame_corollaries
  Src_info_proofs.
From NX Require Frame Wire Request Info Info_proofs.
Import ListNotations.
Open Scope string_scope.
Open Scope list_scope.
Open Scope Z_scope.

(** the device describes itself, the client reads exactly that: common info *)
Theorem src_cmninfo_end_to_end n cbv chmax flags rxpadding chans :
  Info_proofs.u8 chmax -> Info_proofs.u8 flags -> Info_proofs.u8 rxpadding ->
  exists payload,
    call_method program (3 + n) (pr cbv) "frame_cmninfo_encode" [dev_obj chmax flags rxpadding chans] =
      PyLite.Ok (PBytes (Wire.wire 2 payload), pr cbv) /\
    call_method program (3 + n) sf "frame_decode" [PBytes (Wire.wire 2 payload)] =
      PyLite.Ok (frame_obj (enum_id 2) payload noerr, sf) /\
    call_method program (1 + n) pa "frame_cmninfo_decode" [frame_obj (enum_id 2) payload noerr] =
      PyLite.Ok (cmninfo_obj (chmax, flags, rxpadding), pa).
Proof.
  intros Ha Hb Hc.
  destruct (Info_proofs.cmninfo_roundtrip chmax flags rxpadding Ha Hb Hc) as (payload & E1 & E2 & E3).
  exists payload. repeat split.
  - rewrite frame_cmninfo_encode_dev_spec, E1. reflexivity.
  - rewrite frame_decode_spec, E2. reflexivity.
  - unfold noerr. rewrite frame_cmninfo_decode_spec, E3. reflexivity.
Qed.

(** channel info: every one-byte field, every NUL-free text that fits, any number of NUL terminators *)
Theorem src_chinfo_end_to_end n cbv chan chan' c (text : list N) k :
  Info_proofs.cfg_ok c -> Info.c_name c = text ++ repeat 0%N k ->
  Info_proofs.valid_text text -> Forall (fun x => x <> 0%N) text -> Info_proofs.name_fits (Info.c_name c) ->
  exists payload,
    call_method program (3 + n) (pr cbv) "frame_chinfo_encode" [emb_chan chan c] =
      PyLite.Ok (PBytes (Wire.wire 3 payload), pr cbv) /\
    call_method program (3 + n) sf "frame_decode" [PBytes (Wire.wire 3 payload)] =
      PyLite.Ok (frame_obj (enum_id 3) payload noerr, sf) /\
    call_method program (5 + n) pa "frame_chinfo_decode" [frame_obj (enum_id 3) payload noerr; PInt chan'] =
      PyLite.Ok (emb_chan chan' (Info.mkChan (Info.c_en c) (Info.c_type c) (Info.c_vdim c) (Info.c_div c)
                                             (Info.c_mlen c) text), pa).
Proof.
  intros Hc Hn Ht Hz Hf.
  destruct (Info_proofs.chinfo_roundtrip c text k Hc Hn Ht Hz Hf) as (payload & E1 & E2 & E3).
  assert (Hv : forallb valid_cp (Info.c_name c) = true).
  { rewrite Hn, forallb_app. rewrite (Info_proofs.valid_text_forallb text Ht). cbn [andb].
    clear. induction k as [|k IH]; [reflexivity|]. cbn [repeat forallb]. rewrite IH. reflexivity. }
  exists payload. repeat split.
  - rewrite (frame_chinfo_encode_emb_spec n cbv chan c Hv), E1. reflexivity.
  - rewrite frame_decode_spec, E2. reflexivity.
  - unfold noerr. rewrite frame_chinfo_decode_spec, E3. reflexivity.
Qed.

(** acknowledgement: success exactly when the code is 0, the code preserved otherwise *)
Theorem src_ack_end_to_end n cbv r :
  Info_proofs.i32 r ->
  exists payload,
    call_method program (2 + n) (pr cbv) "frame_ack_encode" [PInt r] =
      PyLite.Ok (PBytes (Wire.wire 4 payload), pr cbv) /\
    call_method program (3 + n) sf "frame_decode" [PBytes (Wire.wire 4 payload)] =
      PyLite.Ok (frame_obj (enum_id 4) payload noerr, sf) /\
    call_method program (1 + n) pa "frame_ack_decode" [frame_obj (enum_id 4) payload noerr] =
      PyLite.Ok (ack_obj (if r =? 0 then (true, 0) else (false, r)), pa).
Proof.
  intros Hr.
  destruct (Info_proofs.ack_roundtrip r Hr) as (payload & E1 & E2 & E3).
  exists payload. repeat split.
  - rewrite frame_ack_encode_spec, E1. reflexivity.
  - rewrite frame_decode_spec, E2. reflexivity.
  - unfold noerr. rewrite frame_ack_decode_spec, E3. reflexivity.
Qed.

(** Custom frame codecs plug in without changing client behaviour.

    proofs/Src_reasm_proofs.v proves that the interpreted source of
    CommHandler._read_hdr / CommHandler._read_frame (comm.py) refines the hand
    model model/Reasm.v -- for the BUILT-IN frame codec object [sf]
    (class SerialFrame).  Here the same refinement is proved for ANY codec
    object [cdc] stored in the parser, against the reassembly model written
    over an arbitrary codec record [K] (model/Codec.v), under the hypothesis
    that the interpreted methods of [cdc] implement [K] ([implements]): the
    only things comm.py asks of a codec are

      cdc.hdr_len                    (attribute / property read)
      cdc.hdr_find(data=<bytes>)     (keyword argument)
      cdc.hdr_decode(data=<bytes>)   (keyword argument)
      cdc.frame_decode(<bytes>)      (positional argument)

    and of their results: [i < 0], [hdr.err is not EParseError.NOERR],
    [hdr.flen], [frame.err is not EParseError.NOERR]; the frame id is never
    looked at ([enum_id] stays folded in every proof below).

    The section is then instantiated with [cdc := sf], [K := serial_codec]:
    the hypotheses are discharged from proofs/Src_serialframe_proofs.v and the
    theorems of proofs/Src_reasm_proofs.v / Src_reasm_session.v come back. *)
From Coq Require Import String Ascii List ZArith NArith Bool Lia ZifyBool.
From NX Require Import Bytes PyStruct Crc PyLite PyLite_tactics
  Src_iframe Src_serialframe Src_parse Src_comm Src_prelude Src_all.
From NX Require Frame Gen_frame Reasm Reasm_proofs Codec Codec_proofs.
From NX Require Import Src_serialframe_proofs Src_reasm_proofs Src_reasm_session.
Import ListNotations.
Import Frame(EHDR, EFOOT).
Import Codec(codec, k_hdr_len, k_sof, k_hdr_decode, k_frame_decode, serial_codec,
             khdr_find, kaccumulate, kfill, kread_hdr, kread_frame, krecv_loop, krecv_all, kscan,
             khdr_out(..), kframe_out(..)).
Open Scope string_scope.
Open Scope list_scope.
Open Scope Z_scope.

(** * The interface: what it means for a codec OBJECT to implement a codec MODEL

    Stated at the level at which the interpreter uses the object when it runs
    comm.py (an attribute read; three method calls, with exactly the argument
    passing convention of the call sites), for every fuel from a constant [kf]
    on.  The object is not changed by the calls (second component [cdc]; a
    raise reports the unchanged receiver, [attach (self_st cdc)]).  The
    embeddings of the results are those of proofs/Src_serialframe_proofs.v. *)
Record implements (cdc : pv) (K : codec) (kf : nat) : Prop := mkImplements
  { impl_len : forall n,
      get_attr program (call_func program (kf + n)) cdc "hdr_len" = PyLite.Ok (PInt (k_hdr_len K));
    impl_find : forall n d,
      call_method_value program (call_func program (kf + n)) cdc "hdr_find" [] [("data", PBytes d)] =
      PyLite.Ok (PInt (khdr_find K d), cdc);
    impl_hdr : forall n d,
      call_method_value program (call_func program (kf + n)) cdc "hdr_decode" [] [("data", PBytes d)] =
      do v <- attach (self_st cdc) (emb_hdr (k_hdr_decode K d)); PyLite.Ok (v, cdc);
    impl_frame : forall n d,
      call_method_value program (call_func program (kf + n)) cdc "frame_decode" [PBytes d] [] =
      do v <- attach (self_st cdc) (emb_frame (k_frame_decode K d)); PyLite.Ok (v, cdc) }.

(** the handler with an arbitrary codec object in its parser *)
Definition gpa (cdc : pv) : pv := PObj "Parser" [("_frame", cdc); ("_user_types", PNone)].
Definition gch (cdc : pv) (prev : bytes) (l : Reasm.link) : pv :=
  PObj "CommHandler" [("_prev_read", PBytes prev); ("_intf", intf l); ("_parse", gpa cdc)].

(** * Set-up of the executor *)
#[local] Hint Unfold perr_obj hdr_obj frame_obj emb_hdr emb_frame : greasm_model.
Ltac py_unfold_hook ::= autounfold with greasm_model.

(** the frame id is opaque to the client *)
#[local] Arguments enum_id : simpl never.
#[local] Arguments Codec.khdr_find : simpl never.
#[local] Arguments Codec.kread_hdr : simpl never.
#[local] Arguments Codec.kread_frame : simpl never.
#[local] Arguments Codec.kaccumulate : simpl never.
#[local] Arguments Codec.kfill : simpl never.
#[local] Arguments Reasm.accumulate : simpl never.
#[local] Arguments Reasm.fill : simpl never.
#[local] Arguments mfuel : simpl never.

(** the codec object is a variable: an attribute read / a method call on it is
    stuck, and is rewritten with the hypotheses [HL] (hdr_len), [HF]
    (hdr_find), [HD] (hdr_decode), [HR] (frame_decode) that every proof below
    puts into its context, instantiated at the fuel of its interpreter *)
Ltac codec_hook h :=
  lazymatch h with
  | get_attr _ _ ?c ?a => is_var c;
      match goal with H : get_attr _ _ c a = _ |- _ => rewrite H end
  | call_method_value _ _ ?c ?m _ _ => is_var c;
      match goal with H : context [call_method_value _ _ c m] |- _ => rewrite H end
  end.

Ltac py_stuck_hook h ::=
  first [ codec_hook h
        | lazymatch h with
          | norm_index (S _) 0 => rewrite norm_index_0
          end ].

#[local] Hint Resolve intf_read_func : pyspec.

Section Generic.
Variable cdc : pv.
Variable K : codec.
Variable kf : nat.
Hypothesis Himpl : implements cdc K kf.


(** the hypotheses at a given fuel *)
Lemma impl_len_at m : (kf <= m)%nat ->
  get_attr program (call_func program m) cdc "hdr_len" = PyLite.Ok (PInt (k_hdr_len K)).
Proof. intros H. replace m with (kf + (m - kf))%nat by lia. apply (impl_len _ _ _ Himpl). Qed.

Lemma impl_find_at m : (kf <= m)%nat -> forall d,
  call_method_value program (call_func program m) cdc "hdr_find" [] [("data", PBytes d)] =
  PyLite.Ok (PInt (khdr_find K d), cdc).
Proof. intros H d. replace m with (kf + (m - kf))%nat by lia. apply (impl_find _ _ _ Himpl). Qed.

Lemma impl_hdr_at m : (kf <= m)%nat -> forall d,
  call_method_value program (call_func program m) cdc "hdr_decode" [] [("data", PBytes d)] =
  do v <- attach (self_st cdc) (emb_hdr (k_hdr_decode K d)); PyLite.Ok (v, cdc).
Proof. intros H d. replace m with (kf + (m - kf))%nat by lia. apply (impl_hdr _ _ _ Himpl). Qed.

Lemma impl_frame_at m : (kf <= m)%nat -> forall d,
  call_method_value program (call_func program m) cdc "frame_decode" [PBytes d] [] =
  do v <- attach (self_st cdc) (emb_frame (k_frame_decode K d)); PyLite.Ok (v, cdc).
Proof. intros H d. replace m with (kf + (m - kf))%nat by lia. apply (impl_frame _ _ _ Himpl). Qed.

(** * Model-side unfoldings and measure facts (no law of the codec needed).
    [kaccumulate] / [kfill] do not mention the codec: they ARE
    [Reasm.accumulate] / [Reasm.fill], whose lemmas are reused. *)
Lemma kread_hdr_S f prev l :
  kread_hdr K (S f) prev l =
  match Reasm.accumulate (S (List.length l)) (k_hdr_len K) prev l with
  | (None, buf, l') => KHNone buf l'
  | (Some buf, _, l') =>
      if khdr_find K buf <? 0 then KHNone [] l'
      else
        let b := slice_from buf (khdr_find K buf) in
        if zlen b <? k_hdr_len K then kread_hdr K f b l'
        else match k_hdr_decode K b with
             | Frame.Raise w => KHRaise w
             | Frame.Err _ => kread_hdr K f (slice_from b 1) l'
             | Frame.Ok (fid, flen) => KHFound fid flen b l'
             end
  end.
Proof. reflexivity. Qed.

Lemma kread_frame_unfold p l :
  kread_frame K p l =
  match kread_hdr K (mfuel p l) p l with
  | KHFuel => KFFuel
  | KHRaise w => KFRaise w
  | KHNone p' l' => KFNone p' l'
  | KHFound fid flen b l' =>
      let '(b2, l2) := Reasm.fill (S (List.length l')) flen b l' in
      if zlen b2 <? flen then KFNone b2 l2
      else match k_frame_decode K (slice_to b2 flen) with
           | Frame.Ok (fid', pl) => KFFrame fid' pl (slice_from b2 flen) l2
           | Frame.Err _ => KFNone (slice_from b2 1) l2
           | Frame.Raise w => KFRaise w
           end
  end.
Proof. reflexivity. Qed.

(** [_prev_read] of the receiver when _read_hdr returns a header (it is not
    assigned on that path), as [hdr_prev] of Src_reasm_proofs.v *)
Fixpoint khdr_prev (fuel : nat) (prev : bytes) (l : Reasm.link) : bytes :=
  match fuel with
  | O => prev
  | S f =>
      match Reasm.accumulate (S (List.length l)) (k_hdr_len K) prev l with
      | (None, _, _) => prev
      | (Some buf, _, l') =>
          if khdr_find K buf <? 0 then prev
          else
            let b := slice_from buf (khdr_find K buf) in
            if zlen b <? k_hdr_len K then khdr_prev f b l'
            else match k_hdr_decode K b with
                 | Frame.Err _ => khdr_prev f (slice_from b 1) l'
                 | _ => prev
                 end
      end
  end.

Lemma khdr_prev_S f prev l :
  khdr_prev (S f) prev l =
  match Reasm.accumulate (S (List.length l)) (k_hdr_len K) prev l with
  | (None, _, _) => prev
  | (Some buf, _, l') =>
      if khdr_find K buf <? 0 then prev
      else
        let b := slice_from buf (khdr_find K buf) in
        if zlen b <? k_hdr_len K then khdr_prev f b l'
        else match k_hdr_decode K b with
             | Frame.Err _ => khdr_prev f (slice_from b 1) l'
             | _ => prev
             end
  end.
Proof. reflexivity. Qed.

(** the link at the point where _read_hdr stops, as [hdr_rest] *)
Fixpoint khdr_rest (fuel : nat) (prev : bytes) (l : Reasm.link) : Reasm.link :=
  match fuel with
  | O => l
  | S f =>
      match Reasm.accumulate (S (List.length l)) (k_hdr_len K) prev l with
      | (None, _, l') => l'
      | (Some buf, _, l') =>
          if khdr_find K buf <? 0 then l'
          else
            let b := slice_from buf (khdr_find K buf) in
            if zlen b <? k_hdr_len K then khdr_rest f b l'
            else match k_hdr_decode K b with
                 | Frame.Err _ => khdr_rest f (slice_from b 1) l'
                 | _ => l'
                 end
      end
  end.

Lemma khdr_rest_S f prev l :
  khdr_rest (S f) prev l =
  match Reasm.accumulate (S (List.length l)) (k_hdr_len K) prev l with
  | (None, _, l') => l'
  | (Some buf, _, l') =>
      if khdr_find K buf <? 0 then l'
      else
        let b := slice_from buf (khdr_find K buf) in
        if zlen b <? k_hdr_len K then khdr_rest f b l'
        else match k_hdr_decode K b with
             | Frame.Err _ => khdr_rest f (slice_from b 1) l'
             | _ => l'
             end
  end.
Proof. reflexivity. Qed.

(** the candidate header starts at a byte of the buffer: it is not empty,
    whatever [k_hdr_len K] is (so that dropping one byte makes progress) *)
Lemma find_byte_lt b : forall l i, find_byte b l = Some i -> (i < List.length l)%nat.
Proof.
  induction l as [|x r IH]; intros i H; cbn [find_byte] in H; [discriminate|].
  destruct (N.eqb x b).
  - inversion H. cbn [List.length]. lia.
  - destruct (find_byte b r) as [j|]; [|discriminate]. inversion H. specialize (IH j eq_refl).
    cbn [List.length]. lia.
Qed.

Lemma khdr_find_slice_nonempty buf :
  0 <= khdr_find K buf -> (0 < List.length (slice_from buf (khdr_find K buf)))%nat.
Proof.
  unfold Codec.khdr_find. destruct (find_byte (k_sof K) buf) as [i|] eqn:E; [|lia].
  intros _. apply find_byte_lt in E. unfold slice_from, clip_index. rewrite skipn_length.
  destruct (Z.of_nat i <? 0) eqn:E1; [lia|]. rewrite E1.
  destruct (Z.of_nat (List.length buf) <? Z.of_nat i) eqn:E2; lia.
Qed.

(** the model's fuel suffices, and the link only gets shorter *)
Lemma kread_hdr_inv : forall f p l,
  (Reasm_proofs.nbytes p l < f)%nat ->
  kread_hdr K f p l <> KHFuel /\
  match kread_hdr K f p l with
  | KHNone _ l' | KHFound _ _ _ l' => (List.length l' <= List.length l)%nat
  | _ => True
  end.
Proof.
  induction f as [|f IH]; intros p l Hf; [lia|].
  rewrite kread_hdr_S.
  destruct (Reasm.accumulate (S (List.length l)) (k_hdr_len K) p l) as [[[buf|] bx] l'] eqn:EA;
    destruct (accumulate_inv _ _ _ _ _ _ _ EA) as (Hcat & Hlen & Hsome).
  2:{ split; [discriminate|exact Hlen]. }
  destruct (Hsome buf eq_refl) as [Ebx Hz]. subst bx.
  apply (f_equal (@List.length _)) in Hcat. rewrite !app_length in Hcat.
  pose proof (length_slice_from_le buf (khdr_find K buf)) as Hsl.
  pose proof (length_slice_from_1 (slice_from buf (khdr_find K buf))) as Hsl1.
  pose proof (khdr_find_slice_nonempty buf) as Hne.
  destruct (khdr_find K buf <? 0) eqn:E0; [split; [discriminate|exact Hlen]|].
  cbv zeta.
  destruct (zlen (slice_from buf (khdr_find K buf)) <? k_hdr_len K) eqn:E1.
  - destruct (IH (slice_from buf (khdr_find K buf)) l') as [I1 I2];
      [unfold Reasm_proofs.nbytes, zlen in *; lia|].
    split; [exact I1|]. destruct (kread_hdr K f _ l'); try exact I; lia.
  - destruct (k_hdr_decode K (slice_from buf (khdr_find K buf))) as [[fid flen]|er|w].
    + split; [discriminate|exact Hlen].
    + destruct (IH (slice_from (slice_from buf (khdr_find K buf)) 1) l') as [I1 I2];
        [unfold Reasm_proofs.nbytes, zlen in *; lia|].
      split; [exact I1|]. destruct (kread_hdr K f _ l'); try exact I; lia.
    + split; [discriminate|exact I].
Qed.

(** * The accumulation loop of _read_hdr *)
Lemma acc_gloop m lf : (kf <= S m)%nat -> forall l k p0 buf e,
  (List.length l < k)%nat -> genv e ->
  lookup v_self e = Some (gch cdc p0 l) -> lookup v_buf e = Some (PBytes buf) ->
  exists e', genv e' /\
    match Reasm.accumulate (S (List.length l)) (k_hdr_len K) buf l with
    | (None, b', l') =>
        while_loop program (call_func program (S m)) lf acc_c acc_b k e =
          PyLite.Ok (ORet (PTuple [PNone; PNone]) e') /\
        lookup v_self e' = Some (gch cdc b' l')
    | (Some b', _, l') =>
        while_loop program (call_func program (S m)) lf acc_c acc_b k e = PyLite.Ok (ONorm e') /\
        lookup v_self e' = Some (gch cdc p0 l') /\ lookup v_buf e' = Some (PBytes b')
    end.
Proof.
  intros Hm. pose proof (impl_len_at (S m) Hm) as HL.
  names.
  induction l as [|c r IH]; intros k p0 buf e Hk Hg Hs Hb; genv_split;
    (destruct k as [|k]; [cbn [List.length] in Hk; lia|]);
    rewrite accumulate_S; cbn [List.length] in *;
    (destruct (zlen buf <? k_hdr_len K) eqn:E;
     [| loop_iter HX; rewrite HX; exists e; split; [genv_solve|auto] ]).
  - loop_iter HX. rewrite HX.
    eexists; split; [|split; [reflexivity|]]; [genv_solve | env_rw; reflexivity].
  - destruct c as [|x c].
    + loop_iter HX. rewrite HX.
      eexists; split; [|split; [reflexivity|]]; [genv_solve | env_rw; reflexivity].
    + loop_iter HX. rewrite HX.
      match type of HX with
      | _ = while_loop _ _ _ _ _ _ ?e2 =>
          destruct (IH k p0 (buf ++ x :: c) e2) as (e' & Hg' & HI);
            [lia | genv_solve | env_rw; reflexivity | env_rw; reflexivity |]
      end.
      exists e'. split; [exact Hg'|]. exact HI.
Qed.

(** * The fill loop of _read_frame (the codec is not used) *)
Lemma fill_gloop n lf fid flen err : forall l k p0 buf e,
  (List.length l < k)%nat -> genv e ->
  lookup v_fself e = Some (gch cdc p0 l) -> lookup v_fbuf e = Some (PBytes buf) ->
  lookup v_fhdr e = Some (hdr_obj fid flen err) ->
  exists e', genv e' /\
    while_loop program (call_func program (S n)) lf fill_c fill_b k e = PyLite.Ok (ONorm e') /\
    lookup v_fself e' = Some (gch cdc p0 (snd (Reasm.fill (S (List.length l)) flen buf l))) /\
    lookup v_fbuf e' = Some (PBytes (fst (Reasm.fill (S (List.length l)) flen buf l))) /\
    lookup v_fhdr e' = Some (hdr_obj fid flen err).
Proof.
  names.
  induction l as [|c r IH]; intros k p0 buf e Hk Hg Hs Hb Hh; genv_split;
    (destruct k as [|k]; [cbn [List.length] in Hk; lia|]);
    rewrite fill_S; cbn [List.length] in *;
    (destruct (zlen buf <? flen) eqn:E;
     [| loop_iter HX; rewrite HX; exists e; split; [genv_solve|auto] ]).
  - loop_iter HX. rewrite HX. cbn [fst snd].
    eexists; split; [|split; [reflexivity|]]; [genv_solve | repeat split; env_rw; reflexivity].
  - destruct c as [|x c].
    + loop_iter HX. rewrite HX. cbn [fst snd].
      eexists; split; [|split; [reflexivity|]]; [genv_solve | repeat split; env_rw; reflexivity].
    + loop_iter HX. rewrite HX.
      match type of HX with
      | _ = while_loop _ _ _ _ _ _ ?e2 =>
          destruct (IH k p0 (buf ++ x :: c) e2) as (e' & Hg' & HI);
            [lia | genv_solve | env_rw; reflexivity | env_rw; reflexivity | env_rw; reflexivity |]
      end.
      exists e'. split; [exact Hg'|]. exact HI.
Qed.

(** * _read_hdr *)
Definition gemb_hdr_out (pl : bytes) (ll : Reasm.link) (o : khdr_out) : PyLite.res (pv * option pv) :=
  match o with
  | KHNone p l' => PyLite.Ok (PTuple [PNone; PNone], Some (gch cdc p l'))
  | KHFound fid flen b l' =>
      PyLite.Ok (PTuple [hdr_obj (enum_id fid) flen (perr_obj "NOERR" 0); PBytes b], Some (gch cdc pl l'))
  | KHRaise w => ExcS w (self_st (gch cdc pl ll))
  | KHFuel => Fuel
  end.

Lemma hdr_gloop m lf : (kf <= S m)%nat -> forall f k p l e,
  (Reasm_proofs.nbytes p l < f)%nat -> (f <= k)%nat -> (List.length l < lf)%nat ->
  genv e -> lookup v_self e = Some (gch cdc p l) ->
  obs (while_loop program (call_func program (S m)) lf hdr_c hdr_b k e) =
  gemb_hdr_out (khdr_prev f p l) (khdr_rest f p l) (kread_hdr K f p l).
Proof.
  intros Hm.
  pose proof (impl_len_at (S m) Hm) as HL.
  pose proof (impl_find_at (S m) Hm) as HF.
  pose proof (impl_hdr_at (S m) Hm) as HD.
  induction f as [|f IH]; intros k p l e Hf Hk Hl Hg Hs; [lia|].
  destruct k as [|k]; [lia|]. genv_split.
  rewrite kread_hdr_S, khdr_prev_S, khdr_rest_S, while_loop_S. unfold obs, hdr_c, hdr_b. names.
  esteps.
  lazymatch goal with
  | |- ?L = _ =>
      let h := head_of L in
      lazymatch h with
      | while_loop _ _ _ _ _ _ ?e1 =>
          destruct (acc_gloop m lf Hm l lf p p e1) as (e' & Hg' & HI);
            [lia | genv_solve | names; lk | names; lk |];
          names;
          destruct (Reasm.accumulate (S (List.length l)) (k_hdr_len K) p l) as [[[buf|] bx] l'] eqn:EA;
          [ destruct HI as (HW & Hs' & Hb'); fast_rw h (PyLite.Ok (ONorm e')) ltac:(exact HW)
          | destruct HI as (HW & Hs'); fast_rw h (PyLite.Ok (ORet (PTuple [PNone; PNone]) e')) ltac:(exact HW) ]
      end
  end; genv_split.
  - destruct (accumulate_inv _ _ _ _ _ _ _ EA) as (Hcat & Hlen & Hsome).
    destruct (Hsome buf eq_refl) as [Ebx Hz]. subst bx.
    apply (f_equal (@List.length _)) in Hcat. rewrite !app_length in Hcat.
    pose proof (length_slice_from_le buf (khdr_find K buf)) as Hsl.
    pose proof (length_slice_from_1 (slice_from buf (khdr_find K buf))) as Hsl1.
    pose proof (khdr_find_slice_nonempty buf) as Hne.
    esteps;
      lazymatch goal with
      | |- match while_loop _ _ _ _ _ ?k ?e2 with _ => _ end = _ =>
          refine (IH k _ _ e2 _ _ _ _ _);
            [ unfold Reasm_proofs.nbytes, zlen in *; lia | lia | lia | genv_solve | env_rw; reflexivity ]
      | |- _ => reflexivity
      end.
  - esteps. reflexivity.
Qed.

Lemma read_hdr_gfunc m p l : (kf <= S m)%nat -> (mfuel p l <= S m)%nat ->
  call_func program (S (S m)) CommHandler__read_hdr [gch cdc p l] [] =
  gemb_hdr_out (khdr_prev (mfuel p l) p l) (khdr_rest (mfuel p l) p l) (kread_hdr K (mfuel p l) p l).
Proof.
  intros Hm Hf.
  assert (Hm0 : (Reasm_proofs.nbytes p l < mfuel p l)%nat /\ (List.length l < mfuel p l)%nat)
    by (unfold Reasm_proofs.nbytes, mfuel; lia).
  destruct Hm0 as [Hm1 Hm2]. pystart. esteps.
  lazymatch goal with
  | |- ?L = _ =>
      let h := head_of L in
      transitivity (obs h); [ generalize h; intros r; destruct r as [[]| | | |]; reflexivity | ]
  end.
  apply hdr_gloop; [exact Hm | exact Hm1 | lia | lia | split; reflexivity | reflexivity].
Qed.

#[local] Hint Unfold gemb_hdr_out : greasm_model.

(** * _read_frame *)
(** the receiver when _read_frame raises, as [frame_raise_self] *)
Definition gframe_raise_self (p : bytes) (l : Reasm.link) : pv :=
  match kread_hdr K (mfuel p l) p l with
  | KHFound fid flen b l' =>
      gch cdc (khdr_prev (mfuel p l) p l) (snd (Reasm.fill (S (List.length l')) flen b l'))
  | _ => gch cdc (khdr_prev (mfuel p l) p l) (khdr_rest (mfuel p l) p l)
  end.

Definition gemb_frame_out (rs : pv) (o : kframe_out) : PyLite.res (pv * option pv) :=
  match o with
  | KFNone p l' => PyLite.Ok (PNone, Some (gch cdc p l'))
  | KFFrame fid payload p l' =>
      PyLite.Ok (frame_obj (enum_id fid) payload (perr_obj "NOERR" 0), Some (gch cdc p l'))
  | KFRaise w => ExcS w (self_st rs)
  | KFFuel => Fuel
  end.

Lemma read_frame_gfunc m p l : (kf <= S m)%nat -> (mfuel p l <= S m)%nat ->
  call_func program (S (S (S m))) CommHandler__read_frame [gch cdc p l] [] =
  gemb_frame_out (gframe_raise_self p l) (kread_frame K p l).
Proof.
  intros Hm Hf.
  pose proof (impl_frame_at (S (S m)) ltac:(lia)) as HR.
  pose proof (read_hdr_gfunc m p l Hm Hf) as HRH.
  pystart. rewrite kread_frame_unfold. unfold gframe_raise_self.
  pose proof (kread_hdr_inv (mfuel p l) p l) as [_ Hle];
    [unfold Reasm_proofs.nbytes, mfuel; lia|].
  assert (Hml : (List.length l < mfuel p l)%nat) by (unfold mfuel; lia).
  esteps; try reflexivity.
  lazymatch goal with
  | |- ?L = _ =>
      let h := head_of L in
      lazymatch h with
      | while_loop _ (call_func _ (S ?m')) ?lf _ _ ?k ?e1 =>
          let xs := eval cbv in v_fself in
          let xb := eval cbv in v_fbuf in
          let xh := eval cbv in v_fhdr in
          lazymatch e1 with
          | context [(xs, gch _ ?pp ?ll)] =>
          lazymatch e1 with
          | context [(xb, PBytes ?bb)] =>
          lazymatch e1 with
          | context [(xh, PObj "DParseHdr" [("fid", ?fidv); ("flen", PInt ?fl); ("err", ?er)])] =>
              destruct (fill_gloop m' lf fidv fl er ll k pp bb e1) as (e' & Hg' & HW & Hs' & Hb' & Hh');
                [lia | split; reflexivity | reflexivity | reflexivity | reflexivity |];
              names;
              pose proof (fill_inv (S (List.length ll)) fl bb ll) as Hfl;
              destruct (Reasm.fill (S (List.length ll)) fl bb ll) as [b2 l2] eqn:EF;
              cbn [fst snd] in Hs', Hb';
              fast_rw h (PyLite.Ok (ONorm e')) ltac:(exact HW)
          end end end
      end
  end; genv_split.
  esteps; reflexivity.
Qed.

#[local] Hint Unfold gemb_frame_out : greasm_model.

(** * The theorems: every fuel above an explicit bound *)

(** results of the method calls: value and receiver afterwards *)
Definition gemb_hdr_meth (pl : bytes) (o : khdr_out) : PyLite.res (pv * pv) :=
  match o with
  | KHNone p l' => PyLite.Ok (PTuple [PNone; PNone], gch cdc p l')
  | KHFound fid flen b l' =>
      PyLite.Ok (PTuple [hdr_obj (enum_id fid) flen (perr_obj "NOERR" 0); PBytes b], gch cdc pl l')
  | KHRaise w => Exc w
  | KHFuel => Fuel
  end.

Definition gemb_frame_meth (o : kframe_out) : PyLite.res (pv * pv) :=
  match o with
  | KFNone p l' => PyLite.Ok (PNone, gch cdc p l')
  | KFFrame fid payload p l' =>
      PyLite.Ok (frame_obj (enum_id fid) payload (perr_obj "NOERR" 0), gch cdc p l')
  | KFRaise w => Exc w
  | KFFuel => Fuel
  end.

(** The fuel: the interpreter of the body of _read_hdr gets one unit less than
    the call; that must cover the codec's constant [kf] (for its calls) and,
    INDEPENDENTLY, the measure (for the iterations of [while True]). *)
Theorem read_hdr_gspec fuel prev l :
  (S (Nat.max kf (S (measure prev l))) <= fuel)%nat ->
  call_method program fuel (gch cdc prev l) "_read_hdr" [] =
  gemb_hdr_meth (khdr_prev (S (measure prev l)) prev l) (kread_hdr K (S (measure prev l)) prev l).
Proof.
  intros Hf. rewrite <- !mfuel_measure.
  pose proof (read_hdr_gfunc (fuel - 2) prev l) as HRH.
  replace fuel with (S (S (fuel - 2))) by lia.
  replace (S (S (fuel - 2)) - 2)%nat with (fuel - 2)%nat in HRH by lia.
  specialize (HRH ltac:(lia) ltac:(rewrite mfuel_measure; lia)).
  pystart. pyrun.
Qed.

Theorem kread_hdr_model_fuel prev l : kread_hdr K (S (measure prev l)) prev l <> KHFuel.
Proof. apply kread_hdr_inv. unfold Reasm_proofs.nbytes, measure. lia. Qed.

Corollary read_hdr_gno_fuel fuel prev l :
  (S (Nat.max kf (S (measure prev l))) <= fuel)%nat ->
  call_method program fuel (gch cdc prev l) "_read_hdr" [] <> Fuel.
Proof.
  intros Hf. rewrite read_hdr_gspec by exact Hf.
  pose proof (kread_hdr_model_fuel prev l) as N.
  destruct (kread_hdr K (S (measure prev l)) prev l); cbn [gemb_hdr_meth]; congruence.
Qed.

Theorem read_frame_gspec fuel prev l :
  (S (S (Nat.max kf (S (measure prev l)))) <= fuel)%nat ->
  call_method program fuel (gch cdc prev l) "_read_frame" [] = gemb_frame_meth (kread_frame K prev l).
Proof.
  intros Hf.
  pose proof (read_frame_gfunc (fuel - 3) prev l) as HRF.
  replace fuel with (S (S (S (fuel - 3)))) by lia.
  replace (S (S (S (fuel - 3))) - 3)%nat with (fuel - 3)%nat in HRF by lia.
  specialize (HRF ltac:(lia) ltac:(rewrite mfuel_measure; lia)).
  pystart. pyrun.
Qed.

Theorem kread_frame_model_fuel prev l : kread_frame K prev l <> KFFuel.
Proof.
  rewrite kread_frame_unfold. pose proof (kread_hdr_model_fuel prev l) as N. rewrite <- mfuel_measure in N.
  destruct (kread_hdr K _ prev l) as [pp l'|fid flen b l'|w|]; try discriminate; [|congruence].
  destruct (Reasm.fill _ flen b l') as [b2 l2].
  destruct (zlen b2 <? flen); [discriminate|].
  destruct (k_frame_decode K _) as [[fid' pay]|er|w]; discriminate.
Qed.

Corollary read_frame_gno_fuel fuel prev l :
  (S (S (Nat.max kf (S (measure prev l)))) <= fuel)%nat ->
  call_method program fuel (gch cdc prev l) "_read_frame" [] <> Fuel.
Proof.
  intros Hf. rewrite read_frame_gspec by exact Hf.
  pose proof (kread_frame_model_fuel prev l) as N.
  destruct (kread_frame K prev l); cbn [gemb_frame_meth]; congruence.
Qed.

End Generic.

(** * The whole receive loop over the interpreted source, for any codec object

    The driver of proofs/Src_reasm_session.v with the handler [gch cdc]: it
    calls the interpreted [_read_frame] again and again on the receiver the
    previous call left behind and reads the results back ([decode_result]). *)
Fixpoint gsrc_recv_loop (cdc : pv) (F : nat) (fuel : nat) (prev : bytes) (l : Reasm.link)
         (acc : list (Z * bytes)) : option (list (Z * bytes) * bytes) :=
  match fuel with
  | O => None
  | S f =>
      match decode_result (call_method program F (gch cdc prev l) "_read_frame" []) with
      | Some (Some (fid, p), prev', l') => gsrc_recv_loop cdc F f prev' l' (acc ++ [(fid, p)])
      | Some (None, prev', l') =>
          match l with
          | [] => if Nat.eqb (List.length prev') (List.length prev) then Some (acc, prev')
                  else gsrc_recv_loop cdc F f prev' l' acc
          | _ => gsrc_recv_loop cdc F f prev' l' acc
          end
      | None => None
      end
  end.

Definition gsrc_recv_all (cdc : pv) (F : nat) (chunks : Reasm.link) : option (list (Z * bytes) * bytes) :=
  gsrc_recv_loop cdc F (2 * (List.length (List.concat chunks) + List.length chunks) + 4) [] chunks [].

Section GenericSession.
Variable cdc : pv.
Variable K : codec.
Variable kf : nat.
Hypothesis Himpl : implements cdc K kf.

(** A delivered frame carries an id the library knows.  Needed HERE only (the
    driver reads the id back from the [EParseId] member in the returned
    [DParseFrame]; [enum_id fid] is [None] for an id outside the enum, which a
    codec following the interface -- [EParseId(_id)] -- cannot produce: it
    raises [ValueError], i.e. its model says [Raise]).  The refinement
    theorems above do not need it: comm.py never looks at the id. *)
Hypothesis Hknown : forall d fid p, k_frame_decode K d = Frame.Ok (fid, p) -> Frame.known_id fid = true.

Lemma recv_state_gch p l : recv_state (gch cdc p l) = Some (p, l).
Proof. unfold gch, intf. cbn -[unchunks]. rewrite unchunks_map. reflexivity. Qed.

Lemma gdecode_result_none p l :
  decode_result (gemb_frame_meth cdc (KFNone p l)) = Some (None, p, l).
Proof. cbn [gemb_frame_meth decode_result frame_of]. rewrite recv_state_gch. reflexivity. Qed.

Lemma gdecode_result_frame fid pl p l :
  Frame.known_id fid = true ->
  decode_result (gemb_frame_meth cdc (KFFrame fid pl p l)) = Some (Some (fid, pl), p, l).
Proof.
  intros H. destruct (enum_id_known fid H) as [n E].
  cbn [gemb_frame_meth decode_result]. rewrite recv_state_gch, E. reflexivity.
Qed.

Lemma kread_hdr_nbytes : forall f p l,
  (Reasm_proofs.nbytes p l < f)%nat ->
  match kread_hdr K f p l with
  | KHNone p' l' | KHFound _ _ p' l' =>
      (Reasm_proofs.nbytes p' l' <= Reasm_proofs.nbytes p l)%nat /\ (List.length l' <= List.length l)%nat
  | _ => True
  end.
Proof.
  induction f as [|f IH]; intros p l Hf; [lia|].
  rewrite kread_hdr_S.
  destruct (Reasm.accumulate (S (List.length l)) (k_hdr_len K) p l) as [[[buf|] bx] l'] eqn:EA;
    destruct (accumulate_inv _ _ _ _ _ _ _ EA) as (Hcat & Hlen & Hsome);
    apply (f_equal (@List.length _)) in Hcat; rewrite !app_length in Hcat.
  2:{ unfold Reasm_proofs.nbytes. split; lia. }
  destruct (Hsome buf eq_refl) as [Ebx Hz]. subst bx.
  pose proof (length_slice_from_le buf (khdr_find K buf)) as Hsl.
  pose proof (length_slice_from_1 (slice_from buf (khdr_find K buf))) as Hsl1.
  pose proof (khdr_find_slice_nonempty K buf) as Hne.
  destruct (khdr_find K buf <? 0) eqn:E0;
    [unfold Reasm_proofs.nbytes; cbn [List.length]; split; lia|].
  cbv zeta.
  destruct (zlen (slice_from buf (khdr_find K buf)) <? k_hdr_len K) eqn:E1.
  - assert (Hp : (Reasm_proofs.nbytes (slice_from buf (khdr_find K buf)) l' < f)%nat)
      by (unfold Reasm_proofs.nbytes, zlen in *; lia).
    pose proof (IH _ l' Hp) as I.
    destruct (kread_hdr K f _ l'); try exact I;
      (destruct I as [I1 I2]; split; unfold Reasm_proofs.nbytes, zlen in *; lia).
  - destruct (k_hdr_decode K (slice_from buf (khdr_find K buf))) as [[fid flen]|er|w]; [| |exact I].
    + unfold Reasm_proofs.nbytes in *. split; lia.
    + assert (Hp : (Reasm_proofs.nbytes (slice_from (slice_from buf (khdr_find K buf)) 1) l' < f)%nat)
        by (unfold Reasm_proofs.nbytes, zlen in *; lia).
      pose proof (IH _ l' Hp) as I.
      destruct (kread_hdr K f _ l'); try exact I;
        (destruct I as [I1 I2]; split; unfold Reasm_proofs.nbytes, zlen in *; lia).
Qed.

(** the measure that bounds the interpreter's fuel never increases over a call,
    and a delivered frame carries a known id *)
Lemma kread_frame_measure prev l :
  match kread_frame K prev l with
  | KFNone p l' => (measure p l' <= measure prev l)%nat
  | KFFrame fid _ p l' => (measure p l' <= measure prev l)%nat /\ Frame.known_id fid = true
  | _ => True
  end.
Proof.
  rewrite kread_frame_unfold.
  pose proof (kread_hdr_nbytes (mfuel prev l) prev l) as Hh.
  destruct (kread_hdr K _ prev l) as [pp l'|fid flen b l'|w|]; try exact I.
  - destruct Hh as [H1 H2]; [unfold Reasm_proofs.nbytes, mfuel; lia|].
    unfold measure, Reasm_proofs.nbytes in *. lia.
  - destruct Hh as [H1 H2]; [unfold Reasm_proofs.nbytes, mfuel; lia|].
    destruct (Reasm.fill _ flen b l') as [b2 l2] eqn:EF.
    apply fill_cat in EF. destruct EF as [Hc Hl].
    apply (f_equal (@List.length _)) in Hc. rewrite !app_length in Hc.
    pose proof (length_slice_from_le b2 1) as S1.
    pose proof (length_slice_from_le b2 flen) as S2.
    destruct (zlen b2 <? flen); [unfold measure, Reasm_proofs.nbytes in *; lia|].
    destruct (k_frame_decode K _) as [[fid' pay]|er|w] eqn:ED; try exact I.
    + split; [unfold measure, Reasm_proofs.nbytes in *; lia|].
      eapply Hknown; eassumption.
    + unfold measure, Reasm_proofs.nbytes in *. lia.
Qed.

(** the driver over the interpreted source computes the generic model's loop *)
Lemma gsrc_recv_loop_eq F : forall fuel prev l acc,
  (S (S (Nat.max kf (S (measure prev l)))) <= F)%nat ->
  gsrc_recv_loop cdc F fuel prev l acc = krecv_loop K fuel prev l acc.
Proof.
  induction fuel as [|f IH]; intros prev l acc HF; [reflexivity|].
  cbn [gsrc_recv_loop Codec.krecv_loop].
  rewrite (read_frame_gspec cdc K kf Himpl) by exact HF.
  pose proof (kread_frame_measure prev l) as M.
  destruct (kread_frame K prev l) as [p l'|fid pl p l'|w|]; cbv beta iota in M.
  - rewrite gdecode_result_none.
    destruct l as [|c0 l0]; [destruct (Nat.eqb _ _); [reflexivity|]|]; apply IH; lia.
  - destruct M as [M Kn]. rewrite gdecode_result_frame by exact Kn. apply IH. lia.
  - reflexivity.
  - reflexivity.
Qed.

Theorem gsrc_recv_all_eq F chunks :
  (S (S (Nat.max kf (S (List.length (List.concat chunks) + List.length chunks)))) <= F)%nat ->
  gsrc_recv_all cdc F chunks = krecv_all K chunks.
Proof.
  intros HF. unfold gsrc_recv_all, Codec.krecv_all. apply gsrc_recv_loop_eq.
  unfold measure. cbn [List.length]. exact HF.
Qed.

(** the chunking theorem, about the source text, for every lawful codec: the
    frames the client delivers are those of ONE left-to-right scan of the
    received bytes, however the transport splits them into reads *)
Corollary gsrc_recv_all_scan F chunks :
  Codec_proofs.lawful2 K ->
  Reasm_proofs.wf_link chunks ->
  (S (S (Nat.max kf (S (List.length (List.concat chunks) + List.length chunks)))) <= F)%nat ->
  exists rest, gsrc_recv_all cdc F chunks = Some (fst (kscan K (List.concat chunks)), rest).
Proof.
  intros HK Hwf HF. rewrite gsrc_recv_all_eq by exact HF.
  apply Codec_proofs.krecv_all_scan; assumption.
Qed.

End GenericSession.

(** * Instantiation: the built-in codec object implements the built-in codec
    model (from the method specifications of proofs/Src_serialframe_proofs.v,
    in the keyword form of proofs/Src_reasm_proofs.v), with [kf := 3]
    ([frame_decode] calls [hdr_decode] calls the [hdr_len] property) *)
#[local] Hint Resolve hdr_find_kw_func hdr_decode_kw_func hdr_len_func frame_decode_func : pyspec.

Theorem sf_implements : implements sf serial_codec 3.
Proof.
  constructor; intros; cbn [Nat.add k_hdr_len k_hdr_decode k_frame_decode serial_codec].
  - exact (hdr_len_spec _).
  - change (khdr_find serial_codec d) with (Frame.hdr_find d). pyrun.
  - pyrun.
  - pyrun.
Qed.

(** the handler of Src_reasm_proofs.v is the generic one with [sf] *)
Lemma gch_sf p l : gch sf p l = ch p l.
Proof. reflexivity. Qed.

Lemma khdr_prev_serial : forall f p l, khdr_prev serial_codec f p l = hdr_prev f p l.
Proof.
  induction f as [|f IH]; intros p l; [reflexivity|].
  rewrite khdr_prev_S, hdr_prev_S.
  change (k_hdr_len serial_codec) with 4.
  change (k_hdr_decode serial_codec) with Frame.hdr_decode.
  destruct (Reasm.accumulate (S (List.length l)) 4 p l) as [[[b|] buf] l']; [|reflexivity].
  change (khdr_find serial_codec b) with (Frame.hdr_find b).
  destruct (Frame.hdr_find b <? 0); [reflexivity|]. cbv zeta.
  destruct (zlen (slice_from b (Frame.hdr_find b)) <? 4); [apply IH|].
  destruct (Frame.hdr_decode (slice_from b (Frame.hdr_find b))) as [[fid flen]|e|w];
    [reflexivity|apply IH|reflexivity].
Qed.

(** [read_hdr_spec] / [read_frame_spec] of Src_reasm_proofs.v are instances of
    the generic theorems: same statements, same fuel bounds *)
Theorem read_hdr_spec_from_generic fuel prev l :
  (4 + measure prev l <= fuel)%nat ->
  call_method program fuel (ch prev l) "_read_hdr" [] =
  emb_hdr_meth (hdr_prev (S (measure prev l)) prev l) (Reasm.read_hdr (S (measure prev l)) prev l).
Proof.
  intros Hf. rewrite <- gch_sf.
  rewrite (read_hdr_gspec sf serial_codec 3 sf_implements) by lia.
  rewrite <- Codec_proofs.kread_hdr_serial, khdr_prev_serial.
  destruct (kread_hdr serial_codec (S (measure prev l)) prev l); reflexivity.
Qed.

Theorem read_frame_spec_from_generic fuel prev l :
  (5 + measure prev l <= fuel)%nat ->
  call_method program fuel (ch prev l) "_read_frame" [] = emb_frame_meth (Reasm.read_frame prev l).
Proof.
  intros Hf. rewrite <- gch_sf.
  rewrite (read_frame_gspec sf serial_codec 3 sf_implements) by lia.
  rewrite <- Codec_proofs.kread_frame_serial.
  destruct (kread_frame serial_codec prev l); reflexivity.
Qed.

(** the session theorems of Src_reasm_session.v likewise *)
Lemma gsrc_recv_loop_sf F : forall fuel prev l acc,
  gsrc_recv_loop sf F fuel prev l acc = src_recv_loop F fuel prev l acc.
Proof.
  induction fuel as [|f IH]; intros prev l acc; [reflexivity|].
  cbn [gsrc_recv_loop src_recv_loop]. rewrite gch_sf.
  destruct (decode_result _) as [[[[[fid p]|] prev'] l']|]; [apply IH| |reflexivity].
  destruct l as [|c0 l0]; [|apply IH].
  destruct (Nat.eqb _ _); [reflexivity|apply IH].
Qed.

Lemma serial_known d fid p :
  k_frame_decode serial_codec d = Frame.Ok (fid, p) -> Frame.known_id fid = true.
Proof. apply frame_decode_known. Qed.

Theorem src_recv_all_eq_from_generic F chunks :
  (5 + List.length (List.concat chunks) + List.length chunks <= F)%nat ->
  src_recv_all F chunks = Reasm.recv_all chunks.
Proof.
  intros HF. unfold src_recv_all. rewrite <- gsrc_recv_loop_sf. fold (gsrc_recv_all sf F chunks).
  rewrite (gsrc_recv_all_eq sf serial_codec 3 sf_implements serial_known) by lia.
  apply Codec_proofs.krecv_all_serial.
Qed.

Corollary src_recv_all_scan_from_generic F chunks :
  Reasm_proofs.wf_link chunks ->
  (5 + List.length (List.concat chunks) + List.length chunks <= F)%nat ->
  exists rest, src_recv_all F chunks = Some (fst (Reasm.scan (List.concat chunks)), rest).
Proof.
  intros Hwf HF.
  destruct (gsrc_recv_all_scan sf serial_codec 3 sf_implements serial_known F chunks
              Codec_proofs.serial_lawful2 Hwf ltac:(lia)) as [rest R].
  exists rest. unfold src_recv_all. rewrite <- gsrc_recv_loop_sf. exact R.
Qed.

(** * Audit *)
Print Assumptions read_hdr_gspec.
Print Assumptions read_hdr_gno_fuel.
Print Assumptions read_frame_gspec.
Print Assumptions read_frame_gno_fuel.
Print Assumptions gsrc_recv_all_eq.
Print Assumptions gsrc_recv_all_scan.
Print Assumptions sf_implements.
Print Assumptions read_hdr_spec_from_generic.
Print Assumptions read_frame_spec_from_generic.
Print Assumptions src_recv_all_eq_from_generic.
Print Assumptions src_recv_all_scan_from_generic.

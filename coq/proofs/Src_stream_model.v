(** The fuelled iteration that the interpreted [frame_stream_decode] performs
    ([decode_result], proofs/Src_stream_proofs.v) against the hand model
    [Stream.stream_decode]: pure reasoning about slices, fuel and the order in
    which errors are met. *)
From Coq Require Import String Ascii List ZArith NArith Bool Lia ZifyBool ZifyNat ZifyN.
From NX Require Import Bytes PyStruct Utf8 Rn53 PyLite PyLite_tactics PyLite_while Src_all Src_serialframe_proofs.
From NX Require Frame Request Gen_types StreamTypes Stream.
From NX Require Import Bytes_proofs Src_stream_float Src_stream_utf8 Src_stream_vals Src_stream_proofs.
Import ListNotations.
Import StreamTypes.
Open Scope string_scope.
Open Scope list_scope.
Open Scope Z_scope.

(** * slices *)
Lemma clip_nonneg len i : 0 <= i -> clip_index len i = Nat.min (Z.to_nat i) len.
Proof.
  intros H. unfold clip_index. cbv zeta. replace (i <? 0) with false by lia. cbv iota.
  replace (i <? 0) with false by lia. destruct (Z.of_nat len <? i) eqn:E; lia.
Qed.

Lemma slice_from_skipn {A} (l : list A) i : 0 <= i -> slice_from l i = skipn (Z.to_nat i) l.
Proof.
  intros H. unfold slice_from. rewrite clip_nonneg by exact H.
  destruct (Nat.le_gt_cases (Z.to_nat i) (List.length l)) as [L|G].
  - rewrite Nat.min_l by exact L. reflexivity.
  - rewrite Nat.min_r by lia. rewrite !skipn_all2 by lia. reflexivity.
Qed.

Lemma skipn_add {A} (l : list A) : forall a b, skipn b (skipn a l) = skipn (a + b) l.
Proof.
  induction l as [|x t IH]; intros a b.
  - rewrite !skipn_nil. reflexivity.
  - destruct a; [reflexivity|]. cbn [skipn Nat.add]. apply IH.
Qed.

Lemma slice_from_add {A} (l : list A) a b :
  0 <= a -> 0 <= b -> slice_from (slice_from l a) b = slice_from l (a + b).
Proof.
  intros Ha Hb. rewrite !slice_from_skipn by lia. rewrite skipn_add. f_equal. lia.
Qed.

Lemma slice_from_cons (l : bytes) i :
  0 <= i < zlen l -> slice_from l i = nth (Z.to_nat i) l 0%N :: slice_from l (i + 1).
Proof.
  intros H. rewrite !slice_from_skipn by lia. unfold zlen in H.
  replace (Z.to_nat (i + 1)) with (S (Z.to_nat i)) by lia.
  assert (L : (Z.to_nat i < List.length l)%nat) by lia. clear H.
  revert L. generalize (Z.to_nat i). intros k. revert k. induction l as [|x t IH]; intros [|k] L; cbn [List.length] in L; try lia.
  - reflexivity.
  - cbn [skipn nth]. apply IH. lia.
Qed.

Lemma slice_from_nil {A} (l : list A) i : zlen l <= i -> slice_from l i = [].
Proof.
  intros H. pose proof (zlen_nonneg l). rewrite slice_from_skipn by lia. apply skipn_all2. unfold zlen in *. lia.
Qed.

Lemma slice_from_length {A} (l : list A) i :
  0 <= i -> List.length (slice_from l i) = (List.length l - Z.to_nat i)%nat.
Proof. intros H. rewrite slice_from_skipn by exact H. apply skipn_length. Qed.

Lemma pyslice_shift {A} (l : list A) a b :
  0 <= a -> 0 <= b -> pyslice (slice_from l a) 0 b = pyslice l a (a + b).
Proof.
  intros Ha Hb. rewrite slice_from_skipn by exact Ha. unfold pyslice.
  rewrite !clip_nonneg by lia. rewrite skipn_length.
  change (Z.to_nat 0) with 0%nat. rewrite Nat.min_0_l, Nat.sub_0_r. cbn [skipn].
  destruct (Nat.le_gt_cases (Z.to_nat a) (List.length l)) as [L|G].
  - rewrite (Nat.min_l (Z.to_nat a)) by exact L. f_equal. lia.
  - rewrite (Nat.min_r (Z.to_nat a)) by lia. rewrite !skipn_all2 by lia. rewrite !firstn_nil. reflexivity.
Qed.

(** * samples *)
Definition lay_of (cfgs : list chan_cfg) : Stream.layout := map chan_l_of cfgs.

Definition sample_pv (s : Stream.sample) : pv :=
  sample_obj (Stream.s_chan s) (Stream.s_kind s) (Stream.s_vdim s) (Stream.s_mlen s)
             (PTuple (map sval_pv (Stream.s_data s))) (PTuple (map sval_pv (Stream.s_meta s))).

Definition sample_lossy (s : Stream.sample) : bool := existsb is_lossy (Stream.s_data s).

Lemma nth_chan_map cfgs k :
  Stream.nth_chan (lay_of cfgs) k = option_map chan_l_of (nth_error cfgs k).
Proof. revert k. induction cfgs as [|c t IH]; intros [|k]; cbn; auto. Qed.

Definition lossy : PyLite.res (pv * Z) := Unsupported "lossy decode".

(** one iteration against [decode_one] *)
Definition one_rel (data : bytes) (i : Z) (m : Frame.res (Stream.sample * bytes)) (x : PyLite.res (pv * Z)) : Prop :=
  match m with
  | Frame.Ok (s, rest') =>
      if sample_lossy s then x = lossy
      else exists i', x = PyLite.Ok (sample_pv s, i') /\ rest' = slice_from data i' /\ i < i'
  | Frame.Raise w => x = Exc w \/ x = lossy
  | Frame.Err _ => False
  end.

Lemma stream_data_get_not_err rw vals e : Stream.stream_data_get rw vals <> Frame.Err e.
Proof.
  unfold Stream.stream_data_get.
  destruct (if r_kind rw =? _ then _ else None); [discriminate|].
  destruct (r_kind rw =? _); [|discriminate].
  destruct vals as [|[] [|]]; discriminate.
Qed.

Lemma one_sample_model cfgs data i :
  Forall cfg_ok cfgs -> 0 <= i < zlen data ->
  one_rel data i (Stream.decode_one (lay_of cfgs) [] (slice_from data i)) (one_sample cfgs data i).
Proof.
  intros F Hi. rewrite slice_from_cons by exact Hi.
  unfold Stream.decode_one, one_sample. rewrite nth_chan_map.
  destruct (nth_error cfgs _) as [cc|] eqn:Ecc; cbn [option_map]; [|left; reflexivity].
  destruct (cfg_ok_nth _ _ _ F Ecc) as [Hv Hm].
  rewrite dsfmt_get_model. cbn [Stream.l_type Stream.l_vdim Stream.l_mlen Stream.l_chan chan_l_of].
  destruct (Stream.zassoc _ _) as [rw|] eqn:Erow; cbn [Request.bind]; [|left; reflexivity].
  pose proof (slen_nonneg _ _ Erow) as Hs.
  assert (Hoff : 0 <= r_slen rw * cc_vdim cc) by nia.
  set (off := r_slen rw * cc_vdim cc) in *.
  (* the data format *)
  assert (Es : String.append Gen_types.stream_le_prefix
                 (String.append
                    (if negb (cc_vdim cc =? 0) && negb false then Stream.str_of_Z (cc_vdim cc) else "")
                    (r_fmt rw)) = row_sfmt rw (cc_vdim cc)).
  { unfold row_sfmt. rewrite andb_true_r. rewrite string_of_Z_str_of_Z by lia. reflexivity. }
  rewrite Es. unfold Stream.sfmt_parse.
  destruct (parse_fmt (row_sfmt rw (cc_vdim cc))) as [f|]; cbn [Request.bind]; [|left; reflexivity].
  rewrite pyslice_shift by lia.
  destruct (unpack f _) as [vals|]; [|left; reflexivity].
  rewrite Z.max_r by lia. rewrite slice_from_add by lia.
  (* the values *)
  pose proof (stream_data_get_not_err rw vals) as NE.
  destruct (Stream.stream_data_get rw vals) as [ret|e|w]; cbn [Request.bind emb_data];
    [ | destruct (NE e eq_refl) | left; reflexivity ].
  change (String.append Gen_types.meta_le_prefix (Stream.msfmt_get (cc_mlen cc)))
    with (String "<" (Stream.msfmt_get (cc_mlen cc))).
  rewrite pyslice_shift by lia. rewrite Z.max_r by lia. rewrite slice_from_add by lia.
  destruct (existsb is_lossy ret) eqn:EL; cbn [bind].
  - (* ill-formed text: the interpreter stops here, whatever the model goes on to *)
    destruct (parse_fmt _) as [fm|]; cbn [Request.bind]; [|right; reflexivity].
    destruct (unpack fm _); [|right; reflexivity].
    unfold one_rel, sample_lossy. cbn [Stream.s_data]. rewrite EL. reflexivity.
  - destruct (parse_fmt _) as [fm|]; cbn [Request.bind]; [|left; reflexivity].
    destruct (unpack fm _) as [mvals|]; [|left; reflexivity].
    unfold one_rel, sample_lossy. cbn [Stream.s_data]. rewrite EL.
    eexists. split; [|split; [reflexivity|lia]].
    unfold sample_pv. cbn [Stream.s_chan Stream.s_kind Stream.s_vdim Stream.s_mlen Stream.s_data Stream.s_meta].
    rewrite raw_pv. reflexivity.
Qed.

(** the model never answers [Err] (a parse error of the frame layer) *)
Lemma decode_one_not_err lay rest e : Stream.decode_one lay [] rest <> Frame.Err e.
Proof.
  unfold Stream.decode_one. destruct rest as [|chb r0]; [discriminate|].
  destruct (Stream.nth_chan lay _) as [ch|]; [|discriminate].
  rewrite dsfmt_get_model. destruct (Stream.zassoc _ _) as [rw|]; cbn [Request.bind]; [|discriminate].
  unfold Stream.sfmt_parse.
  destruct (parse_fmt _); cbn [Request.bind]; [|discriminate].
  destruct (unpack _ _); [|discriminate].
  pose proof (stream_data_get_not_err rw l) as NE.
  destruct (Stream.stream_data_get rw l) as [ret|e0|w]; cbn [Request.bind]; [|destruct (NE e0 eq_refl)|discriminate].
  destruct (parse_fmt _); cbn [Request.bind]; [|discriminate].
  destruct (unpack _ _); discriminate.
Qed.

Lemma decode_samples_not_err_aux f : forall lay rest e,
  Stream.decode_samples f lay [] rest = Frame.Err e -> False.
Proof.
  induction f as [|f IH]; intros lay rest e; cbn [Stream.decode_samples]; destruct rest as [|x t]; try discriminate.
  pose proof (decode_one_not_err lay (x :: t)) as NE.
  destruct (Stream.decode_one lay [] (x :: t)) as [[s r]|e'|w]; cbn [Request.bind]; [|destruct (NE e' eq_refl)|discriminate].
  destruct (Stream.decode_samples f lay [] r) eqn:E; cbn [Request.bind]; try discriminate.
  intros _. exact (IH _ _ _ E).
Qed.

(** * the loop against [decode_samples] *)
Definition lossy_loop : PyLite.res (Z * list pv) := Unsupported "lossy decode".

Definition loop_rel (acc : list pv) (m : Frame.res (list Stream.sample)) (x : PyLite.res (Z * list pv)) : Prop :=
  match m with
  | Frame.Ok ss =>
      if existsb sample_lossy ss then x = lossy_loop
      else exists i', x = PyLite.Ok (i', acc ++ map sample_pv ss)
  | Frame.Raise w => x = Exc w \/ x = lossy_loop
  | Frame.Err _ => False
  end.

Lemma while_model_S {A} (cond : A -> bool) (step : A -> PyLite.res A) k a :
  while_model cond step (S k) a =
  if cond a then do a' <- step a; while_model cond step k a' else PyLite.Ok a.
Proof. reflexivity. Qed.

Lemma while_done cfgs data k i acc :
  zlen data <= i ->
  while_model (loop_test data) (step_of cfgs data) (S k) (i, acc) = PyLite.Ok (i, acc).
Proof.
  intros H. rewrite while_model_S. unfold loop_test. cbn [fst].
  replace (i <? zlen data) with false by lia. reflexivity.
Qed.

Lemma while_step cfgs data k i acc :
  i < zlen data ->
  while_model (loop_test data) (step_of cfgs data) (S k) (i, acc) =
  do (s, i') <- one_sample cfgs data i;
  while_model (loop_test data) (step_of cfgs data) k (i', acc ++ [s]).
Proof.
  intros H. rewrite while_model_S. unfold loop_test at 1. cbn [fst].
  replace (i <? zlen data) with true by lia. unfold step_of at 1. cbn [fst snd].
  destruct (one_sample cfgs data i) as [[s i']| | | |]; reflexivity.
Qed.

Lemma samples_model cfgs data :
  Forall cfg_ok cfgs ->
  forall f i acc k,
    0 <= i -> (List.length (slice_from data i) <= f)%nat -> (Z.to_nat (zlen data - i) < k)%nat ->
    loop_rel acc (Stream.decode_samples f (lay_of cfgs) [] (slice_from data i))
             (while_model (loop_test data) (step_of cfgs data) k (i, acc)).
Proof.
  intros F. induction f as [|f IH]; intros i acc k Hi Hf Hk.
  - (* nothing left *)
    assert (E : slice_from data i = []) by (destruct (slice_from data i); [reflexivity|cbn in Hf; lia]).
    rewrite E. rewrite slice_from_length in Hf by exact Hi.
    destruct k as [|k]; [lia|]. rewrite while_done by (unfold zlen; lia).
    cbn. eexists. rewrite app_nil_r. reflexivity.
  - destruct (Z_lt_le_dec i (zlen data)) as [L|G].
    + (* a sample *)
      pose proof (one_sample_model cfgs data i F (conj Hi L)) as H1.
      destruct k as [|k]; [lia|]. rewrite while_step by exact L.
      assert (NE : slice_from data i <> []) by (rewrite slice_from_cons by lia; discriminate).
      destruct (slice_from data i) as [|x0 t0] eqn:Esl; [congruence|].
      cbn [Stream.decode_samples]. unfold one_rel in H1.
      destruct (Stream.decode_one _ _ _) as [[s rest']|e|w]; cbn [Request.bind].
      * destruct (sample_lossy s) eqn:EL.
        -- rewrite H1. cbn [bind lossy].
           destruct (Stream.decode_samples f _ _ rest') as [t|e|w] eqn:Et; cbn [Request.bind loop_rel].
           ++ cbn [existsb]. rewrite EL. reflexivity.
           ++ exact (decode_samples_not_err_aux _ _ _ _ Et).
           ++ right. reflexivity.
        -- destruct H1 as (i' & -> & -> & Hlt). cbn [bind].
           assert (Hf' : (List.length (slice_from data i') <= f)%nat).
           { assert (Hl : List.length (slice_from data i) = S (List.length t0)) by (rewrite Esl; reflexivity).
             rewrite slice_from_length in * by lia. unfold zlen in *. cbn [List.length] in Hf. lia. }
           specialize (IH i' (acc ++ [sample_pv s]) k ltac:(lia) Hf' ltac:(unfold zlen in *; lia)).
           unfold loop_rel in IH.
           destruct (Stream.decode_samples f _ _ _) as [t|e|w]; cbn [Request.bind loop_rel].
           ++ cbn [existsb]. rewrite EL. cbn [orb].
              destruct (existsb sample_lossy t); [exact IH|].
              destruct IH as (i'' & ->). exists i''. rewrite <- app_assoc. reflexivity.
           ++ exact IH.
           ++ exact IH.
      * destruct H1.
      * cbn [loop_rel]. destruct H1 as [->| ->]; [left|right]; reflexivity.
    + (* end of the data *)
      rewrite slice_from_nil by exact G. destruct k as [|k]; [lia|].
      rewrite while_done by exact G. cbn. eexists. rewrite app_nil_r. reflexivity.
Qed.

(** * frame_stream_decode against [Stream.stream_decode] *)
Definition lossy_call : PyLite.res (pv * pv) := Unsupported "lossy decode".

(** what the interpreter returns ([x]) where the model returns [m]:
    - no data: [None];
    - samples: the [DParseStream] object -- unless some CHAR sample is not
      valid UTF-8 (the model says [SVLossy], the source substitutes U+FFFD,
      the interpreter has no such decoder and stops, fail-closed);
    - an exception: the same exception -- unless ill-formed text was met
      before the point of failure. *)
Definition stream_rel (m : Frame.res (option (Z * list Stream.sample))) (x : PyLite.res (pv * pv)) : Prop :=
  match m with
  | Frame.Ok None => x = PyLite.Ok (PNone, parser)
  | Frame.Ok (Some (fl, ss)) =>
      if existsb sample_lossy ss then x = lossy_call
      else x = PyLite.Ok (stream_obj fl (map sample_pv ss), parser)
  | Frame.Raise w => x = Exc w \/ x = lossy_call
  | Frame.Err _ => False
  end.

Theorem frame_stream_decode_model n dd cfgs data :
  Forall cfg_ok cfgs -> (List.length data <= 2 + n)%nat ->
  stream_rel (Stream.stream_decode (lay_of cfgs) [] data)
             (call_method program (3 + n) parser "frame_stream_decode"
                          [stream_frame data; dev_obj dd cfgs]).
Proof.
  intros F Hn. rewrite frame_stream_decode_exact by exact F.
  unfold Stream.stream_decode, decode_result, decode_loop.
  destruct data as [|flags rest]; [reflexivity|].
  assert (Er : slice_from (flags :: rest) 1 = rest) by (rewrite slice_from_skipn by lia; reflexivity).
  pose proof (samples_model cfgs (flags :: rest) F (List.length rest) 1 [] (2 + n)) as H.
  rewrite Er in H. specialize (H ltac:(lia) (le_n _)).
  assert (Hk : (Z.to_nat (zlen (flags :: rest) - 1) < 2 + n)%nat)
    by (unfold zlen; cbn [List.length] in *; lia).
  specialize (H Hk). unfold loop_rel in H.
  destruct (Stream.decode_samples _ _ _ rest) as [ss|e|w]; cbn [Request.bind stream_rel].
  - destruct (existsb sample_lossy ss).
    + rewrite H. reflexivity.
    + destruct H as (i' & ->). reflexivity.
  - exact H.
  - destruct H as [->| ->]; [left|right]; reflexivity.
Qed.

(** the same, with the fuel in the form "a constant, plus the length of the
    data, plus anything" *)
Corollary frame_stream_decode_model_fuel n dd cfgs data :
  Forall cfg_ok cfgs ->
  stream_rel (Stream.stream_decode (lay_of cfgs) [] data)
             (call_method program (3 + List.length data + n) parser "frame_stream_decode"
                          [stream_frame data; dev_obj dd cfgs]).
Proof.
  intros F. replace (3 + List.length data + n)%nat with (3 + (List.length data + n))%nat by lia.
  apply frame_stream_decode_model; [exact F|lia].
Qed.

(** the cases spelled out *)
Corollary frame_stream_decode_ok n dd cfgs data fl ss :
  Forall cfg_ok cfgs ->
  Stream.stream_decode (lay_of cfgs) [] data = Frame.Ok (Some (fl, ss)) ->
  existsb sample_lossy ss = false ->
  call_method program (3 + List.length data + n) parser "frame_stream_decode"
              [stream_frame data; dev_obj dd cfgs] =
  PyLite.Ok (stream_obj fl (map sample_pv ss), parser).
Proof.
  intros F E L. pose proof (frame_stream_decode_model_fuel n dd cfgs data F) as H.
  rewrite E in H. cbn [stream_rel] in H. rewrite L in H. exact H.
Qed.

Corollary frame_stream_decode_none n dd cfgs data :
  Forall cfg_ok cfgs ->
  Stream.stream_decode (lay_of cfgs) [] data = Frame.Ok None ->
  call_method program (3 + List.length data + n) parser "frame_stream_decode"
              [stream_frame data; dev_obj dd cfgs] = PyLite.Ok (PNone, parser).
Proof.
  intros F E. pose proof (frame_stream_decode_model_fuel n dd cfgs data F) as H.
  rewrite E in H. exact H.
Qed.

Corollary frame_stream_decode_lossy n dd cfgs data fl ss :
  Forall cfg_ok cfgs ->
  Stream.stream_decode (lay_of cfgs) [] data = Frame.Ok (Some (fl, ss)) ->
  existsb sample_lossy ss = true ->
  call_method program (3 + List.length data + n) parser "frame_stream_decode"
              [stream_frame data; dev_obj dd cfgs] = Unsupported "lossy decode".
Proof.
  intros F E L. pose proof (frame_stream_decode_model_fuel n dd cfgs data F) as H.
  rewrite E in H. cbn [stream_rel] in H. rewrite L in H. exact H.
Qed.

(** * The differences between model and source, on concrete inputs *)

(** (1) outside [cfg_ok]: a negative [vdim].  The model renders it with
    [str_of_Z], which clamps at 0 ("<0B": an empty item), the source with
    [str] ("<-1B": not a format).  Unreachable: vdim is an unsigned byte of
    the channel-info frame. *)
Definition cfg_neg : chan_cfg := mkCfg 0 2 (-1) "" true 0 0.
Example neg_vdim_differs :
  Stream.stream_decode (lay_of [cfg_neg]) [] [0; 0]%N =
    Frame.Ok (Some (0, [Stream.mkSample 0 1 (-1) 0 [] []])) /\
  call_method program 10 parser "frame_stream_decode"
    [stream_frame [0; 0]%N; dev_obj PNone [cfg_neg]] = Exc "struct.error".
Proof. split; vm_compute; reflexivity. Qed.

(** (2) text that is not UTF-8 (a CHAR channel carrying the byte 0xFF): the
    source substitutes U+FFFD, the model records [SVLossy], the interpreter
    has no lossy decoder and stops *)
Definition cfg_char : chan_cfg := mkCfg 0 18 1 "" true 0 0.
Example lossy_text :
  Stream.stream_decode (lay_of [cfg_char]) [] [0; 0; 255]%N =
    Frame.Ok (Some (0, [Stream.mkSample 0 2 1 0 [Stream.SVLossy] []])) /\
  call_method program 10 parser "frame_stream_decode"
    [stream_frame [0; 0; 255]%N; dev_obj PNone [cfg_char]] = Unsupported "lossy decode".
Proof. split; vm_compute; reflexivity. Qed.

(** (3) ... and therefore stops before an error that comes later (here: a
    channel number that the device does not have) *)
Example lossy_then_error :
  Stream.stream_decode (lay_of [cfg_char]) [] [0; 0; 255; 5]%N = Frame.Raise "AssertionError" /\
  call_method program 10 parser "frame_stream_decode"
    [stream_frame [0; 0; 255; 5]%N; dev_obj PNone [cfg_char]] = Unsupported "lossy decode".
Proof. split; vm_compute; reflexivity. Qed.

(** a well-formed frame, for comparison: UINT8 x2 and valid text *)
Example ok_frame :
  call_method program 10 parser "frame_stream_decode"
    [stream_frame [0; 1; 104; 105; 0; 7; 9]%N;
     dev_obj PNone [mkCfg 0 2 2 "" true 0 0; mkCfg 1 18 2 "" true 0 0]] =
  PyLite.Ok (stream_obj 0
    [sample_obj 1 2 2 0 (PTuple [PStr "hi"]) (PTuple []);
     sample_obj 0 1 2 0 (PTuple [PInt 7; PInt 9]) (PTuple [])], parser).
Proof. vm_compute. reflexivity. Qed.

Print Assumptions frame_stream_decode_model.
Print Assumptions frame_stream_decode_model_fuel.
Print Assumptions frame_stream_decode_ok.

(** C15 end to end, specification side: the standard type table written out by
    hand, which encoder-side samples are representable ([sample_fits]), and what
    the client is expected to see for each of them ([decoded_of]) - written from
    the encoder-side values, not through the decoder. *)
From Coq Require Import Lia ZifyBool ZifyNat ZifyN String.
From NX Require Import Bytes PyStruct StructCanon Request Utf8 StreamTypes Rn53 Stream.
Open Scope string_scope.
Open Scope list_scope.
Open Scope Z_scope.

(** * the standard types, by hand (proto/iparse.py EParseDataType / dsfmt_dict) *)
Inductive tspec :=
  | TNone                       (* no data *)
  | TInt (c : code)             (* integer of struct code c *)
  | TFix (c : code) (k : Z)     (* fixed point: integer of code c, k fraction bits *)
  | TF32 | TF64                 (* IEEE single / double *)
  | TText.                      (* UTF-8 text in a field of vdim bytes *)

Definition std_table : list (Z * tspec) :=
  [(1, TNone);
   (2, TInt CB); (3, TInt Cb); (4, TInt CH); (5, TInt Ch);
   (6, TInt CI); (7, TInt Ci); (8, TInt CQ); (9, TInt Cq);
   (10, TF32); (11, TF64);
   (12, TFix CH 8); (13, TFix Ch 8); (14, TFix CI 16); (15, TFix Ci 16);
   (16, TFix CQ 32); (17, TFix Cq 32);
   (18, TText); (19, TText)].

Definition code_str (c : code) : string :=
  match c with
  | Cx => "x" | Cc => "c" | Cb => "b" | CB => "B" | Cbool => "?" | Ch => "h" | CH => "H"
  | Ci => "i" | CI => "I" | Cl => "l" | CL => "L" | Cq => "q" | CQ => "Q" | Cf => "f"
  | Cd => "d" | Cs => "s"
  end.

(** data kind reported to the client: NONE 0, NUM 1, CHAR 2 (COMPLEX 3 is for user types) *)
Definition spec_kind (sp : tspec) : Z :=
  match sp with TNone => 0 | TText => 2 | _ => 1 end.

(** bytes per element *)
Definition spec_size (sp : tspec) : Z :=
  match sp with
  | TNone => 0 | TInt c | TFix c _ => Z.of_nat (code_size c) | TF32 => 4 | TF64 => 8 | TText => 1
  end.

(** the row of the type table a standard type stands for (compared with the
    regenerated table in Stream_e2e_lemmas.gen_rows_are_std) *)
Definition spec_row (sp : tspec) : row :=
  match sp with
  | TNone => mkRow 0 "" SNone 0
  | TInt c => mkRow (Z.of_nat (code_size c)) (code_str c) (SInt 1) 1
  | TFix c k => mkRow (Z.of_nat (code_size c)) (code_str c) (SFloat (2 ^ k)) 1
  | TF32 => mkRow 4 "f" (SFloat 1) 1
  | TF64 => mkRow 8 "d" (SFloat 1) 1
  | TText => mkRow 1 "s" SNone 2
  end.

(** * representable values *)
Definition int_in (c : code) (z : Z) : bool :=
  if code_signed c then in_signed (code_size c) z else in_unsigned (code_size c) z.

(** the raw word of a fixed-point sample: value = raw / 2^k; an integer value z is z * 2^k / 2^k *)
Definition fix_raw (k : Z) (v : evalue) : option Z :=
  match v with
  | EVFix raw => Some raw
  | EVInt z => Some (z * 2 ^ k)
  | _ => None
  end.

Definition is_some {A} (o : option A) : bool := match o with Some _ => true | None => false end.

Definition vdim_ok (vdim : Z) (n : Z) : bool := (1 <=? vdim) && (vdim <=? 255) && (n =? vdim).

(** data of a standard type: [vdim] values, each representable.
    - integer types: integers in the range of the code;
    - fixed point: raw words in the range of the code - every multiple of 2^-k in
      range - that a Python float holds exactly (rn53 raw = raw: automatic for the 16- and
      32-bit types, a real restriction for the 64-bit ones, see
      [fix64_wide_refuted]);
    - float / double: a bit pattern of that width, or an integer that float() and
      the narrowing to the code accept (no overflow);
    - text: valid code points whose UTF-8 form fits in the vdim bytes of the field
      (anything after the first element of the data tuple is ignored by the encoder);
    - the data-less type: vdim 0, the data tuple is ignored. *)
Definition data_fits_std (sp : tspec) (vdim : Z) (d : list evalue) : bool :=
  match sp with
  | TNone => vdim =? 0
  | TInt c =>
      vdim_ok vdim (zlen d) &&
      forallb (fun v => match v with EVInt z => int_in c z | _ => false end) d
  | TFix c k =>
      vdim_ok vdim (zlen d) &&
      forallb (fun v => match fix_raw k v with
                        | Some raw => int_in c raw && (rn53 raw =? raw)
                        | None => false
                        end) d
  | TF32 =>
      vdim_ok vdim (zlen d) &&
      forallb (fun v => match v with
                        | EVF32 b => (b <? pow256 4)%N
                        | EVInt z => is_some (f32_bits (VInt z))
                        | _ => false
                        end) d
  | TF64 =>
      vdim_ok vdim (zlen d) &&
      forallb (fun v => match v with
                        | EVF64 b => (b <? pow256 8)%N
                        | EVInt z => is_some (f64_bits (VInt z))
                        | _ => false
                        end) d
  | TText =>
      (1 <=? vdim) && (vdim <=? 255) &&
      match d with
      | EVText cps :: _ => forallb valid_cp cps && (zlen (utf8_enc cps) <=? vdim)
      | _ => false
      end
  end.

(** what the client shows for them *)
Definition expected_std (sp : tspec) (vdim : Z) (d : list evalue) : list sval :=
  match sp with
  | TNone => []
  | TInt _ => map (fun v => match v with EVInt z => SVInt z | _ => SVUnmodelled end) d
  | TFix _ k =>
      map (fun v => match fix_raw k v with
                    | Some raw => let '(n, e) := dyad_norm raw k in SVDyad n e   (* raw / 2^k, exactly *)
                    | None => SVUnmodelled
                    end) d
  | TF32 =>
      map (fun v => match v with
                    | EVF32 b => SVF32 b
                    | EVInt z => match f32_bits (VInt z) with
                                 | Some b => SVF32 (Z.to_N b) | None => SVUnmodelled end
                    | _ => SVUnmodelled
                    end) d
  | TF64 =>
      map (fun v => match v with
                    | EVF64 b => SVF64 b
                    | EVInt z => match f64_bits (VInt z) with
                                 | Some b => SVF64 (Z.to_N b) | None => SVUnmodelled end
                    | _ => SVUnmodelled
                    end) d
  | TText =>
      match d with
      | EVText cps :: _ =>
          (* the field is vdim bytes: shorter text comes back followed by NULs *)
          [SVText (cps ++ repeat 0%N (Z.to_nat vdim - List.length (utf8_enc cps)))]
      | _ => []
      end
  end.

(** * user-defined types: one row (format, kind) per type value *)
Fixpoint map_opt {A B} (f : A -> option B) (l : list A) : option (list B) :=
  match l with
  | [] => Some []
  | x :: r => match f x, map_opt f r with
              | Some y, Some t => Some (y :: t)
              | _, _ => None
              end
  end.

Definition ev_plain (v : evalue) : option value :=
  match v with
  | EVInt z => Some (VInt z)
  | EVF32 b => Some (VF32 b)
  | EVF64 b => Some (VF64 b)
  | EVBytes b => Some (VBytes b)
  | _ => None
  end.

Definition ev_complex (v : evalue) : option value :=
  match v with
  | EVText cps => Some (VBytes (utf8_enc cps))
  | _ => ev_plain v
  end.

(** the struct values of a sample's data, by kind of the user row *)
Definition user_values (kind : Z) (d : list evalue) : option (list value) :=
  if kind =? 0 then Some []
  else if kind =? 1 then map_opt ev_plain d
  else if kind =? 2 then
    match d with
    | EVText cps :: _ => if forallb valid_cp cps then Some [VBytes (utf8_enc cps)] else None
    | _ => None
    end
  else if kind =? 3 then map_opt ev_complex d
  else None.

Fixpoint bytes_eqb (a b : bytes) : bool :=
  match a, b with
  | [], [] => true
  | x :: a', y :: b' => (x =? y)%N && bytes_eqb a' b'
  | _, _ => false
  end.

(** a text given to a (user) format: Some pad when the format stores all of it
    followed by pad NULs as its one value; None when it is cut or the format
    does not yield exactly one bytes value *)
Definition text_pad (its : list item) (u : bytes) : option nat :=
  match canon_items its [VBytes u] with
  | [VBytes b'] =>
      if bytes_eqb b' (u ++ repeat 0%N (List.length b' - List.length u))
      then Some (List.length b' - List.length u)%nat else None
  | _ => None
  end.

(** representable in a user row: the format is valid, its size is the vdim
    1..255, struct.pack accepts the values, and text is not cut *)
Definition data_fits_user (r : row) (vdim : Z) (d : list evalue) : bool :=
  (1 <=? vdim) && (vdim <=? 255) &&
  match parse_fmt ("<" ^^ r_fmt r) with
  | Some f =>
      (Z.of_nat (calcsize f) =? vdim) &&
      match user_values (r_kind r) d with
      | Some vs =>
          is_some (pack f vs) &&
          (if r_kind r =? 2
           then match d with
                | EVText cps :: _ => is_some (text_pad (fitems f) (utf8_enc cps))
                | _ => false
                end
           else true)
      | None => false
      end
  | None => false
  end.

Definition expected_user (r : row) (d : list evalue) : list sval :=
  match parse_fmt ("<" ^^ r_fmt r) with
  | Some f =>
      if r_kind r =? 2 then
        match d with
        | EVText cps :: _ =>
            match text_pad (fitems f) (utf8_enc cps) with
            | Some pad => [SVText (cps ++ repeat 0%N pad)]
            | None => []
            end
        | _ => []
        end
      else
        match user_values (r_kind r) d with
        | Some vs => map sval_raw (canon_items (fitems f) vs)     (* user types: by canon_items *)
        | None => []
        end
  | None => []
  end.

(** * metadata: mlen 1/2/4/8 is one unsigned integer of that many bytes, any other
    mlen is that many bytes; with mlen 0 the metadata tuple is ignored *)
Definition meta_single (mlen : Z) : bool := (mlen =? 1) || (mlen =? 2) || (mlen =? 4) || (mlen =? 8).

Definition meta_fits (mlen : Z) (m : list Z) : bool :=
  if mlen =? 0 then true
  else if meta_single mlen then
    match m with
    | [z] => in_unsigned (Z.to_nat mlen) z
    | _ => false
    end
  else (zlen m =? mlen) && forallb (fun z => in_unsigned 1 z) m.

Definition expected_meta (mlen : Z) (m : list Z) : list sval :=
  if mlen =? 0 then [] else map SVInt m.

(** * samples *)
Definition non_empty (s : esample) : bool := negb (is_nil (e_data s) && is_nil (e_meta s)).

Definition agrees (ch : chan_l) (s : esample) : bool :=
  (l_chan ch =? e_chan s) && (l_type ch =? e_type s) && (l_vdim ch =? e_vdim s) && (l_mlen ch =? e_mlen s).

Definition scale_is_none (sc : scale) : bool := match sc with SNone => true | _ => false end.

(** a sample that carries neither data nor metadata is left out whatever else
    it says; any other sample must agree with the layout entry of its channel
    (id, type, vdim, mlen), have a channel id 0..255 (so 0..254) inside the
    layout, mlen 0..255, representable metadata and representable data *)
Definition sample_fitsb (lay : layout) (user : utable) (s : esample) : bool :=
  negb (non_empty s) ||
  ((0 <=? e_chan s) && (e_chan s <=? 255) &&
   match nth_chan lay (Z.to_nat (e_chan s)) with
   | Some ch => agrees ch s
   | None => false
   end &&
   (0 <=? e_mlen s) && (e_mlen s <=? 255) && meta_fits (e_mlen s) (e_meta s) &&
   match zassoc (e_type s) std_table with
   | Some sp => data_fits_std sp (e_vdim s) (e_data s)
   | None =>
       match zassoc (e_type s) user with
       | Some (r, true) => (r_slen r =? 1) && scale_is_none (r_scale r) && data_fits_user r (e_vdim s) (e_data s)
       | _ => false
       end
   end).

Definition sample_fits (lay : layout) (user : utable) (s : esample) : Prop :=
  sample_fitsb lay user s = true.

(** the EXPECTED client-side sample *)
Definition decoded_of (user : utable) (s : esample) : sample :=
  let meta := expected_meta (e_mlen s) (e_meta s) in
  match zassoc (e_type s) std_table with
  | Some sp =>
      mkSample (e_chan s) (spec_kind sp) (e_vdim s) (e_mlen s)
               (expected_std sp (e_vdim s) (e_data s)) meta
  | None =>
      match zassoc (e_type s) user with
      | Some (r, _) =>
          mkSample (e_chan s) (r_kind r) (e_vdim s) (e_mlen s) (expected_user r (e_data s)) meta
      | None => mkSample (e_chan s) (-1) (e_vdim s) (e_mlen s) [] meta
      end
  end.

(** * size of the payload: flags byte + per sample channel byte, data, metadata.
    A frame holds at most 65529 payload bytes (16-bit length field). *)
Definition type_size (t : Z) : Z :=
  match zassoc t std_table with Some sp => spec_size sp | None => 1 end.

Definition sample_size (s : esample) : Z := 1 + type_size (e_type s) * e_vdim s + e_mlen s.

Definition payload_size (l : list esample) : Z :=
  1 + fold_right (fun s acc => (if non_empty s then sample_size s else 0) + acc) 0 l.

(** The device-side dispatcher: characterisation, acceptance (C02),
    invariance under trailing bytes and padding (C17). *)
From Coq Require Import Lia ZifyBool ZifyNat ZifyN String.
From NX Require Import Bytes PyStruct Crc Frame Wire Bytes_proofs Crc_proofs Frame_proofs.
From NX Require Gen_frame.
Ltac Zify.zify_post_hook ::= Z.to_euclidean_division_equations.
Open Scope Z_scope.

Definition no_sof (l : bytes) : Prop := forall x, In x l -> x <> 85%N.

Lemma hdr_find_skip pre l : no_sof pre ->
  hdr_find (pre ++ 85%N :: l) = zlen pre.
Proof.
  intros H. unfold hdr_find, sof_byte. change (Z.to_N Gen_frame.sof) with 85%N.
  rewrite find_byte_app_skip by exact H. rewrite find_byte_head. cbn [option_map].
  unfold zlen. lia.
Qed.

Lemma hdr_find_none l : no_sof l -> hdr_find l = -1.
Proof.
  intros H. unfold hdr_find, sof_byte. change (Z.to_N Gen_frame.sof) with 85%N.
  rewrite find_byte_none by exact H. reflexivity.
Qed.

(** dispatcher on a string whose first SOF starts a complete header *)
Lemma recv_dispatch_cons pre lo hi fid rest :
  no_sof pre ->
  wf_bytes (85%N :: lo :: hi :: fid :: rest) ->
  let d := 85%N :: lo :: hi :: fid :: rest in
  let flen := (lo + 256 * hi)%N in
  recv_dispatch (pre ++ d) =
    if (N.of_nat (length d) <? 6)%N then DNone
    else if negb (known_id (Z.of_N fid)) then DNone
    else if ((flen <? 6) || (N.of_nat (length d) <? flen))%N then DNone
    else if negb (crc_spec (firstn (N.to_nat flen) d) =? 0)%N then DNone
    else recv_cb_handle (Z.of_N fid) (firstn (N.to_nat flen - 6) rest).
Proof.
  intros Hpre Hwf d flen.
  pose proof Hwf as Hwf0. unfold wf_bytes in Hwf0.
  apply Forall_cons_iff in Hwf0 as [Hs Hwf0].
  apply Forall_cons_iff in Hwf0 as [Hlo Hwf0].
  apply Forall_cons_iff in Hwf0 as [Hhi Hwf0].
  apply Forall_cons_iff in Hwf0 as [Hfid Hwf0].
  unfold recv_dispatch. subst d.
  rewrite hdr_find_skip by exact Hpre.
  replace (zlen pre <? 0) with false by (unfold zlen; lia).
  rewrite slice_from_app by reflexivity.
  unfold hdr_len, foot_len. change Gen_frame.hdr_end with 4. change Gen_frame.foot with 2.
  set (d := 85%N :: lo :: hi :: fid :: rest).
  rewrite zlen_app.
  replace (zlen pre + zlen d - zlen pre <? 4 + 2) with (N.of_nat (length d) <? 6)%N
    by (unfold zlen; lia).
  destruct (N.of_nat (length d) <? 6)%N eqn:L6; [reflexivity|].
  unfold d at 1. rewrite hdr_decode_cons by assumption.
  cbn [N.eqb Pos.eqb negb].
  destruct (negb (known_id (Z.of_N fid))); [reflexivity|].
  fold flen.
  replace (Z.of_N flen <? 4 + 2) with (flen <? 6)%N by lia.
  replace (zlen d <? Z.of_N flen) with (N.of_nat (length d) <? flen)%N by (unfold zlen; lia).
  destruct (flen <? 6)%N eqn:G1; [reflexivity|].
  destruct (N.of_nat (length d) <? flen)%N eqn:G2; [reflexivity|].
  cbn [orb].
  unfold foot_validate. rewrite crc16_spec. change Gen_frame.crc_residue with 0.
  rewrite firstn_Zto by (unfold zlen; lia).
  replace (Z.to_nat (Z.of_N flen)) with (N.to_nat flen) by lia.
  replace (Z.of_N (crc_spec (firstn (N.to_nat flen) d)) =? 0)
    with (crc_spec (firstn (N.to_nat flen) d) =? 0)%N by lia.
  destruct (negb (crc_spec (firstn (N.to_nat flen) d) =? 0)%N); [reflexivity|].
  f_equal.
  unfold pyslice.
  rewrite (clip_index_in (length d) 4) by (unfold d; cbn [length]; lia).
  rewrite (clip_index_in (length d) (Z.of_N flen - 2)) by lia.
  change (Z.to_nat 4) with 4%nat. unfold d. cbn [skipn].
  f_equal. lia.
Qed.

(** no SOF at all: nothing happens *)
Lemma recv_dispatch_no_sof d : no_sof d -> recv_dispatch d = DNone.
Proof. intros H. unfold recv_dispatch. rewrite hdr_find_none by exact H. reflexivity. Qed.

(** SOF found but fewer than hdr+foot bytes from it: nothing happens *)
Lemma recv_dispatch_short pre l :
  no_sof pre -> zlen l < 5 -> recv_dispatch (pre ++ 85%N :: l) = DNone.
Proof.
  intros Hpre Hl. unfold recv_dispatch. rewrite hdr_find_skip by exact Hpre.
  replace (zlen pre <? 0) with false by (unfold zlen; lia).
  unfold hdr_len, foot_len. change Gen_frame.hdr_end with 4. change Gen_frame.foot with 2.
  rewrite zlen_app.
  replace (zlen pre + zlen (85%N :: l) - zlen pre <? 4 + 2) with true
    by (unfold zlen in *; cbn [length]; lia).
  reflexivity.
Qed.

(** ** C17: a frame followed by anything is dispatched like the frame alone;
    in particular trailing zero padding is invisible. *)
Theorem dispatch_frame_tail fid p tail :
  (fid < 256)%N -> wf_bytes p -> payload_fits p -> wf_bytes tail ->
  recv_dispatch (wire fid p ++ tail) = recv_dispatch (wire fid p).
Proof.
  intros Hf Hp Hfit Ht.
  pose proof (wire_crc_zero fid p) as Hcrc.
  pose proof (wire_length fid p) as Hlen.
  pose proof (wire_wf fid p Hf Hp Hfit) as Hwf.
  unfold payload_fits, zlen in Hfit.
  set (n := N.of_nat (length p)) in *.
  assert (Hshape : exists c1 c2, wire fid p =
            (85 :: (n + 6) mod 256 :: (n + 6) / 256 :: fid :: p ++ [c1; c2])%N).
  { unfold wire, wire_hdr. cbn [app]. eexists. eexists. reflexivity. }
  destruct Hshape as (c1 & c2 & Hshape).
  set (w := wire fid p) in *.
  assert (E : ((n + 6) mod 256 + 256 * ((n + 6) / 256) = n + 6)%N) by lia.
  (* right-hand side *)
  assert (R : recv_dispatch w =
              if negb (known_id (Z.of_N fid)) then DNone
              else recv_cb_handle (Z.of_N fid) p).
  { change w with ([] ++ w). rewrite Hshape.
    rewrite recv_dispatch_cons; [| intros x [] | rewrite <- Hshape; exact Hwf].
    rewrite <- Hshape. rewrite E, Hlen.
    replace (N.of_nat (length p + 6) <? 6)%N with false by lia.
    destruct (negb (known_id (Z.of_N fid))); [reflexivity|].
    replace ((n + 6 <? 6)%N || (N.of_nat (length p + 6) <? n + 6)%N) with false by lia.
    replace (N.to_nat (n + 6)) with (length w) by lia.
    rewrite firstn_all, Hcrc. cbn [N.eqb negb].
    replace (length w - 6)%nat with (length p) by lia.
    rewrite firstn_app, Nat.sub_diag, firstn_all. cbn [firstn]. now rewrite app_nil_r. }
  rewrite R.
  (* left-hand side *)
  change (w ++ tail) with ([] ++ (w ++ tail)).
  assert (Hshape2 : w ++ tail =
     (85 :: (n + 6) mod 256 :: (n + 6) / 256 :: fid :: (p ++ [c1; c2]) ++ tail)%N).
  { rewrite Hshape. reflexivity. }
  rewrite Hshape2.
  rewrite recv_dispatch_cons;
    [| intros x [] | rewrite <- Hshape2; apply wf_bytes_app; assumption].
  rewrite <- Hshape2. rewrite E, app_length, Hlen.
  replace (N.of_nat (length p + 6 + length tail) <? 6)%N with false by lia.
  destruct (negb (known_id (Z.of_N fid))); [reflexivity|].
  replace ((n + 6 <? 6)%N || (N.of_nat (length p + 6 + length tail) <? n + 6)%N)
    with false by lia.
  replace (N.to_nat (n + 6)) with (length w) by lia.
  rewrite firstn_app, Nat.sub_diag, firstn_all. cbn [firstn]. rewrite app_nil_r.
  rewrite Hcrc. cbn [N.eqb negb].
  replace (length w - 6)%nat with (length p) by lia.
  rewrite <- app_assoc.
  rewrite firstn_app, Nat.sub_diag, firstn_all. cbn [firstn]. now rewrite app_nil_r.
Qed.

Lemma no_sof_repeat0 k : no_sof (repeat 0%N k).
Proof. intros x Hx. apply repeat_spec in Hx. subst. discriminate. Qed.

Theorem dispatch_padding_only k : recv_dispatch (repeat 0%N k) = DNone.
Proof. apply recv_dispatch_no_sof, no_sof_repeat0. Qed.

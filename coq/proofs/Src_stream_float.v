(** Pure arithmetic behind [x / 2^k.0] in the PyLite interpreter: the float
    produced by [binop_float ODiv] on an integer and a power-of-two float is
    the normalised dyadic [dyad_norm (rn53 x) k] of the stream model. *)
From Coq Require Import String List ZArith NArith Bool Lia ZifyBool.
From NX Require Import Rn53 PyLite.
Open Scope Z_scope.

(** * dyad_norm_fuel *)
Lemma dnf_zero f e : f <> O -> dyad_norm_fuel f 0 e = (0, 0).
Proof. destruct f; [congruence | reflexivity]. Qed.

Lemma even_half_nz n : n <> 0 -> Z.even n = true -> n / 2 <> 0 /\ n = 2 * (n / 2).
Proof.
  intros N E. apply Z.even_spec in E. destruct E as [q ->].
  rewrite Z.mul_comm, Z.div_mul by lia. lia.
Qed.

Lemma dnf_shift f : forall n e k, n <> 0 ->
  dyad_norm_fuel f n (e + k) = (fst (dyad_norm_fuel f n e), snd (dyad_norm_fuel f n e) + k).
Proof.
  induction f as [|f IH]; intros n e k N; cbn [dyad_norm_fuel]; [reflexivity|].
  replace (n =? 0) with false by lia.
  destruct (Z.even n) eqn:E; [|reflexivity].
  destruct (even_half_nz n N E) as [H _].
  replace (e + k - 1) with (e - 1 + k) by lia. apply IH, H.
Qed.

Lemma dnf_odd_fix f n e : f <> O -> Z.odd n = true -> dyad_norm_fuel f n e = (n, e).
Proof.
  intros F O. destruct f; [congruence|]. cbn [dyad_norm_fuel].
  assert (n <> 0) by (intros ->; discriminate).
  replace (n =? 0) with false by lia.
  rewrite <- Z.negb_odd, O. reflexivity.
Qed.

Lemma dnf_odd f : forall n e, n <> 0 -> Z.abs n < 2 ^ Z.of_nat f ->
  Z.odd (fst (dyad_norm_fuel f n e)) = true.
Proof.
  induction f as [|f IH]; intros n e N B.
  - cbn in B. lia.
  - cbn [dyad_norm_fuel]. replace (n =? 0) with false by lia.
    destruct (Z.even n) eqn:E.
    + destruct (even_half_nz n N E) as [H H2]. apply IH; [exact H|].
      rewrite Nat2Z.inj_succ, Z.pow_succ_r in B by lia. lia.
    + cbn [fst]. rewrite <- Z.negb_even, E. reflexivity.
Qed.

(** the quantity [log2 |n| - e] (the binary exponent of the value) is preserved *)
Lemma dnf_exponent f : forall n e, n <> 0 ->
  fst (dyad_norm_fuel f n e) <> 0 /\
  Z.log2 (Z.abs (fst (dyad_norm_fuel f n e))) - snd (dyad_norm_fuel f n e) = Z.log2 (Z.abs n) - e.
Proof.
  induction f as [|f IH]; intros n e N; cbn [dyad_norm_fuel]; [cbn [fst snd]; lia|].
  replace (n =? 0) with false by lia.
  destruct (Z.even n) eqn:E; [|cbn [fst snd]; lia].
  destruct (even_half_nz n N E) as [H H2].
  destruct (IH (n / 2) (e - 1) H) as [I1 I2]. split; [exact I1|].
  rewrite I2. rewrite H2 at 2. rewrite Z.abs_mul. change (Z.abs 2) with 2.
  rewrite Z.log2_double by lia. lia.
Qed.

(** the numerator of the normal form divides: n = n' * 2^t *)
Lemma dnf_factor f : forall n e, n <> 0 ->
  exists t, 0 <= t /\ n = fst (dyad_norm_fuel f n e) * 2 ^ t.
Proof.
  induction f as [|f IH]; intros n e N; cbn [dyad_norm_fuel].
  - exists 0. cbn [fst]. lia.
  - replace (n =? 0) with false by lia.
    destruct (Z.even n) eqn:E.
    + destruct (even_half_nz n N E) as [H H2].
      destruct (IH (n / 2) (e - 1) H) as (t & T0 & T1).
      exists (Z.succ t). split; [lia|]. rewrite Z.pow_succ_r by lia.
      rewrite H2 at 1. rewrite T1 at 1. ring.
    + exists 0. cbn [fst]. lia.
Qed.

(** * numbers with at most 53 significant bits *)
Definition bits53 (n : Z) : Prop := exists m s, 0 <= s /\ n = m * 2 ^ s /\ Z.abs m < 2 ^ 53.

Lemma odd_part_bits53 n a t :
  bits53 n -> 0 <= t -> n = a * 2 ^ t -> Z.odd a = true -> Z.abs a < 2 ^ 53.
Proof.
  intros (m & s & S0 & -> & M) T E O.
  destruct (Z_le_gt_dec s t) as [L|G].
  - (* m = a * 2^(t-s) *)
    replace t with ((t - s) + s) in E by lia. rewrite Z.pow_add_r in E by lia.
    rewrite Z.mul_assoc in E. apply Z.mul_cancel_r in E; [|apply Z.pow_nonzero; lia].
    subst m. rewrite Z.abs_mul in M.
    assert (1 <= Z.abs (2 ^ (t - s))) by (rewrite Z.abs_eq by (apply Z.pow_nonneg; lia);
                                          pose proof (Z.pow_pos_nonneg 2 (t - s)); lia).
    nia.
  - (* a = m * 2^(s-t): even *)
    exfalso. replace s with ((s - t) + t) in E by lia. rewrite Z.pow_add_r in E by lia.
    rewrite Z.mul_assoc in E. apply Z.mul_cancel_r in E; [|apply Z.pow_nonzero; lia].
    subst a. replace (s - t) with (Z.succ (s - t - 1)) in O by lia.
    rewrite Z.pow_succ_r in O by lia.
    replace (m * (2 * 2 ^ (s - t - 1))) with (2 * (m * 2 ^ (s - t - 1))) in O by ring.
    rewrite Z.odd_mul in O. discriminate.
Qed.

Lemma log2_lt_53 a : a <> 0 -> Z.abs a < 2 ^ 53 -> Z.log2 (Z.abs a) + 1 <= 53.
Proof. intros N B. assert (Z.log2 (Z.abs a) < 53) by (apply Z.log2_lt_pow2; lia). lia. Qed.

(** * rn53 *)
Lemma rn53_pos_spec z : 0 < z ->
  bits53 (rn53_pos z) /\ 0 < rn53_pos z <= 2 ^ (Z.log2 z + 1).
Proof.
  intros Z0. unfold rn53_pos. cbv zeta.
  pose proof (Z.log2_spec z Z0) as [L1 L2]. pose proof (Z.log2_nonneg z) as L0.
  destruct (Z.log2 z + 1 <=? 53) eqn:E.
  - split; [|rewrite <- Z.add_1_r in L2; lia].
    exists z, 0. split; [lia|]. split; [cbn; lia|].
    rewrite Z.abs_eq by lia. eapply Z.lt_le_trans; [exact L2|].
    apply Z.pow_le_mono_r; lia.
  - set (sh := Z.log2 z + 1 - 53). assert (SH : 0 < sh) by lia.
    set (q := Z.shiftr z sh).
    assert (Q : 2 ^ 52 <= q < 2 ^ 53).
    { unfold q. rewrite Z.shiftr_div_pow2 by lia.
      assert (P : 0 < 2 ^ sh) by (apply Z.pow_pos_nonneg; lia).
      split.
      - apply Z.div_le_lower_bound; [lia|]. rewrite <- Z.pow_add_r by lia.
        replace (sh + 52) with (Z.log2 z) by lia. exact L1.
      - apply Z.div_lt_upper_bound; [lia|]. rewrite <- Z.pow_add_r by lia.
        replace (sh + 53) with (Z.succ (Z.log2 z)) by lia. exact L2. }
    match goal with |- context [if ?c then q + 1 else q] => set (q' := if c then q + 1 else q) end.
    assert (Q' : 2 ^ 52 <= q' <= 2 ^ 53) by (unfold q'; match goal with |- context [if ?c then _ else _] => destruct c end; lia).
    rewrite Z.shiftl_mul_pow2 by lia.
    assert (P : 0 < 2 ^ sh) by (apply Z.pow_pos_nonneg; lia).
    split.
    + destruct (Z.eq_dec q' (2 ^ 53)) as [->|NE].
      * exists (2 ^ 52), (sh + 1). split; [lia|]. split; [|cbn; lia].
        rewrite Z.pow_add_r by lia. change (2 ^ 53) with (2 ^ 52 * 2 ^ 1). ring.
      * exists q', sh. split; [lia|]. split; [reflexivity|]. rewrite Z.abs_eq; lia.
    + split; [nia|].
      replace (Z.log2 z + 1) with (53 + sh) by lia. rewrite Z.pow_add_r by lia.
      apply Z.mul_le_mono_nonneg_r; lia.
Qed.

Lemma bits53_opp n : bits53 n -> bits53 (- n).
Proof.
  intros (m & s & S0 & -> & M). exists (- m), s. split; [lia|]. split; [ring|]. rewrite Z.abs_opp. exact M.
Qed.

Lemma rn53_spec x : x <> 0 ->
  bits53 (rn53 x) /\ rn53 x <> 0 /\ Z.abs (rn53 x) <= 2 ^ (Z.log2 (Z.abs x) + 1).
Proof.
  intros N. unfold rn53. replace (x =? 0) with false by lia.
  destruct (0 <? x) eqn:E.
  - destruct (rn53_pos_spec x ltac:(lia)) as [B R]. rewrite (Z.abs_eq x) by lia.
    split; [exact B|]. split; [lia|]. rewrite Z.abs_eq; lia.
  - destruct (rn53_pos_spec (- x) ltac:(lia)) as [B R].
    replace (Z.abs x) with (- x) by lia.
    split; [apply bits53_opp, B|]. split; [lia|]. rewrite Z.abs_opp, Z.abs_eq; lia.
Qed.

Lemma rn53_0 : rn53 0 = 0. Proof. reflexivity. Qed.

(** * the interpreter's float of an integer, and its quotient by 2^k *)
Lemma fits_double_intro a b :
  a <> 0 -> Z.log2 (Z.abs a) + 1 <= 53 -> -1022 <= Z.log2 (Z.abs a) - b <= 1023 ->
  fits_double a b = true.
Proof. intros N B R. unfold fits_double. lia. Qed.

(** the normal form of [rn53 x] *)
Lemma rn53_norm x : x <> 0 -> Z.abs x < 2 ^ 64 ->
  let a := fst (dyad_norm (rn53 x) 0) in
  let b := snd (dyad_norm (rn53 x) 0) in
  Z.odd a = true /\ a <> 0 /\ Z.log2 (Z.abs a) + 1 <= 53 /\ 0 <= Z.log2 (Z.abs a) - b <= 64.
Proof.
  intros N B. destruct (rn53_spec x N) as (B53 & RN & RB).
  assert (L64 : Z.log2 (Z.abs x) < 64) by (apply Z.log2_lt_pow2; lia).
  assert (RB' : Z.abs (rn53 x) <= 2 ^ 64).
  { eapply Z.le_trans; [exact RB|]. apply Z.pow_le_mono_r; lia. }
  unfold dyad_norm. cbv zeta.
  destruct (dnf_exponent 200 (rn53 x) 0 RN) as [A0 AE].
  destruct (dnf_factor 200 (rn53 x) 0 RN) as (t & T0 & TE).
  assert (OD : Z.odd (fst (dyad_norm_fuel 200 (rn53 x) 0)) = true).
  { apply dnf_odd; [exact RN|]. eapply Z.le_lt_trans; [exact RB'|]. reflexivity. }
  split; [exact OD|]. split; [exact A0|].
  split.
  - apply log2_lt_53; [exact A0|]. eapply odd_part_bits53; eassumption.
  - rewrite AE. pose proof (Z.log2_nonneg (Z.abs (rn53 x))).
    assert (Z.log2 (Z.abs (rn53 x)) <= 64).
    { destruct (Z.eq_dec (Z.abs (rn53 x)) (2 ^ 64)) as [->|NE]; [reflexivity|].
      assert (Z.log2 (Z.abs (rn53 x)) < 64) by (apply Z.log2_lt_pow2; lia). lia. }
    lia.
Qed.

Definition small_int (z : Z) : Prop := Z.abs z < 2 ^ 64.

(** [x / s] for an integer [x] and the float [s = 2^k] *)
Theorem div_pow2_float x k :
  small_int x -> 0 <= k <= 1022 ->
  binop_float ODiv x 0 1 (- k) false true =
  PyLite.Ok (let '(n, e) := dyad_norm (rn53 x) k in PDy n e).
Proof.
  intros B K. unfold binop_float, float_of_int, mk_float.
  destruct (Z.eq_dec x 0) as [->|N].
  - rewrite rn53_0. unfold dyad_norm. rewrite !dnf_zero by discriminate. reflexivity.
  - destruct (rn53_norm x N B) as (OD & A0 & L53 & EX). cbv zeta in *.
    destruct (dyad_norm (rn53 x) 0) as [a b] eqn:E. cbn [fst snd] in *.
    rewrite (fits_double_intro a b) by lia.
    change (1 =? 0) with false. change (Z.abs 1 =? 1) with true. cbv iota.
    rewrite Z.mul_1_r. replace (b - - k) with (b + k) by lia.
    unfold dyad_norm. rewrite (dnf_odd_fix 200 a (b + k)) by (congruence || exact OD).
    rewrite (fits_double_intro a (b + k)) by lia.
    replace k with (0 + k) at 2 by lia.
    destruct (rn53_spec x N) as (_ & RN & _).
    rewrite dnf_shift by exact RN. unfold dyad_norm in E. rewrite E. reflexivity.
Qed.

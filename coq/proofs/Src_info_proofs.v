(** The interpreted source of the device description codecs -- the client-side
    decoders of nxslib.proto.parse.Parser (frame_cmninfo_decode,
    frame_chinfo_decode, frame_ack_decode, frame_is_ack, frame_is_stream) and the
    device-side encoders of nxslib.proto.parserecv.ParseRecv
    (frame_cmninfo_encode, frame_chinfo_encode, frame_ack_encode), i.e. the ASTs
    of gen/Src_parse.v / gen/Src_parserecv.v / gen/Src_dev.v run by the PyLite
    interpreter -- computes the hand-written model of model/Info.v, for ALL
    inputs and all fuel above a constant.

    Every proof is a run of the generic symbolic executor of
    py/PyLite_tactics.v ([pystart], [pyrun]); the hooks below only tell it
    which library lemma rewrites a stuck data primitive (enum comparison,
    f-string struct format, bytes.decode / str.split). *)
From Coq Require Import String Ascii List ZArith NArith Bool Lia ZifyBool.
From NX Require Import Bytes PyStruct Crc Utf8 PyLite PyLite_tactics
  Src_iframe Src_serialframe Src_dev Src_iparse Src_parse Src_parserecv Src_all
  Src_serialframe_proofs Src_info_lemmas.
From NX Require Frame Request Info Gen_frame Gen_req.
Import ListNotations.
Open Scope string_scope.
Open Scope Z_scope.

Definition pa : pv := PObj "Parser" [("_frame", sf); ("_user_types", PNone)].
Definition pr (cbv : pv) : pv :=
  PObj "ParseRecv" [("_recv_cb", cbv); ("_frame", sf); ("_user_types", PNone)].

Definition cmninfo_obj (t : Z * Z * Z) : pv :=
  let '(a, b, c) := t in
  PObj "ParseCmninfo" [("chmax", PInt a); ("flags", PInt b); ("rxpadding", PInt c)].
Definition ack_obj (t : bool * Z) : pv :=
  PObj "ParseAck" [("state", PBool (fst t)); ("retcode", PInt (snd t))].

Definition emb_opt {A} (f : A -> pv) (self : pv) (r : Frame.res (option A)) : PyLite.res (pv * pv) :=
  match r with
  | Frame.Ok None => PyLite.Ok (PNone, self)
  | Frame.Ok (Some a) => PyLite.Ok (f a, self)
  | Frame.Raise w => Exc w
  | Frame.Err _ => Unsupported "Err"
  end.

#[local] Hint Unfold
  Frame.hdr_len Frame.foot_len Frame.sof_byte Frame.crc16 Frame.crc_p
  Gen_frame.sof Gen_frame.hdr_end Gen_frame.foot Gen_frame.parse_ids
  Gen_frame.crc_poly Gen_frame.crc_init Gen_frame.crc_rev Gen_frame.crc_xorout
  Gen_frame.hdr_decode_fmt Gen_frame.crc_residue Gen_frame.decode_foot_off
  Gen_frame.create_fid_max Gen_frame.create_len_base Gen_frame.create_hdr_fmt
  Gen_frame.create_foot_fmt
  Gen_req.cmninfo_fmt Gen_req.chinfo_enc_prefix Gen_req.chinfo_enc_suffix Gen_req.ack_fmt
  Gen_req.cmninfo_dec_len Gen_req.cmninfo_dec_fmt Gen_req.chinfo_dec_hdr
  Gen_req.chinfo_dec_prefix Gen_req.chinfo_dec_suffix Gen_req.ack_dec_fmt
  Request.spack Request.sunpack Request.bind Frame.id_of
  perr_obj frame_obj pa pr cmninfo_obj ack_obj emb_opt : info_model.

#[local] Arguments enum_id : simpl never.
#[local] Arguments Frame.frame_create : simpl never.
#[local] Arguments Info.frame_cmninfo_decode : simpl never.
#[local] Arguments Info.frame_ack_decode : simpl never.

Lemma py_eq_enum_id fid nm k :
  Frame.known_id k = true ->
  py_eq (enum_id fid) (PEnum "EParseId" nm k true) = Some (fid =? k).
Proof.
  intros Hk. unfold enum_id.
  destruct (enum_by_value Gen_frame.parse_ids fid) eqn:E; cbn.
  - reflexivity.
  - destruct (fid =? k) eqn:F; [|reflexivity].
    apply Z.eqb_eq in F. subst k. rewrite known_id_enum, E in Hk. discriminate.
Qed.

Ltac py_stuck_hook h ::=
  lazymatch h with
  | py_eq (enum_id _) (PEnum "EParseId" _ _ true) => rewrite py_eq_enum_id by reflexivity
  | norm_index ?a ?b => is_nat_lit a; is_Z_lit b; pyfold2 norm_index a b
  | context [nth ?k (_ :: _) _] => is_nat_lit k; progress cbn [nth]
  end.
Ltac py_unfold_hook ::= autounfold with info_model.

(** * Parser: frame_cmninfo_decode, frame_ack_decode, frame_is_ack, frame_is_stream *)
Lemma cmninfo_decode_func n fid data :
  call_func program (S n) Parser_frame_cmninfo_decode
    [pa; frame_obj (enum_id fid) data (perr_obj "NOERR" 0)] [] =
  do r <- attach (self_st pa) (emb_opt cmninfo_obj pa (Info.frame_cmninfo_decode fid data));
  PyLite.Ok (fst r, Some (snd r)).
Proof. pystart. unfold Info.frame_cmninfo_decode. pyrun. Qed.

Lemma cmninfo_decode_func_None n :
  call_func program (S n) Parser_frame_cmninfo_decode [pa; PNone] [] = PyLite.Ok (PNone, Some pa).
Proof. pystart. pyrun. Qed.

Lemma ack_decode_func n fid data :
  call_func program (S n) Parser_frame_ack_decode
    [pa; frame_obj (enum_id fid) data (perr_obj "NOERR" 0)] [] =
  do r <- attach (self_st pa) (emb_opt ack_obj pa (Info.frame_ack_decode fid data));
  PyLite.Ok (fst r, Some (snd r)).
Proof. pystart. unfold Info.frame_ack_decode. pyrun. Qed.

Lemma ack_decode_func_None n :
  call_func program (S n) Parser_frame_ack_decode [pa; PNone] [] = PyLite.Ok (PNone, Some pa).
Proof. pystart. pyrun. Qed.

Lemma is_ack_func n fid data :
  call_func program (S n) Parser_frame_is_ack
    [pa; frame_obj (enum_id fid) data (perr_obj "NOERR" 0)] [] =
  PyLite.Ok (PBool (fid =? Frame.id_of "ACK"), Some pa).
Proof. pystart. pyrun. Qed.

Lemma is_stream_func n fid data :
  call_func program (S n) Parser_frame_is_stream
    [pa; frame_obj (enum_id fid) data (perr_obj "NOERR" 0)] [] =
  PyLite.Ok (PBool (fid =? Frame.id_of "STREAM"), Some pa).
Proof. pystart. pyrun. Qed.

#[local] Hint Resolve cmninfo_decode_func cmninfo_decode_func_None ack_decode_func ack_decode_func_None
  is_ack_func is_stream_func : pyspec.

Theorem frame_cmninfo_decode_spec n fid data :
  call_method program (1 + n) pa "frame_cmninfo_decode" [frame_obj (enum_id fid) data (perr_obj "NOERR" 0)] =
  emb_opt cmninfo_obj pa (Info.frame_cmninfo_decode fid data).
Proof. pystart. pyrun. Qed.

Theorem frame_cmninfo_decode_None_spec n :
  call_method program (1 + n) pa "frame_cmninfo_decode" [PNone] = PyLite.Ok (PNone, pa).
Proof. pystart. pyrun. Qed.

Theorem frame_ack_decode_spec n fid data :
  call_method program (1 + n) pa "frame_ack_decode" [frame_obj (enum_id fid) data (perr_obj "NOERR" 0)] =
  emb_opt ack_obj pa (Info.frame_ack_decode fid data).
Proof. pystart. pyrun. Qed.

Theorem frame_ack_decode_None_spec n :
  call_method program (1 + n) pa "frame_ack_decode" [PNone] = PyLite.Ok (PNone, pa).
Proof. pystart. pyrun. Qed.

Theorem frame_is_ack_spec n fid data :
  call_method program (1 + n) pa "frame_is_ack" [frame_obj (enum_id fid) data (perr_obj "NOERR" 0)] =
  PyLite.Ok (PBool (fid =? Frame.id_of "ACK"), pa).
Proof. pystart. pyrun. Qed.

Theorem frame_is_stream_spec n fid data :
  call_method program (1 + n) pa "frame_is_stream" [frame_obj (enum_id fid) data (perr_obj "NOERR" 0)] =
  PyLite.Ok (PBool (fid =? Frame.id_of "STREAM"), pa).
Proof. pystart. pyrun. Qed.

(** * ParseRecv: frame_ack_encode, frame_cmninfo_encode *)
Definition emb_enc (self : pv) (r : Frame.res bytes) : PyLite.res (pv * pv) :=
  match r with
  | Frame.Ok b => PyLite.Ok (PBytes b, self)
  | Frame.Raise w => Exc w
  | Frame.Err _ => Unsupported "Err"
  end.
#[local] Hint Unfold emb_enc : info_model.

Lemma frame_create_func n name fid data :
  call_func program (S n) SerialFrame_frame_create [sf; PEnum "EParseId" name fid true; PBytes data] [] =
  do r <- attach (self_st sf) (emb_enc sf (Frame.frame_create fid data));
  PyLite.Ok (fst r, Some (snd r)).
Proof. pystart. unfold Frame.frame_create. pyrun. Qed.
#[local] Hint Resolve frame_create_func : pyspec.

Lemma ack_encode_func n cbv ack :
  call_func program (S (S n)) ParseRecv_frame_ack_encode [pr cbv; PInt ack] [] =
  do r <- attach (self_st (pr cbv)) (emb_enc (pr cbv) (Info.frame_ack_encode ack));
  PyLite.Ok (fst r, Some (snd r)).
Proof. pystart. unfold Info.frame_ack_encode. pyrun. Qed.
#[local] Hint Resolve ack_encode_func : pyspec.

Theorem frame_ack_encode_spec n cbv ack :
  call_method program (2 + n) (pr cbv) "frame_ack_encode" [PInt ack] =
  emb_enc (pr cbv) (Info.frame_ack_encode ack).
Proof. pystart. pyrun. Qed.

(** ** frame_cmninfo_encode: [dev] is any Device object whose [_data] carries the three integers *)
Lemma device_data_func n fs :
  call_func program (S n) Device_data [PObj "Device" fs] [] =
  match lookup "_data" fs with
  | Some d => PyLite.Ok (d, Some (PObj "Device" fs))
  | None => ExcS "AttributeError" (self_st (PObj "Device" fs))
  end.
Proof. pystart. pyrun. Qed.
#[local] Hint Resolve device_data_func : pyspec.

Lemma cmninfo_data_encode_func n cbv dcls dfs rest a b c :
  lookup "data" rest = None ->
  lookup "chmax" dfs = Some (PInt a) ->
  lookup "flags" dfs = Some (PInt b) ->
  lookup "rxpadding" dfs = Some (PInt c) ->
  call_func program (S (S n)) ParseRecv__cmninfo_data_encode
    [pr cbv; PObj "Device" (("_data", PObj dcls dfs) :: rest)] [] =
  do r <- attach (self_st (pr cbv)) (emb_enc (pr cbv) (Info.cmninfo_data_encode a b c));
  PyLite.Ok (fst r, Some (snd r)).
Proof. pystart. unfold Info.cmninfo_data_encode. pyrun. Qed.
#[local] Hint Resolve cmninfo_data_encode_func : pyspec.
#[local] Arguments Info.cmninfo_data_encode : simpl never.

Lemma cmninfo_encode_func n cbv dcls dfs rest a b c :
  lookup "data" rest = None ->
  lookup "chmax" dfs = Some (PInt a) ->
  lookup "flags" dfs = Some (PInt b) ->
  lookup "rxpadding" dfs = Some (PInt c) ->
  call_func program (S (S (S n))) ParseRecv_frame_cmninfo_encode
    [pr cbv; PObj "Device" (("_data", PObj dcls dfs) :: rest)] [] =
  do r <- attach (self_st (pr cbv)) (emb_enc (pr cbv) (Info.frame_cmninfo_encode a b c));
  PyLite.Ok (fst r, Some (snd r)).
Proof. pystart. unfold Info.frame_cmninfo_encode. pyrun. Qed.
#[local] Hint Resolve cmninfo_encode_func : pyspec.

Theorem frame_cmninfo_encode_spec n cbv dcls dfs rest a b c :
  lookup "data" rest = None ->
  lookup "chmax" dfs = Some (PInt a) ->
  lookup "flags" dfs = Some (PInt b) ->
  lookup "rxpadding" dfs = Some (PInt c) ->
  call_method program (3 + n) (pr cbv) "frame_cmninfo_encode"
    [PObj "Device" (("_data", PObj dcls dfs) :: rest)] =
  emb_enc (pr cbv) (Info.frame_cmninfo_encode a b c).
Proof. pystart. pyrun. Qed.

(** the object that [DDeviceData(a, b, c)] builds, and a Device around it *)
Definition devdata_obj (a b c : Z) : pv :=
  PObj "DDeviceData"
    [("chmax", PInt a); ("flags", PInt b); ("rxpadding", PInt c);
     ("div_supported", PBool (negb (Z.land b 1 =? 0)));
     ("ack_supported", PBool (negb (Z.land b 2 =? 0)));
     ("_initdone", PBool true)].
Definition dev_obj (a b c : Z) (chans : pv) : pv :=
  PObj "Device" [("_data", devdata_obj a b c); ("_channels", chans)].

Theorem construct_DDeviceData n a b c :
  construct program (3 + n) "DDeviceData" [PInt a; PInt b; PInt c] = PyLite.Ok (devdata_obj a b c).
Proof. pystart. pyrun. Qed.

Corollary frame_cmninfo_encode_dev_spec n cbv a b c chans :
  call_method program (3 + n) (pr cbv) "frame_cmninfo_encode" [dev_obj a b c chans] =
  emb_enc (pr cbv) (Info.frame_cmninfo_encode a b c).
Proof. apply frame_cmninfo_encode_spec; reflexivity. Qed.

(** * DeviceChannel *)
Definition chandata_obj (chan typ vdim : Z) (name : string) (en : bool) (div mlen : Z) : pv :=
  let dtype := Z.land typ 31 in
  PObj "DDeviceChannelData"
    [("chan", PInt chan); ("_type", PInt typ); ("vdim", PInt vdim); ("name", PStr name);
     ("en", PBool en); ("div", PInt div); ("mlen", PInt mlen);
     ("dtype", PInt dtype);
     ("critical", PBool (negb (Z.land typ 128 =? 0)));
     ("type_res", PInt (Z.land typ 96));
     ("is_valid", PBool (negb (dtype =? 0)));
     ("is_numerical", PBool (negb ((dtype =? 0) || (dtype =? 1) || (dtype =? 18) || (dtype =? 19))));
     ("_initdone", PBool true)].
Definition chan_obj (chan typ vdim : Z) (name : string) (en : bool) (div mlen : Z) : pv :=
  PObj "DeviceChannel"
    [("_data", chandata_obj chan typ vdim name en div mlen); ("_func", PNone); ("_cntr", PInt 0)].

Lemma land_31 z : 0 <= Z.land z 31 <= 31.
Proof.
  change 31 with (Z.ones 5) at 1 2. rewrite Z.land_ones by lia.
  change (2 ^ 5) with 32. pose proof (Z.mod_pos_bound z 32). lia.
Qed.

(** [self.dtype is not EDeviceChannelType.UNDEF.value] is an identity test of
    two ints: defined (CPython's small-int cache) because dtype is in 0..31 *)
Lemma DDeviceChannelData_init_func n chan typ vdim name en div mlen :
  call_func program (S (S (S n))) DDeviceChannelData_DinitD
    [PObj "DDeviceChannelData" []; PInt chan; PInt typ; PInt vdim; PStr name; PBool en; PInt div; PInt mlen] [] =
  PyLite.Ok (PNone, Some (chandata_obj chan typ vdim name en div mlen)).
Proof. pystart. pose proof (land_31 typ). unfold chandata_obj. pyrun. Qed.
#[local] Hint Resolve DDeviceChannelData_init_func : pyspec.

Theorem construct_DDeviceChannelData n chan typ vdim name en div mlen :
  construct program (3 + n) "DDeviceChannelData"
    [PInt chan; PInt typ; PInt vdim; PStr name; PBool en; PInt div; PInt mlen] =
  PyLite.Ok (chandata_obj chan typ vdim name en div mlen).
Proof. pystart. pyrun. Qed.

(** [DeviceChannel.__init__], called positionally and with the keywords of
    [Parser.frame_chinfo_decode] ([func] defaulted in both) *)
Ltac name_cases name :=
  let E := fresh "E" in
  destruct (String.eqb name "") eqn:E; [apply String.eqb_eq in E; subst name|].

Lemma DeviceChannel_init_func n chan typ vdim name en div mlen :
  call_func program (S (S (S (S n)))) DeviceChannel_DinitD
    [PObj "DeviceChannel" []; PInt chan; PInt typ; PInt vdim; PStr name; en; PInt div; PInt mlen] [] =
  PyLite.Ok (PNone, Some (chan_obj chan typ vdim name (truthy en) div mlen)).
Proof. pystart. unfold chan_obj. name_cases name; pyrun. Qed.

Lemma DeviceChannel_init_kw_func n chan typ vdim name en div mlen :
  call_func program (S (S (S (S n)))) DeviceChannel_DinitD
    [PObj "DeviceChannel" []]
    [("chan", PInt chan); ("_type", PInt typ); ("vdim", PInt vdim); ("en", en);
     ("div", PInt div); ("mlen", PInt mlen); ("name", PStr name)] =
  PyLite.Ok (PNone, Some (chan_obj chan typ vdim name (truthy en) div mlen)).
Proof. pystart. unfold chan_obj. name_cases name; pyrun. Qed.
#[local] Hint Resolve DeviceChannel_init_func DeviceChannel_init_kw_func : pyspec.
#[local] Arguments chan_obj : simpl never.

(** positional construction, [func] defaulted *)
Theorem construct_DeviceChannel n chan typ vdim name en div mlen :
  construct program (4 + n) "DeviceChannel"
    [PInt chan; PInt typ; PInt vdim; PStr name; en; PInt div; PInt mlen] =
  PyLite.Ok (chan_obj chan typ vdim name (truthy en) div mlen).
Proof. pystart. pyrun. Qed.

(** the keyword call of [Parser.frame_chinfo_decode] *)
Theorem construct_DeviceChannel_kw n chan typ vdim name en div mlen :
  call_value program (call_func program (4 + n)) (PCls "DeviceChannel") []
    [("chan", PInt chan); ("_type", PInt typ); ("vdim", PInt vdim); ("en", en);
     ("div", PInt div); ("mlen", PInt mlen); ("name", PStr name)] =
  PyLite.Ok (chan_obj chan typ vdim name (truthy en) div mlen).
Proof. pystart. pyrun. Qed.

(** * Parser.frame_chinfo_decode *)
Definition emb_chan (chan : Z) (c : Info.chan_cfg) : pv :=
  chan_obj chan (Info.c_type c) (Info.c_vdim c) (bytes_str (utf8_enc (Info.c_name c)))
           (Info.c_en c) (Info.c_div c) (Info.c_mlen c).
#[local] Hint Unfold emb_chan Info.fmt_counted_tail : info_model.

#[local] Arguments value_method : simpl never.
#[local] Arguments str_bytes : simpl never.
#[local] Arguments bytes_str : simpl never.
#[local] Arguments utf8_dec : simpl never.
#[local] Arguments utf8_enc : simpl never.
#[local] Arguments until_nul : simpl never.
#[local] Arguments Info.frame_chinfo_decode : simpl never.

(** the pieces [pre], [n], [suf] of a format [pre ++ str(n) ++ suf] as the
    interpreter's f-string evaluation leaves it *)
Ltac split_counted s :=
  lazymatch s with
  | String ?a ?r =>
      lazymatch split_counted r with
      | (?pre, ?n, ?suf) => constr:((String a pre, n, suf))
      end
  | append (string_of_Z ?n) ?suf => constr:((EmptyString, n, suf))
  end.

Ltac py_stuck_hook h ::=
  lazymatch h with
  | py_eq (enum_id _) (PEnum "EParseId" _ _ true) => rewrite py_eq_enum_id by reflexivity
  | norm_index (S _) 0 => rewrite norm_index_S_0
  | norm_index ?a ?b => is_nat_lit a; is_Z_lit b; pyfold2 norm_index a b
  | context [nth ?k (_ :: _) _] => is_nat_lit k; progress cbn [nth]
  | unpack _ _ => rewrite_conv h
  | context [str_bytes (bytes_str (utf8_enc ?c))] => rewrite (str_bytes_utf8 c) by assumption
  | value_method (PBytes _) "decode" [] [] => rewrite bytes_decode
  | value_method (PStr (bytes_str _)) "split" _ _ => erewrite split_decoded by eassumption
  | parse_fmt ?s =>
      lazymatch split_counted s with
      | (?pre, ?n, ?suf) =>
          change s with (pre ++ string_of_Z n ++ suf);
          erewrite (parse_fmt_counted pre n) by reflexivity;
          unfold mk_native; cbn [map native_item icode icnt app]
      end
  | Nat.eqb (List.length ?u) 0 => is_var u; destruct u; cbn [List.length Nat.eqb]
  end.

Lemma chinfo_decode_func n fid data chan :
  call_func program (S (S (S (S (S n))))) Parser_frame_chinfo_decode
    [pa; frame_obj (enum_id fid) data (perr_obj "NOERR" 0); PInt chan] [] =
  do r <- attach (self_st pa) (emb_opt (emb_chan chan) pa (Info.frame_chinfo_decode fid data));
  PyLite.Ok (fst r, Some (snd r)).
Proof. pystart. unfold Info.frame_chinfo_decode. pyrun. Qed.

Lemma chinfo_decode_func_None n chan :
  call_func program (S n) Parser_frame_chinfo_decode [pa; PNone; PInt chan] [] = PyLite.Ok (PNone, Some pa).
Proof. pystart. pyrun. Qed.
#[local] Hint Resolve chinfo_decode_func chinfo_decode_func_None : pyspec.

Theorem frame_chinfo_decode_spec n fid data chan :
  call_method program (5 + n) pa "frame_chinfo_decode"
    [frame_obj (enum_id fid) data (perr_obj "NOERR" 0); PInt chan] =
  emb_opt (emb_chan chan) pa (Info.frame_chinfo_decode fid data).
Proof. pystart. pyrun. Qed.

Theorem frame_chinfo_decode_None_spec n chan :
  call_method program (1 + n) pa "frame_chinfo_decode" [PNone; PInt chan] = PyLite.Ok (PNone, pa).
Proof. pystart. pyrun. Qed.

(** * ParseRecv.frame_chinfo_encode *)
Lemma channel_data_func n fs :
  call_func program (S n) DeviceChannel_data [PObj "DeviceChannel" fs] [] =
  match lookup "_data" fs with
  | Some d => PyLite.Ok (d, Some (PObj "DeviceChannel" fs))
  | None => ExcS "AttributeError" (self_st (PObj "DeviceChannel" fs))
  end.
Proof. pystart. pyrun. Qed.
#[local] Hint Resolve channel_data_func : pyspec.
#[local] Hint Unfold chan_obj chandata_obj : info_model.
#[local] Arguments Info.chinfo_data_encode : simpl never.
#[local] Arguments Info.frame_chinfo_encode : simpl never.

Lemma chinfo_data_encode_func n cbv chan typ vdim cps en div mlen :
  forallb valid_cp cps = true ->
  call_func program (S (S n)) ParseRecv__chinfo_data_encode
    [pr cbv; chan_obj chan typ vdim (bytes_str (utf8_enc cps)) en div mlen] [] =
  do r <- attach (self_st (pr cbv))
                 (emb_enc (pr cbv) (Info.chinfo_data_encode (Info.mkChan en typ vdim div mlen cps)));
  PyLite.Ok (fst r, Some (snd r)).
Proof. pystart. unfold Info.chinfo_data_encode. pyrun. Qed.
#[local] Hint Resolve chinfo_data_encode_func : pyspec.

Lemma chinfo_encode_func n cbv chan typ vdim cps en div mlen :
  forallb valid_cp cps = true ->
  call_func program (S (S (S n))) ParseRecv_frame_chinfo_encode
    [pr cbv; chan_obj chan typ vdim (bytes_str (utf8_enc cps)) en div mlen] [] =
  do r <- attach (self_st (pr cbv))
                 (emb_enc (pr cbv) (Info.frame_chinfo_encode (Info.mkChan en typ vdim div mlen cps)));
  PyLite.Ok (fst r, Some (snd r)).
Proof. pystart. unfold Info.frame_chinfo_encode. pyrun. Qed.
#[local] Hint Resolve chinfo_encode_func : pyspec.

Theorem frame_chinfo_encode_spec n cbv chan typ vdim cps en div mlen :
  forallb valid_cp cps = true ->
  call_method program (3 + n) (pr cbv) "frame_chinfo_encode"
    [chan_obj chan typ vdim (bytes_str (utf8_enc cps)) en div mlen] =
  emb_enc (pr cbv) (Info.frame_chinfo_encode (Info.mkChan en typ vdim div mlen cps)).
Proof. pystart. pyrun. Qed.

(** the encoder applied to what the decoder returns *)
Corollary frame_chinfo_encode_emb_spec n cbv chan c :
  forallb valid_cp (Info.c_name c) = true ->
  call_method program (3 + n) (pr cbv) "frame_chinfo_encode" [emb_chan chan c] =
  emb_enc (pr cbv) (Info.frame_chinfo_encode c).
Proof. destruct c. apply frame_chinfo_encode_spec. Qed.

(** * The model's defensive branches are dead

    [Raise "bad format"], [Raise "TypeError"] and [Err _] of model/Info.v never
    occur: the only exceptions are the ones CPython can raise in the source. *)
Definition raises_only {A} (r : Frame.res A) (ws : list string) : Prop :=
  match r with
  | Frame.Ok _ => True
  | Frame.Err _ => False
  | Frame.Raise w => In w ws
  end.

Ltac dead_unpack :=
  match goal with
  | |- context [unpack ?f ?b] => pyunpack f b
  end.

Lemma cmninfo_decode_raises fid data :
  raises_only (Info.frame_cmninfo_decode fid data) ["struct.error"].
Proof.
  unfold Info.frame_cmninfo_decode, Request.sunpack, Gen_req.cmninfo_dec_fmt.
  destruct (negb _); [exact I|].
  pyclosed. cbv iota beta. dead_unpack; cbn; auto.
Qed.

Lemma ack_decode_raises fid data :
  raises_only (Info.frame_ack_decode fid data) ["struct.error"].
Proof.
  unfold Info.frame_ack_decode, Request.sunpack, Gen_req.ack_dec_fmt.
  destruct (negb _); [exact I|].
  pyclosed. cbv iota beta. dead_unpack; cbn; auto.
Qed.

Lemma chinfo_decode_raises fid data :
  raises_only (Info.frame_chinfo_decode fid data) ["struct.error"; "UnicodeDecodeError"].
Proof.
  unfold Info.frame_chinfo_decode, Info.fmt_counted_tail, Gen_req.chinfo_dec_prefix,
    Gen_req.chinfo_dec_suffix.
  destruct (negb _); [exact I|].
  pyclosed. cbv iota beta.
  destruct (_ <? 0); [cbn; auto|]. cbn [Request.bind app].
  dead_unpack; [cbn; auto|].
  match goal with |- context [utf8_dec ?s] => destruct s; [exact I|] end.
  destruct (utf8_dec _); cbn; auto.
Qed.

Lemma frame_create_raises fid b :
  raises_only (Frame.frame_create fid b) ["AssertionError"; "struct.error"].
Proof.
  unfold Frame.frame_create, Gen_frame.create_hdr_fmt, Gen_frame.create_foot_fmt.
  destruct (_ <? fid); [cbn; auto|].
  pyclosed. cbv iota beta zeta.
  destruct (pack _ _); [|cbn; auto]. destruct (pack _ _); cbn; auto.
Qed.

Lemma frame_create_raises_known fid b : fid <= Gen_frame.create_fid_max ->
  raises_only (Frame.frame_create fid b) ["struct.error"].
Proof.
  intros H. unfold Frame.frame_create, Gen_frame.create_hdr_fmt, Gen_frame.create_foot_fmt.
  replace (_ <? fid) with false by lia.
  pyclosed. cbv iota beta zeta.
  destruct (pack _ _); [|cbn; auto]. destruct (pack _ _); cbn; auto.
Qed.

Lemma ack_encode_raises ack : raises_only (Info.frame_ack_encode ack) ["struct.error"].
Proof.
  unfold Info.frame_ack_encode, Request.spack, Gen_req.ack_fmt. pyclosed. cbv iota beta.
  destruct (pack _ _); [|cbn; auto]. apply frame_create_raises_known. vm_compute. discriminate.
Qed.

Lemma cmninfo_encode_raises a b c : raises_only (Info.frame_cmninfo_encode a b c) ["struct.error"].
Proof.
  unfold Info.frame_cmninfo_encode, Info.cmninfo_data_encode, Request.spack, Gen_req.cmninfo_fmt.
  pyclosed. cbv iota beta.
  destruct (pack _ _); [|cbn; auto]. apply frame_create_raises_known. vm_compute. discriminate.
Qed.

Lemma chinfo_encode_raises c :
  forallb valid_cp (Info.c_name c) = true ->
  raises_only (Info.frame_chinfo_encode c) ["struct.error"].
Proof.
  intros H. unfold Info.frame_chinfo_encode, Info.chinfo_data_encode, Info.fmt_counted_tail,
    Gen_req.chinfo_enc_prefix, Gen_req.chinfo_enc_suffix.
  rewrite H. cbn [negb]. pyclosed. cbv iota beta.
  destruct (_ <? 0); [cbn; auto|]. cbn [Request.bind].
  destruct (pack _ _); [|cbn; auto]. apply frame_create_raises_known. vm_compute. discriminate.
Qed.

(** * Audit *)
Print Assumptions frame_cmninfo_decode_spec.
Print Assumptions frame_cmninfo_decode_None_spec.
Print Assumptions frame_ack_decode_spec.
Print Assumptions frame_ack_decode_None_spec.
Print Assumptions frame_is_ack_spec.
Print Assumptions frame_is_stream_spec.
Print Assumptions frame_ack_encode_spec.
Print Assumptions frame_cmninfo_encode_spec.
Print Assumptions frame_cmninfo_encode_dev_spec.
Print Assumptions construct_DDeviceData.
Print Assumptions construct_DDeviceChannelData.
Print Assumptions construct_DeviceChannel.
Print Assumptions construct_DeviceChannel_kw.
Print Assumptions frame_chinfo_decode_spec.
Print Assumptions frame_chinfo_decode_None_spec.
Print Assumptions frame_chinfo_encode_spec.
Print Assumptions frame_chinfo_encode_emb_spec.
Print Assumptions cmninfo_decode_raises.
Print Assumptions ack_decode_raises.
Print Assumptions chinfo_decode_raises.
Print Assumptions ack_encode_raises.
Print Assumptions cmninfo_encode_raises.
Print Assumptions chinfo_encode_raises.

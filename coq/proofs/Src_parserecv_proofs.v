(** The interpreted source of the DEVICE-SIDE dispatcher and request decoders
    of nxslib.proto.parserecv.ParseRecv (ASTs of gen/Src_parserecv.v run by the
    PyLite interpreter) computes the hand-written models
    [Frame.recv_dispatch] / [Frame.recv_cb_handle] (model/Frame.v) and
    [Request.frame_{start,set,enable,div}_decode] (model/Request.v) -- for ALL
    inputs. *)
From Coq Require Import String Ascii List ZArith NArith Bool Lia ZifyBool DecimalString DecimalPos.
From NX Require Import Bytes PyStruct Crc PyLite PyLite_tactics
  Src_iframe Src_serialframe Src_dev Src_parserecv Src_prelude Src_all Src_serialframe_proofs
  Src_parserecv_lemmas.
From NX Require Frame Request Gen_frame Gen_req Frame_proofs Bytes_proofs.
Import ListNotations.
Import Frame(EHDR, EFOOT, DNone, DCall, DAssert, RCmninfo, RChinfo, RStart, REnable, RDiv).
Open Scope string_scope.
Open Scope Z_scope.

(** * Objects *)
Definition cb (lg : list pv) : pv := PObj "RecCb" [("log", PList lg)].
Definition pr (lg : list pv) : pv :=
  PObj "ParseRecv" [("_recv_cb", cb lg); ("_frame", sf); ("_user_types", PNone)].

Definition name_of (r : Frame.request) : string :=
  match r with
  | RCmninfo => "cmninfo" | RChinfo => "chinfo" | RStart => "start"
  | REnable => "enable" | RDiv => "div"
  end.

(** the result of a dispatch, as (return value, receiver afterwards) *)
Definition emb_dispatch (lg : list pv) (d : Frame.dispatch) : PyLite.res (pv * pv) :=
  match d with
  | DNone => PyLite.Ok (PNone, pr lg)
  | DCall r payload => PyLite.Ok (PNone, pr (lg ++ [PTuple [PStr (name_of r); PBytes payload]]))
  | DAssert => Exc "AssertionError"
  end.

(** * Set-up of the executor *)
#[local] Hint Unfold
  Frame.hdr_len Frame.foot_len Frame.sof_byte Frame.crc16 Frame.crc_p
  Gen_frame.sof Gen_frame.hdr_end Gen_frame.foot Gen_frame.parse_ids
  Gen_frame.crc_poly Gen_frame.crc_init Gen_frame.crc_rev Gen_frame.crc_xorout
  Gen_frame.hdr_decode_fmt Gen_frame.crc_residue Gen_frame.decode_foot_off
  Gen_frame.cb_cmninfo_len Gen_frame.cb_chinfo_len Gen_frame.cb_enable_nlen
  Gen_frame.cb_div_nlen Gen_frame.cb_start_len
  enum_id perr_obj hdr_obj frame_obj emb_hdr emb_frame
  cb pr name_of emb_dispatch : recv_model.

#[local] Arguments Frame.known_id : simpl never.
#[local] Arguments Frame.hdr_find : simpl never.
#[local] Arguments Frame.hdr_decode : simpl never.
#[local] Arguments Frame.foot_validate : simpl never.
#[local] Arguments Frame.recv_cb_handle : simpl never.
#[local] Arguments Frame.recv_dispatch : simpl never.

Ltac py_unfold_hook ::= autounfold with recv_model.

(** stuck heads: an [unpack] that was already split on the other side (the
    equation is in the context, modulo conversion); an index into a list of
    known length *)
Ltac py_stuck_hook h ::=
  lazymatch h with
  | unpack _ _ => rewrite_conv h
  | norm_index ?a ?b => is_nat_lit a; is_Z_lit b; pyfold2 norm_index a b
  end.

(** callee specifications proved in Src_serialframe_proofs (their hints are
    local to that file) *)
#[local] Hint Resolve hdr_len_func foot_len_func foot_validate_func : pyspec.

(** [hdr_decode] returns [Ok] only for a known frame id, so the [fid] field
    of the header object is an enum member (not the [PNone] that [enum_id]
    yields for an unknown value): same specification as [hdr_decode_func],
    with the member made explicit. *)
Definition id_name (z : Z) : string :=
  match enum_by_value Gen_frame.parse_ids z with Some n => n | None => "" end.
#[local] Arguments id_name : simpl never.

Definition emb_hdr' (r : Frame.res (Z * Z)) : PyLite.res pv :=
  match r with
  | Frame.Ok (id, flen) =>
      PyLite.Ok (hdr_obj (PEnum "EParseId" (id_name id) id true) flen (perr_obj "NOERR" 0))
  | Frame.Err EHDR => PyLite.Ok (hdr_obj (enum_id 0) 0 (perr_obj "HDR" 2))
  | Frame.Err EFOOT => PyLite.Ok (hdr_obj (enum_id 0) 0 (perr_obj "FOOT" 3))
  | Frame.Raise w => Exc w
  end.

Lemma hdr_decode_known d id flen :
  Frame.hdr_decode d = Frame.Ok (id, flen) -> Frame.known_id id = true.
Proof.
  unfold Frame.hdr_decode.
  destruct (_ <? _); [discriminate|].
  destruct (parse_fmt _); [|discriminate].
  destruct (unpack _ _) as [[|[] [|[] [|[] [|]]]]|]; try discriminate.
  destruct (negb (_ =? _)); [discriminate|].
  destruct (Frame.known_id z1) eqn:K; cbn [negb]; [|discriminate].
  intros H; inversion H; subst; exact K.
Qed.

Lemma hdr_decode_func' n d :
  call_func program (S (S n)) SerialFrame_hdr_decode [sf; PBytes d] [] =
  do v <- attach (self_st sf) (emb_hdr' (Frame.hdr_decode d)); PyLite.Ok (v, Some sf).
Proof.
  rewrite hdr_decode_func.
  destruct (Frame.hdr_decode d) as [[id flen]| |] eqn:E; try reflexivity.
  apply hdr_decode_known in E. rewrite known_id_enum in E.
  unfold emb_hdr, emb_hdr', enum_id, id_name.
  destruct (enum_by_value _ id); [reflexivity|discriminate].
Qed.
#[local] Hint Resolve hdr_decode_func' : pyspec.
#[local] Hint Unfold emb_hdr' : recv_model.

Lemma hdr_find_func n d :
  call_func program (S n) SerialFrame_hdr_find [sf; PBytes d] [] =
  PyLite.Ok (PInt (Frame.hdr_find d), Some sf).
Proof. pystart. unfold Frame.hdr_find. pyrun. Qed.
#[local] Hint Resolve hdr_find_func : pyspec.

(** * The recording callback *)
Lemma cb_cmninfo_func n lg v :
  call_func program (S n) RecCb_cmninfo [cb lg; v] [] =
  PyLite.Ok (PNone, Some (cb (lg ++ [PTuple [PStr "cmninfo"; v]]))).
Proof. pystart. pyrun. Qed.
Lemma cb_chinfo_func n lg v :
  call_func program (S n) RecCb_chinfo [cb lg; v] [] =
  PyLite.Ok (PNone, Some (cb (lg ++ [PTuple [PStr "chinfo"; v]]))).
Proof. pystart. pyrun. Qed.
Lemma cb_enable_func n lg v :
  call_func program (S n) RecCb_enable [cb lg; v] [] =
  PyLite.Ok (PNone, Some (cb (lg ++ [PTuple [PStr "enable"; v]]))).
Proof. pystart. pyrun. Qed.
Lemma cb_div_func n lg v :
  call_func program (S n) RecCb_div [cb lg; v] [] =
  PyLite.Ok (PNone, Some (cb (lg ++ [PTuple [PStr "div"; v]]))).
Proof. pystart. pyrun. Qed.
Lemma cb_start_func n lg v :
  call_func program (S n) RecCb_start [cb lg; v] [] =
  PyLite.Ok (PNone, Some (cb (lg ++ [PTuple [PStr "start"; v]]))).
Proof. pystart. pyrun. Qed.
#[local] Hint Resolve cb_cmninfo_func cb_chinfo_func cb_enable_func cb_div_func cb_start_func : pyspec.

(** * _recv_cb_* : the payload-size assertion, then the callback *)
Definition emb_cb (lg : list pv) (ok : bool) (name : string) (p : bytes) : PyLite.res (pv * option pv) :=
  if ok then PyLite.Ok (PNone, Some (pr (lg ++ [PTuple [PStr name; PBytes p]])))
  else ExcS "AssertionError" (self_st (pr lg)).
#[local] Hint Unfold emb_cb : recv_model.

Lemma recv_cb_cmninfo_func n lg p :
  call_func program (S (S n)) ParseRecv__recv_cb_cmninfo [pr lg; PBytes p] [] =
  emb_cb lg (zlen p =? 0) "cmninfo" p.
Proof. pystart. pyrun. Qed.
Lemma recv_cb_chinfo_func n lg p :
  call_func program (S (S n)) ParseRecv__recv_cb_chinfo [pr lg; PBytes p] [] =
  emb_cb lg (zlen p =? 1) "chinfo" p.
Proof. pystart. pyrun. Qed.
Lemma recv_cb_enable_func n lg p :
  call_func program (S (S n)) ParseRecv__recv_cb_enable [pr lg; PBytes p] [] =
  emb_cb lg (negb (zlen p =? 0)) "enable" p.
Proof. pystart. pyrun. Qed.
Lemma recv_cb_div_func n lg p :
  call_func program (S (S n)) ParseRecv__recv_cb_div [pr lg; PBytes p] [] =
  emb_cb lg (negb (zlen p =? 0)) "div" p.
Proof. pystart. pyrun. Qed.
Lemma recv_cb_start_func n lg p :
  call_func program (S (S n)) ParseRecv__recv_cb_start [pr lg; PBytes p] [] =
  emb_cb lg (zlen p =? 1) "start" p.
Proof. pystart. pyrun. Qed.
#[local] Hint Resolve recv_cb_cmninfo_func recv_cb_chinfo_func recv_cb_enable_func
  recv_cb_div_func recv_cb_start_func : pyspec.

(** * _recv_cb_handle *)
Definition emb_dispatch_f (lg : list pv) (d : Frame.dispatch) : PyLite.res (pv * option pv) :=
  do r <- attach (self_st (pr lg)) (emb_dispatch lg d); PyLite.Ok (fst r, Some (snd r)).
#[local] Hint Unfold emb_dispatch_f Frame.id_of : recv_model.

Lemma recv_cb_handle_func n lg nm fid p :
  call_func program (S (S (S n))) ParseRecv__recv_cb_handle
    [pr lg; PEnum "EParseId" nm fid true; PBytes p] [] =
  emb_dispatch_f lg (Frame.recv_cb_handle fid p).
Proof. pystart. unfold Frame.recv_cb_handle. pyrun. Qed.
#[local] Hint Resolve recv_cb_handle_func : pyspec.

Theorem recv_cb_handle_spec n lg nm fid p :
  call_method program (3 + n) (pr lg) "_recv_cb_handle" [PEnum "EParseId" nm fid true; PBytes p] =
  emb_dispatch lg (Frame.recv_cb_handle fid p).
Proof. pystart. pyrun. Qed.

(** * recv_handle

    [Frame.recv_dispatch] maps a raising [hdr_decode] to [DAssert].  The model's
    [hdr_decode] raises ("struct.error") exactly when one of the four header
    bytes is not a byte (>= 256): [bytes] is [list N].  The interpreter then
    raises struct.error, not AssertionError; [recv_raises] isolates that case,
    which does not exist for well-formed bytes ([recv_raises_wf]). *)
Definition recv_raises (d : bytes) : option string :=
  let i := Frame.hdr_find d in
  if i <? 0 then None else
  if (zlen d - i) <? (Frame.hdr_len + Frame.foot_len) then None else
  match Frame.hdr_decode (slice_from d i) with
  | Frame.Raise w => Some w
  | _ => None
  end.

Definition emb_recv (lg : list pv) (d : bytes) : PyLite.res (pv * pv) :=
  match recv_raises d with
  | Some w => Exc w
  | None => emb_dispatch lg (Frame.recv_dispatch d)
  end.

Lemma recv_handle_func n lg d :
  call_func program (S (S (S (S n)))) ParseRecv_recv_handle [pr lg; PBytes d] [] =
  do r <- attach (self_st (pr lg)) (emb_recv lg d); PyLite.Ok (fst r, Some (snd r)).
Proof. pystart. unfold emb_recv, recv_raises, Frame.recv_dispatch. pyrun. Qed.
#[local] Hint Resolve recv_handle_func : pyspec.
#[local] Hint Unfold emb_recv : recv_model.

(** the general statement (no hypothesis on [d]) *)
Theorem recv_handle_gen_spec n lg d :
  call_method program (4 + n) (pr lg) "recv_handle" [PBytes d] = emb_recv lg d.
Proof.
  (* [emb_recv] has to be opened (by the unfold hook, on both sides): for an
     opaque [r : res _] the equation [strip (.. attach st r ..) = r] fails
     when [r] is an [ExcS] *)
  pystart. pyrun.
Qed.

Theorem recv_handle_None_spec n lg :
  call_method program (1 + n) (pr lg) "recv_handle" [PNone] = PyLite.Ok (PNone, pr lg).
Proof. pystart. pyrun. Qed.

(** for a sequence of bytes, [hdr_decode] does not raise *)
Lemma hdr_decode_no_raise d w : wf_bytes d -> Frame.hdr_decode d <> Frame.Raise w.
Proof.
  intros Hwf. destruct (zlen d <? 4) eqn:E.
  - rewrite Frame_proofs.hdr_decode_short by lia. discriminate.
  - destruct d as [|s [|lo [|hi [|fid rest]]]]; unfold zlen in E; cbn [List.length] in E; try lia.
    unfold wf_bytes in Hwf.
    repeat match goal with H : Forall _ (_ :: _) |- _ => inversion H; clear H; subst end.
    rewrite Frame_proofs.hdr_decode_cons by assumption.
    destruct (negb _); [discriminate|]. destruct (negb _); discriminate.
Qed.

Lemma recv_raises_wf d : wf_bytes d -> recv_raises d = None.
Proof.
  intros Hwf. unfold recv_raises.
  destruct (_ <? 0); [reflexivity|]. destruct (_ <? _); [reflexivity|].
  destruct (Frame.hdr_decode _) eqn:E; try reflexivity.
  exfalso. revert E. apply hdr_decode_no_raise.
  unfold slice_from. apply Bytes_proofs.wf_bytes_skipn. exact Hwf.
Qed.

(** where it is defined, the raising case is what the model calls [DAssert] *)
Lemma recv_raises_dispatch d w : recv_raises d = Some w -> Frame.recv_dispatch d = DAssert.
Proof.
  unfold recv_raises, Frame.recv_dispatch.
  destruct (_ <? 0); [discriminate|]. destruct (_ <? _); [discriminate|].
  destruct (Frame.hdr_decode _); try discriminate. reflexivity.
Qed.

(** the statement asked for: for every sequence of bytes *)
Theorem recv_handle_spec n lg d :
  wf_bytes d ->
  call_method program (4 + n) (pr lg) "recv_handle" [PBytes d] =
  match Frame.recv_dispatch d with
  | DNone => PyLite.Ok (PNone, pr lg)
  | DCall r payload => PyLite.Ok (PNone, pr (lg ++ [PTuple [PStr (name_of r); PBytes payload]]))
  | DAssert => Exc "AssertionError"
  end.
Proof.
  intros Hwf. rewrite recv_handle_gen_spec. unfold emb_recv.
  rewrite (recv_raises_wf d Hwf). reflexivity.
Qed.

(** * The request decoders *)
Definition emb_req {A} (f : A -> pv) (self : pv) (r : Frame.res A) : PyLite.res (pv * pv) :=
  match r with
  | Frame.Ok a => PyLite.Ok (f a, self)
  | Frame.Raise w => Exc w
  | Frame.Err _ => Unsupported "the decoders have no error result"
  end.
Definition emb_req_f {A} (f : A -> pv) (self : pv) (r : Frame.res A) : PyLite.res (pv * option pv) :=
  do x <- attach (self_st self) (emb_req f self r); PyLite.Ok (fst x, Some (snd x)).

#[local] Hint Unfold emb_req emb_req_f
  Gen_req.set_flags Gen_req.start_decode_fmt Gen_req.set_decode_fmt
  Gen_req.en_bulk_code Gen_req.en_single_fmt Gen_req.en_all_fmt
  Gen_req.div_bulk_code Gen_req.div_single_fmt Gen_req.div_all_fmt
  Request.set_flag Request.sunpack Request.bind : recv_model.

Lemma frame_start_decode_func n self d :
  call_func program (S n) ParseRecv_frame_start_decode [self; PBytes d] [] =
  emb_req_f PBool self (Request.frame_start_decode d).
Proof. pystart. unfold Request.frame_start_decode. pyrun. Qed.

Theorem frame_start_decode_spec n lg d :
  call_method program (1 + n) (pr lg) "frame_start_decode" [PBytes d] =
  emb_req PBool (pr lg) (Request.frame_start_decode d).
Proof. pystart. unfold Request.frame_start_decode. pyrun. Qed.

Definition pair_tuple (p : Z * Z) : pv := PTuple [PInt (fst p); PInt (snd p)].
#[local] Hint Unfold pair_tuple : recv_model.

Lemma frame_set_decode_func n self d :
  call_func program (S n) ParseRecv_frame_set_decode [self; PBytes d] [] =
  emb_req_f pair_tuple self (Request.frame_set_decode d).
Proof. pystart. unfold Request.frame_set_decode. pyrun. Qed.

Theorem frame_set_decode_spec n lg d :
  call_method program (1 + n) (pr lg) "frame_set_decode" [PBytes d] =
  emb_req pair_tuple (pr lg) (Request.frame_set_decode d).
Proof. pystart. unfold Request.frame_set_decode. pyrun. Qed.

(** * The device object

    A [Device] as [Device.__init__] builds it (checked on an instance below):
    [_data] is a [DDeviceData], [_channels] the list of [DeviceChannel]s, each
    with a [DDeviceChannelData] in [_data].  Only [en] and [div] of a channel
    and the length of the list matter here; every other field is arbitrary.
    The invariant of [Device.__init__], [assert len(channels) == chmax], is
    part of the embedding: [chmax] IS the length of the channel list. *)
Record chan := mkChan
  { ch_en : bool; ch_div : Z;
    ch_chan : pv; ch_type : pv; ch_vdim : pv; ch_name : pv; ch_mlen : pv; ch_dtype : pv;
    ch_critical : pv; ch_type_res : pv; ch_valid : pv; ch_numerical : pv;
    ch_func : pv; ch_cntr : pv }.

Definition chan_obj (c : chan) : pv :=
  PObj "DeviceChannel"
    [("_data", PObj "DDeviceChannelData"
        [("chan", ch_chan c); ("_type", ch_type c); ("vdim", ch_vdim c); ("name", ch_name c);
         ("en", PBool (ch_en c)); ("div", PInt (ch_div c)); ("mlen", ch_mlen c);
         ("dtype", ch_dtype c); ("critical", ch_critical c); ("type_res", ch_type_res c);
         ("is_valid", ch_valid c); ("is_numerical", ch_numerical c); ("_initdone", PBool true)]);
     ("_func", ch_func c); ("_cntr", ch_cntr c)].

Record devx := mkDevx { dx_flags : pv; dx_rxpadding : pv; dx_div_supported : pv; dx_ack_supported : pv }.

Definition dev_obj (x : devx) (chans : list chan) : pv :=
  PObj "Device"
    [("_data", PObj "DDeviceData"
        [("chmax", PInt (zlen chans)); ("flags", dx_flags x); ("rxpadding", dx_rxpadding x);
         ("div_supported", dx_div_supported x); ("ack_supported", dx_ack_supported x);
         ("_initdone", PBool true)]);
     ("_channels", PList (map chan_obj chans))].

(** the embedding is what the interpreter constructs (an instance) *)
Example dev_obj_constructed :
  let mk i en dv :=
    match construct program 20 "DeviceChannel" [PInt i; PInt 2; PInt 1; PStr "a"; PBool en; PInt dv] with
    | PyLite.Ok v => v | _ => PNone end in
  let c i en dv := mkChan en dv (PInt i) (PInt 2) (PInt 1) (PStr "a") (PInt 0) (PInt 2)
                     (PBool false) (PInt 0) (PBool true) (PBool true) PNone (PInt 0) in
  construct program 20 "Device" [PInt 2; PInt 1; PInt 0; PList [mk 0 true 3; mk 1 false 7]] =
  PyLite.Ok (dev_obj (mkDevx (PInt 1) (PInt 0) (PBool true) (PBool false)) [c 0 true 3; c 1 false 7]).
Proof. vm_compute. reflexivity. Qed.

#[local] Hint Unfold chan_obj dev_obj : recv_model.

(** ** the properties [channels_en] / [channels_div]: a loop over the channels *)
Section ChannelsLoop.
  Variable dev : pv.
  Definition st_env (st : list pv * option pv) : env :=
    ([("self", dev); ("ret", PList (fst st))]
       ++ match snd st with Some v => [("chan", v)] | None => [] end)%list.
  Definition st_step (h : chan -> pv) (st : list pv * option pv) (c : chan) : list pv * option pv :=
    ((fst st ++ [h c])%list, Some (chan_obj c)).
  Lemma fst_fold_st_step h l : forall a o, fst (fold_left (st_step h) l (a, o)) = (a ++ map h l)%list.
  Proof.
    induction l; intros; cbn [fold_left map]; [now rewrite app_nil_r|].
    unfold st_step at 2. cbn [fst snd]. rewrite IHl, <- app_assoc. reflexivity.
  Qed.
End ChannelsLoop.

Lemma channels_en_func n x chans :
  call_func program (S (S n)) Device_channels_en [dev_obj x chans] [] =
  PyLite.Ok (PList (map PBool (map ch_en chans)), Some (dev_obj x chans)).
Proof.
  pystart. pysteps.
  match goal with |- context [for_loop _ _ _ _ _ _ ?e] => change e with (st_env (dev_obj x chans) ([], None)) end.
  rewrite (for_loop_fold (st_env (dev_obj x chans)) chan_obj (st_step (fun c => PBool (ch_en c)))).
  2:{ intros [a [v|]] y; unfold st_env, st_step; cbn [fst snd app]; pyrun. }
  unfold st_env. rewrite fst_fold_st_step, map_map. pyrun.
Qed.

Lemma channels_div_func n x chans :
  call_func program (S (S n)) Device_channels_div [dev_obj x chans] [] =
  PyLite.Ok (PList (map PInt (map ch_div chans)), Some (dev_obj x chans)).
Proof.
  pystart. pysteps.
  match goal with |- context [for_loop _ _ _ _ _ _ ?e] => change e with (st_env (dev_obj x chans) ([], None)) end.
  rewrite (for_loop_fold (st_env (dev_obj x chans)) chan_obj (st_step (fun c => PInt (ch_div c)))).
  2:{ intros [a [v|]] y; unfold st_env, st_step; cbn [fst snd app]; pyrun. }
  unfold st_env. rewrite fst_fold_st_step, map_map. pyrun.
Qed.
#[local] Hint Resolve channels_en_func channels_div_func frame_set_decode_func : pyspec.

(** * frame_enable_decode / frame_div_decode *)
#[local] Arguments Request.frame_set_decode : simpl never.
#[local] Hint Unfold Request.counted_fmt Request.sunpack_n : recv_model.

(** [chan] comes out of an unsigned byte: it is not negative, so Python's
    [ret[chan] = v] never counts from the end *)
Lemma frame_set_decode_nonneg d f c :
  Request.frame_set_decode d = Frame.Ok (f, c) -> 0 <= c.
Proof.
  unfold Request.frame_set_decode, Request.sunpack, Request.bind.
  destruct (parse_fmt Gen_req.set_decode_fmt) as [ft|] eqn:F; [|discriminate].
  vm_compute in F. inversion F; subst ft; clear F.
  match goal with |- context [unpack ?ft d] => destruct (unpack ft d) as [[|[] [|[] [|]]]|] eqn:E end;
    try discriminate.
  intros H. inversion H; subst.
  eapply proj2, unpack_BB_range; [|exact E]; reflexivity.
Qed.

Lemma frame_set_decode_nonneg' d p :
  Request.frame_set_decode d = Frame.Ok p -> 0 <= snd p.
Proof. destruct p as [f c]. apply frame_set_decode_nonneg. Qed.

Lemma zlen_nonneg {A} (l : list A) : 0 <= zlen l.
Proof. unfold zlen. lia. Qed.
Lemma zlen_map {A B} (f : A -> B) l : zlen (map f l) = zlen l.
Proof. unfold zlen. now rewrite map_length. Qed.

(** stuck heads of this part:
    - the format  str(chmax) + code ;
    - [unpack] with that format: refused / item-wise (the count is symbolic,
      the items stay folded; [unpack_items_bool] / [unpack_items_B] say what
      they are);
    - the index of the item assignment, known to be non-negative;
    - the model's [list_set] and [ints_of], by their specifications. *)
Ltac py_stuck_hook h ::=
  lazymatch h with
  | parse_fmt (String.append (string_of_Z (zlen ?l)) "?") =>
      rewrite (parse_fmt_counted_bool (zlen l) (zlen_nonneg l))
  | parse_fmt (String.append (string_of_Z (zlen ?l)) "B") =>
      rewrite (parse_fmt_counted_B (zlen l) (zlen_nonneg l))
  | unpack ?f ?b =>
      first [ rewrite_conv h
            | lazymatch f with context [Z.to_nat] => idtac end;
              let E := fresh "Eunpack" in
              destruct (unpack_cases f b) as [E | E]; rewrite E ]
  | norm_index ?a ?b =>
      first [ is_nat_lit a; is_Z_lit b; pyfold2 norm_index a b
            | match goal with
              | H : Request.frame_set_decode _ = Frame.Ok ?p |- _ =>
                  rewrite (norm_index_nonneg a b (frame_set_decode_nonneg' _ p H))
              end ]
  | Request.list_set ?l ?k ?x =>
      let H := fresh "Hset" in
      first [ pose proof (list_set_model PBool l k x) as H
            | pose proof (list_set_model PInt l k x) as H ];
      destruct (Request.list_set l k x)
  | Request.ints_of (unpack_items ?e [mkItem ?n CB] ?b) =>
      let H1 := fresh "Hints" in let H2 := fresh "Hints" in
      destruct (unpack_items_B e n b) as [H1 H2]; rewrite H1
  | ?F ?L =>
      (* a comprehension inside a nested block: the reduction has run the
         element expression and left the anonymous loop
           fix go l := match l with [] => Ok [] | y :: r => do t <- go r; Ok (elt :: t) end
         applied to a symbolic list; it is a [map] (induction, the element
         function found by unification) *)
      is_fix F;
      lazymatch type of F with list pv -> PyLite.res (list pv) => idtac end;
      let H := fresh "Hcomp" in let f := fresh "f" in
      evar (f : pv -> pv);
      assert (H : forall l, F l = PyLite.Ok (map f l));
      [ let l := fresh "l" in let IH := fresh "IH" in
        intro l; induction l as [|? ? IH];
        [ reflexivity | cbn [map]; cbn -[map] in IH |- *; rewrite IH; try unfold f; reflexivity ]
      | rewrite (H L); clear H; subst f ]
  end.

(** what [pyrun] leaves: list facts *)
Lemma to_nat_zlen {A} (l : list A) : Z.to_nat (zlen l - 0) = List.length l.
Proof. unfold zlen. lia. Qed.

Ltac pylists :=
  cbn [nth truthy Request.value_truth fst snd] in *;
  repeat match goal with
         | H : Request.frame_set_decode _ = Frame.Ok (_, ?c) |- _ =>
             lazymatch goal with
             | _ : 0 <= c |- _ => fail
             | _ => pose proof (frame_set_decode_nonneg _ _ _ H)
             end
         end;
  repeat match goal with H : map of_sv _ = _ |- _ => rewrite H; clear H end;
  rewrite ?unpack_items_bool, ?map_const_repeat, ?range_list_map, ?map_length, ?seq_length, ?map_repeat, ?to_nat_zlen;
  try reflexivity;
  try match goal with
      | H : _ /\ map _ _ = PyLite.list_set _ _ _ |- _ =>
          let H1 := fresh in destruct H as [H1 H]; rewrite ?H
      end;
  try reflexivity;
  try congruence;
  rewrite ?map_length in *; try (exfalso; lia).

Lemma frame_enable_decode_func n lg x chans d :
  call_func program (S (S (S n))) ParseRecv_frame_enable_decode [pr lg; PBytes d; dev_obj x chans] [] =
  emb_req_f (fun l => PList (map PBool l)) (pr lg) (Request.frame_enable_decode d (map ch_en chans)).
Proof.
  pystart. unfold Request.frame_enable_decode. cbv zeta. rewrite ?zlen_map, ?map_length.
  pyrun. all: pylists.
Qed.
#[local] Hint Resolve frame_enable_decode_func : pyspec.

Theorem frame_enable_decode_spec n lg x chans d :
  call_method program (3 + n) (pr lg) "frame_enable_decode" [PBytes d; dev_obj x chans] =
  emb_req (fun l => PList (map PBool l)) (pr lg) (Request.frame_enable_decode d (map ch_en chans)).
Proof.
  pystart. pyrun.
  all: lazymatch goal with |- PyLite.Ok (fst ?a, snd ?a) = _ => destruct a; reflexivity end.
Qed.

Lemma frame_div_decode_func n lg x chans d :
  call_func program (S (S (S n))) ParseRecv_frame_div_decode [pr lg; PBytes d; dev_obj x chans] [] =
  emb_req_f (fun l => PList (map PInt l)) (pr lg) (Request.frame_div_decode d (map ch_div chans)).
Proof.
  pystart. unfold Request.frame_div_decode. cbv zeta. rewrite ?zlen_map, ?map_length.
  pyrun. all: pylists.
Qed.
#[local] Hint Resolve frame_div_decode_func : pyspec.

Theorem frame_div_decode_spec n lg x chans d :
  call_method program (3 + n) (pr lg) "frame_div_decode" [PBytes d; dev_obj x chans] =
  emb_req (fun l => PList (map PInt l)) (pr lg) (Request.frame_div_decode d (map ch_div chans)).
Proof.
  pystart. pyrun.
  all: lazymatch goal with |- PyLite.Ok (fst ?a, snd ?a) = _ => destruct a; reflexivity end.
Qed.

(** * Audit *)
Print Assumptions recv_cb_handle_spec.
Print Assumptions recv_handle_gen_spec.
Print Assumptions recv_handle_spec.
Print Assumptions recv_handle_None_spec.
Print Assumptions recv_raises_wf.
Print Assumptions recv_raises_dispatch.
Print Assumptions frame_start_decode_spec.
Print Assumptions frame_set_decode_spec.
Print Assumptions dev_obj_constructed.
Print Assumptions frame_enable_decode_spec.
Print Assumptions frame_div_decode_spec.


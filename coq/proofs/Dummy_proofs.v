From Coq Require Import List ZArith Bool Lia.
From NX Require Import Dummy.
From NX Require Gen_misc.
Import ListNotations.
Open Scope nat_scope.

Lemma upd_other {A} (l : list A) i j f : i <> j -> nth_error (upd l i f) j = nth_error l j.
Proof.
  revert i j; induction l as [|x r IH]; intros [|i] [|j] H; cbn; try reflexivity; try lia.
  apply IH. lia.
Qed.

Lemma upd_length {A} (l : list A) i f : length (upd l i f) = length l.
Proof. revert i; induction l as [|x r IH]; intros [|i]; cbn; auto. Qed.

Lemma fold_upd_other {A} (f : A -> A) ls : forall (st : list A) j, ~ In j ls ->
  nth_error (fold_left (fun s l => upd s l f) ls st) j = nth_error st j.
Proof.
  induction ls as [|l ls IH]; intros st j H; cbn; [reflexivity|].
  rewrite IH by (intros C; apply H; right; exact C).
  apply upd_other. intros ->. apply H. left. reflexivity.
Qed.

(** frame rule: one operation on instance [a] leaves every object that [a] does not own as it was *)
Lemma dstep_frame st a o j : ~ In j (locs a) ->
  nth_error (fst (dstep st a o)) j = nth_error st j.
Proof.
  intros H. destruct o; cbn [dstep]; unfold loc_of.
  - destruct (nth_error (locs a) k) as [l|] eqn:E; cbn [fst]; [|reflexivity].
    apply upd_other. intros ->. apply H. eapply nth_error_In; eauto.
  - destruct (nth_error (locs a) k) as [l|] eqn:E; cbn [fst]; [|reflexivity].
    apply upd_other. intros ->. apply H. eapply nth_error_In; eauto.
  - destruct (nth_error (locs a) k) as [l|] eqn:E; cbn [fst]; [|reflexivity].
    apply upd_other. intros ->. apply H. eapply nth_error_In; eauto.
  - cbn [fst]. apply fold_upd_other. exact H.
  - reflexivity.
Qed.

Lemma dstep_locs st a o : locs (snd (dstep st a o)) = locs a.
Proof.
  destruct o; cbn [dstep]; unfold loc_of; try reflexivity;
    destruct (nth_error (locs a) k); reflexivity.
Qed.

(** any sequence of requests, samples and start/stop cycles on [a] leaves every
    object of a disjoint instance [b] untouched *)
Theorem independence ops : forall st a b,
  disjoint (locs b) (locs a) ->
  forall j, In j (locs b) -> nth_error (fst (drun st a ops)) j = nth_error st j.
Proof.
  unfold drun. induction ops as [|o ops IH]; intros st a b D j Hj; cbn [fold_left fst snd]; [reflexivity|].
  destruct (dstep st a o) as [st1 a1] eqn:E. cbn [fst snd].
  rewrite (IH st1 a1 b).
  - replace st1 with (fst (dstep st a o)) by (rewrite E; reflexivity).
    apply dstep_frame. apply D. exact Hj.
  - replace (locs a1) with (locs a); [exact D|].
    replace a1 with (snd (dstep st a o)) by (rewrite E; reflexivity). symmetry. apply dstep_locs.
  - exact Hj.
Qed.

Lemma seq_disjoint a n b m : a + n <= b -> disjoint (seq a n) (seq b m).
Proof. intros H x Hx Hy. apply in_seq in Hx. apply in_seq in Hy. lia. Qed.

(** two default instances own disjoint objects (needs the regenerated constructor to copy) *)
Theorem default_default_disjoint n st :
  n <= length st ->
  let '(st1, a) := mk_default n st in
  let '(st2, b) := mk_default n st1 in
  disjoint (locs a) (locs b) /\ disjoint (locs b) (locs a).
Proof.
  intros Hn. unfold mk_default. change Gen_misc.dummy_default_fresh with true. cbn [locs].
  rewrite app_length, firstn_length. split.
  - apply seq_disjoint. lia.
  - intros x Hx Hy. apply in_seq in Hx. apply in_seq in Hy. lia.
Qed.

Theorem default_custom_disjoint n objs st :
  n <= length st ->
  let '(st1, a) := mk_default n st in
  let '(st2, b) := mk_custom objs st1 in
  disjoint (locs a) (locs b) /\ disjoint (locs b) (locs a).
Proof.
  intros Hn. unfold mk_default, mk_custom. change Gen_misc.dummy_default_fresh with true. cbn [locs].
  rewrite app_length, firstn_length. split.
  - apply seq_disjoint. lia.
  - intros x Hx Hy. apply in_seq in Hx. apply in_seq in Hy. lia.
Qed.

Theorem custom_custom_disjoint o1 o2 st :
  let '(st1, a) := mk_custom o1 st in
  let '(st2, b) := mk_custom o2 st1 in
  disjoint (locs a) (locs b) /\ disjoint (locs b) (locs a).
Proof.
  unfold mk_custom. cbn [locs]. rewrite app_length. split.
  - apply seq_disjoint. lia.
  - intros x Hx Hy. apply in_seq in Hx. apply in_seq in Hy. lia.
Qed.

(** a default instance also leaves the module-level objects (locations < n) alone *)
Theorem default_not_module n st : n <= length st ->
  let '(st1, a) := mk_default n st in disjoint (locs a) (seq 0 n).
Proof.
  intros Hn. unfold mk_default. change Gen_misc.dummy_default_fresh with true. cbn [locs].
  intros x Hx Hy. apply in_seq in Hx. apply in_seq in Hy. lia.
Qed.

Lemma upd_same {A} (st : list A) l f c : nth_error st l = Some c -> nth_error (upd st l f) l = Some (f c).
Proof.
  revert l; induction st as [|y st IH]; intros [|l] H; cbn in *; try discriminate.
  - inversion H; subst. reflexivity.
  - apply IH. exact H.
Qed.

(** restart: after stop; start every generator of the instance is at its
    initial state and the read queue is empty *)
Lemma fold_upd_in (ls : list nat) : forall (st : store) l c,
  In l ls -> nth_error st l = Some c ->
  exists c', nth_error (fold_left (fun s l0 => upd s l0 (fun c0 => mkObj (o_en c0) (o_div c0) 0)) ls st) l = Some c' /\
             o_gen c' = 0 /\ o_en c' = o_en c /\ o_div c' = o_div c.
Proof.
  induction ls as [|x ls IH]; intros st l c Hin Hn; [destruct Hin|].
  cbn [fold_left].
  assert (Hx : exists c1, nth_error (upd st x (fun c0 => mkObj (o_en c0) (o_div c0) 0)) l = Some c1 /\
                          o_en c1 = o_en c /\ o_div c1 = o_div c /\ (x = l -> o_gen c1 = 0)).
  { destruct (Nat.eq_dec x l) as [->|Ne].
    - rewrite (upd_same st l _ c Hn). eexists. repeat split.
    - rewrite upd_other by exact Ne. exists c. repeat split; try assumption. congruence. }
  destruct Hx as (c1 & H1 & E1 & E2 & G1).
  destruct (in_dec Nat.eq_dec l ls) as [Hl|Hl].
  - destruct (IH _ l c1 Hl H1) as (c' & A & B & C & D). exists c'. repeat split; congruence.
  - rewrite fold_upd_other by exact Hl. exists c1. repeat split; try assumption.
    apply G1. destruct Hin as [->|Hin]; [reflexivity|contradiction].
Qed.

Theorem restart_resets st a ops :
  let '(st1, a1) := drun st a (ops ++ [DStop; DStart]) in
  qread a1 = [] /\ started_f a1 = true /\
  forall l c, In l (locs a1) -> nth_error (fst (drun st a ops)) l = Some c ->
    exists c', nth_error st1 l = Some c' /\ o_gen c' = 0 /\ o_en c' = o_en c /\ o_div c' = o_div c.
Proof.
  unfold drun. rewrite fold_left_app. cbn [fold_left].
  destruct (fold_left (fun si o => dstep (fst si) (snd si) o) ops (st, a)) as [s0 a0]. cbn [fst snd dstep locs qread started_f].
  split; [reflexivity|]. split; [reflexivity|]. intros l c Hin Hn. apply fold_upd_in; assumption.
Qed.

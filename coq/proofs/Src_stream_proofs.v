(** The interpreted source of the client-side stream sample decoding
    (proto/iparse.py msfmt_get, dsfmt_get; proto/parse.py
    Parser._stream_data_get, Parser.frame_stream_decode) against the hand
    model model/Stream.v. *)
From Coq Require Import String Ascii List ZArith NArith Bool Lia ZifyBool DecimalString.
From NX Require Import Bytes PyStruct Crc Utf8 Rn53 PyLite PyLite_tactics PyLite_tactics_ext PyLite_while
  Src_iframe Src_serialframe Src_dev Src_iparse Src_parse Src_all.
From NX Require Frame Gen_frame Gen_types StreamTypes Stream.
From NX Require Import Bytes_proofs Utf8_proofs Src_serialframe_proofs Src_stream_float Src_stream_utf8 Src_stream_vals.
Import ListNotations.
Import StreamTypes.
Open Scope string_scope.
Open Scope list_scope.
Open Scope Z_scope.

(** * 1. msfmt_get *)

(** a dictionary literal with integer keys, read with [get]: the model's [zassoc] *)
Definition zdict {A} (g : A -> pv) (l : list (Z * A)) : list (pv * pv) :=
  map (fun kv => (PInt (fst kv), g (snd kv))) l.

Lemma dict_get_zassoc {A} (g : A -> pv) (l : list (Z * A)) k kws :
  value_method (PDict (zdict g l)) "get" [PInt k] kws =
  PyLite.Ok (match Stream.zassoc k l with Some v => g v | None => PNone end, PDict (zdict g l)).
Proof.
  cbn [value_method String.eqb Ascii.eqb Bool.eqb].
  generalize (PDict (zdict g l)) as r. intros r.
  induction l as [|[k' v] t IH]; cbn [zdict map Stream.zassoc fst snd]; [reflexivity|].
  cbn [py_eq as_int]. rewrite (Z.eqb_sym k k'). destruct (k' =? k); [reflexivity | exact IH].
Qed.

#[local] Hint Unfold Gen_types.msfmt_rows Gen_types.msfmt_default_suffix : stream_model.
Ltac py_unfold_hook ::= autounfold with stream_model.

Lemma msfmt_get_func n mlen :
  0 <= mlen ->
  call_func program (S n) fn_msfmt_get [PInt mlen] [] =
  PyLite.Ok (PStr (Stream.msfmt_get mlen), Some (PInt mlen)).
Proof.
  intros H. pystart. pysteps;
  unfold Stream.msfmt_get; autounfold with stream_model; cbn [Stream.zassoc];
  repeat match goal with
         | E : (mlen =? ?k) = _ |- _ => rewrite (Z.eqb_sym mlen k) in E; try rewrite E; clear E
         end;
  rewrite ?string_of_Z_str_of_Z by assumption; reflexivity.
Qed.

#[local] Hint Resolve msfmt_get_func : pyspec.

Theorem msfmt_get_spec n mlen :
  0 <= mlen ->
  call_function program (1 + n) "msfmt_get" [PInt mlen] = PyLite.Ok (PStr (Stream.msfmt_get mlen)).
Proof. intros H. pystart. pyrun. Qed.

(** without the hypothesis the two differ: [str(-1)] is "-1" in the source
    (and in the interpreter), the model's [str_of_Z] clamps at 0 *)
Example msfmt_get_negative :
  call_function program 2 "msfmt_get" [PInt (-1)] = PyLite.Ok (PStr "-1B") /\
  Stream.msfmt_get (-1) = "0B".
Proof. split; reflexivity. Qed.

(** * 2. dsfmt_get *)

(** the [DsfmtItem] object of a model row *)
Definition kind_enum (k : Z) : pv :=
  match enum_by_value Gen_types.data_kinds k with
  | Some n => PEnum "EParseDataType" n k true
  | None => PNone
  end.

Definition scale_pv (s : scale) : pv :=
  match s with
  | SNone => PNone
  | SInt z => PInt z
  | SFloat z => let '(n, e) := dyad_norm z 0 in PDy n e    (* the float literal z.0 *)
  end.

Definition row_obj (r : row) : pv :=
  PObj "DsfmtItem"
    [("slen", PInt (r_slen r)); ("dsfmt", PStr (r_fmt r)); ("scale", scale_pv (r_scale r));
     ("dtype", kind_enum (r_kind r)); ("cdecode", PNone); ("user", PBool false)].

Definition dsfmt_dict_expr : expr :=
  match f_body fn_dsfmt_get with
  | Scons (SAssign _ e) _ => e
  | _ => EConst PNone
  end.

(** the 19-entry dictionary literal is evaluated once, here (in the
    environment of the function's entry: names are looked up there first) *)
Lemma dsfmt_dict_eval cf d u :
  eval program cf [("dtype", d); ("user", u)] dsfmt_dict_expr =
  PyLite.Ok (PDict (zdict row_obj Gen_types.dsfmt_rows), [("dtype", d); ("user", u)]).
Proof. Time vm_compute. reflexivity. Qed.

#[local] Arguments zdict : simpl never.
#[local] Arguments Stream.zassoc : simpl never.
#[local] Arguments value_method : simpl never.

Ltac py_stuck_hook h ::=
  lazymatch h with
  | value_method (PDict (zdict _ _)) "get" [PInt _] _ => rewrite dict_get_zassoc
  | value_method _ _ _ _ => unfold value_method
  end.

Ltac fold_dsfmt_dict :=
  match goal with
  | |- context [eval ?P ?cf ?e (EDict ?a ?b)] =>
      change (eval P cf e (EDict a b)) with (eval P cf e dsfmt_dict_expr); rewrite dsfmt_dict_eval
  end.

Lemma dsfmt_get_func n dtype :
  call_func program (S n) fn_dsfmt_get [PInt dtype; PNone] [] =
  match Stream.zassoc dtype Gen_types.dsfmt_rows with
  | Some r => PyLite.Ok (row_obj r, Some (PInt dtype))
  | None => ExcS "KeyError" (self_st (PInt dtype))
  end.
Proof.
  pystart. rewrite call_func_S. pycbn_data. rewrite exec_block_cons. cbn [exec]. fold_dsfmt_dict.
  pysteps; destruct (Stream.zassoc dtype Gen_types.dsfmt_rows); cbn [truthy row_obj] in *; congruence.
Qed.

(** [user] left to its default *)
Lemma dsfmt_get_func1 n dtype :
  call_func program (S n) fn_dsfmt_get [PInt dtype] [] =
  match Stream.zassoc dtype Gen_types.dsfmt_rows with
  | Some r => PyLite.Ok (row_obj r, Some (PInt dtype))
  | None => ExcS "KeyError" (self_st (PInt dtype))
  end.
Proof.
  pystart. rewrite call_func_S. pycbn. rewrite exec_block_cons. cbn [exec]. fold_dsfmt_dict.
  pysteps; destruct (Stream.zassoc dtype Gen_types.dsfmt_rows); cbn [truthy row_obj] in *; congruence.
Qed.

#[local] Hint Resolve dsfmt_get_func dsfmt_get_func1 : pyspec.

Definition emb_dsfmt (r : Frame.res (row * bool)) : PyLite.res pv :=
  match r with
  | Frame.Ok (rw, _) => PyLite.Ok (row_obj rw)
  | Frame.Raise w => Exc w
  | Frame.Err _ => Unsupported ""
  end.

Lemma dsfmt_get_model dtype :
  Stream.dsfmt_get dtype [] =
  match Stream.zassoc dtype Gen_types.dsfmt_rows with
  | Some r => Frame.Ok (r, false)
  | None => Frame.Raise "KeyError"
  end.
Proof. reflexivity. Qed.

Theorem dsfmt_get_spec n dtype :
  call_function program (1 + n) "dsfmt_get" [PInt dtype; PNone] = emb_dsfmt (Stream.dsfmt_get dtype []).
Proof.
  pystart. rewrite dsfmt_get_model. pysteps; destruct (Stream.zassoc dtype Gen_types.dsfmt_rows); reflexivity.
Qed.

Theorem dsfmt_get_spec1 n dtype :
  call_function program (1 + n) "dsfmt_get" [PInt dtype] = emb_dsfmt (Stream.dsfmt_get dtype []).
Proof.
  pystart. rewrite dsfmt_get_model. pysteps; destruct (Stream.zassoc dtype Gen_types.dsfmt_rows); reflexivity.
Qed.

(** * 3. Parser._stream_data_get *)
Definition parser : pv := PObj "Parser" [("_frame", sf); ("_user_types", PNone)].

(** model sample values as interpreter values ([SVLossy] and [SVUnmodelled]
    have no counterpart: see [emb_data]) *)
Definition sval_pv (v : Stream.sval) : pv :=
  match v with
  | Stream.SVInt z => PInt z
  | Stream.SVBool b => PBool b
  | Stream.SVF32 b => f32_to_pv b
  | Stream.SVF64 b => f64_to_pv b
  | Stream.SVDyad n e => PDy n e
  | Stream.SVText cps => PStr (bytes_str (utf8_enc cps))
  | Stream.SVBytes b => PBytes b
  | Stream.SVLossy | Stream.SVUnmodelled => PNone
  end.

Definition is_lossy (v : Stream.sval) : bool :=
  match v with Stream.SVLossy => true | _ => false end.

(** what the interpreter returns where the model returns [r]: text that is
    not valid UTF-8 is outside the interpreter's subset (the source decodes it
    with replacement characters, the model says [SVLossy]) *)
Definition emb_data (r : Frame.res (list Stream.sval)) : PyLite.res pv :=
  match r with
  | Frame.Ok svs => if existsb is_lossy svs then Unsupported "lossy decode"
                    else PyLite.Ok (PTuple (map sval_pv svs))
  | Frame.Raise w => Exc w
  | Frame.Err _ => Unsupported ""
  end.

(** a [DsfmtItem] with the fields the function reads left symbolic *)
Definition item_obj (slen fmt sc : pv) (kn : string) (k : Z) : pv :=
  PObj "DsfmtItem"
    [("slen", slen); ("dsfmt", fmt); ("scale", sc);
     ("dtype", PEnum "EParseDataType" kn k true); ("cdecode", PNone); ("user", PBool false)].

#[local] Arguments binop_float : simpl never.

Definition dyad_pv (k x : Z) : pv := let '(n, e) := dyad_norm (rn53 x) k in PDy n e.

Lemma div_pow2_float_neg x p :
  small_int x -> Zpos p <= 1022 ->
  binop_float ODiv x 0 1 (Zneg p) false true = PyLite.Ok (dyad_pv (Zpos p) x).
Proof. intros. apply (div_pow2_float x (Zpos p)); [assumption | lia]. Qed.

Ltac py_stuck_hook h ::=
  first
  [ py_ground h
  | py_spine h
  | lazymatch h with
    | value_method (PDict (zdict _ _)) "get" [PInt _] _ => rewrite dict_get_zassoc
    | value_method _ _ _ _ => unfold value_method
    | binop_float ODiv ?x 0 1 (Zneg ?p) false true =>
        rewrite (div_pow2_float_neg x p) by (assumption || lia)
    | binop_float _ _ _ _ _ _ _ => unfold binop_float
    end ].

Lemma sdg_scaled n slen fmt p zs :
  In p [8; 16; 32]%positive -> Forall small_int zs ->
  call_func program (S n) Parser__stream_data_get
    [parser; item_obj slen fmt (PDy 1 (Zneg p)) "NUM" 1; PTuple (map PInt zs)] [] =
  PyLite.Ok (PTuple (map (dyad_pv (Zpos p)) zs), Some parser).
Proof.
  intros Hp F. pystart.
  destruct Hp as [<-|[<-|[<-|[]]]]; pystepsc;
  (match goal with
   | |- _ = PyLite.Ok (PTuple (map ?h zs), _) => rewrite (comp_loop_map_P small_int PInt h)
   end; [ pyrun | intros y Hy; pyrun | exact F ]).
Qed.

(** unit scale (the integer rows: [1]; FLOAT/DOUBLE: [1.0]), NONE rows: the tuple is returned as it is *)
Lemma sdg_unit_int n slen fmt u :
  call_func program (S n) Parser__stream_data_get [parser; item_obj slen fmt (PInt 1) "NUM" 1; u] [] =
  PyLite.Ok (u, Some parser).
Proof. pystart. pyrunc. Qed.

Lemma sdg_unit_float n slen fmt u :
  call_func program (S n) Parser__stream_data_get [parser; item_obj slen fmt (PDy 1 0) "NUM" 1; u] [] =
  PyLite.Ok (u, Some parser).
Proof. pystart. pyrunc. Qed.

Lemma sdg_none n slen fmt u :
  call_func program (S n) Parser__stream_data_get [parser; item_obj slen fmt PNone "NONE" 0; u] [] =
  PyLite.Ok (u, Some parser).
Proof. pystart. pyrunc. Qed.

(** CHAR rows: one bytes item, decoded as UTF-8; ill-formed text is outside
    the interpreter's subset (the source substitutes U+FFFD) *)
Lemma sdg_char n slen fmt b :
  call_func program (S n) Parser__stream_data_get
    [parser; item_obj slen fmt PNone "CHAR" 2; PTuple [PBytes b]] [] =
  match utf8_dec b with
  | Some _ => PyLite.Ok (PTuple [PStr (bytes_str b)], Some parser)
  | None => Unsupported "lossy decode"
  end.
Proof. pystart. pyrunc. Qed.

Lemma sdg_char_other n slen fmt l :
  zlen l <> 1 ->
  call_func program (S n) Parser__stream_data_get
    [parser; item_obj slen fmt PNone "CHAR" 2; PTuple l] [] =
  PyLite.Ok (PTuple l, Some parser).
Proof. intros H. pystart. pyrunc. Qed.

(** ** the rows of the table *)
Lemma raw_not_lossy vals : existsb is_lossy (map Stream.sval_raw vals) = false.
Proof.
  induction vals as [|v t IH]; [reflexivity|]. cbn [map existsb]. rewrite IH.
  destruct v as [| | | | |n x]; cbn [Stream.sval_raw]; try reflexivity.
  destruct (dyad_norm n x); reflexivity.
Qed.

Lemma raw_pv vals : map sval_pv (map Stream.sval_raw vals) = map of_sv vals.
Proof.
  rewrite map_map. apply map_ext. intros [| | | | |n x]; try reflexivity.
  cbn [Stream.sval_raw of_sv]. destruct (dyad_norm n x); reflexivity.
Qed.

Lemma div_scale_not_lossy sc zs :
  existsb is_lossy (map (Stream.div_scale sc) (map VInt zs)) = false.
Proof.
  induction zs as [|z t IH]; [reflexivity|]. cbn [map existsb]. rewrite IH.
  unfold Stream.div_scale. destruct (pow2_log sc); [|reflexivity].
  destruct (dyad_norm (rn53 z) z0); reflexivity.
Qed.

Lemma div_scale_pv sc k zs :
  pow2_log sc = Some k ->
  map sval_pv (map (Stream.div_scale sc) (map VInt zs)) = map (dyad_pv k) zs.
Proof.
  intros H. rewrite !map_map. apply map_ext. intros z. unfold Stream.div_scale, dyad_pv. rewrite H.
  destruct (dyad_norm (rn53 z) k); reflexivity.
Qed.

Lemma of_sv_ints zs : map of_sv (map VInt zs) = map PInt zs.
Proof. rewrite map_map. reflexivity. Qed.

Ltac row_obj_compute :=
  match goal with
  | |- context [row_obj ?r] => let v := eval vm_compute in (row_obj r) in change (row_obj r) with v
  end.

Lemma stream_data_get_func n t r vals :
  Stream.zassoc t Gen_types.dsfmt_rows = Some r -> vals_ok r vals ->
  call_func program (S n) Parser__stream_data_get [parser; row_obj r; PTuple (map of_sv vals)] [] =
  do v <- attach (self_st parser) (emb_data (Stream.stream_data_get r vals)); PyLite.Ok (v, Some parser).
Proof.
  intros Hr Hv. apply zassoc_In in Hr. unfold Gen_types.dsfmt_rows in Hr. cbn [In] in Hr.
  repeat (destruct Hr as [Hr|Hr]; [inversion Hr; subst t r; clear Hr|]); try destruct Hr.
  all: row_obj_compute.
  all: unfold vals_ok in Hv; unfold Stream.stream_data_get, emb_data;
       change (Stream.kind_of "NUM") with 1 in *; change (Stream.kind_of "CHAR") with 2 in *;
       cbn [r_kind r_scale Z.eqb Pos.eqb] in *;
       repeat match goal with
              | |- context [Stream.scale_divides ?s] =>
                  let v := eval vm_compute in (Stream.scale_divides s) in
                  change (Stream.scale_divides s) with v in *
              end; cbv iota in *.
  all: try (rewrite raw_not_lossy, raw_pv; cbn [bind]).
  1: apply sdg_none.
  1-8: apply sdg_unit_int.
  1-2: apply sdg_unit_float.
  1-6: destruct Hv as (zs & -> & F); rewrite div_scale_not_lossy, of_sv_ints;
       erewrite div_scale_pv by (vm_compute; reflexivity); cbn [bind];
       apply (sdg_scaled n _ _ _ zs); [cbn; tauto | exact F].
  all: destruct Hv as [[b ->]|Hv].
  1,3: cbn [map of_sv]; (etransitivity; [apply sdg_char|]); unfold Stream.text_of;
       destruct (utf8_dec b) eqn:E; cbn [existsb is_lossy map sval_pv orb bind];
       [rewrite (utf8_enc_dec _ _ E)|]; reflexivity.
  all: assert (Hl : zlen (map of_sv vals) <> 1) by (unfold zlen in *; rewrite map_length; exact Hv).
  all: destruct vals as [|v [|v' t]];
       [ | exfalso; apply Hv; reflexivity | destruct v ];
       rewrite raw_not_lossy, raw_pv; cbn [bind]; apply sdg_char_other; exact Hl.
Qed.

#[local] Hint Resolve stream_data_get_func : pyspec.

(** [emb_data] is opened here (for this theorem only): a case split on the
    folded [emb_data (..) : res _] would leave the impossible case [ExcS] *)
Section SdgSpec.
#[local] Hint Unfold emb_data : stream_model.
Theorem stream_data_get_spec n t r vals :
  Stream.zassoc t Gen_types.dsfmt_rows = Some r -> vals_ok r vals ->
  call_method program (1 + n) parser "_stream_data_get" [row_obj r; PTuple (map of_sv vals)] =
  do v <- emb_data (Stream.stream_data_get r vals); PyLite.Ok (v, parser).
Proof.
  intros Hr Hv. pystart. pyrun.
Qed.
End SdgSpec.

(** * 4. Parser.frame_stream_decode *)

(** ** the device object *)
Record chan_cfg := mkCfg
  { cc_chan : Z; cc_type : Z; cc_vdim : Z; cc_name : string; cc_en : bool; cc_div : Z; cc_mlen : Z }.

(** what [DDeviceChannelData.__init__] / [__post_init__] store *)
Definition chan_data_obj (cc : chan_cfg) : pv :=
  let d := Z.land (cc_type cc) 31 in
  PObj "DDeviceChannelData"
    [("chan", PInt (cc_chan cc)); ("_type", PInt (cc_type cc)); ("vdim", PInt (cc_vdim cc));
     ("name", PStr (cc_name cc)); ("en", PBool (cc_en cc)); ("div", PInt (cc_div cc));
     ("mlen", PInt (cc_mlen cc));
     ("dtype", PInt d); ("critical", PBool (negb (Z.land (cc_type cc) 128 =? 0)));
     ("type_res", PInt (Z.land (cc_type cc) 96)); ("is_valid", PBool (negb (d =? 0)));
     ("is_numerical", PBool (negb ((d =? 0) || (d =? 1) || (d =? 18) || (d =? 19))));
     ("_initdone", PBool true)].

Definition chan_obj (cc : chan_cfg) : pv :=
  PObj "DeviceChannel" [("_data", chan_data_obj cc); ("_func", PNone); ("_cntr", PInt 0)].

(** the model's view of a channel *)
Definition chan_l_of (cc : chan_cfg) : Stream.chan_l :=
  Stream.mkChanL (Z.land (cc_type cc) 31) (cc_vdim cc) (cc_mlen cc) (cc_chan cc).

(** [ddata]: the [DDeviceData] object, not read here *)
Definition dev_obj (ddata : pv) (cfgs : list chan_cfg) : pv :=
  PObj "Device" [("_data", ddata); ("_channels", PList (map chan_obj cfgs))].

(** vdim and mlen are bytes of the channel-info frame *)
Definition cfg_ok (cc : chan_cfg) : Prop := 0 <= cc_vdim cc <= 255 /\ 0 <= cc_mlen cc.

#[local] Arguments Stream.msfmt_get : simpl never.
#[local] Arguments kind_enum : simpl never.
#[local] Arguments py_index : simpl never.

Lemma data_func n cc :
  call_func program (S n) DeviceChannel_data [chan_obj cc] [] =
  PyLite.Ok (chan_data_obj cc, Some (chan_obj cc)).
Proof. pystart. pyrun. Qed.

Lemma nth_map_chan cfgs k :
  nth k (map chan_obj cfgs) PNone =
  match nth_error cfgs k with Some cc => chan_obj cc | None => PNone end.
Proof. revert k. induction cfgs as [|c t IH]; intros [|k]; cbn; auto. Qed.

Lemma py_index_chan cfgs b :
  py_index (PList (map chan_obj cfgs)) (PInt (Z.of_N b)) =
  match nth_error cfgs (N.to_nat b) with
  | Some cc => PyLite.Ok (chan_obj cc)
  | None => Exc "IndexError"
  end.
Proof.
  unfold py_index. cbn [as_int]. unfold norm_index. rewrite map_length.
  destruct (nth_error cfgs (N.to_nat b)) as [cc|] eqn:E.
  - assert (L : (N.to_nat b < List.length cfgs)%nat) by (apply nth_error_Some; congruence).
    replace ((0 <=? Z.of_N b) && (Z.of_N b <? Z.of_nat (List.length cfgs))) with true by lia.
    rewrite nth_map_chan. replace (Z.to_nat (Z.of_N b)) with (N.to_nat b) by lia. rewrite E. reflexivity.
  - apply nth_error_None in E.
    replace ((0 <=? Z.of_N b) && (Z.of_N b <? Z.of_nat (List.length cfgs))) with false by lia.
    replace ((Z.of_N b <? 0) && (0 <=? Z.of_N b + Z.of_nat (List.length cfgs))) with false by lia.
    reflexivity.
Qed.

Ltac py_stuck_hook h ::=
  first
  [ py_ground h
  | py_spine h
  | lazymatch h with
    | value_method (PDict (zdict _ _)) "get" [PInt _] _ => rewrite dict_get_zassoc
    | value_method _ _ _ _ => unfold value_method
    | binop_float ODiv ?x 0 1 (Zneg ?p) false true =>
        rewrite (div_pow2_float_neg x p) by (assumption || lia)
    | binop_float _ _ _ _ _ _ _ => unfold binop_float
    | py_index (PList (map chan_obj _)) (PInt (Z.of_N _)) => rewrite py_index_chan
    | py_index (PBytes _) (PInt _) =>
        rewrite py_index_bytes by first [ lia | unfold zlen; cbn [List.length]; lia ]
    | py_index _ _ => unfold py_index
    | native_safe ?f => erewrite (native_safe_le _ f) by eassumption
    end
  | py_nested h ].

Lemma channel_get_func n dd cfgs b :
  call_func program (S n) Device_channel_get [dev_obj dd cfgs; PInt (Z.of_N b)] [] =
  PyLite.Ok (match nth_error cfgs (N.to_nat b) with Some cc => chan_obj cc | None => PNone end,
             Some (dev_obj dd cfgs)).
Proof. pystart. pyrun. Qed.

#[local] Hint Resolve data_func channel_get_func : pyspec.

(** ** the loop of frame_stream_decode *)
Fixpoint find_while (ss : stmts) : option (expr * stmts) :=
  match ss with
  | Snil => None
  | Scons (SWhile c b) _ => Some (c, b)
  | Scons _ r => find_while r
  end.
Definition loop_cond : expr :=
  match find_while (f_body Parser_frame_stream_decode) with Some (c, _) => c | None => EConst PNone end.
Definition loop_body : stmts :=
  match find_while (f_body Parser_frame_stream_decode) with Some (_, b) => b | None => Snil end.

Definition sample_obj (chan kind vdim mlen : Z) (data meta : pv) : pv :=
  PObj "DParseStreamData"
    [("chan", PInt chan); ("dtype", kind_enum kind); ("vdim", PInt vdim); ("mlen", PInt mlen);
     ("data", data); ("meta", meta)].

(** one iteration, as the interpreter performs it: the sample at index [i] of
    the frame data and the index after it (the model's [decode_one], on
    indices instead of remainders, failing at once on ill-formed text) *)
Definition one_sample (cfgs : list chan_cfg) (data : bytes) (i : Z) : PyLite.res (pv * Z) :=
  match nth_error cfgs (N.to_nat (nth (Z.to_nat i) data 0%N)) with
  | None => Exc "AssertionError"
  | Some cc =>
    match Stream.zassoc (Z.land (cc_type cc) 31) Gen_types.dsfmt_rows with
    | None => Exc "KeyError"
    | Some rw =>
      match parse_fmt (row_sfmt rw (cc_vdim cc)) with
      | None => Exc "struct.error"
      | Some f =>
        match unpack f (pyslice data (i + 1) (i + 1 + r_slen rw * cc_vdim cc)) with
        | None => Exc "struct.error"
        | Some vals =>
          do ret <- emb_data (Stream.stream_data_get rw vals);
          match parse_fmt (String "<" (Stream.msfmt_get (cc_mlen cc))) with
          | None => Exc "struct.error"
          | Some fm =>
            match unpack fm (pyslice data (i + 1 + r_slen rw * cc_vdim cc)
                                          (i + 1 + r_slen rw * cc_vdim cc + cc_mlen cc)) with
            | None => Exc "struct.error"
            | Some mvals =>
                PyLite.Ok (sample_obj (cc_chan cc) (r_kind rw) (cc_vdim cc) (cc_mlen cc)
                                      ret (PTuple (map of_sv mvals)),
                           i + 1 + r_slen rw * cc_vdim cc + cc_mlen cc)
            end
          end
        end
      end
    end
  end.

(** callee specifications in the form the loop meets them *)
Lemma cfg_ok_nth cfgs k cc : Forall cfg_ok cfgs -> nth_error cfgs k = Some cc -> cfg_ok cc.
Proof. intros F E. eapply Forall_forall; [exact F|]. eapply nth_error_In, E. Qed.

Lemma msfmt_get_func_cfg n cfgs k cc :
  Forall cfg_ok cfgs -> nth_error cfgs k = Some cc ->
  call_func program (S n) fn_msfmt_get [PInt (cc_mlen cc)] [] =
  PyLite.Ok (PStr (Stream.msfmt_get (cc_mlen cc)), Some (PInt (cc_mlen cc))).
Proof. intros F E. apply msfmt_get_func. apply (cfg_ok_nth _ _ _ F E). Qed.

Lemma sdg_loop_nz n cfgs k cc rw f b :
  Forall cfg_ok cfgs -> nth_error cfgs k = Some cc ->
  Stream.zassoc (Z.land (cc_type cc) 31) Gen_types.dsfmt_rows = Some rw ->
  (cc_vdim cc =? 0) = false ->
  parse_fmt (String "<" (string_of_Z (cc_vdim cc) ++ r_fmt rw)) = Some f ->
  unpack f b = Some (unpack_items (fend f) (fitems f) b) ->
  call_func program (S n) Parser__stream_data_get
    [parser; row_obj rw; PTuple (map of_sv (unpack_items (fend f) (fitems f) b))] [] =
  do v <- attach (self_st parser) (emb_data (Stream.stream_data_get rw (unpack_items (fend f) (fitems f) b)));
  PyLite.Ok (v, Some parser).
Proof.
  intros F E Hr Hz Hf Hu. eapply stream_data_get_func; [exact Hr|].
  eapply vals_ok_unpack; [exact Hr | apply (cfg_ok_nth _ _ _ F E) | | exact Hu].
  unfold row_sfmt. rewrite Hz. exact Hf.
Qed.

Lemma sdg_loop_z n cfgs k cc rw f b :
  Forall cfg_ok cfgs -> nth_error cfgs k = Some cc ->
  Stream.zassoc (Z.land (cc_type cc) 31) Gen_types.dsfmt_rows = Some rw ->
  parse_fmt (String "<" (r_fmt rw)) = Some f ->
  unpack f b = Some (unpack_items (fend f) (fitems f) b) ->
  call_func program (S n) Parser__stream_data_get
    [parser; row_obj rw; PTuple (map of_sv (unpack_items (fend f) (fitems f) b))] [] =
  do v <- attach (self_st parser) (emb_data (Stream.stream_data_get rw (unpack_items (fend f) (fitems f) b)));
  PyLite.Ok (v, Some parser).
Proof.
  intros F E Hr Hf Hu. eapply stream_data_get_func; [exact Hr|].
  eapply (vals_ok_unpack _ _ 0); [exact Hr | lia | | exact Hu].
  exact Hf.
Qed.

#[local] Hint Resolve msfmt_get_func_cfg sdg_loop_nz sdg_loop_z : pyspec.

(** the environment at the head of the loop: five variables, then the locals
    of the body once it has run *)
Definition base_env (frame dev : pv) (a : Z * list pv) : env :=
  [("self", parser); ("frame", frame); ("dev", dev); ("samples", PList (snd a)); ("i", PInt (fst a))].

Definition view (o : out) : option (env * list string) :=
  match o with
  | ONorm e => Some (firstn 5 e, map fst (skipn 5 e))
  | _ => None
  end.

(** ... and of a result: of a raise, what [call_func] keeps of it (the receiver) *)
Definition xview (X : PyLite.res out) : PyLite.res (option (env * list string)) :=
  match X with
  | PyLite.Ok o => PyLite.Ok (view o)
  | Exc w => Exc w
  | ExcS w e => ExcS w (match lookup "self" e with Some v => self_st v | None => [] end)
  | Fuel => Fuel
  | Unsupported w => Unsupported w
  end.

(** where the body raises, [self] is still the parser *)
Definition raise_env (e : env) : Prop := lookup "self" e = Some parser.

Definition body_locals : list string :=
  ["chan"; "meta"; "decode"; "sfmt"; "offset"; "unpacked"; "retdata"; "mdata"; "sample"].

Definition step_of (cfgs : list chan_cfg) (data : bytes) (a : Z * list pv) : PyLite.res (Z * list pv) :=
  do (s, i') <- one_sample cfgs data (fst a); PyLite.Ok (i', snd a ++ [s]).

Definition stream_frame (data : bytes) : pv := frame_obj (enum_id 1) data (perr_obj "NOERR" 0).

Ltac loop_body_compute := let b := eval vm_compute in loop_body in change loop_body with b.

(** one iteration from the loop head, first time round (no body locals yet) *)
Lemma iter_first n dd cfgs data i acc :
  Forall cfg_ok cfgs -> 0 <= i < zlen data ->
  xview (exec_block program (call_func program (S (S n))) (S (S n))
           (base_env (stream_frame data) (dev_obj dd cfgs) (i, acc)) loop_body) =
  do a' <- attach (self_st parser) (step_of cfgs data (i, acc));
  PyLite.Ok (Some (base_env (stream_frame data) (dev_obj dd cfgs) a', body_locals)).
Proof.
  intros F Hi. unfold xview, step_of, one_sample, row_sfmt, base_env, stream_frame. cbn [fst snd].
  loop_body_compute. pyrun.
Qed.

(** ... and any later time (the body locals hold the previous iteration's values) *)
Lemma iter_next n dd cfgs data i acc v1 v2 v3 v4 v5 v6 v7 v8 v9 :
  Forall cfg_ok cfgs -> 0 <= i < zlen data ->
  xview (exec_block program (call_func program (S (S n))) (S (S n))
           (base_env (stream_frame data) (dev_obj dd cfgs) (i, acc) ++
            combine body_locals [v1; v2; v3; v4; v5; v6; v7; v8; v9]) loop_body) =
  do a' <- attach (self_st parser) (step_of cfgs data (i, acc));
  PyLite.Ok (Some (base_env (stream_frame data) (dev_obj dd cfgs) a', body_locals)).
Proof.
  intros F Hi. unfold xview, step_of, one_sample, row_sfmt, base_env, stream_frame, body_locals.
  cbn [fst snd combine app].
  loop_body_compute. pyrun.
Qed.

(** ** the loop invariant *)
Definition tail_shape (tl : env) : Prop := tl = [] \/ map (@fst string pv) tl = body_locals.

Definition loop_inv (frame dev : pv) (a : Z * list pv) (e : env) : Prop :=
  0 <= fst a /\ exists tl, tail_shape tl /\ e = base_env frame dev a ++ tl.

Lemma tail_explicit tl :
  map (@fst string pv) tl = body_locals ->
  exists v1 v2 v3 v4 v5 v6 v7 v8 v9, tl = combine body_locals [v1; v2; v3; v4; v5; v6; v7; v8; v9].
Proof.
  unfold body_locals. intros H.
  do 9 (destruct tl as [|[? ?] tl]; [discriminate|]). destruct tl; [|discriminate].
  cbn in H. inversion H; subst. do 9 eexists. reflexivity.
Qed.

(** from the "view" of an iteration to the relational form *)
Lemma view_rel frame dev (S : PyLite.res (Z * list pv)) (X : PyLite.res out) :
  xview X =
  (do a' <- attach (self_st parser) S; PyLite.Ok (Some (base_env frame dev a', body_locals))) ->
  (forall a', S = PyLite.Ok a' -> 0 <= fst a') ->
  res_rel (norm_rel (loop_inv frame dev)) raise_env S X.
Proof.
  intros H Hinv. unfold raise_env.
  destruct S as [a'| | | |]; destruct X as [o| |w' e| |]; cbn [xview attach bind res_rel] in *;
    try discriminate; try (inversion H; reflexivity).
  - inversion H as [Hv]. destruct o as [e|?|?|?]; cbn [view] in Hv; try discriminate.
    inversion Hv as [[H1 H2]].
    exists (ONorm e). split; [reflexivity|]. exists e. split; [reflexivity|].
    split; [apply Hinv; reflexivity|].
    exists (skipn 5 e). split; [right; exact H2|]. rewrite <- H1. exact (eq_sym (firstn_skipn 5 e)).
  - exists e. destruct (lookup "self" e); inversion H; subst; split; reflexivity.
  - exists e. destruct (lookup "self" e); inversion H; subst; split; reflexivity.
Qed.

Lemma slen_nonneg t rw : Stream.zassoc t Gen_types.dsfmt_rows = Some rw -> 0 <= r_slen rw.
Proof.
  intros Hr. apply zassoc_In in Hr. unfold Gen_types.dsfmt_rows in Hr. cbn [In] in Hr.
  repeat (destruct Hr as [Hr|Hr]; [inversion Hr; subst; cbn; lia|]). destruct Hr.
Qed.

(** an iteration consumes at least the channel byte *)
Lemma one_sample_progress cfgs data i s i' :
  Forall cfg_ok cfgs -> one_sample cfgs data i = PyLite.Ok (s, i') -> i < i'.
Proof.
  intros F. unfold one_sample.
  destruct (nth_error cfgs _) as [cc|] eqn:Ecc; [|discriminate].
  destruct (cfg_ok_nth _ _ _ F Ecc) as [Hv Hm].
  destruct (Stream.zassoc _ _) as [rw|] eqn:Erow; [|discriminate].
  pose proof (slen_nonneg _ _ Erow) as Hs.
  destruct (parse_fmt _); [|discriminate]. destruct (unpack _ _); [|discriminate].
  destruct (emb_data _); cbn [bind]; try discriminate.
  destruct (parse_fmt _); [|discriminate]. destruct (unpack _ _); [|discriminate].
  intros H. inversion H. nia.
Qed.

Lemma step_of_progress cfgs data a a' :
  Forall cfg_ok cfgs -> step_of cfgs data a = PyLite.Ok a' -> fst a < fst a'.
Proof.
  intros F. unfold step_of. destruct (one_sample cfgs data (fst a)) as [[s i']| | | |] eqn:E; cbn [bind]; try discriminate.
  intros H. inversion H. cbn [fst]. eapply one_sample_progress; eassumption.
Qed.

Definition loop_test (data : bytes) (a : Z * list pv) : bool := fst a <? zlen data.

Ltac loop_cond_compute := let b := eval vm_compute in loop_cond in change loop_cond with b.

Lemma loop_cond_eval cf data dev a tl :
  tail_shape tl ->
  eval program cf (base_env (stream_frame data) dev a ++ tl) loop_cond =
  PyLite.Ok (PBool (loop_test data a), base_env (stream_frame data) dev a ++ tl).
Proof.
  intros [->|Ht].
  - unfold base_env, stream_frame, loop_test. cbn [app]. loop_cond_compute. pyrun.
  - destruct (tail_explicit tl Ht) as (v1 & v2 & v3 & v4 & v5 & v6 & v7 & v8 & v9 & ->).
    unfold base_env, stream_frame, loop_test, body_locals. cbn [app combine]. loop_cond_compute. pyrun.
Qed.

Theorem loop_spec n dd cfgs data :
  Forall cfg_ok cfgs ->
  forall k a e, loop_inv (stream_frame data) (dev_obj dd cfgs) a e ->
  res_rel (norm_rel (loop_inv (stream_frame data) (dev_obj dd cfgs))) raise_env
          (while_model (loop_test data) (step_of cfgs data) k a)
          (while_loop program (call_func program (S (S n))) (S (S n)) loop_cond loop_body k e).
Proof.
  intros F. apply while_loop_rel.
  - intros a e (H0 & tl & Ht & ->). eexists. split; [apply loop_cond_eval, Ht|reflexivity].
  - intros [i acc] e (H0 & tl & Ht & ->) C. unfold loop_test in C. cbn [fst] in *.
    apply view_rel.
    + destruct Ht as [->|Ht].
      * rewrite app_nil_r. apply iter_first; [exact F|lia].
      * destruct (tail_explicit tl Ht) as (v1 & v2 & v3 & v4 & v5 & v6 & v7 & v8 & v9 & ->).
        apply iter_next; [exact F|lia].
    + intros a' Ha. apply step_of_progress in Ha; [|exact F]. cbn [fst] in Ha. lia.
Qed.

(** ** frame_stream_decode, exactly, for every fuel *)
Definition stream_obj (flags : Z) (samples : list pv) : pv :=
  PObj "DParseStream" [("flags", PInt flags); ("samples", PList samples)].

Definition decode_loop (cfgs : list chan_cfg) (data : bytes) (k : nat) : PyLite.res (Z * list pv) :=
  while_model (loop_test data) (step_of cfgs data) k (1, []).

Definition decode_result (cfgs : list chan_cfg) (data : bytes) (k : nat) : PyLite.res pv :=
  match data with
  | [] => PyLite.Ok PNone
  | flags :: _ => do a <- decode_loop cfgs data k; PyLite.Ok (stream_obj (Z.of_N flags) (snd a))
  end.

#[local] Hint Unfold enum_id perr_obj frame_obj Gen_frame.parse_ids stream_frame : stream_loop.
Ltac py_unfold_hook ::= autounfold with stream_loop.

Lemma frame_stream_decode_func n dd cfgs data :
  Forall cfg_ok cfgs ->
  call_func program (S (S (S n))) Parser_frame_stream_decode
    [parser; stream_frame data; dev_obj dd cfgs] [] =
  do v <- attach (self_st parser) (decode_result cfgs data (S (S n))); PyLite.Ok (v, Some parser).
Proof.
  intros F. pystart. unfold decode_result, decode_loop.
  destruct data as [|flags rest]; [pyrun|].
  pysteps.
  match goal with
  | |- context [while_loop ?P ?cf ?lf ?c ?b ?k ?e] =>
      assert (H : res_rel (norm_rel (loop_inv (stream_frame (flags :: rest)) (dev_obj dd cfgs))) raise_env
                    (while_model (loop_test (flags :: rest)) (step_of cfgs (flags :: rest)) k (1, []))
                    (while_loop P cf lf c b k e))
  end.
  { apply (loop_spec n dd cfgs (flags :: rest) F (S (S n)) (1, [])).
    split; [cbn; lia|]. exists []. split; [left; reflexivity|reflexivity]. }
  unfold res_rel in H.
  destruct (while_model _ _ _ _) as [a'| | | |]; cbn [attach bind].
  - destruct H as (o & -> & e' & -> & H0 & tl & Ht & ->).
    destruct Ht as [->|Ht].
    + unfold base_env. cbn [app]. pyrun.
    + destruct (tail_explicit tl Ht) as (v1 & v2 & v3 & v4 & v5 & v6 & v7 & v8 & v9 & ->).
      unfold base_env, body_locals. cbn [app combine]. pyrun.
  - destruct H as (e' & -> & He'). cbn [bind]. unfold raise_env in He'. pycbn. rewrite He'. reflexivity.
  - destruct H as (e' & -> & He'). cbn [bind]. unfold raise_env in He'. pycbn. rewrite He'. reflexivity.
  - rewrite H. reflexivity.
  - rewrite H. reflexivity.
Qed.

#[local] Hint Resolve frame_stream_decode_func : pyspec.

(** the model raises without state *)
Lemma emb_data_strip r : strip (emb_data r) = emb_data r.
Proof. destruct r as [svs| |]; cbn [emb_data]; [destruct (existsb _ _)|..]; reflexivity. Qed.

Lemma one_sample_strip cfgs data i : strip (one_sample cfgs data i) = one_sample cfgs data i.
Proof.
  unfold one_sample.
  destruct (nth_error _ _); [|reflexivity]. destruct (Stream.zassoc _ _); [|reflexivity].
  destruct (parse_fmt _); [|reflexivity]. destruct (unpack _ _); [|reflexivity].
  match goal with |- context [emb_data ?X] => pose proof (emb_data_strip X) as H; destruct (emb_data X) end;
    cbn [bind strip] in *; try reflexivity; try discriminate.
  destruct (parse_fmt _); [|reflexivity]. destruct (unpack _ _); reflexivity.
Qed.

Lemma step_of_strip cfgs data a : strip (step_of cfgs data a) = step_of cfgs data a.
Proof.
  unfold step_of. pose proof (one_sample_strip cfgs data (fst a)) as H.
  destruct (one_sample cfgs data (fst a)) as [[s i']| | | |]; cbn [bind strip] in *; try reflexivity; discriminate.
Qed.

Lemma decode_result_strip cfgs data k : strip (decode_result cfgs data k) = decode_result cfgs data k.
Proof.
  unfold decode_result, decode_loop. destruct data as [|flags rest]; [reflexivity|].
  pose proof (while_model_strip (loop_test (flags :: rest)) (step_of cfgs (flags :: rest))
                (step_of_strip cfgs (flags :: rest)) k (1, [])) as H.
  destruct (while_model _ _ _ _); cbn [bind strip] in *; try reflexivity; discriminate.
Qed.

Theorem frame_stream_decode_exact n dd cfgs data :
  Forall cfg_ok cfgs ->
  call_method program (3 + n) parser "frame_stream_decode" [stream_frame data; dev_obj dd cfgs] =
  do v <- decode_result cfgs data (2 + n); PyLite.Ok (v, parser).
Proof.
  (* [decode_result] stays folded: with [strip] on it, the case split on the
     folded term closes in all five cases *)
  intros F. pystart. rewrite <- (decode_result_strip cfgs data (S (S n))). pyrun.
Qed.

(** the early exits: no frame, a frame that is not a stream frame *)
Theorem frame_stream_decode_no_frame n dev :
  call_method program (1 + n) parser "frame_stream_decode" [PNone; dev] = PyLite.Ok (PNone, parser).
Proof. pystart. pyrun. Qed.

Theorem frame_stream_decode_other_id n name id data err dev :
  id <> 1 ->
  call_method program (1 + n) parser "frame_stream_decode"
    [frame_obj (PEnum "EParseId" name id true) data err; dev] = PyLite.Ok (PNone, parser).
Proof. intros H. pystart. pyrun. Qed.

(** * Audit *)
Print Assumptions msfmt_get_spec.
Print Assumptions dsfmt_get_spec.
Print Assumptions dsfmt_get_spec1.
Print Assumptions stream_data_get_spec.
Print Assumptions loop_spec.
Print Assumptions frame_stream_decode_exact.
Print Assumptions frame_stream_decode_no_frame.
Print Assumptions frame_stream_decode_other_id.

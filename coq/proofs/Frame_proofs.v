(** Frame codec: layout, round-trip, refusal (C01). *)
From Coq Require Import Lia ZifyBool ZifyNat ZifyN String.
From NX Require Import Bytes PyStruct Crc Frame Wire Bytes_proofs Crc_proofs.
From NX Require Gen_frame.
Ltac Zify.zify_post_hook ::= Z.to_euclidean_division_equations.
Open Scope Z_scope.

(** ** The regenerated constants are the NxScope ones. *)
Lemma gen_crc : crc_p = xmodem_params.
Proof. reflexivity. Qed.

Lemma crc16_spec d : crc16 d = crc_spec d.
Proof. unfold crc16. rewrite gen_crc. apply crc_gen_xmodem. Qed.

Lemma gen_hdr_fmt :
  parse_fmt Gen_frame.create_hdr_fmt = Some (mkFmt LE false [mkItem 1 CB; mkItem 1 CH; mkItem 1 CB]).
Proof. reflexivity. Qed.
Lemma gen_hdr_decode_fmt :
  parse_fmt Gen_frame.hdr_decode_fmt = Some (mkFmt LE false [mkItem 1 CB; mkItem 1 CH; mkItem 1 CB]).
Proof. reflexivity. Qed.
Lemma gen_foot_fmt :
  parse_fmt Gen_frame.create_foot_fmt = Some (mkFmt BE false [mkItem 1 CH]).
Proof. reflexivity. Qed.

Lemma known_id_iff z : known_id z = true <-> 0 <= z <= 8.
Proof.
  unfold known_id. cbn [Gen_frame.parse_ids existsb snd]. split.
  - intros H. rewrite !orb_true_iff in H. lia.
  - intros H. rewrite !orb_true_iff. lia.
Qed.

(** ** packing the two fixed formats *)
Lemma unsgn_small k z : 0 <= z < Z.of_N (pow256 k) -> unsgn k z = Z.to_N z.
Proof. intros H. unfold unsgn. rewrite Z.mod_small by exact H. reflexivity. Qed.

Lemma pack_u8 e z : 0 <= z < 256 -> pack_one e CB (VInt z) = Some [Z.to_N z].
Proof.
  intros H. unfold pack_one. cbn [int_of_value code_size code_signed].
  unfold in_unsigned. change (pow256 1) with 256%N.
  replace ((0 <=? z) && (z <? Z.of_N 256)) with true by lia.
  rewrite unsgn_small by (change (pow256 1) with 256%N; lia).
  destruct e; cbn; unfold be_enc; cbn;
    (replace (Z.to_N z mod 256)%N with (Z.to_N z) by lia); reflexivity.
Qed.

Lemma pack_u16 e z : 0 <= z < 65536 ->
  pack_one e CH (VInt z) =
  Some (match e with
        | LE => [Z.to_N z mod 256; Z.to_N z / 256]%N
        | BE => [Z.to_N z / 256; Z.to_N z mod 256]%N
        end).
Proof.
  intros H. unfold pack_one. cbn [int_of_value code_size code_signed].
  unfold in_unsigned. change (pow256 2) with 65536%N.
  replace ((0 <=? z) && (z <? Z.of_N 65536)) with true by lia.
  rewrite unsgn_small by (change (pow256 2) with 65536%N; lia).
  destruct e; cbn; unfold be_enc; cbn;
    (replace ((Z.to_N z / 256) mod 256)%N with (Z.to_N z / 256)%N by lia); reflexivity.
Qed.

Lemma pack_u16_range e z : ~ (0 <= z < 65536) -> pack_one e CH (VInt z) = None.
Proof.
  intros H. unfold pack_one. cbn [int_of_value code_size code_signed].
  unfold in_unsigned. change (pow256 2) with 65536%N.
  replace ((0 <=? z) && (z <? Z.of_N 65536)) with false by lia. reflexivity.
Qed.

(** ** C01: layout *)
Definition payload_fits (p : bytes) : Prop := zlen p <= 65529.

Theorem frame_create_layout fid p :
  0 <= fid <= 255 -> payload_fits p ->
  frame_create fid p = Ok (wire (Z.to_N fid) p).
Proof.
  intros Hf Hp. unfold payload_fits, zlen in Hp.
  unfold frame_create.
  replace (Gen_frame.create_fid_max <? fid) with false by (unfold Gen_frame.create_fid_max; lia).
  rewrite gen_hdr_fmt, gen_foot_fmt.
  unfold pack. cbn [fend fitems pack_items pack_item icode icnt pack_many].
  change Gen_frame.sof with 85. change Gen_frame.create_len_base with 6.
  rewrite (pack_u8 LE 85) by lia.
  rewrite (pack_u16 LE (6 + zlen p)) by (unfold zlen; lia).
  rewrite (pack_u8 LE fid) by lia.
  cbn [app].
  rewrite crc16_spec.
  match goal with |- context [crc_spec ?b] => set (body := b) end.
  pose proof (crc_spec_lt body) as Hc.
  rewrite (pack_u16 BE (Z.of_N (crc_spec body))) by lia.
  rewrite N2Z.id. cbn [app].
  f_equal. unfold wire, wire_hdr.
  assert (E : Z.to_N (6 + zlen p) = (N.of_nat (length p) + 6)%N) by (unfold zlen; lia).
  subst body. rewrite E. change (Z.to_N 85) with 85%N.
  cbn [app]. reflexivity.
Qed.

Theorem frame_create_refuse fid p :
  0 <= fid <= 255 -> ~ payload_fits p ->
  frame_create fid p = Raise "struct.error".
Proof.
  intros Hf Hp. unfold payload_fits in Hp.
  unfold frame_create.
  replace (Gen_frame.create_fid_max <? fid) with false by (unfold Gen_frame.create_fid_max; lia).
  rewrite gen_hdr_fmt, gen_foot_fmt.
  unfold pack. cbn [fend fitems pack_items pack_item icode icnt pack_many].
  change Gen_frame.sof with 85. change Gen_frame.create_len_base with 6.
  rewrite (pack_u8 LE 85) by lia.
  rewrite (pack_u16_range LE (6 + zlen p)) by lia.
  reflexivity.
Qed.

Theorem frame_create_bad_id fid p : 255 < fid -> frame_create fid p = Raise "AssertionError".
Proof.
  intros H. unfold frame_create.
  replace (Gen_frame.create_fid_max <? fid) with true by (unfold Gen_frame.create_fid_max; lia).
  reflexivity.
Qed.

(** ** decoding *)
Lemma hdr_decode_short d : zlen d < 4 -> hdr_decode d = Err EHDR.
Proof.
  intros H. unfold hdr_decode, hdr_len. change Gen_frame.hdr_end with 4.
  replace (zlen d <? 4) with true by lia. reflexivity.
Qed.

Lemma hdr_decode_cons s lo hi fid rest :
  (s < 256 -> lo < 256 -> hi < 256 -> fid < 256 ->
  hdr_decode (s :: lo :: hi :: fid :: rest) =
    if negb (s =? 85) then Err EHDR
    else if negb (known_id (Z.of_N fid)) then Err EHDR
    else Ok (Z.of_N fid, Z.of_N (lo + 256 * hi)))%N.
Proof.
  intros Hs Hlo Hhi Hfid.
  unfold hdr_decode, hdr_len. change Gen_frame.hdr_end with 4.
  replace (zlen (s :: lo :: hi :: fid :: rest) <? 4) with false
    by (unfold zlen; cbn [length]; lia).
  rewrite gen_hdr_decode_fmt.
  unfold slice_to.
  rewrite (clip_index_in (length (s :: lo :: hi :: fid :: rest)) 4) by (cbn [length]; lia).
  change (Z.to_nat 4) with 4%nat. cbn [firstn].
  rewrite (clip_index_in (length [s; lo; hi; fid]) 4) by (cbn [length]; lia).
  change (Z.to_nat 4) with 4%nat. cbn [firstn].
  unfold unpack. cbn [length calcsize fitems fold_right item_size icnt icode code_size Nat.mul Nat.add Nat.eqb].
  replace (wf_bytesb [s; lo; hi; fid]) with true
    by (unfold wf_bytesb, is_byte; cbn [forallb]; lia).
  cbn [andb fend unpack_items unpack_item icode icnt item_size code_size Nat.mul Nat.add
       firstn skipn unpack_many unpack_one code_signed dec le_dec app].
  change Gen_frame.sof with 85.
  replace (s + 256 * 0)%N with s by lia.
  replace (fid + 256 * 0)%N with fid by lia.
  replace (lo + 256 * (hi + 256 * 0))%N with (lo + 256 * hi)%N by lia.
  destruct (s =? 85)%N eqn:E.
  - apply N.eqb_eq in E. subst s. cbn [negb Z.of_N Z.eqb Pos.eqb].
    destruct (known_id (Z.of_N fid)); reflexivity.
  - replace (Z.of_N s =? 85) with false by lia. reflexivity.
Qed.

Lemma firstn_Zto {A} (l : list A) z : 0 <= z <= zlen l ->
  slice_to l z = firstn (Z.to_nat z) l.
Proof. intros H. unfold slice_to. rewrite clip_index_in by exact H. reflexivity. Qed.

(** full characterisation of [frame_decode] on a well-formed string with a
    complete header *)
Lemma frame_decode_cons s lo hi fid rest :
  wf_bytes (s :: lo :: hi :: fid :: rest) ->
  let d := s :: lo :: hi :: fid :: rest in
  let flen := (lo + 256 * hi)%N in
  frame_decode d =
    if negb (s =? 85)%N then Err EHDR
    else if negb (known_id (Z.of_N fid)) then Err EHDR
    else if ((flen <? 6) || (N.of_nat (length d) <? flen))%N then Err EFOOT
    else if negb (crc_spec (firstn (N.to_nat flen) d) =? 0)%N then Err EFOOT
    else Ok (Z.of_N fid, firstn (N.to_nat flen - 6) rest).
Proof.
  intros Hwf d flen.
  pose proof Hwf as Hwf0. unfold wf_bytes in Hwf0.
  apply Forall_cons_iff in Hwf0 as [Hs Hwf0].
  apply Forall_cons_iff in Hwf0 as [Hlo Hwf0].
  apply Forall_cons_iff in Hwf0 as [Hhi Hwf0].
  apply Forall_cons_iff in Hwf0 as [Hfid Hwf0].
  unfold frame_decode. subst d. rewrite hdr_decode_cons by assumption.
  destruct (negb (s =? 85)%N); [reflexivity|].
  destruct (negb (known_id (Z.of_N fid))); [reflexivity|].
  unfold hdr_len, foot_len. change Gen_frame.hdr_end with 4. change Gen_frame.foot with 2.
  change Gen_frame.decode_foot_off with 2.
  fold flen.
  set (d := s :: lo :: hi :: fid :: rest).
  assert (Hlen : zlen d = 4 + zlen rest) by (unfold zlen, d; cbn [length]; lia).
  replace ((Z.of_N flen <? 4 + 2) || (zlen d <? Z.of_N flen))
    with ((flen <? 6)%N || (N.of_nat (length d) <? flen)%N) by (unfold zlen; lia).
  destruct ((flen <? 6)%N || (N.of_nat (length d) <? flen)%N) eqn:G; [reflexivity|].
  assert (G1 : (6 <= flen)%N) by lia.
  assert (G2 : Z.of_N flen <= zlen d) by (unfold zlen; lia).
  unfold foot_validate. rewrite crc16_spec. change Gen_frame.crc_residue with 0.
  rewrite firstn_Zto by lia.
  replace (Z.to_nat (Z.of_N flen)) with (N.to_nat flen) by lia.
  replace (Z.of_N (crc_spec (firstn (N.to_nat flen) d)) =? 0)
    with (crc_spec (firstn (N.to_nat flen) d) =? 0)%N by lia.
  destruct (negb (crc_spec (firstn (N.to_nat flen) d) =? 0)%N); [reflexivity|].
  f_equal. f_equal.
  unfold pyslice.
  rewrite (clip_index_in (length d) 4) by (fold (zlen d); lia).
  rewrite (clip_index_in (length d) (Z.of_N flen - 2)) by (fold (zlen d); lia).
  change (Z.to_nat 4) with 4%nat. unfold d. cbn [skipn].
  f_equal. lia.
Qed.

(** ** C01: round-trip *)
Lemma be_enc_2 c : (c < 65536 -> be_enc 2 c = [c / 256; c mod 256])%N.
Proof.
  intros H. unfold be_enc. cbn.
  replace ((c / 256) mod 256)%N with (c / 256)%N by lia. reflexivity.
Qed.

Lemma wire_crc_zero fid p : crc_spec (wire fid p) = 0%N.
Proof.
  unfold wire.
  set (body := wire_hdr fid (N.of_nat (length p)) ++ p).
  rewrite <- (be_enc_2 (crc_spec body)) by apply crc_spec_lt.
  apply crc_residue.
Qed.

Lemma wire_length fid p : length (wire fid p) = (length p + 6)%nat.
Proof. unfold wire, wire_hdr. rewrite !app_length. cbn [length]. lia. Qed.

Lemma wire_wf fid p : (fid < 256)%N -> wf_bytes p -> payload_fits p -> wf_bytes (wire fid p).
Proof.
  intros Hf Hp Hfit. unfold payload_fits, zlen in Hfit. unfold wire, wire_hdr.
  match goal with |- context [crc_spec ?b] => set (c := crc_spec b) end.
  assert (Hc : (c < 65536)%N) by apply crc_spec_lt.
  unfold wf_bytes. rewrite !Forall_app. repeat split.
  - repeat (apply Forall_cons; [lia|]). apply Forall_nil.
  - exact Hp.
  - repeat (apply Forall_cons; [lia|]). apply Forall_nil.
Qed.

Theorem frame_roundtrip fid p :
  0 <= fid <= 8 -> wf_bytes p -> payload_fits p ->
  frame_decode (wire (Z.to_N fid) p) = Ok (fid, p).
Proof.
  intros Hf Hp Hfit.
  pose proof (wire_crc_zero (Z.to_N fid) p) as Hcrc.
  pose proof (wire_length (Z.to_N fid) p) as Hlen.
  pose proof (wire_wf (Z.to_N fid) p ltac:(lia) Hp Hfit) as Hwf.
  unfold payload_fits, zlen in Hfit.
  set (n := N.of_nat (length p)) in *.
  assert (Hshape : exists c1 c2, wire (Z.to_N fid) p =
            (85 :: (n + 6) mod 256 :: (n + 6) / 256 :: Z.to_N fid :: p ++ [c1; c2])%N).
  { unfold wire, wire_hdr. cbn [app]. eexists. eexists. reflexivity. }
  destruct Hshape as (c1 & c2 & Hshape).
  set (w := wire (Z.to_N fid) p) in *.
  rewrite Hshape.
  rewrite frame_decode_cons by (rewrite <- Hshape; exact Hwf).
  rewrite <- Hshape.
  cbn [N.eqb Pos.eqb negb].
  rewrite Z2N.id by lia.
  replace (known_id fid) with true by (symmetry; apply known_id_iff; lia).
  cbn [negb].
  assert (E : ((n + 6) mod 256 + 256 * ((n + 6) / 256) = n + 6)%N) by lia.
  rewrite E, Hlen.
  replace ((n + 6 <? 6)%N || (N.of_nat (length p + 6) <? n + 6)%N) with false by lia.
  replace (N.to_nat (n + 6)) with (length w) by lia.
  rewrite firstn_all, Hcrc. cbn [N.eqb negb].
  f_equal. f_equal.
  replace (length w - 6)%nat with (length p) by lia.
  rewrite firstn_app, Nat.sub_diag, firstn_all. cbn [firstn]. apply app_nil_r.
Qed.

(** The DESCRIPTION PHASE OF THE CONNECT HANDSHAKE of nxslib.comm.CommHandler
    ([_devinfo_get] with [_nxslib_cmninfo], [_nxslib_chinfo], [_drop_all],
    [_drop_all_frames], [_get_frame], [_get_stream_frame]) as INTERPRETED SOURCE
    (the ASTs of gen/Src_comm.v run by the PyLite interpreter) against the
    hand model model/Handshake.v. *)
From Coq Require Import String Ascii List ZArith NArith Bool Lia ZifyBool.
From NX Require Import Bytes PyStruct Crc PyLite PyLite_tactics PyLite_tactics_ext
  Src_dev Src_iparse Src_parse Src_comm Src_prelude Src_all
  Src_serialframe_proofs Src_parse_req_lemmas Src_records_proofs Src_config_base Src_config_req.
From NX Require Src_parse_req_proofs Src_info_proofs.
From NX Require Frame Request Info Info_proofs Handshake Handshake_proofs Gen_frame Gen_req Gen_misc.
Import ListNotations.
Open Scope string_scope.
Open Scope Z_scope.

(** * The embedding *)
Definition lintf (w : list bytes) (pad dropped : Z) : pv :=
  PObj "LogIntf" [("written", PList (map PBytes w)); ("write_padding", PInt pad); ("dropped", PInt dropped)].

Definition hcomm (w : list bytes) (pad dropped : Z) (q qs : list qitem) : pv :=
  PObj "CommHandler"
    [("_started", PBool false); ("_intf", lintf w pad dropped); ("_parse", pa); ("_dev", PNone);
     ("_q", queue_obj (map item_pv q)); ("_q_stream", queue_obj (map item_pv qs))].

#[local] Hint Unfold pa RQ.pa IN.pa sf lintf queue_obj hcomm item_pv
  IN.cmninfo_obj frame_obj perr_obj : hs_model.
Ltac py_unfold_hook ::= autounfold with hs_model.
#[local] Arguments norm_index : simpl never.
#[local] Arguments enum_id : simpl never.
#[local] Arguments is_none !x /.

Lemma ltb_0_S c : (0 <? Z.of_nat (S c)) = true.
Proof. lia. Qed.

Ltac py_stuck_hook h ::=
  lazymatch h with
  | norm_index (List.length (map _ _)) _ => rewrite map_length
  | norm_index (S _) 0 => rewrite norm_index_S0
  | py_is _ PNone => rewrite py_is_none
  | context [nth ?k (_ :: _) _] => is_nat_lit k; progress cbn [nth]
  | context [slice_from (_ :: _) 1] => rewrite slice_from_cons1
  | 0 <? Z.of_nat (S ?c) => rewrite (ltb_0_S c)
  end.

(** * 1. The link stub and the two queues *)
Lemma lintf_write_func n w p d b :
  call_func program (S n) LogIntf_write [lintf w p d; PBytes b] [] =
  PyLite.Ok (PNone, Some (lintf (w ++ [b]) p d)).
Proof. pystart. pyrun. unfold lintf. rewrite map_app. reflexivity. Qed.

Lemma lintf_drop_all_func n w p d :
  call_func program (S n) LogIntf_drop_all [lintf w p d] [] =
  PyLite.Ok (PNone, Some (lintf w p (d + 1))).
Proof. pystart. pyrun. Qed.

#[local] Hint Resolve queue_get_func lintf_write_func lintf_drop_all_func : pyspec.

(** what a [get] with time-out delivers: the head frame, or [None] at a
    time-out / on an empty script; the head is consumed in both cases *)
Definition q_head (q : list qitem) : pv :=
  match q with
  | QFrame fid data :: _ => item_pv (QFrame fid data)
  | _ => PNone
  end.

Lemma get_frame_func n w p d q qs t :
  call_func program (S (S n)) CommHandler__get_frame [hcomm w p d q qs] [("timeout", t)] =
  PyLite.Ok (q_head q, Some (hcomm w p d (tl q) qs)).
Proof. pystart. destruct q as [|[|fid data] r]; cbn [map tl q_head]; pyrun. Qed.

Lemma get_stream_frame_func n w p d q qs t :
  call_func program (S (S n)) CommHandler__get_stream_frame [hcomm w p d q qs] [("timeout", t)] =
  PyLite.Ok (q_head qs, Some (hcomm w p d q (tl qs))).
Proof. pystart. destruct qs as [|[|fid data] r]; cbn [map tl q_head]; pyrun. Qed.

#[local] Hint Resolve get_frame_func get_stream_frame_func : pyspec.

(** * 2. _drop_all_frames *)
(** what one drain loop leaves of a script: it stops after [c] empty reads
    (time-outs; an exhausted script yields only those) or after [l] frames
    dropped, whichever comes first *)
Fixpoint drain_lim (q : list qitem) (c l : nat) : list qitem :=
  match c, l, q with
  | O, _, _ => q
  | _, O, _ => q
  | S _, S _, [] => []
  | S c', S _, QTimeout :: r => drain_lim r c' l
  | S _, S l', QFrame _ _ :: r => drain_lim r c l'
  end.

(** the source's limit: [limit = 256] *)
Definition drain_limit : nat := 256.
Definition drain (q : list qitem) (c : nat) : list qitem := drain_lim q c drain_limit.

Lemma drain_lim_0 q l : drain_lim q 0 l = q.
Proof. destruct q; reflexivity. Qed.
Lemma drain_lim_l0 q c : drain_lim q c 0 = q.
Proof. destruct q, c; reflexivity. Qed.
Lemma drain_lim_nil c l : drain_lim [] c l = [].
Proof. destruct c, l; reflexivity. Qed.
Lemma drain_0 q : drain q 0 = q.
Proof. apply drain_lim_0. Qed.
Lemma drain_nil c : drain [] c = [].
Proof. apply drain_lim_nil. Qed.

(** the [k]-th statement of a body; a [while] statement's condition and body:
    the loop lemmas below are stated on what the AST contains *)
Fixpoint nth_stmt (k : nat) (ss : stmts) : stmt :=
  match ss, k with
  | Scons s _, O => s
  | Scons _ r, S k' => nth_stmt k' r
  | Snil, _ => SPass
  end.
Definition while_c (s : stmt) : expr := match s with SWhile c _ => c | _ => EConst PNone end.
Definition while_b (s : stmt) : stmts := match s with SWhile _ b => b | _ => Snil end.

(** the names of the locals, computed from the AST (never written as literals:
    renaming a local of comm.py must not break the proofs) *)
Definition assigned (s : stmt) : string := match s with SAssign (TName x) _ => x | _ => "" end.
Definition param0 (f : func) : string := match f_params f with (x, _) :: _ => x | [] => "" end.
Definition daf_w1 : stmt := nth_stmt 2 (f_body CommHandler__drop_all_frames).
Definition daf_w2 : stmt := nth_stmt 5 (f_body CommHandler__drop_all_frames).
Definition v_dself : string := Eval cbv in param0 CommHandler__drop_all_frames.
Definition v_limit : string := Eval cbv in assigned (nth_stmt 0 (f_body CommHandler__drop_all_frames)).
Definition v_cntr : string := Eval cbv in assigned (nth_stmt 1 (f_body CommHandler__drop_all_frames)).
Definition v_ret : string := Eval cbv in assigned (nth_stmt 0 (while_b daf_w1)).
Ltac dnames := cbv delta [v_dself v_limit v_cntr v_ret] in *.

Definition denv (self : pv) (l c : nat) (o : option pv) : env :=
  ([(v_dself, self); (v_limit, PInt (Z.of_nat l)); (v_cntr, PInt (Z.of_nat c))]
     ++ match o with Some v => [(v_ret, v)] | None => [] end)%list.

(** closing an iteration: the rest of the loop is the induction hypothesis [E] *)
Ltac loop_close E :=
  etransitivity; [|exact E];
  repeat match goal with |- context [Z.of_nat (S ?c) - 1] => replace (Z.of_nat (S c) - 1) with (Z.of_nat c) by lia end;
  reflexivity.

Ltac drain_loop_tac IH :=
  lazymatch goal with
  | |- exists _ _ _, while_loop _ _ _ _ _ _ (denv _ ?l ?c ?o) = _ =>
      rewrite while_loop_S; unfold denv; dnames;
      destruct c as [|c];
      [ exists O, l, o; rewrite drain_lim_0; destruct o; cbn [app]; pysteps; reflexivity
      | destruct l as [|l];
        [ exists (S c), O, o; rewrite drain_lim_l0; destruct o; cbn [app]; pysteps; reflexivity
        | lazymatch goal with
          | |- context [drain_lim ?q (S c) (S l)] =>
              let c' := fresh "c" in let l' := fresh "l" in let o' := fresh "o" in let E := fresh "E" in
              let fid := fresh "fid" in let data := fresh "data" in let r := fresh "r" in
              destruct q as [|[|fid data] r];
              [ destruct (IH (@nil qitem) c (S l) (Some PNone) ltac:(cbn [List.length] in *; lia)) as (c' & l' & o' & E)
              | destruct (IH r c (S l) (Some PNone) ltac:(cbn [List.length] in *; lia)) as (c' & l' & o' & E)
              | destruct (IH r (S c) l (Some (item_pv (QFrame fid data))) ltac:(cbn [List.length] in *; lia)) as (c' & l' & o' & E) ];
              rewrite ?drain_lim_nil in E; exists c', l', o'; destruct o; cbn [app map tl drain_lim]; pysteps; loop_close E
          end ] ]
  end.

(** the loop runs at most [c] + min [l] (frames in the script) + 1 times: a
    bound that does not grow with the script beyond [l] *)
Lemma drain_loop1 m w p d qs : forall k q c l o, (c + Nat.min l (List.length q) < k)%nat -> exists c' l' o',
  while_loop program (call_func program (S (S m))) (S (S m)) (while_c daf_w1) (while_b daf_w1) k
    (denv (hcomm w p d q qs) l c o) =
  PyLite.Ok (ONorm (denv (hcomm w p d (drain_lim q c l) qs) l' c' o')).
Proof.
  induction k as [|k IH]; intros q c l o Hk; [lia|].
  cbv [daf_w1 daf_w2 nth_stmt while_c while_b f_body CommHandler__drop_all_frames].
  drain_loop_tac IH.
Qed.

Lemma drain_loop2 m w p d q : forall k qs c l o, (c + Nat.min l (List.length qs) < k)%nat -> exists c' l' o',
  while_loop program (call_func program (S (S m))) (S (S m)) (while_c daf_w2) (while_b daf_w2) k
    (denv (hcomm w p d q qs) l c o) =
  PyLite.Ok (ONorm (denv (hcomm w p d q (drain_lim qs c l)) l' c' o')).
Proof.
  induction k as [|k IH]; intros qs c l o Hk; [lia|].
  cbv [daf_w1 daf_w2 nth_stmt while_c while_b f_body CommHandler__drop_all_frames].
  drain_loop_tac IH.
Qed.

(** name the loop of the goal by the AST's statement, its environment by [denv] *)
Ltac drain_loop_env s self l c o :=
  lazymatch goal with
  | |- context [while_loop ?P ?cf ?lf ?cc ?b ?k ?e] =>
      change (while_loop P cf lf cc b k e) with (while_loop P cf lf (while_c s) (while_b s) k (denv self l c o))
  end.

(** the fuel needed no longer grows with the scripts beyond the limit *)
Lemma drop_all_frames_func m w p d q qs :
  (Nat.min drain_limit (List.length q) + 3 <= m)%nat -> (Nat.min drain_limit (List.length qs) + 3 <= m)%nat ->
  call_func program (S (S (S m))) CommHandler__drop_all_frames [hcomm w p d q qs] [] =
  PyLite.Ok (PNone, Some (hcomm w p d (drain q 4) (drain qs 4))).
Proof.
  intros Hq Hqs. unfold drain, drain_limit in *. pystart. pysteps.
  drain_loop_env daf_w1 (hcomm w p d q qs) 256%nat 4%nat (@None pv).
  destruct (drain_loop1 m w p d qs (S (S m)) q 4%nat 256%nat None ltac:(lia)) as (c1 & l1 & o1 & E1).
  rewrite E1. clear E1.
  unfold denv; dnames. destruct o1; cbn [app]; pysteps.
  all: lazymatch goal with
       | |- context [while_loop _ _ _ _ _ _ [_; _; _; (_, ?v)]] =>
           drain_loop_env daf_w2 (hcomm w p d (drain_lim q 4 256) qs) 256%nat 4%nat (Some v)
       | _ => drain_loop_env daf_w2 (hcomm w p d (drain_lim q 4 256) qs) 256%nat 4%nat (@None pv)
       end.
  all: lazymatch goal with
       | |- context [denv _ _ _ ?o] =>
           let c2 := fresh "c" in let l2 := fresh "l" in let o2 := fresh "o" in let E2 := fresh "E" in
           destruct (drain_loop2 m w p d (drain_lim q 4 256) (S (S m)) qs 4%nat 256%nat o ltac:(lia))
             as (c2 & l2 & o2 & E2); rewrite E2; clear E2;
           unfold denv; dnames; destruct o2; cbn [app]; pyrun
       end.
Qed.

#[local] Hint Resolve drop_all_frames_func : pyspec.

Lemma drop_all_func m w p d q qs :
  (Nat.min drain_limit (List.length q) + 3 <= m)%nat -> (Nat.min drain_limit (List.length qs) + 3 <= m)%nat ->
  call_func program (S (S (S (S m)))) CommHandler__drop_all [hcomm w p d q qs] [] =
  PyLite.Ok (PNone, Some (hcomm w p (d + 1) (drain q 4) (drain qs 4))).
Proof. intros Hq Hqs. pystart. pyrun. Qed.

(** * 3. One request of the handshake *)
(** the decoder applied to what [_get_frame] delivers ([None]: time-out / empty script) *)
Definition pop_dec {A} (dec : Z -> bytes -> Frame.res (option A)) (q : list qitem) : Frame.res (option A) :=
  match q with
  | QFrame fid data :: _ => dec fid data
  | _ => Frame.Ok None
  end.

(** the request [fr] goes out, then one item of the script is consumed and decoded *)
Definition emb_rq {A} (f : A -> pv) (self : list bytes -> list qitem -> pv) (w : list bytes) (q : list qitem)
           (fr : Frame.res bytes) (r : Frame.res (option A)) : PyLite.res (pv * option pv) :=
  match fr with
  | Frame.Ok b =>
      match r with
      | Frame.Ok None => PyLite.Ok (PNone, Some (self (w ++ [b])%list (tl q)))
      | Frame.Ok (Some t) => PyLite.Ok (f t, Some (self (w ++ [b])%list (tl q)))
      | Frame.Raise e => ExcS e (self_st (self (w ++ [b])%list (tl q)))
      | Frame.Err _ => Unsupported "Err"
      end
  | Frame.Raise e => ExcS e (self_st (self w q))
  | Frame.Err _ => Unsupported ""
  end.

#[local] Hint Unfold IN.emb_opt RQ.emb_f emb_rq : hs_model.
#[local] Arguments Info.frame_cmninfo_decode : simpl never.
#[local] Arguments Info.frame_chinfo_decode : simpl never.
#[local] Arguments Request.frame_cmninfo : simpl never.
#[local] Arguments Request.frame_chinfo : simpl never.
#[local] Arguments IN.emb_chan : simpl never.
#[local] Hint Resolve RQ.frame_cmninfo_func RQ.frame_chinfo_func IN.cmninfo_decode_func IN.cmninfo_decode_func_None
  IN.chinfo_decode_func IN.chinfo_decode_func_None : pyspec.

Lemma nxslib_cmninfo_func n w p d q qs :
  call_func program (S (S (S n))) CommHandler__nxslib_cmninfo [hcomm w p d q qs] [] =
  emb_rq IN.cmninfo_obj (fun w' q' => hcomm w' p d q' qs) w q
    Request.frame_cmninfo (pop_dec Info.frame_cmninfo_decode q).
Proof. pystart. destruct q as [|[|fid data] r]; cbn [pop_dec map tl]; pyrun. Qed.

Lemma nxslib_chinfo_func n w p d q qs chan :
  call_func program (S (S (S (S (S (S n)))))) CommHandler__nxslib_chinfo [hcomm w p d q qs; PInt chan] [] =
  emb_rq (IN.emb_chan chan) (fun w' q' => hcomm w' p d q' qs) w q
    (Request.frame_chinfo chan) (pop_dec Info.frame_chinfo_decode q).
Proof. pystart. destruct q as [|[|fid data] r]; cbn [pop_dec map tl]; pyrun. Qed.

(** the hooks are global Ltac state: restore the defaults for whoever loads this file *)
Ltac py_stuck_hook h ::= fail.
Ltac py_unfold_hook ::= idtac.

(** * Audit *)
Print Assumptions get_frame_func.
Print Assumptions get_stream_frame_func.
Print Assumptions drop_all_frames_func.
Print Assumptions drop_all_func.
Print Assumptions nxslib_cmninfo_func.
Print Assumptions nxslib_chinfo_func.

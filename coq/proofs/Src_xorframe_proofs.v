(** A CUSTOM frame codec written in Python (class XorFrame of the harness
    prelude, gen/Src_prelude.v) is the family member
    [xm = mkFam 126 4 2 2 false 1 FXor 1] of model/Family.v, and the interpreted
    client with that codec object in its parser delivers, for every chunking,
    exactly the frames of one scan with that member's framing.

    Structure.
    1. Interpreter level ([pystart]/[pyrun]): each method of the class computes
       a small functional model written in the vocabulary of the source
       ([xhdr_decode] over [unpack "<BBH"], [xfoot_validate] = "XOR of all
       bytes is 0", [xframe_decode], [xframe_create]) -- for ALL [d : list N],
       no hypothesis.  The XOR loop [for b in data: x ^= b] is a
       [fold_left N.lxor] ([for_loop_fold], [xstep], tactic [xor_loop]).
    2. [xcodec] (those models as a codec record) and
       [xf_implements : implements xf xcodec 2] for all byte lists.
    3. Pure reasoning: [xhdr_decode_eq] / [xframe_decode_eq] say EXACTLY how the
       class relates to the family member:
         class d = if 4 <= len d and one of d[0..3] is >= 256
                   then raise struct.error else family d.
       The side condition cannot arise in Python (bytes are < 256); in the
       model [bytes = list N], and [PyStruct.unpack] refuses an ill-formed
       buffer where [fam_hdr_decode] reads it with [nth]/[le_dec].  Hence
       [implements xf (fam_codec xm) k] is FALSE as stated
       ([xf_not_implements_fam], witness [126;256;5;0]) and TRUE restricted to
       well-formed bytes ([xf_implements_wf]).  Nothing else needs
       well-formedness: "XOR of all bytes incl. the footer is 0" <-> "footer =
       XOR of the body" holds for all [N] ([xfoot_validate_last],
       [N.lxor_eq]/[N.lxor_nilpotent]).
    4. [xcodec] is [lawful2] (from [family_lawful2 xm]), its scan equals the
       family member's on well-formed input ([kscan_wf]), delivered ids are
       known ([xcodec_known]): [gsrc_recv_all_scan] gives [xf_recv_all_scan],
       stated against [fam_codec xm]; [wf_link chunks] is the hypothesis the
       generic theorem has anyway.
    5. [frame_create]: model [xframe_create]; for [0 <= fid <= 255],
       [len p <= 65530], well-formed [p] it is [xframe fid p = header ++ p ++
       [xor]] and [fam_frame_decode xm] of it is [(fid, p)] for known ids
       ([xframe_create_ok], [xframe_decode_create], [xf_roundtrip_src]).
       Well-formedness of [p] is needed for [bytes([x])] (the interpreter
       checks [0 <= x < 256]; XOR of bytes < 256 is < 256, [lxor_lt_256]).

    No semantic difference between the Python class and the family member was
    found on well-formed bytes. *)
From Coq Require Import String Ascii List ZArith NArith Bool Lia ZifyBool ZifyNat ZifyN.
From NX Require Import Bytes PyStruct Crc PyLite PyLite_tactics Bytes_proofs
  Src_iframe Src_serialframe Src_parse Src_comm Src_prelude Src_all.
From NX Require Frame Gen_frame Reasm Reasm_proofs Codec Codec_proofs Family Family_proofs.
From NX Require Import Src_serialframe_proofs Src_reasm_generic.
Import ListNotations.
Import Frame(EHDR, EFOOT).
Import Codec(codec, k_hdr_len, k_sof, k_hdr_decode, k_frame_decode, khdr_find, kscan).
Import Family(fam, mkFam, FXor, fam_codec, fam_hdr_decode, fam_frame_decode).
Open Scope string_scope.
Open Scope list_scope.
Open Scope Z_scope.

(** * The object, the family member, the source-level models *)
Definition xf : pv := PObj "XorFrame" [].
Definition xm : fam := mkFam 126 4 2 2 false 1 FXor 1.

Definition xhdr_decode (d : bytes) : Frame.res (Z * Z) :=
  if zlen d <? 4 then Frame.Err EHDR else
  match parse_fmt "<BBH" with
  | None => Frame.Raise "bad format"
  | Some f =>
      match unpack f (slice_to d 4) with
      | Some [VInt s; VInt id; VInt flen] =>
          if negb (s =? 126) then Frame.Err EHDR
          else if negb (Frame.known_id id) then Frame.Err EHDR
          else Frame.Ok (id, flen)
      | _ => Frame.Raise "struct.error"
      end
  end.

#[local] Hint Unfold
  Gen_frame.parse_ids
  enum_id perr_obj hdr_obj frame_obj emb_hdr emb_frame : xor_model.

#[local] Arguments Frame.known_id : simpl never.
#[local] Arguments xhdr_decode : simpl never.

Ltac py_stuck_hook h ::= lazymatch h with Frame.known_id _ => rewrite known_id_enum end.
Ltac py_unfold_hook ::= autounfold with xor_model.

Lemma xf_hdr_len_func n self :
  call_func program (S n) XorFrame_hdr_len [self] [] = PyLite.Ok (PInt 4, Some self).
Proof. pystart. pyrun. Qed.

Lemma xf_foot_len_func n self :
  call_func program (S n) XorFrame_foot_len [self] [] = PyLite.Ok (PInt 1, Some self).
Proof. pystart. pyrun. Qed.

#[local] Hint Resolve xf_hdr_len_func xf_foot_len_func : pyspec.

Theorem xf_hdr_len_spec n :
  get_attr program (call_func program (S n)) xf "hdr_len" = PyLite.Ok (PInt 4).
Proof. pystart. pyrun. Qed.

Lemma xf_hdr_find_func n d :
  call_func program (S n) XorFrame_hdr_find [xf; PBytes d] [] =
  PyLite.Ok (PInt (khdr_find (fam_codec xm) d), Some xf).
Proof. pystart. unfold khdr_find. pyrun. Qed.

Lemma xf_hdr_find_kw_func n d :
  call_func program (S n) XorFrame_hdr_find [xf] [("data", PBytes d)] =
  PyLite.Ok (PInt (khdr_find (fam_codec xm) d), Some xf).
Proof. pystart. unfold khdr_find. pyrun. Qed.

Lemma xf_hdr_decode_func n d :
  call_func program (S n) XorFrame_hdr_decode [xf; PBytes d] [] =
  do v <- attach (self_st xf) (emb_hdr (xhdr_decode d)); PyLite.Ok (v, Some xf).
Proof. pystart. unfold xhdr_decode. pyrun. Qed.

#[local] Hint Resolve xf_hdr_find_func xf_hdr_find_kw_func xf_hdr_decode_func : pyspec.

(** * The XOR loop [for b in <bytes>: x ^= b] *)
Definition xstep (st : Z * option pv) (y : N) : Z * option pv :=
  (Z.lxor (fst st) (Z.of_N y), Some (PInt (Z.of_N y))).

Definition xor_all (d : bytes) : N := fold_left N.lxor d 0%N.

Lemma of_N_lxor a b : Z.lxor (Z.of_N a) (Z.of_N b) = Z.of_N (N.lxor a b).
Proof. destruct a, b; reflexivity. Qed.

Lemma fst_fold_xstep d : forall a o, fst (fold_left xstep d (Z.of_N a, o)) = Z.of_N (fold_left N.lxor d a).
Proof.
  induction d as [|y r IH]; intros a o; cbn [fold_left]; [reflexivity|].
  unfold xstep at 2. cbn [fst]. rewrite of_N_lxor. apply IH.
Qed.

Definition fv_env (d : pv) (st : Z * option pv) : env :=
  ([("self", xf); ("data", d); ("x", PInt (fst st))]
     ++ match snd st with Some v => [("b", v)] | None => [] end)%list.

Definition xfoot_validate (d : bytes) : bool := (xor_all d =? 0)%N.

Lemma of_N_eqb_0 a : (Z.of_N a =? 0) = (a =? 0)%N.
Proof. destruct a; reflexivity. Qed.

#[local] Arguments xor_all : simpl never.
#[local] Arguments xfoot_validate : simpl never.

Lemma xf_foot_validate_func n d :
  call_func program (S n) XorFrame_foot_validate [xf; PBytes d] [] =
  PyLite.Ok (PBool (xfoot_validate d), Some xf).
Proof.
  pystart. pysteps.
  change [("self", xf); ("data", PBytes d); ("x", PInt 0)] with (fv_env (PBytes d) (0, None)).
  rewrite (for_loop_fold (fv_env (PBytes d)) (fun b : N => PInt (Z.of_N b)) xstep).
  2:{ intros [a [v|]] y; unfold fv_env, xstep; cbn [fst snd app]; pyrun. }
  unfold fv_env. change 0 with (Z.of_N 0). rewrite fst_fold_xstep. fold (xor_all d).
  unfold xfoot_validate. rewrite <- of_N_eqb_0. pyrun.
Qed.

#[local] Hint Resolve xf_foot_validate_func : pyspec.

Theorem xf_foot_validate_spec n d :
  call_method program (1 + n) xf "foot_validate" [PBytes d] = PyLite.Ok (PBool (xfoot_validate d), xf).
Proof. pystart. pyrun. Qed.

(** * frame_decode *)
Definition xframe_decode (d : bytes) : Frame.res (Z * bytes) :=
  match xhdr_decode d with
  | Frame.Raise w => Frame.Raise w
  | Frame.Err e => Frame.Err e
  | Frame.Ok (fid, flen) =>
      if negb (flen =? zlen d) || (flen <? 5) then Frame.Err EFOOT
      else if negb (xfoot_validate d) then Frame.Err EFOOT
      else Frame.Ok (fid, pyslice d 4 (flen - 1))
  end.

#[local] Arguments xframe_decode : simpl never.

Lemma xf_frame_decode_func n d :
  call_func program (S (S n)) XorFrame_frame_decode [xf; PBytes d] [] =
  do v <- attach (self_st xf) (emb_frame (xframe_decode d)); PyLite.Ok (v, Some xf).
Proof. pystart. unfold xframe_decode. pyrun. Qed.

#[local] Hint Resolve xf_frame_decode_func : pyspec.

Lemma xf_hdr_decode_kw_func n d :
  call_func program (S n) XorFrame_hdr_decode [xf] [("data", PBytes d)] =
  do v <- attach (self_st xf) (emb_hdr (xhdr_decode d)); PyLite.Ok (v, Some xf).
Proof. pystart. unfold xhdr_decode. pyrun. Qed.

#[local] Hint Resolve xf_hdr_decode_kw_func : pyspec.

Theorem xf_hdr_find_spec n d :
  call_method program (1 + n) xf "hdr_find" [PBytes d] = PyLite.Ok (PInt (khdr_find (fam_codec xm) d), xf).
Proof. pystart. pyrun. Qed.

Theorem xf_hdr_decode_spec n d :
  call_method program (1 + n) xf "hdr_decode" [PBytes d] =
  do v <- emb_hdr (xhdr_decode d); PyLite.Ok (v, xf).
Proof. pystart. pyrun. Qed.

Theorem xf_frame_decode_spec n d :
  call_method program (2 + n) xf "frame_decode" [PBytes d] =
  do v <- emb_frame (xframe_decode d); PyLite.Ok (v, xf).
Proof. pystart. pyrun. Qed.

(** [data is None] *)
Theorem xf_hdr_decode_None_spec n :
  call_method program (1 + n) xf "hdr_decode" [PNone] =
  do v <- emb_hdr (Frame.Err EHDR); PyLite.Ok (v, xf).
Proof. pystart. pyrun. Qed.

Theorem xf_frame_decode_None_spec n :
  call_method program (2 + n) xf "frame_decode" [PNone] =
  do v <- emb_frame (Frame.Err EHDR); PyLite.Ok (v, xf).
Proof. pystart. pyrun. Qed.

(** * The codec record the class implements, for ALL byte lists *)
Definition xcodec : codec := Codec.mkCodec 4 126%N xhdr_decode xframe_decode.

Theorem xf_implements : implements xf xcodec 2.
Proof.
  constructor; intros; cbn [Nat.add k_hdr_len k_hdr_decode k_frame_decode xcodec].
  - exact (xf_hdr_len_spec _).
  - change (khdr_find xcodec d) with (khdr_find (fam_codec xm) d). pyrun.
  - pyrun.
  - pyrun.
Qed.

(** * The class against the family member [xm] (pure reasoning, no interpreter) *)
Lemma xhdr_decode_eq d :
  xhdr_decode d =
  if (4 <=? zlen d) && negb (wf_bytesb (firstn 4 d)) then Frame.Raise "struct.error"
  else fam_hdr_decode xm d.
Proof.
  unfold xhdr_decode, fam_hdr_decode.
  destruct d as [|a [|b [|c [|e r]]]]; try reflexivity.
  assert (L : zlen (a::b::c::e::r) <? 4 = false) by (unfold zlen; cbn [List.length]; lia).
  assert (L2 : 4 <=? zlen (a::b::c::e::r) = true) by lia.
  assert (S4 : slice_to (a::b::c::e::r) 4 = [a;b;c;e]).
  { unfold slice_to. rewrite clip_index_in by (cbn [List.length]; lia). reflexivity. }
  cbn [xm Family.f_hdr_len Family.f_sof Family.f_len_pos Family.f_len_bytes Family.f_len_be Family.f_id_pos].
  change (Z.of_nat 4) with 4. rewrite L, L2, S4. cbn [firstn andb].
  let v := eval vm_compute in (parse_fmt "<BBH") in change (parse_fmt "<BBH") with v.
  unfold unpack.
  match goal with |- context [Nat.eqb ?x ?y] => let v := eval vm_compute in (Nat.eqb x y) in change (Nat.eqb x y) with v end.
  cbn [fitems fend andb].
  destruct (wf_bytesb [a;b;c;e]); cbn [negb]; [|reflexivity].
  cbn [nth Family.sub skipn firstn].
  cbn [unpack_items unpack_item unpack_many unpack_one icode icnt item_size code_size code_signed
       app Nat.mul Nat.add firstn skipn dec le_dec].
  rewrite !N.mul_0_r, !N.add_0_r.
  replace (Z.of_N a =? 126) with (a =? 126)%N by lia.
  destruct (a =? 126)%N; cbn [negb]; [|reflexivity].
  destruct (Frame.known_id (Z.of_N b)); reflexivity.
Qed.


Lemma xfoot_validate_last body z :
  xfoot_validate (body ++ [z]) = Family.bytes_eqb (Family.fam_footer xm body) [z].
Proof.
  unfold xfoot_validate, xor_all, Family.fam_footer. rewrite fold_left_app.
  cbn [fold_left xm Family.f_foot Family.f_foot_len firstn repeat Family.bytes_eqb].
  rewrite andb_true_r.
  set (X := fold_left N.lxor body 0%N).
  destruct (X =? z)%N eqn:E.
  - apply N.eqb_eq in E. subst z. rewrite N.lxor_nilpotent. reflexivity.
  - apply N.eqb_neq in E. apply N.eqb_neq. intros H. apply N.lxor_eq in H. congruence.
Qed.

Lemma xfoot_validate_fam d : (1 <= List.length d)%nat ->
  xfoot_validate d =
  Family.bytes_eqb (Family.fam_footer xm (firstn (List.length d - 1) d)) (skipn (List.length d - 1) d).
Proof.
  intros H. destruct (exists_last (l := d)) as (body & z & ->); [intros ->; cbn in H; lia|].
  rewrite app_length. cbn [List.length]. replace (List.length body + 1 - 1)%nat with (List.length body) by lia.
  rewrite firstn_app, Nat.sub_diag, firstn_all. cbn [firstn]. rewrite app_nil_r.
  rewrite skipn_app, Nat.sub_diag, skipn_all. cbn [skipn app].
  apply xfoot_validate_last.
Qed.

Lemma xframe_decode_eq d :
  xframe_decode d =
  if (4 <=? zlen d) && negb (wf_bytesb (firstn 4 d)) then Frame.Raise "struct.error"
  else fam_frame_decode xm d.
Proof.
  unfold xframe_decode, fam_frame_decode. rewrite xhdr_decode_eq.
  destruct ((4 <=? zlen d) && negb (wf_bytesb (firstn 4 d))); [reflexivity|].
  destruct (fam_hdr_decode xm d) as [[fid flen]|e|w]; try reflexivity.
  cbn [xm Family.f_hdr_len Family.f_foot_len]. change (Z.of_nat 4 + Z.of_nat 1) with 5.
  destruct (negb (flen =? zlen d) || (flen <? 5)) eqn:G; [reflexivity|].
  assert (Hl : flen = zlen d /\ 5 <= zlen d) by lia. destruct Hl as [-> H5].
  rewrite <- xfoot_validate_fam by (unfold zlen in H5; lia).
  destruct (xfoot_validate d); cbn [negb]; [|reflexivity].
  f_equal. f_equal. unfold pyslice, zlen in *.
  rewrite !clip_index_in by lia. rewrite skipn_firstn_comm. f_equal. lia.
Qed.

Lemma xguard_wf d : wf_bytes d -> (4 <=? zlen d) && negb (wf_bytesb (firstn 4 d)) = false.
Proof.
  intros H. apply (wf_bytes_firstn 4) in H. apply wf_bytesb_iff in H. rewrite H. apply andb_false_r.
Qed.

Lemma xhdr_decode_wf d : wf_bytes d -> xhdr_decode d = fam_hdr_decode xm d.
Proof. intros H. rewrite xhdr_decode_eq, xguard_wf by exact H. reflexivity. Qed.

Lemma xframe_decode_wf d : wf_bytes d -> xframe_decode d = fam_frame_decode xm d.
Proof. intros H. rewrite xframe_decode_eq, xguard_wf by exact H. reflexivity. Qed.

Lemma xm_ok : Family.fam_ok xm = true.
Proof. reflexivity. Qed.

Theorem xcodec_lawful2 : Codec_proofs.lawful2 xcodec.
Proof.
  pose proof (Family_proofs.family_lawful2 xm xm_ok) as H2.
  pose proof (Codec_proofs.law2_lawful _ H2) as HL.
  constructor; [constructor|..]; cbn [xcodec k_hdr_len k_sof k_hdr_decode k_frame_decode].
  - lia.
  - intros d Hd. rewrite xhdr_decode_eq. replace (4 <=? zlen d) with false by lia. cbn [andb].
    apply (Codec.law_hdr_short _ HL). exact Hd.
  - intros d w Hw. rewrite xhdr_decode_wf by exact Hw. apply (Codec.law_hdr_no_raise _ HL). exact Hw.
  - intros a b Ha. rewrite !xhdr_decode_eq. rewrite zlen_app. pose proof (zlen_nonneg b) as Hb.
    replace (4 <=? zlen a + zlen b) with true by lia. replace (4 <=? zlen a) with true by lia.
    rewrite firstn_app. replace (4 - List.length a)%nat with 0%nat by (unfold zlen in Ha; lia).
    rewrite firstn_O, app_nil_r.
    destruct (true && negb (wf_bytesb (firstn 4 a))); [reflexivity|].
    apply (Codec.law_hdr_prefix _ HL). exact Ha.
  - intros d fid flen H. rewrite xhdr_decode_eq in H.
    destruct ((4 <=? zlen d) && negb (wf_bytesb (firstn 4 d))); [discriminate|].
    apply (Codec.law_hdr_sof _ HL _ _ _ H).
  - intros d w Hw. rewrite xframe_decode_wf by exact Hw. apply (Codec.law_frame_no_raise _ HL). exact Hw.
  - intros d fid flen Hw H. rewrite xhdr_decode_wf in H by exact Hw.
    apply (Codec_proofs.law_hdr_flen_nonneg _ H2 _ _ _ Hw H).
  - intros fid p. rewrite xframe_decode_eq. apply (Codec_proofs.law_frame_nonempty _ H2).
Qed.

Lemma kscan_fuel_wf f : forall s, wf_bytes s ->
  Codec.kscan_fuel xcodec f s = Codec.kscan_fuel (fam_codec xm) f s.
Proof.
  induction f as [|f IH]; intros s W; [reflexivity|].
  destruct s as [|x r]; [reflexivity|].
  assert (Wr : wf_bytes r) by (apply Reasm_proofs.wf_cons_inv in W; apply W).
  cbn [Codec.kscan_fuel k_sof k_hdr_len k_hdr_decode k_frame_decode xcodec fam_codec].
  cbn [xm Family.f_sof Family.f_hdr_len]. change (Z.of_nat 4) with 4.
  rewrite (xhdr_decode_wf _ W), (IH r Wr).
  destruct (negb (x =? 126)%N); [reflexivity|].
  destruct (zlen (x :: r) <? 4); [reflexivity|].
  destruct (fam_hdr_decode xm (x :: r)) as [[fid flen]|e|w]; try reflexivity.
  destruct (zlen (x :: r) <? flen); [reflexivity|].
  rewrite xframe_decode_wf by (apply Reasm_proofs.wf_slice_to; exact W).
  destruct (fam_frame_decode xm _) as [[fid' p]|e|w]; try reflexivity.
  rewrite IH by (apply Reasm_proofs.wf_slice_from; exact W). reflexivity.
Qed.

Lemma kscan_wf s : wf_bytes s -> kscan xcodec s = kscan (fam_codec xm) s.
Proof. apply kscan_fuel_wf. Qed.

(** * The session corollary *)
(** ids delivered by a family member come from [known_id] *)
Lemma fam_frame_decode_known m d fid p :
  fam_frame_decode m d = Frame.Ok (fid, p) -> Frame.known_id fid = true.
Proof.
  unfold fam_frame_decode. destruct (fam_hdr_decode m d) as [[fid' flen]|e|w] eqn:EH; try discriminate.
  destruct (negb _ || _); [discriminate|]. destruct (Family.bytes_eqb _ _); [|discriminate].
  intros H. inversion H; subst. clear H.
  unfold fam_hdr_decode in EH.
  destruct (zlen d <? _); [discriminate|]. destruct (negb _); [discriminate|].
  destruct (Frame.known_id _) eqn:Kn; [|discriminate]. inversion EH; subst. exact Kn.
Qed.

Lemma xcodec_known d fid p :
  k_frame_decode xcodec d = Frame.Ok (fid, p) -> Frame.known_id fid = true.
Proof.
  cbn [xcodec k_frame_decode]. rewrite xframe_decode_eq.
  destruct (_ && _); [discriminate|]. apply fam_frame_decode_known.
Qed.

Theorem xf_recv_all_scan F chunks :
  Reasm_proofs.wf_link chunks ->
  (4 + List.length (List.concat chunks) + List.length chunks <= F)%nat ->
  exists rest,
    gsrc_recv_all xf F chunks = Some (fst (kscan (fam_codec xm) (List.concat chunks)), rest).
Proof.
  intros Hwf HF.
  destruct (gsrc_recv_all_scan xf xcodec 2 xf_implements xcodec_known F chunks
              xcodec_lawful2 Hwf ltac:(lia)) as [rest R].
  exists rest. rewrite R. rewrite kscan_wf by (apply Reasm_proofs.wf_concat; exact Hwf). reflexivity.
Qed.

Theorem xf_recv_all_eq F chunks :
  (4 + List.length (List.concat chunks) + List.length chunks <= F)%nat ->
  gsrc_recv_all xf F chunks = Codec.krecv_all xcodec chunks.
Proof. intros HF. apply (gsrc_recv_all_eq xf xcodec 2 xf_implements xcodec_known). lia. Qed.

Theorem xf_not_implements_fam k : ~ implements xf (fam_codec xm) k.
Proof.
  intros H.
  pose proof (impl_hdr _ _ _ H 2%nat [126; 256; 5; 0]%N) as H1.
  pose proof (impl_hdr _ _ _ xf_implements k [126; 256; 5; 0]%N) as H2.
  rewrite Nat.add_comm in H1. rewrite H2 in H1. vm_compute in H1. discriminate.
Qed.

(** the method specifications against the family member, for well-formed bytes *)
Theorem xf_hdr_decode_fam n d : wf_bytes d ->
  call_method program (1 + n) xf "hdr_decode" [PBytes d] =
  do v <- emb_hdr (fam_hdr_decode xm d); PyLite.Ok (v, xf).
Proof. intros H. rewrite xf_hdr_decode_spec, xhdr_decode_wf by exact H. reflexivity. Qed.

Theorem xf_frame_decode_fam n d : wf_bytes d ->
  call_method program (2 + n) xf "frame_decode" [PBytes d] =
  do v <- emb_frame (fam_frame_decode xm d); PyLite.Ok (v, xf).
Proof. intros H. rewrite xf_frame_decode_spec, xframe_decode_wf by exact H. reflexivity. Qed.

(** [implements] restricted to well-formed byte strings *)
Record implements_wf (cdc : pv) (K : codec) (kf : nat) : Prop := mkImplementsWf
  { implw_len : forall n,
      get_attr program (call_func program (kf + n)) cdc "hdr_len" = PyLite.Ok (PInt (k_hdr_len K));
    implw_find : forall n d, wf_bytes d ->
      call_method_value program (call_func program (kf + n)) cdc "hdr_find" [] [("data", PBytes d)] =
      PyLite.Ok (PInt (khdr_find K d), cdc);
    implw_hdr : forall n d, wf_bytes d ->
      call_method_value program (call_func program (kf + n)) cdc "hdr_decode" [] [("data", PBytes d)] =
      do v <- attach (self_st cdc) (emb_hdr (k_hdr_decode K d)); PyLite.Ok (v, cdc);
    implw_frame : forall n d, wf_bytes d ->
      call_method_value program (call_func program (kf + n)) cdc "frame_decode" [PBytes d] [] =
      do v <- attach (self_st cdc) (emb_frame (k_frame_decode K d)); PyLite.Ok (v, cdc) }.

Theorem xf_implements_wf : implements_wf xf (fam_codec xm) 2.
Proof.
  constructor.
  - exact (impl_len _ _ _ xf_implements).
  - intros n d _. exact (impl_find _ _ _ xf_implements n d).
  - intros n d H. rewrite (impl_hdr _ _ _ xf_implements n d).
    cbn [xcodec fam_codec k_hdr_decode]. rewrite xhdr_decode_wf by exact H. reflexivity.
  - intros n d H. rewrite (impl_frame _ _ _ xf_implements n d).
    cbn [xcodec fam_codec k_frame_decode]. rewrite xframe_decode_wf by exact H. reflexivity.
Qed.

(** * frame_create *)
Lemma fst_fold_xstep0 d o : fst (fold_left xstep d (0, o)) = Z.of_N (xor_all d).
Proof. change 0 with (Z.of_N 0). apply fst_fold_xstep. Qed.

Definition xframe_create (fid : Z) (data : bytes) : Frame.res bytes :=
  match parse_fmt "<BBH" with
  | None => Frame.Raise "bad format"
  | Some f =>
      match pack f [VInt 126; VInt fid; VInt (5 + zlen data)] with
      | None => Frame.Raise "struct.error"
      | Some h =>
          let body := h ++ data in
          if (xor_all body <? 256)%N then Frame.Ok (body ++ [xor_all body])
          else Frame.Raise "ValueError"
      end
  end.

Definition emb_xcreate (r : Frame.res bytes) : PyLite.res (pv * option pv) :=
  match r with
  | Frame.Ok b => PyLite.Ok (PBytes b, Some xf)
  | Frame.Raise w => ExcS w (self_st xf)
  | Frame.Err _ => Unsupported ""
  end.

Ltac xor_loop envf :=
  lazymatch goal with
  | |- context [for_loop _ _ _ _ _ (map ?g ?l) ?E] =>
      let F := fresh "F" in
      pose (F := envf);
      change E with (F (0, @None pv));
      rewrite (for_loop_fold F g xstep);
      [ | intros [a [v|]] y; unfold F, xstep; cbn [fst snd app]; pyrun ];
      unfold F; clear F; cbv beta; rewrite fst_fold_xstep0;
      destruct (snd (fold_left xstep l (0, @None pv))); cbn [app]
  end.

Lemma xf_frame_create_func n fid data :
  call_func program (S n) XorFrame_frame_create [xf; PInt fid; PBytes data] [] =
  emb_xcreate (xframe_create fid data).
Proof.
  pystart. unfold xframe_create, emb_xcreate. pysteps.
  - xor_loop (fun st : Z * option pv =>
       [("self", xf); ("fid", PInt fid); ("data", PBytes data);
        ("n", PInt (5 + zlen data)); ("body", PBytes (b ++ data)); ("x", PInt (fst st))]
       ++ match snd st with Some v => [("b", v)] | None => [] end).
    all: pyrun; rewrite N2Z.id; reflexivity.
  - pyrun.
Qed.

Lemma xframe_create_nil fid :
  xframe_create fid [] =
  match parse_fmt "<BBH" with
  | None => Frame.Raise "bad format"
  | Some f =>
      match pack f [VInt 126; VInt fid; VInt 5] with
      | None => Frame.Raise "struct.error"
      | Some h =>
          if (xor_all h <? 256)%N then Frame.Ok (h ++ [xor_all h]) else Frame.Raise "ValueError"
      end
  end.
Proof.
  unfold xframe_create. destruct (parse_fmt "<BBH"); [|reflexivity].
  change (5 + zlen (@nil N)) with 5. destruct (pack _ _); [|reflexivity].
  cbv zeta. rewrite app_nil_r. reflexivity.
Qed.

Lemma xf_frame_create_None_func n fid :
  call_func program (S n) XorFrame_frame_create [xf; PInt fid; PNone] [] =
  emb_xcreate (xframe_create fid []).
Proof.
  pystart. rewrite xframe_create_nil. unfold emb_xcreate. pysteps.
  - xor_loop (fun st : Z * option pv =>
       [("self", xf); ("fid", PInt fid); ("data", PNone);
        ("n", PInt 5); ("body", PBytes b); ("x", PInt (fst st))]
       ++ match snd st with Some v => [("b", v)] | None => [] end).
    all: pyrun; rewrite N2Z.id; reflexivity.
  - pyrun.
Qed.

(** the id given as an IntEnum member (what nxslib's Parser passes) *)
Lemma xf_frame_create_enum_func n name fid data :
  call_func program (S n) XorFrame_frame_create [xf; PEnum "EParseId" name fid true; PBytes data] [] =
  emb_xcreate (xframe_create fid data).
Proof.
  pystart. unfold xframe_create, emb_xcreate. pysteps.
  - xor_loop (fun st : Z * option pv =>
       [("self", xf); ("fid", PEnum "EParseId" name fid true); ("data", PBytes data);
        ("n", PInt (5 + zlen data)); ("body", PBytes (b ++ data)); ("x", PInt (fst st))]
       ++ match snd st with Some v => [("b", v)] | None => [] end).
    all: pyrun; rewrite N2Z.id; reflexivity.
  - pyrun.
Qed.

Lemma xf_frame_create_enum_None_func n name fid :
  call_func program (S n) XorFrame_frame_create [xf; PEnum "EParseId" name fid true; PNone] [] =
  emb_xcreate (xframe_create fid []).
Proof.
  pystart. rewrite xframe_create_nil. unfold emb_xcreate. pysteps.
  - xor_loop (fun st : Z * option pv =>
       [("self", xf); ("fid", PEnum "EParseId" name fid true); ("data", PNone);
        ("n", PInt 5); ("body", PBytes b); ("x", PInt (fst st))]
       ++ match snd st with Some v => [("b", v)] | None => [] end).
    all: pyrun; rewrite N2Z.id; reflexivity.
  - pyrun.
Qed.

#[local] Hint Resolve xf_frame_create_func xf_frame_create_None_func
  xf_frame_create_enum_func xf_frame_create_enum_None_func : pyspec.

Definition emb_xcreate_meth (r : Frame.res bytes) : PyLite.res (pv * pv) :=
  match r with
  | Frame.Ok b => PyLite.Ok (PBytes b, xf)
  | Frame.Raise w => Exc w
  | Frame.Err _ => Unsupported ""
  end.

#[local] Arguments xframe_create : simpl never.
#[local] Hint Unfold emb_xcreate emb_xcreate_meth : xor_model.

Theorem xf_frame_create_spec n fid data :
  call_method program (1 + n) xf "frame_create" [PInt fid; PBytes data] =
  emb_xcreate_meth (xframe_create fid data).
Proof. pystart. unfold emb_xcreate_meth. pyrun. Qed.

Theorem xf_frame_create_None_spec n fid :
  call_method program (1 + n) xf "frame_create" [PInt fid; PNone] =
  emb_xcreate_meth (xframe_create fid []).
Proof. pystart. pyrun. Qed.

(** * The custom codec round-trips *)
Lemma lxor_lt_256 a b : (a < 256 -> b < 256 -> N.lxor a b < 256)%N.
Proof.
  intros Ha Hb. destruct (N.eq_dec (N.lxor a b) 0) as [E|E]; [rewrite E; reflexivity|].
  change 256%N with (2 ^ 8)%N. apply N.log2_lt_pow2; [lia|].
  eapply N.le_lt_trans; [apply N.log2_lxor|].
  assert (L : forall x, (x < 256 -> N.log2 x < 8)%N).
  { intros x Hx. destruct (N.eq_dec x 0) as [->|Nx]; [reflexivity|].
    apply N.log2_lt_pow2; [lia|exact Hx]. }
  apply N.max_lub_lt; apply L; assumption.
Qed.

Lemma fold_lxor_lt d : forall a, (a < 256)%N -> wf_bytes d -> (fold_left N.lxor d a < 256)%N.
Proof.
  induction d as [|y r IH]; intros a Ha W; cbn [fold_left]; [exact Ha|].
  apply Reasm_proofs.wf_cons_inv in W. destruct W as [Hy Wr].
  apply IH; [apply lxor_lt_256; assumption|exact Wr].
Qed.

Lemma xor_all_lt d : wf_bytes d -> (xor_all d < 256)%N.
Proof. intros W. apply fold_lxor_lt; [reflexivity|exact W]. Qed.

Definition xbody (fid : Z) (p : bytes) : bytes :=
  126%N :: Z.to_N fid :: le_enc 2 (Z.to_N (5 + zlen p)) ++ p.
Definition xframe (fid : Z) (p : bytes) : bytes := xbody fid p ++ [xor_all (xbody fid p)].

Lemma xpack_ok fid n : 0 <= fid <= 255 -> 0 <= n <= 65535 ->
  match parse_fmt "<BBH" with
  | Some f => pack f [VInt 126; VInt fid; VInt n]
  | None => None
  end = Some (126%N :: Z.to_N fid :: le_enc 2 (Z.to_N n)).
Proof.
  intros Hf Hn.
  let v := eval vm_compute in (parse_fmt "<BBH") in change (parse_fmt "<BBH") with v.
  assert (H0 : in_unsigned 1 126 = true) by reflexivity.
  assert (H1 : in_unsigned 1 fid = true)
    by (unfold in_unsigned; change (Z.of_N (pow256 1)) with 256; lia).
  assert (H2 : in_unsigned 2 n = true)
    by (unfold in_unsigned; change (Z.of_N (pow256 2)) with 65536; lia).
  assert (U0 : unsgn 1 126 = 126%N) by reflexivity.
  assert (U1 : unsgn 1 fid = Z.to_N fid)
    by (unfold unsgn; change (Z.of_N (pow256 1)) with 256; rewrite Z.mod_small by lia; reflexivity).
  assert (U2 : unsgn 2 n = Z.to_N n)
    by (unfold unsgn; change (Z.of_N (pow256 2)) with 65536; rewrite Z.mod_small by lia; reflexivity).
  unfold pack.
  repeat (cbn [fend fitems pack_items pack_item icode icnt pack_many pack_one int_of_value
               code_signed code_size app];
          rewrite ?H0, ?H1, ?H2, ?U0, ?U1, ?U2).
  cbn [enc le_enc app]. change (126 mod 256)%N with 126%N.
  rewrite (N.mod_small (Z.to_N fid)) by lia. reflexivity.
Qed.

Lemma xbody_wf fid p : 0 <= fid <= 255 -> wf_bytes p -> wf_bytes (xbody fid p).
Proof.
  intros Hf W. unfold xbody. constructor; [reflexivity|]. constructor; [lia|].
  apply wf_bytes_app; [apply le_enc_wf|exact W].
Qed.

Theorem xframe_create_ok fid p :
  0 <= fid <= 255 -> zlen p <= 65530 -> wf_bytes p ->
  xframe_create fid p = Frame.Ok (xframe fid p).
Proof.
  intros Hf Hp W. pose proof (zlen_nonneg p) as Hp0.
  pose proof (xpack_ok fid (5 + zlen p) Hf ltac:(lia)) as HP.
  unfold xframe_create. destruct (parse_fmt "<BBH"); [|discriminate].
  rewrite HP. cbv zeta.
  change ((126%N :: Z.to_N fid :: le_enc 2 (Z.to_N (5 + zlen p))) ++ p) with (xbody fid p).
  pose proof (xor_all_lt _ (xbody_wf fid p Hf W)) as Hx.
  replace (xor_all (xbody fid p) <? 256)%N with true by lia. reflexivity.
Qed.

Theorem xframe_decode_create fid p :
  0 <= fid <= 255 -> zlen p <= 65530 -> Frame.known_id fid = true ->
  fam_frame_decode xm (xframe fid p) = Frame.Ok (fid, p).
Proof.
  intros Hf Hp Kn. pose proof (zlen_nonneg p) as Hp0.
  assert (Hlen : le_dec (le_enc 2 (Z.to_N (5 + zlen p))) = Z.to_N (5 + zlen p)).
  { rewrite le_dec_enc. apply N.mod_small. change (pow256 2) with 65536%N. lia. }
  unfold xframe, xbody in *. cbn [le_enc app] in *.
  set (lo := (Z.to_N (5 + zlen p) mod 256)%N) in *.
  set (hi := (Z.to_N (5 + zlen p) / 256 mod 256)%N) in *.
  set (x := xor_all (126%N :: Z.to_N fid :: lo :: hi :: p)).
  assert (HL : zlen (126%N :: Z.to_N fid :: lo :: hi :: p ++ [x]) = 5 + zlen p).
  { unfold zlen. cbn [List.length]. rewrite app_length. cbn [List.length]. lia. }
  assert (HH : fam_hdr_decode xm (126%N :: Z.to_N fid :: lo :: hi :: p ++ [x]) = Frame.Ok (fid, 5 + zlen p)).
  { unfold fam_hdr_decode.
    cbn [xm Family.f_hdr_len Family.f_sof Family.f_len_pos Family.f_len_bytes Family.f_len_be Family.f_id_pos].
    rewrite HL. replace (5 + zlen p <? Z.of_nat 4) with false by lia.
    cbn [firstn nth Family.sub skipn N.eqb Pos.eqb negb].
    rewrite Hlen, !Z2N.id by lia. rewrite Kn. reflexivity. }
  unfold fam_frame_decode. rewrite HH, HL.
  cbn [xm Family.f_hdr_len Family.f_foot_len].
  replace (negb (5 + zlen p =? 5 + zlen p) || (5 + zlen p <? Z.of_nat 4 + Z.of_nat 1)) with false by lia.
  change (126%N :: Z.to_N fid :: lo :: hi :: p ++ [x]) with ((126%N :: Z.to_N fid :: lo :: hi :: p) ++ [x]).
  set (body := 126%N :: Z.to_N fid :: lo :: hi :: p) in *.
  rewrite app_length. cbn [List.length].
  replace (List.length body + 1 - 1)%nat with (List.length body) by lia.
  rewrite firstn_app, Nat.sub_diag, firstn_all. cbn [firstn]. rewrite app_nil_r.
  rewrite skipn_app, Nat.sub_diag, skipn_all. cbn [skipn app].
  rewrite <- xfoot_validate_last.
  unfold xfoot_validate, xor_all. rewrite fold_left_app. cbn [fold_left].
  fold (xor_all body). fold x. rewrite N.lxor_nilpotent. reflexivity.
Qed.

Theorem xf_frame_create_enum_spec n name fid data :
  call_method program (1 + n) xf "frame_create" [PEnum "EParseId" name fid true; PBytes data] =
  emb_xcreate_meth (xframe_create fid data).
Proof. pystart. pyrun. Qed.

Theorem xf_frame_create_enum_None_spec n name fid :
  call_method program (1 + n) xf "frame_create" [PEnum "EParseId" name fid true; PNone] =
  emb_xcreate_meth (xframe_create fid []).
Proof. pystart. pyrun. Qed.

Lemma xframe_wf fid p : 0 <= fid <= 255 -> wf_bytes p -> wf_bytes (xframe fid p).
Proof.
  intros Hf W. unfold xframe. apply wf_bytes_app; [apply xbody_wf; assumption|].
  constructor; [apply xor_all_lt, xbody_wf; assumption|constructor].
Qed.

(** the round trip on the interpreted source: what [frame_create] builds,
    [frame_decode] takes apart again *)
Theorem xf_roundtrip_src n m fid p :
  0 <= fid <= 255 -> zlen p <= 65530 -> wf_bytes p -> Frame.known_id fid = true ->
  call_method program (1 + n) xf "frame_create" [PInt fid; PBytes p] =
    PyLite.Ok (PBytes (xframe fid p), xf) /\
  call_method program (2 + m) xf "frame_decode" [PBytes (xframe fid p)] =
    PyLite.Ok (frame_obj (enum_id fid) p (perr_obj "NOERR" 0), xf).
Proof.
  intros Hf Hp W Kn. split.
  - rewrite xf_frame_create_spec, xframe_create_ok by assumption. reflexivity.
  - rewrite xf_frame_decode_spec, xframe_decode_wf by (apply xframe_wf; assumption).
    rewrite xframe_decode_create by assumption. reflexivity.
Qed.

(** * Audit *)
Print Assumptions xf_hdr_len_spec.
Print Assumptions xf_hdr_find_spec.
Print Assumptions xf_hdr_decode_spec.
Print Assumptions xf_foot_validate_spec.
Print Assumptions xf_frame_decode_spec.
Print Assumptions xf_hdr_decode_fam.
Print Assumptions xf_frame_decode_fam.
Print Assumptions xf_implements.
Print Assumptions xf_implements_wf.
Print Assumptions xf_not_implements_fam.
Print Assumptions xcodec_lawful2.
Print Assumptions kscan_wf.
Print Assumptions xf_recv_all_eq.
Print Assumptions xf_recv_all_scan.
Print Assumptions xf_frame_create_spec.
Print Assumptions xf_frame_create_None_spec.
Print Assumptions xf_frame_create_enum_spec.
Print Assumptions xf_frame_create_enum_None_spec.
Print Assumptions xframe_create_ok.
Print Assumptions xframe_decode_create.
Print Assumptions xf_roundtrip_src.

From Coq Require Import String ZArith List Bool Lia.
From NX Require Import Records Bytes_proofs.
From NX Require Gen_misc.
Import ListNotations.
Open Scope string_scope.
Open Scope Z_scope.

Lemma get_put_same s n v : get (put s n v) n = Some v.
Proof.
  induction s as [|[m x] r IH]; cbn [put get].
  - now rewrite String.eqb_refl.
  - destruct (String.eqb m n) eqn:E; cbn [get]; rewrite E; [reflexivity|exact IH].
Qed.

Lemma get_put_other s n v m : m <> n -> get (put s n v) m = get s m.
Proof.
  intros H. induction s as [|[k x] r IH]; cbn [put get].
  - destruct (String.eqb n m) eqn:E; [apply String.eqb_eq in E; congruence|reflexivity].
  - destruct (String.eqb k n) eqn:E; cbn [get].
    + apply String.eqb_eq in E. subst k.
      destruct (String.eqb n m) eqn:E2; [apply String.eqb_eq in E2; congruence|reflexivity].
    + destruct (String.eqb k m); [reflexivity|exact IH].
Qed.

Lemma chan_new_initdone chan typ vdim name en div mlen :
  initdone (chan_new chan typ vdim name en div mlen) = true.
Proof. reflexivity. Qed.

Lemma dev_new_initdone chmax flags rx : initdone (dev_new chmax flags rx) = true.
Proof. reflexivity. Qed.

Definition assignable (name : string) : bool :=
  String.eqb name "en" || String.eqb name "div".

Lemma gen_allow name :
  (String.eqb name Gen_misc.chan_rw_a || String.eqb name Gen_misc.chan_rw_b) = assignable name.
Proof. unfold assignable, Gen_misc.chan_rw_a, Gen_misc.chan_rw_b. apply orb_comm. Qed.

(** every attribute name, every value, on every constructed channel record *)
Theorem chan_record_readonly chan typ vdim nm en div mlen name v :
  let r := chan_new chan typ vdim nm en div mlen in
  if assignable name
  then chan_setattr r name v = (put r name v, Done)
  else chan_setattr r name v = (r, TypeError).
Proof.
  cbn zeta. unfold chan_setattr. rewrite chan_new_initdone, gen_allow.
  destruct (assignable name); reflexivity.
Qed.

Theorem dev_record_readonly chmax flags rx name v :
  dev_setattr (dev_new chmax flags rx) name v = (dev_new chmax flags rx, TypeError).
Proof. unfold dev_setattr. rewrite dev_new_initdone. reflexivity. Qed.

(** an allowed assignment changes exactly that attribute *)
Theorem put_only_that s name v :
  get (put s name v) name = Some v /\ forall m, m <> name -> get (put s name v) m = get s m.
Proof. split; [apply get_put_same|intros m H; now apply get_put_other]. Qed.

(** derived attributes, for every type byte 0..255 (256-value sweep, lifted) *)
Definition derived_ok (t : N) : bool :=
  let typ := Z.of_N t in
  let r := chan_new 0 typ 1 "" false 0 0 in
  match get r "dtype", get r "critical", get r "type_res", get r "is_valid", get r "is_numerical", get r "_type" with
  | Some (PInt d), Some (PBool c), Some (PInt tr), Some (PBool iv), Some (PBool num), Some (PInt ty) =>
      (d =? typ mod 32) && Bool.eqb c (128 <=? typ) && (tr =? (typ / 32 mod 4) * 32)
      && Bool.eqb iv (negb (d =? 0))
      && Bool.eqb num (negb ((d =? 0) || (d =? 1) || (d =? 18) || (d =? 19)))
      && (ty =? typ)
  | _, _, _, _, _, _ => false
  end.

Lemma derived_sweep : all_bits 8 0 derived_ok = true.
Proof. vm_compute. reflexivity. Qed.

(** the derived attributes do not depend on the other constructor arguments *)
Lemma derived_indep chan typ vdim nm en div mlen f :
  In f ["dtype"; "critical"; "type_res"; "is_valid"; "is_numerical"; "_type"]%string ->
  get (chan_new chan typ vdim nm en div mlen) f = get (chan_new 0 typ 1 "" false 0 0) f.
Proof.
  intros H. cbn [In] in H.
  repeat (destruct H as [<-|H]; [reflexivity|]). destruct H.
Qed.

Theorem chan_derived typ chan vdim nm en div mlen :
  0 <= typ < 256 ->
  let r := chan_new chan typ vdim nm en div mlen in
  get r "_type" = Some (PInt typ) /\
  get r "dtype" = Some (PInt (typ mod 32)) /\
  get r "critical" = Some (PBool (128 <=? typ)) /\
  get r "type_res" = Some (PInt ((typ / 32 mod 4) * 32)) /\
  get r "is_valid" = Some (PBool (negb (typ mod 32 =? 0))) /\
  get r "is_numerical" =
    Some (PBool (negb ((typ mod 32 =? 0) || (typ mod 32 =? 1) || (typ mod 32 =? 18) || (typ mod 32 =? 19)))).
Proof.
  intros Ht. cbn zeta.
  rewrite !(derived_indep chan typ vdim nm en div mlen) by (cbn [In]; tauto).
  assert (S : derived_ok (Z.to_N typ) = true).
  { apply (all_below_pow2 8 derived_ok derived_sweep). change (2 ^ N.of_nat 8)%N with 256%N. lia. }
  unfold derived_ok in S. rewrite Z2N.id in S by lia.
  destruct (get (chan_new 0 typ 1 "" false 0 0) "dtype") as [[d| | |]|]; try discriminate.
  destruct (get (chan_new 0 typ 1 "" false 0 0) "critical") as [[|c| |]|]; try discriminate.
  destruct (get (chan_new 0 typ 1 "" false 0 0) "type_res") as [[tr| | |]|]; try discriminate.
  destruct (get (chan_new 0 typ 1 "" false 0 0) "is_valid") as [[|iv| |]|]; try discriminate.
  destruct (get (chan_new 0 typ 1 "" false 0 0) "is_numerical") as [[|num| |]|]; try discriminate.
  destruct (get (chan_new 0 typ 1 "" false 0 0) "_type") as [[ty| | |]|]; try discriminate.
  rewrite !andb_true_iff in S. destruct S as [[[[[S1 S2] S3] S4] S5] S6].
  apply Z.eqb_eq in S1, S3, S6. apply Bool.eqb_prop in S2, S4, S5.
  subst d tr ty c iv num. repeat split; reflexivity.
Qed.

Definition dev_ok (t : N) : bool :=
  let f := Z.of_N t in
  let r := dev_new 0 f 0 in
  match get r "div_supported", get r "ack_supported" with
  | Some (PBool a), Some (PBool b) => Bool.eqb a (Z.odd f) && Bool.eqb b (Z.odd (f / 2))
  | _, _ => false
  end.

Lemma dev_sweep : all_bits 8 0 dev_ok = true.
Proof. vm_compute. reflexivity. Qed.

Theorem dev_derived chmax flags rx :
  0 <= flags < 256 ->
  let r := dev_new chmax flags rx in
  get r "chmax" = Some (PInt chmax) /\ get r "flags" = Some (PInt flags) /\
  get r "rxpadding" = Some (PInt rx) /\
  get r "div_supported" = Some (PBool (Z.odd flags)) /\
  get r "ack_supported" = Some (PBool (Z.odd (flags / 2))).
Proof.
  intros Hf. cbn zeta.
  split; [reflexivity|]. split; [reflexivity|]. split; [reflexivity|].
  assert (S : dev_ok (Z.to_N flags) = true).
  { apply (all_below_pow2 8 dev_ok dev_sweep). change (2 ^ N.of_nat 8)%N with 256%N. lia. }
  unfold dev_ok in S. rewrite Z2N.id in S by lia.
  change (get (dev_new chmax flags rx) "div_supported") with (get (dev_new 0 flags 0) "div_supported").
  change (get (dev_new chmax flags rx) "ack_supported") with (get (dev_new 0 flags 0) "ack_supported").
  destruct (get (dev_new 0 flags 0) "div_supported") as [[|a| |]|]; try discriminate.
  destruct (get (dev_new 0 flags 0) "ack_supported") as [[|b| |]|]; try discriminate.
  rewrite andb_true_iff in S. destruct S as [S1 S2].
  apply Bool.eqb_prop in S1, S2. subst a b. split; reflexivity.
Qed.

(** Frame reassembly over an ARBITRARY lawful codec delivers exactly the frames
    of one left-to-right scan of the concatenated bytes: the proof of
    Reasm_proofs.v ported to the generic definitions of model/Codec.v, using
    only interface laws; the built-in serial codec is lawful and the generic
    model instantiated with it is the serial model. *)
From Coq Require Import Lia ZifyBool ZifyNat ZifyN String.
From NX Require Import Bytes PyStruct Crc Frame Wire Reasm Codec Bytes_proofs Crc_proofs Frame_proofs Dispatch_proofs C02_proofs Reasm_proofs.
From NX Require Gen_frame.
Ltac Zify.zify_post_hook ::= Z.to_euclidean_division_equations.
Open Scope Z_scope.

(** * The laws actually needed

    [lawful] alone does not imply the refinement (see the two machine-checked
    counterexamples at the end of this file).  Two more laws are needed:
    - the total frame length announced by an accepted header of a well-formed
      buffer is not negative (Python slicing [b[:flen]] with [flen < 0] counts
      from the END of whatever happens to be buffered, so the result would
      depend on the chunking);
    - the frame decoder does not accept the empty string (a header announcing
      [flen = 0] together with a decoder accepting [b""] makes [_read_frame]
      return a frame without consuming anything: the loop never terminates,
      whereas [scan] advances by [max 1 flen]). *)
Record lawful2 (K : codec) : Prop := mkLawful2
  { law2_lawful : lawful K;
    law_hdr_flen_nonneg : forall d fid flen,
      wf_bytes d -> k_hdr_decode K d = Ok (fid, flen) -> 0 <= flen;
    law_frame_nonempty : forall fid p, k_frame_decode K [] <> Ok (fid, p) }.

Lemma slice_to_0 {A} (l : list A) : slice_to l 0 = [].
Proof.
  unfold slice_to. rewrite clip_index_in by lia. reflexivity.
Qed.

Section Port.
Variable K : codec.
Hypothesis HK : lawful2 K.

Local Notation kfs s := (fst (kscan K s)).

Lemma k_lawful : lawful K.
Proof. exact (law2_lawful K HK). Qed.

Lemma k_hl_pos : 1 <= k_hdr_len K.
Proof. exact (law_hdr_len K k_lawful). Qed.

(** * Facts about the header decoder, from the laws *)
Lemma khdr_app (a b : bytes) :
  k_hdr_len K <= zlen a -> k_hdr_decode K (a ++ b) = k_hdr_decode K a.
Proof. apply (law_hdr_prefix K k_lawful). Qed.

Lemma khdr_ok_len (b : bytes) fid flen :
  k_hdr_decode K b = Ok (fid, flen) -> k_hdr_len K <= zlen b.
Proof.
  intros H. destruct (Z_lt_ge_dec (zlen b) (k_hdr_len K)) as [Hs|Hl]; [|lia].
  destruct (law_hdr_short K k_lawful b Hs) as [e E]. rewrite E in H. discriminate.
Qed.

Lemma khdr_ok_inv (b : bytes) fid flen : wf_bytes b -> k_hdr_decode K b = Ok (fid, flen) ->
  (exists r, b = k_sof K :: r) /\ k_hdr_len K <= zlen b /\ 0 <= flen.
Proof.
  intros Hwf H. split; [|split].
  - exact (law_hdr_sof K k_lawful b fid flen H).
  - exact (khdr_ok_len b fid flen H).
  - exact (law_hdr_flen_nonneg K HK b fid flen Hwf H).
Qed.

Lemma khdr_no_raise (b : bytes) w : wf_bytes b -> k_hdr_decode K b <> Raise w.
Proof. apply (law_hdr_no_raise K k_lawful). Qed.

Lemma kframe_no_raise (d : bytes) w : wf_bytes d -> k_frame_decode K d <> Raise w.
Proof. apply (law_frame_no_raise K k_lawful). Qed.

Lemma kframe_ok_pos (b : bytes) flen fid p : 0 <= flen ->
  k_frame_decode K (slice_to b flen) = Ok (fid, p) -> 1 <= flen.
Proof.
  intros H D. destruct (Z.eq_dec flen 0) as [->|N]; [|lia].
  rewrite slice_to_0 in D. exfalso. exact (law_frame_nonempty K HK fid p D).
Qed.

(** first SOF of a buffer *)
Definition kno_sof (l : bytes) : Prop := forall x, In x l -> x <> k_sof K.

Lemma khdr_find_skip (pre l : bytes) : kno_sof pre ->
  khdr_find K (pre ++ k_sof K :: l) = zlen pre.
Proof.
  intros H. unfold khdr_find.
  rewrite find_byte_app_skip by exact H. rewrite find_byte_head. cbn [option_map].
  unfold zlen. lia.
Qed.

Lemma khdr_find_none (l : bytes) : kno_sof l -> khdr_find K l = -1.
Proof.
  intros H. unfold khdr_find. rewrite find_byte_none by exact H. reflexivity.
Qed.

Lemma ksof_split (d : bytes) :
  kno_sof d \/ exists pre l, d = pre ++ k_sof K :: l /\ kno_sof pre.
Proof.
  induction d as [|x r' IH].
  - left. intros y [].
  - destruct (N.eq_dec x (k_sof K)) as [->|Nx].
    + right. exists [], r'. split; [reflexivity|intros y []].
    + destruct IH as [IH|(pre & l & E & Hpre)].
      * left. intros y [<-|Hy]; [exact Nx|apply IH; exact Hy].
      * right. exists (x :: pre), l. split; [rewrite E; reflexivity|].
        intros y [<-|Hy]; [exact Nx|apply Hpre; exact Hy].
Qed.

(** * The specification [kscan] *)

(** kscan does not depend on surplus fuel *)
Lemma kscan_fuel_enough : forall f1 f2 (s : bytes),
  (List.length s < f1)%nat -> (List.length s < f2)%nat -> kscan_fuel K f1 s = kscan_fuel K f2 s.
Proof.
  induction f1 as [|f1 IH]; intros f2 s H1 H2; [lia|].
  destruct f2 as [|f2]; [lia|].
  cbn [kscan_fuel].
  destruct s as [|x r]; [reflexivity|].
  cbn [List.length] in H1, H2.
  rewrite (IH f2 r) by lia.
  destruct (negb (x =? k_sof K)%N); [reflexivity|].
  destruct (zlen (x :: r) <? k_hdr_len K); [reflexivity|].
  destruct (k_hdr_decode K (x :: r)) as [[fid flen]|e|w]; try reflexivity.
  destruct (zlen (x :: r) <? flen); [reflexivity|].
  destruct (k_frame_decode K (slice_to (x :: r) flen)) as [[fid' p]|e|w]; try reflexivity.
  assert (L : (List.length (slice_from (x :: r) (Z.max 1 flen)) < List.length (x :: r))%nat)
    by (apply slice_from_shorter; [discriminate|lia]).
  cbn [List.length] in L.
  rewrite (IH f2 (slice_from (x :: r) (Z.max 1 flen))) by lia.
  reflexivity.
Qed.

(** fuel-free unfolding of [kscan] *)
Lemma kscan_cons x (r : bytes) :
  kscan K (x :: r) =
  if negb (x =? k_sof K)%N then kscan K r
  else if zlen (x :: r) <? k_hdr_len K then ([], x :: r)
  else match k_hdr_decode K (x :: r) with
       | Ok (fid, flen) =>
           if zlen (x :: r) <? flen then ([], x :: r)
           else match k_frame_decode K (slice_to (x :: r) flen) with
                | Ok (fid', p) =>
                    let '(fs, rest) := kscan K (slice_from (x :: r) (Z.max 1 flen)) in
                    ((fid', p) :: fs, rest)
                | _ => kscan K r
                end
       | _ => kscan K r
       end.
Proof.
  unfold kscan at 1. cbn [kscan_fuel].
  rewrite (kscan_fuel_enough (List.length (x :: r)) (S (List.length r)) r)
    by (cbn [List.length]; lia).
  fold (kscan K r).
  destruct (negb (x =? k_sof K)%N); [reflexivity|].
  destruct (zlen (x :: r) <? k_hdr_len K); [reflexivity|].
  destruct (k_hdr_decode K (x :: r)) as [[fid flen]|e|w]; try reflexivity.
  destruct (zlen (x :: r) <? flen); [reflexivity|].
  destruct (k_frame_decode K (slice_to (x :: r) flen)) as [[fid' p]|e|w]; try reflexivity.
  assert (L : (List.length (slice_from (x :: r) (Z.max 1 flen)) < List.length (x :: r))%nat)
    by (apply slice_from_shorter; [discriminate|lia]).
  unfold kscan.
  rewrite (kscan_fuel_enough (List.length (x :: r))
             (S (List.length (slice_from (x :: r) (Z.max 1 flen))))
             (slice_from (x :: r) (Z.max 1 flen))) by lia.
  reflexivity.
Qed.

Lemma kfs_skip x (r : bytes) : x <> k_sof K -> kfs (x :: r) = kfs r.
Proof.
  intros H. rewrite kscan_cons.
  replace (negb (x =? k_sof K)%N) with true by lia. reflexivity.
Qed.

Lemma kfs_nosof (a s : bytes) : kno_sof a -> kfs (a ++ s) = kfs s.
Proof.
  induction a as [|x a IH]; intros H; [reflexivity|].
  cbn [app]. rewrite kfs_skip by (apply H; left; reflexivity).
  apply IH. intros y Hy. apply H. right. exact Hy.
Qed.

Lemma kfs_sof_short (r : bytes) : zlen (k_sof K :: r) < k_hdr_len K -> kfs (k_sof K :: r) = [].
Proof.
  intros H. rewrite kscan_cons.
  rewrite N.eqb_refl. cbn [negb].
  replace (zlen (k_sof K :: r) <? k_hdr_len K) with true by lia. reflexivity.
Qed.

Lemma kfs_short (s : bytes) : zlen s < k_hdr_len K -> kfs s = [].
Proof.
  induction s as [|x r IH]; intros H; [reflexivity|].
  destruct (N.eq_dec x (k_sof K)) as [->|Nx].
  - apply kfs_sof_short. exact H.
  - rewrite kfs_skip by exact Nx. apply IH. rewrite zlen_cons in H. lia.
Qed.

Lemma kfs_bad_hdr (r : bytes) e : k_hdr_len K <= zlen (k_sof K :: r) ->
  k_hdr_decode K (k_sof K :: r) = Err e ->
  kfs (k_sof K :: r) = kfs r.
Proof.
  intros H E. rewrite kscan_cons.
  rewrite N.eqb_refl. cbn [negb].
  replace (zlen (k_sof K :: r) <? k_hdr_len K) with false by lia. rewrite E. reflexivity.
Qed.

Lemma kfs_pending (r : bytes) fid flen : k_hdr_len K <= zlen (k_sof K :: r) ->
  k_hdr_decode K (k_sof K :: r) = Ok (fid, flen) -> zlen (k_sof K :: r) < flen ->
  kfs (k_sof K :: r) = [].
Proof.
  intros H E L. rewrite kscan_cons.
  rewrite N.eqb_refl. cbn [negb].
  replace (zlen (k_sof K :: r) <? k_hdr_len K) with false by lia. rewrite E.
  replace (zlen (k_sof K :: r) <? flen) with true by lia. reflexivity.
Qed.

Lemma kfs_bad_frame (r : bytes) fid flen e : k_hdr_len K <= zlen (k_sof K :: r) ->
  k_hdr_decode K (k_sof K :: r) = Ok (fid, flen) -> flen <= zlen (k_sof K :: r) ->
  k_frame_decode K (slice_to (k_sof K :: r) flen) = Err e ->
  kfs (k_sof K :: r) = kfs r.
Proof.
  intros H E L D. rewrite kscan_cons.
  rewrite N.eqb_refl. cbn [negb].
  replace (zlen (k_sof K :: r) <? k_hdr_len K) with false by lia. rewrite E.
  replace (zlen (k_sof K :: r) <? flen) with false by lia. rewrite D. reflexivity.
Qed.

Lemma kfs_frame (r : bytes) fid flen fid' p : k_hdr_len K <= zlen (k_sof K :: r) ->
  k_hdr_decode K (k_sof K :: r) = Ok (fid, flen) -> flen <= zlen (k_sof K :: r) ->
  k_frame_decode K (slice_to (k_sof K :: r) flen) = Ok (fid', p) ->
  kfs (k_sof K :: r) = (fid', p) :: kfs (slice_from (k_sof K :: r) (Z.max 1 flen)).
Proof.
  intros H E L D. rewrite kscan_cons.
  rewrite N.eqb_refl. cbn [negb].
  replace (zlen (k_sof K :: r) <? k_hdr_len K) with false by lia. rewrite E.
  replace (zlen (k_sof K :: r) <? flen) with false by lia. rewrite D.
  destruct (kscan K (slice_from (k_sof K :: r) (Z.max 1 flen))) as [a b]. reflexivity.
Qed.

(** the same steps in front of arbitrary further bytes [X]: a complete
    candidate is decided the same way whatever follows *)
Lemma kstep_bad_hdr (r : bytes) e (X : bytes) : k_hdr_len K <= zlen (k_sof K :: r) ->
  k_hdr_decode K (k_sof K :: r) = Err e ->
  kfs ((k_sof K :: r) ++ X) = kfs (r ++ X).
Proof.
  intros H E. cbn [app]. apply (kfs_bad_hdr (r ++ X) e).
  - change (k_sof K :: r ++ X) with ((k_sof K :: r) ++ X). rewrite zlen_app.
    pose proof (zlen_nonneg X). lia.
  - change (k_sof K :: r ++ X) with ((k_sof K :: r) ++ X). rewrite khdr_app by exact H. exact E.
Qed.

Lemma kstep_bad_frame (r : bytes) fid flen e (X : bytes) : k_hdr_len K <= zlen (k_sof K :: r) ->
  k_hdr_decode K (k_sof K :: r) = Ok (fid, flen) -> 0 <= flen <= zlen (k_sof K :: r) ->
  k_frame_decode K (slice_to (k_sof K :: r) flen) = Err e ->
  kfs ((k_sof K :: r) ++ X) = kfs (r ++ X).
Proof.
  intros H E L D. cbn [app]. pose proof (zlen_nonneg X) as HX.
  apply (kfs_bad_frame (r ++ X) fid flen e);
    change (k_sof K :: r ++ X) with ((k_sof K :: r) ++ X).
  - rewrite zlen_app. lia.
  - rewrite khdr_app by exact H. exact E.
  - rewrite zlen_app. lia.
  - rewrite slice_to_app_le by lia. exact D.
Qed.

Lemma kstep_frame (r : bytes) fid flen fid' p (X : bytes) : k_hdr_len K <= zlen (k_sof K :: r) ->
  k_hdr_decode K (k_sof K :: r) = Ok (fid, flen) -> 0 <= flen <= zlen (k_sof K :: r) ->
  k_frame_decode K (slice_to (k_sof K :: r) flen) = Ok (fid', p) ->
  1 <= flen /\
  kfs ((k_sof K :: r) ++ X) = (fid', p) :: kfs (slice_from (k_sof K :: r) flen ++ X).
Proof.
  intros H E L D. pose proof (zlen_nonneg X) as HX.
  assert (F : 1 <= flen)
    by (apply (kframe_ok_pos (k_sof K :: r) flen fid' p); [lia|exact D]).
  split; [exact F|].
  cbn [app].
  rewrite (kfs_frame (r ++ X) fid flen fid' p);
    change (k_sof K :: r ++ X) with ((k_sof K :: r) ++ X).
  - replace (Z.max 1 flen) with flen by lia.
    rewrite slice_from_app_le by lia. reflexivity.
  - rewrite zlen_app. lia.
  - rewrite khdr_app by exact H. exact E.
  - rewrite zlen_app. lia.
  - rewrite slice_to_app_le by lia. exact D.
Qed.

(** * The read loops ([kaccumulate] and [kfill] do not mention the codec and
    are convertible with [accumulate] and [fill]) *)
Lemma kaccumulate_fill : forall f need (buf : bytes) (l : link),
  kaccumulate f need buf l =
  let '(b2, l2) := kfill f need buf l in
  (if zlen b2 <? need then None else Some b2, b2, l2).
Proof. exact accumulate_fill. Qed.

Lemma kfill_spec : forall f need (buf : bytes) (l : link) (b2 : bytes) (l2 : link),
  kfill f need buf l = (b2, l2) -> wf_bytes buf -> wf_link l ->
  wf_bytes b2 /\ wf_link l2 /\
  b2 ++ List.concat l2 = buf ++ List.concat l /\
  (exists c, b2 = buf ++ c) /\
  (List.length l2 <= List.length l)%nat /\
  (zlen b2 < need -> (0 < f)%nat ->
     (l = [] /\ l2 = [] /\ b2 = buf) \/ (List.length l2 < List.length l)%nat).
Proof. exact fill_spec. Qed.

(** post-condition of [_read_hdr] *)
Definition khdr_post (prev : bytes) (l : link) (o : khdr_out) : Prop :=
  match o with
  | KHNone p l' =>
      wf_bytes p /\ wf_link l' /\
      (forall X, wf_bytes X -> kfs (prev ++ List.concat l ++ X) = kfs (p ++ List.concat l' ++ X)) /\
      (nbytes p l' <= nbytes prev l)%nat /\ (List.length l' <= List.length l)%nat /\
      ((nbytes p l' < nbytes prev l)%nat \/ (List.length l' < List.length l)%nat \/
       (l = [] /\ p = prev /\ zlen prev < k_hdr_len K))
  | KHFound fid flen b l' =>
      wf_bytes b /\ wf_link l' /\
      (forall X, wf_bytes X -> kfs (prev ++ List.concat l ++ X) = kfs (b ++ List.concat l' ++ X)) /\
      (nbytes b l' <= nbytes prev l)%nat /\ (List.length l' <= List.length l)%nat /\
      k_hdr_decode K b = Ok (fid, flen) /\
      ((nbytes b l' < nbytes prev l)%nat \/ l <> [] \/ b = prev)
  | KHRaise _ => False
  | KHFuel => False
  end.

Lemma khdr_post_trans (prev : bytes) (l : link) (b : bytes) (l' : link) o :
  (forall X, wf_bytes X -> kfs (prev ++ List.concat l ++ X) = kfs (b ++ List.concat l' ++ X)) ->
  (nbytes b l' < nbytes prev l)%nat -> (List.length l' <= List.length l)%nat ->
  khdr_post b l' o -> khdr_post prev l o.
Proof.
  intros Hfs Hn Hc. destruct o as [p l2|fid flen b2 l2|w|]; cbn [khdr_post]; try tauto.
  - intros (W1 & W2 & F & N & C & _).
    repeat split; try assumption; try lia.
    intros X HX. rewrite Hfs by exact HX. apply F. exact HX.
  - intros (W1 & W2 & F & N & C & D & _).
    repeat split; try assumption; try lia.
    intros X HX. rewrite Hfs by exact HX. apply F. exact HX.
Qed.

Lemma kread_hdr_post : forall fuel (prev : bytes) (l : link),
  wf_bytes prev -> wf_link l -> (nbytes prev l < fuel)%nat ->
  khdr_post prev l (kread_hdr K fuel prev l).
Proof.
  pose proof k_hl_pos as Hhl.
  induction fuel as [|f IH]; intros prev l Hp Hl Hf; [lia|].
  cbn [kread_hdr]. rewrite kaccumulate_fill.
  destruct (kfill (S (List.length l)) (k_hdr_len K) prev l) as [buf l'] eqn:EF.
  destruct (kfill_spec _ _ _ _ _ _ EF Hp Hl) as (Wb & Wl & Q & (c & Ec) & Ln & St).
  pose proof (nbytes_eq _ _ _ _ Q) as NQ.
  assert (FQ : forall X, prev ++ List.concat l ++ X = buf ++ List.concat l' ++ X).
  { intros X. rewrite !app_assoc. now rewrite Q. }
  destruct (zlen buf <? k_hdr_len K) eqn:E4.
  { (* an empty read came before a whole header was there *)
    cbn [khdr_post]. repeat split; try assumption; try lia.
    - intros X _. apply f_equal, f_equal. apply FQ.
    - destruct St as [(-> & -> & ->)|St]; [lia|lia| |right; left; exact St].
      right; right. repeat split; try reflexivity. lia. }
  destruct (ksof_split buf) as [Hns|(pre & r & Eb & Hpre)].
  { (* no SOF at all *)
    rewrite khdr_find_none by exact Hns. cbn [Z.ltb Z.compare khdr_post].
    repeat split; try assumption; try lia.
    - apply wf_nil.
    - intros X _. rewrite FQ. cbn [app]. apply kfs_nosof. exact Hns.
    - unfold nbytes in *. cbn [List.length]. unfold zlen in E4. lia.
    - left. unfold nbytes in *. cbn [List.length]. unfold zlen in E4. lia. }
  rewrite Eb. rewrite khdr_find_skip by exact Hpre.
  replace (zlen pre <? 0) with false by (pose proof (zlen_nonneg pre); lia).
  rewrite slice_from_app by reflexivity.
  set (b := k_sof K :: r) in *.
  assert (Wb' : wf_bytes b) by (rewrite Eb in Wb; apply wf_app_inv in Wb; apply Wb).
  assert (Fb : forall X, wf_bytes X ->
             kfs (prev ++ List.concat l ++ X) = kfs (b ++ List.concat l' ++ X)).
  { intros X _. rewrite FQ, Eb, <- app_assoc. apply kfs_nosof. exact Hpre. }
  assert (Nb : (nbytes b l' + List.length pre = nbytes prev l)%nat).
  { rewrite <- NQ. unfold nbytes. rewrite Eb, app_length. lia. }
  destruct (zlen b <? k_hdr_len K) eqn:Eb4.
  { (* candidate header incomplete: loop *)
    assert (Lp : (0 < List.length pre)%nat).
    { rewrite Eb, zlen_app in E4. unfold zlen in *. lia. }
    apply (khdr_post_trans prev l b l'); try assumption; try lia.
    apply IH; try assumption; lia. }
  destruct (k_hdr_decode K b) as [[fid flen]|e|w] eqn:ED.
  - (* header found *)
    cbn [khdr_post]. repeat split; try assumption; try lia.
    destruct pre as [|y pre]; [|left; cbn [List.length] in Nb; lia].
    destruct l as [|c0 l0]; [|right; left; discriminate].
    right; right. cbn [app] in Eb.
    destruct (link_nil_inv buf prev l' ltac:(cbn [List.length] in Ln; lia) Q) as [_ E].
    congruence.
  - (* bad header: drop one byte, loop *)
    unfold b at 1. rewrite slice_from_1_cons.
    assert (Wr : wf_bytes r) by (apply wf_cons_inv in Wb'; apply Wb').
    apply (khdr_post_trans prev l r l'); try assumption.
    + intros X HX. rewrite Fb by exact HX.
      unfold b. apply (kstep_bad_hdr r e); fold b; [lia|exact ED].
    + unfold nbytes in *. unfold b in Nb. cbn [List.length] in Nb. lia.
    + apply IH; try assumption.
      unfold nbytes in *. unfold b in Nb. cbn [List.length] in Nb. lia.
  - exfalso. exact (khdr_no_raise b w Wb' ED).
Qed.

(** post-condition of one call of [_read_frame] *)
Definition kframe_post (prev : bytes) (l : link) (o : kframe_out) : Prop :=
  match o with
  | KFNone p l' =>
      wf_bytes p /\ wf_link l' /\
      (forall X, wf_bytes X -> kfs (prev ++ List.concat l ++ X) = kfs (p ++ List.concat l' ++ X)) /\
      (nbytes p l' <= nbytes prev l)%nat /\ (List.length l' <= List.length l)%nat /\
      ((nbytes p l' < nbytes prev l)%nat \/ (List.length l' < List.length l)%nat \/
       (l = [] /\ p = prev /\ kfs prev = []))
  | KFFrame fid pl p l' =>
      wf_bytes p /\ wf_link l' /\
      (forall X, wf_bytes X ->
         kfs (prev ++ List.concat l ++ X) = (fid, pl) :: kfs (p ++ List.concat l' ++ X)) /\
      (nbytes p l' < nbytes prev l)%nat /\ (List.length l' <= List.length l)%nat
  | KFRaise _ => False
  | KFFuel => False
  end.

Lemma kread_frame_post (prev : bytes) (l : link) :
  wf_bytes prev -> wf_link l -> kframe_post prev l (kread_frame K prev l).
Proof.
  intros Hp Hl. unfold kread_frame.
  pose proof (kread_hdr_post (S (List.length prev + List.length (List.concat l) + List.length l))
                prev l Hp Hl ltac:(unfold nbytes; lia)) as H.
  destruct (kread_hdr K (S (List.length prev + List.length (List.concat l) + List.length l)) prev l)
    as [p l'|fid flen b l'|w|]; cbn [khdr_post] in H; try contradiction.
  - destruct H as (W1 & W2 & F & N & C & D). cbn [kframe_post].
    repeat split; try assumption.
    destruct D as [D|[D|(E1 & E2 & E3)]]; [left; exact D|right; left; exact D|].
    right; right. repeat split; try assumption. apply kfs_short. exact E3.
  - destruct H as (W1 & W2 & F & N & C & ED & D).
    destruct (khdr_ok_inv b fid flen W1 ED) as ((r & Er) & L4 & F0).
    destruct (kfill (S (List.length l')) flen b l') as [b2 l2] eqn:EF.
    destruct (kfill_spec _ _ _ _ _ _ EF W1 W2) as (Wb & Wl & Q & (c & Ec) & Ln & St).
    pose proof (nbytes_eq _ _ _ _ Q) as NQ.
    assert (F2 : forall X, wf_bytes X ->
               kfs (prev ++ List.concat l ++ X) = kfs (b2 ++ List.concat l2 ++ X)).
    { intros X HX. rewrite F by exact HX. rewrite !app_assoc. now rewrite Q. }
    destruct (zlen b2 <? flen) eqn:EL.
    + (* frame incomplete: pending *)
      cbn [kframe_post]. repeat split; try assumption; try lia.
      destruct (St ltac:(lia) ltac:(lia)) as [(E1 & E2 & E3)|St']; [|right; left; lia].
      subst l' l2.
      destruct D as [D|[D|D]]; [left; lia| |].
      * right; left. destruct l; [congruence|cbn [List.length]; lia].
      * destruct l as [|c0 l0]; [|right; left; cbn [List.length]; lia].
        right; right. split; [reflexivity|]. split; [congruence|].
        rewrite <- D. rewrite E3 in EL. rewrite Er in *.
        apply (kfs_pending r fid flen); [exact L4|exact ED|lia].
    + (* frame complete *)
      assert (ED2 : k_hdr_decode K b2 = Ok (fid, flen)).
      { rewrite Ec. rewrite khdr_app by exact L4. exact ED. }
      assert (Er2 : b2 = k_sof K :: (r ++ c)) by (rewrite Ec, Er; reflexivity).
      assert (L42 : k_hdr_len K <= zlen b2).
      { rewrite Ec, zlen_app. pose proof (zlen_nonneg c). lia. }
      destruct (k_frame_decode K (slice_to b2 flen)) as [[fid' pl]|e|w] eqn:FD.
      * cbn [kframe_post].
        pose proof EL as EL'.
        rewrite Er2 in ED2, L42, FD, EL.
        destruct (kstep_frame (r ++ c) fid flen fid' pl [] L42 ED2 ltac:(lia) FD) as [F4 _].
        repeat split; try assumption; try lia.
        -- apply wf_slice_from. exact Wb.
        -- intros X HX. rewrite F2 by exact HX. rewrite Er2.
           apply (kstep_frame (r ++ c) fid flen fid' pl); try assumption. lia.
        -- unfold nbytes in *. rewrite length_slice_from by lia. unfold zlen in *. lia.
      * cbn [kframe_post]. rewrite Er2. rewrite slice_from_1_cons.
        assert (Wr : wf_bytes (r ++ c)) by (rewrite Er2 in Wb; apply wf_cons_inv in Wb; apply Wb).
        assert (NN : (nbytes (r ++ c) l2 < nbytes prev l)%nat).
        { unfold nbytes in *. rewrite Er2 in NQ. cbn [List.length] in NQ. lia. }
        repeat split; try assumption; try lia.
        intros X HX. rewrite F2 by exact HX. rewrite Er2.
           rewrite Er2 in ED2, L42, FD, EL.
           apply (kstep_bad_frame (r ++ c) fid flen e); try assumption. lia.
      * exfalso. apply (kframe_no_raise (slice_to b2 flen) w); [|exact FD].
        apply wf_slice_to. exact Wb.
Qed.

(** * The three per-call statements *)
Lemma kread_frame_frame : forall (prev : bytes) (l : link) fid p prev' l',
  wf_bytes prev -> wf_link l -> kread_frame K prev l = KFFrame fid p prev' l' ->
  wf_bytes prev' /\ wf_link l' /\
  forall fut, wf_bytes fut ->
    fst (kscan K (prev ++ List.concat l ++ fut)) =
    (fid, p) :: fst (kscan K (prev' ++ List.concat l' ++ fut)).
Proof.
  intros prev l fid p prev' l' Hp Hl E.
  pose proof (kread_frame_post prev l Hp Hl) as H. rewrite E in H. cbn [kframe_post] in H.
  destruct H as (W1 & W2 & F & _). repeat split; assumption.
Qed.

Lemma kread_frame_none : forall (prev : bytes) (l : link) prev' l',
  wf_bytes prev -> wf_link l -> kread_frame K prev l = KFNone prev' l' ->
  wf_bytes prev' /\ wf_link l' /\
  forall fut, wf_bytes fut ->
    fst (kscan K (prev ++ List.concat l ++ fut)) = fst (kscan K (prev' ++ List.concat l' ++ fut)).
Proof.
  intros prev l prev' l' Hp Hl E.
  pose proof (kread_frame_post prev l Hp Hl) as H. rewrite E in H. cbn [kframe_post] in H.
  destruct H as (W1 & W2 & F & _). repeat split; assumption.
Qed.

Lemma kread_frame_total : forall (prev : bytes) (l : link), wf_bytes prev -> wf_link l ->
  (exists fid p prev' l', kread_frame K prev l = KFFrame fid p prev' l') \/
  (exists prev' l', kread_frame K prev l = KFNone prev' l').
Proof.
  intros prev l Hp Hl.
  pose proof (kread_frame_post prev l Hp Hl) as H.
  destruct (kread_frame K prev l) as [p l'|fid pl p l'|w|]; cbn [kframe_post] in H; try contradiction.
  - right. eauto.
  - left. eexists _, _, _, _. reflexivity.
Qed.

(** * The receive loop *)
Lemma krecv_loop_scan : forall fuel (prev : bytes) (l : link) acc,
  wf_bytes prev -> wf_link l ->
  (nbytes prev l + List.length l + 2 <= fuel)%nat ->
  exists rest, krecv_loop K fuel prev l acc = Some (acc ++ kfs (prev ++ List.concat l), rest).
Proof.
  induction fuel as [|f IH]; intros prev l acc Hp Hl Hf; [lia|].
  cbn [krecv_loop].
  pose proof (kread_frame_post prev l Hp Hl) as H.
  assert (E0 : forall (p : bytes) (l' : link), p ++ List.concat l' ++ [] = p ++ List.concat l')
    by (intros; now rewrite app_nil_r).
  destruct (kread_frame K prev l) as [p l'|fid pl p l'|w|]; cbn [kframe_post] in H; try contradiction.
  - destruct H as (W1 & W2 & F & N & C & D).
    specialize (F [] wf_nil). rewrite !E0 in F.
    assert (Rec : (nbytes p l' + List.length l' < nbytes prev l + List.length l)%nat ->
                  exists rest, krecv_loop K f p l' acc = Some (acc ++ kfs (prev ++ List.concat l), rest)).
    { intros M. rewrite F. apply IH; try assumption. lia. }
    destruct l as [|c0 l0].
    + assert (El : l' = []) by (destruct l'; [reflexivity|cbn [List.length] in C; lia]).
      subst l'.
      destruct (Nat.eqb (List.length p) (List.length prev)) eqn:EQ.
      * apply Nat.eqb_eq in EQ. exists p.
        destruct D as [D|[D|(_ & E2 & E3)]].
        -- unfold nbytes in D. lia.
        -- cbn [List.length] in D. lia.
        -- cbn [List.concat]. rewrite app_nil_r, E3, app_nil_r. reflexivity.
      * apply Nat.eqb_neq in EQ. apply Rec.
        destruct D as [D|[D|(_ & E2 & _)]]; [lia|cbn [List.length] in D; lia|].
        subst p. congruence.
    + apply Rec. destruct D as [D|[D|(E1 & _)]]; [lia|lia|discriminate].
  - destruct H as (W1 & W2 & F & N & C).
    specialize (F [] wf_nil). rewrite !E0 in F.
    destruct (IH p l' (acc ++ [(fid, pl)]) W1 W2 ltac:(lia)) as [rest R].
    exists rest. rewrite R, F, <- app_assoc. reflexivity.
Qed.

End Port.

(** MAIN THEOREM, generic in the codec: for every codec obeying the interface
    laws and every way the transport splits the bytes into reads (empty reads
    included), the frames delivered are exactly those of one scan of the
    concatenation; the loop never runs out of fuel and never raises. *)
Theorem krecv_all_scan : forall (K : codec), lawful2 K -> forall chunks : link,
  wf_link chunks ->
  exists rest, krecv_all K chunks = Some (fst (kscan K (List.concat chunks)), rest).
Proof.
  intros K HK chunks H. unfold krecv_all.
  destruct (krecv_loop_scan K HK (2 * (List.length (List.concat chunks) + List.length chunks) + 4)
              [] chunks [] wf_nil H ltac:(unfold nbytes; cbn [List.length]; lia)) as [rest R].
  exists rest. rewrite R. reflexivity.
Qed.

(** * The built-in serial codec obeys the laws *)

(** an accepted header starts with SOF, even without assuming that the buffer
    holds bytes: [struct.unpack] rejects a header that does not *)
Lemma hdr_decode_ok_sof (d : bytes) fid flen :
  hdr_decode d = Ok (fid, flen) -> exists r, d = sof_byte :: r.
Proof.
  intros H.
  destruct (Z_lt_ge_dec (zlen d) 4) as [Hs|Hl].
  { rewrite hdr_decode_short in H by exact Hs. discriminate. }
  destruct d as [|s [|lo [|hi [|f rest]]]]; try (unfold zlen in Hl; cbn [List.length] in Hl; lia).
  change (s :: lo :: hi :: f :: rest) with ([s; lo; hi; f] ++ rest) in H.
  rewrite hdr_decode_app in H by (unfold zlen; cbn [List.length]; lia).
  destruct (wf_bytesb [s; lo; hi; f]) eqn:W.
  - assert (B : (s < 256 /\ lo < 256 /\ hi < 256 /\ f < 256)%N)
      by (unfold wf_bytesb, is_byte in W; cbn [forallb] in W; lia).
    destruct B as (B1 & B2 & B3 & B4).
    rewrite hdr_decode_cons in H by assumption.
    destruct (s =? 85)%N eqn:Es; cbn [negb] in H; [|discriminate].
    apply N.eqb_eq in Es. subst s. eexists. reflexivity.
  - exfalso.
    unfold hdr_decode, hdr_len in H. change Gen_frame.hdr_end with 4 in H.
    replace (zlen [s; lo; hi; f] <? 4) with false in H by (unfold zlen; cbn [List.length]; lia).
    rewrite gen_hdr_decode_fmt in H.
    unfold slice_to in H.
    rewrite !(clip_index_in (List.length [s; lo; hi; f]) 4) in H by (cbn [List.length]; lia).
    change (Z.to_nat 4) with 4%nat in H. cbn [firstn] in H.
    rewrite ?(clip_index_in (List.length [s; lo; hi; f]) 4) in H by (cbn [List.length]; lia).
    change (Z.to_nat 4) with 4%nat in H. cbn [firstn] in H.
    unfold unpack in H. rewrite W, Bool.andb_false_r in H. discriminate.
Qed.

Theorem serial_lawful : lawful serial_codec.
Proof.
  constructor; cbn [serial_codec k_hdr_len k_sof k_hdr_decode k_frame_decode].
  - unfold hdr_len. change Gen_frame.hdr_end with 4. lia.
  - intros d H. exists EHDR. apply hdr_decode_short. exact H.
  - intros d w. apply hdr_decode_no_raise.
  - intros a b H. apply hdr_decode_app. exact H.
  - apply hdr_decode_ok_sof.
  - intros d w. apply frame_decode_no_raise.
Qed.

Theorem serial_lawful2 : lawful2 serial_codec.
Proof.
  constructor; cbn [serial_codec k_hdr_len k_sof k_hdr_decode k_frame_decode].
  - exact serial_lawful.
  - intros d fid flen Hwf H. apply (hdr_decode_ok_inv d fid flen Hwf H).
  - intros fid p H. apply frame_decode_ok_len in H. unfold zlen in H. cbn [List.length] in H. lia.
Qed.

(** hence the serial theorem is an instance of the generic one (modulo the
    identification proved below) *)
Corollary krecv_all_scan_serial : forall chunks : link, wf_link chunks ->
  exists rest, krecv_all serial_codec chunks =
               Some (fst (kscan serial_codec (List.concat chunks)), rest).
Proof. exact (krecv_all_scan serial_codec serial_lawful2). Qed.

(** * The generic model instantiated with the built-in codec is the serial model *)
Definition h_tr (o : khdr_out) : hdr_out :=
  match o with
  | KHNone p l => HNone p l
  | KHFound fid flen b l => HFound fid flen b l
  | KHRaise w => HRaise w
  | KHFuel => HFuel
  end.

Definition f_tr (o : kframe_out) : frame_out :=
  match o with
  | KFNone p l => FNone p l
  | KFFrame fid pl p l => FFrame fid pl p l
  | KFRaise w => FRaise w
  | KFFuel => FFuel
  end.

Lemma kaccumulate_serial : kaccumulate = accumulate.
Proof. reflexivity. Qed.

Lemma kfill_serial : kfill = fill.
Proof. reflexivity. Qed.

Lemma khdr_find_serial : khdr_find serial_codec = hdr_find.
Proof. reflexivity. Qed.

Lemma kread_hdr_serial : forall f (prev : bytes) (l : link),
  h_tr (kread_hdr serial_codec f prev l) = read_hdr f prev l.
Proof.
  induction f as [|f IH]; intros prev l; [reflexivity|].
  cbn [kread_hdr read_hdr]. cbv zeta.
  change (k_hdr_len serial_codec) with hdr_len.
  change (k_hdr_decode serial_codec) with hdr_decode.
  change kaccumulate with accumulate.
  destruct (accumulate (S (List.length l)) hdr_len prev l) as [[[b|] buf] l']; [|reflexivity].
  change (khdr_find serial_codec b) with (hdr_find b).
  destruct (hdr_find b <? 0); [reflexivity|].
  destruct (zlen (slice_from b (hdr_find b)) <? hdr_len); [apply IH|].
  destruct (hdr_decode (slice_from b (hdr_find b))) as [[fid flen]|e|w];
    [reflexivity|apply IH|reflexivity].
Qed.

Lemma kread_frame_serial : forall (prev : bytes) (l : link),
  f_tr (kread_frame serial_codec prev l) = read_frame prev l.
Proof.
  intros prev l. unfold kread_frame, read_frame.
  rewrite <- kread_hdr_serial.
  destruct (kread_hdr serial_codec (S (List.length prev + List.length (List.concat l) + List.length l)) prev l)
    as [p l'|fid flen b l'|w|]; cbn [h_tr]; try reflexivity.
  change kfill with fill.
  change (k_frame_decode serial_codec) with frame_decode.
  destruct (fill (S (List.length l')) flen b l') as [b2 l2].
  destruct (zlen b2 <? flen); [reflexivity|].
  destruct (frame_decode (slice_to b2 flen)) as [[fid' p]|e|w]; reflexivity.
Qed.

Lemma krecv_loop_serial : forall f (prev : bytes) (l : link) acc,
  krecv_loop serial_codec f prev l acc = recv_loop f prev l acc.
Proof.
  induction f as [|f IH]; intros prev l acc; [reflexivity|].
  cbn [krecv_loop recv_loop]. rewrite <- kread_frame_serial.
  destruct (kread_frame serial_codec prev l) as [p l'|fid pl p l'|w|]; cbn [f_tr];
    try reflexivity.
  - destruct l as [|c0 l0]; [|apply IH].
    destruct (Nat.eqb (List.length p) (List.length prev)); [reflexivity|apply IH].
  - apply IH.
Qed.

Theorem krecv_all_serial : forall chunks, krecv_all serial_codec chunks = recv_all chunks.
Proof. intros chunks. unfold krecv_all, recv_all. apply krecv_loop_serial. Qed.

Theorem kscan_serial : forall s, kscan serial_codec s = scan s.
Proof. reflexivity. Qed.

(** so [recv_all_scan] of Reasm_proofs.v is a corollary of the generic theorem *)
Corollary recv_all_scan_from_generic : forall chunks : link, wf_link chunks ->
  exists rest, recv_all chunks = Some (fst (scan (List.concat chunks)), rest).
Proof.
  intros chunks H. destruct (krecv_all_scan_serial chunks H) as [rest R].
  exists rest. rewrite <- krecv_all_serial, <- kscan_serial. exact R.
Qed.

(** * [lawful] alone is not enough: two lawful codecs for which the refinement fails *)

(** a header decoder announcing a negative length *)
Definition neg_codec : codec :=
  mkCodec 1 85
    (fun d => match d with
              | x :: _ => if (x =? 85)%N then Ok (0, -1) else Err EHDR
              | [] => Err EHDR
              end)
    (fun d => if zlen d =? 1 then Ok (0, []) else Err EFOOT).

Lemma neg_codec_lawful : lawful neg_codec.
Proof.
  constructor; cbn [neg_codec k_hdr_len k_sof k_hdr_decode k_frame_decode].
  - lia.
  - intros d H. exists EHDR. destruct d as [|x r]; [reflexivity|].
    rewrite zlen_cons in H. pose proof (zlen_nonneg r). lia.
  - intros d w _. destruct d as [|x r]; [discriminate|]. destruct (x =? 85)%N; discriminate.
  - intros a b H. destruct a as [|x r]; [unfold zlen in H; cbn [List.length] in H; lia|]. reflexivity.
  - intros d fid flen H. destruct d as [|x r]; [discriminate|].
    destruct (x =? 85)%N eqn:E; [|discriminate]. apply N.eqb_eq in E. subst x. eexists. reflexivity.
  - intros d w _. destruct (zlen d =? 1); discriminate.
Qed.

Example neg_codec_fails :
  wf_link [[85; 1]; [2]]%N /\
  forall rest, krecv_all neg_codec [[85; 1]; [2]]%N
               <> Some (fst (kscan neg_codec (List.concat [[85; 1]; [2]]%N)), rest).
Proof.
  split.
  - repeat constructor.
  - intros rest H. vm_compute in H. discriminate.
Qed.

(** a zero-length frame accepted by the frame decoder: [_read_frame] returns a
    frame without consuming anything and the receive loop never ends *)
Definition zero_codec : codec :=
  mkCodec 1 85
    (fun d => match d with
              | x :: _ => if (x =? 85)%N then Ok (0, 0) else Err EHDR
              | [] => Err EHDR
              end)
    (fun d => if zlen d =? 0 then Ok (0, []) else Err EFOOT).

Lemma zero_codec_lawful : lawful zero_codec.
Proof.
  constructor; cbn [zero_codec k_hdr_len k_sof k_hdr_decode k_frame_decode].
  - lia.
  - intros d H. exists EHDR. destruct d as [|x r]; [reflexivity|].
    rewrite zlen_cons in H. pose proof (zlen_nonneg r). lia.
  - intros d w _. destruct d as [|x r]; [discriminate|]. destruct (x =? 85)%N; discriminate.
  - intros a b H. destruct a as [|x r]; [unfold zlen in H; cbn [List.length] in H; lia|]. reflexivity.
  - intros d fid flen H. destruct d as [|x r]; [discriminate|].
    destruct (x =? 85)%N eqn:E; [|discriminate]. apply N.eqb_eq in E. subst x. eexists. reflexivity.
  - intros d w _. destruct (zlen d =? 0); discriminate.
Qed.

Example zero_codec_fails :
  wf_link [[85]]%N /\ krecv_all zero_codec [[85]]%N = None.
Proof.
  split.
  - repeat constructor.
  - vm_compute. reflexivity.
Qed.

Print Assumptions krecv_all_scan.
Print Assumptions serial_lawful.
Print Assumptions serial_lawful2.
Print Assumptions krecv_all_serial.
Print Assumptions kscan_serial.
Print Assumptions neg_codec_fails.
Print Assumptions zero_codec_fails.

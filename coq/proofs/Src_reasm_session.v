(** The whole receive loop over the INTERPRETED source: a Coq-level driver that
    calls the interpreted [CommHandler._read_frame] again and again on the
    receiver the previous call left behind, looking only at the values the
    interpreter returns.  It computes exactly [Reasm.recv_all], hence (for
    well-formed bytes) one left-to-right [Reasm.scan] of the concatenation of
    the chunks, however the transport splits them. *)
From Coq Require Import String Ascii List ZArith NArith Bool Lia ZifyBool.
From NX Require Import Bytes PyStruct Crc PyLite PyLite_tactics Src_all.
From NX Require Frame Gen_frame Reasm Reasm_proofs.
From NX Require Import Src_serialframe_proofs Src_reasm_proofs.
Import ListNotations.
Open Scope string_scope.
Open Scope list_scope.
Open Scope Z_scope.

(** * Reading the interpreter's values back *)
Definition unchunk (v : pv) : option bytes :=
  match v with PBytes b => Some b | _ => None end.
Definition unchunks (cs : list pv) : option (list bytes) := map_opt unchunk cs.

(** the receiver after a call: buffered bytes and chunks left on the link *)
Definition recv_state (r : pv) : option (bytes * Reasm.link) :=
  match r with
  | PObj c [(k1, PBytes prev'); (k2, PObj c2 [(k3, PList cs)]); (k4, _)] =>
      if String.eqb c "CommHandler" && String.eqb k1 "_prev_read" && String.eqb k2 "_intf"
         && String.eqb c2 "ScriptedIntf" && String.eqb k3 "chunks" && String.eqb k4 "_parse"
      then match unchunks cs with Some l' => Some (prev', l') | None => None end
      else None
  | _ => None
  end.

(** the result of a call: [None], or a decoded frame (id, payload) *)
Definition frame_of (v : pv) : option (option (Z * bytes)) :=
  match v with
  | PNone => Some None
  | PObj c [(k1, PEnum _ _ fid _); (k2, PBytes p); (k3, _)] =>
      if String.eqb c "DParseFrame" && String.eqb k1 "fid" && String.eqb k2 "data"
         && String.eqb k3 "err"
      then Some (Some (fid, p)) else None
  | _ => None
  end.

Definition decode_result (r : PyLite.res (pv * pv)) : option (option (Z * bytes) * bytes * Reasm.link) :=
  match r with
  | PyLite.Ok (v, recv) =>
      match frame_of v, recv_state recv with
      | Some fo, Some (p, l) => Some (fo, p, l)
      | _, _ => None
      end
  | _ => None
  end.

(** * The driver: [Reasm.recv_loop] with the interpreted method in place of the model *)
Fixpoint src_recv_loop (F : nat) (fuel : nat) (prev : bytes) (l : Reasm.link) (acc : list (Z * bytes))
  : option (list (Z * bytes) * bytes) :=
  match fuel with
  | O => None
  | S f =>
      match decode_result (call_method program F (ch prev l) "_read_frame" []) with
      | Some (Some (fid, p), prev', l') => src_recv_loop F f prev' l' (acc ++ [(fid, p)])
      | Some (None, prev', l') =>
          match l with
          | [] => if Nat.eqb (List.length prev') (List.length prev) then Some (acc, prev')
                  else src_recv_loop F f prev' l' acc
          | _ => src_recv_loop F f prev' l' acc
          end
      | None => None
      end
  end.

Definition src_recv_all (F : nat) (chunks : Reasm.link) : option (list (Z * bytes) * bytes) :=
  src_recv_loop F (2 * (List.length (List.concat chunks) + List.length chunks) + 4) [] chunks [].

(** * Reading back what [Src_reasm_proofs] says the interpreter returns *)
Lemma unchunks_map l : unchunks (map PBytes l) = Some l.
Proof.
  unfold unchunks. induction l as [|c r IH]; cbn [map map_opt unchunk]; [reflexivity|].
  rewrite IH. reflexivity.
Qed.

Lemma recv_state_ch p l : recv_state (ch p l) = Some (p, l).
Proof. unfold ch, intf. cbn -[unchunks]. rewrite unchunks_map. reflexivity. Qed.

Lemma enum_id_known z : Frame.known_id z = true -> exists n, enum_id z = PEnum "EParseId" n z true.
Proof.
  intros H. rewrite known_id_enum in H. unfold enum_id.
  destruct (enum_by_value Gen_frame.parse_ids z) as [n|]; [eauto|discriminate].
Qed.

Lemma decode_result_none p l : decode_result (emb_frame_meth (Reasm.FNone p l)) = Some (None, p, l).
Proof. cbn [emb_frame_meth decode_result frame_of]. rewrite recv_state_ch. reflexivity. Qed.

Lemma decode_result_frame fid pl p l :
  Frame.known_id fid = true ->
  decode_result (emb_frame_meth (Reasm.FFrame fid pl p l)) = Some (Some (fid, pl), p, l).
Proof.
  intros H. destruct (enum_id_known fid H) as [n E].
  cbn [emb_frame_meth decode_result]. rewrite recv_state_ch, E. reflexivity.
Qed.

(** * Model-side facts (no well-formedness needed) *)
Lemma hdr_decode_known d fid flen : Frame.hdr_decode d = Frame.Ok (fid, flen) -> Frame.known_id fid = true.
Proof.
  unfold Frame.hdr_decode. intros H.
  repeat match type of H with
         | context [match ?x with _ => _ end] => destruct x eqn:?; try discriminate
         | context [if ?x then _ else _] => destruct x eqn:?; try discriminate
         end.
  inversion H; subst.
  match goal with E : negb (Frame.known_id _) = false |- _ => apply negb_false_iff in E; exact E end.
Qed.

Lemma frame_decode_known d fid p : Frame.frame_decode d = Frame.Ok (fid, p) -> Frame.known_id fid = true.
Proof.
  unfold Frame.frame_decode. intros H.
  destruct (Frame.hdr_decode d) as [[fid' flen]|e|w] eqn:E; try discriminate.
  destruct (_ || _); [discriminate|]. destruct (negb _); [discriminate|].
  inversion H; subst. eapply hdr_decode_known; eassumption.
Qed.

Lemma fill_cat f need buf l b2 l2 :
  Reasm.fill f need buf l = (b2, l2) ->
  b2 ++ List.concat l2 = buf ++ List.concat l /\ (List.length l2 <= List.length l)%nat.
Proof.
  intros H. pose proof (Reasm_proofs.accumulate_fill f need buf l) as A. rewrite H in A.
  apply accumulate_inv in A. destruct A as (A1 & A2 & _). split; assumption.
Qed.

Lemma read_hdr_nbytes : forall f p l,
  (Reasm_proofs.nbytes p l < f)%nat ->
  match Reasm.read_hdr f p l with
  | Reasm.HNone p' l' | Reasm.HFound _ _ p' l' =>
      (Reasm_proofs.nbytes p' l' <= Reasm_proofs.nbytes p l)%nat /\ (List.length l' <= List.length l)%nat
  | _ => True
  end.
Proof.
  induction f as [|f IH]; intros p l Hf; [lia|].
  rewrite read_hdr_S.
  destruct (Reasm.accumulate (S (List.length l)) 4 p l) as [[[buf|] bx] l'] eqn:EA;
    destruct (accumulate_inv _ _ _ _ _ _ _ EA) as (Hcat & Hlen & Hsome);
    apply (f_equal (@List.length _)) in Hcat; rewrite !app_length in Hcat.
  2:{ unfold Reasm_proofs.nbytes. split; lia. }
  destruct (Hsome buf eq_refl) as [Ebx Hz]. subst bx.
  pose proof (length_slice_from_le buf (Frame.hdr_find buf)) as Hsl.
  pose proof (length_slice_from_1 (slice_from buf (Frame.hdr_find buf))) as Hsl1.
  destruct (Frame.hdr_find buf <? 0);
    [unfold Reasm_proofs.nbytes; cbn [List.length]; split; lia|].
  cbv zeta.
  destruct (zlen (slice_from buf (Frame.hdr_find buf)) <? 4) eqn:E1.
  - assert (Hp : (Reasm_proofs.nbytes (slice_from buf (Frame.hdr_find buf)) l' < f)%nat)
      by (unfold Reasm_proofs.nbytes, zlen in *; lia).
    pose proof (IH _ l' Hp) as I.
    destruct (Reasm.read_hdr f _ l'); try exact I;
      (destruct I as [I1 I2]; split; unfold Reasm_proofs.nbytes, zlen in *; lia).
  - destruct (Frame.hdr_decode (slice_from buf (Frame.hdr_find buf))) as [[fid flen]|er|w]; [| |exact I].
    + unfold Reasm_proofs.nbytes in *. split; lia.
    + assert (Hp : (Reasm_proofs.nbytes (slice_from (slice_from buf (Frame.hdr_find buf)) 1) l' < f)%nat)
        by (unfold Reasm_proofs.nbytes, zlen in *; lia).
      pose proof (IH _ l' Hp) as I.
      destruct (Reasm.read_hdr f _ l'); try exact I;
        (destruct I as [I1 I2]; split; unfold Reasm_proofs.nbytes, zlen in *; lia).
Qed.

(** the measure that bounds the interpreter's fuel never increases over a call,
    and a delivered frame carries a known id *)
Lemma read_frame_measure prev l :
  match Reasm.read_frame prev l with
  | Reasm.FNone p l' => (measure p l' <= measure prev l)%nat
  | Reasm.FFrame fid _ p l' => (measure p l' <= measure prev l)%nat /\ Frame.known_id fid = true
  | _ => True
  end.
Proof.
  unfold Reasm.read_frame.
  pose proof (read_hdr_nbytes (S (List.length prev + List.length (List.concat l) + List.length l)) prev l) as Hh.
  destruct (Reasm.read_hdr _ prev l) as [pp l'|fid flen b l'|w|]; try exact I.
  - destruct Hh as [H1 H2]; [unfold Reasm_proofs.nbytes; lia|].
    unfold measure, Reasm_proofs.nbytes in *. lia.
  - destruct Hh as [H1 H2]; [unfold Reasm_proofs.nbytes; lia|].
    destruct (Reasm.fill _ flen b l') as [b2 l2] eqn:EF.
    apply fill_cat in EF. destruct EF as [Hc Hl].
    apply (f_equal (@List.length _)) in Hc. rewrite !app_length in Hc.
    pose proof (length_slice_from_le b2 1) as S1.
    pose proof (length_slice_from_le b2 flen) as S2.
    destruct (zlen b2 <? flen); [unfold measure, Reasm_proofs.nbytes in *; lia|].
    destruct (Frame.frame_decode _) as [[fid' pay]|er|w] eqn:ED; try exact I.
    + split; [unfold measure, Reasm_proofs.nbytes in *; lia|].
      eapply frame_decode_known; eassumption.
    + unfold measure, Reasm_proofs.nbytes in *. lia.
Qed.

(** * The driver over the interpreted source computes the model's loop *)
Lemma src_recv_loop_eq F : forall fuel prev l acc,
  (5 + measure prev l <= F)%nat ->
  src_recv_loop F fuel prev l acc = Reasm.recv_loop fuel prev l acc.
Proof.
  induction fuel as [|f IH]; intros prev l acc HF; [reflexivity|].
  cbn [src_recv_loop Reasm.recv_loop].
  rewrite read_frame_spec by exact HF.
  pose proof (read_frame_measure prev l) as M.
  destruct (Reasm.read_frame prev l) as [p l'|fid pl p l'|w|]; cbv beta iota in M.
  - rewrite decode_result_none.
    destruct l as [|c0 l0]; [destruct (Nat.eqb _ _); [reflexivity|]|]; apply IH; lia.
  - destruct M as [M K]. rewrite decode_result_frame by exact K. apply IH. lia.
  - reflexivity.
  - reflexivity.
Qed.

Theorem src_recv_all_eq F chunks :
  (5 + List.length (List.concat chunks) + List.length chunks <= F)%nat ->
  src_recv_all F chunks = Reasm.recv_all chunks.
Proof.
  intros HF. unfold src_recv_all, Reasm.recv_all. apply src_recv_loop_eq.
  unfold measure. cbn [List.length]. exact HF.
Qed.

(** the chunking theorem, about the source text *)
Corollary src_recv_all_scan F chunks :
  Reasm_proofs.wf_link chunks ->
  (5 + List.length (List.concat chunks) + List.length chunks <= F)%nat ->
  exists rest, src_recv_all F chunks = Some (fst (Reasm.scan (List.concat chunks)), rest).
Proof.
  intros Hwf HF. rewrite src_recv_all_eq by exact HF. apply Reasm_proofs.recv_all_scan. exact Hwf.
Qed.

(** a concrete run of the driver (the interpreter computed by [vm_compute]) *)
Example demo_session :
  src_recv_all 40 (demo_prev :: demo_link) = Some ([(1, [7; 8; 9]%N)], [9%N]).
Proof. vm_compute. reflexivity. Qed.

(** * Audit *)
Print Assumptions src_recv_all_eq.
Print Assumptions src_recv_all_scan.

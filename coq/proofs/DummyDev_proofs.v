(** The simulated device answers like a conforming NxScope device (C14). *)
From Coq Require Import Lia ZifyBool ZifyNat ZifyN String.
From NX Require Import Bytes PyStruct Crc Frame Wire Pad Request Info DummyDev Bytes_proofs Frame_proofs
  Dispatch_proofs Pad_proofs C17_proofs Request_proofs Info_proofs.
Open Scope string_scope.
Open Scope list_scope.
Open Scope Z_scope.

(** rejected input (padding, noise without an accepted frame, damaged requests)
    changes nothing and produces nothing *)
Theorem ignored_input d data : recv_dispatch data = DNone -> dummy_handle d data = Ok (d, []).
Proof. intros H. unfold dummy_handle. now rewrite H. Qed.

Lemma handle_padded d pad fid p r :
  0 <= pad -> wf_bytes p -> frame_create fid p = Ok r ->
  dummy_handle d (data_align pad r) = dummy_handle d r.
Proof.
  intros Hp Hw Hc. unfold dummy_handle. now rewrite (padded_request_same pad fid p r Hp Hw Hc).
Qed.

Lemma delivered_dispatch r fr payload : delivered r fr payload ->
  exists f, fr = Ok f /\ recv_dispatch f = DCall r payload.
Proof. intros (fid & E & D). exists (wire fid payload). split; assumption. Qed.

(** enable request addressed to one channel: exactly that channel changes,
    one ACK iff the device advertises ACK support; whatever the write padding *)
Theorem dummy_enable_single d k v f :
  0 <= k < zlen (dd_chans d) -> zlen (dd_chans d) <= 255 ->
  frame_enable (EnSingle k v) (zlen (dd_chans d)) = Ok f ->
  exists l,
    list_set (map c_en (dd_chans d)) (Z.to_nat k) v = Some l /\
    dummy_handle d f =
      bind (acks d) (fun a => Ok (mkDD (zip_with set_en (dd_chans d) l) (dd_flags d) (dd_rxpad d) (dd_streaming d), a)).
Proof.
  intros Hk Hn Hf.
  assert (Hz : zlen (map c_en (dd_chans d)) = zlen (dd_chans d)) by (unfold zlen; now rewrite map_length).
  destruct (enable_single_delivered (map c_en (dd_chans d)) k v ltac:(lia) ltac:(lia)) as (l & Hd & Hdec & Hset).
  rewrite Hz in Hd. destruct (delivered_dispatch _ _ _ Hd) as (f' & E & D).
  rewrite Hf in E. inversion E; subst f'.
  exists l. split; [exact Hset|]. unfold dummy_handle. rewrite D, Hdec. reflexivity.
Qed.

(** a full vector, in whichever compact form the client picked *)
Theorem dummy_enable_vector d l f :
  List.length l = List.length (dd_chans d) -> 1 <= zlen (dd_chans d) <= 255 ->
  frame_enable (EnVec l) (zlen (dd_chans d)) = Ok f ->
  dummy_handle d f =
    bind (acks d) (fun a => Ok (mkDD (zip_with set_en (dd_chans d) l) (dd_flags d) (dd_rxpad d) (dd_streaming d), a)).
Proof.
  intros Hl Hn Hf.
  assert (Hz : zlen (map c_en (dd_chans d)) = zlen (dd_chans d)) by (unfold zlen; now rewrite map_length).
  destruct (enable_vec_delivered (map c_en (dd_chans d)) l ltac:(now rewrite map_length) ltac:(lia)) as (pay & Hd & Hdec).
  rewrite Hz in Hd. destruct (delivered_dispatch _ _ _ Hd) as (f' & E & D).
  rewrite Hf in E. inversion E; subst f'.
  unfold dummy_handle. rewrite D, Hdec. reflexivity.
Qed.

Theorem dummy_div_single d k v f :
  0 <= k < zlen (dd_chans d) -> zlen (dd_chans d) <= 255 -> 0 <= v < 256 ->
  frame_div (DivSingle k v) (zlen (dd_chans d)) = Ok f ->
  exists l,
    list_set (map c_div (dd_chans d)) (Z.to_nat k) v = Some l /\
    dummy_handle d f =
      bind (acks d) (fun a => Ok (mkDD (zip_with set_div (dd_chans d) l) (dd_flags d) (dd_rxpad d) (dd_streaming d), a)).
Proof.
  intros Hk Hn Hv Hf.
  assert (Hz : zlen (map c_div (dd_chans d)) = zlen (dd_chans d)) by (unfold zlen; now rewrite map_length).
  destruct (div_single_delivered (map c_div (dd_chans d)) k v ltac:(lia) ltac:(lia) Hv) as (l & Hd & Hdec & Hset).
  rewrite Hz in Hd. destruct (delivered_dispatch _ _ _ Hd) as (f' & E & D).
  rewrite Hf in E. inversion E; subst f'.
  exists l. split; [exact Hset|]. unfold dummy_handle. rewrite D, Hdec. reflexivity.
Qed.

Theorem dummy_div_vector d l f :
  List.length l = List.length (dd_chans d) -> 1 <= zlen (dd_chans d) <= 255 -> all_u8 l ->
  frame_div (DivVec l) (zlen (dd_chans d)) = Ok f ->
  dummy_handle d f =
    bind (acks d) (fun a => Ok (mkDD (zip_with set_div (dd_chans d) l) (dd_flags d) (dd_rxpad d) (dd_streaming d), a)).
Proof.
  intros Hl Hn Hu Hf.
  assert (Hz : zlen (map c_div (dd_chans d)) = zlen (dd_chans d)) by (unfold zlen; now rewrite map_length).
  destruct (div_vec_delivered (map c_div (dd_chans d)) l ltac:(now rewrite map_length) ltac:(lia) Hu) as (pay & Hd & Hdec).
  rewrite Hz in Hd. destruct (delivered_dispatch _ _ _ Hd) as (f' & E & D).
  rewrite Hf in E. inversion E; subst f'.
  unfold dummy_handle. rewrite D, Hdec. reflexivity.
Qed.

Theorem dummy_start d v f :
  frame_start v = Ok f ->
  dummy_handle d f = bind (acks d) (fun a => Ok (mkDD (dd_chans d) (dd_flags d) (dd_rxpad d) v, a)).
Proof.
  intros Hf. destruct (start_delivered v) as [Hd Hdec].
  destruct (delivered_dispatch _ _ _ Hd) as (f' & E & D). rewrite Hf in E. inversion E; subst f'.
  unfold dummy_handle. rewrite D, Hdec. reflexivity.
Qed.

(** common-info request: the response is the common info of this device *)
Theorem dummy_cmninfo d f :
  frame_cmninfo = Ok f ->
  dummy_handle d f =
    bind (frame_cmninfo_encode (zlen (dd_chans d)) (dd_flags d) (dd_rxpad d)) (fun r => Ok (d, [r])).
Proof.
  intros Hf. destruct (delivered_dispatch _ _ _ cmninfo_delivered) as (f' & E & D).
  rewrite Hf in E. inversion E; subst f'. unfold dummy_handle. rewrite D. reflexivity.
Qed.

(** channel-info request for channel k: the response is that channel's info *)
Theorem dummy_chinfo d k c f :
  0 <= k <= 255 -> nth_error (dd_chans d) (Z.to_nat k) = Some c ->
  frame_chinfo k = Ok f ->
  dummy_handle d f = bind (frame_chinfo_encode c) (fun r => Ok (d, [r])).
Proof.
  intros Hk Hc Hf. destruct (delivered_dispatch _ _ _ (chinfo_delivered k Hk)) as (f' & E & Dd).
  rewrite Hf in E. inversion E; subst f'. unfold dummy_handle. rewrite Dd.
  rewrite Z_N_nat. rewrite Hc. reflexivity.
Qed.

(** ** sampling: only enabled channels, each channel's samples consecutive *)
Lemma round_spec en : forall gens ch ss gs,
  List.length en = List.length gens -> round en gens ch = (ss, gs) ->
  List.length gs = List.length gens /\
  (forall i, nth i gs 0%nat = if nth i en false then S (nth i gens 0%nat) else nth i gens 0%nat) /\
  (forall c v, In (c, v) ss -> (ch <= c)%nat /\ nth (c - ch) en false = true /\ v = S (nth (c - ch) gens 0%nat)).
Proof.
  induction en as [|e en IH]; intros [|g gens] ch ss gs Hl H; cbn in Hl; try discriminate.
  - cbn in H. inversion H; subst. split; [reflexivity|]. split.
    + intros i. destruct i; reflexivity.
    + intros c0 v0 [].
  - cbn [round] in H. destruct (round en gens (S ch)) as [ss1 gs1] eqn:E.
    destruct (IH gens (S ch) ss1 gs1 ltac:(lia) E) as (L & G & S1).
    destruct e; inversion H; subst; cbn [List.length]; (split; [lia|]); split.
    + intros [|i]; cbn [nth]; [reflexivity|apply G].
    + intros c v [Hin|Hin].
      * inversion Hin; subst. rewrite Nat.sub_diag. cbn. repeat split; lia.
      * destruct (S1 c v Hin) as (A & B & C). replace (c - ch)%nat with (S (c - S ch)) by lia. cbn [nth]. repeat split; try lia; assumption.
    + intros [|i]; cbn [nth]; [reflexivity|apply G].
    + intros c v Hin. destruct (S1 c v Hin) as (A & B & C).
      replace (c - ch)%nat with (S (c - S ch)) by lia. cbn [nth]. repeat split; try lia; assumption.
Qed.

(** one round: only enabled channels appear, each with its generator's next value,
    and exactly the enabled generators advance by one (no loss, no repetition) *)
Theorem round_conforms en gens ss gs :
  List.length en = List.length gens -> round en gens 0 = (ss, gs) ->
  (forall i, nth i gs 0%nat = if nth i en false then S (nth i gens 0%nat) else nth i gens 0%nat) /\
  (forall c v, In (c, v) ss -> nth c en false = true /\ v = S (nth c gens 0%nat)).
Proof.
  intros Hl H. destruct (round_spec en gens 0%nat ss gs Hl H) as (_ & G & S1).
  split; [exact G|]. intros c v Hin. destruct (S1 c v Hin) as (_ & B & C).
  rewrite Nat.sub_0_r in B, C. split; assumption.
Qed.

(** Connect and disconnect always terminate, with explicit bounds (C10);
    the life cycle is a clean state machine (C09). *)
From Coq Require Import List ZArith Bool Lia.
From NX Require Import Handshake.
Import ListNotations.
Open Scope nat_scope.

Lemma send_bounds o st a st' : send o st = (a, st') ->
  reqs st' = S (reqs st) /\ timeouts st <= timeouts st' <= S (timeouts st).
Proof. unfold send. intros H. inversion H; subst. cbn. destruct (o (reqs st)); lia. Qed.

Lemma chinfo_loop_bounds n o : forall st r st', chinfo_loop n o st = (r, st') ->
  reqs st <= reqs st' <= reqs st + n /\ timeouts st <= timeouts st' <= timeouts st + n.
Proof.
  induction n as [|n IH]; intros st r st' H; cbn [chinfo_loop] in H.
  - inversion H; subst. lia.
  - destruct (send o st) as [a st1] eqn:E. destruct (send_bounds _ _ _ _ E) as [B1 B2].
    destruct a; try (inversion H; subst; lia);
      (destruct (IH st1 r st' H) as [C1 C2]; lia).
Qed.

Lemma channels_loop_bounds c o : forall st r st', channels_loop c o st = (r, st') ->
  reqs st <= reqs st' <= reqs st + c * chinfo_attempts /\
  timeouts st <= timeouts st' <= timeouts st + c * chinfo_attempts.
Proof.
  induction c as [|c IH]; intros st r st' H; cbn [channels_loop] in H.
  - inversion H; subst. lia.
  - destruct (chinfo_loop chinfo_attempts o st) as [g st1] eqn:E.
    destruct (chinfo_loop_bounds _ _ _ _ _ E) as [B1 B2].
    destruct g; try (inversion H; subst; lia).
    destruct (IH st1 r st' H) as [C1 C2]. lia.
Qed.

Definition per_attempt (chmax : nat) : nat := 1 + chmax * chinfo_attempts.

Lemma devinfo_bounds chmax o st r st' : devinfo_get chmax o st = (r, st') ->
  reqs st <= reqs st' <= reqs st + per_attempt chmax /\
  timeouts st <= timeouts st' <= timeouts st + per_attempt chmax.
Proof.
  unfold devinfo_get, per_attempt. intros H.
  destruct (send o st) as [a st1] eqn:E. destruct (send_bounds _ _ _ _ E) as [B1 B2].
  destruct a; try (inversion H; subst; lia).
  destruct (channels_loop_bounds _ _ _ _ _ H) as [C1 C2]. lia.
Qed.

Lemma connect_loop_bounds n chmax o : forall st r st', connect_loop n chmax o st = (r, st') ->
  reqs st' <= reqs st + n * per_attempt chmax /\ timeouts st' <= timeouts st + n * per_attempt chmax.
Proof.
  induction n as [|n IH]; intros st r st' H; cbn [connect_loop] in H.
  - inversion H; subst. lia.
  - destruct (devinfo_get chmax o st) as [g st1] eqn:E.
    destruct (devinfo_bounds _ _ _ _ _ E) as [B1 B2].
    destruct g; try (inversion H; subst; lia).
    destruct (IH st1 r st' H) as [C1 C2]. lia.
Qed.

(** whatever the link does: connect returns one of three outcomes after at
    most 1 + A * (1 + chmax * R) requests and as many one-second time-outs, and
    unless it succeeded nothing is left running *)
Theorem connect_bounded chmax o :
  let '(out, c, st) := connect chmax o in
  reqs st <= 1 + connect_attempts * per_attempt chmax /\
  timeouts st <= connect_attempts * per_attempt chmax /\
  (out = Connected -> c = mkComm true true true true) /\
  (out <> Connected -> c = comm0).
Proof.
  unfold connect.
  destruct (connect_loop connect_attempts chmax o (mkHs 1 0)) as [g st] eqn:E.
  destruct (connect_loop_bounds _ _ _ _ _ _ E) as [B1 B2]. cbn [reqs timeouts] in B1, B2.
  destruct g; cbv beta iota;
    (split; [lia|]; split; [lia|]; split;
     [intros H; try reflexivity; discriminate | intros H; try reflexivity; congruence]).
Qed.

(** a device that answers every request correctly is connected to at the first attempt *)
Lemma chinfo_good n st : chinfo_loop (S n) (fun _ => AGood) st = (Got, mkHs (S (reqs st)) (timeouts st)).
Proof. cbn. f_equal. f_equal. lia. Qed.

Theorem connect_good chmax : fst (fst (connect chmax (fun _ => AGood))) = Connected.
Proof.
  unfold connect. change connect_attempts with 6. cbn [connect_loop devinfo_get send].
  assert (H : forall c st, exists st', channels_loop c (fun _ => AGood) st = (Got, st')).
  { induction c as [|c IH]; intros st; cbn [channels_loop]; [eauto|].
    change chinfo_attempts with 6. rewrite chinfo_good. apply IH. }
  destruct (H chmax (mkHs 2 (0 + 0))) as [st' E]. cbn in E |- *. rewrite E. reflexivity.
Qed.

(** a silent link: TimeoutError after exactly A cmninfo requests, nothing left running *)
Theorem connect_silent chmax :
  connect chmax (fun _ => ASilent) = (TimeoutError, comm0, mkHs (1 + connect_attempts) connect_attempts).
Proof. reflexivity. Qed.

(** disconnect leaves nothing running, is idempotent *)
Theorem disconnect_clean c : started c = true -> disconnect c = comm0.
Proof. intros H. unfold disconnect. now rewrite H. Qed.
Theorem disconnect_idem c : disconnect (disconnect c) = disconnect c.
Proof. unfold disconnect. destruct (started c) eqn:E; [reflexivity|]. now rewrite E. Qed.

(** ** life cycle (C09) *)
Definition nx_inv (s : nx) : Prop :=
  (connected_f s = false -> stream_started s = false /\ stream_thread s = false /\ cm s = comm0) /\
  (connected_f s = true -> cm s = mkComm true true true true) /\
  (stream_thread s = stream_started s).

Lemma nx_step_inv s k : nx_inv s -> nx_inv (fst (nx_step s k)).
Proof.
  intros (I1 & I2 & I3). destruct s as [cf ss stt c ds de dr]. cbn in *.
  destruct k; cbn; destruct cf, ss; cbn; unfold nx_inv; cbn; repeat split; intros; try congruence;
    try (destruct (I1 eq_refl) as (? & ? & ?); congruence);
    try (apply I2; reflexivity); try reflexivity; try (destruct (I1 eq_refl) as (? & ? & ?); assumption).
Qed.

Theorem nx_run_inv ks : forall s, nx_inv s -> nx_inv (nx_run s ks).
Proof. unfold nx_run. induction ks as [|k ks IH]; intros s H; cbn; [exact H|]. apply IH, nx_step_inv, H. Qed.

Lemma nx0_inv a b : nx_inv (nx0 a b).
Proof. unfold nx_inv, nx0. cbn. repeat split; intros; congruence. Qed.

(** connect and disconnect are idempotent *)
Theorem connect_idem s : connected_f s = true -> nx_step s KConnect = (s, RDone).
Proof. intros H. cbn. now rewrite H. Qed.
Theorem nx_disconnect_idem s : connected_f s = false -> nx_step s KDisconnect = (s, RDone).
Proof. intros H. cbn. now rewrite H. Qed.

(** while disconnected: no call reaches the device, starts a thread or blocks *)
Theorem disconnected_calls_inert s k :
  nx_inv s -> connected_f s = false -> k <> KConnect ->
  fst (nx_step s k) = s.
Proof.
  intros (I1 & _ & _) H Hk. destruct (I1 H) as (S1 & S2 & S3).
  destruct s as [cf ss stt c ds de dr]. cbn in *. subst.
  destruct k; cbn; try reflexivity. congruence.
Qed.

(** after disconnect (from any reachable state): the device was told to stop
    streaming and to disable every channel, no description, no thread *)
Theorem after_disconnect ks a b :
  let s := nx_run (nx0 a b) (ks ++ [KDisconnect]) in
  connected_f s = false /\ stream_thread s = false /\ cm s = comm0 /\
  (connected_f (nx_run (nx0 a b) ks) = true -> dev_streaming s = false /\ dev_enabled s = false).
Proof.
  cbn zeta. unfold nx_run. rewrite fold_left_app. cbn [fold_left].
  fold (nx_run (nx0 a b) ks).
  pose proof (nx_run_inv ks (nx0 a b) (nx0_inv a b)) as (I1 & I2 & I3).
  destruct (nx_run (nx0 a b) ks) as [cf ss stt c ds de dr]. cbn in *.
  destruct cf; cbn.
  - split; [reflexivity|]. split; [reflexivity|]. split; [reflexivity|]. intros _. split; reflexivity.
  - destruct (I1 eq_refl) as (S1 & S2 & S3). subst.
    split; [reflexivity|]. split; [reflexivity|]. split; [reflexivity|]. discriminate.
Qed.

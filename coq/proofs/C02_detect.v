(** Error detection (C02): a valid frame whose length field is intact and
    that suffered an error pattern of the named classes is never accepted. *)
From Coq Require Import Lia ZifyBool ZifyNat ZifyN String.
From NX Require Import Bytes PyStruct Crc Frame Wire ErrClass Bytes_proofs Crc_proofs CrcAlgebra
  Frame_proofs Dispatch_proofs.
Ltac Zify.zify_post_hook ::= Z.to_euclidean_division_equations.
Open Scope Z_scope.

Lemma lxor_lt_256 a b : (a < 256 -> b < 256 -> N.lxor a b < 256)%N.
Proof.
  intros Ha Hb.
  destruct (N.eq_dec (N.lxor a b) 0) as [E|E]; [rewrite E; reflexivity|].
  change 256%N with (2 ^ 8)%N.
  apply N.log2_lt_pow2; [lia|].
  pose proof (N.log2_lxor a b) as H.
  assert (La : (N.log2 a < 8)%N).
  { destruct (N.eq_dec a 0) as [->|Na]; [reflexivity|]. apply N.log2_lt_pow2; [lia|exact Ha]. }
  assert (Lb : (N.log2 b < 8)%N).
  { destruct (N.eq_dec b 0) as [->|Nb]; [reflexivity|]. apply N.log2_lt_pow2; [lia|exact Hb]. }
  lia.
Qed.

Lemma xor_bytes_cons a l b m : xor_bytes (a :: l) (b :: m) = N.lxor a b :: xor_bytes l m.
Proof. reflexivity. Qed.

Lemma xor_bytes_length a : forall b, length a = length b -> length (xor_bytes a b) = length a.
Proof.
  induction a as [|x a IH]; intros [|y b] H; try discriminate; [reflexivity|].
  rewrite xor_bytes_cons. cbn [length]. f_equal. apply IH. now inversion H.
Qed.

Lemma xor_bytes_wf a : forall b, length a = length b -> wf_bytes a -> wf_bytes b ->
  wf_bytes (xor_bytes a b).
Proof.
  induction a as [|x a IH]; intros [|y b] H Ha Hb; try discriminate; [constructor|].
  rewrite xor_bytes_cons. unfold wf_bytes in *.
  apply Forall_cons_iff in Ha as [Hx Ha]. apply Forall_cons_iff in Hb as [Hy Hb].
  apply Forall_cons; [apply lxor_lt_256; assumption|].
  apply IH; [now inversion H|assumption|assumption].
Qed.

(** [e] leaves the two length bytes (offsets 1 and 2) alone *)
Definition length_intact (e : bytes) : Prop := nth 1 e 0%N = 0%N /\ nth 2 e 0%N = 0%N.

Theorem corrupted_frame_rejected fid p e :
  0 <= fid <= 8 -> wf_bytes p -> zlen (wire (Z.to_N fid) p) <= 4095 ->
  length e = length (wire (Z.to_N fid) p) -> wf_bytes e ->
  length_intact e -> err_class (bits_of e) ->
  frame_decode (xor_bytes (wire (Z.to_N fid) p) e) = Err EHDR \/
  frame_decode (xor_bytes (wire (Z.to_N fid) p) e) = Err EFOOT.
Proof.
  intros Hf Hp Hmax Hle Hwe [H1 H2] Hcls. unfold zlen in Hmax.
  pose proof (wire_length (Z.to_N fid) p) as Hlen.
  assert (Hfit : payload_fits p) by (unfold payload_fits, zlen; rewrite Hlen in Hmax; lia).
  pose proof (wire_crc_zero (Z.to_N fid) p) as Hcrc.
  pose proof (wire_wf (Z.to_N fid) p ltac:(lia) Hp Hfit) as Hwf.
  unfold payload_fits, zlen in Hfit.
  set (n := N.of_nat (length p)) in *.
  assert (Hshape : exists c1 c2, wire (Z.to_N fid) p =
            (85 :: (n + 6) mod 256 :: (n + 6) / 256 :: Z.to_N fid :: p ++ [c1; c2])%N).
  { unfold wire, wire_hdr. cbn [app]. eexists. eexists. reflexivity. }
  destruct Hshape as (c1 & c2 & Hshape).
  set (w := wire (Z.to_N fid) p) in *.
  assert (Hcrc_e : crc_spec e <> 0%N).
  { unfold crc_spec. apply crc_detect; [|exact Hcls]. rewrite bits_of_length. pose proof big_bound as BB. lia. }
  assert (Hxor : crc_spec (xor_bytes w e) = crc_spec e).
  { rewrite crc_spec_xor by (try assumption; symmetry; assumption).
    rewrite Hcrc. apply N.lxor_0_l. }
  pose proof (xor_bytes_wf w e (eq_sym Hle) Hwf Hwe) as Hwg.
  pose proof (xor_bytes_length w e (eq_sym Hle)) as Hlg. rewrite Hlen in Hlg.
  destruct e as [|e0 [|e1 [|e2 [|e3 er]]]];
    try (rewrite Hlen in Hle; cbn [length] in Hle; lia).
  cbn [nth] in H1, H2. subst e1 e2.
  revert Hxor Hwg Hlg. rewrite Hshape. rewrite !xor_bytes_cons. rewrite !N.lxor_0_r.
  intros Hxor Hwg Hlg.
  rewrite frame_decode_cons by exact Hwg.
  destruct (negb (N.lxor 85 e0 =? 85)%N); [left; reflexivity|].
  destruct (negb (known_id (Z.of_N (N.lxor (Z.to_N fid) e3)))); [left; reflexivity|].
  right.
  assert (E : ((n + 6) mod 256 + 256 * ((n + 6) / 256) = n + 6)%N) by lia.
  rewrite E. rewrite Hlg.
  replace ((n + 6 <? 6)%N || (N.of_nat (length p + 6) <? n + 6)%N) with false by lia.
  replace (N.to_nat (n + 6)) with (length p + 6)%nat by lia.
  rewrite firstn_all2 by (rewrite Hlg; lia). rewrite Hxor.
  destruct (crc_spec (e0 :: 0%N :: 0%N :: e3 :: er) =? 0)%N eqn:Z0;
    [apply N.eqb_eq in Z0; contradiction|]. reflexivity.
Qed.

(** same for the device-side dispatcher when the SOF byte is intact: nothing fires *)
Theorem corrupted_request_ignored fid p e :
  0 <= fid <= 8 -> wf_bytes p -> zlen (wire (Z.to_N fid) p) <= 4095 ->
  length e = length (wire (Z.to_N fid) p) -> wf_bytes e ->
  length_intact e -> nth 0 e 0%N = 0%N -> err_class (bits_of e) ->
  recv_dispatch (xor_bytes (wire (Z.to_N fid) p) e) = DNone.
Proof.
  intros Hf Hp Hmax Hle Hwe [H1 H2] H0 Hcls. unfold zlen in Hmax.
  pose proof (wire_length (Z.to_N fid) p) as Hlen.
  assert (Hfit : payload_fits p) by (unfold payload_fits, zlen; rewrite Hlen in Hmax; lia).
  pose proof (wire_crc_zero (Z.to_N fid) p) as Hcrc.
  pose proof (wire_wf (Z.to_N fid) p ltac:(lia) Hp Hfit) as Hwf.
  unfold payload_fits, zlen in Hfit.
  set (n := N.of_nat (length p)) in *.
  assert (Hshape : exists c1 c2, wire (Z.to_N fid) p =
            (85 :: (n + 6) mod 256 :: (n + 6) / 256 :: Z.to_N fid :: p ++ [c1; c2])%N).
  { unfold wire, wire_hdr. cbn [app]. eexists. eexists. reflexivity. }
  destruct Hshape as (c1 & c2 & Hshape).
  set (w := wire (Z.to_N fid) p) in *.
  assert (Hcrc_e : crc_spec e <> 0%N).
  { unfold crc_spec. apply crc_detect; [|exact Hcls]. rewrite bits_of_length. pose proof big_bound as BB. lia. }
  assert (Hxor : crc_spec (xor_bytes w e) = crc_spec e).
  { rewrite crc_spec_xor by (try assumption; symmetry; assumption).
    rewrite Hcrc. apply N.lxor_0_l. }
  pose proof (xor_bytes_wf w e (eq_sym Hle) Hwf Hwe) as Hwg.
  pose proof (xor_bytes_length w e (eq_sym Hle)) as Hlg. rewrite Hlen in Hlg.
  destruct e as [|e0 [|e1 [|e2 [|e3 er]]]];
    try (rewrite Hlen in Hle; cbn [length] in Hle; lia).
  cbn [nth] in H0, H1, H2. subst e0 e1 e2.
  revert Hxor Hwg Hlg. rewrite Hshape. rewrite !xor_bytes_cons. rewrite !N.lxor_0_r.
  intros Hxor Hwg Hlg.
  match goal with |- recv_dispatch ?g = _ => change g with ([] ++ g) end.
  rewrite recv_dispatch_cons; [| intros x [] | exact Hwg].
  match goal with |- (if ?c then _ else _) = _ => destruct c end; [reflexivity|].
  destruct (negb (known_id (Z.of_N (N.lxor (Z.to_N fid) e3)))); [reflexivity|].
  assert (E : ((n + 6) mod 256 + 256 * ((n + 6) / 256) = n + 6)%N) by lia.
  rewrite E. rewrite Hlg.
  replace ((n + 6 <? 6)%N || (N.of_nat (length p + 6) <? n + 6)%N) with false by lia.
  replace (N.to_nat (n + 6)) with (length p + 6)%nat by lia.
  rewrite firstn_all2 by (rewrite Hlg; lia). rewrite Hxor.
  destruct (crc_spec (0%N :: 0%N :: 0%N :: e3 :: er) =? 0)%N eqn:Z0;
    [apply N.eqb_eq in Z0; contradiction|]. reflexivity.
Qed.

(** Stream decode: what each standard row turns the wire bytes into (C04). *)
From Coq Require Import Lia ZifyBool ZifyNat ZifyN String DecimalString.
From NX Require Import Bytes PyStruct Request Utf8 StreamTypes Rn53 Stream Bytes_proofs PyStruct_proofs
  Utf8_proofs Stream_proofs.
From NX Require Gen_types.
Ltac Zify.zify_post_hook ::= Z.to_euclidean_division_equations.
Open Scope string_scope.
Open Scope list_scope.
Open Scope Z_scope.

Definition code_eqb (a b : code) : bool :=
  match a, b with
  | Cx, Cx | Cc, Cc | Cb, Cb | CB, CB | Cbool, Cbool | Ch, Ch | CH, CH | Ci, Ci | CI, CI
  | Cl, Cl | CL, CL | Cq, Cq | CQ, CQ | Cf, Cf | Cd, Cd | Cs, Cs => true
  | _, _ => false
  end.

Lemma code_eqb_eq a b : code_eqb a b = true -> a = b.
Proof. destruct a, b; cbn; intros H; try reflexivity; discriminate. Qed.

(** "<" + str(n) + code  parses to one item with count n: swept over n < 256 *)
Definition counted_ok (code_s : string) (c : code) (n : N) : bool :=
  (n =? 0)%N ||
  match parse_fmt ("<" ^^ str_of_Z (Z.of_N n) ^^ code_s) with
  | Some (mkFmt LE false [mkItem k c']) => Nat.eqb k (N.to_nat n) && code_eqb c' c
  | _ => false
  end.

Lemma counted_sweep_B : all_bits 8 0 (counted_ok "B" CB) = true. Proof. vm_compute. reflexivity. Qed.
Lemma counted_sweep_b : all_bits 8 0 (counted_ok "b" Cb) = true. Proof. vm_compute. reflexivity. Qed.
Lemma counted_sweep_H : all_bits 8 0 (counted_ok "H" CH) = true. Proof. vm_compute. reflexivity. Qed.
Lemma counted_sweep_h : all_bits 8 0 (counted_ok "h" Ch) = true. Proof. vm_compute. reflexivity. Qed.
Lemma counted_sweep_I : all_bits 8 0 (counted_ok "I" CI) = true. Proof. vm_compute. reflexivity. Qed.
Lemma counted_sweep_i : all_bits 8 0 (counted_ok "i" Ci) = true. Proof. vm_compute. reflexivity. Qed.
Lemma counted_sweep_Q : all_bits 8 0 (counted_ok "Q" CQ) = true. Proof. vm_compute. reflexivity. Qed.
Lemma counted_sweep_q : all_bits 8 0 (counted_ok "q" Cq) = true. Proof. vm_compute. reflexivity. Qed.
Lemma counted_sweep_f : all_bits 8 0 (counted_ok "f" Cf) = true. Proof. vm_compute. reflexivity. Qed.
Lemma counted_sweep_d : all_bits 8 0 (counted_ok "d" Cd) = true. Proof. vm_compute. reflexivity. Qed.
Lemma counted_sweep_s : all_bits 8 0 (counted_ok "s" Cs) = true. Proof. vm_compute. reflexivity. Qed.

Lemma counted_parse code_s c n :
  all_bits 8 0 (counted_ok code_s c) = true -> 1 <= n <= 255 ->
  parse_fmt ("<" ^^ str_of_Z n ^^ code_s) = Some (mkFmt LE false [mkItem (Z.to_nat n) c]).
Proof.
  intros S Hn.
  pose proof (all_below_pow2 8 _ S (Z.to_N n)) as H.
  assert (Hlt : (Z.to_N n < 2 ^ N.of_nat 8)%N) by (change (2 ^ N.of_nat 8)%N with 256%N; lia).
  specialize (H Hlt). unfold counted_ok in H. rewrite Z2N.id in H by lia.
  replace (Z.to_N n =? 0)%N with false in H by lia. cbn [orb] in H.
  destruct (parse_fmt ("<" ^^ str_of_Z n ^^ code_s)) as [[e nat its]|]; [|discriminate].
  destruct e; [|discriminate]. destruct nat; [discriminate|].
  destruct its as [|[k c'] its']; [discriminate|]. destruct its'; [|discriminate].
  apply andb_prop in H as [H1 H2]. apply Nat.eqb_eq in H1. apply code_eqb_eq in H2. subst c'.
  replace (Z.to_nat n) with k by lia. reflexivity.
Qed.

(** metadata formats *)
Lemma meta_fmt_single : 
  parse_fmt ("<" ^^ msfmt_get 1) = Some (mkFmt LE false [mkItem 1 CB]) /\
  parse_fmt ("<" ^^ msfmt_get 2) = Some (mkFmt LE false [mkItem 1 CH]) /\
  parse_fmt ("<" ^^ msfmt_get 4) = Some (mkFmt LE false [mkItem 1 CI]) /\
  parse_fmt ("<" ^^ msfmt_get 8) = Some (mkFmt LE false [mkItem 1 CQ]) /\
  parse_fmt ("<" ^^ msfmt_get 0) = Some (mkFmt LE false []).
Proof. repeat split; reflexivity. Qed.

Definition meta_other_ok (n : N) : bool :=
  (n =? 0)%N || (n =? 1)%N || (n =? 2)%N || (n =? 4)%N || (n =? 8)%N ||
  match parse_fmt ("<" ^^ msfmt_get (Z.of_N n)) with
  | Some (mkFmt LE false [mkItem k CB]) => Nat.eqb k (N.to_nat n)
  | _ => false
  end.
Lemma meta_other_sweep : all_bits 8 0 meta_other_ok = true. Proof. vm_compute. reflexivity. Qed.

Lemma meta_fmt_other n : 0 <= n <= 255 -> n <> 0 -> n <> 1 -> n <> 2 -> n <> 4 -> n <> 8 ->
  parse_fmt ("<" ^^ msfmt_get n) = Some (mkFmt LE false [mkItem (Z.to_nat n) CB]).
Proof.
  intros Hn N0 N1 N2 N4 N8.
  pose proof (all_below_pow2 8 _ meta_other_sweep (Z.to_N n)) as H.
  assert (Hlt : (Z.to_N n < 2 ^ N.of_nat 8)%N) by (change (2 ^ N.of_nat 8)%N with 256%N; lia).
  specialize (H Hlt). unfold meta_other_ok in H. rewrite Z2N.id in H by lia.
  replace (Z.to_N n =? 0)%N with false in H by lia. replace (Z.to_N n =? 1)%N with false in H by lia.
  replace (Z.to_N n =? 2)%N with false in H by lia. replace (Z.to_N n =? 4)%N with false in H by lia.
  replace (Z.to_N n =? 8)%N with false in H by lia. cbn [orb] in H.
  destruct (parse_fmt ("<" ^^ msfmt_get n)) as [[e nat its]|]; [|discriminate].
  destruct e; [|discriminate]. destruct nat; [discriminate|].
  destruct its as [|[k c'] its']; [discriminate|].
  destruct c'; try discriminate. destruct its'; [|discriminate].
  apply Nat.eqb_eq in H. replace (Z.to_nat n) with k by lia. reflexivity.
Qed.

(** ** what unpack returns for the homogeneous vectors *)
Lemma unpack_counted_ints c raws n :
  code_is_int c = true -> n = List.length raws ->
  Forall (fun r => (r < pow256 (code_size c))%N) raws ->
  unpack (mkFmt LE false [mkItem n c]) (List.concat (map (le_enc (code_size c)) raws)) =
  Some (map (fun r => if code_signed c then VInt (sgn (code_size c) r) else VInt (Z.of_N r)) raws).
Proof.
  intros Hc -> Hr.
  assert (Hlen : List.length (List.concat (map (le_enc (code_size c)) raws)) = (List.length raws * code_size c)%nat).
  { clear Hr. induction raws as [|r raws IH]; [reflexivity|].
    cbn [map List.concat List.length]. rewrite app_length, le_enc_length, IH. lia. }
  assert (Hwf : wf_bytes (List.concat (map (le_enc (code_size c)) raws))).
  { clear Hr Hlen. induction raws as [|r raws IH]; [constructor|].
    cbn [map List.concat]. apply wf_bytes_app; [apply le_enc_wf|exact IH]. }
  unfold unpack. unfold calcsize, item_size. cbn [fitems fold_right icnt icode].
  rewrite Hlen, Nat.add_0_r, Nat.eqb_refl.
  replace (wf_bytesb _) with true by (symmetry; apply wf_bytesb_iff; exact Hwf).
  cbn [andb fend fitems unpack_items unpack_item icode icnt].
  assert (E : unpack_item LE (mkItem (List.length raws) c) =
              unpack_many LE c (List.length raws)) by (destruct c; try discriminate; reflexivity).
  rewrite E. unfold item_size. cbn [icnt icode].
  rewrite firstn_all2 by lia. rewrite app_nil_r.
  f_equal. apply unpack_many_le_raw; assumption.
Qed.

Lemma unpack_counted_f32 bits n : n = List.length bits ->
  Forall (fun r => (r < pow256 4)%N) bits ->
  unpack (mkFmt LE false [mkItem n Cf]) (List.concat (map (le_enc 4) bits)) = Some (map VF32 bits).
Proof.
  intros -> Hr.
  assert (Hlen : List.length (List.concat (map (le_enc 4) bits)) = (List.length bits * 4)%nat).
  { clear Hr. induction bits as [|r l IH]; [reflexivity|].
    cbn [map List.concat List.length]. rewrite app_length, le_enc_length, IH. lia. }
  assert (Hwf : wf_bytes (List.concat (map (le_enc 4) bits))).
  { clear Hr Hlen. induction bits as [|r l IH]; [constructor|].
    cbn [map List.concat]. apply wf_bytes_app; [apply le_enc_wf|exact IH]. }
  unfold unpack. unfold calcsize, item_size. cbn [fitems fold_right icnt icode code_size].
  rewrite Hlen, Nat.add_0_r, Nat.eqb_refl.
  replace (wf_bytesb _) with true by (symmetry; apply wf_bytesb_iff; exact Hwf).
  cbn [andb fend fitems unpack_items unpack_item icode icnt]. unfold item_size. cbn [icnt icode code_size].
  rewrite firstn_all2 by lia. rewrite app_nil_r. f_equal.
  clear Hlen Hwf. induction Hr as [|r l Hr Hl IH]; [reflexivity|].
  cbn [List.length map List.concat unpack_many code_size].
  rewrite firstn_app, le_enc_length, Nat.sub_diag, firstn_all2 by (rewrite le_enc_length; lia).
  cbn [firstn]. rewrite app_nil_r.
  rewrite skipn_app, le_enc_length, Nat.sub_diag, skipn_all2 by (rewrite le_enc_length; lia).
  cbn [skipn app]. rewrite IH. cbn [unpack_one dec].
  rewrite le_dec_enc, N.mod_small by exact Hr. reflexivity.
Qed.

Lemma unpack_counted_f64 bits n : n = List.length bits ->
  Forall (fun r => (r < pow256 8)%N) bits ->
  unpack (mkFmt LE false [mkItem n Cd]) (List.concat (map (le_enc 8) bits)) = Some (map VF64 bits).
Proof.
  intros -> Hr.
  assert (Hlen : List.length (List.concat (map (le_enc 8) bits)) = (List.length bits * 8)%nat).
  { clear Hr. induction bits as [|r l IH]; [reflexivity|].
    cbn [map List.concat List.length]. rewrite app_length, le_enc_length, IH. lia. }
  assert (Hwf : wf_bytes (List.concat (map (le_enc 8) bits))).
  { clear Hr Hlen. induction bits as [|r l IH]; [constructor|].
    cbn [map List.concat]. apply wf_bytes_app; [apply le_enc_wf|exact IH]. }
  unfold unpack. unfold calcsize, item_size. cbn [fitems fold_right icnt icode code_size].
  rewrite Hlen, Nat.add_0_r, Nat.eqb_refl.
  replace (wf_bytesb _) with true by (symmetry; apply wf_bytesb_iff; exact Hwf).
  cbn [andb fend fitems unpack_items unpack_item icode icnt]. unfold item_size. cbn [icnt icode code_size].
  rewrite firstn_all2 by lia. rewrite app_nil_r. f_equal.
  clear Hlen Hwf. induction Hr as [|r l Hr Hl IH]; [reflexivity|].
  cbn [List.length map List.concat unpack_many code_size].
  rewrite firstn_app, le_enc_length, Nat.sub_diag, firstn_all2 by (rewrite le_enc_length; lia).
  cbn [firstn]. rewrite app_nil_r.
  rewrite skipn_app, le_enc_length, Nat.sub_diag, skipn_all2 by (rewrite le_enc_length; lia).
  cbn [skipn app]. rewrite IH. cbn [unpack_one dec].
  rewrite le_dec_enc, N.mod_small by exact Hr. reflexivity.
Qed.

Lemma unpack_counted_s b n : n = List.length b -> wf_bytes b ->
  unpack (mkFmt LE false [mkItem n Cs]) b = Some [VBytes b].
Proof.
  intros -> Hwf. unfold unpack, calcsize, item_size. cbn [fitems fold_right icnt icode code_size].
  rewrite Nat.mul_1_r, Nat.add_0_r, Nat.eqb_refl.
  replace (wf_bytesb b) with true by (symmetry; apply wf_bytesb_iff; exact Hwf).
  cbn [andb fend fitems unpack_items unpack_item icode icnt]. unfold item_size. cbn [icnt icode code_size].
  rewrite Nat.mul_1_r, !firstn_all. reflexivity.
Qed.

(** ** metadata *)
Definition meta_vals (mlen : Z) (mb : bytes) : list sval :=
  if (mlen =? 1) || (mlen =? 2) || (mlen =? 4) || (mlen =? 8)
  then [SVInt (Z.of_N (Bytes.le_dec mb))]
  else map (fun b => SVInt (Z.of_N b)) mb.

Lemma concat_le_enc_1 l : wf_bytes l -> List.concat (map (le_enc 1) l) = l.
Proof.
  induction 1 as [|b l Hb Hl IH]; [reflexivity|].
  change (List.concat (map (le_enc 1) (b :: l))) with ((b mod 256)%N :: List.concat (map (le_enc 1) l)).
  rewrite IH. f_equal. apply N.mod_small. exact Hb.
Qed.

Lemma meta_decode mlen mb :
  0 <= mlen <= 255 -> zlen mb = mlen -> wf_bytes mb ->
  exists fm mvals,
    sfmt_parse (Gen_types.meta_le_prefix ^^ msfmt_get mlen) = Ok fm /\
    unpack fm mb = Some mvals /\ map sval_raw mvals = meta_vals mlen mb.
Proof.
  intros Hm Hl Hwf. unfold sfmt_parse. change Gen_types.meta_le_prefix with "<".
  destruct meta_fmt_single as (F1 & F2 & F4 & F8 & F0).
  assert (single : forall c, code_is_int c = true -> code_signed c = false ->
            mlen = Z.of_nat (code_size c) ->
            unpack (mkFmt LE false [mkItem 1 c]) mb = Some [VInt (Z.of_N (Bytes.le_dec mb))]).
  { intros c Hc Hs Hsz.
    pose proof (unpack_counted_ints c [Bytes.le_dec mb] 1 Hc eq_refl) as U.
    cbn [map List.concat] in U. rewrite app_nil_r in U.
    replace (code_size c) with (List.length mb) in U at 1 by (unfold zlen in Hl; lia).
    rewrite le_enc_dec in U by exact Hwf. rewrite Hs in U. apply U.
    constructor; [|constructor].
    replace (code_size c) with (List.length mb) by (unfold zlen in Hl; lia).
    apply le_dec_bound. exact Hwf. }
  destruct (Z.eq_dec mlen 1) as [->|N1].
  { eexists. eexists. rewrite F1. split; [reflexivity|]. split; [apply (single CB); reflexivity|reflexivity]. }
  destruct (Z.eq_dec mlen 2) as [->|N2].
  { eexists. eexists. rewrite F2. split; [reflexivity|]. split; [apply (single CH); reflexivity|reflexivity]. }
  destruct (Z.eq_dec mlen 4) as [->|N4].
  { eexists. eexists. rewrite F4. split; [reflexivity|]. split; [apply (single CI); reflexivity|reflexivity]. }
  destruct (Z.eq_dec mlen 8) as [->|N8].
  { eexists. eexists. rewrite F8. split; [reflexivity|]. split; [apply (single CQ); reflexivity|reflexivity]. }
  destruct (Z.eq_dec mlen 0) as [->|N0].
  { destruct mb; [|unfold zlen in Hl; cbn [List.length] in Hl; lia].
    eexists. eexists. rewrite F0. split; [reflexivity|]. split; reflexivity. }
  rewrite meta_fmt_other by assumption.
  eexists. eexists. split; [reflexivity|]. split.
  - pose proof (unpack_counted_ints CB mb (Z.to_nat mlen) eq_refl) as U.
    cbn [code_size code_signed] in U. rewrite (concat_le_enc_1 mb Hwf) in U. apply U.
    + unfold zlen in Hl. lia.
    + change (pow256 1) with 256%N. exact Hwf.
  - unfold meta_vals.
    replace ((mlen =? 1) || (mlen =? 2) || (mlen =? 4) || (mlen =? 8)) with false by lia.
    rewrite map_map. reflexivity.
Qed.

(** ** generic standard-row sample *)
Lemma std_sample_ok lay user chb ch rw f db mb vals sv :
  nth_chan lay (N.to_nat chb) = Some ch ->
  zassoc (l_type ch) Gen_types.dsfmt_rows = Some rw ->
  sfmt_parse (Gen_types.stream_le_prefix
              ^^ (if negb (l_vdim ch =? 0) && negb false then str_of_Z (l_vdim ch) else "")
              ^^ r_fmt rw) = Ok f ->
  zlen db = r_slen rw * l_vdim ch ->
  unpack f db = Some vals ->
  stream_data_get rw vals = Ok sv ->
  0 <= l_mlen ch <= 255 -> zlen mb = l_mlen ch -> wf_bytes mb ->
  w_ok lay user (mkW chb db mb (mkSample (l_chan ch) (r_kind rw) (l_vdim ch) (l_mlen ch) sv
                                         (meta_vals (l_mlen ch) mb))).
Proof.
  intros Hch Hrow Hf Hdb Hun Hsd Hm Hmb Hwf rest.
  destruct (meta_decode (l_mlen ch) mb Hm Hmb Hwf) as (fm & mvals & Hfm & Hum & Hmv).
  unfold w_bytes. cbn [w_chb w_data w_meta w_out]. cbn [app]. rewrite <- app_assoc.
  rewrite <- Hmv.
  eapply decode_one_ok; try eassumption.
  - unfold dsfmt_get. rewrite Hrow. reflexivity.
  - discriminate.
Qed.

(** ** integer rows *)
Definition int_codes : list (string * code) :=
  [("B", CB); ("b", Cb); ("H", CH); ("h", Ch); ("I", CI); ("i", Ci); ("Q", CQ); ("q", Cq)].

Definition int_row (rw : row) (c : code) : Prop :=
  In (r_fmt rw, c) int_codes /\ r_slen rw = Z.of_nat (code_size c) /\
  r_kind rw = 1 /\ scale_divides (r_scale rw) = None.

Lemma int_code_parse s c n : In (s, c) int_codes -> 1 <= n <= 255 ->
  parse_fmt ("<" ^^ str_of_Z n ^^ s) = Some (mkFmt LE false [mkItem (Z.to_nat n) c]) /\
  code_is_int c = true.
Proof.
  intros H Hn. cbn [int_codes In] in H.
  repeat (destruct H as [H|H]; [inversion H; subst; split; [|reflexivity]|]); try (destruct H).
  - apply (counted_parse "B" CB n counted_sweep_B Hn).
  - apply (counted_parse "b" Cb n counted_sweep_b Hn).
  - apply (counted_parse "H" CH n counted_sweep_H Hn).
  - apply (counted_parse "h" Ch n counted_sweep_h Hn).
  - apply (counted_parse "I" CI n counted_sweep_I Hn).
  - apply (counted_parse "i" Ci n counted_sweep_i Hn).
  - apply (counted_parse "Q" CQ n counted_sweep_Q Hn).
  - apply (counted_parse "q" Cq n counted_sweep_q Hn).
Qed.

Definition int_meaning (c : code) (r : N) : Z :=
  if code_signed c then sgn (code_size c) r else Z.of_N r.

Theorem int_sample_ok lay user chb ch rw c raws mb :
  nth_chan lay (N.to_nat chb) = Some ch ->
  zassoc (l_type ch) Gen_types.dsfmt_rows = Some rw -> int_row rw c ->
  1 <= l_vdim ch <= 255 -> List.length raws = Z.to_nat (l_vdim ch) ->
  Forall (fun r => (r < pow256 (code_size c))%N) raws ->
  0 <= l_mlen ch <= 255 -> zlen mb = l_mlen ch -> wf_bytes mb ->
  w_ok lay user
    (mkW chb (List.concat (map (le_enc (code_size c)) raws)) mb
         (mkSample (l_chan ch) 1 (l_vdim ch) (l_mlen ch)
                   (map (fun r => SVInt (int_meaning c r)) raws) (meta_vals (l_mlen ch) mb))).
Proof.
  intros Hch Hrow (Hin & Hsl & Hk & Hsc) Hv Hlen Hr Hm Hmb Hwf.
  destruct (int_code_parse (r_fmt rw) c (l_vdim ch) Hin Hv) as [Hp Hint].
  rewrite <- Hk.
  eapply std_sample_ok; try eassumption.
  - change Gen_types.stream_le_prefix with "<".
    replace (negb (l_vdim ch =? 0) && negb false) with true by lia.
    unfold sfmt_parse. rewrite Hp. reflexivity.
  - assert (L : List.length (List.concat (map (le_enc (code_size c)) raws)) = (List.length raws * code_size c)%nat).
    { clear. induction raws as [|r raws IH]; [reflexivity|].
      cbn [map List.concat List.length]. rewrite List.app_length, le_enc_length, IH. lia. }
    unfold zlen. rewrite L, Hsl. lia.
  - apply unpack_counted_ints; [exact Hint|lia|exact Hr].
  - unfold stream_data_get. rewrite Hk. change (kind_of "NUM") with 1. change (kind_of "CHAR") with 2.
    cbn [Z.eqb Pos.eqb]. rewrite Hsc. rewrite map_map. f_equal. apply map_ext. intros r.
    unfold int_meaning. destruct (code_signed c); reflexivity.
Qed.

(** the eight integer rows of the regenerated table are such rows *)
Lemma gen_int_rows :
  forall t, In t [2; 3; 4; 5; 6; 7; 8; 9] ->
  exists rw c, zassoc t Gen_types.dsfmt_rows = Some rw /\ int_row rw c.
Proof.
  intros t H. cbn [In] in H.
  repeat (destruct H as [<-|H];
          [eexists; eexists; split; [reflexivity|];
           unfold int_row; cbn [r_fmt r_slen r_kind r_scale];
           split; [cbn; eauto 12|]; split; [reflexivity|]; split; reflexivity|]).
  destruct H.
Qed.

(** ** fixed-point rows: value = rn53(raw) / 2^k, i.e. raw / 2^k exactly whenever |raw| <= 2^53 *)
Definition fix_row (rw : row) (c : code) (k : Z) : Prop :=
  In (r_fmt rw, c) int_codes /\ r_slen rw = Z.of_nat (code_size c) /\
  r_kind rw = 1 /\ scale_divides (r_scale rw) = Some (2 ^ k) /\ pow2_log (2 ^ k) = Some k.

Definition fix_meaning (c : code) (k : Z) (r : N) : sval :=
  let '(n, e) := dyad_norm (rn53 (int_meaning c r)) k in SVDyad n e.

Theorem fix_sample_ok lay user chb ch rw c k raws mb :
  nth_chan lay (N.to_nat chb) = Some ch ->
  zassoc (l_type ch) Gen_types.dsfmt_rows = Some rw -> fix_row rw c k ->
  1 <= l_vdim ch <= 255 -> List.length raws = Z.to_nat (l_vdim ch) ->
  Forall (fun r => (r < pow256 (code_size c))%N) raws ->
  0 <= l_mlen ch <= 255 -> zlen mb = l_mlen ch -> wf_bytes mb ->
  w_ok lay user
    (mkW chb (List.concat (map (le_enc (code_size c)) raws)) mb
         (mkSample (l_chan ch) 1 (l_vdim ch) (l_mlen ch)
                   (map (fix_meaning c k) raws) (meta_vals (l_mlen ch) mb))).
Proof.
  intros Hch Hrow (Hin & Hsl & Hk & Hsc & Hp2) Hv Hlen Hr Hm Hmb Hwf.
  destruct (int_code_parse (r_fmt rw) c (l_vdim ch) Hin Hv) as [Hp Hint].
  rewrite <- Hk.
  eapply std_sample_ok; try eassumption.
  - change Gen_types.stream_le_prefix with "<".
    replace (negb (l_vdim ch =? 0) && negb false) with true by lia.
    unfold sfmt_parse. rewrite Hp. reflexivity.
  - assert (L : List.length (List.concat (map (le_enc (code_size c)) raws)) = (List.length raws * code_size c)%nat).
    { clear. induction raws as [|r raws IH]; [reflexivity|].
      cbn [map List.concat List.length]. rewrite List.app_length, le_enc_length, IH. lia. }
    unfold zlen. rewrite L, Hsl. lia.
  - apply unpack_counted_ints; [exact Hint|lia|exact Hr].
  - unfold stream_data_get. rewrite Hk. change (kind_of "NUM") with 1.
    cbn [Z.eqb Pos.eqb]. rewrite Hsc. rewrite map_map. f_equal. apply map_ext. intros r.
    unfold fix_meaning, int_meaning, div_scale.
    destruct (code_signed c); rewrite Hp2; reflexivity.
Qed.

Lemma gen_fix_rows :
  forall t k, In (t, k) [(12, 8); (13, 8); (14, 16); (15, 16); (16, 32); (17, 32)] ->
  exists rw c, zassoc t Gen_types.dsfmt_rows = Some rw /\ fix_row rw c k.
Proof.
  intros t k H. cbn [In] in H.
  repeat (destruct H as [H|H];
          [inversion H; subst; eexists; eexists; split; [reflexivity|];
           unfold fix_row; cbn [r_fmt r_slen r_kind r_scale];
           split; [cbn; eauto 12|]; split; [reflexivity|]; split; [reflexivity|]; split; reflexivity|]).
  destruct H.
Qed.

Lemma rn53_small z : Z.abs z <= 2 ^ 53 -> rn53 z = z.
Proof.
  intros H. unfold rn53. destruct (z =? 0) eqn:E0; [lia|].
  assert (P : forall y, 0 < y <= 2 ^ 53 -> rn53_pos y = y).
  { intros y Hy. unfold rn53_pos.
    destruct (Z.eq_dec y (2 ^ 53)) as [->|Ny]; [vm_compute; reflexivity|].
    assert (L : Z.log2 y < 53) by (apply Z.log2_lt_pow2; lia).
    replace (Z.log2 y + 1 <=? 53) with true by lia. reflexivity. }
  destruct (0 <? z) eqn:Ep.
  - apply P. lia.
  - rewrite P by lia. lia.
Qed.

Lemma dyad_norm_fuel_spec fuel : forall num e,
  let '(n, e') := dyad_norm_fuel fuel num e in
  (num = 0 -> n = 0) /\ (num <> 0 -> num = n * 2 ^ (e - e') /\ e' <= e).
Proof.
  induction fuel as [|fuel IH]; intros num e; cbn [dyad_norm_fuel].
  - split; [auto|]. intros _. rewrite Z.sub_diag. cbn. lia.
  - destruct (num =? 0) eqn:E0.
    + split; [reflexivity|lia].
    + destruct (Z.even num) eqn:Ev.
      * specialize (IH (num / 2) (e - 1)).
        destruct (dyad_norm_fuel fuel (num / 2) (e - 1)) as [n e'].
        destruct IH as [_ IH]. split; [lia|]. intros _.
        assert (Hh : num = 2 * (num / 2)).
        { apply Z.even_spec in Ev. destruct Ev as [q ->]. rewrite Z.mul_comm, Z.div_mul by lia. lia. }
        assert (Hn : num / 2 <> 0) by lia.
        destruct (IH Hn) as [E1 E2]. split; [|lia].
        replace (e - e') with (Z.succ (e - 1 - e')) by lia.
        rewrite Z.pow_succ_r by lia. rewrite Hh at 1. rewrite E1 at 1. ring.
      * split; [lia|]. intros _. rewrite Z.sub_diag. cbn. lia.
Qed.

(** the decoded value denotes exactly raw / 2^k when |raw| <= 2^53:
    n / 2^e' = raw / 2^k  stated without division as  raw = n * 2^(k - e') *)
Theorem fix_value_exact c k r :
  Z.abs (int_meaning c r) <= 2 ^ 53 ->
  match fix_meaning c k r with
  | SVDyad n e' => (int_meaning c r = 0 -> n = 0) /\
                   (int_meaning c r <> 0 -> int_meaning c r = n * 2 ^ (k - e') /\ e' <= k)
  | _ => False
  end.
Proof.
  intros H. unfold fix_meaning. rewrite rn53_small by exact H.
  unfold dyad_norm. pose proof (dyad_norm_fuel_spec 200 (int_meaning c r) k) as S.
  destruct (dyad_norm_fuel 200 (int_meaning c r) k) as [n e']. exact S.
Qed.

(** ** IEEE rows: the bit patterns, exactly *)
Theorem f32_sample_ok lay user chb ch bits mb :
  nth_chan lay (N.to_nat chb) = Some ch -> l_type ch = 10 ->
  1 <= l_vdim ch <= 255 -> List.length bits = Z.to_nat (l_vdim ch) ->
  Forall (fun r => (r < pow256 4)%N) bits ->
  0 <= l_mlen ch <= 255 -> zlen mb = l_mlen ch -> wf_bytes mb ->
  w_ok lay user
    (mkW chb (List.concat (map (le_enc 4) bits)) mb
         (mkSample (l_chan ch) 1 (l_vdim ch) (l_mlen ch) (map SVF32 bits) (meta_vals (l_mlen ch) mb))).
Proof.
  intros Hch Ht Hv Hlen Hr Hm Hmb Hwf.
  match goal with |- w_ok _ _ (mkW ?a ?b ?c (mkSample ?x _ ?v ?m ?d ?mm)) =>
    change (w_ok lay user (mkW a b c (mkSample x (r_kind (mkRow 4 "f" (SFloat 1) 1)) v m d mm))) end.
  eapply std_sample_ok; try eassumption.
  - rewrite Ht. reflexivity.
  - change Gen_types.stream_le_prefix with "<". cbn [r_fmt].
    replace (negb (l_vdim ch =? 0) && negb false) with true by lia.
    unfold sfmt_parse. rewrite (counted_parse "f" Cf _ counted_sweep_f Hv). reflexivity.
  - assert (L : List.length (List.concat (map (le_enc 4) bits)) = (List.length bits * 4)%nat).
    { clear. induction bits as [|r l IH]; [reflexivity|].
      cbn [map List.concat List.length]. rewrite List.app_length, le_enc_length, IH. lia. }
    unfold zlen. rewrite L. cbn [r_slen]. lia.
  - apply unpack_counted_f32; [lia|exact Hr].
  - unfold stream_data_get. cbn. rewrite map_map. reflexivity.
Qed.

Theorem f64_sample_ok lay user chb ch bits mb :
  nth_chan lay (N.to_nat chb) = Some ch -> l_type ch = 11 ->
  1 <= l_vdim ch <= 255 -> List.length bits = Z.to_nat (l_vdim ch) ->
  Forall (fun r => (r < pow256 8)%N) bits ->
  0 <= l_mlen ch <= 255 -> zlen mb = l_mlen ch -> wf_bytes mb ->
  w_ok lay user
    (mkW chb (List.concat (map (le_enc 8) bits)) mb
         (mkSample (l_chan ch) 1 (l_vdim ch) (l_mlen ch) (map SVF64 bits) (meta_vals (l_mlen ch) mb))).
Proof.
  intros Hch Ht Hv Hlen Hr Hm Hmb Hwf.
  match goal with |- w_ok _ _ (mkW ?a ?b ?c (mkSample ?x _ ?v ?m ?d ?mm)) =>
    change (w_ok lay user (mkW a b c (mkSample x (r_kind (mkRow 8 "d" (SFloat 1) 1)) v m d mm))) end.
  eapply std_sample_ok; try eassumption.
  - rewrite Ht. reflexivity.
  - change Gen_types.stream_le_prefix with "<". cbn [r_fmt].
    replace (negb (l_vdim ch =? 0) && negb false) with true by lia.
    unfold sfmt_parse. rewrite (counted_parse "d" Cd _ counted_sweep_d Hv). reflexivity.
  - assert (L : List.length (List.concat (map (le_enc 8) bits)) = (List.length bits * 8)%nat).
    { clear. induction bits as [|r l IH]; [reflexivity|].
      cbn [map List.concat List.length]. rewrite List.app_length, le_enc_length, IH. lia. }
    unfold zlen. rewrite L. cbn [r_slen]. lia.
  - apply unpack_counted_f64; [lia|exact Hr].
  - unfold stream_data_get. cbn. rewrite map_map. reflexivity.
Qed.

(** ** char rows: ANY bytes decode (never an exception); valid UTF-8 gives its text *)
Theorem char_sample_ok lay user chb ch db mb :
  nth_chan lay (N.to_nat chb) = Some ch -> (l_type ch = 18 \/ l_type ch = 19) ->
  1 <= l_vdim ch <= 255 -> zlen db = l_vdim ch -> wf_bytes db ->
  0 <= l_mlen ch <= 255 -> zlen mb = l_mlen ch -> wf_bytes mb ->
  w_ok lay user
    (mkW chb db mb
         (mkSample (l_chan ch) 2 (l_vdim ch) (l_mlen ch) [text_of db] (meta_vals (l_mlen ch) mb))).
Proof.
  intros Hch Ht Hv Hdb Hwd Hm Hmb Hwf.
  match goal with |- w_ok _ _ (mkW ?a ?b ?c (mkSample ?x _ ?v ?m ?d ?mm)) =>
    change (w_ok lay user (mkW a b c (mkSample x (r_kind (mkRow 1 "s" SNone 2)) v m d mm))) end.
  eapply std_sample_ok; try eassumption.
  - destruct Ht as [-> | ->]; reflexivity.
  - change Gen_types.stream_le_prefix with "<". cbn [r_fmt].
    replace (negb (l_vdim ch =? 0) && negb false) with true by lia.
    unfold sfmt_parse. rewrite (counted_parse "s" Cs _ counted_sweep_s Hv). reflexivity.
  - cbn [r_slen]. lia.
  - apply unpack_counted_s; [unfold zlen in Hdb; lia|exact Hwd].
  - reflexivity.
Qed.

Lemma text_of_valid cps : Forall (fun c => valid_cp c = true) cps -> text_of (utf8_enc cps) = SVText cps.
Proof. intros H. unfold text_of. now rewrite utf8_dec_enc. Qed.

(** ** the data-less type *)
Theorem none_sample_ok lay user chb ch mb :
  nth_chan lay (N.to_nat chb) = Some ch -> l_type ch = 1 -> l_vdim ch = 0 ->
  0 <= l_mlen ch <= 255 -> zlen mb = l_mlen ch -> wf_bytes mb ->
  w_ok lay user
    (mkW chb [] mb (mkSample (l_chan ch) 0 0 (l_mlen ch) [] (meta_vals (l_mlen ch) mb))).
Proof.
  intros Hch Ht Hv Hm Hmb Hwf.
  match goal with |- w_ok _ _ (mkW ?a ?b ?c (mkSample ?x _ _ ?m ?d ?mm)) =>
    replace (mkW a b c (mkSample x 0 0 m d mm))
      with (mkW a b c (mkSample x (r_kind (mkRow 0 "" SNone 0)) (l_vdim ch) m d mm))
      by (rewrite Hv; reflexivity) end.
  eapply std_sample_ok; try eassumption.
  - rewrite Ht. reflexivity.
  - rewrite Hv. reflexivity.
  - rewrite Hv. reflexivity.
  - reflexivity.
  - reflexivity.
Qed.

(** The two description records of nxslib.dev (DDeviceChannelData, DDeviceData)
    and their containers (DeviceChannel, Device), as INTERPRETED SOURCE: every
    theorem is about the generated ASTs of gen/Src_dev.v run by the PyLite
    interpreter, for all inputs and every fuel above a constant.  No hand model
    in between (model/Records.v + proofs/Records_proofs.v proved the same facts
    about a hand-written model).

      1. construction (the translator's written-out dataclass [__init__],
         [__post_init__], the custom [__setattr__] before [_initdone]);
      2. C19, channel record: [setattr] of any attribute other than "div"/"en"
         raises TypeError, "div"/"en" replace exactly that field;
      3. C19, device record: [setattr] of anything raises TypeError;
      4. writes through the containers: [Device.en_channels_update],
         [Device.div_channels_update] (property alias [data], item path, loop
         over [enumerate]);
      5. [channels_en], [channels_div], [channel_get] (negative indices). *)
From Coq Require Import String Ascii List ZArith NArith Bool Lia ZifyBool.
From NX Require Import Bytes PyStruct Crc PyLite PyLite_tactics Src_dev Src_prelude Src_all.
Import ListNotations.
Open Scope string_scope.
Open Scope Z_scope.

(** * Generic additions to the toolkit (nothing here is specific to dev.py) *)

(** [for_loop_fold] with an invariant [I remaining state]: needed when one
    iteration only succeeds on the states the loop really reaches (here: the
    index produced by [enumerate] is in range) *)
Lemma for_loop_fold_inv {A B} (I : list B -> A -> Prop) (env_of : A -> env) (g : B -> pv)
      (f : A -> B -> A) P cf lf t b :
  (forall a y r, I (y :: r) a ->
     (do e1 <- attach (env_of a) (assign P cf (env_of a) t (g y));
      do o <- exec_block P cf lf e1 b; PyLite.Ok (iter_ok o))
     = PyLite.Ok (Some (env_of (f a y))) /\ I r (f a y)) ->
  forall l a, I l a ->
    for_loop P cf lf t b (map g l) (env_of a) = PyLite.Ok (ONorm (env_of (fold_left f l a))).
Proof.
  intros H l. induction l as [|y r IH]; intros a Ha; cbn [map fold_left].
  - apply for_loop_nil.
  - rewrite for_loop_cons. destruct (H a y r Ha) as [H1 H2].
    destruct (assign P cf (env_of a) t (g y)) as [e1| | | |]; cbn [attach bind] in *; try discriminate.
    destruct (exec_block P cf lf e1 b) as [o| | | |]; cbn [bind] in *; try discriminate.
    destruct o; cbn [iter_ok loop_next] in *; inversion H1; subst; apply IH; exact H2.
Qed.

(** the list [enumerate(map g l)] iterates over *)
Lemma enumerate_map {B} (g : B -> pv) l s :
  map (fun kv : nat * pv => PTuple [PInt (Z.of_nat (fst kv)); snd kv])
      (combine (seq s (List.length (map g l))) (map g l)) =
  map (fun kv : nat * B => PTuple [PInt (Z.of_nat (fst kv)); g (snd kv)])
      (combine (seq s (List.length l)) l).
Proof.
  rewrite map_length. revert s. induction l as [|x r IH]; intros s; cbn [map List.length seq combine fst snd].
  - reflexivity.
  - f_equal. apply IH.
Qed.

(** indices *)
Lemma norm_index_nat len k : (k < len)%nat -> norm_index len (Z.of_nat k) = Some k.
Proof.
  intros H. unfold norm_index.
  replace (0 <=? Z.of_nat k) with true by lia. replace (Z.of_nat k <? Z.of_nat len) with true by lia.
  cbn [andb]. rewrite Nat2Z.id. reflexivity.
Qed.

Lemma norm_index_pos len i : 0 <= i < Z.of_nat len -> norm_index len i = Some (Z.to_nat i).
Proof.
  intros H. unfold norm_index.
  replace (0 <=? i) with true by lia. replace (i <? Z.of_nat len) with true by lia. reflexivity.
Qed.

Lemma norm_index_neg len i : - Z.of_nat len <= i < 0 -> norm_index len i = Some (Z.to_nat (i + Z.of_nat len)).
Proof.
  intros H. unfold norm_index.
  replace (0 <=? i) with false by lia. replace (i <? 0) with true by lia.
  replace (0 <=? i + Z.of_nat len) with true by lia. reflexivity.
Qed.

Lemma norm_index_out len i : i < - Z.of_nat len \/ Z.of_nat len <= i -> norm_index len i = None.
Proof.
  intros H. unfold norm_index.
  destruct (0 <=? i) eqn:E1; destruct (i <? Z.of_nat len) eqn:E2; destruct (i <? 0) eqn:E3;
    destruct (0 <=? i + Z.of_nat len) eqn:E4; cbn [andb]; try reflexivity; exfalso; lia.
Qed.

(** updating one element of a list, on the model side *)
Fixpoint list_upd {A} (l : list A) (k : nat) (f : A -> A) : list A :=
  match l, k with
  | [], _ => []
  | x :: r, O => f x :: r
  | x :: r, S k' => x :: list_upd r k' f
  end.

Lemma list_set_map_upd {A B} (g : A -> B) (f : A -> A) l : forall k d,
  nth_error l k = Some d -> list_set (map g l) k (g (f d)) = map g (list_upd l k f).
Proof.
  induction l as [|x r IH]; intros [|k] d H; cbn in *; try discriminate.
  - inversion H; reflexivity.
  - f_equal. eapply IH; eauto.
Qed.

Lemma list_upd_length {A} (f : A -> A) l : forall k, List.length (list_upd l k f) = List.length l.
Proof. induction l as [|x r IH]; intros [|k]; cbn; auto. Qed.

(** element-wise combination with a second list (the shorter length wins on
    the right: the tail of the first list is kept) *)
Fixpoint zipw {A B} (f : A -> B -> A) (l : list A) (m : list B) : list A :=
  match l, m with
  | x :: r, y :: s => f x y :: zipw f r s
  | _, _ => l
  end.

Lemma zipw_length {A B} (f : A -> B -> A) l : forall m, List.length (zipw f l m) = List.length l.
Proof. induction l as [|x r IH]; intros [|y s]; cbn; auto. Qed.

(** the loop "for i, y in enumerate(m): l[i] = f(l[i], y)" is [zipw] *)
Lemma fold_enumerate_upd {A B} (f : A -> B -> A) (m : list B) : forall (pre l : list A),
  List.length m = List.length l ->
  fold_left (fun (cs : list A) (ky : nat * B) => list_upd cs (fst ky) (fun d => f d (snd ky)))
            (combine (seq (List.length pre) (List.length m)) m) (pre ++ l)%list =
  (pre ++ zipw f l m)%list.
Proof.
  induction m as [|y s IH]; intros pre [|x r] H; cbn in H; try discriminate; cbn [List.length seq combine fold_left zipw fst snd].
  - reflexivity.
  - assert (E : list_upd (pre ++ x :: r)%list (List.length pre) (fun d => f d y) = ((pre ++ [f x y]) ++ r)%list).
    { clear. induction pre as [|p q IHp]; cbn; [reflexivity | f_equal; exact IHp]. }
    rewrite E. replace (S (List.length pre)) with (List.length (pre ++ [f x y])%list) by (rewrite app_length; cbn; lia).
    rewrite IH by lia. rewrite <- app_assoc. reflexivity.
Qed.

(** every index of [combine (seq s n) m] is below [s + n] *)
Lemma in_enumerate_lt {B} (m : list B) : forall s k y,
  In (k, y) (combine (seq s (List.length m)) m) -> (k < s + List.length m)%nat.
Proof.
  induction m as [|x r IH]; intros s k y H; cbn in H; [contradiction|]; cbn [List.length].
  destruct H as [H|H]; [inversion H; lia|]. apply IH in H. lia.
Qed.

(** [set()] of a list of ints, and when it keeps the length *)
Fixpoint dedupZ (l acc : list Z) : list Z :=
  match l with
  | [] => rev acc
  | x :: r => if existsb (Z.eqb x) acc then dedupZ r acc else dedupZ r (x :: acc)
  end.

Lemma mem_eq_ints z acc : mem_eq (PInt z) (map PInt acc) = Some (existsb (Z.eqb z) acc).
Proof.
  induction acc as [|y r IH]; cbn [map mem_eq existsb]; [reflexivity|].
  cbn [py_eq as_int]. destruct (z =? y); cbn [orb]; [reflexivity | exact IH].
Qed.

Lemma dedup_ints l : forall acc, dedup (map PInt l) (map PInt acc) = Some (map PInt (dedupZ l acc)).
Proof.
  induction l as [|x r IH]; intros acc; cbn [map dedup dedupZ].
  - rewrite map_rev. reflexivity.
  - rewrite mem_eq_ints. destruct (existsb (Z.eqb x) acc); [apply IH | apply (IH (x :: acc))].
Qed.

Lemma dedupZ_length_le l : forall acc, (List.length (dedupZ l acc) <= List.length l + List.length acc)%nat.
Proof.
  induction l as [|x r IH]; intros acc; cbn [dedupZ List.length].
  - rewrite rev_length. lia.
  - destruct (existsb (Z.eqb x) acc); [specialize (IH acc) | specialize (IH (x :: acc)); cbn [List.length] in IH]; lia.
Qed.

Lemma dedupZ_NoDup l : forall acc,
  NoDup l -> (forall x, In x l -> ~ In x acc) -> dedupZ l acc = (rev acc ++ l)%list.
Proof.
  induction l as [|x r IH]; intros acc Hn Hd; cbn [dedupZ].
  - rewrite app_nil_r. reflexivity.
  - inversion Hn as [|? ? Hx Hr]; subst.
    destruct (existsb (Z.eqb x) acc) eqn:E.
    + apply existsb_exists in E. destruct E as [y [Hy Hxy]]. apply Z.eqb_eq in Hxy. subst y.
      exfalso. apply (Hd x); [left; reflexivity | exact Hy].
    + rewrite IH; [cbn [rev]; rewrite <- app_assoc; reflexivity | exact Hr |].
      intros y Hy [Hy'|Hy']; [subst; contradiction | apply (Hd y); [right; exact Hy | exact Hy']].
Qed.

Lemma dedupZ_full_NoDup l : forall acc,
  List.length (dedupZ l acc) = (List.length l + List.length acc)%nat ->
  NoDup l /\ (forall x, In x l -> ~ In x acc).
Proof.
  induction l as [|x r IH]; intros acc H; cbn [dedupZ List.length] in H.
  - split; [constructor | intros x []].
  - destruct (existsb (Z.eqb x) acc) eqn:E.
    + pose proof (dedupZ_length_le r acc). lia.
    + destruct (IH (x :: acc)) as [Hn Hd]; [cbn [List.length]; lia|].
      split.
      * constructor; [intros Hx; apply (Hd x Hx); left; reflexivity | exact Hn].
      * intros y [Hy|Hy] Hacc.
        -- subst y. assert (existsb (Z.eqb x) acc = true); [|congruence].
           apply existsb_exists. exists x. split; [exact Hacc | apply Z.eqb_refl].
        -- apply (Hd y Hy). right. exact Hacc.
Qed.

(** the model's duplicate test *)
Definition nodupb (l : list Z) : bool := Nat.eqb (List.length (dedupZ l [])) (List.length l).

Lemma nodupb_NoDup l : nodupb l = true <-> NoDup l.
Proof.
  unfold nodupb. rewrite Nat.eqb_eq. split.
  - intros H. apply (dedupZ_full_NoDup l []). cbn [List.length]. lia.
  - intros H. rewrite dedupZ_NoDup; [reflexivity | exact H | intros x _ []].
Qed.

(** an attribute assignment through a class with a custom [__setattr__] *)
Lemma assign_attr_setattr P cf e q a v c fs f r s e' :
  path_get P e q = Some (PObj c fs) ->
  find_method P mro_depth c "__setattr__" = Some f ->
  cf f [PObj c fs; PStr a; v] [] = PyLite.Ok (r, Some s) ->
  path_set P e q s = Some e' ->
  assign_attr P cf e q a v = PyLite.Ok e'.
Proof.
  intros H1 H2 H3 H4. unfold assign_attr. rewrite H1, H2, H3. cbn [bind snd]. rewrite H4. reflexivity.
Qed.

Lemma assign_attr_setattr_exc P cf e q a v c fs f x :
  path_get P e q = Some (PObj c fs) ->
  find_method P mro_depth c "__setattr__" = Some f ->
  cf f [PObj c fs; PStr a; v] [] = Exc x ->
  assign_attr P cf e q a v = Exc x.
Proof. intros H1 H2 H3. unfold assign_attr. rewrite H1, H2, H3. reflexivity. Qed.

(** the same when [__setattr__] is a method of the program: its raise carries a state *)
Lemma assign_attr_setattr_excS P cf e q a v c fs f x st :
  path_get P e q = Some (PObj c fs) ->
  find_method P mro_depth c "__setattr__" = Some f ->
  cf f [PObj c fs; PStr a; v] [] = ExcS x st ->
  assign_attr P cf e q a v = ExcS x st.
Proof. intros H1 H2 H3. unfold assign_attr. rewrite H1, H2, H3. reflexivity. Qed.

(** * The records *)
Definition chan_fields (chan typ vdim : Z) (name : string) (en div : pv) (mlen : Z) : list (string * pv) :=
  let dtype := Z.land typ 31 in
  [("chan", PInt chan); ("_type", PInt typ); ("vdim", PInt vdim); ("name", PStr name);
   ("en", en); ("div", div); ("mlen", PInt mlen);
   ("dtype", PInt dtype);
   ("critical", PBool (negb (Z.land typ 128 =? 0)));
   ("type_res", PInt (Z.land typ 96));
   ("is_valid", PBool (negb (dtype =? 0)));
   ("is_numerical", PBool (negb ((dtype =? 0) || (dtype =? 1) || (dtype =? 18) || (dtype =? 19))));
   ("_initdone", PBool true)].

(** [en], [div] as arbitrary values: what the record holds after a [setattr]
    with a value of any type *)
Definition chan_rec_gen chan typ vdim name (en div : pv) mlen : pv :=
  PObj "DDeviceChannelData" (chan_fields chan typ vdim name en div mlen).

Definition chan_rec (chan typ vdim : Z) (name : string) (en : bool) (div mlen : Z) : pv :=
  chan_rec_gen chan typ vdim name (PBool en) (PInt div) mlen.

Definition dev_rec (chmax flags rxpadding : Z) : pv :=
  PObj "DDeviceData"
    [("chmax", PInt chmax); ("flags", PInt flags); ("rxpadding", PInt rxpadding);
     ("div_supported", PBool (negb (Z.land flags 1 =? 0)));
     ("ack_supported", PBool (negb (Z.land flags 2 =? 0)));
     ("_initdone", PBool true)].

(** the explicit form of [chan_rec], as in the task statement *)
Lemma chan_rec_explicit chan typ vdim name en div mlen :
  chan_rec chan typ vdim name en div mlen =
  PObj "DDeviceChannelData"
    [("chan", PInt chan); ("_type", PInt typ); ("vdim", PInt vdim); ("name", PStr name);
     ("en", PBool en); ("div", PInt div); ("mlen", PInt mlen);
     ("dtype", PInt (Z.land typ 31));
     ("critical", PBool (negb (Z.land typ 128 =? 0)));
     ("type_res", PInt (Z.land typ 96));
     ("is_valid", PBool (negb (Z.land typ 31 =? 0)));
     ("is_numerical", PBool (negb (existsb (Z.eqb (Z.land typ 31)) [0; 1; 18; 19])));
     ("_initdone", PBool true)].
Proof. unfold chan_rec, chan_rec_gen, chan_fields. cbn [existsb]. rewrite !orb_false_r, !orb_assoc. reflexivity. Qed.

#[local] Hint Unfold chan_rec chan_rec_gen chan_fields dev_rec : rec_model.
Ltac py_unfold_hook ::= autounfold with rec_model.

(** [self.dtype is not EDeviceChannelType.UNDEF.value] is an identity test on
    ints: defined (CPython's small-int cache) because the masked value is in
    0..31, for every [typ], negative ones included *)
Lemma land31_range z : 0 <= Z.land z 31 < 32.
Proof. change 31 with (Z.ones 5). rewrite Z.land_ones by lia. apply Z.mod_pos_bound. reflexivity. Qed.

(** * 1. Construction *)

(** the written-out dataclass [__init__]: seven stores through the custom
    [__setattr__] (which reads the class-level default [_initdone = False]),
    then [__post_init__] *)
Lemma chan_init_func n chan typ vdim name en div mlen :
  call_func program (S (S (S n))) DDeviceChannelData_DinitD
    [PObj "DDeviceChannelData" []; PInt chan; PInt typ; PInt vdim; PStr name; PBool en; PInt div; PInt mlen] [] =
  PyLite.Ok (PNone, Some (chan_rec chan typ vdim name en div mlen)).
Proof. pystart. pose proof (land31_range typ). pyrun. Qed.

Lemma dev_init_func n chmax flags rxp :
  call_func program (S (S (S n))) DDeviceData_DinitD [PObj "DDeviceData" []; PInt chmax; PInt flags; PInt rxp] [] =
  PyLite.Ok (PNone, Some (dev_rec chmax flags rxp)).
Proof. pystart. pyrun. Qed.

#[local] Hint Resolve chan_init_func dev_init_func : pyspec.

Theorem chan_construct n chan typ vdim name en div mlen :
  construct program (3 + n) "DDeviceChannelData"
    [PInt chan; PInt typ; PInt vdim; PStr name; PBool en; PInt div; PInt mlen] =
  PyLite.Ok (chan_rec chan typ vdim name en div mlen).
Proof. pystart. pyrun. Qed.

(** the three defaulted parameters *)
Theorem chan_construct_defaults n chan typ vdim name :
  construct program (3 + n) "DDeviceChannelData" [PInt chan; PInt typ; PInt vdim; PStr name] =
  PyLite.Ok (chan_rec chan typ vdim name false 0 0).
Proof. pystart. pose proof (land31_range typ). pyrun. Qed.

Theorem dev_construct n chmax flags rxp :
  construct program (3 + n) "DDeviceData" [PInt chmax; PInt flags; PInt rxp] =
  PyLite.Ok (dev_rec chmax flags rxp).
Proof. pystart. pyrun. Qed.

(** * 2. C19 on the channel record *)
Lemma chan_setattr_ro_func n chan typ vdim name en div mlen a v :
  String.eqb a "div" = false -> String.eqb a "en" = false ->
  call_func program (S n) DDeviceChannelData_DsetattrD
    [chan_rec_gen chan typ vdim name en div mlen; PStr a; v] [] =
  ExcS "TypeError" (self_st (chan_rec_gen chan typ vdim name en div mlen)).
Proof. intros Hd He. pystart. pyrun. Qed.

Lemma chan_setattr_div_func n chan typ vdim name en div mlen v :
  call_func program (S n) DDeviceChannelData_DsetattrD
    [chan_rec_gen chan typ vdim name en div mlen; PStr "div"; v] [] =
  PyLite.Ok (PNone, Some (chan_rec_gen chan typ vdim name en v mlen)).
Proof. pystart. pyrun. Qed.

Lemma chan_setattr_en_func n chan typ vdim name en div mlen v :
  call_func program (S n) DDeviceChannelData_DsetattrD
    [chan_rec_gen chan typ vdim name en div mlen; PStr "en"; v] [] =
  PyLite.Ok (PNone, Some (chan_rec_gen chan typ vdim name v div mlen)).
Proof. pystart. pyrun. Qed.

#[local] Hint Resolve chan_setattr_div_func chan_setattr_en_func : pyspec.

(** any attribute other than "div" and "en": TypeError, whatever the value
    (existing field or not) *)
Theorem chan_set_attr_readonly_gen n chan typ vdim name en div mlen a v :
  a <> "div" -> a <> "en" ->
  call_function program (2 + n) "set_attr" [chan_rec_gen chan typ vdim name en div mlen; PStr a; v] =
  Exc "TypeError".
Proof.
  intros Hd%String.eqb_neq He%String.eqb_neq. pystart.
  pose proof (chan_setattr_ro_func n chan typ vdim name en div mlen a v Hd He).
  pyrun.
Qed.

Theorem chan_set_attr_div_gen n chan typ vdim name en div mlen v :
  call_function program (2 + n) "set_attr" [chan_rec_gen chan typ vdim name en div mlen; PStr "div"; v] =
  PyLite.Ok (chan_rec_gen chan typ vdim name en v mlen).
Proof. pystart. pyrun. Qed.

Theorem chan_set_attr_en_gen n chan typ vdim name en div mlen v :
  call_function program (2 + n) "set_attr" [chan_rec_gen chan typ vdim name en div mlen; PStr "en"; v] =
  PyLite.Ok (chan_rec_gen chan typ vdim name v div mlen).
Proof. pystart. pyrun. Qed.

(** the statements on [chan_rec] *)
Theorem chan_set_attr_readonly n chan typ vdim name en div mlen a v :
  a <> "div" -> a <> "en" ->
  call_function program (2 + n) "set_attr" [chan_rec chan typ vdim name en div mlen; PStr a; v] =
  Exc "TypeError".
Proof. apply chan_set_attr_readonly_gen. Qed.

(** ... "exactly that field replaced", with [update] *)
Theorem chan_set_attr_div n chan typ vdim name en div mlen v :
  call_function program (2 + n) "set_attr" [chan_rec chan typ vdim name en div mlen; PStr "div"; v] =
  PyLite.Ok (PObj "DDeviceChannelData"
               (update "div" v (chan_fields chan typ vdim name (PBool en) (PInt div) mlen))).
Proof. apply chan_set_attr_div_gen. Qed.

Theorem chan_set_attr_en n chan typ vdim name en div mlen v :
  call_function program (2 + n) "set_attr" [chan_rec chan typ vdim name en div mlen; PStr "en"; v] =
  PyLite.Ok (PObj "DDeviceChannelData"
               (update "en" v (chan_fields chan typ vdim name (PBool en) (PInt div) mlen))).
Proof. apply chan_set_attr_en_gen. Qed.

(** ... and as records, for values of the declared types *)
Corollary chan_set_attr_div_int n chan typ vdim name en div mlen div' :
  call_function program (2 + n) "set_attr" [chan_rec chan typ vdim name en div mlen; PStr "div"; PInt div'] =
  PyLite.Ok (chan_rec chan typ vdim name en div' mlen).
Proof. apply chan_set_attr_div_gen. Qed.

Corollary chan_set_attr_en_bool n chan typ vdim name en div mlen en' :
  call_function program (2 + n) "set_attr" [chan_rec chan typ vdim name en div mlen; PStr "en"; PBool en'] =
  PyLite.Ok (chan_rec chan typ vdim name en' div mlen).
Proof. apply chan_set_attr_en_gen. Qed.

(** one statement for all names *)
Theorem chan_set_attr_all n chan typ vdim name en div mlen a v :
  call_function program (2 + n) "set_attr" [chan_rec chan typ vdim name en div mlen; PStr a; v] =
  if String.eqb a "div" || String.eqb a "en"
  then PyLite.Ok (PObj "DDeviceChannelData"
                    (update a v (chan_fields chan typ vdim name (PBool en) (PInt div) mlen)))
  else Exc "TypeError".
Proof.
  destruct (String.eqb a "div") eqn:Ed; [apply String.eqb_eq in Ed; subst a; apply chan_set_attr_div|].
  destruct (String.eqb a "en") eqn:Ee; [apply String.eqb_eq in Ee; subst a; apply chan_set_attr_en|].
  apply chan_set_attr_readonly; apply String.eqb_neq; assumption.
Qed.

(** * 3. C19 on the device record *)
Lemma dev_setattr_func n chmax flags rxp a v :
  call_func program (S n) DDeviceData_DsetattrD [dev_rec chmax flags rxp; PStr a; v] [] =
  ExcS "TypeError" (self_st (dev_rec chmax flags rxp)).
Proof. pystart. pyrun. Qed.

#[local] Hint Resolve dev_setattr_func : pyspec.

Theorem dev_set_attr_readonly n chmax flags rxp a v :
  call_function program (2 + n) "set_attr" [dev_rec chmax flags rxp; PStr a; v] = Exc "TypeError".
Proof. pystart. pyrun. Qed.

(** * 4./5. The containers *)

(** a channel: the description record, the function object and the counter
    (any values) *)
Record chan_desc := mkChan
  { cd_chan : Z; cd_type : Z; cd_vdim : Z; cd_name : string; cd_en : bool; cd_div : Z; cd_mlen : Z;
    cd_func : pv; cd_cntr : pv }.

Definition cd_data (d : chan_desc) : pv :=
  chan_rec (cd_chan d) (cd_type d) (cd_vdim d) (cd_name d) (cd_en d) (cd_div d) (cd_mlen d).
Definition channel_obj (d : chan_desc) : pv :=
  PObj "DeviceChannel" [("_data", cd_data d); ("_func", cd_func d); ("_cntr", cd_cntr d)].
Definition set_en (d : chan_desc) (b : bool) : chan_desc :=
  mkChan (cd_chan d) (cd_type d) (cd_vdim d) (cd_name d) b (cd_div d) (cd_mlen d) (cd_func d) (cd_cntr d).
Definition set_div (d : chan_desc) (z : Z) : chan_desc :=
  mkChan (cd_chan d) (cd_type d) (cd_vdim d) (cd_name d) (cd_en d) z (cd_mlen d) (cd_func d) (cd_cntr d).

(** the device; [cm] is the recorded channel count (the constructor makes it
    [zlen chans]; the methods below do not depend on that) *)
Definition dev_obj' (cm flags rxp : Z) (chans : list chan_desc) : pv :=
  PObj "Device" [("_data", dev_rec cm flags rxp); ("_channels", PList (map channel_obj chans))].
Definition dev_obj (flags rxp : Z) (chans : list chan_desc) : pv :=
  dev_obj' (zlen chans) flags rxp chans.

#[local] Hint Unfold cd_data channel_obj dev_obj' : rec_model.
#[local] Arguments norm_index : simpl never.

(** the path [self._channels[i].data] *)
Definition ch_path : expr := EAttr (EIndex (EAttr (EName "self") "_channels") (EName "i")) "data".

Lemma ch_path_get cm flags rxp cs rest k d vi :
  nth_error cs k = Some d -> lookup "i" rest = Some vi -> as_int vi = Some (Z.of_nat k) ->
  path_get program (("self", dev_obj' cm flags rxp cs) :: rest) ch_path = Some (cd_data d).
Proof.
  intros Hd Hi Hv. assert (k < List.length cs)%nat by (apply nth_error_Some; congruence).
  unfold ch_path, dev_obj'. cbn [path_get lookup String.eqb Ascii.eqb Bool.eqb field_name idx_val].
  rewrite Hi, Hv, map_length, norm_index_nat, nth_error_map, Hd by assumption.
  reflexivity.
Qed.

Lemma ch_path_set cm flags rxp cs rest k d vi f :
  (forall x, cd_func (f x) = cd_func x) -> (forall x, cd_cntr (f x) = cd_cntr x) ->
  nth_error cs k = Some d -> lookup "i" rest = Some vi -> as_int vi = Some (Z.of_nat k) ->
  path_set program (("self", dev_obj' cm flags rxp cs) :: rest) ch_path (cd_data (f d)) =
  Some (("self", dev_obj' cm flags rxp (list_upd cs k f)) :: rest).
Proof.
  intros Hf Hc Hd Hi Hv. assert (k < List.length cs)%nat by (apply nth_error_Some; congruence).
  unfold ch_path, dev_obj'. cbn [path_set path_get lookup String.eqb Ascii.eqb Bool.eqb field_name idx_val].
  rewrite Hi, Hv, map_length, norm_index_nat, nth_error_map, Hd by assumption.
  cbn. rewrite <- (Hf d), <- (Hc d). fold (channel_obj (f d)).
  rewrite (list_set_map_upd channel_obj f cs k d Hd). reflexivity.
Qed.

Lemma assign_en n cm flags rxp cs rest k d vi b :
  nth_error cs k = Some d -> lookup "i" rest = Some vi -> as_int vi = Some (Z.of_nat k) ->
  assign_attr program (call_func program (S n)) (("self", dev_obj' cm flags rxp cs) :: rest) ch_path "en" (PBool b) =
  PyLite.Ok (("self", dev_obj' cm flags rxp (list_upd cs k (fun d => set_en d b))) :: rest).
Proof.
  intros Hd Hi Hv.
  eapply assign_attr_setattr.
  - eapply ch_path_get; eassumption.
  - reflexivity.
  - apply chan_setattr_en_func.
  - apply (ch_path_set cm flags rxp cs rest k d vi (fun d => set_en d b)); auto.
Qed.

Lemma assign_div n cm flags rxp cs rest k d vi z :
  nth_error cs k = Some d -> lookup "i" rest = Some vi -> as_int vi = Some (Z.of_nat k) ->
  assign_attr program (call_func program (S n)) (("self", dev_obj' cm flags rxp cs) :: rest) ch_path "div" (PInt z) =
  PyLite.Ok (("self", dev_obj' cm flags rxp (list_upd cs k (fun d => set_div d z))) :: rest).
Proof.
  intros Hd Hi Hv.
  eapply assign_attr_setattr.
  - eapply ch_path_get; eassumption.
  - reflexivity.
  - apply chan_setattr_div_func.
  - apply (ch_path_set cm flags rxp cs rest k d vi (fun d => set_div d z)); auto.
Qed.

(** what the stepping tactics do on the heads they cannot reduce: [assign_attr]
    on that path is rewritten with the two lemmas above, an index into / the
    [set()] of a mapped list with the list lemmas *)
Ltac py_stuck_hook h ::=
  lazymatch h with
  | assign_attr _ _ _ _ "en" _ =>
      let E := fresh "Easg" in
      eassert (E : h = _) by (eapply assign_en; [eassumption | reflexivity | reflexivity]);
      rewrite E; clear E
  | assign_attr _ _ _ _ "div" _ =>
      let E := fresh "Easg" in
      eassert (E : h = _) by (eapply assign_div; [eassumption | reflexivity | reflexivity]);
      rewrite E; clear E
  | norm_index (List.length (map _ _)) _ => rewrite map_length
  | dedup (map PInt _) [] => rewrite (dedup_ints _ [])
  end.

(** loop state: the channels, and the loop variables once assigned *)
Definition upd_env {B} (arg var : string) (g : B -> pv) cm flags rxp (l : list B)
           (st : list chan_desc * option (nat * B)) : env :=
  ([("self", dev_obj' cm flags rxp (fst st)); (arg, PList (map g l))]
    ++ match snd st with Some (k, y) => [("i", PInt (Z.of_nat k)); (var, g y)] | None => [] end)%list.

Definition upd_step {B} (f : chan_desc -> B -> chan_desc) (st : list chan_desc * option (nat * B)) (ky : nat * B) :=
  (list_upd (fst st) (fst ky) (fun d => f d (snd ky)), Some ky).

Lemma fst_fold_upd_step {B} (f : chan_desc -> B -> chan_desc) l : forall a o,
  fst (fold_left (upd_step f) l (a, o)) =
  fold_left (fun cs ky => list_upd cs (fst ky) (fun d => f d (snd ky))) l a.
Proof. induction l as [|y r IH]; intros; cbn [fold_left]; [reflexivity | apply IH]. Qed.

Definition upd_inv {B} (rem : list (nat * B)) (st : list chan_desc * option (nat * B)) : Prop :=
  forall k y, In (k, y) rem -> (k < List.length (fst st))%nat.

(** present the environment the loop starts in as [env_of state] *)
Ltac loop_env X :=
  lazymatch goal with |- context [for_loop _ _ _ _ _ _ ?e] => change e with X end.


(** both update loops, by the same script: [arg]/[var] are the names of the
    parameter and of the loop variable, [g] embeds the list elements, [f] is
    the model's field update *)
Ltac update_loop arg var g f cm flags rxp chans l :=
  pystart; pysteps;
  [ match goal with E : (zlen _ =? zlen _) = true |- _ => unfold zlen in E; rewrite !map_length in E end;
    replace (Nat.eqb (List.length l) (List.length chans)) with true by lia;
    rewrite enumerate_map;
    loop_env (upd_env arg var g cm flags rxp l (chans, None));
    rewrite (for_loop_fold_inv upd_inv (upd_env arg var g cm flags rxp l)
               (fun kv => PTuple [PInt (Z.of_nat (fst kv)); g (snd kv)]) (upd_step f));
    [ unfold upd_env; rewrite fst_fold_upd_step;
      let HF := fresh "HF" in
      pose proof (fold_enumerate_upd f l [] chans) as HF; cbn [List.length app] in HF;
      rewrite HF by lia; pyrun
    | let cs := fresh "cs" in let o := fresh "o" in let k := fresh "k" in let b := fresh "b" in
      let r := fresh "r" in let Hinv := fresh "Hinv" in let Hk := fresh "Hk" in let Hd := fresh "Hd" in
      let d := fresh "d" in
      intros [cs o] [k b] r Hinv;
      assert (Hk : (k < List.length cs)%nat) by (apply (Hinv k b); left; reflexivity);
      destruct (nth_error cs k) as [d|] eqn:Hd; [|apply nth_error_None in Hd; lia];
      split;
      [ unfold upd_env, upd_step; destruct o as [[? ?]|]; cbn [fst snd app]; pyrun
      | let k' := fresh "k" in let y' := fresh "y" in let Hin := fresh "Hin" in
        intros k' y' Hin; unfold upd_step; cbn [fst snd]; rewrite list_upd_length;
        apply (Hinv k' y'); right; exact Hin ]
    | let k := fresh "k" in let y := fresh "y" in let Hin := fresh "Hin" in
      intros k y Hin; cbn [fst]; apply in_enumerate_lt in Hin; lia ]
  | match goal with E : (zlen _ =? zlen _) = false |- _ => unfold zlen in E; rewrite !map_length in E end;
    replace (Nat.eqb (List.length l) (List.length chans)) with false by lia; reflexivity ].

Lemma en_channels_update_func n cm flags rxp chans l :
  call_func program (S (S n)) Device_en_channels_update [dev_obj' cm flags rxp chans; PList (map PBool l)] [] =
  if Nat.eqb (List.length l) (List.length chans)
  then PyLite.Ok (PNone, Some (dev_obj' cm flags rxp (zipw set_en chans l)))
  else ExcS "AssertionError" (self_st (dev_obj' cm flags rxp chans)).
Proof. update_loop "en" "chen" PBool set_en cm flags rxp chans l. Qed.

Lemma div_channels_update_func n cm flags rxp chans l :
  call_func program (S (S n)) Device_div_channels_update [dev_obj' cm flags rxp chans; PList (map PInt l)] [] =
  if Nat.eqb (List.length l) (List.length chans)
  then PyLite.Ok (PNone, Some (dev_obj' cm flags rxp (zipw set_div chans l)))
  else ExcS "AssertionError" (self_st (dev_obj' cm flags rxp chans)).
Proof. update_loop "div" "chdiv" PInt set_div cm flags rxp chans l. Qed.

#[local] Hint Resolve en_channels_update_func div_channels_update_func : pyspec.

Lemma dev_obj_zipw {B} flags rxp (f : chan_desc -> B -> chan_desc) chans l :
  dev_obj' (zlen chans) flags rxp (zipw f chans l) = dev_obj flags rxp (zipw f chans l).
Proof. unfold dev_obj, zlen. rewrite zipw_length. reflexivity. Qed.

(** ** 4. en_channels_update / div_channels_update *)
Theorem en_channels_update_spec n flags rxp chans l :
  List.length l = List.length chans ->
  call_method program (2 + n) (dev_obj flags rxp chans) "en_channels_update" [PList (map PBool l)] =
  PyLite.Ok (PNone, dev_obj flags rxp (zipw set_en chans l)).
Proof.
  intros H%Nat.eqb_eq. rewrite <- dev_obj_zipw. unfold dev_obj. pystart. pyrun.
Qed.

Theorem en_channels_update_badlen n flags rxp chans l :
  List.length l <> List.length chans ->
  call_method program (2 + n) (dev_obj flags rxp chans) "en_channels_update" [PList (map PBool l)] =
  Exc "AssertionError".
Proof.
  intros H%Nat.eqb_neq. unfold dev_obj. pystart. pyrun.
Qed.

Theorem div_channels_update_spec n flags rxp chans l :
  List.length l = List.length chans ->
  call_method program (2 + n) (dev_obj flags rxp chans) "div_channels_update" [PList (map PInt l)] =
  PyLite.Ok (PNone, dev_obj flags rxp (zipw set_div chans l)).
Proof.
  intros H%Nat.eqb_eq. rewrite <- dev_obj_zipw. unfold dev_obj. pystart. pyrun.
Qed.

Theorem div_channels_update_badlen n flags rxp chans l :
  List.length l <> List.length chans ->
  call_method program (2 + n) (dev_obj flags rxp chans) "div_channels_update" [PList (map PInt l)] =
  Exc "AssertionError".
Proof.
  intros H%Nat.eqb_neq. unfold dev_obj. pystart. pyrun.
Qed.

(** what [zipw set_en] is: the [en] fields are the new list, everything else
    is unchanged *)
Lemma zipw_set_en_en chans : forall l, List.length l = List.length chans -> map cd_en (zipw set_en chans l) = l.
Proof. induction chans as [|d r IH]; intros [|b s] H; cbn in *; try discriminate; [reflexivity|]. f_equal. apply IH. lia. Qed.
Lemma zipw_set_en_rest chans : forall l b0,
  map (fun d => set_en d b0) (zipw set_en chans l) = map (fun d => set_en d b0) chans.
Proof. induction chans as [|d r IH]; intros [|b s] b0; cbn; try reflexivity. f_equal. apply IH. Qed.
Lemma zipw_set_div_div chans : forall l, List.length l = List.length chans -> map cd_div (zipw set_div chans l) = l.
Proof. induction chans as [|d r IH]; intros [|b s] H; cbn in *; try discriminate; [reflexivity|]. f_equal. apply IH. lia. Qed.
Lemma zipw_set_div_rest chans : forall l z0,
  map (fun d => set_div d z0) (zipw set_div chans l) = map (fun d => set_div d z0) chans.
Proof. induction chans as [|d r IH]; intros [|b s] z0; cbn; try reflexivity. f_equal. apply IH. Qed.

(** ** 5. reading *)
Lemma channel_data_func n d :
  call_func program (S n) DeviceChannel_data [channel_obj d] [] = PyLite.Ok (cd_data d, Some (channel_obj d)).
Proof. pystart. pyrun. Qed.
#[local] Hint Resolve channel_data_func : pyspec.

Lemma fold_append {A} (h : A -> pv) l : forall a0, fold_left (fun a d => (a ++ [h d])%list) l a0 = (a0 ++ map h l)%list.
Proof. induction l as [|x r IH]; intros a0; cbn [fold_left map]; [rewrite app_nil_r; reflexivity|]. rewrite IH, <- app_assoc. reflexivity. Qed.

Definition rd_env cm flags rxp chans (st : list pv * option chan_desc) : env :=
  ([("self", dev_obj' cm flags rxp chans); ("ret", PList (fst st))]
     ++ match snd st with Some d => [("chan", channel_obj d)] | None => [] end)%list.
Definition rd_step (h : chan_desc -> pv) (st : list pv * option chan_desc) (d : chan_desc) :=
  ((fst st ++ [h d])%list, Some d).
Lemma fst_fold_rd_step h l : forall a o, fst (fold_left (rd_step h) l (a, o)) = fold_left (fun a d => (a ++ [h d])%list) l a.
Proof. induction l as [|y r IH]; intros; cbn [fold_left]; [reflexivity | apply IH]. Qed.

Ltac read_loop h cm flags rxp chans :=
  pystart; pysteps;
  loop_env (rd_env cm flags rxp chans ([], None));
  rewrite (for_loop_fold (rd_env cm flags rxp chans) channel_obj (rd_step h));
  [ unfold rd_env; rewrite fst_fold_rd_step, fold_append; pyrun
  | intros [a [d0|]] d; unfold rd_env, rd_step; cbn [fst snd app]; pyrun ].

Lemma channels_en_func n cm flags rxp chans :
  call_func program (S (S n)) Device_channels_en [dev_obj' cm flags rxp chans] [] =
  PyLite.Ok (PList (map (fun d => PBool (cd_en d)) chans), Some (dev_obj' cm flags rxp chans)).
Proof. read_loop (fun d => PBool (cd_en d)) cm flags rxp chans. Qed.

Lemma channels_div_func n cm flags rxp chans :
  call_func program (S (S n)) Device_channels_div [dev_obj' cm flags rxp chans] [] =
  PyLite.Ok (PList (map (fun d => PInt (cd_div d)) chans), Some (dev_obj' cm flags rxp chans)).
Proof. read_loop (fun d => PInt (cd_div d)) cm flags rxp chans. Qed.

#[local] Hint Resolve channels_en_func channels_div_func : pyspec.

Theorem channels_en_spec n flags rxp chans :
  get_attr program (call_func program (2 + n)) (dev_obj flags rxp chans) "channels_en" =
  PyLite.Ok (PList (map PBool (map cd_en chans))).
Proof. unfold dev_obj. rewrite map_map. pystart. pyrun. Qed.

Theorem channels_div_spec n flags rxp chans :
  get_attr program (call_func program (2 + n)) (dev_obj flags rxp chans) "channels_div" =
  PyLite.Ok (PList (map PInt (map cd_div chans))).
Proof. unfold dev_obj. rewrite map_map. pystart. pyrun. Qed.

(** what was written is what is read back *)
Corollary en_update_then_read n flags rxp chans l :
  List.length l = List.length chans ->
  get_attr program (call_func program (2 + n)) (dev_obj flags rxp (zipw set_en chans l)) "channels_en" =
  PyLite.Ok (PList (map PBool l)).
Proof. intros H. rewrite channels_en_spec, zipw_set_en_en by exact H. reflexivity. Qed.

Corollary div_update_then_read n flags rxp chans l :
  List.length l = List.length chans ->
  get_attr program (call_func program (2 + n)) (dev_obj flags rxp (zipw set_div chans l)) "channels_div" =
  PyLite.Ok (PList (map PInt l)).
Proof. intros H. rewrite channels_div_spec, zipw_set_div_div by exact H. reflexivity. Qed.

(** channel_get: the index follows Python's rules, negative ones included *)

Lemma channel_get_func n cm flags rxp chans i :
  call_func program (S n) Device_channel_get [dev_obj' cm flags rxp chans; PInt i] [] =
  PyLite.Ok (match norm_index (List.length chans) i with
             | Some k => nth k (map channel_obj chans) PNone
             | None => PNone
             end, Some (dev_obj' cm flags rxp chans)).
Proof. pystart. pyrun. Qed.

#[local] Hint Resolve channel_get_func : pyspec.

Theorem channel_get_spec n flags rxp chans i :
  call_method program (1 + n) (dev_obj flags rxp chans) "channel_get" [PInt i] =
  PyLite.Ok (match norm_index (List.length chans) i with
             | Some k => nth k (map channel_obj chans) PNone
             | None => PNone
             end, dev_obj flags rxp chans).
Proof. unfold dev_obj. pystart. pyrun. Qed.

Lemma nth_map_channel k chans d : nth_error chans k = Some d -> nth k (map channel_obj chans) PNone = channel_obj d.
Proof. intros H. apply nth_error_nth. rewrite nth_error_map, H. reflexivity. Qed.

(** in range: that channel *)
Corollary channel_get_in_range n flags rxp chans i d :
  0 <= i -> nth_error chans (Z.to_nat i) = Some d ->
  call_method program (1 + n) (dev_obj flags rxp chans) "channel_get" [PInt i] =
  PyLite.Ok (channel_obj d, dev_obj flags rxp chans).
Proof.
  intros Hi Hd. rewrite channel_get_spec.
  assert (Z.to_nat i < List.length chans)%nat by (apply nth_error_Some; congruence).
  rewrite norm_index_pos by lia. rewrite (nth_map_channel _ _ _ Hd). reflexivity.
Qed.

(** negative, down to [- len]: counted from the end; [channel_get(-1)] is the LAST channel *)
Corollary channel_get_negative n flags rxp chans i d :
  i < 0 -> 0 <= i + zlen chans -> nth_error chans (Z.to_nat (i + zlen chans)) = Some d ->
  call_method program (1 + n) (dev_obj flags rxp chans) "channel_get" [PInt i] =
  PyLite.Ok (channel_obj d, dev_obj flags rxp chans).
Proof.
  unfold zlen. intros Hi Hl Hd. rewrite channel_get_spec.
  rewrite norm_index_neg by lia. rewrite (nth_map_channel _ _ _ Hd). reflexivity.
Qed.

Corollary channel_get_last n flags rxp chans d :
  call_method program (1 + n) (dev_obj flags rxp (chans ++ [d])) "channel_get" [PInt (-1)] =
  PyLite.Ok (channel_obj d, dev_obj flags rxp (chans ++ [d])).
Proof.
  assert (E : zlen (chans ++ [d]) = Z.of_nat (List.length chans) + 1)
    by (unfold zlen; rewrite app_length; cbn [List.length]; lia).
  apply channel_get_negative; rewrite ?E; try lia.
  replace (Z.to_nat _) with (List.length chans) by lia.
  rewrite nth_error_app2, Nat.sub_diag by lia. reflexivity.
Qed.

(** outside [-len, len): None (the IndexError is caught) *)
Corollary channel_get_out n flags rxp chans i :
  i < - zlen chans \/ zlen chans <= i ->
  call_method program (1 + n) (dev_obj flags rxp chans) "channel_get" [PInt i] =
  PyLite.Ok (PNone, dev_obj flags rxp chans).
Proof. unfold zlen. intros H. rewrite channel_get_spec, norm_index_out by exact H. reflexivity. Qed.

(** * The constructors of the containers *)
(** DeviceChannel(chan, _type, vdim, name, en, div, mlen, func): [name] is kept
    (the [if not name] branch replaces "" by ""), the counter starts at 0 *)
Theorem channel_construct n chan typ vdim name en div mlen f :
  construct program (4 + n) "DeviceChannel"
    [PInt chan; PInt typ; PInt vdim; PStr name; PBool en; PInt div; PInt mlen; f] =
  PyLite.Ok (channel_obj (mkChan chan typ vdim name en div mlen f (PInt 0))).
Proof. pystart. pyrun. all: apply String.eqb_eq in E; subst; reflexivity. Qed.

(** ** Device(chmax, flags, rxpadding, channels) *)

(** reading loop state, generalised: [pre] is the part of the environment in
    front of the accumulator *)
Definition rd_env' (pre : env) (acc : string) (st : list pv * option chan_desc) : env :=
  (pre ++ [(acc, PList (fst st))]
     ++ match snd st with Some d => [("chan", channel_obj d)] | None => [] end)%list.


Lemma device_init_func n chmax flags rxp chans :
  call_func program (S (S (S (S n)))) Device_DinitD
    [PObj "Device" []; PInt chmax; PInt flags; PInt rxp; PList (map channel_obj chans)] [] =
  if nodupb (map cd_chan chans) && (zlen chans =? chmax)
  then PyLite.Ok (PNone, Some (dev_obj' chmax flags rxp chans))
  else ExcS "AssertionError" (self_st (PObj "Device" [])).
Proof.
  pystart. pysteps.
  loop_env (rd_env' [("self", PObj "Device" []); ("chmax", PInt chmax); ("flags", PInt flags);
                     ("rxpadding", PInt rxp); ("channels", PList (map channel_obj chans))] "chanids" ([], None)).
  rewrite (for_loop_fold (rd_env' _ "chanids") channel_obj (rd_step (fun d => PInt (cd_chan d)))).
  2:{ intros [a [d0|]] d; unfold rd_env', rd_step; cbn [fst snd app]; pyrun. }
  unfold rd_env'. rewrite fst_fold_rd_step, fold_append. cbn [app fst snd].
  rewrite <- (map_map cd_chan PInt). unfold nodupb.
  destruct (snd (fold_left _ chans _)) as [dl|].
  all: pysteps.
  all: unfold zlen in *; rewrite ?map_length in *;
    match goal with |- _ = (if ?c then _ else _) =>
      first [replace c with true by lia | replace c with false by lia] end; reflexivity.
Qed.

#[local] Hint Resolve device_init_func : pyspec.

Theorem device_construct n chmax flags rxp chans :
  construct program (4 + n) "Device" [PInt chmax; PInt flags; PInt rxp; PList (map channel_obj chans)] =
  if nodupb (map cd_chan chans) && (zlen chans =? chmax)
  then PyLite.Ok (dev_obj' chmax flags rxp chans)
  else Exc "AssertionError".
Proof. pystart. pyrun. Qed.

(** distinct channel ids and the right count: the device *)
Corollary device_construct_ok n flags rxp chans :
  NoDup (map cd_chan chans) ->
  construct program (4 + n) "Device" [PInt (zlen chans); PInt flags; PInt rxp; PList (map channel_obj chans)] =
  PyLite.Ok (dev_obj flags rxp chans).
Proof.
  intros H%nodupb_NoDup. rewrite device_construct, H, Z.eqb_refl. reflexivity.
Qed.

Corollary device_construct_dup n chmax flags rxp chans :
  ~ NoDup (map cd_chan chans) ->
  construct program (4 + n) "Device" [PInt chmax; PInt flags; PInt rxp; PList (map channel_obj chans)] =
  Exc "AssertionError".
Proof.
  intros H. rewrite device_construct. destruct (nodupb _) eqn:E; [|reflexivity].
  apply nodupb_NoDup in E. contradiction.
Qed.

Corollary device_construct_count n chmax flags rxp chans :
  chmax <> zlen chans ->
  construct program (4 + n) "Device" [PInt chmax; PInt flags; PInt rxp; PList (map channel_obj chans)] =
  Exc "AssertionError".
Proof.
  intros H. rewrite device_construct. replace (zlen chans =? chmax) with false by lia.
  rewrite andb_false_r. reflexivity.
Qed.

(** the [data] properties *)
Theorem channel_data_spec n d :
  get_attr program (call_func program (1 + n)) (channel_obj d) "data" = PyLite.Ok (cd_data d).
Proof. pystart. pyrun. Qed.

Theorem device_data_spec n flags rxp chans :
  get_attr program (call_func program (1 + n)) (dev_obj flags rxp chans) "data" =
  PyLite.Ok (dev_rec (zlen chans) flags rxp).
Proof. pystart. pyrun. Qed.


(** the hooks are global Ltac state: restore the defaults for whoever loads this file *)
Ltac py_stuck_hook h ::= fail.
Ltac py_unfold_hook ::= idtac.

(** * Audit *)
Print Assumptions chan_construct.
Print Assumptions chan_construct_defaults.
Print Assumptions dev_construct.
Print Assumptions chan_set_attr_readonly.
Print Assumptions chan_set_attr_div.
Print Assumptions chan_set_attr_en.
Print Assumptions chan_set_attr_div_int.
Print Assumptions chan_set_attr_en_bool.
Print Assumptions chan_set_attr_all.
Print Assumptions chan_set_attr_readonly_gen.
Print Assumptions dev_set_attr_readonly.
Print Assumptions en_channels_update_spec.
Print Assumptions en_channels_update_badlen.
Print Assumptions div_channels_update_spec.
Print Assumptions div_channels_update_badlen.
Print Assumptions channels_en_spec.
Print Assumptions channels_div_spec.
Print Assumptions en_update_then_read.
Print Assumptions div_update_then_read.
Print Assumptions channel_get_spec.
Print Assumptions channel_get_in_range.
Print Assumptions channel_get_negative.
Print Assumptions channel_get_last.
Print Assumptions channel_get_out.
Print Assumptions channel_construct.
Print Assumptions device_construct.
Print Assumptions device_construct_ok.
Print Assumptions device_construct_dup.
Print Assumptions device_construct_count.
Print Assumptions channel_data_spec.
Print Assumptions device_data_spec.

(** Stream decode: exact consumption, one sample per encoded sample (C04). *)
From Coq Require Import Lia ZifyBool ZifyNat ZifyN String DecimalString.
From NX Require Import Bytes PyStruct Request Utf8 StreamTypes Rn53 Stream Bytes_proofs PyStruct_proofs
  Utf8_proofs.
From NX Require Gen_types.
Ltac Zify.zify_post_hook ::= Z.to_euclidean_division_equations.
Open Scope string_scope.
Open Scope list_scope.
Open Scope Z_scope.

Lemma pyslice_prefix {A} (a b : list A) n : n = zlen a -> pyslice (a ++ b) 0 n = a.
Proof.
  intros ->. unfold pyslice, zlen.
  rewrite !clip_index_in by (rewrite ?app_length; lia).
  rewrite Nat2Z.id. change (Z.to_nat 0) with 0%nat. cbn [skipn]. rewrite Nat.sub_0_r.
  rewrite firstn_app, Nat.sub_diag, firstn_all. cbn [firstn]. apply app_nil_r.
Qed.

Lemma slice_from_prefix {A} (a b : list A) n : n = zlen a -> slice_from (a ++ b) (Z.max 0 n) = b.
Proof.
  intros ->. rewrite Z.max_r by apply zlen_nonneg. apply slice_from_app. reflexivity.
Qed.

(** one encoded sample at the head of the buffer is decoded and exactly its
    bytes are consumed.  Parametric in the row: covers the standard table and
    user-defined formats alike. *)
Lemma decode_one_ok lay user chb ch rw usr f fm db mb rest vals sv mvals :
  nth_chan lay (N.to_nat chb) = Some ch ->
  dsfmt_get (l_type ch) user = Ok (rw, usr) ->
  (usr = true -> exists fu, sfmt_parse (Gen_types.stream_le_prefix ^^ r_fmt rw) = Ok fu /\
                            Z.of_nat (calcsize fu) = l_vdim ch) ->
  sfmt_parse (Gen_types.stream_le_prefix
              ^^ (if negb (l_vdim ch =? 0) && negb usr then str_of_Z (l_vdim ch) else "")
              ^^ r_fmt rw) = Ok f ->
  zlen db = r_slen rw * l_vdim ch ->
  unpack f db = Some vals ->
  stream_data_get rw vals = Ok sv ->
  sfmt_parse (Gen_types.meta_le_prefix ^^ msfmt_get (l_mlen ch)) = Ok fm ->
  zlen mb = l_mlen ch ->
  unpack fm mb = Some mvals ->
  decode_one lay user (chb :: db ++ mb ++ rest) =
    Ok (mkSample (l_chan ch) (r_kind rw) (l_vdim ch) (l_mlen ch) sv (map sval_raw mvals), rest).
Proof.
  intros Hch Hds Husr Hf Hdb Hun Hsd Hfm Hmb Hum.
  unfold decode_one. rewrite Hch, Hds. cbn [bind].
  assert (Hu : (if usr
                then bind (sfmt_parse (Gen_types.stream_le_prefix ^^ r_fmt rw))
                       (fun f0 => if Z.of_nat (calcsize f0) =? l_vdim ch then Ok tt
                                  else Raise "AssertionError")
                else Ok tt) = Ok tt).
  { destruct usr; [|reflexivity]. destruct (Husr eq_refl) as (fu & E1 & E2).
    rewrite E1. cbn [bind]. now rewrite E2, Z.eqb_refl. }
  rewrite Hu. cbn [bind]. rewrite Hf. cbn [bind].
  rewrite pyslice_prefix by (symmetry; exact Hdb). rewrite Hun.
  rewrite slice_from_prefix by (symmetry; exact Hdb).
  rewrite Hsd. cbn [bind]. rewrite Hfm. cbn [bind].
  rewrite pyslice_prefix by (symmetry; exact Hmb). rewrite Hum.
  rewrite slice_from_prefix by (symmetry; exact Hmb). reflexivity.
Qed.

(** a specification-level encoded sample: channel byte, data bytes, metadata
    bytes, together with what they mean *)
Record wsample := mkW
  { w_chb : N; w_data : bytes; w_meta : bytes; w_out : sample }.

Definition w_bytes (w : wsample) : bytes := w_chb w :: w_data w ++ w_meta w.

(** [w] is a well-formed encoding for the layout: decoding its bytes in front
    of any continuation yields its meaning and the continuation *)
Definition w_ok (lay : layout) (user : utable) (w : wsample) : Prop :=
  forall rest, decode_one lay user (w_bytes w ++ rest) = Ok (w_out w, rest).

Lemma decode_samples_concat lay user ws :
  Forall (w_ok lay user) ws ->
  forall fuel, (List.length (List.concat (map w_bytes ws)) <= fuel)%nat ->
  decode_samples fuel lay user (List.concat (map w_bytes ws)) = Ok (map w_out ws).
Proof.
  induction 1 as [|w ws Hw Hws IH]; intros fuel Hfuel.
  - destruct fuel; reflexivity.
  - cbn [map List.concat] in *.
    assert (L : (1 <= List.length (w_bytes w))%nat) by (unfold w_bytes; cbn [List.length]; lia).
    rewrite List.app_length in Hfuel.
    destruct fuel as [|fuel]; [lia|].
    cbn [decode_samples].
    destruct (w_bytes w ++ List.concat (map w_bytes ws)) as [|x t] eqn:Hne.
    { apply (f_equal (@List.length N)) in Hne. rewrite List.app_length in Hne. cbn [List.length] in Hne. lia. }
    rewrite <- Hne.
    rewrite (Hw (List.concat (map w_bytes ws))). cbn [bind].
    rewrite IH; [reflexivity|lia].
Qed.

(** the whole payload: flags byte, then the samples, consumed exactly *)
Theorem stream_decode_payload lay user flags ws :
  Forall (w_ok lay user) ws ->
  stream_decode lay user (flags :: List.concat (map w_bytes ws)) =
    Ok (Some (Z.of_N flags, map w_out ws)).
Proof.
  intros H. unfold stream_decode. rewrite decode_samples_concat by (try exact H; lia). reflexivity.
Qed.

(** an empty payload (not even a flags byte) is "no data" *)
Lemma stream_decode_empty lay user : stream_decode lay user [] = Ok None.
Proof. reflexivity. Qed.

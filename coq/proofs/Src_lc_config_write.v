(** The connect / disconnect life cycle, part 5: the write requests
    (proofs/Src_config_write.v) RE-PROVED ON THE COMPLETE CommHandler object:
    [_nxslib_channels_enable], [_nxslib_channels_div], [channels_write] compute
    the source-level model [src_write_enable] / [src_write_div] / [src_write]
    of that file.  Same statements, same scripts, with
      comm c dev w items  :=  gcomm started thrd ev w pad dropped dev items sitems [("_channels", chans_obj c)]. *)
From Coq Require Import String Ascii List ZArith NArith Bool Lia ZifyBool.
From NX Require Import Bytes PyStruct Crc PyLite PyLite_tactics PyLite_tactics_ext
  Src_dev Src_iparse Src_parse Src_comm Src_prelude Src_all
  Src_serialframe_proofs Src_parse_req_lemmas Src_records_proofs Src_config_base Src_config_req Src_config_write
  Src_lc_base Src_lc_config.
From NX Require Src_parse_req_proofs Src_info_proofs.
From NX Require Frame Request Info Info_proofs Config Config_proofs Gen_frame Gen_req.
Import ListNotations.
Open Scope string_scope.
Open Scope Z_scope.

#[local] Hint Unfold pa RQ.pa IN.pa sf chans_obj gintf queue_obj gcomm
  dev_obj dev_obj' IN.ack_obj frame_obj perr_obj item_pv emb_ack emb_req : cfg_model.
Ltac py_unfold_hook ::= autounfold with cfg_model.
#[local] Arguments norm_index : simpl never.
#[local] Arguments enum_id : simpl never.
#[local] Arguments dev_rec : simpl never.
#[local] Arguments div_sup : simpl never.
#[local] Arguments ack_sup : simpl never.
#[local] Arguments set_at : simpl never.
#[local] Arguments is_none !x /.
#[local] Arguments ack_step : simpl never.
#[local] Arguments Request.frame_enable : simpl never.
#[local] Arguments Request.frame_div : simpl never.
#[local] Arguments py_index : simpl never.

Ltac py_stuck_hook h ::=
  lazymatch h with
  | norm_index (List.length (map _ _)) _ => rewrite map_length
  | get_attr _ _ (dev_rec _ _ _) "chmax" => rewrite dev_rec_chmax
  | get_attr _ _ (dev_rec _ _ _) "div_supported" => rewrite dev_rec_div
  | get_attr _ _ (dev_rec _ _ _) "ack_supported" => rewrite dev_rec_ack
  | py_index (PList (map ?g ?l)) (PInt (Z.of_nat ?k)) => rewrite (py_index_map_ofnat g l k)
  end.

#[local] Hint Resolve Src_lc_config.dev_func device_data_func Src_lc_config.dev_func_r
  Src_lc_config.channel_enable_single_func Src_lc_config.channel_enable_vec_func
  Src_lc_config.channel_div_single_func Src_lc_config.channel_div_vec_func
  Src_lc_config.channel_enable_single_func_r Src_lc_config.channel_enable_vec_func_r
  Src_lc_config.channel_div_single_func_r Src_lc_config.channel_div_vec_func_r
  en_channels_update_func div_channels_update_func : pyspec.

Section Config.
Variables (started thrd : pv) (ev : list string) (pad dropped : Z) (sitems : list pv).
Local Notation comm c dev w items :=
  (gcomm started thrd ev w pad dropped dev items sitems [("_channels", chans_obj c)]).

Definition emb_gwres (cm flags rxp : Z) (r : wres) : PyLite.res (pv * option pv) :=
  match r with
  | WOk c chans w its => PyLite.Ok (PNone, Some (comm c (dev_obj' cm flags rxp chans) w (map item_pv its)))
  | WExc e c chans w its => ExcS e (self_st (comm c (dev_obj' cm flags rxp chans) w (map item_pv its)))
  | WUnsup s => Unsupported s
  end.
#[local] Hint Unfold emb_gwres write_step src_write_enable src_write_div src_write : cfg_model.

Ltac write_request f g eqb d new now c cm flags rxp chans w its request srcw :=
  let nm := eval cbv in (scan_names_of f) in
  let Hlen := fresh "Hlen" in
  intros Hlen; pystart; pysteps; rewrite enumerate_map;
  loop_env (scan_env nm g (comm c (dev_obj' cm flags rxp chans) w (map item_pv its)) ((0, O), @None (nat * _)));
  rewrite (for_loop_fold_inv (scan_inv (List.length now))
             (scan_env nm g (comm c (dev_obj' cm flags rxp chans) w (map item_pv its)))
             (fun kv => PTuple [PInt (Z.of_nat (fst kv)); g (snd kv)])
             (scan_step eqb d new now));
  [ let HF := fresh "HF" in
    pose proof (scan_fold eqb d now new [] [] 0 0 None eq_refl Hlen) as HF;
    cbn [app List.length] in HF; change (Z.of_nat 0) with 0 in HF;
    unfold emb_gwres, srcw, write_step, request;
    let jz := fresh "jz" in let kk := fresh "kk" in let o := fresh "o" in
    let j' := fresh "j'" in let k' := fresh "k'" in let Hs := fresh "Hs" in let Ej := fresh "Ej" in
    destruct (fold_left _ _ _) as [[jz kk] o]; cbn [fst] in HF;
    destruct (Config.diff_scan _ _ _ _ _ _) as [j' k'] eqn:Hs; cbn [fst snd] in HF; inversion HF; subst jz kk; clear HF;
    scan_env_lit;
    destruct (Nat.eqb j' 1) eqn:Ej;
    [ let HjZ := fresh "HjZ" in let Hk := fresh "Hk" in let Hk' := fresh "Hk'" in let Hn := fresh "Hn" in
      assert (HjZ : (Z.of_nat j' =? 1) = true) by lia;
      pose proof (diff_scan_k eqb new now 0 0 0 Hlen) as Hk;
      rewrite Hs in Hk; cbn [fst snd] in Hk;
      assert (Hk' : (k' < List.length new)%nat) by lia;
      pose proof (nth_error_nth_lt new k' d Hk') as Hn;
      destruct o as [[? ?]|]; cbn [app andb]; pyrun; cfg_fin
    | let HjZ := fresh "HjZ" in
      assert (HjZ : (Z.of_nat j' =? 1) = false) by lia;
      destruct o as [[? ?]|]; cbn [app andb]; pyrun; cfg_fin ]
  | let j := fresh "j" in let k := fresh "k" in let o := fresh "o" in let i := fresh "i" in let y := fresh "y" in
    let r := fresh "r" in let Hinv := fresh "Hinv" in let Hi := fresh "Hi" in let Hi' := fresh "Hi'" in
    let Hw := fresh "Hw" in let Hn := fresh "Hn" in let a := fresh "a" in let b := fresh "b" in
    intros [[j k] o] [i y] r Hinv;
    assert (Hi : (i < List.length now)%nat) by (apply (Hinv i y); left; reflexivity);
    split; [|let i' := fresh in let y' := fresh in let Hin := fresh in
             intros i' y' Hin; apply (Hinv i' y'); right; exact Hin];
    pose proof (nth_error_nth_lt now i d Hi) as Hw;
    assert (Hi' : (i < List.length new)%nat) by lia;
    pose proof (nth_error_nth_lt new i d Hi') as Hn;
    unfold scan_step; scan_env_lit;
    set (a := nth i new d) in *; set (b := nth i now d) in *;
    clearbody a b; split_bools a b; destruct o as [[? ?]|]; cbn [app]; pyrun
  | let i := fresh "i" in let y := fresh "y" in let Hin := fresh "Hin" in
    intros i y Hin; apply in_enumerate_lt in Hin; lia ].

Lemma nxslib_channels_enable_func n c cm flags rxp chans w its :
  List.length (Config.en_new c) = List.length (Config.en_now c) ->
  call_func program (S (S (S (S (S n))))) CommHandler__nxslib_channels_enable
    [comm c (dev_obj' cm flags rxp chans) w (map item_pv its)] [] =
  emb_gwres cm flags rxp (src_write_enable cm flags c chans w its).
Proof. write_request CommHandler__nxslib_channels_enable PBool Bool.eqb false (Config.en_new c) (Config.en_now c) c cm flags rxp chans w its en_request src_write_enable. Qed.

Lemma nxslib_channels_div_func n c cm flags rxp chans w its :
  List.length (Config.div_new c) = List.length (Config.div_now c) ->
  call_func program (S (S (S (S (S n))))) CommHandler__nxslib_channels_div
    [comm c (dev_obj' cm flags rxp chans) w (map item_pv its)] [] =
  emb_gwres cm flags rxp (src_write_div cm flags c chans w its).
Proof. write_request CommHandler__nxslib_channels_div PInt Z.eqb 0 (Config.div_new c) (Config.div_now c) c cm flags rxp chans w its div_request src_write_div. Qed.

Definition nxslib_channels_enable_func_r n a b c d e f := nxslib_channels_enable_func n (Config.mkCli a b c d e f).
Definition nxslib_channels_div_func_r n a b c d e f := nxslib_channels_div_func n (Config.mkCli a b c d e f).
#[local] Hint Resolve nxslib_channels_enable_func_r nxslib_channels_div_func_r : pyspec.

(** * 4. channels_write *)
Lemma channels_write_func n c cm flags rxp chans w its :
  List.length (Config.en_new c) = List.length (Config.en_now c) ->
  List.length (Config.div_new c) = List.length (Config.div_now c) ->
  call_func program (S (S (S (S (S (S n)))))) CommHandler_channels_write
    [comm c (dev_obj' cm flags rxp chans) w (map item_pv its)] [] =
  emb_gwres cm flags rxp (src_write cm flags c chans w its).
Proof. intros He Hd. pystart. pyrun. Qed.

End Config.

(** the hooks are global Ltac state: restore the defaults for whoever loads this file *)
Ltac py_stuck_hook h ::= fail.
Ltac py_unfold_hook ::= idtac.

(** * Audit *)
Print Assumptions nxslib_channels_enable_func.
Print Assumptions nxslib_channels_div_func.
Print Assumptions channels_write_func.

(** Buffered channel configuration, part 2 of 4: _ch_divider_default,
    channels_default_cfg, the index-set lemmas ([set_many_at] against
    [Config.set_many] / [map]), the scripted queue, _get_frame, _get_ack
    ([ack_step]: a total function of "ACK supported" and the typed script),
    one request ([_channel_enable], [_channel_div], [stream_start/stop]:
    [emb_req]), and the scan loop of the write requests as [Config.diff_scan]
    ([scan_fold], [diff_scan_k]). *)
From Coq Require Import String Ascii List ZArith NArith Bool Lia ZifyBool.
From NX Require Import Bytes PyStruct Crc PyLite PyLite_tactics PyLite_tactics_ext
  Src_dev Src_iparse Src_parse Src_comm Src_prelude Src_all
  Src_serialframe_proofs Src_parse_req_lemmas Src_records_proofs Src_config_base.
From NX Require Src_parse_req_proofs Src_info_proofs.
From NX Require Frame Request Info Info_proofs Config Config_proofs Gen_frame Gen_req.
Import ListNotations.
Open Scope string_scope.
Open Scope Z_scope.

#[local] Hint Unfold pa RQ.pa IN.pa sf chans_obj intf_obj queue_obj comm
  dev_obj dev_obj' IN.ack_obj frame_obj perr_obj : cfg_model.
Ltac py_unfold_hook ::= autounfold with cfg_model.
#[local] Arguments norm_index : simpl never.
#[local] Arguments enum_id : simpl never.
#[local] Arguments dev_rec : simpl never.
#[local] Arguments div_sup : simpl never.
#[local] Arguments ack_sup : simpl never.
#[local] Arguments set_at : simpl never.
#[local] Hint Resolve dev_func device_data_func ch_enable_int_func ch_disable_int_func : pyspec.
Ltac py_stuck_hook h ::=
  lazymatch h with
  | norm_index (List.length (map _ _)) _ => rewrite map_length
  | get_attr _ _ (dev_rec _ _ _) "chmax" => rewrite dev_rec_chmax
  | get_attr _ _ (dev_rec _ _ _) "div_supported" => rewrite dev_rec_div
  | get_attr _ _ (dev_rec _ _ _) "ack_supported" => rewrite dev_rec_ack
  end.

(** the callee specifications once more, for a receiver whose client record is
    given by its fields: after an update the receiver is no longer of the form
    [comm c ..] for a variable [c], and unification cannot invert projections *)
Definition dev_func_r n a b c d e f := dev_func n (Config.mkCli a b c d e f).
Definition ch_enable_int_func_r n a b c d e f := ch_enable_int_func n (Config.mkCli a b c d e f).
Definition ch_disable_int_func_r n a b c d e f := ch_disable_int_func n (Config.mkCli a b c d e f).
#[local] Hint Resolve dev_func_r ch_enable_int_func_r ch_disable_int_func_r : pyspec.

(** ** _ch_divider_default: [for i, _ in enumerate(div_new): div_new[i] = 0] *)
(** [vs]: the receiver's name, [vi]/[vy]: the two loop variables (read off the AST, see [dd_names]) *)
Definition dd_env (vs vi vy : string) (mk : list Z -> pv) (st : list Z * option (nat * Z)) : env :=
  ([(vs, mk (fst st))]
     ++ match snd st with Some (k, y) => [(vi, PInt (Z.of_nat k)); (vy, PInt y)] | None => [] end)%list.
Definition dd_vs : string := Eval cbv in param0 CommHandler__ch_divider_default.
Definition dd_vi : string := Eval cbv in fst (loop_pair CommHandler__ch_divider_default).
Definition dd_vy : string := Eval cbv in snd (loop_pair CommHandler__ch_divider_default).
(** the names as literals (the look-up reduction wants literals) *)
Ltac dd_names := cbv delta [dd_vs dd_vi dd_vy] in *.
Definition dd_step (st : list Z * option (nat * Z)) (ky : nat * Z) : list Z * option (nat * Z) :=
  (Config.set_nth (fst st) (fst ky) 0, Some ky).
Definition dd_inv (rem : list (nat * Z)) (st : list Z * option (nat * Z)) : Prop :=
  forall k y, In (k, y) rem -> (k < List.length (fst st))%nat.

Lemma set_nth_list_upd {A} (l : list A) : forall k x, Config.set_nth l k x = list_upd l k (fun _ => x).
Proof. induction l as [|y r IH]; intros [|k] x; cbn; try reflexivity. f_equal. apply IH. Qed.

Lemma zipw_const {A B} (x : A) (l : list A) : forall (m : list B),
  List.length m = List.length l -> zipw (fun _ _ => x) l m = map (fun _ => x) l.
Proof. induction l as [|y r IH]; intros [|z s] H; cbn in *; try discriminate; [reflexivity|]. f_equal. apply IH. lia. Qed.

Lemma fst_fold_dd_step l : forall a o,
  fst (fold_left dd_step l (a, o)) = fold_left (fun cs ky => list_upd cs (fst ky) (fun d => (fun _ _ => 0) d (snd ky))) l a.
Proof.
  induction l as [|y r IH]; intros; cbn [fold_left]; [reflexivity|].
  unfold dd_step at 2. cbn [fst snd]. rewrite set_nth_list_upd. apply IH.
Qed.

Lemma ch_divider_default_func n c dev w q :
  call_func program (S n) CommHandler__ch_divider_default [comm c dev w q] [] =
  PyLite.Ok (PNone, Some (comm (Config.upd_div c (map (fun _ => 0) (Config.div_new c))) dev w q)).
Proof.
  pystart. pysteps. rewrite enumerate_map.
  loop_env (dd_env dd_vs dd_vi dd_vy (fun l => comm (Config.upd_div c l) dev w q) (Config.div_new c, None)).
  rewrite (for_loop_fold_inv dd_inv (dd_env dd_vs dd_vi dd_vy (fun l => comm (Config.upd_div c l) dev w q))
             (fun kv => PTuple [PInt (Z.of_nat (fst kv)); PInt (snd kv)]) dd_step).
  - unfold dd_env. dd_names. rewrite fst_fold_dd_step.
    pose proof (fold_enumerate_upd (fun (_ : Z) (_ : Z) => 0) (Config.div_new c) [] (Config.div_new c) eq_refl) as HF.
    cbn [List.length app] in HF. rewrite HF, zipw_const by reflexivity.
    destruct (snd (fold_left _ _ _)) as [[? ?]|]; pyrun.
  - intros [cs o] [k y] r Hinv.
    assert (Hk : (k < List.length cs)%nat) by (apply (Hinv k y); left; reflexivity).
    split.
    + pose proof (norm_index_nat _ _ Hk) as Hn.
      unfold dd_env, dd_step. dd_names. destruct o as [[? ?]|]; cbn [fst snd app]; pyrun; cfg_lists; reflexivity.
    + intros k' y' Hin. unfold dd_step. cbn [fst]. rewrite Config_proofs.set_nth_length. apply (Hinv k' y'). right. exact Hin.
  - intros k y Hin. cbn [fst]. apply in_enumerate_lt in Hin. lia.
Qed.

Definition ch_enable_all_func_r n a b c d e f := ch_enable_all_func n (Config.mkCli a b c d e f).
Definition ch_disable_all_func_r n a b c d e f := ch_disable_all_func n (Config.mkCli a b c d e f).
Definition ch_divider_default_func_r n a b c d e f := ch_divider_default_func n (Config.mkCli a b c d e f).
#[local] Hint Resolve ch_enable_all_func ch_disable_all_func ch_divider_default_func
  ch_enable_all_func_r ch_disable_all_func_r ch_divider_default_func_r : pyspec.

Lemma channels_default_cfg_func n c cm flags rxp chans w q :
  call_func program (S (S (S n))) CommHandler_channels_default_cfg [comm c (dev_obj' cm flags rxp chans) w q] [] =
  match set_many_at (Config.en_new c) (range_ix cm) false with
  | inl l => PyLite.Ok (PNone, Some (comm (Config.upd_div (Config.upd_en c l) (map (fun _ => 0) (Config.div_new c)))
                                        (dev_obj' cm flags rxp chans) w q))
  | inr l => ExcS "IndexError" (self_st (comm (Config.upd_en c l) (dev_obj' cm flags rxp chans) w q))
  end.
Proof. pystart. pyrun. Qed.

(** ** the index sets of the model *)
Lemma set_at_in_range {A} (l : list A) k x :
  0 <= k < zlen l -> set_at l k x = Some (Config.set_nth l (Z.to_nat k) x).
Proof. unfold set_at, zlen. intros H. rewrite norm_index_pos by exact H. reflexivity. Qed.

Lemma set_at_negative {A} (l : list A) k x :
  - zlen l <= k < 0 -> set_at l k x = Some (Config.set_nth l (Z.to_nat (k + zlen l)) x).
Proof. unfold set_at, zlen. intros H. rewrite norm_index_neg by exact H. reflexivity. Qed.

Lemma set_at_out {A} (l : list A) k x : k < - zlen l \/ zlen l <= k -> set_at l k x = None.
Proof. unfold set_at, zlen. intros H. rewrite norm_index_out by exact H. reflexivity. Qed.

Lemma set_many_at_in_range {A} (x : A) cs : forall l,
  Forall (fun k => (k < List.length l)%nat) cs ->
  set_many_at l (map Z.of_nat cs) x = inl (Config.set_many l cs x).
Proof.
  induction cs as [|k r IH]; intros l H; cbn [map set_many_at]; [reflexivity|].
  inversion H as [|? ? Hk Hr]; subst.
  rewrite set_at_in_range by (unfold zlen; lia). rewrite Nat2Z.id.
  unfold Config.set_many. cbn [fold_left]. apply IH.
  rewrite Config_proofs.set_nth_length. exact Hr.
Qed.

(** the first index out of range: IndexError, the ones before it stay applied *)
Lemma set_many_at_first_out {A} (x : A) cs k r : forall l,
  Forall (fun k => (k < List.length l)%nat) cs ->
  (k < - zlen l \/ zlen l <= k) ->
  set_many_at l (map Z.of_nat cs ++ k :: r) x = inr (Config.set_many l cs x).
Proof.
  induction cs as [|j s IH]; intros l H Hk; cbn [map set_many_at app].
  - rewrite set_at_out by exact Hk. reflexivity.
  - inversion H as [|? ? Hj Hs]; subst.
    rewrite set_at_in_range by (unfold zlen; lia). rewrite Nat2Z.id.
    unfold Config.set_many. cbn [fold_left]. apply IH.
    + rewrite Config_proofs.set_nth_length. exact Hs.
    + unfold zlen in *. rewrite Config_proofs.set_nth_length. exact Hk.
Qed.

Lemma set_many_at_seq {A} (x : A) n : forall (pre l : list A),
  set_many_at (pre ++ l) (map (fun k => 0 + Z.of_nat k) (seq (List.length pre) n)) x =
  if (n <=? List.length l)%nat then inl (pre ++ repeat x n ++ skipn n l)%list
  else inr (pre ++ repeat x (List.length l))%list.
Proof.
  induction n as [|n IH]; intros pre l; cbn [seq map set_many_at].
  - reflexivity.
  - destruct l as [|y r].
    + cbn [List.length Nat.leb repeat]. rewrite set_at_out; [reflexivity|].
      right. unfold zlen. rewrite app_nil_r. lia.
    + rewrite set_at_in_range by (unfold zlen; rewrite app_length; cbn [List.length]; lia).
      replace (Config.set_nth (pre ++ y :: r) (Z.to_nat (0 + Z.of_nat (List.length pre))) x) with ((pre ++ [x]) ++ r)%list.
      2:{ replace (Z.to_nat (0 + Z.of_nat (List.length pre))) with (List.length pre) by lia.
          clear. induction pre as [|p q IHp]; cbn; [reflexivity | f_equal; exact IHp]. }
      replace (S (List.length pre)) with (List.length (pre ++ [x])%list) by (rewrite app_length; cbn; lia).
      rewrite IH. cbn [List.length Nat.leb skipn repeat].
      destruct (n <=? List.length r)%nat; rewrite <- !app_assoc; reflexivity.
Qed.

Lemma set_many_at_range_all {A} (x : A) (l : list A) :
  set_many_at l (range_ix (zlen l)) x = inl (map (fun _ => x) l).
Proof.
  unfold range_ix, zlen. replace (Z.to_nat (Z.of_nat (List.length l) - 0)) with (List.length l) by lia.
  pose proof (set_many_at_seq x (List.length l) [] l) as H. cbn [app List.length] in H. rewrite H.
  rewrite Nat.leb_refl, skipn_all, app_nil_r. f_equal.
  clear. induction l; cbn; [reflexivity | f_equal; assumption].
Qed.

(** chmax smaller than the vectors: only the first [chmax] entries; larger: IndexError after all of them *)
Lemma set_many_at_range_short {A} (x : A) (l : list A) cm :
  0 <= cm <= zlen l ->
  set_many_at l (range_ix cm) x = inl (repeat x (Z.to_nat cm) ++ skipn (Z.to_nat cm) l)%list.
Proof.
  unfold range_ix, zlen. intros Hc. rewrite Z.sub_0_r.
  pose proof (set_many_at_seq x (Z.to_nat cm) [] l) as H. cbn [app List.length] in H. rewrite H.
  replace (Z.to_nat cm <=? List.length l)%nat with true by lia. reflexivity.
Qed.

Lemma set_many_at_range_long {A} (x : A) (l : list A) cm :
  zlen l < cm -> set_many_at l (range_ix cm) x = inr (map (fun _ => x) l).
Proof.
  unfold range_ix, zlen. intros Hc. rewrite Z.sub_0_r.
  pose proof (set_many_at_seq x (Z.to_nat cm) [] l) as H. cbn [app List.length] in H. rewrite H.
  replace (Z.to_nat cm <=? List.length l)%nat with false by lia. f_equal.
  clear. induction l; cbn; [reflexivity | f_equal; assumption].
Qed.

(** * 2. The scripted queue, _get_frame, _get_ack *)
Definition is_none (x : pv) : bool := match x with PNone => true | _ => false end.

Lemma py_is_none x : py_is x PNone = Some (is_none x).
Proof. destruct x; reflexivity. Qed.
Lemma norm_index_S0 len : norm_index (S len) 0 = Some O.
Proof. unfold norm_index. replace ((0 <=? 0) && (0 <? Z.of_nat (S len))) with true by lia. reflexivity. Qed.

Ltac py_stuck_hook h ::=
  lazymatch h with
  | norm_index (List.length (map _ _)) _ => rewrite map_length
  | norm_index (S _) 0 => rewrite norm_index_S0
  | get_attr _ _ (dev_rec _ _ _) "chmax" => rewrite dev_rec_chmax
  | get_attr _ _ (dev_rec _ _ _) "div_supported" => rewrite dev_rec_div
  | get_attr _ _ (dev_rec _ _ _) "ack_supported" => rewrite dev_rec_ack
  | py_is _ PNone => rewrite py_is_none
  | context [nth ?k (_ :: _) _] => is_nat_lit k; progress cbn [nth]
  | context [slice_from (_ :: _) 1] => rewrite slice_from_cons1
  end.

Lemma queue_get_func n items t :
  call_func program (S n) ScriptQueue_get [queue_obj items] [("block", PBool true); ("timeout", t)] =
  match items with
  | [] => ExcS "queue.Empty" (self_st (queue_obj []))
  | x :: r => if is_none x then ExcS "queue.Empty" (self_st (queue_obj r))
              else PyLite.Ok (x, Some (queue_obj r))
  end.
Proof. pystart. destruct items as [|x r]; pyrun. all: rewrite slice_from_cons1; reflexivity. Qed.
#[local] Hint Resolve queue_get_func : pyspec.
#[local] Arguments is_none !x /.

(** what one [get] does to the script: the frame it delivers (if any) and the rest *)
Definition q_pop (items : list pv) : option pv * list pv :=
  match items with
  | [] => (None, [])
  | x :: r => (if is_none x then None else Some x, r)
  end.

Lemma get_frame_func n c dev w q t :
  call_func program (S (S n)) CommHandler__get_frame [comm c dev w q; t] [] =
  PyLite.Ok (match fst (q_pop q) with Some x => x | None => PNone end, Some (comm c dev w (snd (q_pop q)))).
Proof. pystart. destruct q as [|x r]; unfold q_pop; pyrun. Qed.

(** the script, typed: a time-out or a decoded frame *)
Inductive qitem := QTimeout | QFrame (fid : Z) (data : bytes).
Definition item_pv (i : qitem) : pv :=
  match i with
  | QTimeout => PNone
  | QFrame fid data => frame_obj (enum_id fid) data (perr_obj "NOERR" 0)
  end.

(** _get_ack as a function of "does the device acknowledge" and the script:
    the ParseAck (or the exception of the decoder) and the rest of the script *)
Definition ack_step (acs : bool) (its : list qitem) : Frame.res (bool * Z) * list qitem :=
  if negb acs then (Frame.Ok (true, 0), its) else
  match its with
  | [] => (Frame.Ok (false, -1), [])
  | QTimeout :: r => (Frame.Ok (false, -1), r)
  | QFrame fid data :: r =>
      (match Info.frame_ack_decode fid data with
       | Frame.Ok None => Frame.Ok (false, -2)
       | Frame.Ok (Some t) => Frame.Ok t
       | Frame.Raise e => Frame.Raise e
       | Frame.Err e => Frame.Err e
       end, r)
  end.

Definition emb_ack (self : list qitem -> pv) (r : Frame.res (bool * Z) * list qitem) : PyLite.res (pv * option pv) :=
  match fst r with
  | Frame.Ok t => PyLite.Ok (IN.ack_obj t, Some (self (snd r)))
  | Frame.Raise e => ExcS e (self_st (self (snd r)))
  | Frame.Err _ => Unsupported "Err"
  end.

#[local] Hint Unfold item_pv IN.emb_opt RQ.emb_f emb_ack : cfg_model.
#[local] Arguments Info.frame_ack_decode : simpl never.
#[local] Arguments Request.frame_enable : simpl never.
#[local] Arguments Request.frame_div : simpl never.
#[local] Arguments Request.frame_start : simpl never.
#[local] Hint Resolve get_frame_func IN.ack_decode_func IN.ack_decode_func_None : pyspec.
Definition get_frame_func_r n a b c d e f := get_frame_func n (Config.mkCli a b c d e f).
#[local] Hint Resolve get_frame_func_r : pyspec.

Lemma get_ack_func n c cm flags rxp chans w its t :
  call_func program (S (S (S n))) CommHandler__get_ack
    [comm c (dev_obj' cm flags rxp chans) w (map item_pv its)] [("timeout", t)] =
  emb_ack (fun its' => comm c (dev_obj' cm flags rxp chans) w (map item_pv its')) (ack_step (ack_sup flags) its).
Proof.
  pystart. unfold ack_step. destruct its as [|[|fid data] r]; cbn [map item_pv]. all: pyrun.
Qed.

Definition get_ack_func_r n a b c d e f := get_ack_func n (Config.mkCli a b c d e f).
#[local] Hint Resolve get_ack_func get_ack_func_r : pyspec.
#[local] Arguments ack_step : simpl never.

Lemma intf_write_func n w b :
  call_func program (S n) LogIntf_write [intf_obj w; PBytes b] [] = PyLite.Ok (PNone, Some (intf_obj (w ++ [b]))).
Proof. pystart. pyrun. unfold intf_obj. rewrite map_app. reflexivity. Qed.
#[local] Hint Resolve intf_write_func : pyspec.

(** one request: the bytes of the request builder go out, then the
    acknowledgement is awaited; a raise of the builder leaves everything as it was *)
Definition emb_req (self : list bytes -> list qitem -> pv) (w : list bytes) (its : list qitem) (acs : bool)
           (fr : Frame.res bytes) : PyLite.res (pv * option pv) :=
  match fr with
  | Frame.Ok b => emb_ack (self (w ++ [b])%list) (ack_step acs its)
  | Frame.Raise e => ExcS e (self_st (self w its))
  | Frame.Err _ => Unsupported ""
  end.
#[local] Hint Unfold emb_req : cfg_model.
#[local] Hint Resolve RQ.frame_enable_single_func RQ.frame_enable_vec_func RQ.frame_div_single_func
  RQ.frame_div_vec_func RQ.frame_start_func : pyspec.

Lemma channel_enable_single_func n c cm flags rxp chans w its k v :
  call_func program (S (S (S (S n)))) CommHandler__channel_enable
    [comm c (dev_obj' cm flags rxp chans) w (map item_pv its); PTuple [PInt k; PBool v]] [] =
  emb_req (fun w' its' => comm c (dev_obj' cm flags rxp chans) w' (map item_pv its')) w its (ack_sup flags)
    (Request.frame_enable (Request.EnSingle k v) cm).
Proof. pystart. pyrun. Qed.

Lemma channel_enable_vec_func n c cm flags rxp chans w its l :
  call_func program (S (S (S (S n)))) CommHandler__channel_enable
    [comm c (dev_obj' cm flags rxp chans) w (map item_pv its); PList (map PBool l)] [] =
  emb_req (fun w' its' => comm c (dev_obj' cm flags rxp chans) w' (map item_pv its')) w its (ack_sup flags)
    (Request.frame_enable (Request.EnVec l) cm).
Proof. pystart. pyrun. Qed.

Lemma channel_div_single_func n c cm flags rxp chans w its k v :
  call_func program (S (S (S (S n)))) CommHandler__channel_div
    [comm c (dev_obj' cm flags rxp chans) w (map item_pv its); PTuple [PInt k; PInt v]] [] =
  emb_req (fun w' its' => comm c (dev_obj' cm flags rxp chans) w' (map item_pv its')) w its (ack_sup flags)
    (Request.frame_div (Request.DivSingle k v) cm).
Proof. pystart. pyrun. Qed.

Lemma channel_div_vec_func n c cm flags rxp chans w its l :
  call_func program (S (S (S (S n)))) CommHandler__channel_div
    [comm c (dev_obj' cm flags rxp chans) w (map item_pv its); PList (map PInt l)] [] =
  emb_req (fun w' its' => comm c (dev_obj' cm flags rxp chans) w' (map item_pv its')) w its (ack_sup flags)
    (Request.frame_div (Request.DivVec l) cm).
Proof. pystart. pyrun. Qed.

Lemma stream_start_func n c cm flags rxp chans w its :
  call_func program (S (S (S (S n)))) CommHandler_stream_start
    [comm c (dev_obj' cm flags rxp chans) w (map item_pv its)] [] =
  emb_req (fun w' its' => comm c (dev_obj' cm flags rxp chans) w' (map item_pv its')) w its (ack_sup flags)
    (Request.frame_start true).
Proof. pystart. pyrun. Qed.

Lemma stream_stop_func n c cm flags rxp chans w its :
  call_func program (S (S (S (S n)))) CommHandler_stream_stop
    [comm c (dev_obj' cm flags rxp chans) w (map item_pv its)] [] =
  emb_req (fun w' its' => comm c (dev_obj' cm flags rxp chans) w' (map item_pv its')) w its (ack_sup flags)
    (Request.frame_start false).
Proof. pystart. pyrun. Qed.

Definition channel_enable_single_func_r n a b c d e f := channel_enable_single_func n (Config.mkCli a b c d e f).
Definition channel_enable_vec_func_r n a b c d e f := channel_enable_vec_func n (Config.mkCli a b c d e f).
Definition channel_div_single_func_r n a b c d e f := channel_div_single_func n (Config.mkCli a b c d e f).
Definition channel_div_vec_func_r n a b c d e f := channel_div_vec_func n (Config.mkCli a b c d e f).
#[local] Hint Resolve channel_enable_single_func channel_enable_vec_func channel_div_single_func channel_div_vec_func
  channel_enable_single_func_r channel_enable_vec_func_r channel_div_single_func_r channel_div_vec_func_r : pyspec.

(** * 3. The scan loop of _nxslib_channels_enable/_div is [Config.diff_scan] *)
Definition scan_st (A : Type) : Type := (Z * nat) * option (nat * A).

Definition scan_step {A} (eqb : A -> A -> bool) (d : A) (new now : list A) (st : scan_st A) (iy : nat * A) : scan_st A :=
  let i := fst iy in
  if eqb (nth i new d) (nth i now d) then (fst st, Some iy) else ((fst (fst st) + 1, i), Some iy).

Lemma nth_app_len {A} (pre : list A) a r d : nth (List.length pre) (pre ++ a :: r) d = a.
Proof. rewrite app_nth2 by lia. rewrite Nat.sub_diag. reflexivity. Qed.

Lemma scan_fold {A} (eqb : A -> A -> bool) (d : A) : forall now' new' pre_n pre_w j k o,
  List.length pre_n = List.length pre_w -> List.length new' = List.length now' ->
  fst (fold_left (scan_step eqb d (pre_n ++ new') (pre_w ++ now'))
         (combine (seq (List.length pre_w) (List.length now')) now') ((Z.of_nat j, k), o)) =
  (Z.of_nat (fst (Config.diff_scan eqb new' now' (List.length pre_w) j k)),
   snd (Config.diff_scan eqb new' now' (List.length pre_w) j k)).
Proof.
  induction now' as [|b s IH]; intros [|a r] pre_n pre_w j k o Hp Hl; cbn in Hl; try discriminate.
  - reflexivity.
  - cbn [List.length seq combine fold_left Config.diff_scan].
    assert (Hstep : scan_step eqb d (pre_n ++ a :: r) (pre_w ++ b :: s) (Z.of_nat j, k, o) (List.length pre_w, b) =
                    if eqb a b then ((Z.of_nat j, k), Some (List.length pre_w, b))
                    else ((Z.of_nat (S j), List.length pre_w), Some (List.length pre_w, b))).
    { unfold scan_step. cbn [fst snd].
      replace (nth (List.length pre_w) (pre_n ++ a :: r) d) with a by (rewrite <- Hp; symmetry; apply nth_app_len).
      rewrite nth_app_len. destruct (eqb a b); [reflexivity|]. f_equal. f_equal. lia. }
    rewrite Hstep. clear Hstep.
    replace (pre_n ++ a :: r)%list with ((pre_n ++ [a]) ++ r)%list by (rewrite <- app_assoc; reflexivity).
    replace (pre_w ++ b :: s)%list with ((pre_w ++ [b]) ++ s)%list by (rewrite <- app_assoc; reflexivity).
    assert (Hlen : S (List.length pre_w) = List.length (pre_w ++ [b])%list) by (rewrite app_length; cbn; lia).
    destruct (eqb a b); rewrite Hlen; apply IH; rewrite ?app_length; cbn; lia.
Qed.

(** where the scan leaves [k] when it counted something *)
Lemma diff_scan_k {A} (eqb : A -> A -> bool) : forall new now i j k,
  List.length new = List.length now ->
  (j < fst (Config.diff_scan eqb new now i j k))%nat ->
  (i <= snd (Config.diff_scan eqb new now i j k) < i + List.length new)%nat.
Proof.
  assert (G : forall (new now : list A) i j k, (j <= fst (Config.diff_scan eqb new now i j k))%nat).
  { induction new as [|a r IH]; intros [|b s] i j k; cbn; try lia.
    destruct (eqb a b); [apply IH | specialize (IH s (S i) (S j) i); lia]. }
  assert (K : forall (new now : list A) i j k,
             snd (Config.diff_scan eqb new now i j k) = k \/
             (i <= snd (Config.diff_scan eqb new now i j k) < i + List.length new)%nat).
  { induction new as [|a r IH]; intros [|b s] i j k; cbn; auto.
    destruct (eqb a b).
    - destruct (IH s (S i) j k); [auto | right; lia].
    - destruct (IH s (S i) (S j) i); [right; lia | right; lia]. }
  induction new as [|a r IH]; intros [|b s] i j k Hl Hj; cbn in *; try lia.
  destruct (eqb a b).
  - specialize (IH s (S i) j k). lia.
  - destruct (K r s (S i) (S j) i); lia.
Qed.

(** the hooks are global Ltac state: restore the defaults for whoever loads this file *)
Ltac py_stuck_hook h ::= fail.
Ltac py_unfold_hook ::= idtac.

(** * Audit *)
Print Assumptions ch_divider_default_func.
Print Assumptions channels_default_cfg_func.
Print Assumptions queue_get_func.
Print Assumptions get_frame_func.
Print Assumptions get_ack_func.
Print Assumptions channel_enable_single_func.
Print Assumptions channel_enable_vec_func.
Print Assumptions channel_div_single_func.
Print Assumptions channel_div_vec_func.
Print Assumptions stream_start_func.
Print Assumptions stream_stop_func.
Print Assumptions scan_fold.
Print Assumptions diff_scan_k.
Print Assumptions set_many_at_in_range.
Print Assumptions set_many_at_first_out.
Print Assumptions set_many_at_range_all.

(** [CommHandler.stream_data] (comm.py) as INTERPRETED SOURCE, with the stream-frame queue replaced
    by the scripted stub ScriptQueue: the next item of the queue is consumed;

      no device description ([self.dev] is None)       -> AssertionError, nothing consumed
      the script is empty / a scripted time-out        -> None
      a frame that is not a stream frame               -> AssertionError (the frame is consumed)
      a stream frame                                   -> exactly what the interpreted
            [Parser.frame_stream_decode] gives for its payload and the device description, hence
            (proofs/Src_stream_model.v) what the model decoder [Stream.stream_decode] gives. *)
From Coq Require Import String Ascii List ZArith NArith Bool Lia ZifyBool ZifyNat ZifyN.
From NX Require Import Bytes PyStruct Utf8 Rn53 PyLite PyLite_tactics PyLite_tactics_ext PyLite_while
  Src_iframe Src_dev Src_iparse Src_parse Src_comm Src_prelude Src_all Src_serialframe_proofs.
From NX Require Frame Request Gen_types StreamTypes Stream Src_info_proofs Reasm_proofs.
From NX Require Import Bytes_proofs Src_stream_float Src_stream_utf8 Src_stream_vals Src_stream_proofs
  Src_stream_model.
Import ListNotations.
Import StreamTypes.
Open Scope string_scope.
Open Scope list_scope.
Open Scope Z_scope.

(** * Objects *)
(** an item of the scripted stream queue: a time-out, or a decoded frame (id, payload) *)
Inductive sitem := STimeout | SFrame (fid : Z) (data : bytes).
Definition sitem_pv (i : sitem) : pv :=
  match i with
  | STimeout => PNone
  | SFrame fid data => frame_obj (enum_id fid) data (perr_obj "NOERR" 0)
  end.

Definition squeue (items : list pv) : pv := PObj "ScriptQueue" [("items", PList items)].

(** the handler as the stream path sees it: parser, device description, stream queue, and the
    channel configuration record (any value: not read here) *)
Definition sch (dv chans : pv) (qs : list sitem) : pv :=
  PObj "CommHandler" [("_parse", parser); ("_dev", dv); ("_q_stream", squeue (map sitem_pv qs));
                      ("_channels", chans)].

(** * Set-up of the executor *)
#[local] Hint Unfold perr_obj frame_obj squeue sitem_pv stream_frame : sd_model.
Ltac py_unfold_hook ::= autounfold with sd_model.
#[local] Arguments enum_id : simpl never.
#[local] Arguments norm_index : simpl never.
#[local] Arguments Frame.id_of : simpl never.
#[local] Arguments decode_result : simpl never.

Lemma py_is_none x : py_is x PNone = Some (match x with PNone => true | _ => false end).
Proof. destruct x; reflexivity. Qed.
Lemma norm_index_S0 len : norm_index (S len) 0 = Some O.
Proof. unfold norm_index. replace ((0 <=? 0) && (0 <? Z.of_nat (S len))) with true by lia. reflexivity. Qed.
Lemma slice_from_cons1 {A} (x : A) r : slice_from (x :: r) 1 = r.
Proof. apply Reasm_proofs.slice_from_1_cons. Qed.

Ltac py_stuck_hook h ::=
  lazymatch h with
  | norm_index (List.length (map _ _)) _ => rewrite map_length
  | norm_index (S _) 0 => rewrite norm_index_S0
  | py_is _ PNone => rewrite py_is_none
  | context [nth ?k (_ :: _) _] => is_nat_lit k; progress cbn [nth]
  | context [slice_from (_ :: _) 1] => rewrite slice_from_cons1
  end.

(** * The callees *)
Lemma dev_func n dv chans qs :
  call_func program (S n) CommHandler_dev [sch dv chans qs] [] = PyLite.Ok (dv, Some (sch dv chans qs)).
Proof. pystart. pyrun. Qed.

(** what a [get] with time-out delivers: the head frame, or [None] at a time-out / on an empty
    script; the head is consumed in both cases *)
Definition s_head (qs : list sitem) : pv :=
  match qs with
  | SFrame fid data :: _ => sitem_pv (SFrame fid data)
  | _ => PNone
  end.

Lemma get_stream_frame_func n dv chans qs :
  call_func program (S (S n)) CommHandler__get_stream_frame [sch dv chans qs] [] =
  PyLite.Ok (s_head qs, Some (sch dv chans (tl qs))).
Proof. pystart. destruct qs as [|[|fid data] r]; cbn [map tl s_head]; pyrun. all: rewrite slice_from_cons1; reflexivity. Qed.

Lemma is_stream_func n fid data :
  call_func program (S n) Parser_frame_is_stream [parser; frame_obj (enum_id fid) data (perr_obj "NOERR" 0)] [] =
  PyLite.Ok (PBool (fid =? Frame.id_of "STREAM"), Some parser).
Proof. exact (Src_info_proofs.is_stream_func n fid data). Qed.

(** the decoder at the [call_func] level, for a frame whose id is written [enum_id 1] *)
Lemma decode_func n dd cfgs data :
  Forall cfg_ok cfgs ->
  call_func program (S (S (S n))) Parser_frame_stream_decode
    [parser; frame_obj (enum_id 1) data (perr_obj "NOERR" 0); dev_obj dd cfgs] [] =
  do v <- attach (self_st parser) (decode_result cfgs data (S (S n))); PyLite.Ok (v, Some parser).
Proof. intros F. exact (frame_stream_decode_func n dd cfgs data F). Qed.

#[local] Hint Resolve dev_func get_stream_frame_func is_stream_func : pyspec.

(** * stream_data *)
Definition sd_out (dv chans : pv) (cfgs : list chan_cfg) (k : nat) (qs : list sitem) : PyLite.res (pv * option pv) :=
  match qs with
  | SFrame fid data :: r =>
      if fid =? Frame.id_of "STREAM" then
        do v <- attach (self_st (sch dv chans r)) (decode_result cfgs data k);
        PyLite.Ok (v, Some (sch dv chans r))
      else ExcS "AssertionError" (self_st (sch dv chans r))
  | _ => PyLite.Ok (PNone, Some (sch dv chans (tl qs)))
  end.

Lemma id_stream_1 : Frame.id_of "STREAM" = 1.
Proof. reflexivity. Qed.

Lemma stream_data_func n dd cfgs chans qs :
  Forall cfg_ok cfgs ->
  call_func program (S (S (S (S n)))) CommHandler_stream_data [sch (dev_obj dd cfgs) chans qs] [] =
  sd_out (dev_obj dd cfgs) chans cfgs (S (S n)) qs.
Proof.
  intros F. unfold sd_out.
  destruct qs as [|[|fid data] r]; cbn [tl]; [pystart; pyrun | pystart; pyrun |].
  destruct (fid =? Frame.id_of "STREAM") eqn:E.
  - apply Z.eqb_eq in E. rewrite id_stream_1 in E. subst fid.
    pose proof (decode_func n dd cfgs data F) as HD.
    pystart. pysteps.
    all: try reflexivity.
    all: exfalso; match goal with H : (1 =? Frame.id_of "STREAM") = false |- _ => vm_compute in H; discriminate end.
  - pystart. pyrun.
Qed.

(** the device description is missing: the first assertion fails, nothing is consumed *)
Lemma stream_data_no_dev_func n chans qs :
  call_func program (S (S n)) CommHandler_stream_data [sch PNone chans qs] [] =
  ExcS "AssertionError" (self_st (sch PNone chans qs)).
Proof. pystart. pyrun. Qed.

(** * The theorems: every fuel above a constant *)
Definition sd_meth (dv chans : pv) (cfgs : list chan_cfg) (k : nat) (qs : list sitem) : PyLite.res (pv * pv) :=
  match qs with
  | SFrame fid data :: r =>
      if fid =? Frame.id_of "STREAM" then
        do v <- decode_result cfgs data k; PyLite.Ok (v, sch dv chans r)
      else Exc "AssertionError"
  | _ => PyLite.Ok (PNone, sch dv chans (tl qs))
  end.

#[local] Hint Resolve stream_data_no_dev_func : pyspec.

Theorem stream_data_exact n dd cfgs chans qs :
  Forall cfg_ok cfgs ->
  call_method program (4 + n) (sch (dev_obj dd cfgs) chans qs) "stream_data" [] =
  sd_meth (dev_obj dd cfgs) chans cfgs (2 + n) qs.
Proof.
  intros F. pystart. unfold sd_meth.
  pose proof (stream_data_func n dd cfgs chans qs F) as HF. unfold sd_out in HF.
  destruct qs as [|[|fid data] r]; cbn [tl] in *; [pyrun | pyrun |].
  destruct (fid =? Frame.id_of "STREAM").
  - pose proof (decode_result_strip cfgs data (S (S n))) as HS.
    destruct (decode_result cfgs data (S (S n))) as [v| | | |]; cbn [strip attach bind] in *; try discriminate; pyrun.
  - pyrun.
Qed.

Theorem stream_data_no_dev n chans qs :
  call_method program (2 + n) (sch PNone chans qs) "stream_data" [] = Exc "AssertionError".
Proof. pystart. pyrun. Qed.

(** time-out (or nothing scripted): [None], the item is consumed *)
Corollary stream_data_timeout n dd cfgs chans qs :
  Forall cfg_ok cfgs -> s_head qs = PNone ->
  call_method program (4 + n) (sch (dev_obj dd cfgs) chans qs) "stream_data" [] =
  PyLite.Ok (PNone, sch (dev_obj dd cfgs) chans (tl qs)).
Proof.
  intros F H. rewrite stream_data_exact by exact F.
  destruct qs as [|[|fid data] r]; try reflexivity. discriminate.
Qed.

(** ** against the model decoder *)
(** what the interpreter returns ([x]) where the model returns [m] for the payload of the next
    frame (cf. [stream_rel] in proofs/Src_stream_model.v): the receiver afterwards is the handler
    with that frame consumed *)
Definition sdata_rel (self' : pv) (m : Frame.res (option (Z * list Stream.sample))) (x : PyLite.res (pv * pv)) : Prop :=
  match m with
  | Frame.Ok None => x = PyLite.Ok (PNone, self')
  | Frame.Ok (Some (fl, ss)) =>
      if existsb sample_lossy ss then x = Unsupported "lossy decode"
      else x = PyLite.Ok (stream_obj fl (map sample_pv ss), self')
  | Frame.Raise w => x = Exc w \/ x = Unsupported "lossy decode"
  | Frame.Err _ => False
  end.

Theorem stream_data_model n dd cfgs chans data r :
  Forall cfg_ok cfgs ->
  sdata_rel (sch (dev_obj dd cfgs) chans r)
    (Stream.stream_decode (lay_of cfgs) [] data)
    (call_method program (4 + List.length data + n) (sch (dev_obj dd cfgs) chans (SFrame 1 data :: r)) "stream_data" []).
Proof.
  intros F.
  replace (4 + List.length data + n)%nat with (4 + (List.length data + n))%nat by lia.
  rewrite stream_data_exact by exact F. cbn [sd_meth]. rewrite id_stream_1. cbn [Z.eqb Pos.eqb].
  pose proof (frame_stream_decode_model (List.length data + n) dd cfgs data F ltac:(lia)) as H.
  rewrite frame_stream_decode_exact in H by exact F.
  unfold sdata_rel. unfold stream_rel in H.
  destruct (Stream.stream_decode (lay_of cfgs) [] data) as [[[fl ss]|]|e|w].
  - destruct (existsb sample_lossy ss).
    + destruct (decode_result cfgs data (2 + (List.length data + n))) as [v| | | |]; cbn [bind] in *;
        try discriminate; exact H.
    + destruct (decode_result cfgs data (2 + (List.length data + n))) as [v| | | |]; cbn [bind] in *;
        try discriminate. inversion H; subst. reflexivity.
  - destruct (decode_result cfgs data (2 + (List.length data + n))) as [v| | | |]; cbn [bind] in *;
      try discriminate. inversion H; subst. reflexivity.
  - exact H.
  - destruct H as [H|H]; [left|right];
      destruct (decode_result cfgs data (2 + (List.length data + n))) as [v| | | |]; cbn [bind] in *;
      try discriminate; exact H.
Qed.

(** a frame with another id is refused *)
Corollary stream_data_other_id n dd cfgs chans fid data r :
  Forall cfg_ok cfgs -> fid <> 1 ->
  call_method program (4 + n) (sch (dev_obj dd cfgs) chans (SFrame fid data :: r)) "stream_data" [] =
  Exc "AssertionError".
Proof.
  intros F H. rewrite stream_data_exact by exact F. cbn [sd_meth]. rewrite id_stream_1.
  replace (fid =? 1) with false by lia. reflexivity.
Qed.

(** the hooks are global Ltac state: restore the defaults for whoever loads this file *)
Ltac py_stuck_hook h ::= fail.
Ltac py_unfold_hook ::= idtac.

(** * Audit *)
Print Assumptions stream_data_exact.
Print Assumptions stream_data_no_dev.
Print Assumptions stream_data_timeout.
Print Assumptions stream_data_model.
Print Assumptions stream_data_other_id.

(** The RECEIVE THREAD run to exhaustion, over the INTERPRETED SOURCE: a Coq-level driver calls the
    interpreted [CommHandler._recv_thread] [k] times, each time on the receiver the previous call
    left behind (this is what ThreadCommon does with the method, for ever).  For EVERY chunk list on
    the scripted link and every [k] from a linear bound on -- calls after exhaustion included --
    [_q_stream] has received exactly the stream frames of ONE left-to-right scan of the
    concatenated bytes, in order, and [_q] exactly the other frames, in order, minus the ACKs when
    there is no device description yet; nothing else, nothing twice, whatever the chunking. *)
From Coq Require Import String Ascii List ZArith NArith Bool Lia ZifyBool.
From NX Require Import Bytes PyStruct Crc PyLite PyLite_tactics Src_all.
From NX Require Frame Gen_frame Reasm Reasm_proofs.
From NX Require Import Src_serialframe_proofs Src_reasm_proofs Src_reasm_session
  Src_recvpath_reasm Src_recvpath_proofs.
Import ListNotations.
Open Scope string_scope.
Open Scope list_scope.
Open Scope Z_scope.

Local Notation fs s := (fst (Reasm.scan s)).

(** * The driver *)
Fixpoint iter_thread (F : nat) (k : nat) (r : pv) : PyLite.res pv :=
  match k with
  | O => PyLite.Ok r
  | S k' =>
      match call_method program F r "_recv_thread" [] with
      | PyLite.Ok (_, r') => iter_thread F k' r'
      | Exc c => Exc c
      | ExcS c st => ExcS c st
      | Fuel => Fuel
      | Unsupported w => Unsupported w
      end
  end.

(** * The model of the iteration: [Reasm.read_frame] steps with the routing rule *)
Fixpoint thread_iter (nd : bool) (k : nat) (prev : bytes) (l : Reasm.link) (q qs : list (Z * bytes))
  : option (list (Z * bytes) * list (Z * bytes) * bytes * Reasm.link) :=
  match k with
  | O => Some (q, qs, prev, l)
  | S k' =>
      match Reasm.read_frame prev l with
      | Reasm.FNone p l' => thread_iter nd k' p l' q qs
      | Reasm.FFrame fid pl p l' =>
          thread_iter nd k' p l' (fst (routed nd q qs (fid, pl))) (snd (routed nd q qs (fid, pl)))
      | _ => None
      end
  end.

(** source = model, as long as the model does not fail *)
Lemma iter_thread_model F dv : forall k prev l q qs q' qs' p' l',
  (6 + measure prev l <= F)%nat ->
  thread_iter (is_none dv) k prev l q qs = Some (q', qs', p', l') ->
  iter_thread F k (rch dv q qs prev l) = PyLite.Ok (rch dv q' qs' p' l').
Proof.
  induction k as [|k IH]; intros prev l q qs q' qs' p' l' HF H.
  - cbn in H. inversion H; subst. reflexivity.
  - cbn [iter_thread thread_iter] in *.
    rewrite recv_thread_spec by exact HF.
    pose proof (read_frame_measure prev l) as M.
    destruct (Reasm.read_frame prev l) as [p l2|fid pl p l2|w|]; try discriminate;
      cbn [recv_meth]; cbv beta iota in M.
    + apply IH; [lia|exact H].
    + destruct M as [M _]. apply IH; [lia|exact H].
Qed.

(** * What the queues receive *)
Definition to_q (nd : bool) (f : Z * bytes) : bool :=
  match route nd (fst f) with ToQ => true | _ => false end.
Definition to_stream (f : Z * bytes) : bool := fst f =? Frame.id_of "STREAM".

Lemma routed_filter nd q qs f :
  routed nd q qs f = (q ++ filter (to_q nd) [f], qs ++ filter to_stream [f]).
Proof.
  unfold routed, to_q, to_stream, route. cbn [filter].
  destruct (fst f =? Frame.id_of "STREAM"); [rewrite app_nil_r; reflexivity|].
  destruct (nd && (fst f =? Frame.id_of "ACK")); rewrite ?app_nil_r; reflexivity.
Qed.

(** a state in which nothing is left to do stays as it is *)
Lemma thread_iter_stable nd prev q qs : Reasm.read_frame prev [] = Reasm.FNone prev [] ->
  forall k, thread_iter nd k prev [] q qs = Some (q, qs, prev, []).
Proof. intros E k. induction k as [|k IH]; [reflexivity|]. cbn [thread_iter]. rewrite E. exact IH. Qed.

Lemma thread_iter_scan nd : forall k prev l q qs,
  wf_bytes prev -> Reasm_proofs.wf_link l ->
  (measure prev l <= k)%nat ->
  exists rest,
    thread_iter nd k prev l q qs =
    Some (q ++ filter (to_q nd) (fs (prev ++ List.concat l)),
          qs ++ filter to_stream (fs (prev ++ List.concat l)), rest, []).
Proof.
  induction k as [|k IH]; intros prev l q qs Hp Hl Hk.
  - assert (prev = [] /\ l = []) as [-> ->].
    { unfold measure in Hk. destruct prev; [|cbn [List.length] in Hk; lia].
      destruct l; [|cbn [List.length] in Hk; lia]. split; reflexivity. }
    exists []. cbn. rewrite !app_nil_r. reflexivity.
  - cbn [thread_iter].
    pose proof (Reasm_proofs.read_frame_post prev l Hp Hl) as H.
    assert (E0 : forall (p : bytes) (l' : Reasm.link), p ++ List.concat l' ++ [] = p ++ List.concat l')
      by (intros; now rewrite app_nil_r).
    destruct (Reasm.read_frame prev l) as [p l'|fid pl p l'|w|] eqn:ER;
      cbn [Reasm_proofs.frame_post] in H; try contradiction.
    + destruct H as (W1 & W2 & Fq & N & C & D).
      specialize (Fq [] Reasm_proofs.wf_nil). rewrite !E0 in Fq.
      destruct D as [D|[D|(E1 & E2 & E3)]].
      * rewrite Fq. apply IH; try assumption. unfold measure, Reasm_proofs.nbytes in *. lia.
      * rewrite Fq. apply IH; try assumption. unfold measure, Reasm_proofs.nbytes in *. lia.
      * subst l p.
        assert (l' = []) by (destruct l'; [reflexivity|cbn [List.length] in C; lia]). subst l'.
        exists prev. rewrite thread_iter_stable by exact ER.
        cbn [List.concat]. rewrite app_nil_r, E3. cbn [filter]. rewrite !app_nil_r. reflexivity.
    + destruct H as (W1 & W2 & Fq & N & C).
      specialize (Fq [] Reasm_proofs.wf_nil). rewrite !E0 in Fq.
      rewrite routed_filter. cbn [fst snd].
      destruct (IH p l' (q ++ filter (to_q nd) [(fid, pl)]) (qs ++ filter to_stream [(fid, pl)]) W1 W2
                  ltac:(unfold measure, Reasm_proofs.nbytes in *; lia)) as [rest R].
      exists rest. rewrite R, Fq.
      change ((fid, pl) :: fs (p ++ List.concat l')) with ([(fid, pl)] ++ fs (p ++ List.concat l')).
      rewrite !filter_app, <- !app_assoc. reflexivity.
Qed.

(** * MAIN THEOREM *)
Theorem recv_thread_session F k dv q qs prev chunks :
  wf_bytes prev -> Reasm_proofs.wf_link chunks ->
  (6 + measure prev chunks <= F)%nat -> (measure prev chunks <= k)%nat ->
  exists rest,
    iter_thread F k (rch dv q qs prev chunks) =
    PyLite.Ok (rch dv (q ++ filter (to_q (is_none dv)) (fs (prev ++ List.concat chunks)))
                      (qs ++ filter to_stream (fs (prev ++ List.concat chunks))) rest []).
Proof.
  intros Hp Hl HF Hk.
  destruct (thread_iter_scan (is_none dv) k prev chunks q qs Hp Hl Hk) as [rest R].
  exists rest. eapply iter_thread_model; [exact HF|exact R].
Qed.

(** from an empty buffer: the frames of one scan of the concatenation of the chunks *)
Corollary recv_thread_session_scan F k dv chunks :
  Reasm_proofs.wf_link chunks ->
  (6 + measure [] chunks <= F)%nat -> (measure [] chunks <= k)%nat ->
  exists rest,
    iter_thread F k (rch dv [] [] [] chunks) =
    PyLite.Ok (rch dv (filter (to_q (is_none dv)) (fs (List.concat chunks)))
                      (filter to_stream (fs (List.concat chunks))) rest []).
Proof.
  intros Hl HF Hk.
  destruct (recv_thread_session F k dv [] [] [] chunks Reasm_proofs.wf_nil Hl HF Hk) as [rest R].
  exists rest. exact R.
Qed.

(** the partition is exact: a frame goes to at most one queue, and to none only if it is an ACK
    received while there is no device description *)
Lemma route_partition nd f :
  (to_stream f = true -> to_q nd f = false) /\
  (to_stream f = false -> to_q nd f = false -> nd = true /\ fst f = Frame.id_of "ACK").
Proof.
  unfold to_q, to_stream, route. destruct (fst f =? Frame.id_of "STREAM"); split; try discriminate; try reflexivity.
  intros _. destruct nd; cbn [andb]; [|discriminate].
  destruct (fst f =? Frame.id_of "ACK") eqn:E; [|discriminate]. intros _. split; [reflexivity|lia].
Qed.

(** * Audit *)
Print Assumptions recv_thread_session.
Print Assumptions recv_thread_session_scan.

(** The connect / disconnect life cycle, part 2: [_devinfo_get] on the COMPLETE
    CommHandler object [gcomm ..] of Src_lc_base.v is the total function
    [devinfo_m] of proofs/Src_handshake_devinfo.v (the retry loop of one
    channel, the loop over the channels, the Device construction): the same
    proof scripts as there, for the full object. *)
From Coq Require Import String Ascii List ZArith NArith Bool Lia ZifyBool.
From Coq Require FinFun.
From NX Require Import Bytes PyStruct Crc PyLite PyLite_tactics PyLite_tactics_ext
  Src_dev Src_iparse Src_parse Src_comm Src_prelude Src_all
  Src_serialframe_proofs Src_parse_req_lemmas Src_records_proofs Src_config_base Src_config_req
  Src_handshake_base Src_handshake_devinfo Src_lc_base.
From NX Require Src_parse_req_proofs Src_info_proofs.
From NX Require Frame Request Info Info_proofs Handshake Handshake_proofs Gen_frame Gen_req Gen_misc.
Import ListNotations.
Open Scope string_scope.
Open Scope Z_scope.

#[local] Hint Unfold pa RQ.pa IN.pa sf gintf queue_obj gcomm item_pv fake_thread
  IN.cmninfo_obj frame_obj perr_obj IN.emb_opt RQ.emb_f emb_rq : lc_model.
Ltac py_unfold_hook ::= autounfold with lc_model.
#[local] Arguments norm_index : simpl never.
#[local] Arguments enum_id : simpl never.
#[local] Arguments is_none !x /.
#[local] Arguments Info.frame_cmninfo_decode : simpl never.
#[local] Arguments Info.frame_chinfo_decode : simpl never.
#[local] Arguments Request.frame_cmninfo : simpl never.
#[local] Arguments Request.frame_chinfo : simpl never.
#[local] Arguments IN.emb_chan : simpl never.
#[local] Arguments pop_dec : simpl never.
#[local] Arguments drain : simpl never.

Ltac py_stuck_hook h ::=
  first [ crest_hook h |
  lazymatch h with
  | norm_index (List.length (map _ _)) _ => rewrite map_length
  | norm_index (S _) 0 => rewrite norm_index_S0
  | py_is _ PNone => rewrite py_is_none
  | context [nth ?k (_ :: _) _] => is_nat_lit k; progress cbn [nth]
  | context [slice_from (_ :: _) 1] => rewrite slice_from_cons1
  | 0 <? Z.of_nat (S ?c) => rewrite (ltb_0_S c)
  | Z.of_nat (S ?r) - 1 <? 0 => rewrite (ltb_pred_S r)
  | context [is_none (IN.emb_chan ?i ?c)] => change (is_none (IN.emb_chan i c)) with false
  end ].

#[local] Hint Resolve queue_get_func gintf_write_func gintf_drop_all_func
  Src_lc_base.get_frame_func Src_lc_base.get_stream_frame_func
  Src_lc_base.drop_all_frames_func Src_lc_base.drop_all_func
  Src_lc_base.nxslib_cmninfo_func Src_lc_base.nxslib_chinfo_func device_init_kw_func : pyspec.

Notation F6 m := (S (S (S (S (S (S m)))))).

(** the handler's state as [devinfo_m] returns it, on the full object *)
Definition gcomm_of (started thrd : pv) (ev : list string) (dev : pv) (rest : list (string * pv)) (st : hstate) : pv :=
  let '(w, p, d, q, qs) := st in gcomm started thrd ev w p d dev (map item_pv q) (map item_pv qs) rest.

Section Handshake.
Variables (started thrd : pv) (ev : list string) (dev : pv) (rest : list (string * pv)).
Hypothesis Hrest : crest rest.
Local Notation hcomm w p d q qs :=
  (gcomm started thrd ev w p d dev (map item_pv q) (map item_pv qs) rest).
Local Notation hcomm_of st := (gcomm_of started thrd ev dev rest st).

(** * 4. The retry loop of one channel *)
Lemma retry_loop m p d qs frame pc acc i : forall r k w q, (r < k)%nat ->
  while_loop program (call_func program (F6 m)) (F6 m) (while_c dg_while) (while_b dg_while) k
    (fenv (hcomm w p d q qs) frame pc acc (Some (PInt i, PNone, PInt (Z.of_nat r - 1)))) =
  let '(res, rem, w', q') := retry_m r i w q in
  retry_out res (fenv (hcomm w' p d q' qs) frame pc acc
                   (Some (PInt i, retry_chan i res, PInt (Z.of_nat rem - 1)))).
Proof.
  induction r as [|r IH]; intros k w q Hk; (destruct k as [|k]; [lia|]).
  all: cbv [dg_while dg_for for_b nth_stmt while_c while_b f_body CommHandler__devinfo_get].
  all: rewrite while_loop_S; unfold fenv; gnames; cbn [app retry_m].
  - pysteps. reflexivity.
  - destruct (Request.frame_chinfo i) as [b|e|e] eqn:Ef;
      [destruct (pop_dec Info.frame_chinfo_decode q) as [[c|]|e|e] eqn:Ed|..].
    all: pysteps; try reflexivity.
    + destruct k as [|k]; [lia|]. rewrite while_loop_S. pysteps.
      replace (Z.of_nat (S r) - 1 - 1) with (Z.of_nat r - 1) by lia. reflexivity.
    + specialize (IH k (w ++ [b])%list (tl q) ltac:(lia)).
      cbv [dg_while dg_for for_b nth_stmt while_c while_b f_body CommHandler__devinfo_get] in IH.
      unfold fenv in IH. gnames. cbn [app] in IH.
      replace (Z.of_nat (S r) - 1 - 1) with (Z.of_nat r - 1) by lia. exact IH.
Qed.

(** * 5. The loop over the channels *)
#[local] Arguments retry_m : simpl never.
#[local] Arguments rng : simpl never.

Lemma chans_loop m p d qs frame pc : forall n s acc o w q, exists o',
  for_loop program (call_func program (F6 (S m))) (F6 (S m)) (for_t dg_for) (for_b dg_for) (map rng (seq s n))
    (fenv (hcomm w p d q qs) frame pc (emb_acc acc) o) =
  let '(res, acc', w', q') := chans_m n s acc w q in
  chans_out res (fenv (hcomm w' p d q' qs) frame pc (emb_acc acc') o').
Proof.
  induction n as [|n IH]; intros s acc o w q.
  - exists o. reflexivity.
  - cbn [seq map chans_m].
    destruct (retry_m 6 (Z.of_nat s) w q) as [[[res rem] w'] q'] eqn:Er.
    destruct res as [c| |e|e].
    1: destruct (IH (S s) (acc ++ [(Z.of_nat s, c)])%list
                   (Some (rng s, IN.emb_chan (Z.of_nat s) c, PInt (Z.of_nat rem - 1))) w' q') as [o' E];
       exists o'.
    2-4: exists (Some (rng s, PNone, PInt (Z.of_nat rem - 1))).
    all: rewrite for_loop_cons;
      cbv [dg_while dg_for for_b for_t nth_stmt while_c while_b f_body CommHandler__devinfo_get];
      unfold fenv; gnames; destruct o as [[[? ?] ?]|]; cbn [app]; pysteps.
    all: lazymatch goal with
         | |- context [while_loop ?P ?cf ?lf ?cc ?b ?k ?e] =>
             change (while_loop P cf lf cc b k e) with
               (while_loop P cf lf (while_c dg_while) (while_b dg_while) k
                  (fenv (hcomm w p d q qs) frame pc (emb_acc acc)
                     (Some (PInt (Z.of_nat s), PNone, PInt (Z.of_nat 6 - 1)))))
         end;
      rewrite (retry_loop (S m)) by lia; rewrite Er; cbn [retry_out retry_chan]; unfold fenv; gnames; cbn [app]; pysteps.
    3-8: reflexivity.
    all: etransitivity; [|exact E]; unfold fenv, emb_acc; gnames; rewrite map_app; reflexivity.
Qed.

(** * 7. _devinfo_get *)
Definition emb_gdev (r : dres * hstate) : PyLite.res (pv * option pv) :=
  match fst r with
  | DDev cm fl rxp acc => PyLite.Ok (dev_of cm fl rxp acc, Some (hcomm_of (snd r)))
  | DNone => PyLite.Ok (PNone, Some (hcomm_of (snd r)))
  | DRaise e => ExcS e (self_st (hcomm_of (snd r)))
  | DUns s => Unsupported s
  end.

#[local] Arguments chans_m : simpl never.
#[local] Arguments emb_acc : simpl never.

Lemma devinfo_get_func m w p d q qs :
  (Nat.min drain_limit (List.length (tl q)) + 3 <= S (S (S m)))%nat ->
  (Nat.min drain_limit (List.length qs) + 3 <= S (S (S m)))%nat ->
  call_func program (S (F6 (S m))) CommHandler__devinfo_get [hcomm w p d q qs] [] =
  emb_gdev (devinfo_m w p d q qs).
Proof.
  intros Hq Hqs.
  pystart. unfold devinfo_m.
  destruct Request.frame_cmninfo as [b|e|e] eqn:Ef;
    [destruct (pop_dec Info.frame_cmninfo_decode q) as [[[[cm fl] rxp]|]|e|e] eqn:Ed|..].
  2-6: cbn [emb_gdev fst snd gcomm_of]; pysteps; reflexivity.
  destruct (pop_cmninfo_nonneg _ _ _ _ Ed) as (Hcm & Hfl & Hrxp).
  destruct (0 <? rxp) eqn:Erx; destruct (p =? rxp) eqn:Epr; cbn [andb negb].
  all: pysteps.
  all: fold (pad_bytes rxp).
  all: lazymatch goal with
       | |- context [for_loop ?P ?cf ?lf ?t ?b (range_list 0 ?cm)
                       [(_, gcomm _ _ _ ?w1 ?p1 ?d1 _ (map item_pv ?q1) (map item_pv ?qs1) _); (_, ?fr); (_, PBool ?pc); (_, PList [])]] =>
           change (for_loop P cf lf t b (range_list 0 cm) _) with
             (for_loop P cf lf (for_t dg_for) (for_b dg_for) (map rng (seq 0 (Z.to_nat (cm - 0))))
                (fenv (hcomm w1 p1 d1 q1 qs1) fr pc (emb_acc []) None));
           rewrite Z.sub_0_r;
           let o' := fresh "o" in let E := fresh "E" in
           destruct (chans_loop m p1 d1 qs1 fr pc (Z.to_nat cm) 0%nat [] None w1 q1) as [o' E];
           rewrite E; clear E;
           let Ec := fresh "Ec" in
           destruct (chans_m (Z.to_nat cm) 0 [] w1 q1) as [[[res acc] w'] q'] eqn:Ec;
           destruct res; cbn [chans_out emb_gdev fst snd gcomm_of]; unfold fenv; gnames;
           destruct o' as [[[? ?] ?]|]; cbn [app]
       end.
  all: try match goal with
           | Ec : chans_m _ _ _ _ _ = (CDone, _, _, _) |- _ =>
               let Hn := fresh "Hn" in let Hz := fresh "Hz" in
               destruct (chans_m_assert _ _ _ _ _ _ Hcm Ec) as [Hn Hz]; rewrite emb_acc_channel
           end.
  all: pysteps; reflexivity.
Qed.

End Handshake.

(** the hooks are global Ltac state: restore the defaults for whoever loads this file *)
Ltac py_stuck_hook h ::= fail.
Ltac py_unfold_hook ::= idtac.

(** * Audit *)
Print Assumptions retry_loop.
Print Assumptions chans_loop.
Print Assumptions devinfo_get_func.

(** CRC-16/XMODEM: the generic algorithm with XMODEM parameters is the
    bit-serial specification; the residue theorem. *)
From Coq Require Import Lia ZifyBool ZifyNat ZifyN.
From NX Require Import Bytes Crc Bytes_proofs.
Open Scope N_scope.

Lemma lxor_lt_65536 a b : a < 65536 -> b < 65536 -> N.lxor a b < 65536.
Proof.
  intros Ha Hb.
  destruct (N.eq_dec (N.lxor a b) 0) as [E|E]; [rewrite E; reflexivity|].
  change 65536 with (2 ^ 16).
  apply N.log2_lt_pow2; [lia|].
  pose proof (N.log2_lxor a b) as H.
  assert (La : N.log2 a < 16).
  { destruct (N.eq_dec a 0) as [->|Na]; [reflexivity|].
    apply N.log2_lt_pow2; [lia|exact Ha]. }
  assert (Lb : N.log2 b < 16).
  { destruct (N.eq_dec b 0) as [->|Nb]; [reflexivity|].
    apply N.log2_lt_pow2; [lia|exact Hb]. }
  lia.
Qed.

Lemma T0_lt s : T0 s < 65536.
Proof.
  unfold T0, mask16.
  assert (H : (s * 2) mod 65536 < 65536) by (apply N.mod_lt; discriminate).
  destruct (N.testbit s 15); [apply lxor_lt_65536; [exact H|reflexivity]|exact H].
Qed.

Lemma crc_step_lt s b : crc_step s b < 65536.
Proof.
  unfold crc_step. destruct b; [apply lxor_lt_65536; [apply T0_lt|reflexivity]|apply T0_lt].
Qed.

Lemma crc_bits_lt l : forall s, s < 65536 -> crc_bits s l < 65536.
Proof.
  unfold crc_bits. induction l as [|b l IH]; intros s Hs; simpl; [exact Hs|].
  apply IH. apply crc_step_lt.
Qed.

Lemma crc_spec_lt d : crc_spec d < 65536.
Proof. unfold crc_spec. apply crc_bits_lt. reflexivity. Qed.

Lemma bits_of_app a b : bits_of (a ++ b) = bits_of a ++ bits_of b.
Proof. unfold bits_of. apply flat_map_app. Qed.

Lemma crc_bits_app s a b : crc_bits s (a ++ b) = crc_bits (crc_bits s a) b.
Proof. unfold crc_bits. apply fold_left_app. Qed.

Lemma crc_spec_app a b : crc_spec (a ++ b) = crc_bits (crc_spec a) (bits_of b).
Proof. unfold crc_spec. now rewrite bits_of_app, crc_bits_app. Qed.

(** the generic forward step with the XMODEM polynomial is [crc_step] *)
Lemma gstep_fwd_xmodem s b : gstep_fwd 4129 s b = crc_step s b.
Proof.
  unfold gstep_fwd, crc_step, T0, xpoly.
  destruct (N.testbit s 15), b; simpl; try reflexivity.
  rewrite N.lxor_assoc, N.lxor_nilpotent, N.lxor_0_r. reflexivity.
Qed.

Lemma crc_gen_xmodem d : crc_gen xmodem_params d = crc_spec d.
Proof.
  unfold crc_gen, xmodem_params, crc_spec, crc_bits. simpl.
  rewrite N.lxor_0_r.
  generalize (bits_of d) as l. generalize 0 as s.
  intros s l; revert s; induction l as [|b l IH]; intros s; simpl; [reflexivity|].
  rewrite gstep_fwd_xmodem. apply IH.
Qed.

(** feeding a state its own 16 bits (big-endian) gives 0: checked for all
    2^16 states by computation, lifted by [all_below_pow2]. *)
Definition self_feed_zero (c : N) : bool :=
  crc_bits c (bits_of (be_enc 2 c)) =? 0.

Lemma self_feed_sweep : all_bits 16 0 self_feed_zero = true.
Proof. vm_compute. reflexivity. Qed.

Lemma self_feed c : c < 65536 -> crc_bits c (bits_of (be_enc 2 c)) = 0.
Proof.
  intros H. apply N.eqb_eq.
  apply (all_below_pow2 16 self_feed_zero self_feed_sweep c). exact H.
Qed.

Theorem crc_residue m : crc_spec (m ++ be_enc 2 (crc_spec m)) = 0.
Proof. rewrite crc_spec_app. apply self_feed. apply crc_spec_lt. Qed.

From Coq Require Import List ZArith Lia.
From NX Require Import Bytes Pad Reasm Pipe Bytes_proofs Pad_proofs Reasm_proofs.
Import ListNotations.

(** whatever the chunking: the reads, concatenated, followed by what is still
    waiting, are exactly the bytes sent, in order, nothing altered *)
Theorem pipe_transparent sizes : forall buf,
  List.concat (fst (pipe_reads buf sizes)) ++ snd (pipe_reads buf sizes) = buf.
Proof.
  induction sizes as [|n r IH]; intros buf; cbn [pipe_reads]; [reflexivity|].
  specialize (IH (skipn n buf)). destruct (pipe_reads (skipn n buf) r) as [cs rest]. cbn [fst snd List.concat] in *.
  rewrite <- app_assoc, IH. apply firstn_skipn.
Qed.

(** a read on an idle line returns empty *)
Theorem pipe_idle_read n r : fst (pipe_reads [] (n :: r)) = [] :: fst (pipe_reads [] r).
Proof.
  cbn [pipe_reads]. rewrite skipn_nil. destruct (pipe_reads [] r) as [cs rest]. cbn. now rewrite firstn_nil.
Qed.

Lemma pipe_reads_wf sizes : forall buf, wf_bytes buf -> wf_link (fst (pipe_reads buf sizes)).
Proof.
  induction sizes as [|n r IH]; intros buf H; cbn [pipe_reads]; [constructor|].
  specialize (IH (skipn n buf) (wf_bytes_skipn n buf H)). destruct (pipe_reads (skipn n buf) r) as [cs rest].
  cbn [fst] in *. constructor; [apply wf_bytes_firstn; exact H|exact IH].
Qed.

(** a client session over ANY chunking of the byte stream extracts the same
    frames as over the ideal link that delivers everything in one read *)
Theorem session_equivalent buf sizes :
  wf_bytes buf -> snd (pipe_reads buf sizes) = [] ->
  exists r1 r2,
    recv_all (fst (pipe_reads buf sizes)) = Some (fst (scan buf), r1) /\
    recv_all [buf] = Some (fst (scan buf), r2).
Proof.
  intros Hwf Hall.
  pose proof (pipe_transparent sizes buf) as T. rewrite Hall, app_nil_r in T.
  destruct (recv_all_scan (fst (pipe_reads buf sizes)) (pipe_reads_wf sizes buf Hwf)) as [r1 E1].
  destruct (recv_all_scan [buf] ltac:(constructor; [exact Hwf|constructor])) as [r2 E2].
  rewrite T in E1. cbn [List.concat] in E2. rewrite app_nil_r in E2.
  exists r1, r2. split; assumption.
Qed.

(** bytes written = the data followed by the zero padding of C17 *)
Theorem serial_write_spec p d : (0 <= p)%Z ->
  serial_write p d = d ++ repeat 0%N (Z.to_nat (pad_count p (zlen d))).
Proof. apply data_align_spec. Qed.

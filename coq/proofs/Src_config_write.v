(** Buffered channel configuration, part 3 of 4: _nxslib_channels_enable,
    _nxslib_channels_div and channels_write compute the source-level functional
    model [src_write_enable] / [src_write_div] / [src_write] (a [wres]: the new
    client view, the new mirror, everything written, the rest of the script --
    or the exception with the receiver at the raise), for ANY script and any
    result of the request builder.  Hypothesis: [en_new]/[en_now] (resp. the
    dividers) have the same length (the scan loop indexes [new] with the
    indices of [now]). *)
From Coq Require Import String Ascii List ZArith NArith Bool Lia ZifyBool.
From NX Require Import Bytes PyStruct Crc PyLite PyLite_tactics PyLite_tactics_ext
  Src_dev Src_iparse Src_parse Src_comm Src_prelude Src_all
  Src_serialframe_proofs Src_parse_req_lemmas Src_records_proofs Src_config_base Src_config_req.
From NX Require Src_parse_req_proofs Src_info_proofs.
From NX Require Frame Request Info Info_proofs Config Config_proofs Gen_frame Gen_req.
Import ListNotations.
Open Scope string_scope.
Open Scope Z_scope.

#[local] Hint Unfold pa RQ.pa IN.pa sf chans_obj intf_obj queue_obj comm
  dev_obj dev_obj' IN.ack_obj frame_obj perr_obj item_pv emb_ack emb_req : cfg_model.
Ltac py_unfold_hook ::= autounfold with cfg_model.
#[local] Arguments norm_index : simpl never.
#[local] Arguments enum_id : simpl never.
#[local] Arguments dev_rec : simpl never.
#[local] Arguments div_sup : simpl never.
#[local] Arguments ack_sup : simpl never.
#[local] Arguments set_at : simpl never.
#[local] Arguments is_none !x /.
#[local] Arguments ack_step : simpl never.
#[local] Arguments Request.frame_enable : simpl never.
#[local] Arguments Request.frame_div : simpl never.
#[local] Arguments py_index : simpl never.
#[local] Hint Resolve dev_func device_data_func dev_func_r
  channel_enable_single_func channel_enable_vec_func channel_div_single_func channel_div_vec_func
  channel_enable_single_func_r channel_enable_vec_func_r channel_div_single_func_r channel_div_vec_func_r
  en_channels_update_func div_channels_update_func : pyspec.

Lemma py_index_map_ofnat {B} (g : B -> pv) l k :
  py_index (PList (map g l)) (PInt (Z.of_nat k)) =
  match nth_error l k with Some b => PyLite.Ok (g b) | None => Exc "IndexError" end.
Proof. exact (py_index_map_nat g l k). Qed.

Ltac py_stuck_hook h ::=
  lazymatch h with
  | norm_index (List.length (map _ _)) _ => rewrite map_length
  | get_attr _ _ (dev_rec _ _ _) "chmax" => rewrite dev_rec_chmax
  | get_attr _ _ (dev_rec _ _ _) "div_supported" => rewrite dev_rec_div
  | get_attr _ _ (dev_rec _ _ _) "ack_supported" => rewrite dev_rec_ack
  | py_index (PList (map ?g ?l)) (PInt (Z.of_nat ?k)) => rewrite (py_index_map_ofnat g l k)
  end.

(** The loop state of the scan, with all names read off the AST of the method
    ([scan_names], evaluated inside [write_request]): [vs] the receiver, [pre]
    the locals assigned in front of the loop IN THEIR ORDER (the counter and
    the index, whichever comes first), [cnt] which of them is the counter (the
    one the loop body increments), [vi]/[vy] the two loop variables.  Nothing
    is said about locals that appear after the loop (single-use temporaries
    may come and go). *)
Record scan_names := mkScanNames
  { sn_self : string; sn_pre : list string; sn_cnt : string; sn_i : string; sn_y : string }.

Definition scan_names_of (f : func) : scan_names :=
  mkScanNames (param0 f) (assigned_before_for (f_body f))
    (match first_aug_ss (loop_body f) with Some x => x | None => "" end)
    (fst (loop_pair f)) (snd (loop_pair f)).

Definition scan_env {A} (nm : scan_names) (g : A -> pv) (self : pv) (st : scan_st A) : env :=
  ((sn_self nm, self)
     :: map (fun x => (x, if String.eqb x (sn_cnt nm) then PInt (fst (fst st)) else PInt (Z.of_nat (snd (fst st)))))
            (sn_pre nm)
     ++ match snd st with Some (i, y) => [(sn_i nm, PInt (Z.of_nat i)); (sn_y nm, g y)] | None => [] end)%list.

(** [scan_env] on literal names, as a concrete association list *)
Ltac scan_env_lit :=
  cbn [scan_env sn_self sn_pre sn_cnt sn_i sn_y map app fst snd String.eqb Ascii.eqb Bool.eqb].

Definition scan_inv {A} (len : nat) (rem : list (nat * A)) (st : scan_st A) : Prop :=
  forall i y, In (i, y) rem -> (i < len)%nat.

Lemma nth_error_nth_lt {A} (l : list A) i d : (i < List.length l)%nat -> nth_error l i = Some (nth i l d).
Proof. intros H. apply nth_error_nth'. exact H. Qed.

(** the request the client chooses, and its two possible new views *)
Definition en_request (c : Config.client) : Request.en_req :=
  let '(j, k) := Config.diff_scan Bool.eqb (Config.en_new c) (Config.en_now c) 0 0 0 in
  if Nat.eqb j 1 && Config.en_sync c then Request.EnSingle (Z.of_nat k) (nth k (Config.en_new c) false)
  else Request.EnVec (Config.en_new c).
Definition en_done (c : Config.client) : Config.client :=
  Config.mkCli (Config.en_new c) (Config.en_new c) (Config.div_now c) (Config.div_new c) true (Config.div_sync c).
Definition en_failed (c : Config.client) : Config.client :=
  Config.mkCli (Config.en_now c) (Config.en_new c) (Config.div_now c) (Config.div_new c) false (Config.div_sync c).

Definition div_request (c : Config.client) : Request.div_req :=
  let '(j, k) := Config.diff_scan Z.eqb (Config.div_new c) (Config.div_now c) 0 0 0 in
  if Nat.eqb j 1 && Config.div_sync c then Request.DivSingle (Z.of_nat k) (nth k (Config.div_new c) 0)
  else Request.DivVec (Config.div_new c).
Definition div_done (c : Config.client) : Config.client :=
  Config.mkCli (Config.en_now c) (Config.en_new c) (Config.div_new c) (Config.div_new c) (Config.en_sync c) true.
Definition div_failed (c : Config.client) : Config.client :=
  Config.mkCli (Config.en_now c) (Config.en_new c) (Config.div_now c) (Config.div_new c) (Config.en_sync c) false.

(** ** The source-level functional model of a write request

    the result of one write request, as a function of
    - the bytes of the request ([fr]; the builder may raise: nothing happens then),
    - what _get_ack makes of the script,
    - whether the mirror accepts the new vector (its length) *)
Inductive wres :=
  | WOk (c : Config.client) (chans : list chan_desc) (w : list bytes) (its : list qitem)
  | WExc (e : string) (c : Config.client) (chans : list chan_desc) (w : list bytes) (its : list qitem)
  | WUnsup (s : string).

Definition write_step {A} (upd : chan_desc -> A -> chan_desc) (new : list A) (c c_ok c_fail : Config.client)
           (chans : list chan_desc) (w : list bytes) (its : list qitem) (acs : bool) (fr : Frame.res bytes) : wres :=
  match fr with
  | Frame.Ok b =>
      match fst (ack_step acs its) with
      | Frame.Ok t =>
          if fst t then
            if Nat.eqb (List.length new) (List.length chans)
            then WOk c_ok (zipw upd chans new) (w ++ [b]) (snd (ack_step acs its))
            else WExc "AssertionError" c_ok chans (w ++ [b]) (snd (ack_step acs its))
          else WOk c_fail chans (w ++ [b]) (snd (ack_step acs its))
      | Frame.Raise e => WExc e c chans (w ++ [b]) (snd (ack_step acs its))
      | Frame.Err _ => WUnsup "Err"
      end
  | Frame.Raise e => WExc e c chans w its
  | Frame.Err _ => WUnsup ""
  end.

Definition src_write_enable (cm flags : Z) (c : Config.client) chans w its : wres :=
  write_step set_en (Config.en_new c) c (en_done c) (en_failed c) chans w its (ack_sup flags)
    (Request.frame_enable (en_request c) cm).
Definition src_write_div (cm flags : Z) (c : Config.client) chans w its : wres :=
  write_step set_div (Config.div_new c) c (div_done c) (div_failed c) chans w its (ack_sup flags)
    (Request.frame_div (div_request c) cm).
(** channels_write: the divider request only if the mirror says dividers are supported *)
Definition src_write (cm flags : Z) (c : Config.client) chans w its : wres :=
  if div_sup flags then
    match src_write_div cm flags c chans w its with
    | WOk c1 chans1 w1 its1 => src_write_enable cm flags c1 chans1 w1 its1
    | r => r
    end
  else src_write_enable cm flags c chans w its.

Definition emb_wres (cm flags rxp : Z) (r : wres) : PyLite.res (pv * option pv) :=
  match r with
  | WOk c chans w its => PyLite.Ok (PNone, Some (comm c (dev_obj' cm flags rxp chans) w (map item_pv its)))
  | WExc e c chans w its => ExcS e (self_st (comm c (dev_obj' cm flags rxp chans) w (map item_pv its)))
  | WUnsup s => Unsupported s
  end.
#[local] Hint Unfold emb_wres write_step src_write_enable src_write_div src_write : cfg_model.

Ltac cfg_fin :=
  try (cbn [Config.en_now Config.en_new Config.div_now Config.div_new Config.en_sync Config.div_sync] in *;
       subst; reflexivity).

(** both write requests by one script: [g] embeds the elements, [eqb]/[d] are
    the model's comparison and default, [new]/[now] the two vectors *)
Ltac split_bools a b :=
  lazymatch type of a with
  | bool => destruct a, b
  | _ => idtac
  end.

Ltac write_request f g eqb d new now c cm flags rxp chans w its request srcw :=
  let nm := eval cbv in (scan_names_of f) in
  let Hlen := fresh "Hlen" in
  intros Hlen; pystart; pysteps; rewrite enumerate_map;
  loop_env (scan_env nm g (comm c (dev_obj' cm flags rxp chans) w (map item_pv its)) ((0, O), @None (nat * _)));
  rewrite (for_loop_fold_inv (scan_inv (List.length now))
             (scan_env nm g (comm c (dev_obj' cm flags rxp chans) w (map item_pv its)))
             (fun kv => PTuple [PInt (Z.of_nat (fst kv)); g (snd kv)])
             (scan_step eqb d new now));
  [ let HF := fresh "HF" in
    pose proof (scan_fold eqb d now new [] [] 0 0 None eq_refl Hlen) as HF;
    cbn [app List.length] in HF; change (Z.of_nat 0) with 0 in HF;
    unfold emb_wres, srcw, write_step, request;
    let jz := fresh "jz" in let kk := fresh "kk" in let o := fresh "o" in
    let j' := fresh "j'" in let k' := fresh "k'" in let Hs := fresh "Hs" in let Ej := fresh "Ej" in
    destruct (fold_left _ _ _) as [[jz kk] o]; cbn [fst] in HF;
    destruct (Config.diff_scan _ _ _ _ _ _) as [j' k'] eqn:Hs; cbn [fst snd] in HF; inversion HF; subst jz kk; clear HF;
    scan_env_lit;
    destruct (Nat.eqb j' 1) eqn:Ej;
    [ let HjZ := fresh "HjZ" in let Hk := fresh "Hk" in let Hk' := fresh "Hk'" in let Hn := fresh "Hn" in
      assert (HjZ : (Z.of_nat j' =? 1) = true) by lia;
      pose proof (diff_scan_k eqb new now 0 0 0 Hlen) as Hk;
      rewrite Hs in Hk; cbn [fst snd] in Hk;
      assert (Hk' : (k' < List.length new)%nat) by lia;
      pose proof (nth_error_nth_lt new k' d Hk') as Hn;
      destruct o as [[? ?]|]; cbn [app andb]; pyrun; cfg_fin
    | let HjZ := fresh "HjZ" in
      assert (HjZ : (Z.of_nat j' =? 1) = false) by lia;
      destruct o as [[? ?]|]; cbn [app andb]; pyrun; cfg_fin ]
  | let j := fresh "j" in let k := fresh "k" in let o := fresh "o" in let i := fresh "i" in let y := fresh "y" in
    let r := fresh "r" in let Hinv := fresh "Hinv" in let Hi := fresh "Hi" in let Hi' := fresh "Hi'" in
    let Hw := fresh "Hw" in let Hn := fresh "Hn" in let a := fresh "a" in let b := fresh "b" in
    intros [[j k] o] [i y] r Hinv;
    assert (Hi : (i < List.length now)%nat) by (apply (Hinv i y); left; reflexivity);
    split; [|let i' := fresh in let y' := fresh in let Hin := fresh in
             intros i' y' Hin; apply (Hinv i' y'); right; exact Hin];
    pose proof (nth_error_nth_lt now i d Hi) as Hw;
    assert (Hi' : (i < List.length new)%nat) by lia;
    pose proof (nth_error_nth_lt new i d Hi') as Hn;
    unfold scan_step; scan_env_lit;
    set (a := nth i new d) in *; set (b := nth i now d) in *;
    clearbody a b; split_bools a b; destruct o as [[? ?]|]; cbn [app]; pyrun
  | let i := fresh "i" in let y := fresh "y" in let Hin := fresh "Hin" in
    intros i y Hin; apply in_enumerate_lt in Hin; lia ].

Lemma nxslib_channels_enable_func n c cm flags rxp chans w its :
  List.length (Config.en_new c) = List.length (Config.en_now c) ->
  call_func program (S (S (S (S (S n))))) CommHandler__nxslib_channels_enable
    [comm c (dev_obj' cm flags rxp chans) w (map item_pv its)] [] =
  emb_wres cm flags rxp (src_write_enable cm flags c chans w its).
Proof. write_request CommHandler__nxslib_channels_enable PBool Bool.eqb false (Config.en_new c) (Config.en_now c) c cm flags rxp chans w its en_request src_write_enable. Qed.

Lemma nxslib_channels_div_func n c cm flags rxp chans w its :
  List.length (Config.div_new c) = List.length (Config.div_now c) ->
  call_func program (S (S (S (S (S n))))) CommHandler__nxslib_channels_div
    [comm c (dev_obj' cm flags rxp chans) w (map item_pv its)] [] =
  emb_wres cm flags rxp (src_write_div cm flags c chans w its).
Proof. write_request CommHandler__nxslib_channels_div PInt Z.eqb 0 (Config.div_new c) (Config.div_now c) c cm flags rxp chans w its div_request src_write_div. Qed.


Definition nxslib_channels_enable_func_r n a b c d e f := nxslib_channels_enable_func n (Config.mkCli a b c d e f).
Definition nxslib_channels_div_func_r n a b c d e f := nxslib_channels_div_func n (Config.mkCli a b c d e f).
#[local] Hint Resolve nxslib_channels_enable_func_r nxslib_channels_div_func_r : pyspec.

(** * 4. channels_write *)
Lemma channels_write_func n c cm flags rxp chans w its :
  List.length (Config.en_new c) = List.length (Config.en_now c) ->
  List.length (Config.div_new c) = List.length (Config.div_now c) ->
  call_func program (S (S (S (S (S (S n)))))) CommHandler_channels_write
    [comm c (dev_obj' cm flags rxp chans) w (map item_pv its)] [] =
  emb_wres cm flags rxp (src_write cm flags c chans w its).
Proof. intros He Hd. pystart. pyrun. Qed.

(** the hooks are global Ltac state: restore the defaults for whoever loads this file *)
Ltac py_stuck_hook h ::= fail.
Ltac py_unfold_hook ::= idtac.

(** * Audit *)
Print Assumptions nxslib_channels_enable_func.
Print Assumptions nxslib_channels_div_func.
Print Assumptions channels_write_func.

(** C15 end to end: instances of [stream_end_to_end] for every kind of type, and
    the refuted generalisations (why each condition of [sample_fits] is there). *)
From Coq Require Import Lia String.
From NX Require Import Bytes PyStruct StructCanon Request Utf8 StreamTypes Rn53 Stream Frame_proofs
  Stream_proofs Stream_enc_proofs Stream_e2e_spec Stream_e2e_lemmas Stream_e2e.
Open Scope string_scope.
Open Scope list_scope.
Open Scope Z_scope.

Ltac e2e := apply e2e_instance; [vm_compute; reflexivity|vm_compute; reflexivity|vm_compute; reflexivity|discriminate].

(** * all 19 rows of the standard table (types 1..19), extreme values, every
    metadata shape (0, 1, 2, 3, 4, 8 bytes), one sample with metadata only
    (channel 0, the data-less type), one empty sample in the middle (dropped) *)
Definition lay_std : layout :=
  [mkChanL 1 0 1 0; mkChanL 2 2 0 1; mkChanL 3 2 0 2; mkChanL 4 2 2 3; mkChanL 5 2 0 4;
   mkChanL 6 1 4 5; mkChanL 7 1 0 6; mkChanL 8 1 8 7; mkChanL 9 1 0 8;
   mkChanL 10 3 0 9; mkChanL 11 2 3 10;
   mkChanL 12 2 0 11; mkChanL 13 2 0 12; mkChanL 14 1 0 13; mkChanL 15 1 0 14;
   mkChanL 16 1 0 15; mkChanL 17 2 0 16; mkChanL 18 4 0 17; mkChanL 19 6 1 18].

Definition l_std : list esample :=
  [mkESample 0 1 0 1 [] [7];
   mkESample 1 2 2 0 [EVInt 0; EVInt 255] [];
   mkESample 2 3 2 0 [EVInt (-128); EVInt 127] [];
   mkESample 3 4 2 2 [EVInt 65535; EVInt 1] [65535];
   mkESample 4 5 2 0 [EVInt (-32768); EVInt 32767] [];
   mkESample 5 6 1 4 [EVInt 4294967295] [4294967295];
   mkESample 6 7 1 0 [EVInt (-2147483648)] [];
   mkESample 9 99 77 5 [] [];                                     (* empty: left out *)
   mkESample 7 8 1 8 [EVInt 18446744073709551615] [18446744073709551615];
   mkESample 8 9 1 0 [EVInt (-9223372036854775808)] [];
   mkESample 9 10 3 0 [EVF32 1084227584; EVInt (-1); EVInt 16777217] [];
   mkESample 10 11 2 3 [EVF64 4617315517961601024; EVInt 5] [1; 2; 255];
   mkESample 11 12 2 0 [EVFix 384; EVInt 255] [];
   mkESample 12 13 2 0 [EVFix (-32768); EVFix 1] [];
   mkESample 13 14 1 0 [EVFix 4294967295] [];
   mkESample 14 15 1 0 [EVFix (-98304)] [];
   mkESample 15 16 1 0 [EVFix 18446744073709549568] [];           (* (2^53 - 1) * 2^11: the largest *)
   mkESample 16 17 2 0 [EVFix (-9223372036854775808); EVInt (-3)] [];
   mkESample 17 18 4 0 [EVText [104; 105]%N] [];
   mkESample 18 19 6 1 [EVText [104; 233; 8364]%N] [9]].

Example e2e_std_all :
  exists frame payload,
    frame_stream_encode [] l_std = Ok (Some frame) /\
    frame_decode frame = Ok (1, payload) /\
    stream_decode lay_std [] payload = Ok (Some (0,
      [mkSample 0 0 0 1 [] [SVInt 7];
       mkSample 1 1 2 0 [SVInt 0; SVInt 255] [];
       mkSample 2 1 2 0 [SVInt (-128); SVInt 127] [];
       mkSample 3 1 2 2 [SVInt 65535; SVInt 1] [SVInt 65535];
       mkSample 4 1 2 0 [SVInt (-32768); SVInt 32767] [];
       mkSample 5 1 1 4 [SVInt 4294967295] [SVInt 4294967295];
       mkSample 6 1 1 0 [SVInt (-2147483648)] [];
       mkSample 7 1 1 8 [SVInt 18446744073709551615] [SVInt 18446744073709551615];
       mkSample 8 1 1 0 [SVInt (-9223372036854775808)] [];
       (* 5.0f, -1.0f, and 16777217 rounded to single: 16777216.0f *)
       mkSample 9 1 3 0 [SVF32 1084227584; SVF32 3212836864; SVF32 1266679808] [];
       mkSample 10 1 2 3 [SVF64 4617315517961601024; SVF64 4617315517961601024] [SVInt 1; SVInt 2; SVInt 255];
       mkSample 11 1 2 0 [SVDyad 3 1; SVDyad 255 0] [];                  (* 384/256 = 3/2 ; 255 *)
       mkSample 12 1 2 0 [SVDyad (-1) (-7); SVDyad 1 8] [];              (* -128 ; 1/256 *)
       mkSample 13 1 1 0 [SVDyad 4294967295 16] [];
       mkSample 14 1 1 0 [SVDyad (-3) 1] [];                             (* -98304/65536 = -3/2 *)
       mkSample 15 1 1 0 [SVDyad 9007199254740991 21] [];
       mkSample 16 1 2 0 [SVDyad (-1) (-31); SVDyad (-3) 0] [];          (* -2^31 ; -3 *)
       mkSample 17 2 4 0 [SVText [104; 105; 0; 0]%N] [];                 (* "hi" + 2 NULs of the 4-byte field *)
       mkSample 18 2 6 1 [SVText [104; 233; 8364]%N] [SVInt 9]])).       (* "hé€" = 6 bytes: exact *)
Proof. e2e. Qed.

(** * channel ids 254 and 200 (255 channels in the layout) *)
Definition lay_255 : layout := map (fun i => mkChanL 5 1 0 (Z.of_nat i)) (seq 0 255).

Example e2e_chan_254_200 :
  exists frame payload,
    frame_stream_encode [] [mkESample 254 5 1 0 [EVInt (-2)] []; mkESample 200 5 1 0 [EVInt 3] []] = Ok (Some frame) /\
    frame_decode frame = Ok (1, payload) /\
    stream_decode lay_255 [] payload =
      Ok (Some (0, [mkSample 254 1 1 0 [SVInt (-2)] []; mkSample 200 1 1 0 [SVInt 3] []])).
Proof. e2e. Qed.

(** * user-defined types: COMPLEX "hB", NUM "2h" with metadata, CHAR "4s", a NONE-kind
    row of two pad bytes carrying metadata only, and a COMPLEX row where the
    client sees the canonical values (1 given to '?' is True, 5 given to 'f' is
    5.0f, text given to "3s" is padded bytes) *)
Definition user1 : utable :=
  [(100, (mkRow 1 "hB" SNone 3, true)); (101, (mkRow 1 "2h" SNone 1, true));
   (102, (mkRow 1 "4s" SNone 2, true)); (103, (mkRow 1 "2x" SNone 0, true));
   (104, (mkRow 1 "?fd3sc" SNone 3, true))].
Definition lay_user : layout :=
  [mkChanL 100 3 0 0; mkChanL 101 4 1 1; mkChanL 102 4 0 2; mkChanL 103 2 2 3; mkChanL 104 17 0 4].

Example e2e_user :
  exists frame payload,
    frame_stream_encode user1
      [mkESample 0 100 3 0 [EVInt (-2); EVInt 200] [];
       mkESample 1 101 4 1 [EVInt 1; EVInt (-1)] [3];
       mkESample 2 102 4 0 [EVText [111; 107]%N] [];
       mkESample 3 103 2 2 [] [513];
       mkESample 4 104 17 0 [EVInt 2; EVInt 5; EVF64 4617315517961601024; EVText [97]%N; EVBytes [255%N]] []]
      = Ok (Some frame) /\
    frame_decode frame = Ok (1, payload) /\
    stream_decode lay_user user1 payload = Ok (Some (0,
      [mkSample 0 3 3 0 [SVInt (-2); SVInt 200] [];
       mkSample 1 1 4 1 [SVInt 1; SVInt (-1)] [SVInt 3];
       mkSample 2 2 4 0 [SVText [111; 107; 0; 0]%N] [];
       mkSample 3 0 2 2 [] [SVInt 513];
       mkSample 4 3 17 0 [SVBool true; SVF32 1084227584; SVF64 4617315517961601024;
                          SVBytes [97; 0; 0]%N; SVBytes [255%N]] []])).
Proof. e2e. Qed.

(** * a sample with metadata only (possible for the data-less type) *)
Example e2e_meta_only :
  exists frame payload,
    frame_stream_encode [] [mkESample 0 1 0 4 [] [305419896]] = Ok (Some frame) /\
    frame_decode frame = Ok (1, payload) /\
    stream_decode [mkChanL 1 0 4 0] [] payload = Ok (Some (0, [mkSample 0 0 0 4 [] [SVInt 305419896]])).
Proof. e2e. Qed.

(** * empty samples in the middle are dropped, order is kept *)
Example e2e_empty_middle :
  exists frame payload,
    frame_stream_encode []
      [mkESample 1 3 1 0 [EVInt 1] []; mkESample 0 3 1 0 [] []; mkESample 7 0 0 0 [] [];
       mkESample 0 3 1 0 [EVInt 2] []; mkESample 1 3 1 0 [EVInt 3] []] = Ok (Some frame) /\
    frame_decode frame = Ok (1, payload) /\
    stream_decode [mkChanL 3 1 0 0; mkChanL 3 1 0 1] [] payload =
      Ok (Some (0, [mkSample 1 1 1 0 [SVInt 1] []; mkSample 0 1 1 0 [SVInt 2] []; mkSample 1 1 1 0 [SVInt 3] []])).
Proof. e2e. Qed.

(** * the all-empty list: no frame (through the theorem) *)
Example e2e_all_empty :
  let l := [mkESample 0 3 1 0 [] []; mkESample 5 77 1 9 [] []] in
  frame_stream_encode [] l = Ok None /\ Forall empty_sample l.
Proof.
  intros l.
  assert (Hf : Forall (sample_fits [] []) l) by (repeat constructor).
  pose proof (stream_end_to_end [] [] l Hf ltac:(vm_compute; discriminate)) as T.
  assert (E : frame_stream_encode [] l = Ok None) by (vm_compute; reflexivity).
  rewrite E in T. split; [exact E|exact T].
Qed.

(** * REFUTED generalisations: each names a condition of [sample_fits] / the
    theorem, shows the sample violates exactly that, and what happens instead *)

(** 64-bit fixed point: a multiple of 2^-32 in range that no Python float holds
    (raw = 2^53 + 1) is encoded, but the client's  raw / 2^32  is a float
    division: it shows 2^21, not (2^53 + 1) / 2^32 *)
Example fix64_wide_refuted :
  let lay := [mkChanL 16 1 0 0] in
  let l := [mkESample 0 16 1 0 [EVFix 9007199254740993] []] in
  sample_fitsb lay [] (mkESample 0 16 1 0 [EVFix 9007199254740993] []) = false /\
  int_in CQ 9007199254740993 = true /\
  match stream_data_encode [] l with
  | Ok (Some payload) =>
      stream_decode lay [] payload = Ok (Some (0, [mkSample 0 1 1 0 [SVDyad 1 (-21)] []]))
  | _ => False
  end /\
  map (decoded_of []) l = [mkSample 0 1 1 0 [SVDyad 9007199254740993 32] []].
Proof. vm_compute. repeat split. Qed.

(** F18: a user CHAR type whose format has more than one item cannot be encoded *)
Example user_char_multi_refuted :
  let user := [(100, (mkRow 1 "2s2s" SNone 2, true))] in
  let s := mkESample 0 100 4 0 [EVText [97; 98; 99; 100]%N] [] in
  sample_fitsb [mkChanL 100 4 0 0] user s = false /\
  frame_stream_encode user [s] = Raise "struct.error".
Proof. vm_compute. split; reflexivity. Qed.

(** text longer than the field is cut, here in the middle of a character *)
Example text_cut_refuted :
  let lay := [mkChanL 18 2 0 0] in
  let s := mkESample 0 18 2 0 [EVText [104; 8364]%N] [] in
  sample_fitsb lay [] s = false /\
  match stream_data_encode [] [s] with
  | Ok (Some payload) => stream_decode lay [] payload = Ok (Some (0, [mkSample 0 2 2 0 [SVLossy] []]))
  | _ => False
  end.
Proof. vm_compute. split; reflexivity. Qed.

(** text shorter than the field is NOT returned as it was: the NUL padding of the
    field is part of the decoded text (this is what [decoded_of] says) *)
Example text_padding_visible :
  let lay := [mkChanL 18 4 0 0] in
  let s := mkESample 0 18 4 0 [EVText [104; 105]%N] [] in
  sample_fitsb lay [] s = true /\
  decoded_of [] s = mkSample 0 2 4 0 [SVText [104; 105; 0; 0]%N] [] /\
  decoded_of [] s <> mkSample 0 2 4 0 [SVText [104; 105]%N] [].
Proof. vm_compute. repeat split. discriminate. Qed.

(** an invalid code point (a surrogate) *)
Example text_surrogate_refuted :
  let s := mkESample 0 18 4 0 [EVText [55296]%N] [] in
  sample_fitsb [mkChanL 18 4 0 0] [] s = false /\
  frame_stream_encode [] [s] = Raise "UnicodeEncodeError".
Proof. vm_compute. split; reflexivity. Qed.

(** an integer outside the range of its code; an integer too large for a single *)
Example int_range_refuted :
  let s := mkESample 0 2 1 0 [EVInt 256] [] in
  sample_fitsb [mkChanL 2 1 0 0] [] s = false /\ frame_stream_encode [] [s] = Raise "struct.error".
Proof. vm_compute. split; reflexivity. Qed.

Example float_overflow_refuted :
  let s := mkESample 0 10 1 0 [EVInt (2 ^ 128)] [] in
  sample_fitsb [mkChanL 10 1 0 0] [] s = false /\ frame_stream_encode [] [s] = Raise "struct.error".
Proof. vm_compute. split; reflexivity. Qed.

(** a sample with metadata only on a type that has data: refused by the encoder
    (only the data-less type, or a user row without values, can carry metadata alone) *)
Example meta_only_num_refuted :
  let s := mkESample 0 7 1 1 [] [5] in
  sample_fitsb [mkChanL 7 1 1 0] [] s = false /\ frame_stream_encode [] [s] = Raise "struct.error".
Proof. vm_compute. split; reflexivity. Qed.

(** data but no metadata on a channel with mlen 1 *)
Example meta_missing_refuted :
  let s := mkESample 0 7 1 1 [EVInt 5] [] in
  sample_fitsb [mkChanL 7 1 1 0] [] s = false /\ frame_stream_encode [] [s] = Raise "struct.error".
Proof. vm_compute. split; reflexivity. Qed.

(** a sample that disagrees with the layout entry of its channel (vdim 2 against 1):
    the frame is built, the client fails on it *)
Example layout_mismatch_refuted :
  let lay := [mkChanL 3 1 0 0] in
  let s := mkESample 0 3 2 0 [EVInt 1; EVInt 2] [] in
  sample_fitsb lay [] s = false /\
  match stream_data_encode [] [s] with
  | Ok (Some payload) => stream_decode lay [] payload = Raise "AssertionError"
  | _ => False
  end.
Proof. vm_compute. split; reflexivity. Qed.

(** more than 65529 payload bytes: 256 representable samples of 256 bytes each *)
Example too_long_refuted :
  let lay := [mkChanL 2 255 0 0] in
  let l := repeat (mkESample 0 2 255 0 (repeat (EVInt 1) 255) []) 256 in
  forallb (sample_fitsb lay []) l = true /\ payload_size l = 65537 /\
  frame_stream_encode [] l = Raise "struct.error".
Proof.
  intros lay l.
  assert (Hb : forallb (sample_fitsb lay []) l = true) by (vm_compute; reflexivity).
  assert (Hs : payload_size l = 65537) by (vm_compute; reflexivity).
  split; [exact Hb|]. split; [exact Hs|].
  apply (stream_too_long lay); [|lia].
  apply Forall_forall. intros s Hin. rewrite forallb_forall in Hb. exact (Hb s Hin).
Qed.

(** ... and the largest list of such samples that fits: 255 of them (65281 bytes) *)
Example longest_ok :
  let lay := [mkChanL 2 255 0 0] in
  let l := repeat (mkESample 0 2 255 0 (repeat (EVInt 1) 255) []) 255 in
  exists frame payload,
    frame_stream_encode [] l = Ok (Some frame) /\ frame_decode frame = Ok (1, payload) /\
    stream_decode lay [] payload = Ok (Some (0, repeat (mkSample 0 1 255 0 (repeat (SVInt 1) 255) []) 255)).
Proof. intros lay l. e2e. Qed.

Print Assumptions e2e_std_all.
Print Assumptions e2e_user.
Print Assumptions too_long_refuted.

(** Generic lemmas for proofs/Src_stream_enc_proofs.v: PyLite's exact float
    scaling, decimal strings, text as UTF-8 bytes, struct arguments,
    comprehensions over a restricted domain. *)
From Coq Require Import String Ascii List ZArith NArith Bool Lia ZifyBool DecimalString.
From NX Require Import Bytes PyStruct Crc Utf8 Rn53 PyLite PyLite_tactics.
From NX Require Import Bytes_proofs Utf8_proofs Stream_values.
From NX Require Stream.
Import ListNotations.
Open Scope string_scope.
Open Scope Z_scope.

(** * Dyadic normalisation and exact scaling by a power of two *)

Lemma dyad_norm_fuel_odd fuel : forall num e,
  Z.abs num < 2 ^ Z.of_nat fuel ->
  fst (dyad_norm_fuel fuel num e) = 0 \/ Z.odd (fst (dyad_norm_fuel fuel num e)) = true.
Proof.
  induction fuel as [|fuel IH]; intros num e H; cbn [dyad_norm_fuel].
  - left. cbn [fst]. change (2 ^ Z.of_nat 0) with 1 in H. lia.
  - destruct (num =? 0) eqn:E0; [left; reflexivity|].
    destruct (Z.even num) eqn:Ev.
    + apply IH. rewrite Nat2Z.inj_succ, Z.pow_succ_r in H by lia.
      apply Z.even_spec in Ev. destruct Ev as [q ->].
      rewrite Z.mul_comm, Z.div_mul by lia. lia.
    + right. cbn [fst]. rewrite <- Z.negb_even, Ev. reflexivity.
Qed.

Lemma dyad_norm_zero e : dyad_norm 0 e = (0, 0).
Proof. reflexivity. Qed.

(** [dyad_norm] of a nonzero number of at most 2^53 in magnitude *)
Lemma dyad_norm_spec m x :
  m <> 0 -> Z.abs m <= 2 ^ 53 ->
  exists n e, dyad_norm m x = (n, e) /\ n <> 0 /\ Z.odd n = true /\ e <= x /\ x - e <= 53 /\
              m = n * 2 ^ (x - e) /\ Z.abs n <= Z.abs m.
Proof.
  intros Hm Hb. unfold dyad_norm.
  pose proof (dyad_norm_fuel_spec 200 m x) as S.
  pose proof (dyad_norm_fuel_odd 200 m x) as O.
  destruct (dyad_norm_fuel 200 m x) as [n e]. cbn [fst] in O.
  destruct S as [_ S]. destruct (S Hm) as [E L].
  assert (Hn : n <> 0) by (intros ->; lia).
  exists n, e. split; [reflexivity|]. split; [exact Hn|].
  assert (P : 0 < 2 ^ (x - e)) by (apply Z.pow_pos_nonneg; lia).
  assert (A : Z.abs m = Z.abs n * 2 ^ (x - e)) by (rewrite E, Z.abs_mul, (Z.abs_eq (2 ^ (x - e))) by lia; reflexivity).
  split.
  { assert (2 ^ 53 < 2 ^ Z.of_nat 200) by (apply Z.pow_lt_mono_r; lia).
    destruct O as [O|O]; [lia|contradiction|exact O]. }
  split; [exact L|]. split.
  { destruct (Z_le_gt_dec (x - e) 53) as [?|G]; [assumption|exfalso].
    assert (2 ^ 54 <= 2 ^ (x - e)) by (apply Z.pow_le_mono_r; lia).
    assert (2 ^ 53 < 2 ^ 54) by (apply Z.pow_lt_mono_r; lia). nia. }
  split; [exact E|]. nia.
Qed.

Lemma odd_below_pow2 n : n <> 0 -> Z.odd n = true -> Z.abs n <= 2 ^ 53 -> Z.log2 (Z.abs n) < 53.
Proof.
  intros Hn Ho Hb. apply Z.log2_lt_pow2; [lia|].
  assert (Z.abs n <> 2 ^ 53).
  { intros E. assert (Z.odd (Z.abs n) = true) by (destruct n; cbn [Z.abs]; try exact Ho; discriminate).
    rewrite E in H. vm_compute in H. discriminate. }
  lia.
Qed.

(** making a float of  m / 2^x  (x <= 0: an integer scaled up), and rounding it *)
Lemma mk_float_exact m x :
  Z.abs m <= 2 ^ 53 -> 0 <= - x <= 900 ->
  exists n e, mk_float m x = Some (PDy n e) /\ e <= 0 /\ - e <= 53 - x /\
              Z.abs n <= Z.abs m /\ n * 2 ^ (- e) = m * 2 ^ (- x) /\
              dy_round n e = m * 2 ^ (- x).
Proof.
  intros Hb Hx. destruct (Z.eq_dec m 0) as [->|Hm].
  - exists 0, 0. unfold mk_float. rewrite dyad_norm_zero. cbn [fits_double Z.eqb orb].
    repeat split; try lia.
  - destruct (dyad_norm_spec m x Hm Hb) as (n & e & E & Hn & Ho & Le & L53 & Em & Ha).
    exists n, e. unfold mk_float. rewrite E.
    pose proof (odd_below_pow2 n Hn Ho ltac:(lia)) as Hl.
    pose proof (Z.log2_nonneg (Z.abs n)) as Hl0.
    assert (F : fits_double n e = true).
    { unfold fits_double. apply orb_true_iff. right. lia. }
    rewrite F. split; [reflexivity|]. split; [lia|]. split; [lia|]. split; [exact Ha|].
    assert (Ep : n * 2 ^ (- e) = m * 2 ^ (- x)).
    { rewrite Em. replace (- e) with ((x - e) + (- x)) by lia.
      rewrite Z.pow_add_r by lia. ring. }
    split; [exact Ep|]. unfold dy_round. replace (e <=? 0) with true by lia. exact Ep.
Qed.

#[global] Arguments binop_float : simpl never.
#[global] Arguments mk_float : simpl never.
#[global] Arguments float_of_int : simpl never.
#[global] Arguments dy_round : simpl never.

(** x * scale for a float x and the scale 2^k *)
Lemma mul_scale_ff n e k :
  binop_float OMul n e 1 (- k) true true =
  match mk_float (n * 1) (e + - k) with Some v => PyLite.Ok v | None => Unsupported "float range" end.
Proof.
  unfold binop_float. change (Z.abs 1 =? 1) with true. rewrite orb_true_r. reflexivity.
Qed.

(** z * scale for an int z: converted first *)
Lemma mul_scale_if z k :
  binop_float OMul z 0 1 (- k) false true =
  match float_of_int z with
  | Some (PDy n e) =>
      match mk_float (n * 1) (e + - k) with Some v => PyLite.Ok v | None => Unsupported "float range" end
  | _ => Unsupported "int too large for float"
  end.
Proof.
  unfold binop_float. destruct (float_of_int z) as [[]|]; try reflexivity.
  change (Z.abs 1 =? 1) with true. rewrite orb_true_r. reflexivity.
Qed.

(** round(x * 2^k) gives the raw word back, for the float x = raw / 2^k *)
Lemma round_scale_fix raw k :
  Z.abs raw <= 2 ^ 53 -> 0 <= k <= 64 ->
  exists n e, dyad_norm raw k = (n, e) /\
    exists n' e', binop_float OMul n e 1 (- k) true true = PyLite.Ok (PDy n' e') /\ dy_round n' e' = raw.
Proof.
  intros Hb Hk. destruct (Z.eq_dec raw 0) as [->|Hr].
  - exists 0, 0. split; [apply dyad_norm_zero|]. rewrite mul_scale_ff. cbn [Z.mul Z.add].
    destruct (mk_float_exact 0 (- k)) as (n' & e' & E & _ & _ & _ & _ & R); [lia|lia|].
    rewrite E. exists n', e'. split; [reflexivity|]. rewrite R. reflexivity.
  - destruct (dyad_norm_spec raw k Hr Hb) as (n & e & E & Hn & Ho & Le & L53 & Em & Ha).
    exists n, e. split; [exact E|]. rewrite mul_scale_ff, Z.mul_1_r.
    destruct (mk_float_exact n (e + - k)) as (n' & e' & E' & _ & _ & _ & _ & R); [lia|lia|].
    rewrite E'. exists n', e'. split; [reflexivity|]. rewrite R, Em. f_equal. f_equal. lia.
Qed.

(** round(z * 2^k) = z * 2^k for an int z that converts exactly *)
Lemma round_scale_int z k :
  Z.abs z <= 2 ^ 53 -> 0 <= k <= 64 ->
  exists n' e', binop_float OMul z 0 1 (- k) false true = PyLite.Ok (PDy n' e') /\ dy_round n' e' = z * 2 ^ k.
Proof.
  intros Hb Hk. rewrite mul_scale_if. unfold float_of_int. rewrite rn53_small by exact Hb.
  destruct (mk_float_exact z 0) as (n & e & E & Le & L53 & Ha & Ep & _); [lia|lia|].
  rewrite E, Z.mul_1_r.
  destruct (mk_float_exact n (e + - k)) as (n' & e' & E' & _ & _ & _ & _ & R); [lia|lia|].
  rewrite E'. exists n', e'. split; [reflexivity|]. rewrite R.
  replace (- (e + - k)) with (- e + k) by lia. rewrite Z.pow_add_r by lia.
  rewrite Z.mul_assoc, Ep. change (- 0) with 0. rewrite Z.pow_0_r. ring.
Qed.

(** the scale literal 2^k as a float *)
Lemma dyad_norm_pow2 k : 0 <= k <= 64 -> dyad_norm (2 ^ k) 0 = (1, - k).
Proof.
  intros Hk.
  assert (A : forall j, (j <= 64)%nat -> dyad_norm (2 ^ Z.of_nat j) 0 = (1, - Z.of_nat j)).
  { intros j Hj. do 65 (destruct j as [|j]; [vm_compute; reflexivity|]). lia. }
  rewrite <- (Z2Nat.id k) by lia. apply A. lia.
Qed.

(** * str(n) for n >= 0: PyLite's and the model's *)
Lemma string_of_Z_nonneg z : 0 <= z -> string_of_Z z = Stream.str_of_Z z.
Proof. intros H. destruct z; [reflexivity|reflexivity|lia]. Qed.

(** decimal strings are digits: the parser reads them as a repeat count *)
Definition digit_chars (l : list ascii) : Prop := Forall (fun a => digit_of_ascii a <> None) l.

Lemma string_of_uint_digits d : digit_chars (String.list_ascii_of_string (NilZero.string_of_uint d)).
Proof.
  assert (A : forall u, digit_chars (String.list_ascii_of_string (NilEmpty.string_of_uint u))).
  { induction u; cbn [NilEmpty.string_of_uint String.list_ascii_of_string]; constructor; try assumption;
      cbn; discriminate. }
  destruct d; try apply A. cbn. constructor; [discriminate|constructor].
Qed.

Lemma list_ascii_app s t :
  String.list_ascii_of_string (s ++ t) = (String.list_ascii_of_string s ++ String.list_ascii_of_string t)%list.
Proof. induction s as [|a s IH]; cbn [String.append String.list_ascii_of_string app]; [reflexivity|rewrite IH; reflexivity]. Qed.

Lemma parse_items_digits_code l a c : digit_chars l -> code_of_ascii a = Some c ->
  digit_of_ascii a = None -> is_space a = false ->
  forall cnt, exists k, parse_items (l ++ [a]) cnt = Some [mkItem k c].
Proof.
  intros Hl Hc Hd Hs. induction Hl as [|d l Hd1 _ IH]; intros cnt; cbn [app parse_items].
  - rewrite Hd, Hs, Hc. eexists. reflexivity.
  - destruct (digit_of_ascii d) as [v|]; [|contradiction]. apply IH.
Qed.

(** a native-mode format made of one counted code is alignment-free *)
Lemma native_counted_safe z a c fm : code_of_ascii a = Some c ->
  digit_of_ascii a = None -> is_space a = false ->
  parse_fmt (Stream.str_of_Z z ++ String a "") = Some fm -> native_safe fm = true.
Proof.
  intros Hc Hd Hs. unfold parse_fmt. rewrite list_ascii_app. cbn [String.list_ascii_of_string].
  unfold Stream.str_of_Z.
  pose proof (string_of_uint_digits (N.to_uint (Z.to_N z))) as D.
  destruct (String.list_ascii_of_string (NilZero.string_of_uint (N.to_uint (Z.to_N z)))) as [|d r] eqn:El.
  - cbn [app]. destruct a as [[] [] [] [] [] [] [] []]; cbn in Hc; try discriminate;
      cbn; intros H; inversion H; reflexivity.
  - destruct (parse_items_digits_code (d :: r) a c D Hc Hd Hs None) as [k E].
    inversion D as [|? ? Dd Dr]; subst.
    cbn [app] in *.
    destruct d as [[] [] [] [] [] [] [] []]; cbn in Dd; try (exfalso; apply Dd; reflexivity);
      rewrite E; cbn; intros H; inversion H; reflexivity.
Qed.

(** a format with the "<" prefix is not native *)
Lemma parse_le_safe r f : parse_fmt (String "<" r) = Some f -> native_safe f = true.
Proof.
  unfold parse_fmt. cbn [String.list_ascii_of_string].
  destruct (parse_items (String.list_ascii_of_string r) None); cbn [option_map]; [|discriminate].
  intros H. inversion H. reflexivity.
Qed.

(** * text: a Coq string holds the UTF-8 bytes *)
Lemma str_bytes_str b : wf_bytes b -> str_bytes (bytes_str b) = b.
Proof.
  unfold str_bytes, bytes_str. rewrite String.list_ascii_of_string_of_list_ascii.
  induction 1 as [|x l Hx _ IH]; cbn [map]; [reflexivity|].
  rewrite IH, N_ascii_embedding by exact Hx. reflexivity.
Qed.

Lemma forallb_Forall {A} (f : A -> bool) l : forallb f l = true -> Forall (fun c => f c = true) l.
Proof. intros H. apply Forall_forall. apply forallb_forall. exact H. Qed.

Lemma str_bytes_utf8 cps : forallb valid_cp cps = true -> str_bytes (bytes_str (utf8_enc cps)) = utf8_enc cps.
Proof. intros H. apply str_bytes_str, utf8_enc_wf, forallb_Forall, H. Qed.

(** len(s) > 0 for a string that ends with an ASCII letter *)
Lemma str_len_cons a s :
  str_len (String a s) = (if is_cont (N_of_ascii a) then 0 else 1) + str_len s.
Proof.
  unfold str_len, str_bytes. cbn [String.list_ascii_of_string map filter].
  destruct (is_cont (N_of_ascii a)); cbn [negb]; [lia|].
  unfold zlen. cbn [List.length]. lia.
Qed.

Lemma str_len_nonneg s : 0 <= str_len s.
Proof. unfold str_len. apply zlen_nonneg. Qed.

Lemma str_len_app_pos s a : is_cont (N_of_ascii a) = false -> 0 < str_len (s ++ String a "").
Proof.
  intros Ha. induction s as [|b s IH]; cbn [String.append].
  - rewrite str_len_cons, Ha. change (str_len "") with 0. lia.
  - rewrite str_len_cons. destruct (is_cont (N_of_ascii b)); lia.
Qed.

(** * struct arguments *)
Lemma map_res_to_sv_ints {B} (f : B -> Z) l :
  map_res to_sv (map (fun y => PInt (f y)) l) = PyLite.Ok (map (fun y => VInt (f y)) l).
Proof. induction l as [|y r IH]; cbn [map map_res to_sv bind]; [reflexivity|rewrite IH; reflexivity]. Qed.

Lemma map_res_to_sv_PInt l : map_res to_sv (map PInt l) = PyLite.Ok (map VInt l).
Proof. apply (map_res_to_sv_ints (fun z => z)). Qed.

(** no float among the arguments: a refused [pack] is [struct.error] *)
Lemma no_pdy_ints {B} (f : B -> Z) l : existsb is_pdy (map (fun y => PInt (f y)) l) = false.
Proof. induction l as [|y r IH]; cbn [map existsb is_pdy orb]; [reflexivity|exact IH]. Qed.

Lemma no_pdy_PInt l : existsb is_pdy (map PInt l) = false.
Proof. apply (no_pdy_ints (fun z => z)). Qed.

(** * comprehension over a list whose elements satisfy a predicate *)
Lemma comp_loop_map_Forall {B} (D : B -> Prop) (g : B -> pv) (h : B -> pv) P cf e1 n elt :
  (forall y, D y -> (do (v, _) <- eval P cf ((n, g y) :: e1) elt; PyLite.Ok v) = PyLite.Ok (h y)) ->
  forall l, Forall D l -> comp_loop P cf e1 n elt (map g l) = PyLite.Ok (map h l).
Proof.
  intros H l Hl. induction Hl as [|y r Hy _ IH]; cbn [map]; [reflexivity|].
  rewrite comp_loop_cons, IH. specialize (H y Hy).
  destruct (eval P cf ((n, g y) :: e1) elt) as [[v e']| | | |]; cbn [bind] in *; try discriminate.
  inversion H. reflexivity.
Qed.

(** * The executor, extended (1): a comprehension on the right of an assignment
    AT THE TOP LEVEL of a function body is named ([comp_loop]) before [pylazy]
    can expose its anonymous [fix] (py/PyLite_tactics.v names the loops of
    [SFor]/[SWhile] only); then [comp_loop_map] / [comp_loop_map_Forall] apply.
    [pystep_head_c], [pystep1c], [pystepsc], [pyrunc] are [pystep_head],
    [pystep1], [pysteps], [pyrun] with that one more case.  (Statements of a
    NESTED block -- the branches of an [if] -- are executed by reduction and
    never appear as the head: for those see [pycomp_by] below, which is what
    Src_stream_enc_proofs.v uses.) *)
Lemma exec_SAssign_EComp P cf lf e t k elt n it :
  exec P cf lf e (SAssign t (EComp k elt n it)) =
  do (v, e1) <- (do (vi, e1) <- eval P cf e it;
                 do l <- iter_list vi;
                 do vs <- attach e1 (comp_loop P cf e1 n elt l);
                 PyLite.Ok (match k with KTuple => PTuple vs | KList => PList vs end, e1));
  do e2 <- attach e1 (assign P cf e1 t v); PyLite.Ok (ONorm e2).
Proof. reflexivity. Qed.

Ltac pystep_head_c h :=
  lazymatch h with
  | exec_block _ _ _ _ (Scons (SAssign _ (EComp _ _ _ _)) _) => rewrite exec_block_cons, exec_SAssign_EComp
  | _ => pystep_head h
  end.

Ltac pystep1c :=
  pynorm_head;
  lazymatch goal with
  | |- ?L = _ =>
      let h := head_of L in
      tryif is_result h then fail "pystep: the left-hand side is a result"
      else pystep_head_c h
  end.
Ltac pystepsc := repeat pystep1c; pynorm_head.
Ltac pyrunc := timeout 300 (repeat pystep1c; pyfinish).

(** * The executor, extended (2): comprehensions inside nested blocks
    A comprehension reached inside a nested block is expanded by the
    executor's reduction into an anonymous [fix] over the iterated list, whose
    body is the symbolically executed element expression.  When the list is
    [map g l] for a symbolic [l] whose elements satisfy [D], [pycomp_by D g h tac]
    proves, by induction, that the [fix] computes [map h l] -- [tac y Hy]
    closes the one-element goal for [y] with [Hy : D y] -- and rewrites with it.
    To be called from [py_stuck_hook] (the stuck head is the [fix] applied to
    [map g l]). *)
Ltac pycomp_by D g h elem_tac :=
  match goal with
  | |- context [ ?f (map g ?l) ] =>
      lazymatch f with (fix go (l0 : list pv) {struct l0} : PyLite.res (list pv) := _) => idtac end;
      let H := fresh "Hcomp" in
      assert (H : forall l', Forall D l' -> f (map g l') = PyLite.Ok (map h l'));
      [ let y := fresh "y" in
        let Hy := fresh "Hy" in
        let IH := fresh "IH" in
        induction 1 as [|y ? Hy _ IH]; [reflexivity|];
        cbn [map]; pycbn; rewrite IH; clear IH; pycbn; elem_tac y Hy
      | rewrite (H l) by assumption; clear H ]
  end.

(** the sample format "<B" + str(vdim) + code always parses *)
Lemma parse_chan_counted z a c :
  0 <= z -> code_of_ascii a = Some c -> digit_of_ascii a = None -> is_space a = false ->
  exists f, parse_fmt (String "<" (String "B" (string_of_Z z ++ String a ""))) = Some f.
Proof.
  intros Hz Hc Hd Hs. rewrite string_of_Z_nonneg by exact Hz.
  unfold parse_fmt. cbn [String.list_ascii_of_string]. rewrite list_ascii_app. cbn [String.list_ascii_of_string].
  cbn [parse_items digit_of_ascii is_space code_of_ascii].
  destruct (parse_items_digits_code _ a c (string_of_uint_digits (N.to_uint (Z.to_N z))) Hc Hd Hs None) as [k E].
  unfold Stream.str_of_Z. rewrite E. eexists. reflexivity.
Qed.

Lemma norm_index_S_0 n : norm_index (S n) 0 = Some O.
Proof. unfold norm_index. replace (0 <? Z.of_nat (S n)) with true by lia. reflexivity. Qed.

From Coq Require Import List Bool Lia.
From NX Require Import Trans Worker.
Import ListNotations.

Lemma wpc_eqb_eq a b : wpc_eqb a b = true <-> a = b.
Proof. destruct a, b; cbn; split; intros H; try reflexivity; try discriminate. Qed.
Lemma cpc_eqb_eq a b : cpc_eqb a b = true <-> a = b.
Proof. destruct a, b; cbn; split; intros H; try reflexivity; try discriminate. Qed.
Lemma last_eqb_eq a b : last_eqb a b = true <-> a = b.
Proof. destruct a, b; cbn; split; intros H; try reflexivity; try discriminate. Qed.
Lemma opt_eqb_eq a b : opt_eqb a b = true <-> a = b.
Proof.
  destruct a as [x|], b as [y|]; cbn; split; intros H; try reflexivity; try discriminate.
  - apply wpc_eqb_eq in H. now subst.
  - inversion H. apply wpc_eqb_eq. reflexivity.
Qed.

Lemma ws_eqb_eq a b : ws_eqb a b = true <-> a = b.
Proof.
  unfold ws_eqb. rewrite !andb_true_iff, cpc_eqb_eq, !opt_eqb_eq, last_eqb_eq, !Bool.eqb_true_iff.
  destruct a, b; cbn. split.
  - intros [[[[[-> ->] ->] ->] ->] ->]. reflexivity.
  - intros H; inversion H; subst. repeat split.
Qed.

Lemma labels_all l : In l all_labels.
Proof. destruct l; cbn; auto 10. Qed.

(** the computed set is closed and every member is safe (finite check in the kernel) *)
Lemma reachable_closed : closedb wstate wlabel step all_labels ws_eqb reachable_set = true.
Proof. vm_compute. reflexivity. Qed.
Lemma reachable_safe : forallb safeb reachable_set = true.
Proof. vm_compute. reflexivity. Qed.
Lemma reachable_init : mem wstate ws_eqb init_state reachable_set = true.
Proof. vm_compute. reflexivity. Qed.

(** every start/stop sequence, every interleaving, any length *)
Theorem worker_safe : forall tr s,
  run wstate wlabel step tr init_state = Some s -> safeb s = true.
Proof.
  intros tr s H.
  apply (closed_safe wstate wlabel step all_labels ws_eqb ws_eqb_eq labels_all
           reachable_set safeb init_state reachable_init reachable_closed reachable_safe tr s H).
Qed.

(** consequences spelled out *)
Theorem no_worker_after_stop_returns tr s :
  run wstate wlabel step tr init_state = Some s ->
  w_last s = LStop -> c_pc s = CIdle ->
  w_handle s = None /\ w_orphan s = None \/ (w_handle s = None /\ opt_alive (w_orphan s) = false).
Proof.
  intros H L C. pose proof (worker_safe tr s H) as S. unfold safeb in S. rewrite L, C in S.
  rewrite !andb_true_iff in S. destruct S as [[_ So] [_ Sh]].
  destruct (w_handle s); [discriminate|]. right. split; [reflexivity|].
  now apply negb_true_iff in So.
Qed.

Theorem never_two_alive tr s :
  run wstate wlabel step tr init_state = Some s -> opt_alive (w_orphan s) = false /\ w_bad s = false.
Proof.
  intros H. pose proof (worker_safe tr s H) as S. unfold safeb in S.
  rewrite !andb_true_iff in S. destruct S as [[Sb So] _].
  split; now apply negb_true_iff.
Qed.

(** start on a running worker / stop on a stopped worker change nothing *)
Theorem start_on_running_noop s p :
  c_pc s = CS1 -> w_handle s = Some p ->
  step s LCtl = Some (mkW CIdle (w_flag s) (w_handle s) (w_orphan s) LStart (w_bad s)).
Proof. intros C H. unfold step. rewrite C, H. reflexivity. Qed.

Theorem stop_on_stopped_noop s :
  c_pc s = CT1 -> w_handle s = None ->
  step s LCtl = Some (mkW CIdle (w_flag s) None (w_orphan s) LStop (w_bad s)).
Proof. intros C H. unfold step. rewrite C, H. reflexivity. Qed.

(** a stopped worker can be started again: four controller lines later a fresh
    incarnation is alive with the stop flag cleared *)
Theorem restartable s :
  c_pc s = CIdle -> w_handle s = None ->
  exists s', run wstate wlabel step [LCallStart; LCtl; LCtl; LCtl; LCtl] s = Some s' /\
             w_handle s' = Some WInit /\ w_flag s' = false /\ c_pc s' = CIdle.
Proof.
  intros C H. destruct s as [pc fl hd orp la bad]. cbn in C, H. subst.
  eexists. split; [cbn; reflexivity|]. cbn. repeat split.
Qed.

(** while started and stop not requested the worker can always take its next
    step, and keeps cycling test -> target -> test *)
Theorem worker_progress s p :
  w_handle s = Some p -> alive p = true -> exists s', step s LWrk = Some s'.
Proof.
  intros H A. unfold step. rewrite H. destruct p; try discriminate; cbn; eauto.
Qed.

Theorem worker_loops_until_flag : 
  wstep false WTest = Some WTarget /\ wstep false WTarget = Some WTest /\
  wstep true WTest = Some WFinal /\ wstep true WFinal = Some WDone /\ wstep false WInit = Some WTest.
Proof. repeat split. Qed.

(** stop always terminates: from any reachable state in thread_stop with the
    flag set, the worker reaches WDone in at most 3 of its own steps, after
    which join is enabled *)
Theorem stop_terminates p :
  alive p = true ->
  exists n, (n <= 3)%nat /\
    Nat.iter n (fun o => match o with Some q => match wstep true q with Some q' => Some q' | None => Some q end | None => None end)
             (Some p) = Some WDone.
Proof.
  intros A. destruct p; try discriminate.
  - exists 3%nat. split; [lia|reflexivity].
  - exists 2%nat. split; [lia|reflexivity].
  - exists 3%nat. split; [lia|reflexivity].
  - exists 1%nat. split; [lia|reflexivity].
Qed.

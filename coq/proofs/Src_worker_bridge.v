(** The bridge between nxslib/thread.py as INTERPRETED SOURCE and the hand model
    model/Worker.v (the transition system the property C13 is proved on).

    [abs_obj] reads the model's components (the stop flag, the handle with the
    worker's program counter) off an interpreted ThreadCommon object whose
    event / thread are the stubs.  Theorems:
      [worker_start_refines]  interpreted [thread_start], run while the worker
                              does not move = the model's [LCallStart; LCtl*] up to [CIdle];
      [worker_stop_refines]   the same for [thread_stop] / [LCallStop; LCtl*], for every
                              handle state in which the model's controller gets through;
      [worker_stop_blocks]    an alive worker: the interpreted call stops at the join
                              (the stub's "would block") in exactly the state in which
                              the model stands at CT4 with its join not enabled;
      [worker_loop_refines]   (proofs/Src_worker_loop.v, re-exported) the interpreted
                              [_thread_loop] = the [wstep] run with the lines' effects;
      [line_*]                the single lines CS2, CS4, CT2, CT3, CT4 on EVERY handle state,
                              including the ones no run reaches. *)
From Coq Require Import String Ascii List ZArith NArith Bool Lia ZifyBool.
From NX Require Import Bytes PyLite PyLite_tactics Src_thread Src_prelude Src_all.
From NX Require Import Worker Src_worker_base Src_worker_loop.
Import ListNotations.
Open Scope string_scope.
Open Scope Z_scope.

(** * The abstraction *)
Definition pc_of_str (s : string) : option wpc :=
  if String.eqb s "created" then Some WCreated
  else if String.eqb s "init" then Some WInit
  else if String.eqb s "test" then Some WTest
  else if String.eqb s "target" then Some WTarget
  else if String.eqb s "final" then Some WFinal
  else if String.eqb s "done" then Some WDone
  else None.

Lemma pc_of_str_pc_str p : pc_of_str (pc_str p) = Some p.
Proof. destruct p; reflexivity. Qed.

(** [self._thrd]: None, or a stub thread standing at a program counter *)
Definition abs_thr (v : pv) : option (option wpc) :=
  match v with
  | PNone => Some None
  | PObj c fs =>
      if String.eqb c "SimThread"
      then match lookup "state" fs with
           | Some (PStr s) => option_map Some (pc_of_str s)
           | _ => None
           end
      else None
  | _ => None
  end.

(** [self._stop_flag]: the stub event's flag *)
Definition abs_flag (v : pv) : option bool :=
  match v with
  | PObj c fs =>
      if String.eqb c "SimEvent"
      then match lookup "flag" fs with Some (PBool b) => Some b | _ => None end
      else None
  | _ => None
  end.

(** the interpreted object -> (w_flag, w_handle) *)
Definition abs_obj (v : pv) : option (bool * option wpc) :=
  match v with
  | PObj c fs =>
      if String.eqb c "ThreadCommon"
      then match lookup "_stop_flag" fs, lookup "_thrd" fs with
           | Some e, Some t =>
               match abs_flag e, abs_thr t with
               | Some b, Some h => Some (b, h)
               | _, _ => None
               end
           | _, _ => None
           end
      else None
  | _ => None
  end.

Definition view (s : wstate) : bool * option wpc := (w_flag s, w_handle s).

Lemma abs_tc tgt ini fin nm h f sc :
  abs_obj (tc tgt ini fin (handle nm h) (ev f sc) nm) = Some (f, option_map fst h).
Proof.
  destruct h as [[p j]|]; cbn; [rewrite pc_of_str_pc_str|]; reflexivity.
Qed.

(** * The model's controller, run to the end of a call *)
(** [k] controller lines *)
Fixpoint ctl_steps (k : nat) (s : wstate) : option wstate :=
  match k with
  | O => Some s
  | S k' => match step s LCtl with Some s' => ctl_steps k' s' | None => None end
  end.

(** controller lines until the call has returned ([CIdle]) *)
Fixpoint ctl_run (k : nat) (s : wstate) : option wstate :=
  match c_pc s with
  | CIdle => Some s
  | _ => match k with
         | O => None
         | S k' => match step s LCtl with Some s' => ctl_run k' s' | None => None end
         end
  end.

Definition model_call (l : wlabel) (s : wstate) : option wstate :=
  match step s l with Some s1 => ctl_run 8 s1 | None => None end.

(** * thread_start *)
(** for every idle model state and every object that represents it (any
    callbacks, name, script, join counter): the interpreted call returns, the
    model's call returns, and the results represent each other; what the
    model does not talk about (callbacks, name, script) is unchanged *)
Theorem worker_start_refines n tgt ini fin nm sc f h orphan last bad :
  let s := mkW CIdle f (option_map fst h) orphan last bad in
  let obj := tc tgt ini fin (handle nm h) (ev f sc) nm in
  abs_obj obj = Some (view s) /\
  exists h' f' s',
    call_method program (3 + n) obj "thread_start" [] = PyLite.Ok (PNone, tc tgt ini fin (handle nm h') (ev f' sc) nm) /\
    model_call LCallStart s = Some s' /\
    c_pc s' = CIdle /\ w_last s' = LStart /\ w_orphan s' = orphan /\
    abs_obj (tc tgt ini fin (handle nm h') (ev f' sc) nm) = Some (view s').
Proof.
  intros s obj. split; [apply abs_tc|].
  subst s obj. rewrite thread_start_spec.
  destruct h as [[p j]|].
  - exists (Some (p, j)), f. eexists. split; [reflexivity|].
    split; [reflexivity|]. cbn. rewrite pc_of_str_pc_str. repeat split; reflexivity.
  - exists (Some (WInit, 0)), false. eexists. split; [reflexivity|].
    split; [reflexivity|]. cbn. repeat split; reflexivity.
Qed.

(** * thread_stop *)
Definition h_pc (h : option (wpc * Z)) : option wpc := option_map fst h.

(** the controller gets through: no handle, or a worker that is not alive
    (never started / done) -- the join is skipped *)
Theorem worker_stop_refines n tgt ini fin nm sc f h orphan last bad :
  opt_alive (h_pc h) = false ->
  let s := mkW CIdle f (h_pc h) orphan last bad in
  let obj := tc tgt ini fin (handle nm h) (ev f sc) nm in
  abs_obj obj = Some (view s) /\
  exists f' s',
    call_method program (3 + n) obj "thread_stop" [] = PyLite.Ok (PNone, tc tgt ini fin PNone (ev f' sc) nm) /\
    model_call LCallStop s = Some s' /\
    c_pc s' = CIdle /\ w_last s' = LStop /\ w_orphan s' = orphan /\ w_bad s' = bad /\
    abs_obj (tc tgt ini fin PNone (ev f' sc) nm) = Some (view s').
Proof.
  intros NA s obj. split; [apply abs_tc|].
  subst s obj. rewrite thread_stop_spec.
  destruct h as [[p j]|].
  - cbn [h_pc option_map fst opt_alive] in NA. rewrite NA.
    exists true. eexists. split; [reflexivity|].
    destruct p; try discriminate; cbn; repeat split; reflexivity.
  - exists f. eexists. split; [reflexivity|]. cbn. repeat split; reflexivity.
Qed.

(** an alive worker: the interpreted call sets the flag and reaches the join,
    which "would block" (the stub counts it and raises); the model, after
    CT1, CT2, CT3, stands at CT4 with its join NOT enabled; the two states
    represent each other (flag set, handle still in place) *)
Theorem worker_stop_blocks n tgt ini fin nm sc f p j orphan last bad :
  alive p = true ->
  let s := mkW CIdle f (Some p) orphan last bad in
  let obj := tc tgt ini fin (handle nm (Some (p, j))) (ev f sc) nm in
  let obj' := tc tgt ini fin (handle nm (Some (p, j + 1))) (ev true sc) nm in
  call_func program (3 + n) ThreadCommon_thread_stop [obj] [] = ExcS "BlockingIOError" (self_st obj') /\
  call_method program (3 + n) obj "thread_stop" [] = Exc "BlockingIOError" /\
  exists s1 s3,
    step s LCallStop = Some s1 /\ ctl_steps 3 s1 = Some s3 /\
    c_pc s3 = CT4 /\ step s3 LCtl = None /\ model_call LCallStop s = None /\
    abs_obj obj' = Some (view s3).
Proof.
  intros A s obj obj'. subst s obj obj'. cbn [Nat.add].
  rewrite thread_stop_func. unfold stop_outcome. rewrite A.
  split; [reflexivity|]. split.
  - change (S (S (S n))) with (3 + n)%nat. rewrite thread_stop_spec. rewrite A. reflexivity.
  - destruct p; try discriminate; do 2 eexists; cbn; repeat split; reflexivity.
Qed.

(** once the worker has finished, the same call gets through (the model's
    CT4 is enabled on [WDone] only; the interpreted call skips a join that
    would return at once) *)
Corollary worker_stop_after_done n tgt ini fin nm sc f j orphan last bad :
  exists s',
    call_method program (3 + n) (tc tgt ini fin (handle nm (Some (WDone, j))) (ev f sc) nm) "thread_stop" [] =
      PyLite.Ok (PNone, tc tgt ini fin PNone (ev true sc) nm) /\
    model_call LCallStop (mkW CIdle f (Some WDone) orphan last bad) = Some s' /\
    view s' = (true, None).
Proof.
  destruct (worker_stop_refines n tgt ini fin nm sc f (Some (WDone, j)) orphan last bad eq_refl) as (_ & f' & s' & E & M & _ & _ & _ & _ & V).
  rewrite thread_stop_spec in E. cbn [alive] in E. inversion E; subst.
  exists s'. split; [apply thread_stop_spec|]. split; [exact M|].
  change PNone with (handle nm None) in V at 1. rewrite abs_tc in V. injection V as V1 V2. unfold view. rewrite <- V1, <- V2. reflexivity.
Qed.

(** * The single controller lines, on every handle state *)
(** CS2 [self._stop_clear()] / CT2 [self.stop_set()]: the flag, nothing else *)
Ltac py_unfold_hook ::= autounfold with wk_model.
Lemma stop_clear_spec n tgt ini fin h f s nm :
  call_method program (2 + n) (tc tgt ini fin h (ev f s) nm) "_stop_clear" [] =
  PyLite.Ok (PNone, tc tgt ini fin h (ev false s) nm).
Proof. pystart. timeout 600 pyrun. Qed.
Ltac py_unfold_hook ::= idtac.

Lemma line_CS2 n tgt ini fin nm sc f h orphan last bad :
  exists obj' s',
    call_method program (2 + n) (tc tgt ini fin (handle nm h) (ev f sc) nm) "_stop_clear" [] = PyLite.Ok (PNone, obj') /\
    step (mkW CS2 f (h_pc h) orphan last bad) LCtl = Some s' /\ abs_obj obj' = Some (view s').
Proof.
  do 2 eexists. split; [apply stop_clear_spec|].
  split; [reflexivity|]. apply abs_tc.
Qed.

Lemma line_CT2 n tgt ini fin nm sc f h orphan last bad :
  exists obj' s',
    call_method program (2 + n) (tc tgt ini fin (handle nm h) (ev f sc) nm) "stop_set" [] = PyLite.Ok (PNone, obj') /\
    step (mkW CT2 f (h_pc h) orphan last bad) LCtl = Some s' /\ abs_obj obj' = Some (view s').
Proof.
  do 2 eexists. split; [apply stop_set_spec|]. split; [reflexivity|]. apply abs_tc.
Qed.

(** CT3 [if self.thread_is_alive()]: the model's branch *)
Lemma line_CT3 n tgt ini fin nm e h orphan last bad f :
  call_method program (2 + n) (tc tgt ini fin (handle nm h) e nm) "thread_is_alive" [] =
    PyLite.Ok (PBool (opt_alive (h_pc h)), tc tgt ini fin (handle nm h) e nm) /\
  option_map c_pc (step (mkW CT3 f (h_pc h) orphan last bad) LCtl) =
    Some (if opt_alive (h_pc h) then CT4 else CT5).
Proof.
  split.
  - rewrite thread_is_alive_spec. destruct h as [[p j]|]; reflexivity.
  - cbn. destruct (opt_alive (h_pc h)); reflexivity.
Qed.

(** CS4 [self._thrd.start()] on a thread object in ANY state: the model marks
    every state but [WCreated] as forbidden ([w_bad], "RuntimeError"); so does
    the stub, as CPython does *)
Lemma line_CS4 n tgt nm p j f orphan last bad :
  match call_method program (1 + n) (thr tgt nm p j) "start" [] with
  | PyLite.Ok (_, t') => abs_thr t' = Some (Some WInit) /\ p = WCreated /\
                         option_map w_handle (step (mkW CS4 f (Some p) orphan last bad) LCtl) = Some (Some WInit)
  | Exc c => c = "RuntimeError" /\ p <> WCreated /\
             option_map w_bad (step (mkW CS4 f (Some p) orphan last bad) LCtl) = Some true
  | _ => False
  end.
Proof.
  cbn [Nat.add]. rewrite start_line. destruct p; cbn; repeat split; try reflexivity; discriminate.
Qed.

(** CT4 [self._thrd.join()] on a thread object in ANY state.  Running: the
    model's join is not enabled, the stub's would block.  Done: both proceed.
    NEVER STARTED: the model proceeds to CT5, but CPython (and the stub) raise
    RuntimeError ("cannot join thread before it is started") -- a difference
    of the line taken alone; no run reaches it, since CT3 skips the join of a
    thread that is not alive *)
Lemma line_CT4 n tgt nm p j f orphan last bad :
  let m := step (mkW CT4 f (Some p) orphan last bad) LCtl in
  match call_method program (1 + n) (thr tgt nm p j) "join" [] with
  | PyLite.Ok _ => p = WDone /\ option_map c_pc m = Some CT5
  | Exc c =>
      (c = "BlockingIOError" /\ alive p = true /\ m = None) \/
      (c = "RuntimeError" /\ p = WCreated /\ option_map c_pc m = Some CT5)
  | _ => False
  end.
Proof.
  cbn [Nat.add]. rewrite join_line. destruct p; cbn; auto.
Qed.

(** * Whole call sequences: start / stop alternations from the initial state *)
(** a stopped worker can be started again: start, (worker finishes), stop, start *)
Example restart_ex :
  let w0 := tc (cb 0 0) PNone PNone PNone (ev false []) (PStr "w") in
  let w1 := tc (cb 0 0) PNone PNone (thr bound_loop (PStr "w") WInit 0) (ev false []) (PStr "w") in
  let w1d := tc (cb 0 0) PNone PNone (thr bound_loop (PStr "w") WDone 0) (ev false []) (PStr "w") in
  let w2 := tc (cb 0 0) PNone PNone PNone (ev true []) (PStr "w") in
  call_method program 10 w0 "thread_start" [] = PyLite.Ok (PNone, w1) /\
  call_method program 10 w1 "thread_start" [] = PyLite.Ok (PNone, w1) /\
  call_method program 10 w1d "thread_stop" [] = PyLite.Ok (PNone, w2) /\
  call_method program 10 w2 "thread_stop" [] = PyLite.Ok (PNone, w2) /\
  call_method program 10 w2 "thread_start" [] = PyLite.Ok (PNone, w1).
Proof. vm_compute. repeat split; reflexivity. Qed.

(** non-vacuity of the refinement theorems: concrete instances *)
Example start_refines_ex :
  model_call LCallStart init_state = Some (mkW CIdle false (Some WInit) None LStart false).
Proof. reflexivity. Qed.
Example stop_refines_ex :
  model_call LCallStop (mkW CIdle false (Some WDone) None LStart false) = Some (mkW CIdle true None None LStop false).
Proof. reflexivity. Qed.
Example stop_blocks_model_ex :
  model_call LCallStop (mkW CIdle false (Some WTarget) None LStart false) = None.
Proof. reflexivity. Qed.
Example abs_ex :
  abs_obj (tc (cb 0 0) PNone PNone (thr bound_loop PNone WTarget 3) (ev true [false]) PNone) = Some (true, Some WTarget).
Proof. reflexivity. Qed.

(** re-export under the name the task asks for *)
Definition worker_loop_refines := Src_worker_loop.worker_loop_refines.

(** * Audit *)
Print Assumptions worker_start_refines.
Print Assumptions worker_stop_refines.
Print Assumptions worker_stop_blocks.
Print Assumptions worker_stop_after_done.
Print Assumptions worker_loop_refines.
Print Assumptions line_CS2.
Print Assumptions line_CT2.
Print Assumptions line_CT3.
Print Assumptions line_CS4.
Print Assumptions line_CT4.

(** Requests: bytes emitted are the NxScope encoding and the device-side
    decoders recover the intent (C05). *)
From Coq Require Import Lia ZifyBool ZifyNat ZifyN String.
From NX Require Import Bytes PyStruct Crc Frame Wire Request Bytes_proofs Crc_proofs Frame_proofs
  Dispatch_proofs PyStruct_proofs.
From NX Require Gen_req.
Ltac Zify.zify_post_hook ::= Z.to_euclidean_division_equations.
Open Scope string_scope.
Open Scope list_scope.
Open Scope Z_scope.

(** ** a complete frame is dispatched by its id *)
Lemma recv_dispatch_wire fid p :
  (fid < 256)%N -> wf_bytes p -> payload_fits p ->
  recv_dispatch (wire fid p) =
    if negb (known_id (Z.of_N fid)) then DNone else recv_cb_handle (Z.of_N fid) p.
Proof.
  intros Hf Hp Hfit.
  pose proof (wire_crc_zero fid p) as Hcrc.
  pose proof (wire_length fid p) as Hlen.
  pose proof (wire_wf fid p Hf Hp Hfit) as Hwf.
  unfold payload_fits, zlen in Hfit.
  set (n := N.of_nat (length p)) in *.
  assert (Hshape : exists c1 c2, wire fid p =
            (85 :: (n + 6) mod 256 :: (n + 6) / 256 :: fid :: p ++ [c1; c2])%N).
  { unfold wire, wire_hdr. cbn [app]. eexists. eexists. reflexivity. }
  destruct Hshape as (c1 & c2 & Hshape).
  set (w := wire fid p) in *.
  assert (E : ((n + 6) mod 256 + 256 * ((n + 6) / 256) = n + 6)%N) by lia.
  change w with ([] ++ w). rewrite Hshape.
  rewrite recv_dispatch_cons; [| intros x [] | rewrite <- Hshape; exact Hwf].
  rewrite <- Hshape. rewrite E, Hlen.
  replace (N.of_nat (length p + 6) <? 6)%N with false by lia.
  destruct (negb (known_id (Z.of_N fid))); [reflexivity|].
  replace ((n + 6 <? 6)%N || (N.of_nat (length p + 6) <? n + 6)%N) with false by lia.
  replace (N.to_nat (n + 6)) with (length w) by lia.
  rewrite firstn_all, Hcrc. cbn [N.eqb negb].
  replace (length w - 6)%nat with (length p) by lia.
  rewrite firstn_app, Nat.sub_diag, firstn_all. cbn [firstn]. now rewrite app_nil_r.
Qed.

(** ** the regenerated formats *)
Lemma gen_set_data_fmt : parse_fmt Gen_req.set_data_fmt = Some (mkFmt LE true [mkItem 1 CB; mkItem 1 CB]).
Proof. reflexivity. Qed.
Lemma gen_set_decode_fmt : parse_fmt Gen_req.set_decode_fmt = Some (mkFmt LE true [mkItem 1 CB; mkItem 1 CB]).
Proof. reflexivity. Qed.
Lemma gen_start_fmt : parse_fmt Gen_req.start_fmt = Some (mkFmt LE true [mkItem 1 Cbool]).
Proof. reflexivity. Qed.
Lemma gen_start_decode_fmt : parse_fmt Gen_req.start_decode_fmt = Some (mkFmt LE true [mkItem 1 Cbool]).
Proof. reflexivity. Qed.
Lemma gen_chinfo_fmt : parse_fmt Gen_req.chinfo_fmt = Some (mkFmt LE true [mkItem 1 CB]).
Proof. reflexivity. Qed.
Lemma gen_en_single_fmt : parse_fmt Gen_req.en_single_fmt = Some (mkFmt LE true [mkItem 1 Cbool]).
Proof. reflexivity. Qed.
Lemma gen_en_all_fmt : parse_fmt Gen_req.en_all_fmt = Some (mkFmt LE true [mkItem 1 Cbool]).
Proof. reflexivity. Qed.
Lemma gen_div_single_fmt : parse_fmt Gen_req.div_single_fmt = Some (mkFmt LE true [mkItem 1 CB]).
Proof. reflexivity. Qed.
Lemma gen_div_all_fmt : parse_fmt Gen_req.div_all_fmt = Some (mkFmt LE true [mkItem 1 CB]).
Proof. reflexivity. Qed.
Lemma gen_en_bulk n : counted_fmt n Gen_req.en_bulk_code = Ok (mkFmt LE true [mkItem (Z.to_nat n) Cbool]).
Proof. reflexivity. Qed.
Lemma gen_div_bulk n : counted_fmt n Gen_req.div_bulk_code = Ok (mkFmt LE true [mkItem (Z.to_nat n) CB]).
Proof. reflexivity. Qed.
Lemma gen_flags : set_flag "SINGLE" = 0 /\ set_flag "BULK" = 1 /\ set_flag "ALL" = 2.
Proof. repeat split; reflexivity. Qed.
Lemma gen_ids : id_of "CMNINFO" = 2 /\ id_of "CHINFO" = 3 /\ id_of "START" = 5 /\ id_of "ENABLE" = 6 /\ id_of "DIV" = 7.
Proof. repeat split; reflexivity. Qed.

(** ** client side *)
Lemma spack_BB f c : 0 <= f < 256 -> 0 <= c < 256 ->
  spack Gen_req.set_data_fmt [VInt f; VInt c] = Ok [Z.to_N f; Z.to_N c].
Proof.
  intros Hf Hc. unfold spack. rewrite gen_set_data_fmt. unfold pack.
  cbn [fend fitems pack_items pack_item icode icnt pack_many].
  rewrite (pack_u8 LE f), (pack_u8 LE c) by lia. reflexivity.
Qed.

Lemma frame_set_ok fid flags chan data :
  0 <= fid <= 255 -> 0 <= flags < 256 -> 0 <= chan < 256 -> zlen data <= 65527 ->
  frame_set fid flags chan data = Ok (wire (Z.to_N fid) (Z.to_N flags :: Z.to_N chan :: data)).
Proof.
  intros Hf Hfl Hc Hd. unfold frame_set. rewrite spack_BB by assumption. cbn [bind app].
  apply frame_create_layout; [exact Hf|]. unfold payload_fits, zlen in *. cbn [length]. lia.
Qed.

Lemma wf_b01 v : wf_bytes [b01 v].
Proof. constructor; [destruct v; cbn; lia|constructor]. Qed.

Lemma wf_map_b01 l : wf_bytes (map b01 l).
Proof. induction l as [|b l IH]; [constructor|]. cbn [map]. constructor; [destruct b; cbn; lia|exact IH]. Qed.

Lemma en_bulk_bytes_ok l : en_bulk_bytes (length l) l = Ok (map b01 l).
Proof.
  induction l as [|b l IH]; [reflexivity|]. cbn [length en_bulk_bytes map]. rewrite IH. cbn [bind].
  destruct b; reflexivity.
Qed.

Lemma bytes1_ok z : 0 <= z < 256 -> bytes1 z = Ok [Z.to_N z].
Proof. intros H. unfold bytes1. replace ((0 <=? z) && (z <? 256)) with true by lia. reflexivity. Qed.

Definition all_u8 (l : list Z) : Prop := Forall (fun z => 0 <= z < 256) l.

Lemma div_bulk_bytes_ok l : all_u8 l -> div_bulk_bytes (length l) l = Ok (map Z.to_N l).
Proof.
  induction 1 as [|z l Hz Hl IH]; [reflexivity|]. cbn [length div_bulk_bytes map].
  rewrite bytes1_ok by exact Hz. cbn [bind]. rewrite IH. reflexivity.
Qed.

Lemma wf_map_to_N l : all_u8 l -> wf_bytes (map Z.to_N l).
Proof. induction 1 as [|z l Hz Hl IH]; [constructor|]. cbn [map]. constructor; [lia|exact IH]. Qed.

(** ** device side *)
Lemma set_decode_ok f c : (f < 256)%N -> (c < 256)%N ->
  frame_set_decode [f; c] = Ok (Z.of_N f, Z.of_N c).
Proof.
  intros Hf Hc. unfold frame_set_decode, sunpack. rewrite gen_set_decode_fmt.
  unfold unpack. cbn [length calcsize fitems fold_right item_size icnt icode code_size Nat.mul Nat.add Nat.eqb].
  replace (wf_bytesb [f; c]) with true by (unfold wf_bytesb, is_byte; cbn [forallb]; lia).
  cbn [andb fend unpack_items unpack_item icode icnt item_size code_size Nat.mul Nat.add
       firstn skipn unpack_many unpack_one code_signed dec le_dec app bind].
  replace (f + 256 * 0)%N with f by lia. replace (c + 256 * 0)%N with c by lia. reflexivity.
Qed.

Lemma sunpack_bool1 fm x : parse_fmt fm = Some (mkFmt LE true [mkItem 1 Cbool]) -> (x < 256)%N ->
  sunpack fm [x] = Ok [VBool (negb (x =? 0)%N)].
Proof.
  intros Hfm Hx. unfold sunpack. rewrite Hfm.
  unfold unpack. cbn [length calcsize fitems fold_right item_size icnt icode code_size Nat.mul Nat.add Nat.eqb].
  replace (wf_bytesb [x]) with true by (unfold wf_bytesb, is_byte; cbn [forallb]; lia).
  cbn [andb fend unpack_items unpack_item icode icnt item_size code_size Nat.mul Nat.add
       firstn skipn unpack_many unpack_one code_signed dec le_dec app].
  replace (x + 256 * 0)%N with x by lia. reflexivity.
Qed.

Lemma sunpack_u8_1 fm x : parse_fmt fm = Some (mkFmt LE true [mkItem 1 CB]) -> (x < 256)%N ->
  sunpack fm [x] = Ok [VInt (Z.of_N x)].
Proof.
  intros Hfm Hx. unfold sunpack. rewrite Hfm.
  unfold unpack. cbn [length calcsize fitems fold_right item_size icnt icode code_size Nat.mul Nat.add Nat.eqb].
  replace (wf_bytesb [x]) with true by (unfold wf_bytesb, is_byte; cbn [forallb]; lia).
  cbn [andb fend unpack_items unpack_item icode icnt item_size code_size Nat.mul Nat.add
       firstn skipn unpack_many unpack_one code_signed dec le_dec app].
  replace (x + 256 * 0)%N with x by lia. reflexivity.
Qed.

Lemma b01_truth v : negb (b01 v =? 0)%N = v.
Proof. destruct v; reflexivity. Qed.

Lemma unpack_many_bools l :
  unpack_many LE Cbool (length l) (map b01 l) = map VBool l.
Proof.
  induction l as [|b l IH]; [reflexivity|].
  cbn [length map unpack_many code_size firstn skipn unpack_one le_dec]. rewrite IH.
  replace (b01 b + 256 * 0)%N with (b01 b) by lia. now rewrite b01_truth.
Qed.

Lemma unpack_many_u8 l : all_u8 l ->
  unpack_many LE CB (length l) (map Z.to_N l) = map VInt l.
Proof.
  induction 1 as [|z l Hz Hl IH]; [reflexivity|].
  cbn [length map unpack_many code_size firstn skipn unpack_one code_signed dec le_dec]. rewrite IH.
  replace (Z.to_N z + 256 * 0)%N with (Z.to_N z) by lia. rewrite Z2N.id by lia. reflexivity.
Qed.

Lemma bools_of_VBool l : bools_of (map VBool l) = l.
Proof. unfold bools_of. induction l as [|b l IH]; [reflexivity|]. cbn [map value_truth]. f_equal. exact IH. Qed.

Lemma ints_of_VInt l : ints_of (map VInt l) = Ok l.
Proof. induction l as [|z l IH]; [reflexivity|]. cbn [map ints_of]. rewrite IH. reflexivity. Qed.

Lemma calcsize_counted n c : calcsize (mkFmt LE true [mkItem n c]) = (n * code_size c)%nat.
Proof. unfold calcsize, item_size. cbn. lia. Qed.

(** *** enable *)
Lemma enable_decode_single cur k v :
  0 <= k < 256 ->
  frame_enable_decode [0%N; Z.to_N k; b01 v] cur =
    match list_set cur (Z.to_nat k) v with Some l => Ok l | None => Raise "IndexError" end.
Proof.
  intros Hk. unfold frame_enable_decode.
  replace (slice_to [0%N; Z.to_N k; b01 v] 2) with [0%N; Z.to_N k]
    by (unfold slice_to; rewrite clip_index_in by (cbn [length]; lia); reflexivity).
  rewrite set_decode_ok by lia. cbn [bind].
  destruct gen_flags as (-> & -> & ->). cbn [Z.of_N Z.eqb].
  replace (pyslice [0%N; Z.to_N k; b01 v] 2 3) with [b01 v]
    by (unfold pyslice; rewrite !clip_index_in by (cbn [length]; lia); reflexivity).
  rewrite (sunpack_bool1 _ _ gen_en_single_fmt) by (destruct v; cbn; lia). cbn [bind value_truth].
  rewrite b01_truth, Z2N.id by lia. reflexivity.
Qed.

Lemma enable_decode_all cur v :
  frame_enable_decode [2%N; 0%N; b01 v] cur = Ok (repeat v (length cur)).
Proof.
  unfold frame_enable_decode.
  replace (slice_to [2%N; 0%N; b01 v] 2) with [2%N; 0%N]
    by (unfold slice_to; rewrite clip_index_in by (cbn [length]; lia); reflexivity).
  rewrite set_decode_ok by lia. cbn [bind].
  destruct gen_flags as (-> & -> & ->). cbn [Z.of_N Z.eqb Pos.eqb].
  replace (pyslice [2%N; 0%N; b01 v] 2 3) with [b01 v]
    by (unfold pyslice; rewrite !clip_index_in by (cbn [length]; lia); reflexivity).
  rewrite (sunpack_bool1 _ _ gen_en_all_fmt) by (destruct v; cbn; lia). cbn [bind value_truth].
  now rewrite b01_truth.
Qed.

Lemma pyslice_bulk {A} (a b : A) (l : list A) n :
  n = zlen l -> pyslice (a :: b :: l) 2 (2 + n) = l.
Proof.
  intros ->. replace (a :: b :: l) with ([a; b] ++ l ++ []) by (cbn [app]; now rewrite app_nil_r).
  rewrite pyslice_mid; [reflexivity|reflexivity|].
  unfold zlen. rewrite app_length. cbn [length]. lia.
Qed.

Lemma enable_decode_bulk cur l :
  length l = length cur ->
  frame_enable_decode (1%N :: 0%N :: map b01 l) cur = Ok l.
Proof.
  intros Hl. unfold frame_enable_decode.
  replace (slice_to (1%N :: 0%N :: map b01 l) 2) with [1%N; 0%N]
    by (unfold slice_to; rewrite clip_index_in by (cbn [length]; lia); reflexivity).
  rewrite set_decode_ok by lia. cbn [bind].
  destruct gen_flags as (-> & -> & ->). cbn [Z.of_N Z.eqb Pos.eqb].
  rewrite pyslice_bulk by (unfold zlen; rewrite map_length; lia).
  unfold sunpack_n. rewrite gen_en_bulk. cbn [bind].
  unfold unpack. rewrite calcsize_counted, map_length.
  replace (Nat.eqb (length l) (Z.to_nat (zlen cur) * code_size Cbool)) with true
    by (unfold zlen; cbn [code_size]; lia).
  replace (wf_bytesb (map b01 l)) with true by (symmetry; apply wf_bytesb_iff, wf_map_b01).
  cbn [andb fend fitems unpack_items unpack_item icode icnt item_size code_size].
  replace (Z.to_nat (zlen cur)) with (length l) by (unfold zlen; lia).
  rewrite firstn_all2 by (unfold item_size; cbn [icnt icode code_size]; rewrite map_length; lia).
  rewrite unpack_many_bools, app_nil_r. cbn [bind]. now rewrite bools_of_VBool.
Qed.

(** *** divider *)
Lemma div_decode_single cur k v :
  0 <= k < 256 -> 0 <= v < 256 ->
  frame_div_decode [0%N; Z.to_N k; Z.to_N v] cur =
    match list_set cur (Z.to_nat k) v with Some l => Ok l | None => Raise "IndexError" end.
Proof.
  intros Hk Hv. unfold frame_div_decode.
  replace (slice_to [0%N; Z.to_N k; Z.to_N v] 2) with [0%N; Z.to_N k]
    by (unfold slice_to; rewrite clip_index_in by (cbn [length]; lia); reflexivity).
  rewrite set_decode_ok by lia. cbn [bind].
  destruct gen_flags as (-> & -> & ->). cbn [Z.of_N Z.eqb].
  replace (pyslice [0%N; Z.to_N k; Z.to_N v] 2 3) with [Z.to_N v]
    by (unfold pyslice; rewrite !clip_index_in by (cbn [length]; lia); reflexivity).
  rewrite (sunpack_u8_1 _ _ gen_div_single_fmt) by lia. cbn [bind].
  rewrite !Z2N.id by lia. reflexivity.
Qed.

Lemma div_decode_all cur v :
  0 <= v < 256 ->
  frame_div_decode [2%N; 0%N; Z.to_N v] cur = Ok (repeat v (length cur)).
Proof.
  intros Hv. unfold frame_div_decode.
  replace (slice_to [2%N; 0%N; Z.to_N v] 2) with [2%N; 0%N]
    by (unfold slice_to; rewrite clip_index_in by (cbn [length]; lia); reflexivity).
  rewrite set_decode_ok by lia. cbn [bind].
  destruct gen_flags as (-> & -> & ->). cbn [Z.of_N Z.eqb Pos.eqb].
  replace (pyslice [2%N; 0%N; Z.to_N v] 2 3) with [Z.to_N v]
    by (unfold pyslice; rewrite !clip_index_in by (cbn [length]; lia); reflexivity).
  rewrite (sunpack_u8_1 _ _ gen_div_all_fmt) by lia. cbn [bind].
  rewrite Z2N.id by lia. reflexivity.
Qed.

Lemma div_decode_bulk cur l :
  length l = length cur -> all_u8 l ->
  frame_div_decode (1%N :: 0%N :: map Z.to_N l) cur = Ok l.
Proof.
  intros Hl Hu. unfold frame_div_decode.
  replace (slice_to (1%N :: 0%N :: map Z.to_N l) 2) with [1%N; 0%N]
    by (unfold slice_to; rewrite clip_index_in by (cbn [length]; lia); reflexivity).
  rewrite set_decode_ok by lia. cbn [bind].
  destruct gen_flags as (-> & -> & ->). cbn [Z.of_N Z.eqb Pos.eqb].
  rewrite pyslice_bulk by (unfold zlen; rewrite map_length; lia).
  unfold sunpack_n. rewrite gen_div_bulk. cbn [bind].
  unfold unpack. rewrite calcsize_counted, map_length.
  replace (Nat.eqb (length l) (Z.to_nat (zlen cur) * code_size CB)) with true
    by (unfold zlen; cbn [code_size]; lia).
  replace (wf_bytesb (map Z.to_N l)) with true by (symmetry; apply wf_bytesb_iff, wf_map_to_N, Hu).
  cbn [andb fend fitems unpack_items unpack_item icode icnt item_size code_size].
  replace (Z.to_nat (zlen cur)) with (length l) by (unfold zlen; lia).
  rewrite firstn_all2 by (unfold item_size; cbn [icnt icode code_size]; rewrite map_length; lia).
  rewrite (unpack_many_u8 l Hu), app_nil_r. cbn [bind]. now rewrite ints_of_VInt.
Qed.

(** ** end to end: request built by the client, dispatched by the device-side
    receiver, decoded to the intended state *)
Definition delivered (r : request) (fr : res bytes) (payload : bytes) : Prop :=
  exists fid, fr = Ok (wire fid payload) /\
              recv_dispatch (wire fid payload) = DCall r payload.

Lemma list_set_some {A} (l : list A) i x : (i < length l)%nat -> exists l', list_set l i x = Some l'.
Proof.
  revert i; induction l as [|y l IH]; intros i Hi; [cbn in Hi; lia|].
  destruct i as [|i]; [eexists; reflexivity|].
  cbn [length] in Hi. destruct (IH i ltac:(lia)) as [l' E]. cbn [list_set]. rewrite E. eexists; reflexivity.
Qed.

Lemma all_same_repeat {A} (eqb : A -> A -> bool) (eqb_eq : forall a b, eqb a b = true -> a = b) v l :
  all_same eqb (v :: l) = true -> v :: l = repeat v (length (v :: l)).
Proof.
  cbn [all_same length repeat]. intros H. f_equal.
  induction l as [|x l IH]; [reflexivity|]. cbn [forallb] in H. apply andb_prop in H as [H1 H2].
  apply eqb_eq in H1. subst x. cbn [length repeat]. f_equal. apply IH. exact H2.
Qed.

Theorem start_delivered v :
  delivered RStart (frame_start v) [b01 v] /\ frame_start_decode [b01 v] = Ok v.
Proof.
  split.
  - exists 5%N. unfold frame_start, spack. rewrite gen_start_fmt. unfold pack.
    cbn [fend fitems pack_items pack_item icode icnt pack_many pack_one app bind].
    destruct gen_ids as (_ & _ & -> & _).
    rewrite frame_create_layout by (unfold payload_fits, zlen; cbn [length]; lia).
    split; [destruct v; reflexivity|].
    rewrite recv_dispatch_wire by (try apply wf_b01; unfold payload_fits, zlen; cbn [length]; lia).
    destruct v; reflexivity.
  - unfold frame_start_decode.
    replace (pyslice [b01 v] 0 1) with [b01 v]
      by (unfold pyslice; rewrite !clip_index_in by (cbn [length]; lia); reflexivity).
    rewrite (sunpack_bool1 _ _ gen_start_decode_fmt) by (destruct v; cbn; lia).
    cbn [bind]. now rewrite b01_truth.
Qed.

Theorem cmninfo_delivered : delivered RCmninfo frame_cmninfo [].
Proof.
  exists 2%N. unfold frame_cmninfo. destruct gen_ids as (-> & _).
  rewrite frame_create_layout by (unfold payload_fits, zlen; cbn [length]; lia).
  split; [reflexivity|].
  rewrite recv_dispatch_wire by (try constructor; unfold payload_fits, zlen; cbn [length]; lia).
  reflexivity.
Qed.

Theorem chinfo_delivered k : 0 <= k <= 255 -> delivered RChinfo (frame_chinfo k) [Z.to_N k].
Proof.
  intros Hk. exists 3%N. unfold frame_chinfo, spack. rewrite gen_chinfo_fmt. unfold pack.
  cbn [fend fitems pack_items pack_item icode icnt pack_many].
  rewrite (pack_u8 LE k) by lia. cbn [app bind].
  destruct gen_ids as (_ & -> & _).
  rewrite frame_create_layout by (unfold payload_fits, zlen; cbn [length]; lia).
  split; [reflexivity|].
  rewrite recv_dispatch_wire; [reflexivity|lia| |unfold payload_fits, zlen; cbn [length]; lia].
  constructor; [lia|constructor].
Qed.

Lemma set_delivered r fid flags chan data :
  (fid = 6 /\ r = REnable \/ fid = 7 /\ r = RDiv) ->
  0 <= flags < 256 -> 0 <= chan < 256 -> wf_bytes data -> zlen data <= 65527 ->
  delivered r (frame_set fid flags chan data) (Z.to_N flags :: Z.to_N chan :: data).
Proof.
  intros Hr Hfl Hc Hwf Hd. exists (Z.to_N fid).
  rewrite frame_set_ok by (try assumption; destruct Hr as [[-> _]|[-> _]]; lia).
  split; [reflexivity|].
  assert (Hwf' : wf_bytes (Z.to_N flags :: Z.to_N chan :: data)).
  { constructor; [lia|]. constructor; [lia|exact Hwf]. }
  rewrite recv_dispatch_wire;
    [|destruct Hr as [[-> _]|[-> _]]; cbn; lia|exact Hwf'|unfold payload_fits, zlen in *; cbn [length]; lia].
  destruct Hr as [[-> ->]|[-> ->]]; reflexivity.
Qed.

Theorem enable_single_delivered cur k v :
  0 <= k < zlen cur -> zlen cur <= 255 ->
  exists cur',
    delivered REnable (frame_enable (EnSingle k v) (zlen cur)) [0%N; Z.to_N k; b01 v] /\
    frame_enable_decode [0%N; Z.to_N k; b01 v] cur = Ok cur' /\
    list_set cur (Z.to_nat k) v = Some cur'.
Proof.
  intros Hk Hn. destruct (list_set_some cur (Z.to_nat k) v) as [cur' E]; [unfold zlen in *; lia|].
  exists cur'. split; [|split; [|exact E]].
  - cbn [frame_enable]. destruct gen_flags as (-> & _). destruct gen_ids as (_ & _ & _ & -> & _).
    apply (set_delivered REnable 6 0 k [b01 v]); try lia; [left; split; reflexivity|apply wf_b01|].
    unfold zlen; cbn [length]; lia.
  - rewrite enable_decode_single by lia. now rewrite E.
Qed.

Theorem enable_vec_delivered cur l :
  length l = length cur -> 1 <= zlen cur <= 255 ->
  exists payload,
    delivered REnable (frame_enable (EnVec l) (zlen cur)) payload /\
    frame_enable_decode payload cur = Ok l.
Proof.
  intros Hl Hn. cbn [frame_enable].
  replace (zlen l =? zlen cur) with true by (unfold zlen; lia). cbn [andb].
  destruct gen_flags as (_ & -> & ->). destruct gen_ids as (_ & _ & _ & -> & _).
  destruct (all_same Bool.eqb l) eqn:Same.
  - destruct l as [|v l]; [unfold zlen in Hn; cbn [length] in Hl; lia|].
    exists [2%N; 0%N; b01 v]. split.
    + apply (set_delivered REnable 6 2 0 [b01 v]); try lia; [left; split; reflexivity|apply wf_b01|].
      unfold zlen; cbn [length]; lia.
    + rewrite enable_decode_all. f_equal. rewrite <- Hl. symmetry.
      apply (all_same_repeat Bool.eqb); [intros a b; apply Bool.eqb_prop|exact Same].
  - replace (Z.to_nat (zlen cur)) with (length l) by (unfold zlen; lia).
    rewrite en_bulk_bytes_ok. cbn [bind].
    replace (zlen (map b01 l) =? 0) with false by (unfold zlen in *; rewrite map_length; lia).
    exists (1%N :: 0%N :: map b01 l). split.
    + apply (set_delivered REnable 6 1 0 (map b01 l)); try lia; [left; split; reflexivity|apply wf_map_b01|].
      unfold zlen in *; rewrite map_length; lia.
    + apply enable_decode_bulk. exact Hl.
Qed.

Theorem div_single_delivered cur k v :
  0 <= k < zlen cur -> zlen cur <= 255 -> 0 <= v < 256 ->
  exists cur',
    delivered RDiv (frame_div (DivSingle k v) (zlen cur)) [0%N; Z.to_N k; Z.to_N v] /\
    frame_div_decode [0%N; Z.to_N k; Z.to_N v] cur = Ok cur' /\
    list_set cur (Z.to_nat k) v = Some cur'.
Proof.
  intros Hk Hn Hv. destruct (list_set_some cur (Z.to_nat k) v) as [cur' E]; [unfold zlen in *; lia|].
  exists cur'. split; [|split; [|exact E]].
  - cbn [frame_div]. rewrite bytes1_ok by lia. cbn [bind].
    destruct gen_flags as (-> & _). destruct gen_ids as (_ & _ & _ & _ & ->).
    apply (set_delivered RDiv 7 0 k [Z.to_N v]); try lia; [right; split; reflexivity| |].
    + constructor; [lia|constructor].
    + unfold zlen; cbn [length]; lia.
  - rewrite div_decode_single by lia. now rewrite E.
Qed.

Theorem div_vec_delivered cur l :
  length l = length cur -> 1 <= zlen cur <= 255 -> all_u8 l ->
  exists payload,
    delivered RDiv (frame_div (DivVec l) (zlen cur)) payload /\
    frame_div_decode payload cur = Ok l.
Proof.
  intros Hl Hn Hu. cbn [frame_div].
  replace (zlen l =? zlen cur) with true by (unfold zlen; lia). cbn [andb].
  destruct gen_flags as (_ & -> & ->). destruct gen_ids as (_ & _ & _ & _ & ->).
  destruct (all_same Z.eqb l) eqn:Same.
  - destruct l as [|v l]; [unfold zlen in Hn; cbn [length] in Hl; lia|].
    assert (Hv : 0 <= v < 256) by (inversion Hu; assumption).
    rewrite bytes1_ok by lia. cbn [bind].
    exists [2%N; 0%N; Z.to_N v]. split.
    + apply (set_delivered RDiv 7 2 0 [Z.to_N v]); try lia; [right; split; reflexivity| |].
      * constructor; [lia|constructor].
      * unfold zlen; cbn [length]; lia.
    + rewrite div_decode_all by lia. f_equal. rewrite <- Hl. symmetry.
      apply (all_same_repeat Z.eqb); [intros a b; apply Z.eqb_eq|exact Same].
  - replace (Z.to_nat (zlen cur)) with (length l) by (unfold zlen; lia).
    rewrite div_bulk_bytes_ok by exact Hu. cbn [bind].
    replace (zlen (map Z.to_N l) =? 0) with false by (unfold zlen in *; rewrite map_length; lia).
    exists (1%N :: 0%N :: map Z.to_N l). split.
    + apply (set_delivered RDiv 7 1 0 (map Z.to_N l)); try lia;
        [right; split; reflexivity|apply wf_map_to_N, Hu|].
      unfold zlen in *; rewrite map_length; lia.
    + apply div_decode_bulk; assumption.
Qed.

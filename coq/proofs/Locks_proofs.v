From Coq Require Import String List Arith Bool Lia ZArith.
From NX Require Import Locks Config Config_proofs.
From NX Require Gen_misc.
Import ListNotations.
Open Scope nat_scope.

(** the lock nesting found in today's source respects the ranks *)
Theorem lock_order : edges_ranked Gen_misc.lock_edges = true.
Proof. reflexivity. Qed.

(** the receive path (recv thread -> _read_frame -> _read_hdr) takes no lock at all:
    a thread waiting for an ACK while holding the channels lock is always served *)
Theorem recv_path_lock_free : Gen_misc.recv_path_locks = [].
Proof. reflexivity. Qed.

Theorem guarded_access : all_guarded Gen_misc.unguarded_access = true.
Proof. vm_compute. reflexivity. Qed.


(** with locks always requested in increasing rank, a wait-for path leads to a
    strictly greater awaited lock, so no wait-for cycle (deadlock) exists *)
Lemma path_lt (all_ordered : forall t : thr, ordered t) a b : path a b ->
  forall wa wb, waits a = Some wa -> waits b = Some wb -> (wa < wb)%nat.
Proof.
  intros P. induction P as [a b W | a b c W P IH]; intros wa wb Ha Hb.
  - destruct W as (w & Hw & Hin). rewrite Ha in Hw. inversion Hw; subst w.
    pose proof (all_ordered b) as Ob. unfold ordered in Ob. rewrite Hb in Ob.
    rewrite Forall_forall in Ob. apply Ob. exact Hin.
  - destruct W as (w & Hw & Hin). rewrite Ha in Hw. inversion Hw; subst w.
    (* b holds wa; b must be waiting (it is on a path), for some wb' > wa *)
    assert (Hbw : exists wb', waits b = Some wb').
    { inversion P as [? ? W2|? ? ? W2 ?]; subst; destruct W2 as (w2 & E2 & _); eauto. }
    destruct Hbw as (wb' & Hbw).
    pose proof (all_ordered b) as Ob. unfold ordered in Ob. rewrite Hbw in Ob.
    rewrite Forall_forall in Ob. specialize (Ob wa Hin).
    specialize (IH wb' wb Hbw Hb). lia.
Qed.

Theorem no_deadlock_cycle (all_ordered : forall t : thr, ordered t) a : ~ path a a.
Proof.
  intros P.
  assert (Hw : exists w, waits a = Some w).
  { inversion P as [? ? W|? ? ? W ?]; subst; destruct W as (w & E & _); eauto. }
  destruct Hw as (w & Hw). pose proof (path_lt all_ordered a a P w w Hw Hw). lia.
Qed.

(** consistent reads on a device that acknowledges every request: the client is
    always in sync, so (outside a write, which holds the channels lock that
    ch_is_enabled needs) what it reports is the device's state *)
Definition all_acked (o : op) : Prop :=
  match o with OpWrite a1 a2 => a1 = Ack /\ a2 = Ack | _ => True end.

Lemma step_sync s o : Inv s -> all_acked o ->
  en_sync (fst s) = true -> div_sync (fst s) = true ->
  en_sync (fst (step s o)) = true /\ div_sync (fst (step s o)) = true.
Proof.
  destruct s as [c d]. cbn [fst]. intros HI Ha S1 S2. destruct o; cbn [step fst]; auto.
  destruct Ha as [-> ->]. unfold write.
  assert (T : forall dd r, transmit dd r Ack = (apply_req dd r, true)).
  { intros dd r. unfold transmit. destruct (d_ack_supported dd); reflexivity. }
  destruct (d_div_supported d).
  - unfold write_div. destruct (diff_scan Z.eqb _ _ 0 0 0) as [j k]. rewrite T. cbn.
    unfold write_enable. cbn [en_new en_now en_sync div_sync]. destruct (diff_scan Bool.eqb _ _ 0 0 0) as [j2 k2].
    rewrite T. cbn. split; reflexivity.
  - unfold write_enable. destruct (diff_scan Bool.eqb _ _ 0 0 0) as [j2 k2]. rewrite T. cbn. split; [reflexivity|exact S2].
Qed.

Theorem consistent_reads ops : forall s,
  Inv s -> Forall all_acked ops -> en_sync (fst s) = true -> div_sync (fst s) = true ->
  d_en (snd (run s ops)) = en_now (fst (run s ops)) /\ d_div (snd (run s ops)) = div_now (fst (run s ops)).
Proof.
  unfold run. induction ops as [|o ops IH]; intros s HI Ha S1 S2.
  - cbn. destruct s as [c d]. destruct HI as (_ & _ & _ & _ & E1 & E2). cbn in *. split; [apply E1|apply E2]; assumption.
  - cbn [fold_left]. inversion Ha; subst.
    destruct (step_sync s o HI H1 S1 S2) as [S1' S2'].
    apply IH; try assumption. apply step_inv. exact HI.
Qed.

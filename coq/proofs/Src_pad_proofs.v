(** The interpreted source of nxslib.intf.iintf.CommInterfaceCommon.data_align and
    of the write_padding property / setter (ASTs of gen/Src_iintf.v, run by the
    PyLite interpreter) computes the hand model of model/Pad.v -- for ALL
    inputs, including negative paddings. *)
From Coq Require Import String Ascii List ZArith NArith Bool Lia ZifyBool.
From NX Require Import Bytes PyStruct Crc PyLite PyLite_tactics Src_iintf Src_prelude Src_all.
From NX Require Pad Gen_misc.
Import ListNotations.
Open Scope string_scope.
Open Scope Z_scope.

Definition ci (r w : pv) (p : Z) : pv :=
  PObj "CommInterfaceCommon" [("_write_padding", PInt p); ("_fread", r); ("_fwrite", w)].

#[local] Hint Unfold ci Gen_misc.align_pad_byte : pad_model.
Ltac py_unfold_hook ::= autounfold with pad_model.

(** * data_align *)

(** [List.concat], [Z.to_nat] must stay folded on symbolic data *)
#[local] Arguments List.concat : simpl never.
#[local] Arguments Z.to_nat : simpl never.

(** The model for ANY integer padding.  For [p < 0] Python's [%] has the sign
    of the divisor, so [modlen <= 0], [padding = p - modlen < 0] and
    [b"\x00" * padding = b""]: the data comes back unchanged -- the same as
    the model, whose [Z.modulo] also has the sign of the divisor and whose
    [Z.to_nat] of a negative count is 0. *)
Lemma data_align_func n r w p data :
  call_func program (S n) CommInterfaceCommon_data_align [ci r w p; PBytes data] [] =
  PyLite.Ok (PBytes (Pad.data_align p data), Some (ci r w p)).
Proof. pystart. unfold Pad.data_align. pyrun. Qed.

#[local] Arguments Pad.data_align : simpl never.
#[local] Hint Resolve data_align_func : pyspec.

Theorem data_align_spec n r w p data :
  call_method program (1 + n) (ci r w p) "data_align" [PBytes data] =
  PyLite.Ok (PBytes (Pad.data_align p data), ci r w p).
Proof. pystart. pyrun. Qed.

(** what the model says for a negative padding: nothing is appended *)
Theorem data_align_negative p data : p < 0 -> Pad.data_align p data = data.
Proof.
  intros Hp. unfold Pad.data_align.
  destruct (p =? 0); [reflexivity|]. cbn zeta.
  destruct (zlen data mod p =? 0) eqn:E; [reflexivity|].
  pose proof (Z.mod_neg_bound (zlen data) p Hp).
  replace (Z.to_nat (p - zlen data mod p)) with 0%nat by lia.
  cbn [repeat List.concat]. apply app_nil_r.
Qed.

Corollary data_align_negative_spec n r w p data :
  p < 0 ->
  call_method program (1 + n) (ci r w p) "data_align" [PBytes data] = PyLite.Ok (PBytes data, ci r w p).
Proof. intros Hp. rewrite data_align_spec, data_align_negative by exact Hp. reflexivity. Qed.

(** * the property and its setter *)
Lemma write_padding_func n r w p :
  call_func program (S n) CommInterfaceCommon_write_padding [ci r w p] [] = PyLite.Ok (PInt p, Some (ci r w p)).
Proof. pystart. pyrun. Qed.

Theorem write_padding_spec n r w p :
  get_attr program (call_func program (1 + n)) (ci r w p) "write_padding" = PyLite.Ok (PInt p).
Proof. pystart. pyrun. Qed.

Lemma write_padding_setter_func n r w p v :
  call_func program (S n) CommInterfaceCommon_write_padding_setter [ci r w p; v] [] =
  PyLite.Ok (PNone, Some (PObj "CommInterfaceCommon" [("_write_padding", v); ("_fread", r); ("_fwrite", w)])).
Proof. pystart. pyrun. Qed.

(** assignment through the setter, then both reads: the prelude function
      def pad_align(intf, pad, data):
          intf.write_padding = pad
          return [intf.data_align(data), intf.write_padding]
    whatever the padding was before ([p0]) *)
Theorem pad_align_spec n r w p0 p data :
  call_function program (2 + n) "pad_align" [ci r w p0; PInt p; PBytes data] =
  PyLite.Ok (PList [PBytes (Pad.data_align p data); PInt p]).
Proof. pystart. pyrun. Qed.

(** * Audit *)
Print Assumptions data_align_spec.
Print Assumptions data_align_negative_spec.
Print Assumptions write_padding_spec.
Print Assumptions write_padding_setter_func.
Print Assumptions pad_align_spec.

(** Acceptance: only length-consistent, CRC-valid frames (C02). *)
From Coq Require Import Lia ZifyBool ZifyNat ZifyN String.
From NX Require Import Bytes PyStruct Crc Frame Wire Bytes_proofs Crc_proofs Frame_proofs Dispatch_proofs.
Ltac Zify.zify_post_hook ::= Z.to_euclidean_division_equations.
Open Scope Z_scope.

Lemma zlen_lt4_cases (d : bytes) : zlen d < 4 ->
  d = [] \/ (exists a, d = [a]) \/ (exists a b, d = [a; b]) \/ (exists a b c, d = [a; b; c]).
Proof.
  unfold zlen. destruct d as [|a [|b [|c [|e r]]]]; cbn [length]; intros H.
  - left; reflexivity.
  - right; left; eauto.
  - right; right; left; eauto.
  - right; right; right; eauto.
  - lia.
Qed.

(** the client decoder accepts exactly the strings the specification accepts *)
Theorem frame_decode_iff d fid p :
  wf_bytes d ->
  (frame_decode d = Ok (fid, p) <-> (0 <= fid /\ accepts d (Z.to_N fid) p)).
Proof.
  intros Hwf. split.
  - intros H.
    destruct (Z_lt_ge_dec (zlen d) 4) as [Hs|Hl].
    { unfold frame_decode in H. rewrite hdr_decode_short in H by exact Hs. discriminate. }
    destruct d as [|s [|lo [|hi [|f rest]]]]; try (unfold zlen in Hl; cbn [length] in Hl; lia).
    rewrite frame_decode_cons in H by exact Hwf.
    destruct (s =? 85)%N eqn:Es; cbn [negb] in H; [|discriminate].
    apply N.eqb_eq in Es; subst s.
    destruct (known_id (Z.of_N f)) eqn:Ek; cbn [negb] in H; [|discriminate].
    apply known_id_iff in Ek.
    destruct ((lo + 256 * hi <? 6)%N || (N.of_nat (length (85%N :: lo :: hi :: f :: rest)) <? lo + 256 * hi)%N) eqn:G;
      [discriminate|].
    destruct (crc_spec (firstn (N.to_nat (lo + 256 * hi)) (85%N :: lo :: hi :: f :: rest)) =? 0)%N eqn:C;
      cbn [negb] in H; [|discriminate].
    inversion H; subst fid p; clear H.
    split; [lia|].
    exists lo, hi, rest. rewrite N2Z.id.
    split; [reflexivity|]. split; [lia|]. cbn zeta.
    split; [lia|]. split; [lia|]. split; [apply N.eqb_eq; exact C|reflexivity].
  - intros [Hf (lo & hi & rest & Hd & Hid & Hacc)]. cbn zeta in Hacc.
    destruct Hacc as (H6 & Hlen & Hcrc & Hp).
    subst d. rewrite frame_decode_cons by exact Hwf.
    cbn [N.eqb Pos.eqb negb].
    rewrite Z2N.id by lia.
    replace (known_id fid) with true by (symmetry; apply known_id_iff; lia).
    cbn [negb].
    replace ((lo + 256 * hi <? 6)%N || (N.of_nat (length (85%N :: lo :: hi :: Z.to_N fid :: rest)) <? lo + 256 * hi)%N)
      with false by lia.
    rewrite Hcrc. cbn [N.eqb negb]. subst p. reflexivity.
Qed.

(** everything else is an error: HDR for a bad header, FOOT for a bad length
    or CRC; never an exception on well-formed bytes *)
Theorem frame_decode_total d : wf_bytes d ->
  (exists fid p, frame_decode d = Ok (fid, p)) \/ frame_decode d = Err EHDR \/ frame_decode d = Err EFOOT.
Proof.
  intros Hwf.
  destruct (Z_lt_ge_dec (zlen d) 4) as [Hs|Hl].
  { right; left. unfold frame_decode. now rewrite hdr_decode_short by exact Hs. }
  destruct d as [|s [|lo [|hi [|f rest]]]]; try (unfold zlen in Hl; cbn [length] in Hl; lia).
  rewrite frame_decode_cons by exact Hwf.
  destruct (negb (s =? 85)%N); [right; left; reflexivity|].
  destruct (negb (known_id (Z.of_N f))); [right; left; reflexivity|].
  match goal with |- context [if ?c then Err EFOOT else _] => destruct c end;
    [right; right; reflexivity|].
  match goal with |- context [if ?c then Err EFOOT else _] => destruct c end;
    [right; right; reflexivity|].
  left. eauto.
Qed.

Lemma recv_cb_handle_payload fid x r p : recv_cb_handle fid x = DCall r p -> p = x.
Proof.
  unfold recv_cb_handle. intros H.
  repeat match type of H with
         | (if ?c then _ else _) = _ => destruct c
         end; try discriminate; inversion H; reflexivity.
Qed.

(** the dispatcher: crop at the first SOF, then the same acceptance; a
    callback fires only for an accepted request frame *)
Theorem dispatch_call_accepts d r p :
  wf_bytes d -> recv_dispatch d = DCall r p ->
  exists pre d' fid, d = pre ++ d' /\ no_sof pre /\ accepts d' fid p /\
                     recv_cb_handle (Z.of_N fid) p = DCall r p.
Proof.
  intros Hwf H.
  (* split d at the first SOF *)
  assert (S : no_sof d \/ exists pre l, d = pre ++ 85%N :: l /\ no_sof pre).
  { clear H Hwf. induction d as [|x r' IH].
    - left. intros y [].
    - destruct (N.eq_dec x 85) as [->|Nx].
      + right. exists [], r'. split; [reflexivity|intros y []].
      + destruct IH as [IH|(pre & l & E & Hpre)].
        * left. intros y [<-|Hy]; [exact Nx|apply IH; exact Hy].
        * right. exists (x :: pre), l. split; [rewrite E; reflexivity|].
          intros y [<-|Hy]; [exact Nx|apply Hpre; exact Hy]. }
  destruct S as [S|(pre & l & E & Hpre)].
  { rewrite recv_dispatch_no_sof in H by exact S. discriminate. }
  subst d.
  destruct (Z_lt_ge_dec (zlen l) 5) as [Hs|Hl].
  { rewrite recv_dispatch_short in H by assumption. discriminate. }
  destruct l as [|lo [|hi [|f rest]]]; try (unfold zlen in Hl; cbn [length] in Hl; lia).
  assert (Hwf' : wf_bytes (85%N :: lo :: hi :: f :: rest)).
  { unfold wf_bytes in *. apply Forall_app in Hwf. apply Hwf. }
  rewrite recv_dispatch_cons in H by assumption.
  destruct (N.of_nat (length (85%N :: lo :: hi :: f :: rest)) <? 6)%N eqn:L6; [discriminate|].
  destruct (known_id (Z.of_N f)) eqn:Ek; cbn [negb] in H; [|discriminate].
  apply known_id_iff in Ek.
  match type of H with (if ?c then _ else _) = _ => destruct c eqn:G end; [discriminate|].
  match type of H with (if negb ?c then _ else _) = _ => destruct c eqn:C end;
    cbn [negb] in H; [|discriminate].
  pose proof (recv_cb_handle_payload _ _ _ _ H) as Ep. subst p.
  exists pre, (85%N :: lo :: hi :: f :: rest), f.
  split; [reflexivity|]. split; [exact Hpre|]. split; [|exact H].
  exists lo, hi, rest. split; [reflexivity|]. split; [lia|]. cbn zeta.
  split; [lia|]. split; [lia|]. split; [apply N.eqb_eq; exact C|reflexivity].
Qed.

Theorem dispatch_accepts_call pre d' fid p :
  wf_bytes d' -> no_sof pre -> accepts d' fid p ->
  recv_dispatch (pre ++ d') = recv_cb_handle (Z.of_N fid) p.
Proof.
  intros Hwf Hpre (lo & hi & rest & Hd & Hid & Hacc). cbn zeta in Hacc.
  destruct Hacc as (H6 & Hlen & Hcrc & Hp). subst d'.
  rewrite recv_dispatch_cons by assumption.
  replace (N.of_nat (length (85%N :: lo :: hi :: fid :: rest)) <? 6)%N with false by lia.
  replace (known_id (Z.of_N fid)) with true by (symmetry; apply known_id_iff; lia).
  cbn [negb].
  replace ((lo + 256 * hi <? 6)%N || (N.of_nat (length (85%N :: lo :: hi :: fid :: rest)) <? lo + 256 * hi)%N)
    with false by lia.
  rewrite Hcrc. cbn [N.eqb negb]. subst p. reflexivity.
Qed.

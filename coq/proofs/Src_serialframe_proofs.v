(** The interpreted source of nxslib.proto.serialframe.SerialFrame (the ASTs of
    gen/Src_serialframe.v, run by the PyLite interpreter) computes the
    hand-written functional model of model/Frame.v -- for ALL inputs.

    Every proof is one run of the generic symbolic executor of
    py/PyLite_tactics.v ([pystart], [pyrun]); nothing refers to the position
    of a statement or to the name of a local variable of the Python source. *)
From Coq Require Import String Ascii List ZArith NArith Bool Lia ZifyBool.
From NX Require Import Bytes PyStruct Crc PyLite PyLite_tactics Src_iframe Src_serialframe Src_all.
From NX Require Frame Gen_frame.
Import ListNotations.
Import Frame(EHDR, EFOOT).
Open Scope string_scope.
Open Scope Z_scope.

(** * The embedding of model results into interpreter values *)
Definition sf : pv := PObj "SerialFrame" [("_crc16_func", PCrc "xmodem")].
Definition enum_id (z : Z) : pv :=
  match enum_by_value Gen_frame.parse_ids z with Some n => PEnum "EParseId" n z true | None => PNone end.
Definition perr_obj (e : string) (z : Z) := PEnum "EParseError" e z true.
Definition hdr_obj (fid : pv) (flen : Z) (err : pv) :=
  PObj "DParseHdr" [("fid", fid); ("flen", PInt flen); ("err", err)].
Definition frame_obj (fid : pv) (data : bytes) (err : pv) :=
  PObj "DParseFrame" [("fid", fid); ("data", PBytes data); ("err", err)].

Definition emb_hdr (r : Frame.res (Z * Z)) : PyLite.res pv :=
  match r with
  | Frame.Ok (id, flen) => PyLite.Ok (hdr_obj (enum_id id) flen (perr_obj "NOERR" 0))
  | Frame.Err EHDR => PyLite.Ok (hdr_obj (enum_id 0) 0 (perr_obj "HDR" 2))
  | Frame.Err EFOOT => PyLite.Ok (hdr_obj (enum_id 0) 0 (perr_obj "FOOT" 3))
  | Frame.Raise w => Exc w
  end.

Definition emb_frame (r : Frame.res (Z * bytes)) : PyLite.res pv :=
  match r with
  | Frame.Ok (id, data) => PyLite.Ok (frame_obj (enum_id id) data (perr_obj "NOERR" 0))
  | Frame.Err EHDR => PyLite.Ok (frame_obj (enum_id 0) [] (perr_obj "HDR" 2))
  | Frame.Err EFOOT => PyLite.Ok (frame_obj (enum_id 0) [] (perr_obj "FOOT" 3))
  | Frame.Raise w => Exc w
  end.

Definition emb_create (r : Frame.res bytes) : PyLite.res (pv * pv) :=
  match r with
  | Frame.Ok b => PyLite.Ok (PBytes b, sf)
  | Frame.Raise w => Exc w
  | Frame.Err _ => Unsupported ""
  end.

(** * Set-up of the executor for this model *)

(** the model's constants (regenerated, gen/Gen_frame.v) are unfolded to their
    literals; its functions stay folded until the proof unfolds them *)
#[local] Hint Unfold
  Frame.hdr_len Frame.foot_len Frame.sof_byte Frame.crc16 Frame.crc_p
  Gen_frame.sof Gen_frame.hdr_end Gen_frame.foot Gen_frame.parse_ids
  Gen_frame.crc_poly Gen_frame.crc_init Gen_frame.crc_rev Gen_frame.crc_xorout
  Gen_frame.hdr_decode_fmt Gen_frame.crc_residue Gen_frame.decode_foot_off
  Gen_frame.create_fid_max Gen_frame.create_len_base Gen_frame.create_hdr_fmt
  Gen_frame.create_foot_fmt
  enum_id perr_obj hdr_obj frame_obj emb_hdr emb_frame emb_create : frame_model.

#[local] Arguments Frame.known_id : simpl never.
#[local] Arguments Frame.hdr_decode : simpl never.
#[local] Arguments Frame.foot_validate : simpl never.
#[local] Arguments Frame.frame_decode : simpl never.
#[local] Arguments Frame.frame_create : simpl never.

(** the model's "known id" test is the interpreter's enum lookup *)
Lemma known_id_enum z :
  Frame.known_id z = match enum_by_value Gen_frame.parse_ids z with Some _ => true | None => false end.
Proof. apply existsb_enum_by_value. Qed.

Ltac py_stuck_hook h ::= lazymatch h with Frame.known_id _ => rewrite known_id_enum end.
Ltac py_unfold_hook ::= autounfold with frame_model.

(** * Construction and the two properties *)
Theorem construct_spec n : construct program (S n) "SerialFrame" [] = PyLite.Ok sf.
Proof. pystart. pyrun. Qed.

Lemma hdr_len_func n self :
  call_func program (S n) SerialFrame_hdr_len [self] [] = PyLite.Ok (PInt 4, Some self).
Proof. pystart. pyrun. Qed.

Lemma foot_len_func n self :
  call_func program (S n) SerialFrame_foot_len [self] [] = PyLite.Ok (PInt 2, Some self).
Proof. pystart. pyrun. Qed.

#[local] Hint Resolve hdr_len_func foot_len_func : pyspec.

Theorem hdr_len_spec n :
  get_attr program (call_func program (S n)) sf "hdr_len" = PyLite.Ok (PInt Frame.hdr_len).
Proof. pystart. pyrun. Qed.

Theorem foot_len_spec n :
  get_attr program (call_func program (S n)) sf "foot_len" = PyLite.Ok (PInt Frame.foot_len).
Proof. pystart. pyrun. Qed.

(** * hdr_find *)
Theorem hdr_find_spec n d :
  call_method program (S n) sf "hdr_find" [PBytes d] = PyLite.Ok (PInt (Frame.hdr_find d), sf).
Proof. pystart. unfold Frame.hdr_find. pyrun. Qed.

(** * hdr_decode *)
Lemma hdr_decode_func n d :
  call_func program (S (S n)) SerialFrame_hdr_decode [sf; PBytes d] [] =
  do v <- attach (self_st sf) (emb_hdr (Frame.hdr_decode d)); PyLite.Ok (v, Some sf).
Proof. pystart. unfold Frame.hdr_decode. pyrun. Qed.

Lemma hdr_decode_func_None n :
  call_func program (S (S n)) SerialFrame_hdr_decode [sf; PNone] [] =
  do v <- emb_hdr (Frame.Err EHDR); PyLite.Ok (v, Some sf).
Proof. pystart. pyrun. Qed.

#[local] Hint Resolve hdr_decode_func hdr_decode_func_None : pyspec.

Theorem hdr_decode_spec n d :
  call_method program (2 + n) sf "hdr_decode" [PBytes d] =
  do v <- emb_hdr (Frame.hdr_decode d); PyLite.Ok (v, sf).
Proof. pystart. pyrun. Qed.

Theorem hdr_decode_None_spec n :
  call_method program (2 + n) sf "hdr_decode" [PNone] =
  do v <- emb_hdr (Frame.Err EHDR); PyLite.Ok (v, sf).
Proof. pystart. pyrun. Qed.

(** * foot_validate *)
Lemma foot_validate_func n d :
  call_func program (S n) SerialFrame_foot_validate [sf; PBytes d] [] =
  PyLite.Ok (PBool (Frame.foot_validate d), Some sf).
Proof. pystart. unfold Frame.foot_validate. pyrun. Qed.

#[local] Hint Resolve foot_validate_func : pyspec.

Theorem foot_validate_spec n d :
  call_method program (1 + n) sf "foot_validate" [PBytes d] =
  PyLite.Ok (PBool (Frame.foot_validate d), sf).
Proof. pystart. pyrun. Qed.

(** * frame_decode *)
Lemma frame_decode_func n d :
  call_func program (S (S (S n))) SerialFrame_frame_decode [sf; PBytes d] [] =
  do v <- attach (self_st sf) (emb_frame (Frame.frame_decode d)); PyLite.Ok (v, Some sf).
Proof. pystart. unfold Frame.frame_decode. pyrun. Qed.

#[local] Hint Resolve frame_decode_func : pyspec.

Theorem frame_decode_spec n d :
  call_method program (3 + n) sf "frame_decode" [PBytes d] =
  do v <- emb_frame (Frame.frame_decode d); PyLite.Ok (v, sf).
Proof. pystart. pyrun. Qed.

Lemma frame_decode_func_None n :
  call_func program (S (S (S n))) SerialFrame_frame_decode [sf; PNone] [] =
  do v <- emb_frame (Frame.Err EHDR); PyLite.Ok (v, Some sf).
Proof. pystart. pyrun. Qed.

#[local] Hint Resolve frame_decode_func_None : pyspec.

Theorem frame_decode_None_spec n :
  call_method program (3 + n) sf "frame_decode" [PNone] =
  do v <- emb_frame (Frame.Err EHDR); PyLite.Ok (v, sf).
Proof. pystart. pyrun. Qed.

(** * frame_create *)
Theorem frame_create_spec n fid data :
  call_method program (1 + n) sf "frame_create" [PInt fid; PBytes data] =
  emb_create (Frame.frame_create fid data).
Proof. pystart. unfold Frame.frame_create. pyrun. Qed.

Theorem frame_create_None_spec n fid :
  call_method program (1 + n) sf "frame_create" [PInt fid; PNone] =
  emb_create (Frame.frame_create fid []).
Proof. pystart. unfold Frame.frame_create. pyrun. Qed.

(** the id given as an IntEnum member *)
Theorem frame_create_enum_spec n name fid data :
  call_method program (1 + n) sf "frame_create" [PEnum "EParseId" name fid true; PBytes data] =
  emb_create (Frame.frame_create fid data).
Proof. pystart. unfold Frame.frame_create. pyrun. Qed.

Theorem frame_create_enum_None_spec n name fid :
  call_method program (1 + n) sf "frame_create" [PEnum "EParseId" name fid true; PNone] =
  emb_create (Frame.frame_create fid []).
Proof. pystart. unfold Frame.frame_create. pyrun. Qed.

(** * Audit *)
Print Assumptions construct_spec.
Print Assumptions hdr_len_spec.
Print Assumptions foot_len_spec.
Print Assumptions hdr_find_spec.
Print Assumptions hdr_decode_spec.
Print Assumptions hdr_decode_None_spec.
Print Assumptions foot_validate_spec.
Print Assumptions frame_decode_spec.
Print Assumptions frame_decode_None_spec.
Print Assumptions frame_create_spec.
Print Assumptions frame_create_None_spec.
Print Assumptions frame_create_enum_spec.
Print Assumptions frame_create_enum_None_spec.

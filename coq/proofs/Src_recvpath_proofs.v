(** The body of the RECEIVE THREAD of the client, [CommHandler._recv_thread]
    (comm.py), as INTERPRETED SOURCE: one call = one step of the reassembly model
    ([Reasm.read_frame], through the interpreted [_read_frame] of
    proofs/Src_recvpath_reasm.v) followed by the ROUTING RULE [route]:

      stream frame                          -> appended to [_q_stream]
      ACK while [self.dev is None]          -> dropped
      anything else                         -> appended to [_q]

    for every buffer, every chunk list on the scripted link, every content of the
    two queues (the harness stub ScriptQueue) and every value of [_dev]. *)
From Coq Require Import String Ascii List ZArith NArith Bool Lia ZifyBool.
From NX Require Import Bytes PyStruct Crc PyLite PyLite_tactics
  Src_iframe Src_serialframe Src_parse Src_comm Src_prelude Src_all.
From NX Require Frame Gen_frame Reasm Reasm_proofs Src_info_proofs.
From NX Require Import Src_serialframe_proofs Src_reasm_proofs Src_reasm_session Src_recvpath_reasm.
Import ListNotations.
Open Scope string_scope.
Open Scope list_scope.
Open Scope Z_scope.

(** * Objects *)
Definition squeue (items : list pv) : pv := PObj "ScriptQueue" [("items", PList items)].

(** a decoded frame as the interpreter holds it *)
Definition frame_pv (f : Z * bytes) : pv := frame_obj (enum_id (fst f)) (snd f) (perr_obj "NOERR" 0).

(** the handler: buffer, scripted link, parser, device description ([PNone] before the handshake
    has completed), the two queues *)
Definition rch (dv : pv) (q qs : list (Z * bytes)) (prev : bytes) (l : Reasm.link) : pv :=
  wch dv (squeue (map frame_pv q)) (squeue (map frame_pv qs)) prev l.

(** * The routing rule *)
Inductive dest := ToStream | ToQ | Dropped.

Definition is_none (x : pv) : bool := match x with PNone => true | _ => false end.

Definition route (no_dev : bool) (fid : Z) : dest :=
  if fid =? Frame.id_of "STREAM" then ToStream
  else if no_dev && (fid =? Frame.id_of "ACK") then Dropped
  else ToQ.

(** the two queues after a frame has been routed *)
Definition routed (no_dev : bool) (q qs : list (Z * bytes)) (f : Z * bytes) : list (Z * bytes) * list (Z * bytes) :=
  match route no_dev (fst f) with
  | ToStream => (q, qs ++ [f])
  | ToQ => (q ++ [f], qs)
  | Dropped => (q, qs)
  end.

(** * Set-up of the executor *)
#[local] Hint Unfold perr_obj frame_obj squeue frame_pv emb_frame_out_w : rt_model.
Ltac py_unfold_hook ::= autounfold with rt_model.
#[local] Arguments enum_id : simpl never.
#[local] Arguments Reasm.read_frame : simpl never.
#[local] Arguments mfuel : simpl never.
#[local] Arguments Frame.id_of : simpl never.

Lemma py_is_none x : py_is x PNone = Some (is_none x).
Proof. destruct x; reflexivity. Qed.

Ltac py_stuck_hook h ::=
  lazymatch h with
  | py_is _ PNone => rewrite py_is_none
  end.

(** * The callees *)
Lemma queue_put_func n items x :
  call_func program (S n) ScriptQueue_put [squeue items; x] [] =
  PyLite.Ok (PNone, Some (squeue (items ++ [x]))).
Proof. pystart. pyrun. Qed.

Lemma dev_func n dv xq xqs p l :
  call_func program (S n) CommHandler_dev [wch dv xq xqs p l] [] = PyLite.Ok (dv, Some (wch dv xq xqs p l)).
Proof. pystart. pyrun. Qed.

Lemma is_ack_func n fid data :
  call_func program (S n) Parser_frame_is_ack [pa; frame_obj (enum_id fid) data (perr_obj "NOERR" 0)] [] =
  PyLite.Ok (PBool (fid =? Frame.id_of "ACK"), Some pa).
Proof. exact (Src_info_proofs.is_ack_func n fid data). Qed.

Lemma is_stream_func n fid data :
  call_func program (S n) Parser_frame_is_stream [pa; frame_obj (enum_id fid) data (perr_obj "NOERR" 0)] [] =
  PyLite.Ok (PBool (fid =? Frame.id_of "STREAM"), Some pa).
Proof. exact (Src_info_proofs.is_stream_func n fid data). Qed.

#[local] Hint Resolve queue_put_func dev_func is_ack_func is_stream_func read_frame_func_w : pyspec.

(** * One call *)
(** the receiver afterwards / at a raise *)
Definition recv_out (dv : pv) (q qs : list (Z * bytes)) (rs : pv) (o : Reasm.frame_out)
  : PyLite.res (pv * option pv) :=
  match o with
  | Reasm.FNone p l' => PyLite.Ok (PNone, Some (rch dv q qs p l'))
  | Reasm.FFrame fid pl p l' =>
      let '(q', qs') := routed (is_none dv) q qs (fid, pl) in
      PyLite.Ok (PNone, Some (rch dv q' qs' p l'))
  | Reasm.FRaise w => ExcS w (self_st rs)
  | Reasm.FFuel => Fuel
  end.

Lemma recv_thread_func n dv q qs p l :
  call_func program (S (S (S (S (S (mfuel p l + n)))))) CommHandler__recv_thread [rch dv q qs p l] [] =
  recv_out dv q qs
    (frame_raise_self_w dv (squeue (map frame_pv q)) (squeue (map frame_pv qs)) p l)
    (Reasm.read_frame p l).
Proof.
  pystart. unfold rch, recv_out, routed, route.
  pysteps.
  all: try reflexivity.
  all: unfold rch, wch, squeue, frame_pv, frame_obj, perr_obj; rewrite ?map_app; cbn [map fst snd]; reflexivity.
Qed.

#[local] Hint Resolve recv_thread_func : pyspec.
#[local] Hint Unfold recv_out : rt_model.

(** results of the method call: value and receiver afterwards *)
Definition recv_meth (dv : pv) (q qs : list (Z * bytes)) (o : Reasm.frame_out) : PyLite.res (pv * pv) :=
  match o with
  | Reasm.FNone p l' => PyLite.Ok (PNone, rch dv q qs p l')
  | Reasm.FFrame fid pl p l' =>
      PyLite.Ok (PNone, rch dv (fst (routed (is_none dv) q qs (fid, pl))) (snd (routed (is_none dv) q qs (fid, pl))) p l')
  | Reasm.FRaise w => Exc w
  | Reasm.FFuel => Fuel
  end.

(** ONE CALL of the interpreted [_recv_thread] = one [Reasm.read_frame] step, then the routing
    rule; every fuel above a linear bound *)
Theorem recv_thread_spec fuel dv q qs prev l :
  (6 + measure prev l <= fuel)%nat ->
  call_method program fuel (rch dv q qs prev l) "_recv_thread" [] =
  recv_meth dv q qs (Reasm.read_frame prev l).
Proof.
  intros Hf.
  replace fuel with (S (S (S (S (S (mfuel prev l + (fuel - 5 - mfuel prev l)))))))
    by (rewrite mfuel_measure; lia).
  pystart. unfold recv_meth. pyrun.
  all: destruct (routed _ _ _ _) as [q' qs']; reflexivity.
Qed.

Corollary recv_thread_no_fuel fuel dv q qs prev l :
  (6 + measure prev l <= fuel)%nat ->
  call_method program fuel (rch dv q qs prev l) "_recv_thread" [] <> Fuel.
Proof.
  intros Hf. rewrite recv_thread_spec by exact Hf.
  pose proof (read_frame_model_fuel prev l) as N.
  destruct (Reasm.read_frame prev l); cbn [recv_meth]; congruence.
Qed.

(** the hooks are global Ltac state: restore the defaults for whoever loads this file *)
Ltac py_stuck_hook h ::= fail.
Ltac py_unfold_hook ::= idtac.

(** * Audit *)
Print Assumptions recv_thread_spec.
Print Assumptions recv_thread_no_fuel.

(** C01 / C02 restated on the interpreted source of serialframe.py: the
    theorems about the hand model (Frame_proofs, C02_proofs, C02_detect)
    transported along the refinement of Src_serialframe_proofs. *)
From Coq Require Import String List ZArith NArith Lia.
From NX Require Import Bytes PyStruct Crc PyLite Src_all Src_serialframe_proofs.
From NX Require Frame Wire ErrClass Frame_proofs C02_proofs C02_detect.
Import ListNotations.
Open Scope string_scope.
Open Scope Z_scope.

Definition noerr : pv := perr_obj "NOERR" 0.
Definition rejected_hdr : pv := frame_obj (enum_id 0) [] (perr_obj "HDR" 2).
Definition rejected_foot : pv := frame_obj (enum_id 0) [] (perr_obj "FOOT" 3).

Theorem src_frame_create_layout n fid p :
  0 <= fid <= 255 -> zlen p <= 65529 ->
  call_method program (1 + n) sf "frame_create" [PInt fid; PBytes p] =
  PyLite.Ok (PBytes (Wire.wire (Z.to_N fid) p), sf).
Proof.
  intros Hf Hp. rewrite frame_create_spec, (Frame_proofs.frame_create_layout fid p Hf Hp). reflexivity.
Qed.

Theorem src_frame_create_none n fid :
  0 <= fid <= 255 ->
  call_method program (1 + n) sf "frame_create" [PInt fid; PNone] =
  PyLite.Ok (PBytes (Wire.wire (Z.to_N fid) []), sf).
Proof.
  intros Hf. assert (Hp : zlen (@nil N) <= 65529) by (vm_compute; discriminate).
  rewrite frame_create_None_spec, (Frame_proofs.frame_create_layout fid [] Hf Hp). reflexivity.
Qed.

Theorem src_frame_create_refuse n fid p :
  0 <= fid <= 255 -> ~ zlen p <= 65529 ->
  call_method program (1 + n) sf "frame_create" [PInt fid; PBytes p] = Exc "struct.error".
Proof.
  intros Hf Hp. rewrite frame_create_spec, (Frame_proofs.frame_create_refuse fid p Hf Hp). reflexivity.
Qed.

Theorem src_frame_roundtrip n fid p :
  0 <= fid <= 8 -> wf_bytes p -> zlen p <= 65529 ->
  call_method program (3 + n) sf "frame_decode" [PBytes (Wire.wire (Z.to_N fid) p)] =
  PyLite.Ok (frame_obj (enum_id fid) p noerr, sf).
Proof.
  intros Hf Hw Hp. rewrite frame_decode_spec, (Frame_proofs.frame_roundtrip fid p Hf Hw Hp). reflexivity.
Qed.

(** the decoder applied to ANY byte string: either it is an accepted frame and
    the result is that frame's id and payload, or no (id, payload) is accepted
    for it and the result is an error object without payload *)
Theorem src_frame_decode_decides n d :
  wf_bytes d ->
  (exists fid p, 0 <= fid /\ Wire.accepts d (Z.to_N fid) p /\
     call_method program (3 + n) sf "frame_decode" [PBytes d] =
     PyLite.Ok (frame_obj (enum_id fid) p noerr, sf))
  \/
  ((forall fid p, ~ Wire.accepts d fid p) /\
   (call_method program (3 + n) sf "frame_decode" [PBytes d] = PyLite.Ok (rejected_hdr, sf) \/
    call_method program (3 + n) sf "frame_decode" [PBytes d] = PyLite.Ok (rejected_foot, sf))).
Proof.
  intros Hw. rewrite frame_decode_spec.
  destruct (C02_proofs.frame_decode_total d Hw) as [(fid & p & E) | [E | E]].
  - left. exists fid, p. apply (C02_proofs.frame_decode_iff d fid p Hw) in E as E'. destruct E' as [H0 Ha].
    repeat split; try assumption. rewrite E. reflexivity.
  - right. split.
    + intros fid p Ha.
      assert (X : Frame.frame_decode d = Frame.Ok (Z.of_N fid, p)).
      { apply (C02_proofs.frame_decode_iff d (Z.of_N fid) p Hw). split; [lia|]. now rewrite N2Z.id. }
      rewrite E in X. discriminate.
    + left. rewrite E. reflexivity.
  - right. split.
    + intros fid p Ha.
      assert (X : Frame.frame_decode d = Frame.Ok (Z.of_N fid, p)).
      { apply (C02_proofs.frame_decode_iff d (Z.of_N fid) p Hw). split; [lia|]. now rewrite N2Z.id. }
      rewrite E in X. discriminate.
    + right. rewrite E. reflexivity.
Qed.

(** every valid frame hit by an error pattern of the detected classes is rejected by the source *)
Theorem src_corrupted_frame_rejected n fid p e :
  0 <= fid <= 8 -> wf_bytes p -> zlen (Wire.wire (Z.to_N fid) p) <= 4095 ->
  length e = length (Wire.wire (Z.to_N fid) p) -> wf_bytes e ->
  C02_detect.length_intact e -> ErrClass.err_class (bits_of e) ->
  call_method program (3 + n) sf "frame_decode" [PBytes (xor_bytes (Wire.wire (Z.to_N fid) p) e)] = PyLite.Ok (rejected_hdr, sf) \/
  call_method program (3 + n) sf "frame_decode" [PBytes (xor_bytes (Wire.wire (Z.to_N fid) p) e)] = PyLite.Ok (rejected_foot, sf).
Proof.
  intros. rewrite frame_decode_spec.
  destruct (C02_detect.corrupted_frame_rejected fid p e) as [E | E]; try assumption; rewrite E; [left | right]; reflexivity.
Qed.

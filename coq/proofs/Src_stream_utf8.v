(** UTF-8: what the strict decoder accepts re-encodes to the same bytes. *)
From Coq Require Import List NArith ZArith Bool Lia ZifyBool ZifyN.
From NX Require Import Bytes Utf8.
Import ListNotations.
Ltac Zify.zify_post_hook ::= Z.to_euclidean_division_equations.
Open Scope N_scope.

Lemma utf8_dec1_inv b c r : utf8_dec1 b = Some (c, r) -> b = utf8_enc1 c ++ r.
Proof.
  unfold utf8_dec1, utf8_enc1, is_cont, valid_cp. destruct b as [|b0 r0]; [discriminate|].
  destruct (b0 <? 128) eqn:E1.
  { intros H. inversion H; subst. rewrite E1. reflexivity. }
  destruct (b0 <? 192) eqn:E2; [discriminate|].
  destruct (b0 <? 224) eqn:E3.
  { destruct r0 as [|b1 r1]; [discriminate|].
    destruct (_ && _) eqn:C; [|discriminate]. intros H. inversion H; subst. clear H.
    set (c := (b0 - 192) * 64 + (b1 - 128)) in *.
    replace (c <? 128) with false by lia. replace (c <? 2048) with true by lia.
    cbn [app]. f_equal; [lia|]. f_equal. lia. }
  destruct (b0 <? 240) eqn:E4.
  { destruct r0 as [|b1 [|b2 r2]]; try discriminate.
    destruct (_ && _) eqn:C; [|discriminate]. intros H. inversion H; subst. clear H.
    set (c := (b0 - 224) * 4096 + (b1 - 128) * 64 + (b2 - 128)) in *.
    replace (c <? 128) with false by lia. replace (c <? 2048) with false by lia.
    replace (c <? 65536) with true by lia.
    cbn [app]. f_equal; [lia|]. f_equal; [lia|]. f_equal. lia. }
  destruct (b0 <? 248) eqn:E5; [|discriminate].
  destruct r0 as [|b1 [|b2 [|b3 r3]]]; try discriminate.
  destruct (_ && _) eqn:C; [|discriminate]. intros H. inversion H; subst. clear H.
  set (c := (b0 - 240) * 262144 + (b1 - 128) * 4096 + (b2 - 128) * 64 + (b3 - 128)) in *.
  replace (c <? 128) with false by lia. replace (c <? 2048) with false by lia.
  replace (c <? 65536) with false by lia.
  cbn [app]. f_equal; [lia|]. f_equal; [lia|]. f_equal; [lia|]. f_equal. lia.
Qed.

Lemma utf8_dec_fuel_inv f : forall b cps, utf8_dec_fuel f b = Some cps -> utf8_enc cps = b.
Proof.
  induction f as [|f IH]; intros b cps; cbn [utf8_dec_fuel].
  - destruct b; [|discriminate]. intros H. inversion H. reflexivity.
  - destruct b as [|x t]; [intros H; inversion H; reflexivity|].
    destruct (utf8_dec1 (x :: t)) as [[c r]|] eqn:E; [|discriminate].
    destruct (utf8_dec_fuel f r) as [l|] eqn:E2; [|discriminate].
    intros H. inversion H; subst. apply utf8_dec1_inv in E. rewrite E.
    unfold utf8_enc. cbn [flat_map]. f_equal. apply IH, E2.
Qed.

Theorem utf8_enc_dec b cps : utf8_dec b = Some cps -> utf8_enc cps = b.
Proof. apply utf8_dec_fuel_inv. Qed.

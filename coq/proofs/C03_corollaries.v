(** Consequences of the scan specification (C03): back-to-back valid frames are
    each delivered once and in order; a valid frame after SOF-free noise is not lost. *)
From Coq Require Import Lia ZifyBool ZifyNat ZifyN String.
From NX Require Import Bytes PyStruct Crc Frame Wire Reasm Bytes_proofs Crc_proofs Frame_proofs
  Dispatch_proofs C02_proofs Reasm_proofs.
Open Scope Z_scope.

Lemma fs_wire fid p s :
  0 <= fid <= 8 -> wf_bytes p -> payload_fits p ->
  fst (scan (wire (Z.to_N fid) p ++ s)) = (fid, p) :: fst (scan s).
Proof.
  intros Hf Hp Hfit.
  pose proof (wire_length (Z.to_N fid) p) as Hlen.
  pose proof (wire_wf (Z.to_N fid) p ltac:(lia) Hp Hfit) as Hwf.
  pose proof (frame_roundtrip fid p Hf Hp Hfit) as Hrt.
  unfold payload_fits, zlen in Hfit.
  set (n := N.of_nat (List.length p)) in *.
  assert (Hshape : exists c1 c2, wire (Z.to_N fid) p =
            (85 :: (n + 6) mod 256 :: (n + 6) / 256 :: Z.to_N fid :: p ++ [c1; c2])%N).
  { unfold wire, wire_hdr. cbn [app]. eexists. eexists. reflexivity. }
  destruct Hshape as (c1 & c2 & Hshape).
  set (w := wire (Z.to_N fid) p) in *.
  assert (Hcons : exists r, w ++ s = 85%N :: r) by (rewrite Hshape; cbn [app]; eexists; reflexivity).
  destruct Hcons as (r & Hr).
  assert (Hhdr : hdr_decode (w ++ s) = Ok (fid, Z.of_N (n + 6))).
  { rewrite Hshape. cbn [app].
    pose proof Hwf as Hwf0. rewrite Hshape in Hwf0. unfold wf_bytes in Hwf0.
    apply Forall_cons_iff in Hwf0 as [W0 Hwf0]. apply Forall_cons_iff in Hwf0 as [W1 Hwf0].
    apply Forall_cons_iff in Hwf0 as [W2 Hwf0]. apply Forall_cons_iff in Hwf0 as [W3 Hwf0].
    rewrite hdr_decode_cons by assumption. cbn [N.eqb Pos.eqb negb].
    rewrite Z2N.id by lia.
    replace (known_id fid) with true by (symmetry; apply known_id_iff; lia). cbn [negb].
    f_equal. f_equal. lia. }
  rewrite Hr in *. 
  assert (Hz : zlen (85%N :: r) = Z.of_N (n + 6) + zlen s).
  { rewrite <- Hr. rewrite zlen_app. unfold zlen at 1. rewrite Hlen. lia. }
  pose proof (zlen_nonneg s) as Hs0.
  rewrite (fs_frame r fid (Z.of_N (n + 6)) fid p); try lia; try exact Hhdr.
  - f_equal. rewrite <- Hr. rewrite Z.max_r by lia.
    rewrite slice_from_app by (unfold zlen; rewrite Hlen; lia). reflexivity.
  - rewrite <- Hr. rewrite slice_to_app by (unfold zlen; rewrite Hlen; lia). exact Hrt.
Qed.

(** back-to-back valid frames: each delivered exactly once, in order *)
Definition valid_frame (f : Z * bytes) : Prop :=
  0 <= fst f <= 8 /\ wf_bytes (snd f) /\ payload_fits (snd f).

Theorem scan_back_to_back fs tail :
  Forall valid_frame fs ->
  fst (scan (List.concat (map (fun f => wire (Z.to_N (fst f)) (snd f)) fs) ++ tail)) =
  fs ++ fst (scan tail).
Proof.
  induction 1 as [|[fid p] fs (Hf & Hp & Hfit) Hfs IH]; [reflexivity|].
  cbn [map List.concat fst snd] in *. rewrite <- app_assoc.
  rewrite fs_wire by assumption. cbn [app]. f_equal. exact IH.
Qed.

(** a valid frame after noise that contains no SOF byte is not lost *)
Theorem scan_after_noise noise fid p tail :
  no_sof noise -> 0 <= fid <= 8 -> wf_bytes p -> payload_fits p ->
  fst (scan (noise ++ wire (Z.to_N fid) p ++ tail)) = (fid, p) :: fst (scan tail).
Proof.
  intros Hn Hf Hp Hfit.
  pose proof (fs_nosof noise (wire (Z.to_N fid) p ++ tail) Hn) as E.
  rewrite E. apply fs_wire; assumption.
Qed.

#!/bin/bash
# build the extracted PyLite interpreter (with the regenerated program) + its driver
set -e
cd "$(dirname "$0")"
timeout 900 coqc -Q .. NX Extract_py.v >/dev/null 2>&1
ocamlfind ocamlopt -w -a -package zarith -linkpkg pymodel.mli pymodel.ml pydriver.ml -o pydriver 2>&1

(** Extraction of the executable model for the correspondence runs.
    ExtrOcamlBasic only: bool, option, list, prod, unit, sumbool map to OCaml's;
    N, Z, positive, nat, ascii, string stay Coq inductives.  No Extract
    Constant / Extract Inductive of our own. *)
Require Extraction.
Require Import ExtrOcamlBasic.
From NX Require Import Frame Pad Records.
Extraction "model.ml" Frame.frame_create Frame.frame_decode Frame.recv_dispatch
  Frame.hdr_decode Frame.crc16 Crc.crc_spec Pad.data_align
  Records.chan_new Records.dev_new Records.chan_setattr Records.dev_setattr Records.get.

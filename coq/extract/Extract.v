(** Extraction of the executable model for the correspondence runs.
    ExtrOcamlBasic only: bool, option, list, prod, unit, sumbool map to OCaml's;
    N, Z, positive, nat, ascii, string stay Coq inductives.  No Extract
    Constant / Extract Inductive of our own. *)
Require Extraction.
Require Import ExtrOcamlBasic.
From NX Require Import Frame Pad Records Request Info Stream Reasm Config Handshake DummyDev Deliver Codec Family.
Extraction "model.ml" Frame.frame_create Frame.frame_decode Frame.recv_dispatch
  Frame.hdr_decode Frame.crc16 Crc.crc_spec Pad.data_align
  Records.chan_new Records.dev_new Records.chan_setattr Records.dev_setattr Records.get
  Request.frame_start Request.frame_cmninfo Request.frame_chinfo Request.frame_enable Request.frame_div
  Request.frame_start_decode Request.frame_enable_decode Request.frame_div_decode
  Info.frame_cmninfo_encode Info.frame_chinfo_encode Info.frame_ack_encode
  Info.frame_cmninfo_decode Info.frame_chinfo_decode Info.frame_ack_decode
  Stream.stream_decode Stream.frame_stream_encode Stream.stream_data_encode Stream.msfmt_get Stream.dsfmt_get
  Reasm.recv_all Reasm.scan Reasm.read_frame
  Config.step Config.connected Config.run
  Handshake.connect Handshake.nx_step Handshake.nx0 Handshake.disconnect
  DummyDev.dummy_handle
  Deliver.deliver Deliver.subscribe Deliver.unsubscribe Deliver.qget
  Codec.krecv_all Codec.kscan Family.fam_codec.

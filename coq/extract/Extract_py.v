(** Extraction of the PyLite interpreter together with the regenerated
    program (ASTs of /repo's sources), for the correspondence runs that
    validate PyLite's semantics against CPython.  ExtrOcamlBasic only. *)
Require Extraction.
Require Import ExtrOcamlBasic.
From NX Require Import PyLite Src_all.
Extraction "pymodel.ml" PyLite.call_method PyLite.construct PyLite.call_function Src_all.program.

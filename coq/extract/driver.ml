(* Driver for the extracted model: one command per input line, one result per
   output line.  Bytes travel as hex ("-" for empty), integers as decimal.
   Trusted for the correspondence only; no theorem depends on it. *)
module M = Model

(* ---- conversions between OCaml values and the Coq inductives ---------- *)
let rec pos_of_z (z : Z.t) : M.positive =
  if Z.equal z Z.one then M.XH
  else if Z.is_even z then M.XO (pos_of_z (Z.shift_right z 1))
  else M.XI (pos_of_z (Z.shift_right z 1))

let rec z_of_pos (p : M.positive) : Z.t =
  match p with
  | M.XH -> Z.one
  | M.XO q -> Z.shift_left (z_of_pos q) 1
  | M.XI q -> Z.succ (Z.shift_left (z_of_pos q) 1)

let cn_of_z (z : Z.t) : M.n = if Z.sign z = 0 then M.N0 else M.Npos (pos_of_z z)
let z_of_cn (n : M.n) : Z.t = match n with M.N0 -> Z.zero | M.Npos p -> z_of_pos p
let cz_of_z (z : Z.t) : M.z =
  if Z.sign z = 0 then M.Z0
  else if Z.sign z > 0 then M.Zpos (pos_of_z z)
  else M.Zneg (pos_of_z (Z.neg z))
let z_of_cz (z : M.z) : Z.t =
  match z with M.Z0 -> Z.zero | M.Zpos p -> z_of_pos p | M.Zneg p -> Z.neg (z_of_pos p)

let cn_of_int i = cn_of_z (Z.of_int i)
let int_of_cn n = Z.to_int (z_of_cn n)
let cz_of_string s = cz_of_z (Z.of_string s)
let string_of_cz z = Z.to_string (z_of_cz z)
let string_of_cn n = Z.to_string (z_of_cn n)

let rec nat_of_int i : M.nat = if i <= 0 then M.O else M.S (nat_of_int (i - 1))
let rec int_of_nat (n : M.nat) = match n with M.O -> 0 | M.S m -> 1 + int_of_nat m

let bytes_of_hex (s : string) : M.n list =
  if s = "-" then []
  else List.init (String.length s / 2) (fun i ->
      cn_of_int (int_of_string ("0x" ^ String.sub s (2 * i) 2)))

let hex_of_bytes (l : M.n list) : string =
  if l = [] then "-"
  else String.concat "" (List.map (fun b -> Printf.sprintf "%02x" (int_of_cn b)) l)

let ascii_of_char (c : char) : M.ascii =
  let k = Char.code c in
  let b i = (k lsr i) land 1 = 1 in
  M.Ascii (b 0, b 1, b 2, b 3, b 4, b 5, b 6, b 7)

let char_of_ascii (a : M.ascii) : char =
  match a with
  | M.Ascii (b0, b1, b2, b3, b4, b5, b6, b7) ->
    let v b i = if b then 1 lsl i else 0 in
    Char.chr (v b0 0 + v b1 1 + v b2 2 + v b3 3 + v b4 4 + v b5 5 + v b6 6 + v b7 7)

let cstring_of (s : string) : M.string =
  let r = ref M.EmptyString in
  for i = String.length s - 1 downto 0 do
    r := M.String (ascii_of_char s.[i], !r)
  done;
  !r

let rec string_of_cstring (s : M.string) : string =
  match s with
  | M.EmptyString -> ""
  | M.String (a, r) -> String.make 1 (char_of_ascii a) ^ string_of_cstring r

(* ---- printers ------------------------------------------------------- *)
let perr = function M.EHDR -> "HDR" | M.EFOOT -> "FOOT"

let nospace s = String.map (fun c -> if c = ' ' then '_' else c) s

let res_to_string f = function
  | M.Ok a -> "ok " ^ f a
  | M.Err e -> "err " ^ perr e
  | M.Raise w -> "raise " ^ nospace (string_of_cstring w)

let request = function
  | M.RCmninfo -> "cmninfo" | M.RChinfo -> "chinfo" | M.RStart -> "start"
  | M.REnable -> "enable" | M.RDiv -> "div"

let dispatch = function
  | M.DNone -> "none"
  | M.DCall (r, p) -> "call " ^ request r ^ " " ^ hex_of_bytes p
  | M.DAssert -> "assert"

let string_of_hex (s : string) : string =
  if s = "-" then "" else
  String.init (String.length s / 2) (fun i -> Char.chr (int_of_string ("0x" ^ String.sub s (2 * i) 2)))

let hex_of_string (s : string) : string =
  if s = "" then "-" else String.concat "" (List.map (fun c -> Printf.sprintf "%02x" (Char.code c)) (List.init (String.length s) (String.get s)))

let pyval = function
  | M.PInt z -> "i" ^ string_of_cz z
  | M.PBool b -> if b then "bT" else "bF"
  | M.PStr s -> "s" ^ hex_of_string (string_of_cstring s)
  | M.POther z -> "o" ^ string_of_cz z

let pyrec (r : (M.string * M.pyval) list) : string =
  String.concat "," (List.sort compare (List.map (fun (k, v) -> hex_of_string (string_of_cstring k) ^ "=" ^ pyval v) r))

(* bool vectors as strings of 0/1 ("-" = empty); int vectors comma separated *)
let bools_of_string s = if s = "-" then [] else List.init (String.length s) (fun i -> s.[i] = '1')
let string_of_bools l = if l = [] then "-" else String.concat "" (List.map (fun b -> if b then "1" else "0") l)
let zs_of_string s = if s = "-" then [] else List.map cz_of_string (String.split_on_char ',' s)
let string_of_zs l = if l = [] then "-" else String.concat "," (List.map string_of_cz l)

let ns_of_string s = if s = "-" then [] else List.map (fun x -> cn_of_z (Z.of_string x)) (String.split_on_char ',' s)
let string_of_ns l = if l = [] then "-" else String.concat "," (List.map string_of_cn l)

(* ---- stream samples ---------------------------------------------------- *)
let split c s = if s = "-" || s = "" then [] else String.split_on_char c s

let layout_of s =
  List.map (fun e -> match String.split_on_char ':' e with
      | [ t; v; m; c ] -> { M.l_type = cz_of_string t; l_vdim = cz_of_string v; l_mlen = cz_of_string m; l_chan = cz_of_string c }
      | _ -> failwith "layout") (split ';' s)

let utable_of s =
  List.map (fun e -> match String.split_on_char ':' e with
      | [ t; slen; fmt; kind; u; sc ] ->
        (cz_of_string t, ({ M.r_slen = cz_of_string slen; r_fmt = cstring_of (if fmt = "_" then "" else fmt);
                            r_scale = (if sc = "N" then M.SNone else M.SInt (cz_of_string sc));
                            r_kind = cz_of_string kind }, u = "1"))
      | _ -> failwith "utable") (split ';' s)

let is_nan32 b = let e = Z.logand (Z.shift_right b 23) (Z.of_int 255) and m = Z.logand b (Z.of_int 0x7fffff) in
  Z.equal e (Z.of_int 255) && Z.sign m <> 0
let is_nan64 b = let e = Z.logand (Z.shift_right b 52) (Z.of_int 2047) and m = Z.logand b (Z.pred (Z.shift_left Z.one 52)) in
  Z.equal e (Z.of_int 2047) && Z.sign m <> 0

let sval_str = function
  | M.SVInt z -> "i" ^ string_of_cz z
  | M.SVBool b -> if b then "b1" else "b0"
  | M.SVF32 b -> let z = z_of_cn b in if is_nan32 z then "f32:nan" else "f32:" ^ Z.to_string z
  | M.SVF64 b -> let z = z_of_cn b in if is_nan64 z then "f64:nan" else "f64:" ^ Z.to_string z
  | M.SVDyad (n, e) -> "q" ^ string_of_cz n ^ "/" ^ string_of_cz e
  | M.SVText cps -> "t" ^ String.concat "." (List.map string_of_cn cps)
  | M.SVLossy -> "lossy"
  | M.SVBytes b -> "x" ^ hex_of_bytes b
  | M.SVUnmodelled -> "unmodelled"

let sample_str (s : M.sample) =
  Printf.sprintf "%s %s %s %s [%s] [%s]" (string_of_cz s.M.s_chan) (string_of_cz s.M.s_kind)
    (string_of_cz s.M.s_vdim) (string_of_cz s.M.s_mlen)
    (String.concat "," (List.map sval_str s.M.s_data)) (String.concat "," (List.map sval_str s.M.s_meta))

let evalue_of (t : string) : M.evalue =
  let body = String.sub t 1 (String.length t - 1) in
  match t.[0] with
  | 'i' -> M.EVInt (cz_of_string body)
  | 'f' -> M.EVF32 (cn_of_z (Z.of_string body))
  | 'd' -> M.EVF64 (cn_of_z (Z.of_string body))
  | 'X' -> M.EVFix (cz_of_string body)
  | 'T' -> M.EVText (List.map (fun x -> cn_of_z (Z.of_string x)) (split '.' body))
  | 'B' -> M.EVBytes (bytes_of_hex (if body = "" then "-" else body))
  | _ -> failwith "evalue"

let esamples_of s =
  List.map (fun e -> match String.split_on_char ':' e with
      | [ c; t; v; m; vals; meta ] ->
        { M.e_chan = cz_of_string c; e_type = cz_of_string t; e_vdim = cz_of_string v; e_mlen = cz_of_string m;
          e_data = List.map evalue_of (split ',' vals); e_meta = List.map cz_of_string (split ',' meta) }
      | _ -> failwith "esample") (split ';' s)

let frames_str fs = if fs = [] then "-" else String.concat ";" (List.map (fun (fid, p) -> string_of_cz fid ^ ":" ^ hex_of_bytes p) fs)

(* ---- configuration histories ------------------------------------------- *)
let rec drop n l = if n <= 0 then l else match l with [] -> [] | _ :: r -> drop (n - 1) r
let nats_of s = List.map (fun x -> nat_of_int (int_of_string x)) (split ',' s)
let answer_of s = match s with
  | "A" -> M.Ack | "LR" -> M.LostReq | "LA" -> M.LostAck
  | _ -> M.Nack (cz_of_string (String.sub s 1 (String.length s - 1)))
let op_of s = match String.split_on_char ':' s with
  | [ "E"; cs ] -> M.OpEnable (nats_of cs)
  | [ "D"; cs ] -> M.OpDisable (nats_of cs)
  | [ "V"; cs; v ] -> M.OpDivider (nats_of cs, cz_of_string v)
  | [ "EA" ] -> M.OpEnableAll | [ "DA" ] -> M.OpDisableAll | [ "DF" ] -> M.OpDefault
  | [ "W"; a1; a2 ] -> M.OpWrite (answer_of a1, answer_of a2)
  | _ -> failwith "op"
let req_str = function
  | M.RqEnSingle (k, v) -> Printf.sprintf "es:%d:%d" (int_of_nat k) (if v then 1 else 0)
  | M.RqEnVec l -> "ev:" ^ string_of_bools l
  | M.RqDivSingle (k, v) -> Printf.sprintf "ds:%d:%s" (int_of_nat k) (string_of_cz v)
  | M.RqDivVec l -> "dv:" ^ string_of_zs l

(* ---- commands ------------------------------------------------------- *)
let run (w : string list) : string =
  match w with
  | [ "frame_create"; fid; d ] ->
    res_to_string hex_of_bytes (M.frame_create (cz_of_string fid) (bytes_of_hex d))
  | [ "frame_decode"; d ] ->
    res_to_string
      (fun (fid, p) -> string_of_cz fid ^ " " ^ hex_of_bytes p)
      (M.frame_decode (bytes_of_hex d))
  | [ "hdr_decode"; d ] ->
    res_to_string
      (fun (fid, flen) -> string_of_cz fid ^ " " ^ string_of_cz flen)
      (M.hdr_decode (bytes_of_hex d))
  | [ "recv_dispatch"; d ] -> dispatch (M.recv_dispatch (bytes_of_hex d))
  | [ "crc16"; d ] -> string_of_cn (M.crc16 (bytes_of_hex d))
  | [ "crc_spec"; d ] -> string_of_cn (M.crc_spec (bytes_of_hex d))
  | [ "data_align"; p; d ] ->
    hex_of_bytes (M.data_align (cz_of_string p) (bytes_of_hex d))
  | [ "chan_rec"; chan; typ; vdim; en; div; mlen; name; kind ] ->
    (* attributes after construction, then outcome of setattr name *)
    let r = M.chan_new (cz_of_string chan) (cz_of_string typ) (cz_of_string vdim)
        (cstring_of "n") (en = "1") (cz_of_string div) (cz_of_string mlen) in
    let nm = cstring_of (string_of_hex name) in
    let v = (match kind with "int" -> M.PInt (cz_of_string "7") | "bool" -> M.PBool true
                             | "str" -> M.PStr (cstring_of "v") | _ -> M.POther (cz_of_string "0")) in
    let (r2, o) = M.chan_setattr r nm v in
    pyrec r ^ " | " ^ (match o with M.Done -> "done" | M.TypeError -> "TypeError") ^ " | " ^ pyrec r2
  | [ "dev_rec"; chmax; flags; rx; name ] ->
    let r = M.dev_new (cz_of_string chmax) (cz_of_string flags) (cz_of_string rx) in
    let nm = cstring_of (string_of_hex name) in
    let (r2, o) = M.dev_setattr r nm (M.PInt (cz_of_string "7")) in
    pyrec r ^ " | " ^ (match o with M.Done -> "done" | M.TypeError -> "TypeError") ^ " | " ^ pyrec r2
  | [ "frame_start"; v ] -> res_to_string hex_of_bytes (M.frame_start (v = "1"))
  | [ "frame_cmninfo" ] -> res_to_string hex_of_bytes M.frame_cmninfo
  | [ "frame_chinfo"; k ] -> res_to_string hex_of_bytes (M.frame_chinfo (cz_of_string k))
  | [ "frame_enable_single"; n; k; v ] ->
    res_to_string hex_of_bytes (M.frame_enable (M.EnSingle (cz_of_string k, v = "1")) (cz_of_string n))
  | [ "frame_enable_vec"; n; l ] ->
    res_to_string hex_of_bytes (M.frame_enable (M.EnVec (bools_of_string l)) (cz_of_string n))
  | [ "frame_div_single"; n; k; v ] ->
    res_to_string hex_of_bytes (M.frame_div (M.DivSingle (cz_of_string k, cz_of_string v)) (cz_of_string n))
  | [ "frame_div_vec"; n; l ] ->
    res_to_string hex_of_bytes (M.frame_div (M.DivVec (zs_of_string l)) (cz_of_string n))
  | [ "start_decode"; d ] ->
    res_to_string (fun b -> if b then "1" else "0") (M.frame_start_decode (bytes_of_hex d))
  | [ "enable_decode"; d; cur ] ->
    res_to_string string_of_bools (M.frame_enable_decode (bytes_of_hex d) (bools_of_string cur))
  | [ "div_decode"; d; cur ] ->
    res_to_string string_of_zs (M.frame_div_decode (bytes_of_hex d) (zs_of_string cur))
  | [ "cmninfo_encode"; a; b; c ] ->
    res_to_string hex_of_bytes (M.frame_cmninfo_encode (cz_of_string a) (cz_of_string b) (cz_of_string c))
  | [ "chinfo_encode"; en; ty; vd; dv; ml; name ] ->
    res_to_string hex_of_bytes (M.frame_chinfo_encode
      { M.c_en = (en = "1"); c_type = cz_of_string ty; c_vdim = cz_of_string vd; c_div = cz_of_string dv;
        c_mlen = cz_of_string ml; c_name = ns_of_string name })
  | [ "ack_encode"; r ] -> res_to_string hex_of_bytes (M.frame_ack_encode (cz_of_string r))
  | [ "cmninfo_decode"; fid; d ] ->
    res_to_string (function None -> "none"
                          | Some ((a, b), c) -> string_of_cz a ^ " " ^ string_of_cz b ^ " " ^ string_of_cz c)
      (M.frame_cmninfo_decode (cz_of_string fid) (bytes_of_hex d))
  | [ "chinfo_decode"; fid; d ] ->
    res_to_string (function None -> "none"
                          | Some c -> String.concat " " [ (if c.M.c_en then "1" else "0"); string_of_cz c.M.c_type;
                                                         string_of_cz c.M.c_vdim; string_of_cz c.M.c_div;
                                                         string_of_cz c.M.c_mlen; string_of_ns c.M.c_name ])
      (M.frame_chinfo_decode (cz_of_string fid) (bytes_of_hex d))
  | [ "ack_decode"; fid; d ] ->
    res_to_string (function None -> "none"
                          | Some (st, r) -> (if st then "T " else "F ") ^ string_of_cz r)
      (M.frame_ack_decode (cz_of_string fid) (bytes_of_hex d))
  | [ "stream_decode"; lay; user; d ] ->
    res_to_string (function None -> "none"
                          | Some (fl, ss) -> string_of_cz fl ^ " | " ^ String.concat " ; " (List.map sample_str ss))
      (M.stream_decode (layout_of lay) (utable_of user) (bytes_of_hex d))
  | [ "stream_encode"; user; ss ] ->
    res_to_string (function None -> "none" | Some b -> hex_of_bytes b)
      (M.frame_stream_encode (utable_of user) (esamples_of ss))
  | [ "chan_derived"; typ ] ->
    let r = M.chan_new (cz_of_string "0") (cz_of_string typ) (cz_of_string "1") (cstring_of "") false
        (cz_of_string "0") (cz_of_string "0") in
    String.concat " " (List.map (fun k -> match M.get r (cstring_of k) with Some v -> pyval v | None -> "missing")
                         [ "_type"; "dtype"; "critical"; "type_res"; "is_valid"; "is_numerical" ])
  | [ "dev_derived"; flags ] ->
    let r = M.dev_new (cz_of_string "0") (cz_of_string flags) (cz_of_string "0") in
    String.concat " " (List.map (fun k -> match M.get r (cstring_of k) with Some v -> pyval v | None -> "missing")
                         [ "flags"; "div_supported"; "ack_supported" ])
  | [ "recv_all"; chunks ] ->
    (match M.recv_all (List.map bytes_of_hex (String.split_on_char ',' chunks)) with
     | None -> "raise-or-fuel"
     | Some (fs, rest) -> frames_str fs ^ " | " ^ hex_of_bytes rest)
  | [ "scan"; d ] -> let (fs, rest) = M.scan (bytes_of_hex d) in frames_str fs ^ " | " ^ hex_of_bytes rest
  | [ "config"; divsup; acksup; en0; div0; ops ] ->
    let s0 = M.connected (bools_of_string en0) (zs_of_string div0) (divsup = "1") (acksup = "1") in
    let (_, outs) = List.fold_left (fun (s, acc) o ->
        let s' = M.step s (op_of o) in
        let (c, d) = s' and (_, d0) = s in
        let nlog = drop (List.length d0.M.d_log) d.M.d_log in
        (s', acc @ [ Printf.sprintf "en=%s div=%s now=%s dnow=%s log=%s" (string_of_bools d.M.d_en)
                       (string_of_zs d.M.d_div) (string_of_bools c.M.en_now) (string_of_zs c.M.div_now)
                       (if nlog = [] then "-" else String.concat "+" (List.map req_str nlog)) ]))
        (s0, []) (String.split_on_char ';' ops) in
    String.concat " / " outs
  | [ "connect"; chmax; answers ] ->
    let o (i : M.nat) = let k = int_of_nat i in
      if k < String.length answers then (match answers.[k] with 'S' -> M.ASilent | 'W' -> M.AWrong | 'M' -> M.AMalformed | _ -> M.AGood)
      else M.AGood in
    let ((out, c), st) = M.connect (nat_of_int (int_of_string chmax)) o in
    Printf.sprintf "%s reqs=%d running=%b" (match out with M.Connected -> "Connected" | M.TimeoutError -> "TimeoutError" | M.DecodeError -> "DecodeError")
      (int_of_nat st.M.reqs) c.M.recv_running
  | [ "lifecycle"; streaming; enabled; calls ] ->
    let s0 = M.nx0 (streaming = "1") (enabled = "1") in
    let (_, outs) = List.fold_left (fun (s, acc) k ->
        let call = (match k with "connect" -> M.KConnect | "disconnect" -> M.KDisconnect | "stream_start" -> M.KStreamStart
                                | "stream_stop" -> M.KStreamStop | "sub" -> M.KSub | "unsub" -> M.KUnsub
                                | "enable" -> M.KEnable | _ -> M.KWrite) in
        let (s', r) = M.nx_step s call in
        (s', acc @ [ Printf.sprintf "%s conn=%b stream=%b thr=%b recv=%b devstream=%b"
                       (match r with M.RDone -> "ok" | M.RAssert -> "AssertionError" | M.RIndex -> "IndexError")
                       s'.M.connected_f s'.M.stream_started s'.M.stream_thread s'.M.cm.M.recv_running s'.M.dev_streaming ]))
        (s0, []) (String.split_on_char ',' calls) in
    String.concat " / " outs
  | [ "dummy"; flags; rxpad; chans; writes ] ->
    (* chans: en:type:vdim:div:mlen:name(cps dot separated) ; ...   writes: hex,hex,... *)
    let mkc e = (match String.split_on_char ':' e with
        | [ en; ty; vd; dv; ml; nm ] ->
          { M.c_en = (en = "1"); c_type = cz_of_string ty; c_vdim = cz_of_string vd; c_div = cz_of_string dv;
            c_mlen = cz_of_string ml; c_name = List.map (fun x -> cn_of_z (Z.of_string x)) (split '.' nm) }
        | _ -> failwith "chan") in
    let d0 = { M.dd_chans = List.map mkc (split ';' chans); dd_flags = cz_of_string flags;
               dd_rxpad = cz_of_string rxpad; dd_streaming = false } in
    let (_, outs, dead) = List.fold_left (fun (d, acc, dead) w ->
        if dead then (d, acc, dead) else
        match M.dummy_handle d (bytes_of_hex w) with
        | M.Ok (d', rs) ->
          (d', acc @ [ Printf.sprintf "[%s] en=%s div=%s st=%b" (String.concat "," (List.map hex_of_bytes rs))
                         (string_of_bools (List.map (fun c -> c.M.c_en) d'.M.dd_chans))
                         (string_of_zs (List.map (fun c -> c.M.c_div) d'.M.dd_chans)) d'.M.dd_streaming ], false)
        | M.Raise w -> (d, acc @ [ "raise " ^ nospace (string_of_cstring w) ], true)
        | M.Err _ -> (d, acc @ [ "err" ], true))
        (d0, [], false) (String.split_on_char ',' writes) in
    ignore dead; String.concat " / " outs
  | [ "deliver"; en; script ] ->
    (* script items: S:chan:q | U:q | F:flags:chan.val+chan.val...  ; final print of queues 0..9 *)
    let s0 = { M.subs = []; queues = []; enabled = bools_of_string en; ovf = M.O } in
    let st = List.fold_left (fun s it ->
        match String.split_on_char ':' it with
        | [ "S"; c; q ] -> M.subscribe s (nat_of_int (int_of_string c)) (nat_of_int (int_of_string q))
        | [ "U"; q ] -> M.unsubscribe s (nat_of_int (int_of_string q))
        | [ "B"; _; _ ] -> s      (* buffered, unwritten enable/disable: not the device's state, no effect on delivery *)
        | [ "F"; fl; ss ] ->
          let samples = List.map (fun x -> match String.split_on_char '.' x with
              | [ c; v ] -> (nat_of_int (int_of_string c), cz_of_string v) | _ -> failwith "sample") (split '+' ss) in
          M.deliver s { M.sf_flags = cz_of_string fl; sf_samples = samples }
        | _ -> failwith "script") s0 (split ';' script) in
    String.concat " " (List.init 8 (fun q ->
        let l = M.qget st.M.queues (nat_of_int q) in
        Printf.sprintf "q%d=%s" q (if l = [] then "-" else String.concat "|" (List.map (fun g -> String.concat "," (List.map string_of_cz g)) l))))
  | [ "fam_recv_all"; params; chunks ] ->
    (match String.split_on_char ':' params with
     | [ sof; hl; lp; lb; be; ip; kind; fl ] ->
       let m = { M.f_sof = cn_of_int (int_of_string sof); f_hdr_len = nat_of_int (int_of_string hl);
                 f_len_pos = nat_of_int (int_of_string lp); f_len_bytes = nat_of_int (int_of_string lb);
                 f_len_be = (be = "1"); f_id_pos = nat_of_int (int_of_string ip);
                 f_foot = (if kind = "xor" then M.FXor else M.FSum); f_foot_len = nat_of_int (int_of_string fl) } in
       (match M.krecv_all (M.fam_codec m) (List.map bytes_of_hex (String.split_on_char ',' chunks)) with
        | None -> "raise-or-fuel"
        | Some (fs, _) -> frames_str fs)
     | _ -> "driver-error params")
  | _ -> "driver-error unknown-command"

let () =
  try
    while true do
      let line = input_line stdin in
      let w = List.filter (fun s -> s <> "") (String.split_on_char ' ' line) in
      let out = try run w with
        | Stack_overflow -> "driver-error stack-overflow"
        | e -> "driver-error " ^ nospace (Printexc.to_string e) in
      print_string out;
      print_char '\n'
    done
  with End_of_file -> ()

(* Driver for the extracted PyLite interpreter: one command per line.
     new <fuel> <Class> <args-sexp-list>
     call <fuel> <self-sexp> <method> <args-sexp-list>
     fn <fuel> <function> <args-sexp-list>
   Values are s-expressions (see tools/harness/pyl.py).  Trusted for the
   correspondence only; no theorem depends on it. *)
module M = Pymodel

let rec pos_of_z (z : Z.t) : M.positive =
  if Z.equal z Z.one then M.XH
  else if Z.is_even z then M.XO (pos_of_z (Z.shift_right z 1))
  else M.XI (pos_of_z (Z.shift_right z 1))
let rec z_of_pos (p : M.positive) : Z.t =
  match p with
  | M.XH -> Z.one
  | M.XO q -> Z.shift_left (z_of_pos q) 1
  | M.XI q -> Z.succ (Z.shift_left (z_of_pos q) 1)
let cn_of_z (z : Z.t) : M.n = if Z.sign z = 0 then M.N0 else M.Npos (pos_of_z z)
let z_of_cn (n : M.n) : Z.t = match n with M.N0 -> Z.zero | M.Npos p -> z_of_pos p
let cz_of_z (z : Z.t) : M.z =
  if Z.sign z = 0 then M.Z0
  else if Z.sign z > 0 then M.Zpos (pos_of_z z)
  else M.Zneg (pos_of_z (Z.neg z))
let z_of_cz (z : M.z) : Z.t =
  match z with M.Z0 -> Z.zero | M.Zpos p -> z_of_pos p | M.Zneg p -> Z.neg (z_of_pos p)
let rec nat_of_int i : M.nat = if i <= 0 then M.O else M.S (nat_of_int (i - 1))

let ascii_of_char (c : char) : M.ascii =
  let k = Char.code c in
  let b i = (k lsr i) land 1 = 1 in
  M.Ascii (b 0, b 1, b 2, b 3, b 4, b 5, b 6, b 7)
let char_of_ascii (a : M.ascii) : char =
  match a with
  | M.Ascii (b0, b1, b2, b3, b4, b5, b6, b7) ->
    let v b i = if b then 1 lsl i else 0 in
    Char.chr (v b0 0 + v b1 1 + v b2 2 + v b3 3 + v b4 4 + v b5 5 + v b6 6 + v b7 7)
let cstring_of (s : string) : M.string =
  let r = ref M.EmptyString in
  for i = String.length s - 1 downto 0 do r := M.String (ascii_of_char s.[i], !r) done;
  !r
let string_of_cstring (s : M.string) : string =
  let b = Buffer.create 16 in
  let rec go = function M.EmptyString -> () | M.String (a, r) -> Buffer.add_char b (char_of_ascii a); go r in
  go s; Buffer.contents b

let unhex (s : string) : string =
  String.init (String.length s / 2) (fun i -> Char.chr (int_of_string ("0x" ^ String.sub s (2 * i) 2)))
let hex (s : string) : string =
  String.concat "" (List.init (String.length s) (fun i -> Printf.sprintf "%02x" (Char.code s.[i])))

(* ---- s-expression reader ---- *)
type sx = A of string | L of sx list
let parse_sx (s : string) : sx list =
  let n = String.length s in
  let pos = ref 0 in
  let rec skip () = if !pos < n && s.[!pos] = ' ' then (incr pos; skip ()) in
  let rec item () =
    skip ();
    if s.[!pos] = '(' then begin
      incr pos;
      let items = ref [] in
      let rec loop () =
        skip ();
        if s.[!pos] = ')' then incr pos else (items := item () :: !items; loop ()) in
      loop (); L (List.rev !items)
    end else begin
      let st = !pos in
      while !pos < n && s.[!pos] <> ' ' && s.[!pos] <> '(' && s.[!pos] <> ')' do incr pos done;
      A (String.sub s st (!pos - st))
    end in
  let out = ref [] in
  let rec top () = skip (); if !pos < n then (out := item () :: !out; top ()) in
  top (); List.rev !out

let rec pv_of_sx (x : sx) : M.pv =
  match x with
  | A "N" -> M.PNone
  | A "T" -> M.PBool true
  | A "F" -> M.PBool false
  | A a when a.[0] = 'i' -> M.PInt (cz_of_z (Z.of_string (String.sub a 1 (String.length a - 1))))
  | A a when a.[0] = 's' -> M.PStr (cstring_of (unhex (String.sub a 1 (String.length a - 1))))
  | A a when a.[0] = 'b' ->
    let r = unhex (String.sub a 1 (String.length a - 1)) in
    M.PBytes (List.init (String.length r) (fun i -> cn_of_z (Z.of_int (Char.code r.[i]))))
  | L (A "t" :: r) -> M.PTuple (List.map pv_of_sx r)
  | L (A "l" :: r) -> M.PList (List.map pv_of_sx r)
  | L (A "S" :: r) -> M.PSet (List.map pv_of_sx r)
  | L [ A "e"; A c; A nm; A v; A isint ] ->
    M.PEnum (cstring_of c, cstring_of nm, cz_of_z (Z.of_string v), isint = "1")
  | L (A "o" :: A c :: fs) ->
    M.PObj (cstring_of c, List.map (function L [ A f; v ] -> (cstring_of f, pv_of_sx v) | _ -> failwith "field") fs)
  | L [ A "c"; A c ] -> M.PCls (cstring_of c)
  | L [ A "crc"; A c ] -> M.PCrc (cstring_of c)
  | L (A "bi" :: parts) ->   (* pl15: a builtin / bound-method value, as printed by sx_of_pv *)
    M.PBuiltin (cstring_of (String.concat " " (List.map (function A a -> a | _ -> failwith "bi") parts)))
  | L [ A "f"; A b ] -> M.PF64 (cn_of_z (Z.of_string b))
  | L [ A "d"; A n; A e ] -> M.PDy (cz_of_z (Z.of_string n), cz_of_z (Z.of_string e))
  | L (A "D" :: r) -> M.PDict (List.map (function L [ k; v ] -> (pv_of_sx k, pv_of_sx v) | _ -> failwith "dict") r)
  | _ -> failwith "value"

let rec sx_of_pv (v : M.pv) : string =
  match v with
  | M.PNone -> "N"
  | M.PBool true -> "T"
  | M.PBool false -> "F"
  | M.PInt z -> "i" ^ Z.to_string (z_of_cz z)
  | M.PStr s -> "s" ^ hex (string_of_cstring s)
  | M.PBytes l -> "b" ^ String.concat "" (List.map (fun b -> Printf.sprintf "%02x" (Z.to_int (z_of_cn b))) l)
  | M.PTuple l -> "(" ^ String.concat " " ("t" :: List.map sx_of_pv l) ^ ")"
  | M.PList l -> "(" ^ String.concat " " ("l" :: List.map sx_of_pv l) ^ ")"
  | M.PSet l -> "(" ^ String.concat " " ("S" :: List.map sx_of_pv l) ^ ")"
  | M.PEnum (c, n, z, isint) ->
    Printf.sprintf "(e %s %s %s %s)" (string_of_cstring c) (string_of_cstring n) (Z.to_string (z_of_cz z))
      (if isint then "1" else "0")
  | M.PObj (c, fs) ->
    "(" ^ String.concat " " ("o" :: string_of_cstring c ::
                             List.map (fun (f, v) -> "(" ^ string_of_cstring f ^ " " ^ sx_of_pv v ^ ")") fs) ^ ")"
  | M.PCls c -> "(c " ^ string_of_cstring c ^ ")"
  | M.PMod c -> "(m " ^ string_of_cstring c ^ ")"
  | M.PBuiltin c -> "(bi " ^ string_of_cstring c ^ ")"
  | M.PFunc c -> "(fn " ^ string_of_cstring c ^ ")"
  | M.PCrc c -> "(crc " ^ string_of_cstring c ^ ")"
  | M.PF64 b -> "(f " ^ Z.to_string (z_of_cn b) ^ ")"
  | M.PDy (n, e) -> "(d " ^ Z.to_string (z_of_cz n) ^ " " ^ Z.to_string (z_of_cz e) ^ ")"
  | M.PDict l -> "(" ^ String.concat " " ("D" :: List.map (fun (k, v) -> "(" ^ sx_of_pv k ^ " " ^ sx_of_pv v ^ ")") l) ^ ")"

let nospace s = String.map (fun c -> if c = ' ' then '_' else c) s

let res_str f = function
  | M.Ok a -> "ok " ^ f a
  | M.Exc c -> "exc " ^ string_of_cstring c
  | M.Fuel -> "fuel"
  | M.Unsupported w -> "unsupported " ^ nospace (string_of_cstring w)

let run (line : string) : string =
  match parse_sx line with
  | [ A "new"; A fuel; A cls; L args ] ->
    res_str sx_of_pv (M.construct M.program (nat_of_int (int_of_string fuel)) (cstring_of cls) (List.map pv_of_sx args))
  | [ A "call"; A fuel; self; A m; L args ] ->
    res_str (fun (r, s) -> sx_of_pv r ^ " " ^ sx_of_pv s)
      (M.call_method M.program (nat_of_int (int_of_string fuel)) (pv_of_sx self) (cstring_of m) (List.map pv_of_sx args))
  | [ A "fn"; A fuel; A f; L args ] ->
    res_str sx_of_pv (M.call_function M.program (nat_of_int (int_of_string fuel)) (cstring_of f) (List.map pv_of_sx args))
  | _ -> "driver-error unknown-command"

let () =
  try
    while true do
      let line = input_line stdin in
      let out = try run line with
        | Stack_overflow -> "driver-error stack-overflow"
        | e -> "driver-error " ^ nospace (Printexc.to_string e) in
      print_string out; print_char '\n'; flush stdout
    done
  with End_of_file -> ()

#!/bin/bash
# build the extracted model + driver (offline; ocamlfind + zarith from Debian)
set -e
cd "$(dirname "$0")"
timeout 600 coqc -Q .. NX Extract.v >/dev/null
ocamlfind ocamlopt -w -a -package zarith -linkpkg model.mli model.ml driver.ml -o driver 2>&1

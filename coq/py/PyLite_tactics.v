(** MIGRATION (interpreter v2 -> v3: exceptions carry state).

    What changed in py/PyLite.v: [res] has a fifth constructor
    [ExcS cls st] next to [Exc cls].  A raise inside [eval]/[exec] is
    [ExcS c <environment at the raise>] (primitives still return [Exc c]; the
    interpreter wraps them in [attach <env>]); [STry] runs the handler in that
    environment; [call_func] reports [ExcS c [("$self", v)]] where [v] is the
    value of the callee's FIRST PARAMETER at the raise ([ExcS c []] for a
    function without parameters; a failed argument binding stays [Exc c]); the
    caller writes that receiver back, as it does after a normal return.  The
    entry points [call_method], [construct], [call_function] are
    [strip (...)]: at that level an exception is [Exc c], as before.

    What a proof author has to change.  Proofs of the form
    [pystart. (unfold <model>.) pyrun.] need NO edit; the executor knows the
    new shapes ([head_of] looks through [attach]/[strip], [ExcS] is a result,
    the loop lemmas carry the [attach]).  Statements and hand-written steps:

    1. Theorems about [call_method] / [construct] / [call_function] /
       [get_attr ..]: statement unchanged (exceptions are [Exc w]).  Nothing to do.

    2. Lemmas about [call_func program (S^k n) C_m [self; args] kws] (the ones
       registered in [pyspec]) whose right-hand side can be an exception: the
       exception is now [ExcS w (self_st r)], i.e. [ExcS w [("$self", r)]],
       with [r] the receiver AT THE RAISE (= [self] if the method does not
       assign to [self.x] before raising).  Three ways to say it:
         - the right-hand side is built by an embedding [emb (model ..)] that
           is also used in the [*_spec] theorems: wrap it,
           [attach (self_st self) (emb (model ..))] -- [attach] turns the
           [Exc w] of [emb] into [ExcS w (self_st self)] and leaves the rest;
         - the embedding is used at the [call_func] level only: change its
           [Raise w => Exc w] case into [Raise w => ExcS w (self_st self)];
         - a literal [Exc "AssertionError"] etc. becomes
           [ExcS "AssertionError" (self_st self)].
       If the receiver changes before the raise, say which it is (example:
       [Demo.bump_func]; [emb_hdr_out]/[frame_raise_self] in
       proofs/Src_reasm_proofs.v).  A lemma that can only return [Ok]: unchanged.

    3. Intro patterns over [PyLite.res]: one more case,
       [destruct r as [x| | |]] -> [destruct r as [x| | | |]] (order: [Ok],
       [Exc], [ExcS], [Fuel], [Unsupported]); [2-4:] -> [2-5:].

    4. Anything that relied on the SHAPE of [call_func_S]: the body is no
       longer [do o <- exec_block ..; match o with ..] but
       [match exec_block .. with Ok (ONorm e') => .. | ExcS c e' => ExcS c
       (self_state f e') | ..] (no [bind]: a [bind] would let the state of the
       raise through unchanged).  Goal patterns such as
       [|- (do o <- while_loop ..; _) = _] become
       [|- match while_loop .. with _ => _ end = _]; an "observation" function
       written as [do o <- r; match o with ..] must be rewritten as a [match]
       on [r] with the [ExcS] case (example: [obs] in
       proofs/Src_reasm_proofs.v).  [call_method_value_obj] changed likewise.

    5. Own loop lemmas / invariants.  [for_loop_cons], [for_loop_fold],
       [for_loop_iter]: the assignment of the loop variable is
       [attach e (assign P cf e t y)] (was [assign P cf e t y]); [eval_EComp]:
       [attach e1 (comp_loop ..)].  Premises "one iteration", proved by
       [pyrun], need no new proof.  A loop whose body MAY RAISE: the model step
       function has to return [ExcS c <environment at the raise>]; give it the
       embedding of the loop state into environments as a parameter (example:
       [en_step]/[en_fold]/[py_range_bytes_loop] in
       proofs/Src_parse_req_lemmas.v, Src_parse_req_proofs.v).  Iteration
       lemmas "per outcome" say in which environment the iteration raises
       ([iter_raise], [iter_main] in proofs/Src_stream_enc_proofs.v); for the
       whole loop it is enough to say "in the environment of SOME loop state"
       ([exists st, for_loop .. = match model with .. | Raise w => ExcS w
       (env_of st) ..], [loop_spec] there): the caller only needs
       [lookup "self"] of it.  Use such a lemma with [edestruct .. as [st H];
       rewrite H] (arguments left to unification).

    6. A [*_spec] proof whose callee lemma has the form
       [.. = do r <- attach (self_st self) (emb x); ..] with [emb] FOLDED: the
       executor then case-splits on the opaque [emb x : res _], and the case
       [emb x = ExcS c st] cannot be closed ([strip (.. attach s (ExcS c st))]
       is [Exc c], the right-hand side says [ExcS c st]).  Let the executor
       open the embedding: add it to the unfold hook's database after the
       callee lemma is proved (example: [emb_recv] in
       proofs/Src_parserecv_proofs.v).  Embeddings that are already in the
       database need nothing.  When the embedded term cannot be opened (a
       fuelled model, say): prove that it raises without state,
       [strip (model x) = model x], rewrite the RIGHT-hand side of the goal
       with that equation from right to left, and run; the case split on the
       folded term then closes in all five cases (example:
       [decode_result_strip], [frame_stream_decode_exact] in
       proofs/Src_stream_proofs.v; [while_model_strip] in py/PyLite_while.v).
       Relational loop rules: a stateless [Exc w] of the model is related to
       [ExcS w e] of the interpreter for an [e] satisfying a predicate of the
       user's choosing ([res_rel], [while_loop_rel] in py/PyLite_while.v).

    7. A [*_func] lemma about a module-level FUNCTION: the state of its raise
       is the final value of its first parameter, [ExcS w (self_st arg1)]
       (example: [dsfmt_get_func] in proofs/Src_stream_enc_proofs.v).  A callee
       reached through [name(...)] (not [recv.name(...)]) has its state
       replaced by the caller's environment anyway.

    8. Equations for manual rewriting: [bind_ExcS], [attach_Ok], [attach_Exc],
       [attach_ExcS], [attach_attach], [strip_Ok], [strip_Exc], [strip_ExcS],
       [strip_attach], [strip_bind] ([strip] goes to the leaves of a [bind]:
       [strip (bind r f) = bind (strip r) (fun a => strip (f a))], NOT
       [bind (strip r) f]).  All of them also hold by [cbn [attach strip bind]]
       on constructors.

    Symbolic execution of PyLite programs inside Coq.

    Goal shape:  [<interpreter term> = <functional model term>], for ALL inputs.

    USE
      Lemma m_func n x : call_func program (S (S n)) C_m [self; x] [] = <model> .
      Proof. pystart. unfold <model function>. pyrun. Qed.
      #[local] Hint Resolve m_func : pyspec.      (* callers now rewrite with it *)

    [pystart]  intros, exposes the call ([call_method], [construct], ... become
               [strip (call_method_value ..)] etc.; the run happens under the
               [strip], which computes away once the result is there),
               turns a fuel [k + n] into [S (S .. n)].
    [pystep1]  one step of the left-hand side (below).
    [pysteps]  [pystep1] as long as it applies, then shows the normalised goal
               (stops at a result, at a loop over a symbolic list, at a call
               without fuel, at a block that is not concrete).
    [pyfinish] the left-hand side is a result: normalise and split the model
               side, close the leaves.
    [pyrun]    all of it, in every branch.  Leaves what it cannot close.

    HOW.  The interpreter is run by reduction with a blacklist of data
    primitives (so the terms over the symbolic inputs stay folded), ONE
    STATEMENT AT A TIME: [exec_block], [call_func] and the loops never unfold by
    themselves ([simpl never]).  [pystep1] normalises ([pycbn]), looks at the
    head redex of the left-hand side (the innermost scrutinee under the
    [bind]s, [match]es, [attach]s and [strip]s, [head_of]) and
      - unfolds one [Scons] of a block                      ([exec_block_cons]);
      - at a call [call_func P (S n) f args kws], first looks the callee's
        specification up (hint database [pyspec]) and rewrites with it, else
        steps into the body                                      ([call_func_S]);
      - names the loops ([for_loop], [while_loop], [comp_loop]): over a concrete
        list they are unrolled, over a symbolic one they stay for the user
        ([for_loop_fold], [for_loop_iter], [comp_loop_map]; example in [Demo]);
      - folds closed arithmetic / closed struct formats          ([pyclosed_in]);
      - for [unpack] with a concrete format, splits into "refused" / "a list of
        the format's shape with fresh variables as elements"        ([pyunpack]);
      - otherwise case-splits on the stuck scrutinee with [destruct ... eqn:],
        first reusing an equation already in the context, modulo conversion
        ([rewrite_conv]) -- so the model side need not be syntactically equal
        to the interpreter side, only convertible.
    Nothing depends on the position of a statement or on the names of locals.

    FUEL.  Every specification is stated for fuel [S (S ... n)] with [n]
    universally quantified: no monotonicity lemma is needed, a callee's lemma
    rewrites directly inside its callers.  A method needs one [S] more than
    the deepest method/property it calls.

    HOOKS (redefine with [::=] in the proof file)
      [py_unfold_hook]     unfold the embedding functions / constants of the
                           model ([autounfold with <db>]).
      [py_stuck_hook h]    treat a stuck head [h] specially (rewrite a model
                           predicate into the interpreter's form).
    Model functions that must stay folded while the callers are run get
    [#[local] Arguments f : simpl never].

    Both [Frame] and [PyLite] define [Ok]/[bind]: qualify. *)
From Coq Require Import String Ascii List ZArith NArith Bool Lia ZifyBool.
From NX Require Import Bytes PyStruct Crc PyLite.
Import ListNotations.
Open Scope string_scope.
Open Scope list_scope.
Open Scope Z_scope.

(** * What never unfolds by itself *)
#[global] Arguments call_func : simpl never.
#[global] Arguments exec_block : simpl never.

(** * One-level unfoldings (all by [reflexivity]) *)
Lemma call_func_S P n f args kws :
  call_func P (S n) f args kws =
  (do e <- strip (bind_params (fun d => do r <- eval P (call_func P n) [] d; PyLite.Ok (fst r))
                              (f_params f) args kws);
   match exec_block P (call_func P n) n e (f_body f) with
   | PyLite.Ok (ONorm e') =>
       PyLite.Ok (PNone, match f_params f with (x, _) :: _ => lookup x e' | [] => None end)
   | PyLite.Ok (ORet v e') =>
       PyLite.Ok (v, match f_params f with (x, _) :: _ => lookup x e' | [] => None end)
   | PyLite.Ok (OBrk _) | PyLite.Ok (OCont _) => Unsupported "break outside loop"
   | Exc c => Exc c
   | ExcS c e' => ExcS c (self_state f e')
   | Fuel => Fuel
   | Unsupported w => Unsupported w
   end).
Proof. reflexivity. Qed.

Lemma call_func_O P f args kws : call_func P O f args kws = Fuel.
Proof. reflexivity. Qed.

Lemma exec_block_cons P cf lf e s r :
  exec_block P cf lf e (Scons s r) =
  do o <- exec P cf lf e s;
  match o with ONorm e1 => exec_block P cf lf e1 r | _ => PyLite.Ok o end.
Proof. reflexivity. Qed.

Lemma exec_block_nil P cf lf e : exec_block P cf lf e Snil = PyLite.Ok (ONorm e).
Proof. reflexivity. Qed.

(** ** Loops, named.  [exec] on a loop statement is rewritten to these before
    [cbn] can expose the anonymous [fix]; they are [simpl never], with
    nil/cons (resp. one-iteration) equations for the user's induction. *)
Definition loop_next (o : out) (again : env -> PyLite.res out) : PyLite.res out :=
  match o with
  | ONorm e2 | OCont e2 => again e2
  | OBrk e2 => PyLite.Ok (ONorm e2)
  | ORet v e2 => PyLite.Ok (ORet v e2)
  end.

Definition for_loop (P : prog) (cf : func -> list pv -> list (string * pv) -> PyLite.res (pv * option pv))
         (lf : nat) (t : target) (b : stmts) : list pv -> env -> PyLite.res out :=
  fix loop (l : list pv) (e : env) : PyLite.res out :=
  match l with
  | [] => PyLite.Ok (ONorm e)
  | y :: r =>
      do e1 <- attach e (assign P cf e t y);
      do o <- exec_block P cf lf e1 b;
      match o with
      | ONorm e2 | OCont e2 => loop r e2
      | OBrk e2 => PyLite.Ok (ONorm e2)
      | ORet v e2 => PyLite.Ok (ORet v e2)
      end
  end.

Lemma exec_SFor P cf lf e t it b :
  exec P cf lf e (SFor t it b) =
  do (vi, e1) <- eval P cf e it; do l <- iter_list vi; for_loop P cf lf t b l e1.
Proof. reflexivity. Qed.

Lemma for_loop_nil P cf lf t b e : for_loop P cf lf t b [] e = PyLite.Ok (ONorm e).
Proof. reflexivity. Qed.

Lemma for_loop_cons P cf lf t b y r e :
  for_loop P cf lf t b (y :: r) e =
  do e1 <- attach e (assign P cf e t y);
  do o <- exec_block P cf lf e1 b;
  loop_next o (for_loop P cf lf t b r).
Proof. reflexivity. Qed.

Definition while_loop (P : prog) (cf : func -> list pv -> list (string * pv) -> PyLite.res (pv * option pv))
         (lf : nat) (c : expr) (b : stmts) : nat -> env -> PyLite.res out :=
  fix loop (k : nat) (e : env) : PyLite.res out :=
  match k with
  | O => Fuel
  | S k' =>
      do (vc, e1) <- eval P cf e c;
      if truthy vc then
        do o <- exec_block P cf lf e1 b;
        match o with
        | ONorm e2 | OCont e2 => loop k' e2
        | OBrk e2 => PyLite.Ok (ONorm e2)
        | ORet v e2 => PyLite.Ok (ORet v e2)
        end
      else PyLite.Ok (ONorm e1)
  end.

Lemma exec_SWhile P cf lf e c b :
  exec P cf lf e (SWhile c b) = while_loop P cf lf c b lf e.
Proof. reflexivity. Qed.

Lemma while_loop_S P cf lf c b k e :
  while_loop P cf lf c b (S k) e =
  do (vc, e1) <- eval P cf e c;
  if truthy vc then do o <- exec_block P cf lf e1 b; loop_next o (while_loop P cf lf c b k)
  else PyLite.Ok (ONorm e1).
Proof. reflexivity. Qed.

Definition comp_loop (P : prog) (cf : func -> list pv -> list (string * pv) -> PyLite.res (pv * option pv))
         (e1 : env) (n : string) (elt : expr) : list pv -> PyLite.res (list pv) :=
  fix go (l : list pv) : PyLite.res (list pv) :=
  match l with
  | [] => PyLite.Ok []
  | y :: r => do (v, _) <- eval P cf ((n, y) :: e1) elt; do t <- go r; PyLite.Ok (v :: t)
  end.

Lemma eval_EComp P cf e k elt n it :
  eval P cf e (EComp k elt n it) =
  do (vi, e1) <- eval P cf e it;
  do l <- iter_list vi;
  do vs <- attach e1 (comp_loop P cf e1 n elt l);
  PyLite.Ok (match k with KTuple => PTuple vs | KList => PList vs end, e1).
Proof. reflexivity. Qed.

Lemma comp_loop_cons P cf e1 n elt y r :
  comp_loop P cf e1 n elt (y :: r) =
  do (v, _) <- eval P cf ((n, y) :: e1) elt; do t <- comp_loop P cf e1 n elt r; PyLite.Ok (v :: t).
Proof. reflexivity. Qed.

(** ** Loop principles.  The loop state is a value [a : A] of the user's
    choosing, embedded into environments by [env_of]; the iterated list is
    [map g l] for a list [l : list B] of model values ([g := PInt],
    [g := fun b => PInt (Z.of_N b)] for iteration over bytes, ...).  The premise
    is ONE iteration from a symbolic state -- an equation that [pyrun] proves --
    and the conclusion is the whole loop as a fold of the model's step
    function. *)
Inductive iter (A : Type) :=
  | INext (a : A)                (* fell through, or [continue] *)
  | IBreak (a : A)
  | IRet (v : pv) (a : A).
Arguments INext {A}. Arguments IBreak {A}. Arguments IRet {A}.

Definition iter_of_out (o : out) : iter env :=
  match o with
  | ONorm e | OCont e => INext e
  | OBrk e => IBreak e
  | ORet v e => IRet v e
  end.

Definition iter_map {A B} (h : A -> B) (i : iter A) : iter B :=
  match i with INext a => INext (h a) | IBreak a => IBreak (h a) | IRet v a => IRet v (h a) end.

Fixpoint fold_iter {A B} (f : A -> B -> iter A) (l : list B) (a : A) : iter A :=
  match l with
  | [] => INext a
  | y :: r => match f a y with INext a' => fold_iter f r a' | x => x end
  end.

Definition out_of_iter (i : iter env) : out :=
  match i with INext e | IBreak e => ONorm e | IRet v e => ORet v e end.

(** loops that may [break] / [return] *)
Lemma for_loop_iter {A B} (env_of : A -> env) (g : B -> pv) (f : A -> B -> iter A) P cf lf t b :
  (forall a y,
     (do e1 <- attach (env_of a) (assign P cf (env_of a) t (g y));
      do o <- exec_block P cf lf e1 b; PyLite.Ok (iter_of_out o))
     = PyLite.Ok (iter_map env_of (f a y))) ->
  forall l a,
    for_loop P cf lf t b (map g l) (env_of a) =
    PyLite.Ok (out_of_iter (iter_map env_of (fold_iter f l a))).
Proof.
  intros H l. induction l as [|y r IH]; intros a; cbn [map fold_iter].
  - apply for_loop_nil.
  - rewrite for_loop_cons. specialize (H a y).
    destruct (assign P cf (env_of a) t (g y)) as [e1| | | |]; cbn [attach bind] in *; try discriminate.
    destruct (exec_block P cf lf e1 b) as [o| | | |]; cbn [bind] in *; try discriminate.
    destruct (f a y) as [a'|a'|v a']; destruct o; cbn [iter_of_out iter_map loop_next out_of_iter] in *;
      try discriminate; inversion H; subst; try reflexivity; apply IH.
Qed.

(** loops that only fall through or [continue]: a plain [fold_left] *)
Definition iter_ok (o : out) : option env :=
  match o with ONorm e | OCont e => Some e | _ => None end.

Lemma for_loop_fold {A B} (env_of : A -> env) (g : B -> pv) (f : A -> B -> A) P cf lf t b :
  (forall a y,
     (do e1 <- attach (env_of a) (assign P cf (env_of a) t (g y));
      do o <- exec_block P cf lf e1 b; PyLite.Ok (iter_ok o))
     = PyLite.Ok (Some (env_of (f a y)))) ->
  forall l a, for_loop P cf lf t b (map g l) (env_of a) = PyLite.Ok (ONorm (env_of (fold_left f l a))).
Proof.
  intros H l. induction l as [|y r IH]; intros a; cbn [map fold_left].
  - apply for_loop_nil.
  - rewrite for_loop_cons. specialize (H a y).
    destruct (assign P cf (env_of a) t (g y)) as [e1| | | |]; cbn [attach bind] in *; try discriminate.
    destruct (exec_block P cf lf e1 b) as [o| | | |]; cbn [bind] in *; try discriminate.
    destruct o; cbn [iter_ok loop_next] in *; inversion H; subst; apply IH.
Qed.

(** comprehensions: a [map] *)
Lemma comp_loop_map {B} (g : B -> pv) (h : B -> pv) P cf e1 n elt :
  (forall y, (do (v, _) <- eval P cf ((n, g y) :: e1) elt; PyLite.Ok v) = PyLite.Ok (h y)) ->
  forall l, comp_loop P cf e1 n elt (map g l) = PyLite.Ok (map h l).
Proof.
  intros H l. induction l as [|y r IH]; cbn [map]; [reflexivity|].
  rewrite comp_loop_cons, IH. specialize (H y).
  destruct (eval P cf ((n, g y) :: e1) elt) as [[v e']| | | |]; cbn [bind] in *; try discriminate.
  inversion H. reflexivity.
Qed.

#[global] Arguments for_loop : simpl never.
#[global] Arguments while_loop : simpl never.
#[global] Arguments comp_loop : simpl never.

(** * Equational lemmas (for manual steps and for symbolic objects) *)
Lemma bind_Ok {A B} (a : A) (f : A -> PyLite.res B) : bind (PyLite.Ok a) f = f a.
Proof. reflexivity. Qed.
Lemma bind_Exc {A B} c (f : A -> PyLite.res B) : bind (Exc c) f = Exc c.
Proof. reflexivity. Qed.
Lemma bind_ExcS {A B} c st (f : A -> PyLite.res B) : bind (ExcS c st) f = ExcS c st.
Proof. reflexivity. Qed.
Lemma bind_Fuel {A B} (f : A -> PyLite.res B) : bind Fuel f = Fuel.
Proof. reflexivity. Qed.
Lemma bind_Unsupported {A B} w (f : A -> PyLite.res B) : bind (Unsupported w) f = Unsupported w.
Proof. reflexivity. Qed.
Lemma bind_assoc {A B C} (r : PyLite.res A) (f : A -> PyLite.res B) (g : B -> PyLite.res C) :
  bind (bind r f) g = bind r (fun a => bind (f a) g).
Proof. destruct r; reflexivity. Qed.
Lemma bind_ret {A} (r : PyLite.res A) : bind r PyLite.Ok = r.
Proof. destruct r; reflexivity. Qed.
(** commuting a [bind] with a case split of the scrutinee *)
Lemma bind_if {A B} (c : bool) (x y : PyLite.res A) (f : A -> PyLite.res B) :
  bind (if c then x else y) f = if c then bind x f else bind y f.
Proof. destruct c; reflexivity. Qed.

(** ** Exceptions that carry state: [attach] (a raise gets the environment it
    happens in) and [strip] (the entry points forget it) *)
Lemma attach_Ok {A} e (a : A) : attach e (PyLite.Ok a) = PyLite.Ok a.
Proof. reflexivity. Qed.
Lemma attach_Exc {A} e c : @attach A e (Exc c) = ExcS c e.
Proof. reflexivity. Qed.
Lemma attach_ExcS {A} e c st : @attach A e (ExcS c st) = ExcS c e.
Proof. reflexivity. Qed.
Lemma attach_Fuel {A} e : @attach A e Fuel = Fuel.
Proof. reflexivity. Qed.
Lemma attach_Unsupported {A} e w : @attach A e (Unsupported w) = Unsupported w.
Proof. reflexivity. Qed.
Lemma attach_attach {A} e e' (r : PyLite.res A) : attach e (attach e' r) = attach e r.
Proof. destruct r; reflexivity. Qed.
Lemma attach_if {A} e (c : bool) (x y : PyLite.res A) :
  attach e (if c then x else y) = if c then attach e x else attach e y.
Proof. destruct c; reflexivity. Qed.

Lemma strip_Ok {A} (a : A) : strip (PyLite.Ok a) = PyLite.Ok a.
Proof. reflexivity. Qed.
Lemma strip_Exc {A} c : @strip A (Exc c) = Exc c.
Proof. reflexivity. Qed.
Lemma strip_ExcS {A} c st : @strip A (ExcS c st) = Exc c.
Proof. reflexivity. Qed.
Lemma strip_Fuel {A} : @strip A Fuel = Fuel.
Proof. reflexivity. Qed.
Lemma strip_Unsupported {A} w : @strip A (Unsupported w) = Unsupported w.
Proof. reflexivity. Qed.
Lemma strip_strip {A} (r : PyLite.res A) : strip (strip r) = strip r.
Proof. destruct r; reflexivity. Qed.
Lemma strip_attach {A} e (r : PyLite.res A) : strip (attach e r) = strip r.
Proof. destruct r; reflexivity. Qed.
Lemma strip_if {A} (c : bool) (x y : PyLite.res A) :
  strip (if c then x else y) = if c then strip x else strip y.
Proof. destruct c; reflexivity. Qed.
(** [strip] goes to the leaves of a [bind] (NOT [bind (strip r) f]: the
    continuation may raise with a state, too) *)
Lemma strip_bind {A B} (r : PyLite.res A) (f : A -> PyLite.res B) :
  strip (bind r f) = bind (strip r) (fun a => strip (f a)).
Proof. destruct r; reflexivity. Qed.
(** a result without state is not changed: what the [*_spec] theorems, which
    are about the entry points, say on their right-hand sides *)
Lemma strip_id {A} (r : PyLite.res A) : (forall c st, r <> ExcS c st) -> strip r = r.
Proof. destruct r; intros H; try reflexivity. exfalso. eapply H. reflexivity. Qed.

(** the state of a raise as [call_func] reports it to the caller: the receiver
    at the point of the raise.  [attach (self_st self) r] turns the stateless
    embedding [r] of a model result (exceptions as [Exc w]) into the form a
    [*_func] lemma needs (exceptions as [ExcS w [("$self", self)]]). *)
Notation self_st s := (@cons (string * pv) (@pair string pv "$self"%string s) (@nil (string * pv))).

Lemma lookup_update_same {A} x (v : A) l : lookup x (update x v l) = Some v.
Proof.
  induction l as [|[y w] r IH]; cbn [update lookup].
  - rewrite String.eqb_refl. reflexivity.
  - destruct (String.eqb x y) eqn:E; cbn [lookup]; rewrite E; [reflexivity | exact IH].
Qed.

Lemma lookup_update_other {A} x y (v : A) l : String.eqb x y = false -> lookup x (update y v l) = lookup x l.
Proof.
  intros N. induction l as [|[z w] r IH]; cbn [update lookup].
  - rewrite N. reflexivity.
  - destruct (String.eqb y z) eqn:E; cbn [lookup].
    + apply String.eqb_eq in E. subst z. rewrite N. reflexivity.
    + destruct (String.eqb x z); [reflexivity | exact IH].
Qed.

Lemma update_lookup_id {A} x (v : A) l : lookup x l = Some v -> update x v l = l.
Proof.
  induction l as [|[y w] r IH]; cbn [update lookup]; [discriminate|].
  destruct (String.eqb x y) eqn:E.
  - intros H. inversion H. reflexivity.
  - intros H. rewrite (IH H). reflexivity.
Qed.

(** attribute reads *)
Lemma get_attr_field P cf c fs a x : lookup a fs = Some x -> get_attr P cf (PObj c fs) a = PyLite.Ok x.
Proof. intros H. cbn [get_attr]. rewrite H. reflexivity. Qed.

Lemma get_attr_prop P cf c fs a f :
  lookup a fs = None -> find_method P mro_depth c a = Some f -> f_prop f = true ->
  get_attr P cf (PObj c fs) a = do r <- cf f [PObj c fs] []; PyLite.Ok (fst r).
Proof. intros H1 H2 H3. cbn [get_attr]. rewrite H1, H2, H3. reflexivity. Qed.

Lemma get_attr_enum_value P cf c n z i : get_attr P cf (PEnum c n z i) "value" = PyLite.Ok (PInt z).
Proof. reflexivity. Qed.
Lemma get_attr_enum_name P cf c n z i : get_attr P cf (PEnum c n z i) "name" = PyLite.Ok (PStr n).
Proof. reflexivity. Qed.

Lemma get_attr_enum_member P cf c cl isint ms a z :
  find_class (p_classes P) c = Some cl -> c_enum cl = Some (isint, ms) -> lookup a ms = Some z ->
  get_attr P cf (PCls c) a = PyLite.Ok (PEnum c a z isint).
Proof. intros H1 H2 H3. cbn [get_attr]. rewrite H1, H2, H3. reflexivity. Qed.

(** calling an enum class by value *)
Lemma call_value_enum P cf c cl isint ms v z kws :
  existsb (String.eqb c) builtin_types = false ->
  find_class (p_classes P) c = Some cl -> c_enum cl = Some (isint, ms) -> as_int v = Some z ->
  call_value P cf (PCls c) [v] kws =
  match enum_by_value ms z with Some n => PyLite.Ok (PEnum c n z isint) | None => Exc "ValueError" end.
Proof. intros H0 H1 H2 H3. cbn [call_value]. rewrite H0, H1, H2, H3. reflexivity. Qed.

(** a method call on an object whose class defines the method *)
Lemma call_method_value_obj P cf c fs m f args kws :
  lookup m fs = None -> find_method P mro_depth c m = Some f ->
  call_method_value P cf (PObj c fs) m args kws =
  match cf f (PObj c fs :: args) kws with
  | PyLite.Ok x => PyLite.Ok (fst x, match snd x with Some s => s | None => PObj c fs end)
  | Exc c => Exc c
  | ExcS c st => ExcS c st
  | Fuel => Fuel
  | Unsupported w => Unsupported w
  end.
Proof. intros H1 H2. cbn [call_method_value]. rewrite H1, H2. reflexivity. Qed.

(** [enum_by_value] against the model's usual "is a known value" test *)
Lemma existsb_enum_by_value ms z :
  existsb (fun p : string * Z => snd p =? z) ms =
  match enum_by_value ms z with Some _ => true | None => false end.
Proof.
  induction ms as [|[n v] r IH]; cbn [existsb enum_by_value snd]; [reflexivity|].
  destruct (v =? z); [reflexivity | exact IH].
Qed.

Lemma enum_by_value_lookup ms z n : enum_by_value ms z = Some n -> exists v, lookup n ms = Some v.
Proof.
  induction ms as [|[m v] r IH]; cbn [enum_by_value lookup]; [discriminate|].
  destruct (v =? z).
  - intros H. inversion H. subst. rewrite String.eqb_refl. eauto.
  - intros H. destruct (String.eqb n m); eauto.
Qed.

(** struct.unpack: either refused, or the item-wise decoding (which computes to
    a list of the right shape for a concrete format) *)
Lemma unpack_cases f b :
  unpack f b = None \/ unpack f b = Some (unpack_items (fend f) (fitems f) b).
Proof. unfold unpack. destruct (_ && _); auto. Qed.

(** * Tactics *)

(** ** literals *)
Ltac is_pos_lit p :=
  lazymatch p with
  | xH => idtac
  | xO ?q => is_pos_lit q
  | xI ?q => is_pos_lit q
  | _ => fail "not a literal"
  end.
Ltac is_Z_lit z :=
  lazymatch z with
  | Z0 => idtac
  | Zpos ?p => is_pos_lit p
  | Zneg ?p => is_pos_lit p
  | _ => fail "not a literal"
  end.
Ltac is_N_lit z :=
  lazymatch z with
  | N0 => idtac
  | Npos ?p => is_pos_lit p
  | _ => fail "not a literal"
  end.
Ltac is_nat_lit z :=
  lazymatch z with
  | O => idtac
  | S ?p => is_nat_lit p
  | _ => fail "not a literal"
  end.
Ltac is_bool_lit b := lazymatch b with true => idtac | false => idtac | _ => fail "not a literal" end.
Ltac is_string_lit s :=
  lazymatch s with
  | EmptyString => idtac
  | String (Ascii ?a ?b ?c ?d ?e ?f ?g ?h) ?r =>
      is_bool_lit a; is_bool_lit b; is_bool_lit c; is_bool_lit d;
      is_bool_lit e; is_bool_lit f; is_bool_lit g; is_bool_lit h; is_string_lit r
  | _ => fail "not a literal"
  end.

(** ** the reduction: everything of the interpreter and of the program, none of
    the data primitives.

    Two tiers, for speed.  [cbn] needs some 50 ms to unfold the five-fold
    mutual fixpoint [eval] ONCE (it refolds), and an expression has many nodes;
    [lazy] does not refold, but [eval] and its companions recurse on the syntax
    tree, which is concrete, so they never get stuck half-unfolded and there
    is nothing to refold: [lazy] expands all of them (in no time), [cbn] does
    the rest (statements, environments, program look-ups, binds) with
    refolding.  Expanding an [exec] step can expose new [eval]s, hence the loop. *)
Ltac pylazy := lazy [eval eval_list eval_kws eval_cmps eval_opt].

Ltac pycbn_data :=
  cbn -[eval eval_list eval_kws eval_cmps eval_opt
        call_func exec_block for_loop while_loop comp_loop
        Z.add Z.sub Z.mul Z.div Z.modulo Z.opp Z.leb Z.ltb Z.eqb Z.geb Z.gtb Z.compare
        Z.shiftl Z.shiftr Z.land Z.lor Z.lxor Z.of_nat Z.to_nat Z.of_N Z.to_N Z.abs
        N.add N.sub N.mul N.div N.modulo N.eqb N.ltb N.leb N.lxor N.land N.lor N.testbit
        N.of_nat N.to_nat
        zlen firstn skipn repeat rev seq nth
        pack unpack parse_fmt calcsize unpack_items pack_items
        crc_gen slice_to slice_from pyslice clip_index find_byte
        le_enc le_dec be_enc be_dec enc dec sgn unsgn pow256 wf_bytesb
        enum_by_value string_of_Z].

Ltac has_eval :=
  lazymatch goal with
  | |- context [eval _ _ _ _] => idtac
  | |- context [eval_list _ _ _ _] => idtac
  | |- context [eval_kws _ _ _ _] => idtac
  | |- context [eval_cmps _ _ _ _ _] => idtac
  | |- context [eval_opt _ _ _ _] => idtac
  end.

Ltac pycbn := pycbn_data; repeat (has_eval; pylazy; pycbn_data).

(** ** closed sub-computations that the blacklist left standing *)
Ltac pyfold2 op a b := let v := eval vm_compute in (op a b) in change (op a b) with v.
Ltac pyfold1 op a := let v := eval vm_compute in (op a) in change (op a) with v.

(** [pyclosed_in t]: one closed sub-computation occurring in the term [t] is
    folded (everywhere in the goal) *)
Ltac pyclosed_in t :=
  match t with
  | context [Z.add ?a ?b] => is_Z_lit a; is_Z_lit b; pyfold2 Z.add a b
  | context [Z.sub ?a ?b] => is_Z_lit a; is_Z_lit b; pyfold2 Z.sub a b
  | context [Z.mul ?a ?b] => is_Z_lit a; is_Z_lit b; pyfold2 Z.mul a b
  | context [Z.div ?a ?b] => is_Z_lit a; is_Z_lit b; pyfold2 Z.div a b
  | context [Z.modulo ?a ?b] => is_Z_lit a; is_Z_lit b; pyfold2 Z.modulo a b
  | context [Z.shiftl ?a ?b] => is_Z_lit a; is_Z_lit b; pyfold2 Z.shiftl a b
  | context [Z.shiftr ?a ?b] => is_Z_lit a; is_Z_lit b; pyfold2 Z.shiftr a b
  | context [Z.land ?a ?b] => is_Z_lit a; is_Z_lit b; pyfold2 Z.land a b
  | context [Z.lor ?a ?b] => is_Z_lit a; is_Z_lit b; pyfold2 Z.lor a b
  | context [Z.lxor ?a ?b] => is_Z_lit a; is_Z_lit b; pyfold2 Z.lxor a b
  | context [Z.leb ?a ?b] => is_Z_lit a; is_Z_lit b; pyfold2 Z.leb a b
  | context [Z.ltb ?a ?b] => is_Z_lit a; is_Z_lit b; pyfold2 Z.ltb a b
  | context [Z.eqb ?a ?b] => is_Z_lit a; is_Z_lit b; pyfold2 Z.eqb a b
  | context [Z.opp ?a] => is_Z_lit a; pyfold1 Z.opp a
  | context [Z.to_N ?a] => is_Z_lit a; pyfold1 Z.to_N a
  | context [Z.of_N ?a] => is_N_lit a; pyfold1 Z.of_N a
  | context [Z.to_nat ?a] => is_Z_lit a; pyfold1 Z.to_nat a
  | context [Z.of_nat ?a] => is_nat_lit a; pyfold1 Z.of_nat a
  | context [N.eqb ?a ?b] => is_N_lit a; is_N_lit b; pyfold2 N.eqb a b
  | context [N.ltb ?a ?b] => is_N_lit a; is_N_lit b; pyfold2 N.ltb a b
  | context [@zlen ?A (@nil ?A)] => change (@zlen A (@nil A)) with 0
  | context [?l ++ @nil ?A] => rewrite (@app_nil_r A l)
  | context [parse_fmt ?s] => is_string_lit s; pyfold1 parse_fmt s
  | context [string_of_Z ?a] => is_Z_lit a; pyfold1 string_of_Z a
  | context [enum_by_value ?ms ?a] =>
      is_Z_lit a;
      let v := eval vm_compute in (enum_by_value ms a) in
      lazymatch v with Some ?s => is_string_lit s | None => idtac end;
      change (enum_by_value ms a) with v
  end.
(** in the whole goal (use when the goal is small: no program text in it) *)
Ltac pyclosed1 := match goal with |- ?G => pyclosed_in G end.
Ltac pyclosed := repeat pyclosed1.

(** ** the head redex: innermost scrutinee under binds and matches *)
Ltac head_of t :=
  lazymatch t with
  | bind ?r _ => head_of r
  | match ?x with _ => _ end => head_of x
  | negb ?x => head_of x
  | andb ?x _ => head_of x
  | orb ?x _ => head_of x
  | Bool.eqb ?x _ => head_of x
  | opt_res ?x _ => head_of x
  | attach _ ?r => head_of r
  | strip ?r => head_of r
  | _ => t
  end.

Ltac is_result t :=
  lazymatch t with
  | PyLite.Ok _ => idtac
  | PyLite.Exc _ => idtac
  | PyLite.ExcS _ _ => idtac
  | PyLite.Fuel => idtac
  | PyLite.Unsupported _ => idtac
  | _ => fail "not a result"
  end.

(** [E : X = v] in the context, [X'] in the goal convertible to [X]: rewrite it *)
Ltac rewrite_conv X' :=
  match goal with
  | E : ?X = ?v |- _ =>
      let T := type of X in let T' := type of X' in unify T T';
      let H := fresh in
      assert (H : X' = v) by exact E;
      rewrite H; clear H
  end.

(** case split on [h], reusing an equation of the context when there is one *)
Ltac pysplit h :=
  first [ rewrite_conv h
        | is_var h; destruct h
        | let E := fresh "E" in destruct h eqn:E ].

(** ** hooks (redefine with [::=]) *)
(** [py_stuck_hook h]: tried on the stuck head [h] (of either side) before the
    generic case split; e.g. rewrite a model predicate into the interpreter's
    form.  Must fail when it does not apply. *)
Ltac py_stuck_hook h := fail.
(** [py_unfold_hook]: unfolds the embedding functions / model wrappers that
    can hide a stuck scrutinee (typically [autounfold with <db>]); called when
    the head is neither a block nor a call, and counts as the step if it
    changes the goal. *)
Ltac py_unfold_hook := idtac.

(** a concrete-format [unpack]: refused, or a list of the right shape whose
    elements are generalised to fresh variables *)
Ltac pyunpack f b :=
  let E := fresh "Eunpack" in
  destruct (unpack_cases f b) as [E | E];
  [ try rewrite E
  | cbn [fend fitems unpack_items unpack_item unpack_many unpack_one icode icnt
         item_size code_size code_signed app Nat.mul Nat.add] in E;
    try rewrite E ].

Ltac pygeneralize_unpacked :=
  repeat match goal with
         | E : unpack _ _ = Some ?l |- _ =>
             match l with
             | context [VInt ?z] => lazymatch z with context [firstn] => idtac end;
                 let v := fresh "u" in
                 set (v := z) in *; clearbody v
             | context [VBool ?z] => lazymatch z with context [firstn] => idtac end;
                 let v := fresh "u" in
                 set (v := z) in *; clearbody v
             | context [VBytes ?z] => lazymatch z with context [firstn] => idtac end;
                 let v := fresh "u" in
                 set (v := z) in *; clearbody v
             | context [VF32 ?z] => lazymatch z with context [firstn] => idtac end;
                 let v := fresh "u" in
                 set (v := z) in *; clearbody v
             | context [VF64 ?z] => lazymatch z with context [firstn] => idtac end;
                 let v := fresh "u" in
                 set (v := z) in *; clearbody v
             end
         end.

(** the generic treatment of a stuck scrutinee [h] (either side) *)
Ltac pycase h :=
  first [ py_stuck_hook h
        | lazymatch h with
          | unpack ?f ?b => pyunpack f b; pygeneralize_unpacked
          end
        | lazymatch h with
          | Some _ => fail "pystep: constructor in head position"
          | None => fail "pystep: constructor in head position"
          | cons _ _ => fail "pystep: constructor in head position"
          | nil => fail "pystep: constructor in head position"
          | (_, _) => fail "pystep: constructor in head position"
          | true => fail "pystep: constructor in head position"
          | false => fail "pystep: constructor in head position"
          | _ => pysplit h
          end ].

(** normalise the goal; [pynorm] also folds the closed leftovers everywhere
    (scanning the whole goal: for small goals), [pynorm_head] only those in
    the head redex of the left-hand side *)
Ltac pynorm := pycbn; repeat (progress pyclosed; pycbn).
Ltac pyclosed_head :=
  lazymatch goal with |- ?L = _ => let h := head_of L in pyclosed_in h end.
Ltac pynorm_head := pycbn; repeat (pyclosed_head; pycbn).

(** a call: look its specification up in the hint database [pyspec]
    ([Hint Resolve lemma : pyspec], the lemma being an equation whose left-hand
    side is the call) and rewrite with it *)
Create HintDb pyspec discriminated.
Ltac pyspec_rewrite h :=
  let E := fresh "Espec" in
  (* [call_func] opaque: a hint that does not match must fail at once, not
     after the unifier has unfolded the interpreter on both sides *)
  eassert (E : h = _) by (with_strategy opaque [call_func] (solve [eauto 2 with pyspec nocore]));
  rewrite E; clear E.

(** ** one step on the head [h] of the left-hand side *)
Ltac pystep_head h :=
  lazymatch h with
  | exec_block _ _ _ _ Snil => rewrite exec_block_nil
  | exec_block _ _ _ _ (Scons (SFor _ _ _) _) => rewrite exec_block_cons, exec_SFor
  | exec_block _ _ _ _ (Scons (SWhile _ _) _) => rewrite exec_block_cons, exec_SWhile
  | exec_block _ _ _ _ (Scons _ _) => rewrite exec_block_cons
  | exec_block _ _ _ _ _ => fail "pystep: block is not concrete"
  | call_func _ (S _) _ _ _ =>
      first [ pyspec_rewrite h | rewrite call_func_S ]
  | call_func _ O _ _ _ => rewrite call_func_O
  | call_func _ _ _ _ _ => fail "pystep: fuel is not of the form (S _); state the lemma with more S"
  | for_loop _ _ _ _ _ [] _ => rewrite for_loop_nil
  | for_loop _ _ _ _ _ (_ :: _) _ => rewrite for_loop_cons
  | for_loop _ _ _ _ _ _ _ => fail "pystep: for loop over a symbolic list (use an invariant lemma)"
  | while_loop _ _ _ _ _ _ _ => fail "pystep: while loop (use an invariant lemma)"
  | comp_loop _ _ _ _ _ (_ :: _) => rewrite comp_loop_cons
  | comp_loop _ _ _ _ _ _ => fail "pystep: comprehension over a symbolic list (use a lemma)"
  | _ => first [ progress py_unfold_hook | pycase h ]
  end.

Ltac pystep1 :=
  pynorm_head;
  lazymatch goal with
  | |- ?L = _ =>
      let h := head_of L in
      tryif is_result h then fail "pystep: the left-hand side is a result"
      else pystep_head h
  end.

(** ** finishing: the left-hand side is a result; normalise the model side *)
Ltac pyfinish1 :=
  lazymatch goal with
  | |- _ = ?R =>
      let h := head_of R in
      tryif is_result h then fail "done"
      else first [ progress py_unfold_hook | pycase h ]
  end.

Ltac pyleaf :=
  first [ reflexivity
        | congruence
        | exfalso; lia
        | exfalso; congruence ].

(** matches that sit inside the result values: resolve them with the
    equations collected on the way (modulo conversion), then by case split *)
Ltac pyresolve :=
  repeat match goal with
         | |- context [match ?X with _ => _ end] => rewrite_conv X; pynorm
         end.
Ltac pybreak :=
  repeat match goal with
         | |- context [match ?X with _ => _ end] =>
             lazymatch X with
             | context [match _ with _ => _ end] => fail
             | _ => pycase X; pynorm
             end
         end.

Ltac pyfinish :=
  repeat (pynorm; pyfinish1);
  pynorm; pyresolve;
  first [ pyleaf | pybreak; try pyleaf ].

(** one step, shown normalised *)
Ltac pystep := pystep1; pynorm_head.

(** run the left-hand side as far as it goes (to a result, a symbolic loop, a
    call without fuel ...) and show it normalised *)
Ltac pysteps := repeat pystep1; pynorm_head.

(** run to the end, in every branch; what it cannot close is left to the user *)
(** every run is bounded: after a change of the source a proof must FAIL, not search for ever *)
Ltac pyrun_unbounded := repeat pystep1; pyfinish.
Ltac pyrun := timeout 300 pyrun_unbounded.

(** entry: expose the call *)
Ltac pystart := intros; unfold call_method, construct, call_function; cbn [Nat.add].

(** * Worked example: a loop over a symbolic list

    def total(self, xs):
        s = 0
        for x in xs:
            if x < 0: continue
            s += x
        return s

    The pattern: (1) [pysteps] brings the loop to the head; (2) choose the loop
    state -- here the accumulator and the last value of the loop variable,
    which is absent from the environment before the first iteration; (3)
    [change] the environment into [env_of state], rewrite with [for_loop_fold]
    (premise: one symbolic iteration, by [pyrun]); (4) [pyrun] finishes. *)
Module Demo.
  Definition T_total : func := mkFunc "total" [("self", None); ("xs", None)] false
    (Scons (SAssign (TName "s") (EConst (PInt 0)))
    (Scons (SFor (TName "x") (EName "xs")
        (Scons (SIf (ECmp (EName "x") (Ccons CLt (EConst (PInt 0)) Cnil)) (Scons SContinue Snil) Snil)
        (Scons (SAug (TName "s") OAdd (EName "x")) Snil)))
    (Scons (SReturn (OSome (EName "s"))) Snil))).
  Definition P : prog := mkProg [mkClass "T" [] None None [] [T_total]] [] [] [].
  Definition self : pv := PObj "T" [].

  Definition stepf (a x : Z) : Z := if x <? 0 then a else a + x.
  Definition model (l : list Z) : Z := fold_left stepf l 0.

  Definition st_env (xs : pv) (st : Z * option pv) : env :=
    ([("self", self); ("xs", xs); ("s", PInt (fst st))]
       ++ match snd st with Some v => [("x", v)] | None => [] end)%list.
  Definition st_step (st : Z * option pv) (x : Z) : Z * option pv := (stepf (fst st) x, Some (PInt x)).

  Lemma fst_fold_st_step l : forall a o, fst (fold_left st_step l (a, o)) = fold_left stepf l a.
  Proof. induction l; intros; cbn [fold_left]; [reflexivity | apply IHl]. Qed.

  Lemma total_func n l :
    call_func P (S n) T_total [self; PList (map PInt l)] [] = PyLite.Ok (PInt (model l), Some self).
  Proof.
    pystart. pysteps.
    change [("self", self); ("xs", PList (map PInt l)); ("s", PInt 0)]
      with (st_env (PList (map PInt l)) (0, None)).
    rewrite (for_loop_fold (st_env (PList (map PInt l))) PInt st_step).
    2:{ intros [a [v|]] y; unfold st_env, st_step, stepf; cbn [fst snd app]; pyrun. }
    unfold st_env, model. rewrite fst_fold_st_step. pyrun.
  Qed.

  (** ** Exceptions carry state: what a method did to [self] before it raised
      is there for the caller's [except]

      class K:
          def bump(self, by):
              self.n = self.n + by          # changes self ...
              if self.n > 9:
                  raise ValueError          # ... then raises
              return self.n
          def safe(self, by):
              try:
                  self.bump(by)
              except ValueError:
                  self.errs = self.errs + 1
              return self.n                 # sees the change made by bump

      At the [call_func] level (the lemma the callers rewrite with) the raise
      carries the receiver at that point, [ExcS c [("$self", receiver)]]; at
      the entry points ([call_method]) it is the plain [Exc c]. *)
  Definition K_bump : func := mkFunc "bump" [("self", None); ("by", None)] false
    (Scons (SAssign (TAttr (EName "self") "n") (EBin OAdd (EAttr (EName "self") "n") (EName "by")))
    (Scons (SIf (ECmp (EAttr (EName "self") "n") (Ccons CGt (EConst (PInt 9)) Cnil))
              (Scons (SRaise (EName "ValueError")) Snil) Snil)
    (Scons (SReturn (OSome (EAttr (EName "self") "n"))) Snil))).
  Definition K_safe : func := mkFunc "safe" [("self", None); ("by", None)] false
    (Scons (STry (Scons (SExpr (ECall (EAttr (EName "self") "bump") (Econs (EName "by") Enil) Knil)) Snil)
                 (Hcons "ValueError"
                    (Scons (SAssign (TAttr (EName "self") "errs")
                                    (EBin OAdd (EAttr (EName "self") "errs") (EConst (PInt 1)))) Snil)
                  Hnil))
    (Scons (SReturn (OSome (EAttr (EName "self") "n"))) Snil)).
  Definition PK : prog := mkProg [mkClass "K" [] None None [] [K_bump; K_safe]] [] [] [].
  Definition kobj (n errs : Z) : pv := PObj "K" [("n", PInt n); ("errs", PInt errs)].

  Lemma bump_func n k e by_ :
    call_func PK (S n) K_bump [kobj k e; PInt by_] [] =
    if 9 <? k + by_ then ExcS "ValueError" (self_st (kobj (k + by_) e))
    else PyLite.Ok (PInt (k + by_), Some (kobj (k + by_) e)).
  Proof. pystart. pyrun. Qed.

  (** the caller's handler, and the code after it, see the mutation
      (no lemma about [bump] registered yet: [pyrun] steps into it) *)
  Lemma safe_spec_inline n k e by_ :
    call_method PK (2 + n) (kobj k e) "safe" [PInt by_] =
    PyLite.Ok (PInt (k + by_), kobj (k + by_) (if 9 <? k + by_ then e + 1 else e)).
  Proof. pystart. pyrun. Qed.

  (** the same with the callee's lemma: the caller rewrites with [bump_func],
      whose [ExcS] tells it the receiver to write back *)
  #[local] Hint Resolve bump_func : pyspec.
  Lemma safe_spec n k e by_ :
    call_method PK (2 + n) (kobj k e) "safe" [PInt by_] =
    PyLite.Ok (PInt (k + by_), kobj (k + by_) (if 9 <? k + by_ then e + 1 else e)).
  Proof. pystart. pyrun. Qed.

  (** the entry point forgets the state: a [*_spec] statement is what it was
      for the interpreter without state in exceptions *)
  Lemma bump_spec n k e by_ :
    call_method PK (1 + n) (kobj k e) "bump" [PInt by_] =
    if 9 <? k + by_ then Exc "ValueError" else PyLite.Ok (PInt (k + by_), kobj (k + by_) e).
  Proof. pystart. pyrun. Qed.

  Example safe_computes :
    call_method PK 5 (kobj 7 0) "safe" [PInt 5] = PyLite.Ok (PInt 12, kobj 12 1).
  Proof. vm_compute. reflexivity. Qed.
End Demo.

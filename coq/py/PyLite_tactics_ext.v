(** Additions to the symbolic executor of py/PyLite_tactics.v (nothing there
    is changed).

    - [pystep1c] / [pystepsc] / [pyrunc]: as [pystep1] / [pysteps] / [pyrun],
      but an [if] statement is stepped with its two blocks kept folded
      ([exec_SIf]; the generic executor runs nested blocks in one go), and a
      statement [t = f(<comprehension>)] gets its comprehension loop named
      ([eval_call_comp]) instead of being expanded to an anonymous [fix].
    - [comp_loop_map_P]: [comp_loop_map] under a [Forall] hypothesis.
    - pieces for [py_stuck_hook]: [py_ground] (closed comparisons with
      [Z.max], powers ... that [pyclosed_in] does not know), [py_spine]
      ([zlen], [nth] on lists with a concrete spine), [py_nested] (a stuck
      [match] inside an ARGUMENT of the stuck head -- e.g.
      [truthy (match nth_error l k with ...)] -- is split on its own
      scrutinee; without it the generic case split destructs the whole
      application, which loses the connection with the model side).
    - [py_index_bytes], [native_safe_le]: two facts the hooks rewrite with. *)
From Coq Require Import String Ascii List ZArith NArith Bool Lia ZifyBool.
From NX Require Import Bytes PyStruct PyLite PyLite_tactics.
Import ListNotations.
Open Scope string_scope.
Open Scope list_scope.
Open Scope Z_scope.

Lemma comp_loop_map_P {B} (Pr : B -> Prop) (g : B -> pv) (h : B -> pv) P cf e1 n elt :
  (forall y, Pr y -> (do (v, _) <- eval P cf ((n, g y) :: e1) elt; PyLite.Ok v) = PyLite.Ok (h y)) ->
  forall l, Forall Pr l -> comp_loop P cf e1 n elt (map g l) = PyLite.Ok (map h l).
Proof.
  intros H l F. induction F as [|y r Hy F IH]; cbn [map]; [reflexivity|].
  rewrite comp_loop_cons, IH. specialize (H y Hy).
  destruct (eval P cf ((n, g y) :: e1) elt) as [[v e']| | | |]; cbn [bind] in *; try discriminate.
  inversion H. reflexivity.
Qed.

(** a statement [t = f([elt for x in it])]: name the comprehension loop before
    the reduction expands it anonymously *)
Lemma eval_call_comp P cf e f k elt n it :
  eval P cf e (ECall (EName f) (Econs (EComp k elt n it) Enil) Knil) =
  do (fv, e1) <- eval P cf e (EName f);
  do (vs, e2) <-
    (do (v, e1') <-
       (do (vi, e1'') <- eval P cf e1 it;
        do l <- iter_list vi;
        do vs <- attach e1'' (comp_loop P cf e1'' n elt l);
        PyLite.Ok (match k with KTuple => PTuple vs | KList => PList vs end, e1''));
     do (vs, e2) <- PyLite.Ok ([], e1'); PyLite.Ok (v :: vs, e2));
  do (ks, e3) <- PyLite.Ok ([], e2);
  do x <- attach e3 (call_value P cf fv vs ks); PyLite.Ok (x, e3).
Proof. reflexivity. Qed.

(** an [if] statement, with its two blocks kept folded (the generic executor
    runs nested blocks in one go, which expands a comprehension inside them
    anonymously) *)
Lemma exec_SIf P cf lf e c a b :
  exec P cf lf e (SIf c a b) =
  do (vc, e1) <- eval P cf e c;
  if truthy vc then exec_block P cf lf e1 a else exec_block P cf lf e1 b.
Proof. reflexivity. Qed.

Lemma exec_SAssign P cf lf e t x :
  exec P cf lf e (SAssign t x) =
  do (v, e1) <- eval P cf e x; do e2 <- attach e1 (assign P cf e1 t v); PyLite.Ok (ONorm e2).
Proof. reflexivity. Qed.

Ltac pystep1c :=
  pynorm_head;
  lazymatch goal with
  | |- ?L = _ =>
      let h := head_of L in
      lazymatch h with
      | exec_block _ _ _ _ (Scons (SIf _ _ _) _) => rewrite exec_block_cons, exec_SIf
      | exec_block _ _ _ _ (Scons (SAssign _ (ECall (EName _) (Econs (EComp _ _ _ _) Enil) Knil)) _) =>
          rewrite exec_block_cons, exec_SAssign, eval_call_comp
      | _ => pystep1
      end
  end.
Ltac pystepsc := repeat pystep1c; pynorm_head.
Ltac pyrunc := timeout 300 (repeat pystep1c; pyfinish).

(** closed comparisons that the blacklist left standing (powers, max) *)
Ltac is_ground t := tryif (match t with context [?x] => is_var x end) then fail else idtac.
Ltac py_ground h :=
  lazymatch h with
  | Z.eqb _ _ => idtac | Z.ltb _ _ => idtac | Z.leb _ _ => idtac | norm_index _ _ => idtac
  end;
  is_ground h;
  let v := eval vm_compute in h in change h with v.

(** data primitives on lists with a concrete spine (blacklisted in [pycbn_data]) *)
Ltac py_spine h :=
  match h with
  | context [@zlen ?A (?x :: ?l)] =>
      let k := eval cbv [List.length] in (List.length (x :: l)) in
      is_nat_lit k;
      let v := eval vm_compute in (Z.of_nat k) in
      change (@zlen A (x :: l)) with v
  | context [@nth ?A ?k (?x :: ?l) ?d] =>
      is_nat_lit k;
      let v := eval cbv [nth] in (@nth A k (x :: l) d) in
      change (@nth A k (x :: l) d) with v
  end.

(** a stuck [match] in an argument of the stuck head: split on its scrutinee *)
Ltac py_nested h :=
  match h with
  | context [match ?X with _ => _ end] => let hx := head_of X in pycase hx
  end.

Lemma py_index_bytes data i :
  0 <= i < zlen data ->
  py_index (PBytes data) (PInt i) = PyLite.Ok (PInt (Z.of_N (nth (Z.to_nat i) data 0%N))).
Proof.
  intros H. unfold py_index, norm_index, zlen in *. cbn [as_int].
  replace ((0 <=? i) && (i <? Z.of_nat (List.length data))) with true by lia. reflexivity.
Qed.

Lemma native_safe_le s f : parse_fmt (String "<" s) = Some f -> native_safe f = true.
Proof.
  unfold parse_fmt. cbn [String.list_ascii_of_string]. destruct (parse_items _ _); cbn [option_map]; [|discriminate].
  intros H. inversion H. reflexivity.
Qed.


(** Addition to the symbolic executor (nothing in py/PyLite_tactics.v or
    py/PyLite_tactics_ext.v is changed): [try] statements are stepped with the
    body and the handlers kept FOLDED.

    The generic executor runs the blocks nested in a statement in one go (the
    reduction unfolds the mutual fixpoint [exec]/[exec_block]/[exec_handlers]
    through them), which expands a [while] loop inside a [try] body to an
    anonymous [fix] and makes every step pay for the whole method body.
    [pystep1t] / [pystepst] / [pyrunt]: as [pystep1c] / [pystepsc] / [pyrunc]
    (so [if] statements keep their blocks folded, too), plus
      - [exec_STry]: the body of a [try] as an [exec_block] of its own;
      - [exec_handlers_cons] / [exec_handlers_nil]: the handlers one by one
        ([exec_handlers] is [simpl never] for whoever loads this file);
      - a statement [t = [elt for x in it]] gets its comprehension loop named
        ([eval_EComp]; [pystep1c] does that for [t = f(<comprehension>)] only). *)
From Coq Require Import String Ascii List ZArith NArith Bool Lia ZifyBool.
From NX Require Import Bytes PyStruct PyLite PyLite_tactics PyLite_tactics_ext.
Import ListNotations.
Open Scope string_scope.
Open Scope list_scope.
Open Scope Z_scope.

#[global] Arguments exec_handlers : simpl never.

Lemma exec_STry P cf lf e b hs :
  exec P cf lf e (STry b hs) =
  match exec_block P cf lf e b with
  | PyLite.Ok o => PyLite.Ok o
  | Exc c => exec_handlers P cf lf e c hs
  | ExcS c e' => exec_handlers P cf lf e' c hs
  | Fuel => Fuel
  | Unsupported w => Unsupported w
  end.
Proof. reflexivity. Qed.

Lemma exec_handlers_cons P cf lf e c h b r :
  exec_handlers P cf lf e c (Hcons h b r) =
  if exc_matches h c then exec_block P cf lf (update "$exc" (PStr c) e) b else exec_handlers P cf lf e c r.
Proof. reflexivity. Qed.

Lemma exec_handlers_nil P cf lf e c : exec_handlers P cf lf e c Hnil = ExcS c e.
Proof. reflexivity. Qed.

(** [except Exception:] catches everything (for [py_stuck_hook]: the name of
    the raised exception is symbolic when it comes from a callee's model) *)
Lemma exc_matches_Exception c : exc_matches "Exception" c = true.
Proof. unfold exc_matches. cbn [String.eqb Ascii.eqb Bool.eqb]. apply orb_true_r. Qed.

Ltac pystep1t :=
  pynorm_head;
  lazymatch goal with
  | |- ?L = _ =>
      let h := head_of L in
      lazymatch h with
      | exec_block _ _ _ _ (Scons (STry _ _) _) => rewrite exec_block_cons, exec_STry
      | exec_block _ _ _ _ (Scons (SAssign _ (EComp _ _ _ _)) _) =>
          rewrite exec_block_cons, exec_SAssign, eval_EComp
      | exec_handlers _ _ _ _ _ (Hcons _ _ _) => rewrite exec_handlers_cons
      | exec_handlers _ _ _ _ _ Hnil => rewrite exec_handlers_nil
      | _ => pystep1c
      end
  end.
Ltac pystepst := repeat pystep1t; pynorm_head.
Ltac pyrunt := timeout 300 (repeat pystep1t; pyfinish).

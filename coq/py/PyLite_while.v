(** A principle for [while] loops of PyLite programs.

    The loop state is abstracted by a relation [R a e] between a model state
    [a : A] and the interpreter's environment [e] (a relation, not a function:
    the environment may hold further variables that the model ignores, e.g.
    the locals assigned in the body).  The premises are: the condition
    evaluates, without side effect, to the model's [cond]; one run of the body
    from a related environment is a [step] of the model (a raise of the model
    being a raise of the interpreter in an environment that satisfies [E]).
    The conclusion: the whole loop is the fuelled iteration [while_model]. *)
From Coq Require Import String List ZArith Bool.
From NX Require Import PyLite PyLite_tactics.
Import ListNotations.

(** [s] is the interpreter's result, [r] the model's.  The model's exceptions
    are stateless ([Exc w]; a state it may carry is ignored); the interpreter
    raises [ExcS w e] in an environment [e] about which [E] says what the
    caller needs (typically [lookup "self" e = Some <receiver>]: that is all
    [call_func] reads of it) *)
Definition res_rel {A B} (Q : A -> B -> Prop) (E : env -> Prop) (r : PyLite.res A) (s : PyLite.res B) : Prop :=
  match r with
  | PyLite.Ok a => exists b, s = PyLite.Ok b /\ Q a b
  | Exc w | ExcS w _ => exists e, s = ExcS w e /\ E e
  | Fuel => s = Fuel
  | Unsupported w => s = Unsupported w
  end.

Fixpoint while_model {A} (cond : A -> bool) (step : A -> PyLite.res A) (k : nat) (a : A) : PyLite.res A :=
  match k with
  | O => Fuel
  | S k' => if cond a then do a' <- step a; while_model cond step k' a' else PyLite.Ok a
  end.

Definition norm_rel {A} (R : A -> env -> Prop) (a : A) (o : out) : Prop :=
  exists e, o = ONorm e /\ R a e.

Lemma while_loop_rel {A} (R : A -> env -> Prop) (E : env -> Prop) (cond : A -> bool) (step : A -> PyLite.res A)
      P cf lf c b :
  (forall a e, R a e -> exists v, eval P cf e c = PyLite.Ok (v, e) /\ truthy v = cond a) ->
  (forall a e, R a e -> cond a = true -> res_rel (norm_rel R) E (step a) (exec_block P cf lf e b)) ->
  forall k a e, R a e ->
    res_rel (norm_rel R) E (while_model cond step k a) (while_loop P cf lf c b k e).
Proof.
  intros Hc Hb. induction k as [|k IH]; intros a e HR; cbn [while_model].
  - reflexivity.
  - rewrite while_loop_S. destruct (Hc a e HR) as (v & Ev & Tv). rewrite Ev. cbn [bind]. rewrite Tv.
    destruct (cond a) eqn:C.
    + specialize (Hb a e HR C). unfold res_rel in Hb.
      destruct (step a) as [a'| | | |]; cbn [bind].
      * destruct Hb as (o & Eo & e' & -> & HR'). rewrite Eo. cbn [bind loop_next]. apply IH, HR'.
      * destruct Hb as (e' & -> & HE). cbn [res_rel bind]. exists e'. split; [reflexivity|exact HE].
      * destruct Hb as (e' & -> & HE). cbn [res_rel bind]. exists e'. split; [reflexivity|exact HE].
      * rewrite Hb. reflexivity.
      * rewrite Hb. reflexivity.
    + cbn [res_rel]. eexists. split; [reflexivity|]. exists e. split; [reflexivity|exact HR].
Qed.

(** more fuel does not change a result *)
Lemma while_model_mono {A} (cond : A -> bool) (step : A -> PyLite.res A) k :
  forall a r, while_model cond step k a = r -> r <> Fuel ->
  forall k', (k <= k')%nat -> while_model cond step k' a = r.
Proof.
  induction k as [|k IH]; intros a r H NF k' L; cbn [while_model] in H.
  - congruence.
  - destruct k' as [|k']; [inversion L|]. cbn [while_model].
    destruct (cond a); [|exact H].
    destruct (step a) as [a'| | | |]; cbn [bind] in *; try exact H.
    apply (IH a' r H NF). apply le_S_n, L.
Qed.
(** a model whose steps raise without state ([Exc w], never [ExcS w st]) does
    so as a whole: [strip] is the identity on it.  (What a theorem about an
    entry point needs when its right-hand side is such a model: rewrite the
    right-hand side with this equation, from right to left, and the case split
    on the folded model term closes in every case.) *)
Lemma while_model_strip {A} (cond : A -> bool) (step : A -> PyLite.res A) :
  (forall a, strip (step a) = step a) ->
  forall k a, strip (while_model cond step k a) = while_model cond step k a.
Proof.
  intros Hs. induction k as [|k IH]; intros a; cbn [while_model]; [reflexivity|].
  destruct (cond a); [|reflexivity]. specialize (Hs a).
  destruct (step a); cbn [bind strip] in *; try reflexivity; [apply IH | discriminate].
Qed.
#[global] Arguments while_model : simpl never.

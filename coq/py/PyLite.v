(** PyLite: a deep embedding of the Python subset nxslib's protocol code is
    written in, with a fuelled big-step interpreter.  The abstract syntax trees
    of the modelled functions are REGENERATED from /repo on every run
    (coq/gen/Src_*.v); theorems are stated about [call_method prog ...] on
    those trees.  Definitions only.

    Object model: values are immutable trees.  A method call
    [recv.m(args)] evaluates the receiver, runs the method with [self] bound
    to that value, and writes the method's final [self] back to the receiver
    when the receiver is an l-value path (a name or an attribute chain).  This
    is Python's behaviour for alias-free object graphs, which is what the
    modelled classes build (the translator refuses anything else). *)
From Coq Require Import String Ascii List ZArith NArith Bool DecimalString.
From NX Require Import Bytes PyStruct Crc Utf8 Rn53.
Import ListNotations.
Open Scope string_scope.
Open Scope list_scope.
Open Scope Z_scope.

(** * Values *)
Inductive pv :=
  | PNone
  | PBool (b : bool)
  | PInt (z : Z)
  | PStr (s : string)
  | PBytes (l : bytes)
  | PTuple (l : list pv)
  | PList (l : list pv)
  | PSet (l : list pv)                       (* duplicate-free, insertion order *)
  | PEnum (cls name : string) (v : Z) (isint : bool)
  | PObj (cls : string) (fs : list (string * pv))
  | PCls (cls : string)                      (* class object / builtin type *)
  | PMod (name : string)                     (* module *)
  | PBuiltin (name : string)                 (* builtin function *)
  | PFunc (name : string)                    (* module-level function of the program *)
  | PCrc (name : string)                     (* crcmod CRC function *)
  | PF64 (bits : N)                          (* non-finite float, by bit pattern *)
  | PDy (num e : Z)                          (* finite float: the dyadic rational num / 2^e, normalised *)
  | PDict (l : list (pv * pv)).              (* insertion-ordered dictionary *)

Inductive res (A : Type) :=
  | Ok (a : A)
  | Exc (cls : string)          (* a Python exception of that class (raised by a primitive: no state yet) *)
  | ExcS (cls : string) (st : list (string * pv))
                                (* the same, carrying the environment at the point of the raise, so that
                                   state changes made before the raise survive a later [except] *)
  | Fuel                        (* interpreter fuel exhausted *)
  | Unsupported (why : string). (* outside the subset: never caught *)
Arguments Ok {A}. Arguments Exc {A}. Arguments ExcS {A}. Arguments Fuel {A}. Arguments Unsupported {A}.

Definition bind {A B} (r : res A) (f : A -> res B) : res B :=
  match r with
  | Ok a => f a
  | Exc c => Exc c
  | ExcS c st => ExcS c st
  | Fuel => Fuel
  | Unsupported w => Unsupported w
  end.

(** give a raise the environment it happens in (an inner state, e.g. of a callee, is replaced) *)
Definition attach {A} (e : list (string * pv)) (r : res A) : res A :=
  match r with
  | Exc c | ExcS c _ => ExcS c e
  | x => x
  end.

(** forget the state: results of the entry points *)
Definition strip {A} (r : res A) : res A :=
  match r with
  | ExcS c _ => Exc c
  | x => x
  end.
Notation "'do' x <- r ; k" := (bind r (fun x => k)) (at level 200, x pattern, r at level 100, k at level 200).

(** * Syntax *)
Inductive binop := OAdd | OSub | OMul | OFloorDiv | OMod | OShl | OShr | OBitAnd | OBitOr | OBitXor | ODiv.
Inductive cmpop := CEq | CNe | CLt | CLe | CGt | CGe | CIs | CIsNot | CIn | CNotIn.
Inductive compkind := KTuple | KList.

Inductive expr :=
  | EConst (v : pv)
  | EName (x : string)
  | EAttr (e : expr) (a : string)
  | ECall (f : expr) (args : exprs) (kws : kwargs)
  | EBin (op : binop) (a b : expr)
  | ENot (a : expr)
  | ENeg (a : expr)
  | EAnd (a b : expr)
  | EOr (a b : expr)
  | ECmp (a : expr) (cs : cmps)
  | EIndex (e i : expr)
  | ESlice (e : expr) (lo hi : oexpr)
  | ETuple (es : exprs)
  | EList (es : exprs)
  | EIf (c a b : expr)
  | EFStr (parts : exprs)
  | EComp (k : compkind) (elt : expr) (x : string) (iter : expr)
  | EDict (ks vs : exprs)
  | EStar (e : expr)                         (* only as a call argument *)
with exprs := Enil | Econs (e : expr) (es : exprs)
with kwargs := Knil | Kcons (k : string) (e : expr) (ks : kwargs)
with cmps := Cnil | Ccons (op : cmpop) (e : expr) (cs : cmps)
with oexpr := ONone | OSome (e : expr).

Inductive target :=
  | TName (x : string)
  | TAttr (e : expr) (a : string)
  | TNames (xs : list string)
  | TIndex (e i : expr)                      (* x[i] = v *)
  | TRaw (e k : expr)                        (* e.__dict__[k] = v : store bypassing __setattr__ *)
  | TDyn (e k : expr).                       (* setattr(e, k, v) *)

Inductive stmt :=
  | SAssign (t : target) (e : expr)
  | SAug (t : target) (op : binop) (e : expr)
  | SExpr (e : expr)
  | SIf (c : expr) (a b : stmts)
  | SWhile (c : expr) (b : stmts)
  | SFor (t : target) (it : expr) (b : stmts)
  | SForWB (x : string) (it : expr) (b : stmts)
      (* pl14, additive: [for x in <l-value path>: body] where the body mutates the object bound to [x]
         and never rebinds [x]: after each iteration the value of [x] is written back to the element
         it came from (in Python the loop variable IS that element).  Emitted by the translator only
         under that syntactic condition (tools/pylite.py, [forwb_pattern]). *)
  | SReturn (e : oexpr)
  | SRaise (e : expr)
  | SAssert (e : expr)
  | STry (b : stmts) (hs : handlers)
  | SPass
  | SBreak
  | SContinue
with stmts := Snil | Scons (s : stmt) (ss : stmts)
with handlers := Hnil | Hcons (cls : string) (b : stmts) (hs : handlers).

Record func := mkFunc
  { f_name : string;
    f_params : list (string * option expr);   (* name, default *)
    f_prop : bool;                            (* @property *)
    f_body : stmts }.

Record class := mkClass
  { c_name : string;
    c_bases : list string;
    c_enum : option (bool * list (string * Z));   (* Some (is IntEnum, members) *)
    c_fields : option (list (string * option expr));  (* Some: @dataclass fields, in order *)
    c_consts : list (string * expr);              (* other class-level assignments *)
    c_methods : list func }.

Record prog := mkProg
  { p_classes : list class;
    p_funcs : list func;
    p_consts : list (string * expr);              (* module-level constants *)
    p_crcs : list (string * crc_params) }.        (* crcmod predefined definitions that the source names *)

(** * Primitive semantics *)
Definition env := list (string * pv).

Fixpoint lookup {A} (x : string) (l : list (string * A)) : option A :=
  match l with
  | [] => None
  | (y, v) :: r => if String.eqb x y then Some v else lookup x r
  end.

Fixpoint update {A} (x : string) (v : A) (l : list (string * A)) : list (string * A) :=
  match l with
  | [] => [(x, v)]
  | (y, w) :: r => if String.eqb x y then (y, v) :: r else (y, w) :: update x v r
  end.

Definition as_int (v : pv) : option Z :=
  match v with
  | PInt z => Some z
  | PBool b => Some (if b then 1 else 0)
  | PEnum _ _ z true => Some z
  | _ => None
  end.

Definition truthy (v : pv) : bool :=
  match v with
  | PNone => false
  | PBool b => b
  | PInt z => negb (z =? 0)
  | PStr s => negb (String.eqb s "")
  | PBytes l => negb (Nat.eqb (List.length l) 0)
  | PTuple l | PList l | PSet l => negb (Nat.eqb (List.length l) 0)
  | PEnum _ _ z true => negb (z =? 0)
  | PF64 b => true
  | PDy n _ => negb (n =? 0)
  | PDict l => negb (Nat.eqb (List.length l) 0)
  | _ => true
  end.

(** a number: an integer or a finite float; both are dyadic rationals num / 2^e *)
Definition as_num (v : pv) : option (Z * Z * bool) :=   (* num, e, is-float *)
  match v with
  | PDy n e => Some (n, e, true)
  | _ => match as_int v with Some z => Some (z, 0, false) | None => None end
  end.

(** compare num1/2^e1 with num2/2^e2 *)
Definition dy_align (n1 e1 n2 e2 : Z) : Z * Z :=
  let m := Z.max e1 e2 in (n1 * 2 ^ (m - e1), n2 * 2 ^ (m - e2)).

(** a finite double as a dyadic: exact iff it has at most 53 significant bits and a
    representable exponent; the interpreter only produces floats through these two *)
Definition fits_double (n e : Z) : bool :=
  (n =? 0) || ((Z.log2 (Z.abs n) + 1 <=? 53) && (-1022 <=? Z.log2 (Z.abs n) - e) && (Z.log2 (Z.abs n) - e <=? 1023)).

Definition mk_float (n e : Z) : option pv :=
  let '(n', e') := dyad_norm n e in
  if fits_double n' e' then Some (PDy n' e') else None.

(** float(z) *)
Definition float_of_int (z : Z) : option pv := mk_float (rn53 z) 0.

Definition f64_to_pv (bits : N) : pv :=
  let b := Z.of_N bits in
  let sign := Z.shiftr b 63 in
  let ex := Z.land (Z.shiftr b 52) 2047 in
  let man := Z.land b (2 ^ 52 - 1) in
  if ex =? 2047 then PF64 bits
  else
    let m := if ex =? 0 then man else man + 2 ^ 52 in
    let e := if ex =? 0 then 1074 else 1075 - ex in
    let '(n', e') := dyad_norm (if sign =? 1 then - m else m) e in PDy n' e'.

Definition f32_to_pv (bits : N) : pv :=
  let b := Z.of_N bits in
  let sign := Z.shiftr b 31 in
  let ex := Z.land (Z.shiftr b 23) 255 in
  let man := Z.land b (2 ^ 23 - 1) in
  (* pl14: a single-precision NaN converted to double has its quiet bit set (the hardware conversion that
     struct.unpack('f') goes through quiets a signalling NaN); infinities are unchanged *)
  if ex =? 255 then PF64 (Z.to_N (Z.lor (Z.shiftl sign 63) (Z.lor (Z.shiftl 2047 52)
                                  (Z.lor (Z.shiftl man 29) (if man =? 0 then 0 else 2 ^ 51)))))
  else
    let m := if ex =? 0 then man else man + 2 ^ 23 in
    let e := if ex =? 0 then 149 else 150 - ex in
    let '(n', e') := dyad_norm (if sign =? 1 then - m else m) e in PDy n' e'.

(** round(): half to even, of a dyadic *)
Definition dy_round (n e : Z) : Z :=
  if e <=? 0 then n * 2 ^ (- e) else
  let q := Z.shiftr n e in                (* floor *)
  let r := n - Z.shiftl q e in            (* 0 <= r < 2^e *)
  let half := 2 ^ (e - 1) in
  if (half <? r) || ((r =? half) && Z.odd q) then q + 1 else q.

Definition bytes_eqb (a b : bytes) : bool :=
  Nat.eqb (List.length a) (List.length b) && forallb (fun p => N.eqb (fst p) (snd p)) (combine a b).

(** == ; floats are outside (fail closed by returning None) *)
Fixpoint py_eq (a b : pv) {struct a} : option bool :=
  let fix eql (l1 l2 : list pv) {struct l1} : option bool :=
    match l1, l2 with
    | [], [] => Some true
    | x :: r1, y :: r2 =>
        match py_eq x y with
        | Some true => eql r1 r2
        | o => o
        end
    | _, _ => Some false
    end in
  match as_int a, as_int b with
  | Some x, Some y => Some (x =? y)
  | _, _ =>
  match as_num a, as_num b with
  | Some (x, ex, _), Some (y, ey, _) => let '(p, q) := dy_align x ex y ey in Some (p =? q)
  | _, _ =>
    match a, b with
    | PNone, PNone => Some true
    | PStr s, PStr t => Some (String.eqb s t)
    | PBytes s, PBytes t => Some (bytes_eqb s t)
    | PTuple s, PTuple t => eql s t
    | PList s, PList t => eql s t
    | PEnum c n _ false, PEnum c' n' _ false => Some (String.eqb c c' && String.eqb n n')
    | PCls c, PCls c' => Some (String.eqb c c')
    | PF64 _, _ | _, PF64 _ => None
    | PObj _ _, _ | _, PObj _ _ => None
    | PSet _, _ | _, PSet _ => None
    | PDict _, _ | _, PDict _ => None
    | _, _ => Some false
    end
  end
  end.

(** [is]: defined for the singletons, enum members, classes and CPython's
    cached small integers; anything else is outside the subset *)
Definition py_is (a b : pv) : option bool :=
  match a, b with
  | PNone, PNone => Some true
  | PBool x, PBool y => Some (Bool.eqb x y)
  | PEnum c n _ _, PEnum c' n' _ _ => Some (String.eqb c c' && String.eqb n n')
  | PCls c, PCls c' => Some (String.eqb c c')
  | PInt x, PInt y => if (-5 <=? x) && (x <=? 256) && (-5 <=? y) && (y <=? 256) then Some (x =? y) else None
  | PNone, _ | _, PNone => Some false
  | PBool _, _ | _, PBool _ => Some false
  | PEnum _ _ _ _, _ | _, PEnum _ _ _ _ => Some false
  | _, _ => None
  end.

Definition string_of_Z (z : Z) : string := NilZero.string_of_int (Z.to_int z).

Definition py_str (v : pv) : option string :=
  match v with
  | PStr s => Some s
  | PInt z => Some (string_of_Z z)
  | PBool true => Some "True"
  | PBool false => Some "False"
  | PNone => Some "None"
  | PEnum _ _ z true => Some (string_of_Z z)     (* IntEnum.__str__ is int.__str__ since Python 3.11 *)
  | _ => None
  end.

Definition binop_int (op : binop) (x y : Z) : res pv :=
  match op with
  | OAdd => Ok (PInt (x + y))
  | OSub => Ok (PInt (x - y))
  | OMul => Ok (PInt (x * y))
  | OFloorDiv => if y =? 0 then Exc "ZeroDivisionError" else Ok (PInt (x / y))
  | OMod => if y =? 0 then Exc "ZeroDivisionError" else Ok (PInt (x mod y))
  | OShl => if y <? 0 then Exc "ValueError" else Ok (PInt (Z.shiftl x y))
  | OShr => if y <? 0 then Exc "ValueError" else Ok (PInt (Z.shiftr x y))
  | OBitAnd => Ok (PInt (Z.land x y))
  | OBitOr => Ok (PInt (Z.lor x y))
  | OBitXor => Ok (PInt (Z.lxor x y))
  | ODiv => Unsupported "true division"
  end.


(** float arithmetic is defined where the result is exact (or an int -> float
    conversion followed by an exact operation): scaling by powers of two *)
Definition binop_float (op : binop) (x ex y ey : Z) (fx fy : bool) : res pv :=
  (* operands converted to float first, as CPython does *)
  let cx := if fx then Some (x, ex) else match float_of_int x with Some (PDy n e) => Some (n, e) | _ => None end in
  let cy := if fy then Some (y, ey) else match float_of_int y with Some (PDy n e) => Some (n, e) | _ => None end in
  match cx, cy with
  | Some (x, ex), Some (y, ey) =>
      match op with
      | OMul =>
          if (Z.abs x =? 1) || (Z.abs y =? 1) || (x =? 0) || (y =? 0)
          then match mk_float (x * y) (ex + ey) with Some v => Ok v | None => Unsupported "float range" end
          else Unsupported "inexact float product"
      | ODiv =>
          if y =? 0 then Exc "ZeroDivisionError"
          else if Z.abs y =? 1
          then match mk_float (x * y) (ex - ey) with Some v => Ok v | None => Unsupported "float range" end
          else Unsupported "inexact float quotient"
      | _ => Unsupported "float operator"
      end
  | _, _ => Unsupported "int too large for float"
  end.

Definition py_binop (op : binop) (a b : pv) : res pv :=
  match as_int a, as_int b with
  | Some x, Some y =>
      match op with
      | ODiv => binop_float op x 0 y 0 false false
      | _ => binop_int op x y
      end
  | _, _ =>
    match as_num a, as_num b with
    | Some (x, ex, fx), Some (y, ey, fy) => binop_float op x ex y ey fx fy
    | _, _ =>
    match op, a, b with
    | OAdd, PBytes s, PBytes t => Ok (PBytes (s ++ t))
    | OAdd, PStr s, PStr t => Ok (PStr (String.append s t))
    | OAdd, PList s, PList t => Ok (PList (s ++ t))
    | OAdd, PTuple s, PTuple t => Ok (PTuple (s ++ t))
    | OAdd, _, _ => Exc "TypeError"
    | OMul, PBytes s, v | OMul, v, PBytes s =>
        match as_int v with
        | Some k => Ok (PBytes (List.concat (repeat s (Z.to_nat k))))
        | None => Exc "TypeError"
        end
    | OMul, PStr s, v | OMul, v, PStr s =>
        match as_int v with
        | Some k => Ok (PStr (String.concat "" (repeat s (Z.to_nat k))))
        | None => Exc "TypeError"
        end
    | _, _, _ => Unsupported "binop"
    end
    end
  end.

Definition cmp_int (op : cmpop) (x y : Z) : bool :=
  match op with
  | CLt => x <? y | CLe => x <=? y | CGt => y <? x | CGe => y <=? x
  | _ => false
  end.

Fixpoint mem_eq (x : pv) (l : list pv) : option bool :=
  match l with
  | [] => Some false
  | y :: r => match py_eq x y with Some true => Some true | Some false => mem_eq x r | None => None end
  end.

Definition opt_res {A} (o : option A) (why : string) : res A :=
  match o with Some a => Ok a | None => Unsupported why end.

Definition py_cmp (op : cmpop) (a b : pv) : res bool :=
  match op with
  | CEq => opt_res (py_eq a b) "=="
  | CNe => do r <- opt_res (py_eq a b) "!="; Ok (negb r)
  | CIs => opt_res (py_is a b) "is"
  | CIsNot => do r <- opt_res (py_is a b) "is not"; Ok (negb r)
  | CIn | CNotIn =>
      do r <- match b with
              | PList l | PTuple l | PSet l => opt_res (mem_eq a l) "in"
              | PBytes l => match as_int a with
                            | Some z => if (0 <=? z) && (z <? 256)
                                        then Ok (existsb (fun c => Z.of_N c =? z) l)
                                        else Exc "ValueError"     (* byte must be in range(0, 256) *)
                            | None => Unsupported "in bytes"
                            end
              | _ => Unsupported "in"
              end;
      Ok (match op with CIn => r | _ => negb r end)
  | _ =>
      match as_int a, as_int b with
      | Some x, Some y => Ok (cmp_int op x y)
      | _, _ =>
      match as_num a, as_num b with
      | Some (x, ex, _), Some (y, ey, _) => let '(p, q) := dy_align x ex y ey in Ok (cmp_int op p q)
      | _, _ => Unsupported "ordering of non-numbers"
      end
      end
  end.

Definition norm_index (len : nat) (i : Z) : option nat :=
  let n := Z.of_nat len in
  if (0 <=? i) && (i <? n) then Some (Z.to_nat i)
  else if (i <? 0) && (0 <=? i + n) then Some (Z.to_nat (i + n))
  else None.

Definition py_index (v i : pv) : res pv :=
  match as_int i with
  | None => Unsupported "index type"
  | Some z =>
      match v with
      | PBytes l => match norm_index (List.length l) z with
                    | Some k => Ok (PInt (Z.of_N (nth k l 0%N)))
                    | None => Exc "IndexError" end
      | PTuple l | PList l => match norm_index (List.length l) z with
                    | Some k => Ok (nth k l PNone)
                    | None => Exc "IndexError" end
      | _ => Unsupported "index"
      end
  end.

Definition slice_list {A} (l : list A) (lo hi : option Z) : list A :=
  match lo, hi with
  | None, None => l
  | Some i, None => slice_from l i
  | None, Some j => slice_to l j
  | Some i, Some j => pyslice l i j
  end.

Definition list_ascii_of_string := String.list_ascii_of_string.
Definition string_of_list_ascii := String.string_of_list_ascii.

Definition py_slice (v : pv) (lo hi : option Z) : res pv :=
  match v with
  | PBytes l => Ok (PBytes (slice_list l lo hi))
  | PTuple l => Ok (PTuple (slice_list l lo hi))
  | PList l => Ok (PList (slice_list l lo hi))
  | PStr s => Ok (PStr (string_of_list_ascii (slice_list (list_ascii_of_string s) lo hi)))
  | _ => Unsupported "slice"
  end.

(** struct: PyLite values <-> PyStruct values *)
Definition to_sv (v : pv) : res PyStruct.value :=
  match v with
  | PInt z => Ok (VInt z)
  | PEnum _ _ z true => Ok (VInt z)
  | PBool b => Ok (VBool b)
  | PBytes l => Ok (VBytes l)
  | PF64 b => Ok (VF64 b)
  | PDy n e => Ok (VDy n e)
  | _ => Exc "struct.error"
  end.

Definition of_sv (v : PyStruct.value) : pv :=
  match v with
  | VInt z => PInt z
  | VBool b => PBool b
  | VBytes l => PBytes l
  | VF32 b => f32_to_pv b
  | VF64 b => f64_to_pv b
  | VDy n e => let '(n', e') := dyad_norm n e in PDy n' e'   (* never produced by unpack *)
  end.

Fixpoint map_res {A B} (f : A -> res B) (l : list A) : res (list B) :=
  match l with
  | [] => Ok []
  | x :: r => do y <- f x; do ys <- map_res f r; Ok (y :: ys)
  end.

Fixpoint map_opt {A B} (f : A -> option B) (l : list A) : option (list B) :=
  match l with
  | [] => Some []
  | x :: r => match f x, map_opt f r with Some y, Some ys => Some (y :: ys) | _, _ => None end
  end.

Definition is_pdy (v : pv) : bool := match v with PDy _ _ => true | _ => false end.

(** CPython raises OverflowError for a finite float too large for 'f' but
    struct.error for the other failures; when [pack] fails and a float was among the
    arguments we fail closed instead of guessing which. *)
Definition struct_pack (args : list pv) : res pv :=
  match args with
  | PStr f :: vs =>
      match parse_fmt f with
      | None => Exc "struct.error"
      | Some fm =>
          if negb (native_safe fm) then Unsupported "native alignment" else
          do svs <- map_res to_sv vs;
          match pack fm svs with
          | Some b => Ok (PBytes b)
          | None => if existsb is_pdy vs then Unsupported "float out of range for the format"
                    else Exc "struct.error"
          end
      end
  | _ => Unsupported "struct.pack arguments"
  end.

Definition struct_unpack (args : list pv) : res pv :=
  match args with
  | [PStr f; PBytes b] =>
      match parse_fmt f with
      | None => Exc "struct.error"
      | Some fm =>
          if negb (native_safe fm) then Unsupported "native alignment" else
          match unpack fm b with Some vs => Ok (PTuple (map of_sv vs)) | None => Exc "struct.error" end
      end
  | _ => Unsupported "struct.unpack arguments"
  end.

Definition struct_calcsize (args : list pv) : res pv :=
  match args with
  | [PStr f] =>
      match parse_fmt f with
      | None => Exc "struct.error"
      | Some fm => if negb (native_safe fm) then Unsupported "native alignment"
                   else Ok (PInt (Z.of_nat (calcsize fm)))
      end
  | _ => Unsupported "struct.calcsize arguments"
  end.

Fixpoint bytes_of_ints (l : list pv) : res bytes :=
  match l with
  | [] => Ok []
  | v :: r =>
      match as_int v with
      | None => Exc "TypeError"
      | Some z => if (0 <=? z) && (z <? 256)
                  then do t <- bytes_of_ints r; Ok (Z.to_N z :: t)
                  else Exc "ValueError"
      end
  end.

Fixpoint dedup (l acc : list pv) : option (list pv) :=
  match l with
  | [] => Some (rev acc)
  | x :: r => match mem_eq x acc with
              | Some true => dedup r acc
              | Some false => dedup r (x :: acc)
              | None => None
              end
  end.

Definition iter_list (v : pv) : res (list pv) :=
  match v with
  | PList l | PTuple l | PSet l => Ok l
  | PBytes l => Ok (map (fun b => PInt (Z.of_N b)) l)
  | PDict l => Ok (map fst l)
  | _ => Unsupported "iteration"
  end.

(** text is kept as its UTF-8 bytes *)
Definition str_bytes (s : string) : bytes := map N_of_ascii (String.list_ascii_of_string s).
Definition bytes_str (b : bytes) : string := String.string_of_list_ascii (map ascii_of_N b).
Definition str_len (s : string) : Z := zlen (List.filter (fun b => negb (is_cont b)) (str_bytes s)).

Definition py_len (v : pv) : res pv :=
  match v with
  | PBytes l => Ok (PInt (zlen l))
  | PList l | PTuple l | PSet l => Ok (PInt (zlen l))
  | PStr s => Ok (PInt (str_len s))
  | PDict l => Ok (PInt (zlen l))
  | _ => Exc "TypeError"
  end.

Definition range_list (lo hi : Z) : list pv :=
  map (fun k => PInt (lo + Z.of_nat k)) (seq 0 (Z.to_nat (hi - lo))).

Definition is_instance (v : pv) (cls : string) : option bool :=
  match v with
  | PTuple _ => Some (String.eqb cls "tuple")
  | PList _ => Some (String.eqb cls "list")
  | PBool _ => Some (String.eqb cls "bool" || String.eqb cls "int")
  | PInt _ => Some (String.eqb cls "int")
  | PStr _ => Some (String.eqb cls "str")
  | PBytes _ => Some (String.eqb cls "bytes")
  | PNone => Some false
  | _ => None
  end.

Definition builtin_names : list string :=
  ["len"; "bytes"; "int"; "bool"; "str"; "tuple"; "list"; "set"; "range"; "isinstance"; "enumerate"; "round"; "float"; "getattr"; "callable"].
Definition builtin_types : list string := ["tuple"; "list"; "int"; "bool"; "str"; "bytes"; "set"].
Definition module_names : list string := ["struct"; "crcmod"; "copy"; "queue"].

Definition call_builtin (P : prog) (name : string) (args : list pv) : res pv :=
  if String.eqb name "len" then match args with [v] => py_len v | _ => Exc "TypeError" end
  else if String.eqb name "bytes" then
    match args with
    | [] => Ok (PBytes [])
    | [PBytes l] => Ok (PBytes l)
    | [PInt n] => if n <? 0 then Exc "ValueError" else Ok (PBytes (repeat 0%N (Z.to_nat n)))
    | [PStr s] => Exc "TypeError"
    | [PStr s; PStr enc] =>
        if String.eqb enc "utf-8" || String.eqb enc "utf" || String.eqb enc "utf8" then Ok (PBytes (str_bytes s))
        else Unsupported "bytes(str, encoding)"
    | [v] => do l <- iter_list v; do b <- bytes_of_ints l; Ok (PBytes b)
    | _ => Unsupported "bytes()"
    end
  else if String.eqb name "int" then
    match args with
    | [v] => match as_int v with Some z => Ok (PInt z) | None => Unsupported "int()" end
    | _ => Unsupported "int()"
    end
  else if String.eqb name "bool" then
    match args with [v] => Ok (PBool (truthy v)) | _ => Unsupported "bool()" end
  else if String.eqb name "str" then
    match args with [v] => do s <- opt_res (py_str v) "str()"; Ok (PStr s) | _ => Unsupported "str()" end
  else if String.eqb name "tuple" then
    match args with [v] => do l <- iter_list v; Ok (PTuple l) | [] => Ok (PTuple []) | _ => Unsupported "tuple()" end
  else if String.eqb name "list" then
    match args with [v] => do l <- iter_list v; Ok (PList l) | [] => Ok (PList []) | _ => Unsupported "list()" end
  else if String.eqb name "set" then
    match args with
    | [v] => do l <- iter_list v; do d <- opt_res (dedup l []) "set()"; Ok (PSet d)
    | [] => Ok (PSet [])
    | _ => Unsupported "set()"
    end
  else if String.eqb name "range" then
    match args with
    | [v] => match as_int v with Some n => Ok (PList (range_list 0 n)) | None => Exc "TypeError" end
    | [a; b] => match as_int a, as_int b with
                | Some x, Some y => Ok (PList (range_list x y))
                | _, _ => Exc "TypeError" end
    | _ => Unsupported "range()"
    end
  else if String.eqb name "enumerate" then
    match args with
    | [v] => do l <- iter_list v;
             Ok (PList (map (fun kv => PTuple [PInt (Z.of_nat (fst kv)); snd kv]) (combine (seq 0 (List.length l)) l)))
    | _ => Unsupported "enumerate()"
    end
  else if String.eqb name "round" then
    match args with
    | [v] => match as_num v with
             | Some (n, e, _) => Ok (PInt (dy_round n e))
             | None => Exc "TypeError" end
    | _ => Unsupported "round()"
    end
  else if String.eqb name "float" then
    match args with
    | [PDy n e] => Ok (PDy n e)
    | [v] => match as_int v with
             | Some z => match float_of_int z with Some f => Ok f | None => Exc "OverflowError" end
             | None => Unsupported "float()" end
    | _ => Unsupported "float()"
    end
  else if String.eqb name "isinstance" then
    match args with
    | [v; PCls c] => do r <- opt_res (is_instance v c) "isinstance"; Ok (PBool r)
    | _ => Unsupported "isinstance()"
    end
  else if String.eqb name "struct.pack" then struct_pack args
  else if String.eqb name "struct.unpack" then struct_unpack args
  else if String.eqb name "struct.calcsize" then struct_calcsize args
  else if String.eqb name "copy.deepcopy" then
    (* values are immutable trees: a deep copy is the value itself *)
    match args with [v] => Ok v | _ => Exc "TypeError" end
  else if String.eqb name "crcmod.predefined.mkCrcFun" then
    match args with
    | [PStr n] => match lookup n (p_crcs P) with Some _ => Ok (PCrc n) | None => Unsupported "crc name" end
    | _ => Unsupported "mkCrcFun()"
    end
  else Unsupported ("builtin " ++ name).

(** methods of builtin values: returns (result, receiver afterwards) *)
Definition code_points_string (l : list N) : option string :=
  (* only code points below 256 are representable in a Coq string; others fail closed *)
  if forallb (fun c => N.ltb c 128) l
  then Some (string_of_list_ascii (map (fun c => ascii_of_N c) l)) else None.

Definition value_method (r : pv) (m : string) (args : list pv) (kws : list (string * pv)) : res (pv * pv) :=
  match r with
  | PBytes l =>
      if String.eqb m "find" then
        match args with
        | [PBytes [b]] => Ok (PInt (match find_byte b l with Some i => Z.of_nat i | None => -1 end), r)
        | _ => Unsupported "bytes.find"
        end
      else if String.eqb m "decode" then
        match args with
        | [] =>
            match utf8_dec l with
            | Some _ => Ok (PStr (bytes_str l), r)
            | None =>
                match lookup "errors" kws with
                | None => Exc "UnicodeDecodeError"
                | Some _ => Unsupported "lossy decode"
                end
            end
        | _ => Unsupported "bytes.decode"
        end
      else Unsupported ("bytes." ++ m)
  | PStr t =>
      if String.eqb m "split" then
        match args with
        | [PStr sep] =>
            match str_bytes sep with
            | [c] =>
                let fix go (cur : bytes) (l : bytes) : list pv :=
                  match l with
                  | [] => [PStr (bytes_str (rev cur))]
                  | b :: rest => if N.eqb b c then PStr (bytes_str (rev cur)) :: go [] rest else go (b :: cur) rest
                  end in
                Ok (PList (go [] (str_bytes t)), r)
            | _ => Unsupported "str.split separator"
            end
        | _ => Unsupported "str.split"
        end
      else if String.eqb m "encode" then
        match args with [] => Ok (PBytes (str_bytes t), r) | _ => Unsupported "str.encode" end
      else Unsupported ("str." ++ m)
  | PDict l =>
      if String.eqb m "get" then
        match args with
        | [k] =>
            (fix go (l : list (pv * pv)) : res (pv * pv) :=
               match l with
               | [] => Ok (PNone, r)
               | (k', v) :: rest =>
                   match py_eq k k' with
                   | Some true => Ok (v, r)
                   | Some false => go rest
                   | None => Unsupported "dict key"
                   end
               end) l
        | _ => Unsupported "dict.get"
        end
      else Unsupported ("dict." ++ m)
  | PList l =>
      if String.eqb m "append" then
        match args with [v] => Ok (PNone, PList (l ++ [v])) | _ => Exc "TypeError" end
      else Unsupported ("list." ++ m)
  | _ => Unsupported ("method " ++ m)
  end.

(** dict literal / insertion: a key that is already there keeps its place and gets the new value *)
Fixpoint dict_set (l : list (pv * pv)) (k v : pv) : option (list (pv * pv)) :=
  match l with
  | [] => Some [(k, v)]
  | (k', v') :: r =>
      match py_eq k k' with
      | Some true => Some ((k', v) :: r)
      | Some false => option_map (cons (k', v')) (dict_set r k v)
      | None => None
      end
  end.

Fixpoint unzip_pairs (l : list pv) : option (list (pv * pv)) :=
  match l with
  | [] => Some []
  | k :: v :: r => option_map (cons (k, v)) (unzip_pairs r)
  | _ => None
  end.

Fixpoint dict_build (ps acc : list (pv * pv)) : option (list (pv * pv)) :=
  match ps with
  | [] => Some acc
  | (k, v) :: r => match dict_set acc k v with Some a => dict_build r a | None => None end
  end.

(** * Classes *)
Definition mro_depth : nat := 6.
Fixpoint find_class (cs : list class) (n : string) : option class :=
  match cs with
  | [] => None
  | c :: r => if String.eqb (c_name c) n then Some c else find_class r n
  end.

Fixpoint find_func (fs : list func) (n : string) : option func :=
  match fs with
  | [] => None
  | f :: r => if String.eqb (f_name f) n then Some f else find_func r n
  end.

(** method resolution: the class, then its bases left to right, depth bounded *)
Fixpoint find_method (P : prog) (depth : nat) (cls m : string) : option func :=
  match depth with
  | O => None
  | S d =>
      match find_class (p_classes P) cls with
      | None => None
      | Some c =>
          match find_func (c_methods c) m with
          | Some f => Some f
          | None =>
              (fix go (bs : list string) : option func :=
                 match bs with
                 | [] => None
                 | b :: r => match find_method P d b m with Some f => Some f | None => go r end
                 end) (c_bases c)
          end
      end
  end.

Fixpoint find_const (P : prog) (depth : nat) (cls a : string) : option expr :=
  match depth with
  | O => None
  | S d =>
      match find_class (p_classes P) cls with
      | None => None
      | Some c =>
          match lookup a (c_consts c) with
          | Some e => Some e
          | None =>
              (fix go (bs : list string) : option expr :=
                 match bs with
                 | [] => None
                 | b :: r => match find_const P d b a with Some e => Some e | None => go r end
                 end) (c_bases c)
          end
      end
  end.

(** ADDITIVE (pl15): what [callable(v)] answers.  An instance is callable iff its class (or a base)
    defines __call__; functions, builtins / bound methods, classes, CRC functions are; data values are not. *)
Definition py_callable (P : prog) (v : pv) : bool :=
  match v with
  | PObj c _ => match find_method P mro_depth c "__call__" with Some _ => true | None => false end
  | PFunc _ | PBuiltin _ | PCls _ | PCrc _ => true
  | _ => false
  end.

Fixpoint enum_by_value (ms : list (string * Z)) (z : Z) : option string :=
  match ms with
  | [] => None
  | (n, v) :: r => if v =? z then Some n else enum_by_value r z
  end.

(** l-value paths: names, attribute chains, list elements.  A property whose
    body is exactly [return self.<field>] is an alias of that field. *)
Definition prop_alias (f : func) : option string :=
  if f_prop f then
    match f_body f with
    | Scons (SReturn (OSome (EAttr (EName "self") fld))) Snil => Some fld
    | _ => None
    end
  else None.

Definition field_name (P : prog) (cls : string) (fs : list (string * pv)) (a : string) : option string :=
  match lookup a fs with
  | Some _ => Some a
  | None =>
      match find_method P mro_depth cls a with
      | Some f => match prop_alias f with
                  | Some fld => match lookup fld fs with Some _ => Some fld | None => None end
                  | None => None end
      | None => None
      end
  end.

Definition idx_val (e : env) (i : expr) : option Z :=
  match i with
  | EConst v => as_int v
  | EName x => match lookup x e with Some v => as_int v | None => None end
  | _ => None
  end.

Fixpoint list_set {A} (l : list A) (k : nat) (v : A) : list A :=
  match l, k with
  | [], _ => []
  | _ :: r, O => v :: r
  | x :: r, S k' => x :: list_set r k' v
  end.

Fixpoint path_get (P : prog) (e : env) (p : expr) : option pv :=
  match p with
  | EName x => lookup x e
  | EAttr q a =>
      match path_get P e q with
      | Some (PObj c fs) => match field_name P c fs a with Some f => lookup f fs | None => None end
      | _ => None
      end
  | EIndex q i =>
      (* pl14, additive: the index may also be an attribute chain ([samples[data.chan]]), read as a path *)
      match path_get P e q, (match i with
                             | EAttr _ _ => match path_get P e i with Some v => as_int v | None => None end
                             | _ => idx_val e i
                             end) with
      | Some (PList l), Some z => match norm_index (List.length l) z with
                                  | Some k => nth_error l k | None => None end
      | _, _ => None
      end
  | _ => None
  end.

Fixpoint path_set (P : prog) (e : env) (p : expr) (v : pv) : option env :=
  match p with
  | EName x => Some (update x v e)
  | EAttr q a =>
      match path_get P e q with
      | Some (PObj c fs) =>
          let f := match field_name P c fs a with Some f => f | None => a end in
          path_set P e q (PObj c (update f v fs))
      | _ => None
      end
  | EIndex q i =>
      match path_get P e q, (match i with
                             | EAttr _ _ => match path_get P e i with Some v => as_int v | None => None end
                             | _ => idx_val e i
                             end) with
      | Some (PList l), Some z => match norm_index (List.length l) z with
                                  | Some k => path_set P e q (PList (list_set l k v)) | None => None end
      | _, _ => None
      end
  | _ => None
  end.

(** write the receiver back only where it is such a path *)
Definition write_back (P : prog) (e : env) (p : expr) (v : pv) : env :=
  match path_get P e p with
  | Some _ => match path_set P e p v with Some e' => e' | None => e end
  | None => e
  end.

(** * The interpreter *)
Inductive out :=
  | ONorm (e : env)
  | ORet (v : pv) (e : env)
  | OBrk (e : env)
  | OCont (e : env).

(** bind the actual arguments to the parameter list; defaults are evaluated by [evald] *)
Fixpoint bind_params (evald : expr -> res pv) (ps : list (string * option expr))
         (args : list pv) (kws : list (string * pv)) : res env :=
  match ps with
  | [] => match args with [] => Ok [] | _ => Exc "TypeError" end
  | (x, d) :: r =>
      match args with
      | a :: ar => do e <- bind_params evald r ar kws; Ok ((x, a) :: e)
      | [] =>
          match lookup x kws with
          | Some v => do e <- bind_params evald r [] kws; Ok ((x, v) :: e)
          | None =>
              match d with
              | Some de => do v <- evald de; do e <- bind_params evald r [] kws; Ok ((x, v) :: e)
              | None => Exc "TypeError"
              end
          end
      end
  end.

Definition exc_matches (handler raised : string) : bool :=
  String.eqb handler raised || String.eqb handler "Exception".

Section Interp.
  Variable P : prog.

  (** [callf f args kws] runs a function of the program at one less fuel *)
  Variable callf : func -> list pv -> list (string * pv) -> res (pv * option pv).

  (** attribute read; a property runs its getter *)
  Definition get_attr (v : pv) (a : string) : res pv :=
    match v with
    | PObj c fs =>
        match lookup a fs with
        | Some x => Ok x
        | None =>
            match find_method P mro_depth c a with
            | Some f => if f_prop f then do r <- callf f [v] []; Ok (fst r)
                        else Ok (PBuiltin ("$bound " ++ a))   (* a bound method as a value: may be stored, not called *)
            | None =>
                match find_const P mro_depth c a with
                | Some (EConst k) => Ok k
                | _ => Exc "AttributeError"
                end
            end
        end
    | PCls c =>
        match find_class (p_classes P) c with
        | None => Unsupported "class attribute"
        | Some cl =>
            match c_enum cl with
            | Some (isint, ms) =>
                match lookup a ms with
                | Some z => Ok (PEnum c a z isint)
                | None => Exc "AttributeError"
                end
            | None =>
                match find_const P mro_depth c a with
                | Some (EConst k) => Ok k
                | _ => Exc "AttributeError"
                end
            end
        end
    | PEnum c n z _ =>
        if String.eqb a "value" then Ok (PInt z)
        else if String.eqb a "name" then Ok (PStr n)
        else Exc "AttributeError"
    | PMod m =>
        if String.eqb m "crcmod" && String.eqb a "predefined" then Ok (PMod "crcmod.predefined")
        else if String.eqb m "struct" && String.eqb a "error" then Ok (PCls "struct.error")
        else Ok (PBuiltin (m ++ "." ++ a))
    | _ => Unsupported ("attribute " ++ a)
    end.

  (** calling a value; returns the result and, for a method, the receiver afterwards *)
  Definition call_value (fv : pv) (args : list pv) (kws : list (string * pv)) : res pv :=
    match fv with
    | PBuiltin n =>
        if String.eqb n "getattr" then
          match args with
          | [v; PStr a] => get_attr v a
          | _ => Unsupported "getattr()"
          end
        else if String.eqb n "callable" then
          (* ADDITIVE (pl15): callable(v).  An instance is callable iff its class (or a base) defines
             __call__; functions, builtins, classes, CRC functions are; data values are not. *)
          match args with
          | [v] => Ok (PBool (py_callable P v))
          | _ => Exc "TypeError"
          end
        else call_builtin P n args
    | PFunc n =>
        match find_func (p_funcs P) n with
        | Some f => do r <- callf f args kws; Ok (fst r)
        | None => Unsupported "function"
        end
    | PCrc n =>
        match lookup n (p_crcs P), args with
        | Some cp, [PBytes b] => Ok (PInt (Z.of_N (crc_gen cp b)))
        | _, _ => Unsupported "crc call"
        end
    | PCls c =>
        if existsb (String.eqb c) builtin_types then call_builtin P c args else
        match find_class (p_classes P) c with
        | None => Unsupported "class"
        | Some cl =>
            match c_enum cl with
            | Some (isint, ms) =>
                match args with
                | [v] => match as_int v with
                         | Some z => match enum_by_value ms z with
                                     | Some n => Ok (PEnum c n z isint)
                                     | None => Exc "ValueError" end
                         | None => Exc "ValueError" end
                | _ => Exc "TypeError"
                end
            | None =>
                match c_fields cl with
                | Some fds =>
                    (* dataclass: the generated __init__ *)
                    do e <- bind_params (fun d => match d with
                                                  | EConst v => Ok v
                                                  | ETuple Enil => Ok (PTuple [])
                                                  | EAttr (EName ec) en =>
                                                      match find_class (p_classes P) ec with
                                                      | Some ecl => match c_enum ecl with
                                                                    | Some (isint, ms) =>
                                                                        match lookup en ms with
                                                                        | Some z => Ok (PEnum ec en z isint)
                                                                        | None => Unsupported "default" end
                                                                    | None => Unsupported "default" end
                                                      | None => Unsupported "default" end
                                                  | _ => Unsupported "default"
                                                  end) fds args kws;
                    Ok (PObj c e)
                | None =>
                    match find_method P mro_depth c "__init__" with
                    | Some f =>
                        do r <- callf f (PObj c [] :: args) kws;
                        match snd r with Some s => Ok s | None => Unsupported "__init__" end
                    | None => match args with [] => Ok (PObj c []) | _ => Exc "TypeError" end
                    end
                end
            end
        end
    | _ => Exc "TypeError"
    end.

  Definition resolve_name (e : env) (x : string) : res pv :=
    match lookup x e with
    | Some v => Ok v
    | None =>
        match find_class (p_classes P) x with
        | Some _ => Ok (PCls x)
        | None =>
            match find_func (p_funcs P) x with
            | Some _ => Ok (PFunc x)
            | None =>
                match lookup x (p_consts P) with
                | Some (EConst k) => Ok k
                | Some _ => Unsupported "module constant"
                | None =>
                    if existsb (String.eqb x) builtin_types then Ok (PCls x)
                    else if existsb (String.eqb x) builtin_names then Ok (PBuiltin x)
                    else if existsb (String.eqb x) module_names then Ok (PMod x)
                    else Exc "NameError"
                end
            end
        end
    end.

  (** method call on a value: (result, receiver afterwards) *)
  Definition call_method_value (r : pv) (m : string) (args : list pv) (kws : list (string * pv))
    : res (pv * pv) :=
    match r with
    | PObj c fs =>
        match lookup m fs with
        | Some fv =>
            (* ADDITIVE (pl15): the field holds an INSTANCE whose class defines __call__ (before: TypeError).
               [recv.m(args)] runs __call__ with that instance as its receiver and stores the instance it
               leaves behind back into the field [m] of [recv] (Python on an alias-free object graph: the
               callable is reachable through this field only); a raise reports the receiver likewise. *)
            match fv with
            | PObj c' _ =>
                match find_method P mro_depth c' "__call__" with
                | Some f =>
                    match callf f (fv :: args) kws with
                    | Ok x => Ok (fst x, PObj c (update m (match snd x with Some s => s | None => fv end) fs))
                    | Exc e => Exc e
                    | ExcS e ((_, fv') :: nil) => ExcS e [("$self", PObj c (update m fv' fs))]
                    | ExcS e st => ExcS e []
                    | Fuel => Fuel
                    | Unsupported w => Unsupported w
                    end
                | None => do x <- strip (call_value fv args kws); Ok (x, r)
                end
            | _ => do x <- strip (call_value fv args kws); Ok (x, r)   (* a callable kept in a field: its state is not ours *)
            end
        | None =>
            match find_method P mro_depth c m with
            | Some f =>
                match callf f (r :: args) kws with
                | Ok x => Ok (fst x, match snd x with Some s => s | None => r end)
                | Exc c => Exc c
                | ExcS c st => ExcS c st      (* [("$self", receiver at the raise)] from [call_func] *)
                | Fuel => Fuel
                | Unsupported w => Unsupported w
                end
            | None => Exc "AttributeError"
            end
        end
    | PMod _ | PCls _ => do fv <- strip (get_attr r m); do x <- strip (call_value fv args kws); Ok (x, r)
    | _ => value_method r m args kws
    end.

  Fixpoint eval (e : env) (x : expr) {struct x} : res (pv * env) :=
    match x with
    | EConst v => Ok (v, e)
    | EName n => do v <- attach e (resolve_name e n); Ok (v, e)
    | EAttr q a => do (v, e1) <- eval e q; do r <- attach e1 (get_attr v a); Ok (r, e1)
    | ECall f args kws =>
        match f with
        | EAttr recv m =>
            do (r, e1) <- eval e recv;
            do (vs, e2) <- eval_list e1 args;
            do (ks, e3) <- eval_kws e2 kws;
            match call_method_value r m vs ks with
            | Ok (x, r') => Ok (x, write_back P e3 recv r')
            | ExcS c ((_, r') :: nil) => ExcS c (write_back P e3 recv r')   (* the callee changed its receiver, then raised *)
            | ExcS c _ | Exc c => ExcS c e3
            | Fuel => Fuel
            | Unsupported w => Unsupported w
            end
        | _ =>
            do (fv, e1) <- eval e f;
            do (vs, e2) <- eval_list e1 args;
            do (ks, e3) <- eval_kws e2 kws;
            do x <- attach e3 (call_value fv vs ks);
            Ok (x, e3)
        end
    | EBin op a b =>
        do (va, e1) <- eval e a; do (vb, e2) <- eval e1 b;
        do r <- attach e2 (py_binop op va vb); Ok (r, e2)
    | ENot a => do (va, e1) <- eval e a; Ok (PBool (negb (truthy va)), e1)
    | ENeg a => do (va, e1) <- eval e a;
        match as_int va with Some z => Ok (PInt (- z), e1) | None => Unsupported "negation" end
    | EAnd a b => do (va, e1) <- eval e a; if truthy va then eval e1 b else Ok (va, e1)
    | EOr a b => do (va, e1) <- eval e a; if truthy va then Ok (va, e1) else eval e1 b
    | ECmp a cs => do (va, e1) <- eval e a; eval_cmps e1 va cs
    | EIndex q i => do (v, e1) <- eval e q; do (vi, e2) <- eval e1 i; do r <- attach e2 (py_index v vi); Ok (r, e2)
    | ESlice q lo hi =>
        do (v, e1) <- eval e q;
        do (l, e2) <- eval_opt e1 lo;
        do (h, e3) <- eval_opt e2 hi;
        do r <- attach e3 (py_slice v l h); Ok (r, e3)
    | ETuple es => do (vs, e1) <- eval_list e es; Ok (PTuple vs, e1)
    | EList es => do (vs, e1) <- eval_list e es; Ok (PList vs, e1)
    | EIf c a b => do (vc, e1) <- eval e c; if truthy vc then eval e1 a else eval e1 b
    | EFStr ps =>
        do (vs, e1) <- eval_list e ps;
        do ss <- opt_res (map_opt py_str vs) "f-string";
        Ok (PStr (String.concat "" ss), e1)
    | EComp k elt n it =>
        do (vi, e1) <- eval e it;
        do l <- iter_list vi;
        (* the comprehension variable lives in its own scope *)
        do vs <- attach e1 ((fix go (l : list pv) : res (list pv) :=
                    match l with
                    | [] => Ok []
                    | y :: r => do (v, _) <- eval ((n, y) :: e1) elt; do t <- go r; Ok (v :: t)
                    end) l);
        Ok (match k with KTuple => PTuple vs | KList => PList vs end, e1)
    | EDict items vs =>
        (* [items] = k1; v1; k2; v2; ... in source order: CPython (3.8 and later) evaluates key, value,
           key, value, ...; the second component is always [Enil] (the translator emits nothing else) *)
        match vs with
        | Enil =>
            do (l, e1) <- eval_list e items;
            match unzip_pairs l with
            | Some ps => match dict_build ps [] with
                         | Some d => Ok (PDict d, e1)
                         | None => Unsupported "dict key"
                         end
            | None => Unsupported "dict literal"
            end
        | Econs _ _ => Unsupported "dict literal"
        end
    | EStar _ => Unsupported "starred expression"
    end
  with eval_list (e : env) (xs : exprs) {struct xs} : res (list pv * env) :=
    match xs with
    | Enil => Ok ([], e)
    | Econs (EStar x) r =>
        do (v, e1) <- eval e x; do l <- iter_list v; do (vs, e2) <- eval_list e1 r; Ok (l ++ vs, e2)
    | Econs x r => do (v, e1) <- eval e x; do (vs, e2) <- eval_list e1 r; Ok (v :: vs, e2)
    end
  with eval_kws (e : env) (ks : kwargs) {struct ks} : res (list (string * pv) * env) :=
    match ks with
    | Knil => Ok ([], e)
    | Kcons k x r => do (v, e1) <- eval e x; do (vs, e2) <- eval_kws e1 r; Ok ((k, v) :: vs, e2)
    end
  with eval_cmps (e : env) (left : pv) (cs : cmps) {struct cs} : res (pv * env) :=
    match cs with
    | Cnil => Ok (PBool true, e)
    | Ccons op x r =>
        do (v, e1) <- eval e x;
        do b <- attach e1 (py_cmp op left v);
        if b then eval_cmps e1 v r else Ok (PBool false, e1)
    end
  with eval_opt (e : env) (o : oexpr) {struct o} : res (option Z * env) :=
    match o with
    | ONone => Ok (None, e)
    | OSome x =>
        do (v, e1) <- eval e x;
        match v with
        | PNone => Ok (None, e1)
        | _ => match as_int v with Some z => Ok (Some z, e1) | None => ExcS "TypeError" e1 end
        end
    end.

  Definition assign_attr (e : env) (q : expr) (a : string) (v : pv) : res env :=
    match path_get P e q with
    | Some (PObj c fs) =>
        match find_method P mro_depth c "__setattr__" with
        | Some f =>
            do r <- callf f [PObj c fs; PStr a; v] [];
            match snd r with
            | Some s => match path_set P e q s with Some e' => Ok e' | None => Unsupported "assignment target" end
            | None => Unsupported "__setattr__"
            end
        | None =>
            match lookup a fs, find_method P mro_depth c (a ++ "$setter") with
            | None, Some f =>
                (* a property with a setter *)
                do r <- callf f [PObj c fs; v] [];
                match snd r with
                | Some s => match path_set P e q s with Some e' => Ok e' | None => Unsupported "assignment target" end
                | None => Unsupported "property setter"
                end
            | _, _ =>
                match path_set P e (EAttr q a) v with
                | Some e' => Ok e'
                | None => Unsupported "assignment target"
                end
            end
        end
    | _ => Unsupported "assignment target"
    end.

  Definition assign (e : env) (t : target) (v : pv) : res env :=
    match t with
    | TName x => Ok (update x v e)
    | TAttr q a => assign_attr e q a v
    | TDyn q k =>
        match k with
        | EName x => match lookup x e with
                     | Some (PStr a) => assign_attr e q a v
                     | _ => Unsupported "setattr name" end
        | EConst (PStr a) => assign_attr e q a v
        | _ => Unsupported "setattr name"
        end
    | TNames xs =>
        do l <- iter_list v;
        if negb (Nat.eqb (List.length l) (List.length xs)) then Exc "ValueError" else
        Ok (fold_left (fun acc xv => update (fst xv) (snd xv) acc) (combine xs l) e)
    | TIndex q i =>
        match path_get P e q, idx_val e i with
        | Some (PList l), Some z =>
            match norm_index (List.length l) z with
            | Some _ => match path_set P e (EIndex q i) v with Some e' => Ok e' | None => Unsupported "item target" end
            | None => Exc "IndexError"
            end
        | _, _ => Unsupported "item target"
        end
    | TRaw q k =>
        match idx_val e k, k with
        | _, EName x =>
            match lookup x e, path_get P e q with
            | Some (PStr a), Some (PObj c fs) =>
                match path_set P e q (PObj c (update a v fs)) with Some e' => Ok e' | None => Unsupported "raw target" end
            | _, _ => Unsupported "raw target"
            end
        | _, _ => Unsupported "raw target"
        end
    end.

  Definition target_expr (t : target) : option expr :=
    match t with
    | TName x => Some (EName x)
    | TAttr q a => Some (EAttr q a)
    | TIndex q i => Some (EIndex q i)
    | TNames _ | TRaw _ _ | TDyn _ _ => None
    end.

  (** statements; [loopfuel] bounds the iterations of each while loop *)
  Variable loopfuel : nat.

  Fixpoint exec (e : env) (s : stmt) {struct s} : res out :=
    match s with
    | SAssign t x => do (v, e1) <- eval e x; do e2 <- attach e1 (assign e1 t v); Ok (ONorm e2)
    | SAug t op x =>
        match target_expr t with
        | None => Unsupported "augmented target"
        | Some tx =>
            do (old, e1) <- eval e tx;
            do (v, e2) <- eval e1 x;
            do r <- attach e2 (py_binop op old v);
            do e3 <- attach e2 (assign e2 t r); Ok (ONorm e3)
        end
    | SExpr x => do (_, e1) <- eval e x; Ok (ONorm e1)
    | SIf c a b => do (vc, e1) <- eval e c; if truthy vc then exec_block e1 a else exec_block e1 b
    | SWhile c b =>
        (fix loop (k : nat) (e : env) : res out :=
           match k with
           | O => Fuel
           | S k' =>
               do (vc, e1) <- eval e c;
               if truthy vc then
                 do o <- exec_block e1 b;
                 match o with
                 | ONorm e2 | OCont e2 => loop k' e2
                 | OBrk e2 => Ok (ONorm e2)
                 | ORet v e2 => Ok (ORet v e2)
                 end
               else Ok (ONorm e1)
           end) loopfuel e
    | SFor t it b =>
        do (vi, e1) <- eval e it;
        do l <- iter_list vi;
        (fix loop (l : list pv) (e : env) : res out :=
           match l with
           | [] => Ok (ONorm e)
           | y :: r =>
               do e1 <- attach e (assign e t y);
               do o <- exec_block e1 b;
               match o with
               | ONorm e2 | OCont e2 => loop r e2
               | OBrk e2 => Ok (ONorm e2)
               | ORet v e2 => Ok (ORet v e2)
               end
           end) l e1
    | SForWB x it b =>
        do (vi, e1) <- eval e it;
        match vi with
        | PList l0 =>
            (fix loop (k : nat) (l : list pv) (e : env) : res out :=
               match l with
               | [] => Ok (ONorm e)
               | y :: r =>
                   (* the element the loop variable stands for gets the variable's final value *)
                   let wb (e2 : env) : res env :=
                     match lookup x e2 with
                     | Some v =>
                         match path_set P e2 (EIndex it (EConst (PInt (Z.of_nat k)))) v with
                         | Some e3 => Ok e3
                         | None => Unsupported "for write-back target"
                         end
                     | None => Unsupported "for write-back variable"
                     end in
                   match exec_block (update x y e) b with
                   | Ok (ONorm e2) | Ok (OCont e2) => do e3 <- wb e2; loop (S k) r e3
                   | Ok (OBrk e2) => do e3 <- wb e2; Ok (ONorm e3)
                   | Ok (ORet v e2) => do e3 <- wb e2; Ok (ORet v e3)
                   | ExcS c e2 => do e3 <- wb e2; ExcS c e3   (* mutated, then raised *)
                   | r' => r'
                   end
               end) O l0 e1
        | _ => Unsupported "for write-back over a value that is not a list"
        end
    | SReturn o =>
        match o with
        | ONone => Ok (ORet PNone e)
        | OSome x => do (v, e1) <- eval e x; Ok (ORet v e1)
        end
    | SRaise x =>
        match x with
        | ECall (EName c) _ _ => ExcS c e
        | EName c =>
            if String.eqb c "$reraise" then
              (* a bare [raise] inside a handler: the exception being handled *)
              match lookup "$exc" e with
              | Some (PStr c') => ExcS c' e
              | _ => Exc "RuntimeError"
              end
            else ExcS c e
        | _ => Unsupported "raise"
        end
    | SAssert x => do (v, e1) <- eval e x; if truthy v then Ok (ONorm e1) else ExcS "AssertionError" e1
    | STry b hs =>
        match exec_block e b with
        | Exc c => exec_handlers e c hs
        | ExcS c e' => exec_handlers e' c hs     (* the handler sees what the body did before the raise *)
        | r => r
        end
    | SPass => Ok (ONorm e)
    | SBreak => Ok (OBrk e)
    | SContinue => Ok (OCont e)
    end
  with exec_block (e : env) (ss : stmts) {struct ss} : res out :=
    match ss with
    | Snil => Ok (ONorm e)
    | Scons s r =>
        do o <- exec e s;
        match o with
        | ONorm e1 => exec_block e1 r
        | _ => Ok o
        end
    end
  with exec_handlers (e : env) (c : string) (hs : handlers) {struct hs} : res out :=
    match hs with
    | Hnil => ExcS c e
    | Hcons h b r =>
        (* the handler body knows which exception it handles (for a bare [raise]) *)
        if exc_matches h c then exec_block (update "$exc" (PStr c) e) b else exec_handlers e c r
    end.

End Interp.

(** run a function: result and the final value of its first parameter *)
(** what a raise tells the caller about the callee: the receiver at that point *)
Definition self_state (f : func) (e : env) : list (string * pv) :=
  match f_params f with
  | (x, _) :: _ => match lookup x e with Some v => [("$self", v)] | None => [] end
  | [] => []
  end.

Fixpoint call_func (P : prog) (n : nat) (f : func) (args : list pv) (kws : list (string * pv))
  : res (pv * option pv) :=
  match n with
  | O => Fuel
  | S n' =>
      let callf := call_func P n' in
      do e <- strip (bind_params (fun d => do r <- eval P callf [] d; Ok (fst r)) (f_params f) args kws);
      let fin e' := match f_params f with (x, _) :: _ => lookup x e' | [] => None end in
      match exec_block P callf n' e (f_body f) with
      | Ok (ONorm e') => Ok (PNone, fin e')
      | Ok (ORet v e') => Ok (v, fin e')
      | Ok (OBrk _) | Ok (OCont _) => Unsupported "break outside loop"
      | Exc c => Exc c
      | ExcS c e' => ExcS c (self_state f e')
      | Fuel => Fuel
      | Unsupported w => Unsupported w
      end
  end.

(** entry points *)
Definition call_method (P : prog) (n : nat) (self : pv) (m : string) (args : list pv) : res (pv * pv) :=
  strip (call_method_value P (call_func P n) self m args []).

Definition construct (P : prog) (n : nat) (cls : string) (args : list pv) : res pv :=
  strip (call_value P (call_func P n) (PCls cls) args []).

Definition call_function (P : prog) (n : nat) (f : string) (args : list pv) : res pv :=
  strip (call_value P (call_func P n) (PFunc f) args []).

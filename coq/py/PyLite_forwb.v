(** The for-loop with write-back ([SForWB], py/PyLite.v), named, with its unfolding equations:
    [exec] on the statement is rewritten to [forwb_loop] before [cbn] can expose the anonymous
    [fix] (as py/PyLite_tactics.v does for [SFor] / [SWhile]). *)
From Coq Require Import String Ascii List ZArith NArith Bool.
From NX Require Import Bytes PyStruct Crc PyLite PyLite_tactics.
Import ListNotations.
Open Scope string_scope.
Open Scope list_scope.
Open Scope Z_scope.

(** the element the loop variable stands for gets the variable's final value *)
Definition forwb_wb (P : prog) (x : string) (it : expr) (k : nat) (e2 : env) : PyLite.res env :=
  match lookup x e2 with
  | Some v =>
      match path_set P e2 (EIndex it (EConst (PInt (Z.of_nat k)))) v with
      | Some e3 => PyLite.Ok e3
      | None => Unsupported "for write-back target"
      end
  | None => Unsupported "for write-back variable"
  end.

Definition forwb_loop (P : prog) (cf : func -> list pv -> list (string * pv) -> PyLite.res (pv * option pv))
         (lf : nat) (x : string) (it : expr) (b : stmts) : nat -> list pv -> env -> PyLite.res out :=
  fix loop (k : nat) (l : list pv) (e : env) : PyLite.res out :=
  match l with
  | [] => PyLite.Ok (ONorm e)
  | y :: r =>
      match exec_block P cf lf (update x y e) b with
      | PyLite.Ok (ONorm e2) | PyLite.Ok (OCont e2) => do e3 <- forwb_wb P x it k e2; loop (S k) r e3
      | PyLite.Ok (OBrk e2) => do e3 <- forwb_wb P x it k e2; PyLite.Ok (ONorm e3)
      | PyLite.Ok (ORet v e2) => do e3 <- forwb_wb P x it k e2; PyLite.Ok (ORet v e3)
      | ExcS c e2 => do e3 <- forwb_wb P x it k e2; ExcS c e3
      | r' => r'
      end
  end.

Lemma exec_SForWB P cf lf e x it b :
  exec P cf lf e (SForWB x it b) =
  do (vi, e1) <- eval P cf e it;
  match vi with
  | PList l0 => forwb_loop P cf lf x it b O l0 e1
  | _ => Unsupported "for write-back over a value that is not a list"
  end.
Proof. reflexivity. Qed.

Lemma forwb_loop_nil P cf lf x it b k e : forwb_loop P cf lf x it b k [] e = PyLite.Ok (ONorm e).
Proof. reflexivity. Qed.

Lemma forwb_loop_cons P cf lf x it b k y r e :
  forwb_loop P cf lf x it b k (y :: r) e =
  match exec_block P cf lf (update x y e) b with
  | PyLite.Ok (ONorm e2) | PyLite.Ok (OCont e2) =>
      do e3 <- forwb_wb P x it k e2; forwb_loop P cf lf x it b (S k) r e3
  | PyLite.Ok (OBrk e2) => do e3 <- forwb_wb P x it k e2; PyLite.Ok (ONorm e3)
  | PyLite.Ok (ORet v e2) => do e3 <- forwb_wb P x it k e2; PyLite.Ok (ORet v e3)
  | ExcS c e2 => do e3 <- forwb_wb P x it k e2; ExcS c e3
  | r' => r'
  end.
Proof. reflexivity. Qed.

#[global] Arguments forwb_loop : simpl never.
#[global] Arguments forwb_wb : simpl never.

(** a block that starts with the statement *)
Lemma exec_block_SForWB P cf lf e x it b r :
  exec_block P cf lf e (Scons (SForWB x it b) r) =
  do o <- (do (vi, e1) <- eval P cf e it;
           match vi with
           | PList l0 => forwb_loop P cf lf x it b O l0 e1
           | _ => Unsupported "for write-back over a value that is not a list"
           end);
  match o with ONorm e1 => exec_block P cf lf e1 r | _ => PyLite.Ok o end.
Proof. reflexivity. Qed.

(** an [if] whose branches are to stay blocks (the executor otherwise runs nested blocks by reduction,
    which would open the loop inside) *)
Lemma exec_SIf P cf lf e c a b :
  exec P cf lf e (SIf c a b) =
  do (vc, e1) <- eval P cf e c; if truthy vc then exec_block P cf lf e1 a else exec_block P cf lf e1 b.
Proof. reflexivity. Qed.

(** a plain loop ([SFor] with a name as target) and the loop with write-back agree when the body
    leaves the loop variable alone: the write-back then stores the element it read.  (Sanity of the
    extension; not used by the proofs.) *)
Lemma list_set_nth_error {A} (l : list A) k v : nth_error l k = Some v -> list_set l k v = l.
Proof.
  revert k. induction l as [|a l IH]; intros [|k] H; cbn in *; try discriminate.
  - inversion H. reflexivity.
  - rewrite (IH k H). reflexivity.
Qed.

(** Model of nxslib.proto.serialframe.SerialFrame (hand-written control flow
    over the regenerated constants of gen/Gen_frame.v) and of the device-side
    dispatcher ParseRecv.recv_handle.  Definitions only. *)
From Coq Require Import String.
From NX Require Export Bytes PyStruct Crc.
From NX Require Gen_frame.
Open Scope Z_scope.



(** constants derived from the generated ones *)
Definition crc_p : crc_params := mkCrc Gen_frame.crc_poly Gen_frame.crc_init Gen_frame.crc_rev Gen_frame.crc_xorout.
Definition crc16 (d : bytes) : N := crc_gen crc_p d.
Definition known_id (z : Z) : bool := existsb (fun p => snd p =? z) Gen_frame.parse_ids.
Definition hdr_len : Z := Gen_frame.hdr_end.
Definition foot_len : Z := Gen_frame.foot.
Definition sof_byte : N := Z.to_N Gen_frame.sof.

Inductive perr := EHDR | EFOOT.

(** result of a call that may also raise *)
Inductive res (A : Type) :=
  | Ok (a : A)
  | Err (e : perr)
  | Raise (what : string).
Arguments Ok {A}. Arguments Err {A}. Arguments Raise {A}.

(** hdr_find: data.find(bytes([SOF])) *)
Definition hdr_find (d : bytes) : Z :=
  match find_byte sof_byte d with
  | Some i => Z.of_nat i
  | None => -1
  end.

(** hdr_decode *)
Definition hdr_decode (d : bytes) : res (Z * Z) :=
  if zlen d <? hdr_len then Err EHDR else
  let d1 := slice_to d hdr_len in
  match parse_fmt Gen_frame.hdr_decode_fmt with
  | None => Raise "bad format"
  | Some f =>
      match unpack f (slice_to d1 Gen_frame.hdr_end) with
      | Some [VInt s; VInt flen; VInt id] =>
          if negb (s =? Gen_frame.sof) then Err EHDR
          else if negb (known_id id) then Err EHDR
          else Ok (id, flen)
      | _ => Raise "struct.error"
      end
  end.

Definition foot_validate (d : bytes) : bool :=
  (Z.of_N (crc16 d) =? Gen_frame.crc_residue).

(** frame_decode *)
Definition frame_decode (d : bytes) : res (Z * bytes) :=
  match hdr_decode d with
  | Raise w => Raise w
  | Err e => Err e
  | Ok (fid, flen) =>
      if (flen <? hdr_len + foot_len) || (zlen d <? flen) then Err EFOOT
      else if negb (foot_validate (slice_to d flen)) then Err EFOOT
      else Ok (fid, pyslice d Gen_frame.hdr_end (flen - Gen_frame.decode_foot_off))
  end.

(** frame_create (data = None and data = b"" give the same frame: both
    branches of the two `if data is not None` add nothing for b"") *)
Definition frame_create (fid : Z) (data : bytes) : res bytes :=
  if Gen_frame.create_fid_max <? fid then Raise "AssertionError" else
  let flen := Gen_frame.create_len_base + zlen data in
  match parse_fmt Gen_frame.create_hdr_fmt, parse_fmt Gen_frame.create_foot_fmt with
  | Some fh, Some ff =>
      match pack fh [VInt Gen_frame.sof; VInt flen; VInt fid] with
      | None => Raise "struct.error"
      | Some h =>
          let b := h ++ data in
          match pack ff [VInt (Z.of_N (crc16 b))] with
          | None => Raise "struct.error"
          | Some c => Ok (b ++ c)
          end
      end
  | _, _ => Raise "bad format"
  end.

(** * Device-side dispatcher: ParseRecv.recv_handle *)
Inductive request :=
  | RCmninfo | RChinfo | RStart | REnable | RDiv.

Inductive dispatch :=
  | DNone                              (* returned without calling anything *)
  | DCall (r : request) (payload : bytes)
  | DAssert.                           (* AssertionError *)

Definition id_of (name : string) : Z :=
  match find (fun p => String.eqb (fst p) name) Gen_frame.parse_ids with
  | Some p => snd p
  | None => -1
  end.

(** _recv_cb_handle with the payload-size assertions of the _recv_cb_* *)
Definition recv_cb_handle (fid : Z) (p : bytes) : dispatch :=
  if fid =? id_of "CMNINFO" then
    if (zlen p =? Gen_frame.cb_cmninfo_len) then DCall RCmninfo p else DAssert
  else if fid =? id_of "CHINFO" then
    if (zlen p =? Gen_frame.cb_chinfo_len) then DCall RChinfo p else DAssert
  else if fid =? id_of "START" then
    if (zlen p =? Gen_frame.cb_start_len) then DCall RStart p else DAssert
  else if fid =? id_of "ENABLE" then
    if negb (zlen p =? Gen_frame.cb_enable_nlen) then DCall REnable p else DAssert
  else if fid =? id_of "DIV" then
    if negb (zlen p =? Gen_frame.cb_div_nlen) then DCall RDiv p else DAssert
  else DAssert.

Definition recv_dispatch (d : bytes) : dispatch :=
  let i := hdr_find d in
  if i <? 0 then DNone else
  if (zlen d - i) <? (hdr_len + foot_len) then DNone else
  let d1 := slice_from d i in
  match hdr_decode d1 with
  | Raise _ => DAssert
  | Err _ => DNone
  | Ok (fid, flen) =>
      if flen <? hdr_len + foot_len then DNone
      else if zlen d1 <? flen then DNone
      else if negb (foot_validate (slice_to d1 flen)) then DNone
      else recv_cb_handle fid (pyslice d1 hdr_len (flen - foot_len))
  end.

(** Model of the two description records of nxslib.dev (DDeviceChannelData,
    DDeviceData): dataclass construction, __post_init__, __setattr__.
    A record is a finite map from attribute names to values. *)
From Coq Require Import String ZArith List Bool.
From NX Require Gen_misc.
Import ListNotations.
Open Scope string_scope.
Open Scope Z_scope.

Inductive pyval :=
  | PInt (z : Z)
  | PBool (b : bool)
  | PStr (s : string)
  | POther (tag : Z).          (* any other Python object *)

Definition store := list (string * pyval).

Fixpoint get (s : store) (name : string) : option pyval :=
  match s with
  | [] => None
  | (n, v) :: r => if String.eqb n name then Some v else get r name
  end.

(** self.__dict__[name] = value *)
Fixpoint put (s : store) (name : string) (v : pyval) : store :=
  match s with
  | [] => [(name, v)]
  | (n, x) :: r => if String.eqb n name then (n, v) :: r else (n, x) :: put r name v
  end.

(** self._initdone: instance attribute if present, else the class default False *)
Definition initdone (s : store) : bool :=
  match get s "_initdone" with
  | Some (PBool b) => b
  | _ => false
  end.

Inductive outcome := Done | TypeError.

(** DDeviceChannelData.__setattr__ *)
Definition chan_setattr (s : store) (name : string) (v : pyval) : store * outcome :=
  if initdone s then
    if negb (String.eqb name Gen_misc.chan_rw_a || String.eqb name Gen_misc.chan_rw_b)
    then (s, TypeError)
    else (put s name v, Done)
  else (put s name v, Done).

(** DDeviceData.__setattr__ *)
Definition dev_setattr (s : store) (name : string) (v : pyval) : store * outcome :=
  if initdone s then (s, TypeError) else (put s name v, Done).

Definition assign (sa : store -> string -> pyval -> store * outcome)
  (s : store) (name : string) (v : pyval) : store := fst (sa s name v).

Definition type_value (name : string) : Z :=
  match find (fun p => String.eqb (fst p) name) Gen_misc.channel_types with
  | Some p => snd p
  | None => -1
  end.

Definition flag_value (name : string) : Z :=
  match find (fun p => String.eqb (fst p) name) Gen_misc.device_flags with
  | Some p => snd p
  | None => 0
  end.

(** dataclass __init__ (field order of the source) + __post_init__ *)
Definition chan_new (chan typ vdim : Z) (name : string) (en : bool) (div mlen : Z) : store :=
  let a := assign chan_setattr in
  let s := a [] "chan" (PInt chan) in
  let s := a s "_type" (PInt typ) in
  let s := a s "vdim" (PInt vdim) in
  let s := a s "name" (PStr name) in
  let s := a s "en" (PBool en) in
  let s := a s "div" (PInt div) in
  let s := a s "mlen" (PInt mlen) in
  let s := a s "_initdone" (PBool false) in
  (* __post_init__ *)
  let dtype := Z.land typ Gen_misc.mask_dtype in
  let s := a s "dtype" (PInt dtype) in
  let s := a s "critical" (PBool (negb (Z.land typ Gen_misc.mask_critical =? 0))) in
  let s := a s "type_res" (PInt (Z.land typ Gen_misc.mask_res)) in
  let s := a s "is_valid" (PBool (negb (dtype =? type_value "UNDEF"))) in
  let s := a s "is_numerical"
             (PBool (negb (existsb (fun t => t =? dtype) Gen_misc.non_numerical))) in
  a s "_initdone" (PBool true).

Definition dev_new (chmax flags rxpadding : Z) : store :=
  let a := assign dev_setattr in
  let s := a [] "chmax" (PInt chmax) in
  let s := a s "flags" (PInt flags) in
  let s := a s "rxpadding" (PInt rxpadding) in
  let s := a s "_initdone" (PBool false) in
  let s := a s "div_supported"
             (PBool (negb (Z.land flags (flag_value "DIVIDER_SUPPORT") =? 0))) in
  let s := a s "ack_supported"
             (PBool (negb (Z.land flags (flag_value "ACK_SUPPORT") =? 0))) in
  a s "_initdone" (PBool true).

(** Model of the simulated device's request handling (intf/dummy.py callbacks
    behind ParseRecv.recv_handle) and of its sampling loop. *)
From Coq Require Import String.
From NX Require Export Info.
Open Scope string_scope.
Open Scope list_scope.
Open Scope Z_scope.

Record ddev := mkDD
  { dd_chans : list chan_cfg; dd_flags : Z; dd_rxpad : Z; dd_streaming : bool }.

Definition dd_ack (d : ddev) : bool := Z.odd (dd_flags d / 2).

Definition acks (d : ddev) : res (list bytes) :=
  if dd_ack d then bind (frame_ack_encode 0) (fun f => Ok [f]) else Ok [].

Definition set_en (c : chan_cfg) (v : bool) : chan_cfg :=
  mkChan v (c_type c) (c_vdim c) (c_div c) (c_mlen c) (c_name c).
Definition set_div (c : chan_cfg) (v : Z) : chan_cfg :=
  mkChan (c_en c) (c_type c) (c_vdim c) v (c_mlen c) (c_name c).

Fixpoint zip_with {A B} (f : A -> B -> A) (l : list A) (m : list B) : list A :=
  match l, m with
  | a :: r, b :: s => f a b :: zip_with f r s
  | _, _ => l
  end.

(** one buffer handed to the device-side receiver: new state and the frames queued for read() *)
Definition dummy_handle (d : ddev) (data : bytes) : res (ddev * list bytes) :=
  match recv_dispatch data with
  | DNone => Ok (d, [])
  | DAssert => Raise "AssertionError"
  | DCall RCmninfo _ =>
      bind (frame_cmninfo_encode (zlen (dd_chans d)) (dd_flags d) (dd_rxpad d)) (fun f => Ok (d, [f]))
  | DCall RChinfo p =>
      match p with
      | k :: _ => match nth_error (dd_chans d) (N.to_nat k) with
                  | Some c => bind (frame_chinfo_encode c) (fun f => Ok (d, [f]))
                  | None => Raise "AssertionError"
                  end
      | [] => Raise "IndexError"
      end
  | DCall REnable p =>
      bind (frame_enable_decode p (map c_en (dd_chans d)))
        (fun l => bind (acks d)
           (fun a => Ok (mkDD (zip_with set_en (dd_chans d) l) (dd_flags d) (dd_rxpad d) (dd_streaming d), a)))
  | DCall RDiv p =>
      bind (frame_div_decode p (map c_div (dd_chans d)))
        (fun l => bind (acks d)
           (fun a => Ok (mkDD (zip_with set_div (dd_chans d) l) (dd_flags d) (dd_rxpad d) (dd_streaming d), a)))
  | DCall RStart p =>
      bind (frame_start_decode p)
        (fun b => bind (acks d)
           (fun a => Ok (mkDD (dd_chans d) (dd_flags d) (dd_rxpad d) b, a)))
  end.

(** * sampling: every channel has a generator; one round takes one sample from
    every enabled channel, in channel order (_stream_data_get) *)
Fixpoint round (en : list bool) (gens : list nat) (ch : nat) : list (nat * nat) * list nat :=
  match en, gens with
  | e :: er, g :: gr =>
      let '(ss, gs) := round er gr (S ch) in
      if e then ((ch, S g) :: ss, S g :: gs) else (ss, g :: gs)
  | _, _ => ([], gens)
  end.

Fixpoint rounds (n : nat) (en : list bool) (gens : list nat) : list (nat * nat) * list nat :=
  match n with
  | O => ([], gens)
  | S n' => let '(s1, g1) := round en gens 0 in
            let '(s2, g2) := rounds n' en g1 in (s1 ++ s2, g2)
  end.

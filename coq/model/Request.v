(** Model of the client request builders (proto/parse.py) and the device-side
    request decoders (proto/parserecv.py).  Control flow hand-written, format
    strings and flag values regenerated (gen/Gen_req.v). *)
From Coq Require Import String.
From NX Require Export Frame.
From NX Require Gen_req.
Open Scope string_scope.
Open Scope list_scope.
Open Scope Z_scope.

Definition set_flag (name : string) : Z :=
  match find (fun p => String.eqb (fst p) name) Gen_req.set_flags with
  | Some p => snd p
  | None => -1
  end.

Definition b01 (b : bool) : N := if b then 1%N else 0%N.

(** struct.pack(fmt, ...) as a [res] *)
Definition spack (f : string) (vs : list value) : res bytes :=
  match parse_fmt f with
  | None => Raise "bad format"
  | Some ft => match pack ft vs with
               | Some b => Ok b
               | None => Raise "struct.error"
               end
  end.

Definition sunpack (f : string) (b : bytes) : res (list value) :=
  match parse_fmt f with
  | None => Raise "bad format"
  | Some ft => match unpack ft b with
               | Some vs => Ok vs
               | None => Raise "struct.error"
               end
  end.

Definition bind {A B} (r : res A) (k : A -> res B) : res B :=
  match r with
  | Ok a => k a
  | Err e => Err e
  | Raise w => Raise w
  end.

(** bytes([x]) *)
Definition bytes1 (z : Z) : res bytes :=
  if (0 <=? z) && (z <? 256) then Ok [Z.to_N z] else Raise "ValueError".

(** * client side *)
Definition frame_set (fid : Z) (flags : Z) (chan : Z) (data : bytes) : res bytes :=
  bind (spack Gen_req.set_data_fmt [VInt flags; VInt chan])
       (fun h => frame_create fid (h ++ data)).

Definition frame_start (start : bool) : res bytes :=
  bind (spack Gen_req.start_fmt [VBool start]) (frame_create (id_of "START")).

Definition frame_cmninfo : res bytes := frame_create (id_of "CMNINFO") [].

Definition frame_chinfo (chan : Z) : res bytes :=
  bind (spack Gen_req.chinfo_fmt [VInt chan]) (frame_create (id_of "CHINFO")).

Inductive en_req := EnSingle (chan : Z) (v : bool) | EnVec (l : list bool).
Inductive div_req := DivSingle (chan : Z) (v : Z) | DivVec (l : list Z).

Definition all_same {A} (eqb : A -> A -> bool) (l : list A) : bool :=
  match l with
  | [] => true
  | x :: r => forallb (eqb x) r
  end.

(** for _chan in range(chmax): data += b"\x01" if enable[_chan] is True else b"\x00" *)
Fixpoint en_bulk_bytes (n : nat) (l : list bool) : res bytes :=
  match n with
  | O => Ok []
  | S n' =>
      match l with
      | [] => Raise "IndexError"
      | b :: r => bind (en_bulk_bytes n' r)
                    (fun t => Ok ((if b then Gen_req.enable_true_byte
                                   else Gen_req.enable_false_byte) ++ t))
      end
  end.

Fixpoint div_bulk_bytes (n : nat) (l : list Z) : res bytes :=
  match n with
  | O => Ok []
  | S n' =>
      match l with
      | [] => Raise "IndexError"
      | z :: r => bind (bytes1 z) (fun h => bind (div_bulk_bytes n' r) (fun t => Ok (h ++ t)))
      end
  end.

Definition frame_enable (req : en_req) (chmax : Z) : res bytes :=
  match req with
  | EnSingle chan v =>
      frame_set (id_of "ENABLE") (set_flag "SINGLE") chan [b01 v]
  | EnVec l =>
      if (zlen l =? chmax) && all_same Bool.eqb l then
        match l with
        | [] => Raise "IndexError"
        | v :: _ => frame_set (id_of "ENABLE") (set_flag "ALL") 0 [b01 v]
        end
      else
        bind (en_bulk_bytes (Z.to_nat chmax) l)
             (fun data => if zlen data =? 0 then Raise "AssertionError"
                          else frame_set (id_of "ENABLE") (set_flag "BULK") 0 data)
  end.

Definition frame_div (req : div_req) (chmax : Z) : res bytes :=
  match req with
  | DivSingle chan v =>
      bind (bytes1 v) (frame_set (id_of "DIV") (set_flag "SINGLE") chan)
  | DivVec l =>
      if (zlen l =? chmax) && all_same Z.eqb l then
        match l with
        | [] => Raise "IndexError"
        | v :: _ => bind (bytes1 v) (frame_set (id_of "DIV") (set_flag "ALL") 0)
        end
      else
        bind (div_bulk_bytes (Z.to_nat chmax) l)
             (fun data => if zlen data =? 0 then Raise "AssertionError"
                          else frame_set (id_of "DIV") (set_flag "BULK") 0 data)
  end.

(** * device side *)
Definition frame_start_decode (data : bytes) : res bool :=
  bind (sunpack Gen_req.start_decode_fmt (pyslice data 0 1))
       (fun vs => match vs with
                  | [VBool b] => Ok b
                  | _ => Raise "TypeError"
                  end).

Definition frame_set_decode (data : bytes) : res (Z * Z) :=
  bind (sunpack Gen_req.set_decode_fmt data)
       (fun vs => match vs with
                  | [VInt f; VInt c] => Ok (f, c)
                  | _ => Raise "TypeError"
                  end).

(** format  str(chmax) + code *)
Definition counted_fmt (n : Z) (code : string) : res fmt :=
  match parse_fmt code with
  | Some (mkFmt e nat [mkItem 1 c]) => Ok (mkFmt e nat [mkItem (Z.to_nat n) c])
  | _ => Raise "bad format"
  end.

Definition sunpack_n (n : Z) (code : string) (b : bytes) : res (list value) :=
  bind (counted_fmt n code)
       (fun ft => match unpack ft b with
                  | Some vs => Ok vs
                  | None => Raise "struct.error"
                  end).

Fixpoint list_set {A} (l : list A) (i : nat) (x : A) : option (list A) :=
  match l, i with
  | [], _ => None
  | _ :: r, O => Some (x :: r)
  | y :: r, S i' => option_map (cons y) (list_set r i' x)
  end.

Definition value_truth (v : value) : bool :=
  match v with
  | VBool b => b
  | VInt z => negb (z =? 0)
  | _ => true
  end.

Definition bools_of (vs : list value) : list bool := map value_truth vs.
Fixpoint ints_of (vs : list value) : res (list Z) :=
  match vs with
  | [] => Ok []
  | VInt z :: r => bind (ints_of r) (fun t => Ok (z :: t))
  | _ => Raise "TypeError"
  end.

Definition frame_enable_decode (data : bytes) (cur : list bool) : res (list bool) :=
  let chmax := zlen cur in
  bind (frame_set_decode (slice_to data 2))
    (fun fc =>
       let '(flags, chan) := fc in
       if flags =? set_flag "BULK" then
         bind (sunpack_n chmax Gen_req.en_bulk_code (pyslice data 2 (2 + chmax)))
              (fun vs => Ok (bools_of vs))
       else if flags =? set_flag "SINGLE" then
         bind (sunpack Gen_req.en_single_fmt (pyslice data 2 3))
              (fun vs => match vs with
                         | [v] => match list_set cur (Z.to_nat chan) (value_truth v) with
                                  | Some l => Ok l
                                  | None => Raise "IndexError"
                                  end
                         | _ => Raise "TypeError"
                         end)
       else if flags =? set_flag "ALL" then
         bind (sunpack Gen_req.en_all_fmt (pyslice data 2 3))
              (fun vs => match vs with
                         | [v] => Ok (repeat (value_truth v) (length cur))
                         | _ => Raise "TypeError"
                         end)
       else Raise "ValueError").

Definition frame_div_decode (data : bytes) (cur : list Z) : res (list Z) :=
  let chmax := zlen cur in
  bind (frame_set_decode (slice_to data 2))
    (fun fc =>
       let '(flags, chan) := fc in
       if flags =? set_flag "BULK" then
         bind (sunpack_n chmax Gen_req.div_bulk_code (pyslice data 2 (2 + chmax))) ints_of
       else if flags =? set_flag "SINGLE" then
         bind (sunpack Gen_req.div_single_fmt (pyslice data 2 3))
              (fun vs => match vs with
                         | [VInt v] => match list_set cur (Z.to_nat chan) v with
                                       | Some l => Ok l
                                       | None => Raise "IndexError"
                                       end
                         | _ => Raise "TypeError"
                         end)
       else if flags =? set_flag "ALL" then
         bind (sunpack Gen_req.div_all_fmt (pyslice data 2 3))
              (fun vs => match vs with
                         | [VInt v] => Ok (repeat v (length cur))
                         | _ => Raise "TypeError"
                         end)
       else Raise "ValueError").

(** Model of the connect handshake (comm.py _start / _devinfo_get) against a
    link that may misbehave at every request, and of the life cycle of the
    high-level handler (nxscope.py connect / disconnect / stream_start /
    stream_stop).  Every loop is structurally recursive on its retry counter:
    the definitions are accepted by Coq only because they terminate. *)
From Coq Require Import List ZArith Bool.
From NX Require Gen_misc.
Import ListNotations.
Open Scope nat_scope.

(** what the link does with one request of the handshake *)
Inductive ans :=
  | AGood           (* the right response arrives *)
  | ASilent         (* nothing (or noise / a header residue that forms no frame): 1 s time-out *)
  | AWrong          (* a well-formed frame of another kind arrives *)
  | AMalformed.     (* the right kind of frame with an undecodable payload *)

Definition oracle := nat -> ans.      (* indexed by the number of requests sent so far *)

Record hs := mkHs { reqs : nat; timeouts : nat }.

Definition send (o : oracle) (st : hs) : ans * hs :=
  let a := o (reqs st) in
  (a, mkHs (S (reqs st)) (timeouts st + match a with ASilent => 1 | _ => 0 end)).

Inductive got := Got | GaveUp | Raised.

Definition chinfo_attempts : nat := Z.to_nat (Gen_misc.chinfo_retries + 1).
Definition connect_attempts : nat := Z.to_nat (Gen_misc.connect_timeout + 1).

(** while chan is None: if retries < 0: return None; chan = chinfo(i); retries -= 1 *)
Fixpoint chinfo_loop (n : nat) (o : oracle) (st : hs) : got * hs :=
  match n with
  | O => (GaveUp, st)
  | S n' =>
      let '(a, st') := send o st in
      match a with
      | AGood => (Got, st')
      | AMalformed => (Raised, st')
      | ASilent | AWrong => chinfo_loop n' o st'
      end
  end.

(** for i in range(chmax) *)
Fixpoint channels_loop (chmax : nat) (o : oracle) (st : hs) : got * hs :=
  match chmax with
  | O => (Got, st)
  | S c =>
      match chinfo_loop chinfo_attempts o st with
      | (Got, st') => channels_loop c o st'
      | r => r
      end
  end.

(** _devinfo_get *)
Definition devinfo_get (chmax : nat) (o : oracle) (st : hs) : got * hs :=
  let '(a, st') := send o st in
  match a with
  | AGood => channels_loop chmax o st'
  | AMalformed => (Raised, st')
  | ASilent | AWrong => (GaveUp, st')
  end.

(** while self._dev is None: if timeout < 0: raise TimeoutError; ...; timeout -= 1 *)
Fixpoint connect_loop (n : nat) (chmax : nat) (o : oracle) (st : hs) : got * hs :=
  match n with
  | O => (GaveUp, st)                     (* TimeoutError *)
  | S n' =>
      match devinfo_get chmax o st with
      | (GaveUp, st') => connect_loop n' chmax o st'
      | r => r
      end
  end.

Inductive outcome := Connected | TimeoutError | DecodeError.

Record comm := mkComm
  { started : bool; recv_running : bool; intf_running : bool; has_dev : bool }.

Definition comm0 : comm := mkComm false false false false.

(** CommHandler.connect on a handler that is not started; request 0 is the
    initial stop request (its answer is not awaited) *)
Definition connect (chmax : nat) (o : oracle) : outcome * comm * hs :=
  let st0 := mkHs 1 0 in
  match connect_loop connect_attempts chmax o st0 with
  | (Got, st) => (Connected, mkComm true true true true, st)
  | (GaveUp, st) => (TimeoutError, comm0, st)          (* except: thread_stop, intf.stop, dev = None *)
  | (Raised, st) => (DecodeError, comm0, st)
  end.

(** CommHandler.disconnect *)
Definition disconnect (c : comm) : comm := if started c then comm0 else c.

(** * life cycle of the high-level handler *)
Record nx := mkNx
  { connected_f : bool; stream_started : bool; stream_thread : bool; cm : comm;
    dev_streaming : bool; dev_enabled : bool;      (* the device: streaming? any channel enabled? *)
    dev_reqs : nat }.                               (* requests that reached the device *)

Inductive call :=
  | KConnect | KDisconnect | KStreamStart | KStreamStop | KSub | KUnsub | KEnable | KWrite.

Inductive ret := RDone | RAssert | RIndex.   (* returned / AssertionError / IndexError *)

(** on a device that answers (the clean life cycle of C09) *)
Definition nx_step (s : nx) (k : call) : nx * ret :=
  match k with
  | KConnect =>
      if connected_f s then (s, RDone)
      else (* stop request, cmninfo, chinfo...: the device is told to stop streaming *)
        (mkNx true (stream_started s) (stream_thread s) (mkComm true true true true)
              false (dev_enabled s) (S (dev_reqs s)), RDone)
  | KDisconnect =>
      if connected_f s then
        (mkNx false false false comm0 false false (S (dev_reqs s)), RDone)
      else (s, RDone)
  | KStreamStart =>
      if stream_started s then (s, RDone)
      else if connected_f s then
        (mkNx true true true (cm s) true (dev_enabled s) (S (dev_reqs s)), RDone)
      else (s, RAssert)                     (* channels_write: assert self.dev *)
  | KStreamStop =>
      if stream_started s then
        (mkNx (connected_f s) false false (cm s) false (dev_enabled s) (S (dev_reqs s)), RDone)
      else (s, RDone)
  | KSub => if connected_f s then (s, RDone) else (s, RIndex)
  | KUnsub => (s, RDone)
  | KEnable => if connected_f s then (s, RDone) else (s, RAssert)
  | KWrite =>
      if connected_f s then
        (mkNx true (stream_started s) (stream_thread s) (cm s) (dev_streaming s) true (S (dev_reqs s)), RDone)
      else (s, RAssert)
  end.

Definition nx_run (s : nx) (ks : list call) : nx := fold_left (fun st k => fst (nx_step st k)) ks s.

Definition nx0 (streaming enabled : bool) : nx := mkNx false false false comm0 streaming enabled 0.

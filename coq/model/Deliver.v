(** Model of sample fan-out (nxscope.py _stream_thread + stream_sub /
    stream_unsub) and of the two FIFO hops in front of it (comm.py
    _recv_thread routing, stream_data). *)
From Coq Require Import List ZArith Bool.
Import ListNotations.
Open Scope nat_scope.

Definition sample := (nat * Z)%type.              (* channel, value (stands for data+meta) *)
Record sframe := mkSF { sf_flags : Z; sf_samples : list sample }.
Definition qid := nat.

Record dstate := mkDS
  { subs : list (nat * qid);                       (* (channel, queue), in subscription order *)
    queues : list (qid * list (list Z));           (* queue contents: list of groups, oldest first *)
    enabled : list bool;
    ovf : nat }.                                   (* overflow counter *)

Definition group (c : nat) (f : sframe) (en : list bool) : list Z :=
  if nth c en false
  then map snd (filter (fun s => Nat.eqb (fst s) c) (sf_samples f))
  else [].

Fixpoint qput (qs : list (qid * list (list Z))) (q : qid) (g : list Z) : list (qid * list (list Z)) :=
  match qs with
  | [] => [(q, [g])]
  | (q', l) :: r => if Nat.eqb q' q then (q', l ++ [g]) :: r else (q', l) :: qput r q g
  end.

Fixpoint qget (qs : list (qid * list (list Z))) (q : qid) : list (list Z) :=
  match qs with
  | [] => []
  | (q', l) :: r => if Nat.eqb q' q then l else qget r q
  end.

(** the loop under the queue lock: for chan in range(chmax): if samples[chan]: for que in sub_q[chan]: put *)
Definition deliver_chan (f : sframe) (en : list bool) (sb : list (nat * qid)) (c : nat)
  (qs : list (qid * list (list Z))) : list (qid * list (list Z)) :=
  match group c f en with
  | [] => qs
  | g => fold_left (fun acc cq => if Nat.eqb (fst cq) c then qput acc (snd cq) g else acc) sb qs
  end.

Definition deliver (s : dstate) (f : sframe) : dstate :=
  mkDS (subs s)
       (fold_left (fun qs c => deliver_chan f (enabled s) (subs s) c qs) (seq 0 (length (enabled s))) (queues s))
       (enabled s)
       (ovf s + if Z.odd (sf_flags f) then 1 else 0).

Definition subscribe (s : dstate) (c : nat) (q : qid) : dstate :=
  mkDS (subs s ++ [(c, q)]) (queues s) (enabled s) (ovf s).
Definition unsubscribe (s : dstate) (q : qid) : dstate :=
  mkDS (filter (fun cq => negb (Nat.eqb (snd cq) q)) (subs s)) (queues s) (enabled s) (ovf s).

(** the pipeline in front: device -> wire FIFO -> (recv thread) -> stream-frame FIFO -> (stream thread) *)
Record pipe := mkP { wire_q : list sframe; stream_q : list sframe; done_q : list sframe }.
Inductive plabel := PSend (f : sframe) | PRoute | PTake.
Definition pstep (p : pipe) (l : plabel) : option pipe :=
  match l with
  | PSend f => Some (mkP (wire_q p ++ [f]) (stream_q p) (done_q p))
  | PRoute => match wire_q p with
              | f :: r => Some (mkP r (stream_q p ++ [f]) (done_q p))
              | [] => None
              end
  | PTake => match stream_q p with
             | f :: r => Some (mkP (wire_q p) r (done_q p ++ [f]))
             | [] => None
             end
  end.
Fixpoint prun (tr : list plabel) (p : pipe) : option pipe :=
  match tr with
  | [] => Some p
  | l :: r => match pstep p l with Some p' => prun r p' | None => None end
  end.
Fixpoint sent (tr : list plabel) : list sframe :=
  match tr with
  | [] => []
  | PSend f :: r => f :: sent r
  | _ :: r => sent r
  end.

(** Frame codecs as nxslib's ICommFrame interface sees them, the interface laws,
    and frame reassembly / the one-pass scan specification over an ARBITRARY codec
    (model/Reasm.v is this file's text specialised to the built-in codec). *)
From Coq Require Import String.
From NX Require Export Frame Reasm.
Open Scope Z_scope.

Record codec := mkCodec
  { k_hdr_len : Z;
    k_sof : N;
    k_hdr_decode : bytes -> res (Z * Z);          (* (frame id, total frame length) *)
    k_frame_decode : bytes -> res (Z * bytes) }.  (* (frame id, payload) *)

(** what comm.py relies on *)
Record lawful (K : codec) : Prop := mkLawful
  { law_hdr_len : 1 <= k_hdr_len K;
    law_hdr_short : forall d, zlen d < k_hdr_len K -> exists e, k_hdr_decode K d = Err e;
    law_hdr_no_raise : forall d w, wf_bytes d -> k_hdr_decode K d <> Raise w;
    law_hdr_prefix : forall a b, k_hdr_len K <= zlen a -> k_hdr_decode K (a ++ b) = k_hdr_decode K a;
    law_hdr_sof : forall d fid flen, k_hdr_decode K d = Ok (fid, flen) -> exists r, d = k_sof K :: r;
    law_frame_no_raise : forall d w, wf_bytes d -> k_frame_decode K d <> Raise w }.

Definition serial_codec : codec := mkCodec hdr_len sof_byte hdr_decode frame_decode.

Section Generic.
Variable K : codec.

Definition khdr_find (d : bytes) : Z :=
  match find_byte (k_sof K) d with
  | Some i => Z.of_nat i
  | None => -1
  end.

(** the link: remaining read chunks; a read on an exhausted link returns [] *)

(** inner loop of _kread_hdr: accumulate at least k_hdr_len K bytes.
    None = an empty read came first (buffer kept by the caller) *)
Fixpoint kaccumulate (fuel : nat) (need : Z) (buf : bytes) (l : link)
  : option bytes * bytes * link :=
  if zlen buf <? need then
    match fuel with
    | O => (None, buf, l)
    | S f =>
        let '(rd, l') := read l in
        match rd with
        | [] => (None, buf, l')
        | _ => kaccumulate f need (buf ++ rd) l'
        end
    end
  else (Some buf, buf, l).

Inductive khdr_out :=
  | KHNone (prev : bytes) (l : link)                 (* (None, None) *)
  | KHFound (fid flen : Z) (buf : bytes) (l : link)
  | KHRaise (w : string)
  | KHFuel.

(** _kread_hdr *)
Fixpoint kread_hdr (fuel : nat) (prev : bytes) (l : link) : khdr_out :=
  match fuel with
  | O => KHFuel
  | S f =>
      match kaccumulate (S (length l)) (k_hdr_len K) prev l with
      | (None, buf, l') => KHNone buf l'
      | (Some buf, _, l') =>
          let i := khdr_find buf in
          if i <? 0 then KHNone [] l'
          else
            let b := slice_from buf i in
            if zlen b <? k_hdr_len K then kread_hdr f b l'
            else match k_hdr_decode K b with
                 | Raise w => KHRaise w
                 | Err _ => kread_hdr f (slice_from b 1) l'
                 | Ok (fid, flen) => KHFound fid flen b l'
                 end
      end
  end.

Inductive kframe_out :=
  | KFNone (prev : bytes) (l : link)
  | KFFrame (fid : Z) (payload : bytes) (prev : bytes) (l : link)
  | KFRaise (w : string)
  | KFFuel.

(** while len(_bytes) < flen: rdata = read(); if not rdata: break; _bytes += rdata *)
Fixpoint kfill (fuel : nat) (need : Z) (buf : bytes) (l : link) : bytes * link :=
  if zlen buf <? need then
    match fuel with
    | O => (buf, l)
    | S f =>
        let '(rd, l') := read l in
        match rd with
        | [] => (buf, l')
        | _ => kfill f need (buf ++ rd) l'
        end
    end
  else (buf, l).

(** _kread_frame *)
Definition kread_frame (prev : bytes) (l : link) : kframe_out :=
  match kread_hdr (S (length prev + length (concat l) + length l)) prev l with
  | KHFuel => KFFuel
  | KHRaise w => KFRaise w
  | KHNone p l' => KFNone p l'
  | KHFound fid flen b l' =>
      let '(b2, l2) := kfill (S (length l')) flen b l' in
      if zlen b2 <? flen then KFNone b2 l2
      else match k_frame_decode K (slice_to b2 flen) with
           | Ok (fid', p) => KFFrame fid' p (slice_from b2 flen) l2
           | Err _ => KFNone (slice_from b2 1) l2
           | Raise w => KFRaise w
           end
  end.

(** the receive loop: call _kread_frame until the link is exhausted and a call
    made on the exhausted link returned nothing and left the buffer as it was *)
Fixpoint krecv_loop (fuel : nat) (prev : bytes) (l : link) (acc : list (Z * bytes))
  : option (list (Z * bytes) * bytes) :=
  match fuel with
  | O => None
  | S f =>
      match kread_frame prev l with
      | KFFuel | KFRaise _ => None
      | KFFrame fid p prev' l' => krecv_loop f prev' l' (acc ++ [(fid, p)])
      | KFNone prev' l' =>
          match l with
          | [] => if Nat.eqb (length prev') (length prev) then Some (acc, prev')
                  else krecv_loop f prev' l' acc       (* buffered bytes still being scanned *)
          | _ => krecv_loop f prev' l' acc
          end
      end
  end.

Definition krecv_all (chunks : link) : option (list (Z * bytes) * bytes) :=
  krecv_loop (2 * (length (concat chunks) + length chunks) + 4) [] chunks [].

(** * Specification: one left-to-right pass over the received bytes *)
Fixpoint kscan_fuel (fuel : nat) (s : bytes) : list (Z * bytes) * bytes :=
  match fuel with
  | O => ([], s)
  | S f =>
      match s with
      | [] => ([], [])
      | x :: r =>
          if negb (x =? k_sof K)%N then kscan_fuel f r             (* skip to the next SOF *)
          else if zlen s <? k_hdr_len K then ([], s)                   (* header incomplete: pending *)
          else match k_hdr_decode K s with
               | Ok (fid, flen) =>
                   if zlen s <? flen then ([], s)                  (* frame incomplete: pending *)
                   else match k_frame_decode K (slice_to s flen) with
                        | Ok (fid', p) =>
                            let '(fs, rest) := kscan_fuel f (slice_from s (Z.max 1 flen)) in
                            ((fid', p) :: fs, rest)
                        | _ => kscan_fuel f r                       (* bad CRC / length: advance one byte *)
                        end
               | _ => kscan_fuel f r                                (* bad header: advance one byte *)
               end
      end
  end.

Definition kscan (s : bytes) : list (Z * bytes) * bytes := kscan_fuel (S (length s)) s.

End Generic.

(** Model of CommInterfaceCommon.data_align / write (intf/iintf.py). *)
From NX Require Export Bytes.
From NX Require Gen_misc.
Open Scope Z_scope.

Definition data_align (p : Z) (d : bytes) : bytes :=
  if p =? 0 then d else
  let modlen := zlen d mod p in
  if modlen =? 0 then d
  else d ++ concat (repeat Gen_misc.align_pad_byte (Z.to_nat (p - modlen))).

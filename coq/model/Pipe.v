(** Model of the serial-port interface as a byte pipe (intf/serial.py): the OS
    hands the waiting bytes to read() in chunks of its own choosing. *)
From Coq Require Import List ZArith.
From NX Require Export Bytes Pad Reasm.
Import ListNotations.

(** [sizes]: how many waiting bytes the OS reports at each read (possibly 0, possibly more than there are) *)
Fixpoint pipe_reads (buf : bytes) (sizes : list nat) : list bytes * bytes :=
  match sizes with
  | [] => ([], buf)
  | n :: r => let '(cs, rest) := pipe_reads (skipn n buf) r in (firstn n buf :: cs, rest)
  end.

(** SerialDevice.write: the padded bytes go to the port *)
Definition serial_write (padding : Z) (d : bytes) : bytes := data_align padding d.

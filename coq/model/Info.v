(** Model of the device description codecs: device side encodes cmninfo /
    chinfo / ack (proto/parserecv.py), client side decodes (proto/parse.py). *)
From Coq Require Import String.
From NX Require Export Request Utf8.
From NX Require Gen_req.
Open Scope string_scope.
Open Scope list_scope.
Open Scope Z_scope.

Record chan_cfg := mkChan
  { c_en : bool; c_type : Z; c_vdim : Z; c_div : Z; c_mlen : Z;
    c_name : list N (* code points *) }.

(** format  prefix + str(n) + suffix-code *)
Definition fmt_counted_tail (prefix : string) (n : Z) (suffix : string) : res fmt :=
  match parse_fmt prefix, parse_fmt suffix with
  | Some (mkFmt e nat its), Some (mkFmt _ _ [mkItem 1 c]) =>
      if n <? 0 then Raise "struct.error"
      else Ok (mkFmt e nat (its ++ [mkItem (Z.to_nat n) c]))
  | _, _ => Raise "bad format"
  end.

(** * device side *)
Definition cmninfo_data_encode (chmax flags rxpadding : Z) : res bytes :=
  spack Gen_req.cmninfo_fmt [VInt chmax; VInt flags; VInt rxpadding].

Definition frame_cmninfo_encode (chmax flags rxpadding : Z) : res bytes :=
  bind (cmninfo_data_encode chmax flags rxpadding) (frame_create (id_of "CMNINFO")).

Definition chinfo_data_encode (c : chan_cfg) : res bytes :=
  if negb (forallb valid_cp (c_name c)) then Raise "UnicodeEncodeError" else
  let name := utf8_enc (c_name c) in
  bind (fmt_counted_tail Gen_req.chinfo_enc_prefix (zlen name) Gen_req.chinfo_enc_suffix)
    (fun ft =>
       match pack ft [VBool (c_en c); VInt (c_type c); VInt (c_vdim c); VInt (c_div c);
                      VInt (c_mlen c); VBytes name] with
       | Some b => Ok b
       | None => Raise "struct.error"
       end).

Definition frame_chinfo_encode (c : chan_cfg) : res bytes :=
  bind (chinfo_data_encode c) (frame_create (id_of "CHINFO")).

Definition frame_ack_encode (ret : Z) : res bytes :=
  bind (spack Gen_req.ack_fmt [VInt ret]) (frame_create (id_of "ACK")).

(** * client side: the argument is a decoded frame (fid, data); [None] = the
    Python method returned None *)
Definition frame_cmninfo_decode (fid : Z) (data : bytes) : res (option (Z * Z * Z)) :=
  if negb (fid =? id_of "CMNINFO") then Ok None else
  bind (sunpack Gen_req.cmninfo_dec_fmt (slice_to data Gen_req.cmninfo_dec_len))
       (fun vs => match vs with
                  | [VInt a; VInt b; VInt c] => Ok (Some (a, b, c))
                  | _ => Raise "TypeError"
                  end).

Definition frame_chinfo_decode (fid : Z) (data : bytes) : res (option chan_cfg) :=
  if negb (fid =? id_of "CHINFO") then Ok None else
  let nlen := zlen data - Gen_req.chinfo_dec_hdr in
  bind (fmt_counted_tail Gen_req.chinfo_dec_prefix nlen Gen_req.chinfo_dec_suffix)
    (fun ft =>
       match unpack ft data with
       | Some [VInt en; VInt ty; VInt vdim; VInt div; VInt mlen; VBytes s] =>
           match s with
           | [] => Ok (Some (mkChan (negb (en =? 0)) ty vdim div mlen []))
           | _ => match utf8_dec s with
                  | Some cps => Ok (Some (mkChan (negb (en =? 0)) ty vdim div mlen (until_nul cps)))
                  | None => Raise "UnicodeDecodeError"
                  end
           end
       | Some _ => Raise "TypeError"
       | None => Raise "struct.error"
       end).

(** ParseAck(state, retcode) *)
Definition frame_ack_decode (fid : Z) (data : bytes) : res (option (bool * Z)) :=
  if negb (fid =? id_of "ACK") then Ok None else
  bind (sunpack Gen_req.ack_dec_fmt data)
       (fun vs => match vs with
                  | [VInt r] => Ok (Some (if r =? 0 then (true, 0) else (false, r)))
                  | _ => Raise "TypeError"
                  end).

(** Model of nxslib.thread.ThreadCommon at source-line granularity: one
    controlling thread calling thread_start / thread_stop in any order, worker
    incarnations running _thread_loop, every interleaving of their lines. *)
From Coq Require Import List Bool.
From NX Require Import Trans.
Import ListNotations.

(** worker program counter (lines of _thread_loop) *)
Inductive wpc :=
  | WCreated          (* Thread object made, not started *)
  | WInit             (* about to run: if self._init: self._init() *)
  | WTest             (* about to test: while not self._stop_is_set() *)
  | WTarget           (* about to call self._target() *)
  | WFinal            (* about to run: if self._final: self._final() *)
  | WDone.            (* returned: not alive *)

(** controller program counter *)
Inductive cpc :=
  | CIdle             (* between calls *)
  | CS1               (* thread_start: if not self._thrd *)
  | CS2               (* self._stop_clear() *)
  | CS3               (* self._thrd = threading.Thread(...) *)
  | CS4               (* self._thrd.start() *)
  | CT1               (* thread_stop: if self._thrd is None: return *)
  | CT2               (* self.stop_set() *)
  | CT3               (* if self.thread_is_alive() *)
  | CT4               (* self._thrd.join() *)
  | CT5.              (* self._thrd = None *)

Inductive last_call := LNone | LStart | LStop.

Record wstate := mkW
  { c_pc : cpc;
    w_flag : bool;                 (* stop flag *)
    w_handle : option wpc;         (* self._thrd: the worker it refers to *)
    w_orphan : option wpc;         (* an alive worker no handle refers to (a leak) *)
    w_last : last_call;            (* the call that returned last *)
    w_bad : bool }.                (* monitor: something forbidden was observed *)

Inductive wlabel :=
  | LCallStart        (* the controller, idle, calls thread_start *)
  | LCallStop         (* the controller, idle, calls thread_stop *)
  | LCtl              (* the controller executes its current line *)
  | LWrk              (* the handle's worker executes its current line *)
  | LOrphan.          (* the leaked worker executes its current line *)

Definition alive (p : wpc) : bool :=
  match p with WCreated | WDone => false | _ => true end.

(** one line of the worker; [flag] is read at WTest *)
Definition wstep (flag : bool) (p : wpc) : option wpc :=
  match p with
  | WCreated | WDone => None
  | WInit => Some WTest
  | WTest => Some (if flag then WFinal else WTarget)
  | WTarget => Some WTest
  | WFinal => Some WDone
  end.

Definition set_pc (s : wstate) (p : cpc) : wstate :=
  mkW p (w_flag s) (w_handle s) (w_orphan s) (w_last s) (w_bad s).

Definition opt_alive (o : option wpc) : bool := match o with Some p => alive p | None => false end.

(** monitor: the target must never run after stop returned and before the next
    start call; two workers must never be alive at once *)
Definition target_forbidden (s : wstate) : bool :=
  match w_last s, c_pc s with
  | LStop, CIdle => true
  | _, _ => false
  end.

Definition wrk_bad (s : wstate) (p : wpc) : bool :=
  match p with WTarget => target_forbidden s | _ => false end.

Definition step (s : wstate) (l : wlabel) : option wstate :=
  match l with
  | LCallStart => match c_pc s with CIdle => Some (set_pc s CS1) | _ => None end
  | LCallStop => match c_pc s with CIdle => Some (set_pc s CT1) | _ => None end
  | LWrk =>
      match w_handle s with
      | Some p => match wstep (w_flag s) p with
                  | Some p' => Some (mkW (c_pc s) (w_flag s) (Some p') (w_orphan s) (w_last s)
                                         (w_bad s || wrk_bad s p))
                  | None => None
                  end
      | None => None
      end
  | LOrphan =>
      match w_orphan s with
      | Some p => match wstep (w_flag s) p with
                  | Some p' => Some (mkW (c_pc s) (w_flag s) (w_handle s)
                                         (if alive p' then Some p' else None) (w_last s)
                                         (w_bad s || wrk_bad s p))
                  | None => None
                  end
      | None => None
      end
  | LCtl =>
      match c_pc s with
      | CIdle => None
      | CS1 => match w_handle s with
               | None => Some (set_pc s CS2)
               | Some _ => Some (mkW CIdle (w_flag s) (w_handle s) (w_orphan s) LStart (w_bad s))
               end
      | CS2 => Some (mkW CS3 false (w_handle s) (w_orphan s) (w_last s) (w_bad s))
      | CS3 => (* the old handle, if any, is overwritten: an alive worker would leak *)
          let leak := match w_handle s with
                      | Some p => if alive p then Some p else w_orphan s
                      | None => w_orphan s
                      end in
          Some (mkW CS4 (w_flag s) (Some WCreated) leak (w_last s)
                    (w_bad s || (opt_alive (w_handle s) && opt_alive (w_orphan s))))
      | CS4 => match w_handle s with
               | Some WCreated => Some (mkW CIdle (w_flag s) (Some WInit) (w_orphan s) LStart
                                            (w_bad s || opt_alive (w_orphan s)))
               | _ => Some (mkW CIdle (w_flag s) (w_handle s) (w_orphan s) LStart true)  (* RuntimeError *)
               end
      | CT1 => match w_handle s with
               | None => Some (mkW CIdle (w_flag s) None (w_orphan s) LStop (w_bad s))
               | Some _ => Some (set_pc s CT2)
               end
      | CT2 => Some (mkW CT3 true (w_handle s) (w_orphan s) (w_last s) (w_bad s))
      | CT3 => if opt_alive (w_handle s) then Some (set_pc s CT4) else Some (set_pc s CT5)
      | CT4 => (* join: enabled only once the worker has finished *)
          match w_handle s with
          | Some WDone => Some (set_pc s CT5)
          | Some WCreated => Some (set_pc s CT5)
          | Some _ => None
          | None => Some (set_pc s CT5)
          end
      | CT5 =>
          let leak := match w_handle s with
                      | Some p => if alive p then Some p else w_orphan s
                      | None => w_orphan s
                      end in
          Some (mkW CIdle (w_flag s) None leak LStop (w_bad s))
      end
  end.

Definition all_labels : list wlabel := [LCallStart; LCallStop; LCtl; LWrk; LOrphan].

Definition init_state : wstate := mkW CIdle false None None LNone false.

(** safety: nothing forbidden observed, no leaked worker, and once stop has
    returned nothing is alive *)
Definition safeb (s : wstate) : bool :=
  negb (w_bad s) && negb (opt_alive (w_orphan s)) &&
  match w_last s, c_pc s with
  | LStop, CIdle => negb (opt_alive (w_handle s)) && match w_handle s with None => true | Some _ => false end
  | _, _ => true
  end.

(** boolean equality on states *)
Definition wpc_eqb (a b : wpc) : bool :=
  match a, b with
  | WCreated, WCreated | WInit, WInit | WTest, WTest | WTarget, WTarget | WFinal, WFinal | WDone, WDone => true
  | _, _ => false
  end.
Definition cpc_eqb (a b : cpc) : bool :=
  match a, b with
  | CIdle, CIdle | CS1, CS1 | CS2, CS2 | CS3, CS3 | CS4, CS4 | CT1, CT1 | CT2, CT2 | CT3, CT3 | CT4, CT4 | CT5, CT5 => true
  | _, _ => false
  end.
Definition last_eqb (a b : last_call) : bool :=
  match a, b with LNone, LNone | LStart, LStart | LStop, LStop => true | _, _ => false end.
Definition opt_eqb (a b : option wpc) : bool :=
  match a, b with None, None => true | Some x, Some y => wpc_eqb x y | _, _ => false end.
Definition ws_eqb (a b : wstate) : bool :=
  cpc_eqb (c_pc a) (c_pc b) && Bool.eqb (w_flag a) (w_flag b) && opt_eqb (w_handle a) (w_handle b) &&
  opt_eqb (w_orphan a) (w_orphan b) && last_eqb (w_last a) (w_last b) && Bool.eqb (w_bad a) (w_bad b).

Definition reachable_set : list wstate :=
  reach wstate wlabel step all_labels ws_eqb 200 [init_state].
